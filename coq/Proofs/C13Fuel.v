(* C13: the fuel of the NEXUS drivers suffices: with fuel >= (number of tokens) + 2 no loop of the
   iterator (hence, by lock-step, of the reader) runs out of fuel, provided the statement parser
   consumes a prefix and does not itself run out of fuel.  Every loop iteration either fetches a
   token or sees the end of the stream, after which every guard is false. *)
From Coq Require Import ZArith List Bool Lia.
From DV Require Import Model.PyPrims Model.C13Model Proofs.C13Lockstep Proofs.C13Suffix Proofs.C13Blocks Proofs.C13Examples.
Import ListNotations.

Definition len (z : tz) : nat := length (z_toks z).
(* the stream has reported its end *)
Definition ended (z : tz) : Prop := z_toks z = [] /\ z_eof z = true.

Section Fuel.
Variable T : Type.
Variables lower upper : str -> str.
Variable parse_tree : mapper -> tz -> res (option T * mapper * tz).
Variable set_label : T -> option str -> T.
Variable add_comments : T -> list str -> T.
Variable vl : bool.
Variable c : nscfg.
Variable et : bool.

Hypothesis parse_tree_suf : forall m z ot m' z',
  parse_tree m z = Ok (ot, m', z') -> suf (z_toks z') (z_toks z).
Hypothesis parse_tree_nf : forall m z, parse_tree m z <> OutOfFuel.

Lemma suf_len : forall z' z, suf (z_toks z') (z_toks z) -> (len z' <= len z)%nat.
Proof. intros. unfold len. apply suf_length. assumption. Qed.

(* one fetch: either a token is consumed, or the stream has ended (and stays so) *)
Lemma fetch_cases : forall z,
  (exists e, fetch z = Err e)
  \/ (exists z', fetch z = Ok (true, z') /\ S (len z') = len z)
  \/ (exists z', fetch z = Ok (false, z') /\ z_toks z = [] /\ ended z').
Proof.
  intros z. unfold fetch, len, ended. destruct (z_toks z) as [|t r] eqn:E.
  - destruct (z_end z).
    + right. right. eexists. split; [reflexivity|]. simpl. auto.
    + left. eexists. reflexivity.
  - right. left. eexists. split; [reflexivity|]. simpl. reflexivity.
Qed.

Lemma next_token_cases : forall z,
  (exists e, next_token z = Err e)
  \/ (exists z', next_token z = Ok z' /\ S (len z') = len z)
  \/ (exists z', next_token z = Ok z' /\ z_toks z = [] /\ ended z' /\ z_cur z' = None).
Proof.
  intros z. unfold next_token. destruct (fetch_cases z) as [[e H]|[[z' [H L]]|[z' [H [E N]]]]]; rewrite H; cbn [bind].
  - left. eauto.
  - right. left. eauto.
  - right. right. eexists. split; [reflexivity|]. unfold ended in *. simpl. tauto.
Qed.

Lemma ntu_cases : forall z,
  (exists e, next_token_ucase upper z = Err e)
  \/ (exists z', next_token_ucase upper z = Ok z' /\ S (len z') = len z)
  \/ (exists z', next_token_ucase upper z = Ok z' /\ z_toks z = [] /\ ended z' /\ z_cur z' = None).
Proof.
  intros z. unfold next_token_ucase. destruct (fetch_cases z) as [[e H]|[[z' [H L]]|[z' [H [E N]]]]]; rewrite H; cbn [bind].
  - left. eauto.
  - right. left. eexists. split; [reflexivity|]. unfold len in *. simpl. assumption.
  - right. right. eexists. split; [reflexivity|]. unfold ended in *. simpl. tauto.
Qed.

Lemma rnt_cases : forall z,
  (exists e, require_next_token z = Err e) \/ (exists z', require_next_token z = Ok z' /\ S (len z') = len z).
Proof.
  intros z. unfold require_next_token. destruct (fetch_cases z) as [[e H]|[[z' [H L]]|[z' [H [E N]]]]]; rewrite H; cbn [bind]; eauto.
Qed.

Lemma rntu_cases : forall z,
  (exists e, require_next_token_ucase upper z = Err e)
  \/ (exists z', require_next_token_ucase upper z = Ok z' /\ S (len z') = len z).
Proof.
  intros z. unfold require_next_token_ucase. destruct (fetch_cases z) as [[e H]|[[z' [H L]]|[z' [H [E N]]]]]; rewrite H; cbn [bind]; eauto.
Qed.

Lemma ended_len : forall z, ended z -> len z = O.
Proof. intros z [H _]. unfold len. rewrite H. reflexivity. Qed.

(* once ended, a fetch keeps it ended *)
Lemma next_token_ended : forall z z', ended z -> next_token z = Ok z' -> ended z' /\ z_cur z' = None.
Proof.
  intros z z' E H. destruct (next_token_cases z) as [[e X]|[[z1 [X L]]|[z1 [X [A [B C]]]]]]; rewrite X in H; try discriminate.
  - pose proof (ended_len z E). lia.
  - inversion H; subst. auto.
Qed.
Lemma ntu_ended : forall z z', ended z -> next_token_ucase upper z = Ok z' -> ended z' /\ z_cur z' = None.
Proof.
  intros z z' E H. destruct (ntu_cases z) as [[e X]|[[z1 [X L]]|[z1 [X [A [B C]]]]]]; rewrite X in H; try discriminate.
  - pose proof (ended_len z E). lia.
  - inversion H; subst. auto.
Qed.

(* ---- skip_to_semicolon ---- *)
Lemma skip_loop_nf : forall fuel z, (len z + 2 <= fuel)%nat -> skip_loop fuel z <> OutOfFuel.
Proof.
  induction fuel as [|f IH]; intros z L; [lia|]. simpl.
  destruct (negb (tok_is z K_SEMI) && negb (z_eof z) && negb (cur_none z)) eqn:G; [|discriminate].
  destruct (next_token_cases z) as [[e X]|[[z1 [X L1]]|[z1 [X [A [[B1 B2] C]]]]]]; rewrite X; cbn [bind]; try discriminate.
  - apply IH. lia.
  - destruct f as [|f']; [unfold len in L; rewrite A in L; simpl in L; lia|].
    simpl. unfold cur_none. rewrite C. rewrite !andb_false_r. discriminate.
Qed.

Lemma skip_loop_ended : forall fuel z z', ended z -> skip_loop fuel z = Ok z' -> z' = z.
Proof.
  intros fuel z z' [E1 E2] H. destruct fuel; simpl in H; [discriminate|].
  rewrite E2 in H. rewrite andb_false_r in H. simpl in H. inversion H. reflexivity.
Qed.

Lemma skip_nf : forall fuel z, (len z + 2 <= fuel)%nat -> skip_to_semicolon fuel z <> OutOfFuel.
Proof.
  intros fuel z L. unfold skip_to_semicolon.
  destruct (next_token z) as [z1|e|] eqn:E; cbn [bind]; try discriminate.
  - apply skip_loop_nf. apply next_token_suf in E. apply suf_len in E. lia.
  - destruct (next_token_cases z) as [[e X]|[[z1 [X _]]|[z1 [X _]]]]; congruence.
Qed.

Lemma skip_ended : forall fuel z z', ended z -> skip_to_semicolon fuel z = Ok z' -> ended z'.
Proof.
  intros fuel z z' E H. unfold skip_to_semicolon in H.
  destruct (next_token z) as [z1|e|] eqn:X; cbn [bind] in H; try discriminate.
  destruct (next_token_ended z z1 E X) as [E1 _]. apply (skip_loop_ended fuel z1 z' E1) in H. subst. assumption.
Qed.

(* ---- _consume_to_end_of_block ---- *)
Lemma consume_loop_nf : forall fuel tok z, (len z + 2 <= fuel)%nat -> consume_loop upper fuel tok z <> OutOfFuel.
Proof.
  induction fuel as [|f IH]; intros tok z L; [lia|]. cbn [consume_loop].
  destruct (negb (is_end tok) && negb (z_eof z) && match tok with Some _ => true | None => false end) eqn:G; [|discriminate].
  destruct (skip_to_semicolon (S f) z) as [z1|e|] eqn:E1; cbn [bind]; try discriminate.
  2:{ exfalso. apply (skip_nf (S f) z L). assumption. }
  pose proof (suf_len _ _ (skip_to_semicolon_suf _ _ _ E1)) as L1.
  destruct (ntu_cases z1) as [[e X]|[[z2 [X L2]]|[z2 [X [A [[B1 B2] C]]]]]]; rewrite X; cbn [bind]; try discriminate.
  - apply IH. lia.
  - destruct f as [|f']; [lia|]. cbn [consume_loop]. rewrite B2. rewrite andb_false_r. simpl. discriminate.
Qed.
Lemma consume_nf : forall fuel tok z, (len z + 2 <= fuel)%nat -> consume_to_end_of_block upper fuel tok z <> OutOfFuel.
Proof. intros. apply consume_loop_nf. assumption. Qed.

Lemma consume_loop_ended : forall fuel tok z z', ended z -> consume_loop upper fuel tok z = Ok z' -> z' = z.
Proof.
  intros fuel tok z z' [E1 E2] H. destruct fuel; [discriminate|]. cbn [consume_loop] in H.
  rewrite E2 in H. rewrite andb_false_r in H. simpl in H. inversion H. reflexivity.
Qed.

(* ---- scan for BEGIN ---- *)
Lemma scan_begin_nf : forall fuel z, (len z + 2 <= fuel)%nat -> scan_begin upper fuel z <> OutOfFuel.
Proof.
  induction fuel as [|f IH]; intros z L; [lia|]. simpl.
  destruct (negb (cur_none z) && negb (tok_is z K_BEGIN) && negb (z_eof z)); [|discriminate].
  destruct (ntu_cases z) as [[e X]|[[z1 [X L1]]|[z1 [X [A [[B1 B2] C]]]]]]; rewrite X; cbn [bind]; try discriminate.
  - apply IH. lia.
  - destruct f as [|f']; [unfold len in L; rewrite A in L; simpl in L; lia|].
    simpl. rewrite B2. rewrite andb_false_r. discriminate.
Qed.

Lemma scan_begin_ended : forall fuel z z', ended z -> scan_begin upper fuel z = Ok z' -> z' = z.
Proof.
  intros fuel z z' [E1 E2] H. destruct fuel; simpl in H; [discriminate|].
  rewrite E2 in H. rewrite andb_false_r in H. inversion H. reflexivity.
Qed.

(* ---- block_head ---- *)
Lemma block_head_nf : forall fuel k, (len (k_z k) + 2 <= fuel)%nat -> block_head upper fuel k <> OutOfFuel.
Proof.
  intros fuel k L. unfold block_head, zstep.
  destruct (next_token_ucase upper (k_z k)) as [z1|e|] eqn:E1; cbn [bind k_z set_z]; try discriminate.
  2:{ destruct (ntu_cases (k_z k)) as [[e X]|[[z1 [X _]]|[z1 [X _]]]]; congruence. }
  pose proof (suf_len _ _ (next_token_ucase_suf upper _ _ E1)) as L1.
  destruct (scan_begin upper fuel z1) as [z2|e|] eqn:E2; cbn [bind k_z set_z]; try discriminate.
  2:{ exfalso. apply (scan_begin_nf fuel z1); [lia | assumption]. }
  destruct (next_token_ucase upper (clear_comments z2)) as [z3|e|] eqn:E3; cbn [bind]; try discriminate.
  destruct (ntu_cases (clear_comments z2)) as [[e X]|[[z3 [X _]]|[z3 [X _]]]]; congruence.
Qed.

(* either a token was consumed, or the stream has ended and no block name was read *)
Lemma block_head_progress : forall fuel k k4,
  block_head upper fuel k = Ok k4 ->
  (S (len (k_z k4)) <= len (k_z k))%nat \/ (ended (k_z k4) /\ z_cur (k_z k4) = None).
Proof.
  intros fuel k k4 H. unfold block_head, zstep in H.
  destruct (next_token_ucase upper (k_z k)) as [z1|e|] eqn:E1; cbn [bind k_z set_z] in H; try discriminate.
  destruct (scan_begin upper fuel z1) as [z2|e|] eqn:E2; cbn [bind k_z set_z] in H; try discriminate.
  destruct (next_token_ucase upper (clear_comments z2)) as [z3|e|] eqn:E3; cbn [bind] in H; try discriminate.
  inversion H; subst. cbn [k_z set_z].
  pose proof (suf_len _ _ (scan_begin_suf upper _ _ _ E2)) as L2.
  pose proof (suf_len _ _ (next_token_ucase_suf upper _ _ E3)) as L3.
  assert (L3' : (len z3 <= len z2)%nat) by (unfold len in *; simpl in *; assumption).
  destruct (ntu_cases (k_z k)) as [[e X]|[[z1' [X L1]]|[z1' [X [A [B C]]]]]]; rewrite X in E1; try discriminate.
  - inversion E1; subst. left. lia.
  - inversion E1; subst. right.
    apply (scan_begin_ended fuel z1 z2 B) in E2. subst z2.
    assert (EC : ended (clear_comments z1)) by (destruct B; split; assumption).
    apply (ntu_ended _ _ EC E3).
Qed.

(* ---- the statement-level loops: each recursion follows a consumed token ---- *)
Lemma link_loop_nf : forall fuel z v, (len z + 1 <= fuel)%nat -> link_loop upper vl fuel z v <> OutOfFuel.
Proof.
  induction fuel as [|f IH]; intros z v L; [lia|]. simpl.
  destruct (tok_is z K_SEMI); [discriminate|].
  assert (EQCASE : forall (cont : tz -> option str), (forall z3, cont z3 = cont z3) ->
            forall w, (do z1 <- next_token z ;;
                       if negb (tok_is z1 K_EQ) then Err ParseErr
                       else do z2 <- next_token z1 ;; do z3 <- (if vl then next_token_ucase upper z2 else next_token z2) ;; link_loop upper vl f z3 (w z2)) <> OutOfFuel).
  { intros _ _ w.
    destruct (next_token z) as [z1|e|] eqn:E1; cbn [bind]; try discriminate.
    2:{ destruct (next_token_cases z) as [[e X]|[[z1 [X _]]|[z1 [X _]]]]; congruence. }
    destruct (negb (tok_is z1 K_EQ)) eqn:EQ; [discriminate|].
    assert (P1 : S (len z1) = len z).
    { destruct (next_token_cases z) as [[e X]|[[z1' [X L1]]|[z1' [X [A [B C]]]]]]; rewrite X in E1; inversion E1; subst; auto.
      unfold tok_is in EQ. rewrite C in EQ. discriminate. }
    destruct (next_token z1) as [z2|e|] eqn:E2; cbn [bind]; try discriminate.
    2:{ destruct (next_token_cases z1) as [[e X]|[[z' [X _]]|[z' [X _]]]]; congruence. }
    pose proof (suf_len _ _ (next_token_suf _ _ E2)) as L2.
    assert (L3 : forall z3, (if vl then next_token_ucase upper z2 else next_token z2) = Ok z3 -> (len z3 <= len z2)%nat).
    { intros z3 E3. destruct vl; [apply next_token_ucase_suf in E3 | apply next_token_suf in E3]; apply suf_len; assumption. }
    destruct (if vl then next_token_ucase upper z2 else next_token z2) as [z3|e|] eqn:E3; cbn [bind]; try discriminate.
    2:{ destruct vl; [destruct (ntu_cases z2) as [[e X]|[[z' [X _]]|[z' [X _]]]] | destruct (next_token_cases z2) as [[e X]|[[z' [X _]]|[z' [X _]]]]]; congruence. }
    specialize (L3 z3 eq_refl).
    apply IH. lia. }
  destruct (tok_is z K_TAXA); [exact (EQCASE (fun _ => None) (fun _ => eq_refl) (fun z2 => z_cur z2))|].
  destruct (tok_is z K_CHARACTERS); [exact (EQCASE (fun _ => None) (fun _ => eq_refl) (fun _ => v))|].
  destruct (rntu_cases z) as [[e X]|[z1 [X L1]]]; rewrite X; cbn [bind]; try discriminate.
  apply IH. lia.
Qed.

Lemma parse_link_nf : forall fuel z, (len z + 1 <= fuel)%nat -> parse_link upper vl fuel z <> OutOfFuel.
Proof.
  intros fuel z L. unfold parse_link.
  destruct (next_token_ucase upper z) as [z1|e|] eqn:E; cbn [bind]; try discriminate.
  - apply link_loop_nf. pose proof (suf_len _ _ (next_token_ucase_suf upper _ _ E)). lia.
  - destruct (ntu_cases z) as [[e X]|[[z' [X _]]|[z' [X _]]]]; congruence.
Qed.

Lemma parse_title_nf : forall z, parse_title upper z <> OutOfFuel.
Proof.
  intros z. unfold parse_title. destruct (negb (tok_is (cast_ucase upper z) K_TITLE)); [discriminate|].
  destruct (rnt_cases (cast_ucase upper z)) as [[e X]|[z1 [X _]]]; rewrite X; cbn [bind]; try discriminate.
  destruct (rnt_cases z1) as [[e Y]|[z2 [Y _]]]; rewrite Y; cbn [bind]; try discriminate.
  destruct (negb (tok_is z2 K_SEMI)); discriminate.
Qed.

Lemma dimensions_loop_nf : forall fuel z n, (len z + 1 <= fuel)%nat -> dimensions_loop upper fuel z n <> OutOfFuel.
Proof.
  induction fuel as [|f IH]; intros z n L; [lia|]. simpl.
  destruct (tok_is z K_SEMI); [discriminate|].
  destruct (tok_is z K_NTAX || tok_is z K_NCHAR).
  { destruct (rntu_cases z) as [[e X]|[z1 [X L1]]]; rewrite X; cbn [bind]; try discriminate.
    destruct (tok_is z1 K_EQ); [|discriminate].
    destruct (rntu_cases z1) as [[e Y]|[z2 [Y L2]]]; rewrite Y; cbn [bind]; try discriminate.
    destruct (is_digit_str (cur_text z2)); [|discriminate].
    destruct (rntu_cases z2) as [[e W]|[z3 [W L3]]]; rewrite W; cbn [bind]; try discriminate.
    apply IH. lia. }
  destruct (tok_is z K_BEGIN); [discriminate|].
  destruct (rntu_cases z) as [[e X]|[z1 [X L1]]]; rewrite X; cbn [bind]; try discriminate.
  apply IH. lia.
Qed.

Lemma parse_dimensions_nf : forall fuel z n, (len z + 1 <= fuel)%nat -> parse_dimensions upper fuel z n <> OutOfFuel.
Proof.
  intros fuel z n L. unfold parse_dimensions.
  destruct (rntu_cases z) as [[e X]|[z1 [X L1]]]; rewrite X; cbn [bind]; try discriminate.
  apply dimensions_loop_nf. lia.
Qed.

Lemma taxlabels_loop_nf : forall fuel z taxa n, (len z + 1 <= fuel)%nat -> taxlabels_loop lower c fuel z taxa n <> OutOfFuel.
Proof.
  induction fuel as [|f IH]; intros z taxa n L; [lia|]. simpl.
  destruct (z_cur z) as [label|]; [|discriminate].
  destruct (str_eqb label K_SEMI); [discriminate|].
  match goal with |- bind ?r _ <> _ => destruct r as [taxa1|e|] eqn:E1 end; cbn [bind]; try discriminate.
  - destruct (rnt_cases z) as [[e X]|[z1 [X L1]]]; rewrite X; cbn [bind]; try discriminate.
    apply IH. unfold len in *. simpl. lia.
  - destruct (ns_get_taxon lower taxa label); [discriminate|]. destruct n; [|discriminate].
    destruct (_ && _); discriminate.
Qed.

Lemma parse_taxlabels_nf : forall fuel k ns, (len (k_z k) + 1 <= fuel)%nat -> parse_taxlabels lower c fuel k ns <> OutOfFuel.
Proof.
  intros fuel k ns L. unfold parse_taxlabels.
  destruct (require_next_token (k_z k)) as [z1|e|] eqn:E; cbn [bind]; try discriminate.
  2:{ destruct (rnt_cases (k_z k)) as [[e X]|[z' [X _]]]; congruence. }
  pose proof (suf_len _ _ (require_next_token_suf _ _ E)) as L1.
  destruct (taxlabels_loop lower c fuel z1 (ns_taxa_at k ns) (k_ntax k)) as [[taxa z2]|e|] eqn:E2; cbn [bind]; try discriminate.
  exfalso. apply (taxlabels_loop_nf fuel z1 (ns_taxa_at k ns) (k_ntax k)); [lia | assumption].
Qed.

Lemma taxa_loop_nf : forall fuel k g tok tns, (len (k_z k) + 1 <= fuel)%nat -> taxa_loop lower upper c fuel k g tok tns <> OutOfFuel.
Proof.
  induction fuel as [|f IH]; intros k g tok tns L; [lia|]. cbn [taxa_loop].
  destruct (str_eqb tok K_END || str_eqb tok K_ENDBLOCK); [discriminate|].
  destruct (rntu_cases (k_z k)) as [[e X]|[z1 [X L1]]]; rewrite X; cbn [bind]; try discriminate.
  match goal with |- bind ?r _ <> _ => destruct r as [[[[token2 k2] g2] tns2]|e|] eqn:E2 end; cbn [bind]; try discriminate.
  2:{ destruct (str_eqb (cur_text z1) K_TITLE); [|discriminate].
      destruct (parse_title upper (k_z (set_z k z1))) as [[title z2]|e|] eqn:E3; cbn [bind] in E2; try discriminate.
      - destruct (new_tns c (set_z (set_z k z1) z2) g (Some title)) as [[i k2'] g2']. discriminate.
      - exfalso. apply (parse_title_nf (k_z (set_z k z1))). assumption. }
  assert (S2 : (len (k_z k2) <= len z1)%nat).
  { destruct (str_eqb (cur_text z1) K_TITLE).
    - destruct (parse_title upper (k_z (set_z k z1))) as [[title z2]|e|] eqn:E3; cbn [bind] in E2; try discriminate.
      destruct (new_tns c (set_z (set_z k z1) z2) g (Some title)) as [[i k2'] g2'] eqn:E4.
      inversion E2; subst. apply new_tns_z in E4. rewrite E4. apply parse_title_suf in E3. apply suf_len in E3. simpl in *. assumption.
    - inversion E2; subst. simpl. lia. }
  match goal with |- bind ?r _ <> _ => destruct r as [k3|e|] eqn:E5 end; cbn [bind]; try discriminate.
  2:{ destruct (str_eqb token2 K_DIMENSIONS); [|discriminate].
      destruct (parse_dimensions upper (S f) (k_z k2) (k_ntax k2)) as [[n z3]|e|] eqn:E6; cbn [bind] in E5; try discriminate.
      exfalso. apply (parse_dimensions_nf (S f) (k_z k2) (k_ntax k2)); [lia | assumption]. }
  assert (S3 : (len (k_z k3) <= len (k_z k2))%nat).
  { destruct (str_eqb token2 K_DIMENSIONS).
    - destruct (parse_dimensions upper (S f) (k_z k2) (k_ntax k2)) as [[n z3]|e|] eqn:E6; cbn [bind] in E5; try discriminate.
      inversion E5; subst. apply parse_dimensions_suf in E6. apply suf_len in E6. simpl. assumption.
    - inversion E5; subst. lia. }
  destruct (str_eqb token2 K_TAXLABELS).
  - destruct (match tns2 with Some i => (i, k3, g2) | None => new_tns c k3 g2 None end) as [[i k4] g4] eqn:E7.
    assert (Z4 : k_z k4 = k_z k3).
    { destruct tns2; [inversion E7; reflexivity | eapply new_tns_z; eassumption]. }
    destruct (parse_taxlabels lower c (S f) (set_z k4 (clear_comments (k_z k4))) i) as [k5|e|] eqn:E8; cbn [bind]; try discriminate.
    + apply IH. apply parse_taxlabels_suf in E8. unfold ksuf in E8. apply suf_len in E8.
      unfold len in *. simpl in E8. rewrite Z4 in E8. lia.
    + exfalso. apply (parse_taxlabels_nf (S f) (set_z k4 (clear_comments (k_z k4))) i); [|assumption].
      unfold len in *. simpl. rewrite Z4. lia.
  - apply IH. lia.
Qed.

Lemma parse_taxa_block_nf : forall fuel k g, (len (k_z k) + 2 <= fuel)%nat -> parse_taxa_block lower upper c fuel k g <> OutOfFuel.
Proof.
  intros fuel k g L. unfold parse_taxa_block, zstep.
  destruct (skip_to_semicolon fuel (k_z k)) as [z1|e|] eqn:E1; cbn [bind]; try discriminate.
  2:{ exfalso. apply (skip_nf fuel (k_z k) L). assumption. }
  pose proof (suf_len _ _ (skip_to_semicolon_suf _ _ _ E1)) as L1.
  destruct (taxa_loop lower upper c fuel (set_z k z1) g [] None) as [[k2 g2]|e|] eqn:E2; cbn [bind]; try discriminate.
  2:{ exfalso. apply (taxa_loop_nf fuel (set_z k z1) g [] None); [simpl; lia | assumption]. }
  apply taxa_loop_suf in E2. unfold ksuf in E2. apply suf_len in E2. simpl in E2.
  destruct (skip_to_semicolon fuel (k_z k2)) as [z3|e|] eqn:E3; cbn [bind]; try discriminate.
  exfalso. apply (skip_nf fuel (k_z k2)); [unfold len in *; lia | assumption].
Qed.

Lemma translate_loop_nf : forall fuel z m n, (len z + 1 <= fuel)%nat -> translate_loop lower fuel z m n <> OutOfFuel.
Proof.
  induction fuel as [|f IH]; intros z m n L; [lia|]. simpl.
  destruct (next_token z) as [z1|e|] eqn:E1; cbn [bind]; try discriminate.
  2:{ destruct (next_token_cases z) as [[e X]|[[z' [X _]]|[z' [X _]]]]; congruence. }
  destruct (tok_is z1 K_SEMI && negb (z_quoted z1)); [discriminate|].
  destruct (next_token z1) as [z2|e|] eqn:E2; cbn [bind]; try discriminate.
  2:{ destruct (next_token_cases z1) as [[e X]|[[z' [X _]]|[z' [X _]]]]; congruence. }
  destruct (z_cur z2) as [tl|] eqn:C2; [|discriminate].
  match goal with |- bind ?r _ <> _ => destruct r as [[i taxa]|e|] eqn:ER end; cbn [bind]; try discriminate.
  2:{ destruct n; [destruct (ns_get_taxon lower (m_ns m) tl)|]; discriminate. }
  destruct (next_token z2) as [z3|e|] eqn:E3; cbn [bind]; try discriminate.
  2:{ destruct (next_token_cases z2) as [[e X]|[[z' [X _]]|[z' [X _]]]]; congruence. }
  destruct (cur_falsy z3 || tok_is z3 K_SEMI); [discriminate|].
  destruct (negb (tok_is z3 K_COMMA)); [discriminate|].
  apply IH.
  pose proof (suf_len _ _ (next_token_suf _ _ E1)). pose proof (suf_len _ _ (next_token_suf _ _ E3)).
  (* z2 carries a real token (its current token is Some), so the fetch from z1 consumed one *)
  destruct (next_token_cases z1) as [[e X]|[[z' [X L1]]|[z' [X [A [B C]]]]]]; rewrite X in E2; inversion E2; subst; [lia|].
  rewrite C in C2. discriminate.
Qed.

Lemma parse_translate_nf : forall fuel k ns, (len (k_z k) + 1 <= fuel)%nat -> parse_translate lower fuel k ns <> OutOfFuel.
Proof.
  intros fuel k ns L. unfold parse_translate.
  destruct (translate_loop lower fuel (k_z k) (new_mapper lower (ns_taxa_at k ns) true) (k_ntax k)) as [[m z]|e|] eqn:E; cbn [bind]; try discriminate.
  exfalso. apply (translate_loop_nf fuel (k_z k) (new_mapper lower (ns_taxa_at k ns) true) (k_ntax k) L). assumption.
Qed.

Notation PTS := (parse_tree_stmt T parse_tree set_label add_comments).
Notation YTL := (y_tree_loop T upper parse_tree set_label add_comments).
Notation YTS := (y_trees_loop T lower upper parse_tree set_label add_comments vl c).
Notation YTB := (y_trees_block T lower upper parse_tree set_label add_comments vl c et).
Notation YBL := (y_blocks_loop T lower upper parse_tree set_label add_comments vl c et).
Notation YST := (y_items_from_stream T lower upper parse_tree set_label add_comments vl c et).

Lemma pts_nf : forall m z, PTS m z <> OutOfFuel.
Proof.
  intros m z. unfold parse_tree_stmt.
  destruct (next_token z) as [z1|e|] eqn:E1; cbn [bind]; try discriminate.
  2:{ destruct (next_token_cases z) as [[e X]|[[z' [X _]]|[z' [X _]]]]; congruence. }
  match goal with |- bind ?r _ <> _ => destruct r as [z2|e|] eqn:E2 end; cbn [bind]; try discriminate.
  2:{ destruct (tok_is z1 K_STAR); [|discriminate].
      destruct (next_token_cases z1) as [[e X]|[[z' [X _]]|[z' [X _]]]]; congruence. }
  destruct (next_token z2) as [z3|e|] eqn:E3; cbn [bind]; try discriminate.
  2:{ destruct (next_token_cases z2) as [[e X]|[[z' [X _]]|[z' [X _]]]]; congruence. }
  unfold pull_comments. destruct (negb (tok_is (set_com z3 []) K_EQ)); [discriminate|].
  destruct (next_token (set_com z3 [])) as [z5|e|] eqn:E5; cbn [bind]; try discriminate.
  2:{ destruct (next_token_cases (set_com z3 [])) as [[e X]|[[z' [X _]]|[z' [X _]]]]; congruence. }
  destruct (parse_tree m z5) as [[[ot m1] z6]|e|] eqn:E6; cbn [bind]; try discriminate.
  - destruct ot; discriminate.
  - exfalso. apply (parse_tree_nf m z5). assumption.
Qed.

(* a successful TREE statement consumed at least one token ('=') *)
Lemma pts_progress : forall m z t m' z', PTS m z = Ok (t, m', z') -> (S (len z') <= len z)%nat.
Proof.
  intros m z t m' z' H. unfold parse_tree_stmt in H.
  destruct (next_token z) as [z1|e|] eqn:E1; cbn [bind] in H; try discriminate.
  match type of H with bind ?r _ = _ => destruct r as [z2|e|] eqn:E2 end; cbn [bind] in H; try discriminate.
  destruct (next_token z2) as [z3|e|] eqn:E3; cbn [bind] in H; try discriminate.
  unfold pull_comments in H. destruct (negb (tok_is (set_com z3 []) K_EQ)) eqn:EQ; [discriminate|].
  destruct (next_token (set_com z3 [])) as [z5|e|] eqn:E5; cbn [bind] in H; try discriminate.
  destruct (parse_tree m z5) as [[[ot m1] z6]|e|] eqn:E6; cbn [bind] in H; try discriminate.
  destruct ot; [|discriminate]. inversion H; subst.
  pose proof (suf_len _ _ (parse_tree_suf _ _ _ _ _ E6)) as L6.
  pose proof (suf_len _ _ (next_token_suf _ _ E5)) as L5.
  pose proof (suf_len _ _ (next_token_suf _ _ E1)) as L1.
  assert (L2 : (len z2 <= len z1)%nat).
  { destruct (tok_is z1 K_STAR); [apply suf_len; apply next_token_suf; assumption | inversion E2; lia]. }
  (* the fetch that delivered '=' consumed a token *)
  destruct (next_token_cases z2) as [[e X]|[[zz [X L3]]|[zz [X [A [B C]]]]]]; rewrite X in E3; inversion E3; subst.
  - unfold len in *. simpl in *. lia.
  - unfold tok_is in EQ. simpl in EQ. rewrite C in EQ. discriminate.
Qed.

Lemma y_tree_loop_nf : forall fuel k ns m, (len (k_z k) + 1 <= fuel)%nat -> snd (YTL fuel k ns m) <> OutOfFuel.
Proof.
  induction fuel as [|f IH]; intros k ns m L; [lia|]. simpl.
  destruct (PTS m (k_z k)) as [[[t m1] z1]|e|] eqn:E; simpl; try discriminate.
  2:{ exfalso. apply (pts_nf m (k_z k)). assumption. }
  apply pts_progress in E.
  destruct (z_eof z1 || cur_falsy z1); [simpl; discriminate|].
  destruct (negb (tok_is (cast_ucase upper z1) K_TREE)); [simpl; discriminate|].
  match goal with |- context [YTL f ?a ns m1] => specialize (IH a ns m1); destruct (YTL f a ns m1) as [out r] end.
  simpl in *. apply IH. unfold len in *. simpl in *. rewrite cast_toks. lia.
Qed.

Lemma ybind_nf : forall X Y (a : yres T X) (f : X -> yres T Y),
  snd a <> OutOfFuel -> (forall o x, a = (o, Ok x) -> snd (f x) <> OutOfFuel) -> snd (ybind T a f) <> OutOfFuel.
Proof.
  intros X Y [o [x|e|]] f H1 H2; simpl in *; try discriminate; [|congruence].
  specialize (H2 o x eq_refl). destruct (f x) as [o2 r]. simpl in *. assumption.
Qed.

Lemma loop_guard_ended : forall z tok, ended z -> loop_guard z tok = false.
Proof. intros z tok [_ E]. unfold loop_guard. rewrite E. reflexivity. Qed.

Lemma y_trees_loop_nf : forall fuel k g l, (len (k_z k) + 2 <= fuel)%nat -> snd (YTS fuel k g l) <> OutOfFuel.
Proof.
  induction fuel as [|f IH]; intros k g l L; [lia|]. cbn [y_trees_loop].
  destruct (loop_guard (k_z k) (l_token l)); [|simpl; discriminate].
  rewrite ybind_ylift. unfold zstep.
  destruct (ntu_cases (k_z k)) as [[e X]|[[z1 [X L1]]|[z1 [X [A [B C]]]]]]; rewrite X; cbn [bind]; try (simpl; discriminate).
  - (* a token was consumed *)
    set (k1 := set_z k z1).
    assert (LK : (len (k_z k1) + 2 <= f)%nat) by (simpl; lia).
    destruct (otok_is (z_cur (k_z k1)) K_LINK).
    { rewrite ybind_ylift. destruct (parse_link upper vl (S f) (k_z k1)) as [[lt z2]|e|] eqn:E2; try (simpl; discriminate).
      - apply IH. apply parse_link_suf in E2. apply suf_len in E2. simpl in *. lia.
      - exfalso. apply (parse_link_nf (S f) (k_z k1)); [lia | assumption]. }
    destruct (otok_is (z_cur (k_z k1)) K_TITLE).
    { rewrite ybind_ylift. destruct (parse_title upper (k_z k1)) as [[bt z2]|e|] eqn:E2; try (simpl; discriminate).
      - apply IH. apply parse_title_suf in E2. apply suf_len in E2. simpl in *. lia.
      - exfalso. apply (parse_title_nf (k_z k1)). assumption. }
    destruct (otok_is (z_cur (k_z k1)) K_TRANSLATE).
    { rewrite ybind_ylift. destruct (loc_get_ns upper c k1 g l) as [[[ns k2] g2]|e|] eqn:E2; try (simpl; discriminate).
      2:{ unfold loc_get_ns, get_tns in E2. destruct (l_ns l); [discriminate|]. destruct (c_attached c); [discriminate|].
          destruct (l_link l); [destruct (filter _ _) as [|x [|y r]]|destruct (g_reg g) as [|x [|y r]]]; discriminate. }
      apply loc_get_ns_z in E2. rewrite ybind_ylift.
      destruct (parse_translate lower (S f) k2 ns) as [[m k3]|e|] eqn:E3; try (simpl; discriminate).
      - apply IH. apply parse_translate_suf in E3. unfold ksuf in E3. apply suf_len in E3. unfold len in *. rewrite E2 in E3. lia.
      - exfalso. apply (parse_translate_nf (S f) k2 ns); [unfold len in *; rewrite E2; lia | assumption]. }
    destruct (otok_is (z_cur (k_z k1)) K_TREE).
    { rewrite ybind_ylift. destruct (loc_get_ns upper c k1 g l) as [[[ns k2] g2]|e|] eqn:E2; try (simpl; discriminate).
      2:{ unfold loc_get_ns, get_tns in E2. destruct (l_ns l); [discriminate|]. destruct (c_attached c); [discriminate|].
          destruct (l_link l); [destruct (filter _ _) as [|x [|y r]]|destruct (g_reg g) as [|x [|y r]]]; discriminate. }
      apply loc_get_ns_z in E2.
      destruct (pull_comments (k_z k2)) as [pre z3] eqn:EP. unfold pull_comments in EP. inversion EP; subst z3.
      apply ybind_nf.
      - apply y_tree_loop_nf. unfold len in *. simpl. rewrite E2. lia.
      - intros o [[k6 m1] tk] HY. apply IH.
        apply (y_tree_loop_suf T upper parse_tree set_label add_comments parse_tree_suf) in HY. unfold ksuf in HY.
        apply suf_len in HY. unfold len in *. simpl in HY. rewrite E2 in HY. lia. }
    destruct (otok_is (z_cur (k_z k1)) K_BEGIN); [simpl; discriminate|].
    apply IH. lia.
  - (* the stream has ended: the next guard is false *)
    set (k1 := set_z k z1).
    assert (TN : forall kw, otok_is (z_cur (k_z k1)) kw = false) by (intros; simpl; rewrite C; reflexivity).
    rewrite !TN.
    destruct f as [|f']; [unfold len in L; rewrite A in L; simpl in L; lia|].
    cbn [y_trees_loop]. rewrite (loop_guard_ended (k_z k1) _ B). simpl. discriminate.
Qed.

Lemma y_trees_block_nf : forall fuel k g, (len (k_z k) + 2 <= fuel)%nat -> snd (YTB fuel k g) <> OutOfFuel.
Proof.
  intros fuel k g L. unfold y_trees_block.
  destruct (negb (tok_is (cast_ucase upper (k_z k)) K_TREES)); [simpl; discriminate|].
  assert (LC : (len (cast_ucase upper (k_z k)) + 2 <= fuel)%nat) by (unfold len in *; rewrite cast_toks; assumption).
  destruct et.
  - unfold ylift, zstep. simpl.
    destruct (consume_to_end_of_block upper fuel _ (cast_ucase upper (k_z k))) as [z1|e|] eqn:E; cbn [bind]; try discriminate.
    exfalso. apply (consume_nf fuel (z_cur (cast_ucase upper (k_z k))) (cast_ucase upper (k_z k)) LC). assumption.
  - rewrite ybind_ylift. unfold zstep. simpl k_z.
    destruct (skip_to_semicolon fuel (cast_ucase upper (k_z k))) as [z1|e|] eqn:E1; cbn [bind]; try (simpl; discriminate).
    2:{ exfalso. apply (skip_nf fuel (cast_ucase upper (k_z k)) LC). assumption. }
    pose proof (suf_len _ _ (skip_to_semicolon_suf _ _ _ E1)) as L1.
    apply ybind_nf.
    + apply y_trees_loop_nf. simpl. lia.
    + intros o [k2 g2] HY. unfold ylift. simpl.
      apply y_trees_loop_suf in HY; [|assumption]. unfold ksuf in HY. apply suf_len in HY. simpl in HY.
      destruct (skip_to_semicolon fuel (k_z k2)) as [z3|e|] eqn:E3; cbn [bind]; try discriminate.
      exfalso. apply (skip_nf fuel (k_z k2)); [unfold len in *; lia | assumption].
Qed.

Lemma y_blocks_loop_nf : forall fuel k g, (len (k_z k) + 2 <= fuel)%nat -> snd (YBL fuel k g) <> OutOfFuel.
Proof.
  induction fuel as [|f IH]; intros k g L; [lia|]. cbn [y_blocks_loop].
  destruct (negb (z_eof (k_z k))); [|simpl; discriminate].
  rewrite ybind_ylift.
  destruct (block_head upper (S f) k) as [k4|e|] eqn:EH; try (simpl; discriminate).
  2:{ exfalso. apply (block_head_nf (S f) k L). assumption. }
  destruct (block_head_progress _ _ _ EH) as [P|[EN CN]].
  - (* a token was consumed *)
    assert (L4 : (len (k_z k4) + 2 <= f)%nat) by lia.
    destruct (otok_is (z_cur (k_z k4)) K_TAXA).
    { rewrite ybind_ylift.
      destruct (parse_taxa_block lower upper c (S f) k4 g) as [[k5 g5]|e|] eqn:E5; try (simpl; discriminate).
      - apply IH. apply parse_taxa_block_suf in E5. unfold ksuf in E5. apply suf_len in E5. unfold len in *. lia.
      - exfalso. apply (parse_taxa_block_nf (S f) k4 g); [lia | assumption]. }
    destruct (otok_is (z_cur (k_z k4)) K_TREES).
    { apply ybind_nf.
      - apply y_trees_block_nf. lia.
      - intros o [k5 g5] HY. apply IH.
        apply (y_trees_block_suf T lower upper parse_tree set_label add_comments vl c et parse_tree_suf) in HY.
        unfold ksuf in HY. apply suf_len in HY. unfold len in *. lia. }
    destruct (otok_is (z_cur (k_z k4)) K_BEGIN); [simpl; discriminate|].
    rewrite ybind_ylift. unfold zstep.
    destruct (consume_to_end_of_block upper (S f) (z_cur (k_z k4)) (k_z k4)) as [z5|e|] eqn:E5; cbn [bind]; try (simpl; discriminate).
    + apply IH. apply consume_suf in E5. apply suf_len in E5. simpl. unfold len in *. lia.
    + exfalso. apply (consume_nf (S f) (z_cur (k_z k4)) (k_z k4)); [lia | assumption].
  - (* the stream has ended *)
    assert (TN : forall kw, otok_is (z_cur (k_z k4)) kw = false) by (intros; rewrite CN; reflexivity).
    rewrite !TN. rewrite ybind_ylift. unfold zstep.
    destruct (consume_to_end_of_block upper (S f) (z_cur (k_z k4)) (k_z k4)) as [z5|e|] eqn:E5; cbn [bind]; try (simpl; discriminate).
    + apply (consume_loop_ended _ _ _ _ EN) in E5. subst z5.
      destruct f as [|f']; [lia|].
      cbn [y_blocks_loop]. simpl k_z. destruct EN as [_ EE]. rewrite EE. simpl. discriminate.
    + exfalso. apply (consume_nf (S f) (z_cur (k_z k4)) (k_z k4)); [rewrite (ended_len _ EN); lia | assumption].
Qed.

Lemma y_items_nf : forall fuel k g, (len (k_z k) + 2 <= fuel)%nat -> snd (YST fuel k g) <> OutOfFuel.
Proof.
  intros fuel k g L. unfold y_items_from_stream. rewrite ybind_ylift. unfold zstep.
  destruct (require_next_token (k_z k)) as [z1|e|] eqn:E; cbn [bind]; try (simpl; discriminate).
  2:{ destruct (rnt_cases (k_z k)) as [[e X]|[z' [X _]]]; congruence. }
  simpl k_z. destruct (z_cur z1); [|simpl; discriminate].
  destruct (negb (str_eqb (upper s) K_NEXUS)); [simpl; discriminate|].
  apply y_blocks_loop_nf. pose proof (suf_len _ _ (require_next_token_suf _ _ E)). simpl. lia.
Qed.

End Fuel.

(* the skeleton statement parser of the correspondence run never runs out of its own fuel *)
Section SkFuel.
Variable lower : str -> str.

Lemma sk_skip_semis_nf : forall fuel z tc, (len z + 1 <= fuel)%nat -> sk_skip_semis fuel z tc <> OutOfFuel.
Proof.
  induction fuel as [|f IH]; intros z tc L; [lia|]. simpl.
  destruct ((tok_is z K_SEMI || cur_none z) && negb (z_eof z)); [|discriminate].
  destruct (rnt_cases z) as [[e X]|[z1 [X L1]]]; rewrite X; cbn [bind]; try discriminate.
  apply IH. unfold len in *. simpl. lia.
Qed.

Lemma sk_trailing_nf : forall fuel z, (len z + 2 <= fuel)%nat -> sk_trailing fuel z <> OutOfFuel.
Proof.
  induction fuel as [|f IH]; intros z L; [lia|]. simpl.
  destruct (tok_is z K_SEMI && negb (z_eof z)); [|discriminate].
  destruct (next_token_cases (clear_comments z)) as [[e X]|[[z1 [X L1]]|[z1 [X [A [[B1 B2] C]]]]]]; rewrite X; cbn [bind]; try discriminate.
  - apply IH. unfold len in *. simpl in *. lia.
  - destruct f as [|f']; [unfold len in *; simpl in *; lia|]. simpl. unfold tok_is. rewrite C. simpl. discriminate.
Qed.

Lemma sk_body_nf : forall fuel m z items ncs ac seen, (len z + 1 <= fuel)%nat ->
  sk_body lower fuel m z items ncs ac seen <> OutOfFuel.
Proof.
  induction fuel as [|f IH]; intros m z items ncs ac seen L; [lia|]. simpl.
  assert (LZ : len (set_com z []) = len z) by reflexivity.
  destruct (tok_is (set_com z []) K_SEMI).
  { destruct (next_token_cases (set_com z [])) as [[e X]|[[z1 [X _]]|[z1 [X _]]]]; rewrite X; cbn [bind]; discriminate. }
  destruct (tok_is (set_com z []) P_OPEN).
  { destruct (rnt_cases (set_com z [])) as [[e X]|[z1 [X L1]]]; rewrite X; cbn [bind]; try discriminate. apply IH. lia. }
  destruct (tok_is (set_com z []) P_CLOSE).
  { destruct (rnt_cases (set_com z [])) as [[e X]|[z1 [X L1]]]; rewrite X; cbn [bind]; try discriminate. apply IH. lia. }
  destruct (tok_is (set_com z []) K_COMMA).
  { destruct (rnt_cases (set_com z [])) as [[e X]|[z1 [X L1]]]; rewrite X; cbn [bind]; try discriminate. apply IH. lia. }
  destruct (tok_is (set_com z []) P_COLON).
  { destruct (rnt_cases (set_com z [])) as [[e X]|[z1 [X L1]]]; rewrite X; cbn [bind]; try discriminate.
    assert (LZ1 : len (set_com z1 []) = len z1) by reflexivity.
    destruct (rnt_cases (set_com z1 [])) as [[e Y]|[z2 [Y L2]]]; rewrite Y; cbn [bind]; try discriminate. apply IH. lia. }
  destruct ac.
  - destruct (rnt_cases (set_com z [])) as [[e X]|[z1 [X L1]]]; rewrite X; cbn [bind]; try discriminate. apply IH. lia.
  - destruct (require_taxon_for_symbol lower m (cur_text (set_com z []))) as [i m1].
    destruct (existsb (Nat.eqb i) seen); [discriminate|].
    destruct (rnt_cases (set_com z [])) as [[e X]|[z1 [X L1]]]; rewrite X; cbn [bind]; try discriminate. apply IH. lia.
Qed.

Lemma sk_parse_tree_nf : forall m z, sk_parse_tree lower m z <> OutOfFuel.
Proof.
  intros m z. unfold sk_parse_tree, pull_comments.
  destruct (sk_skip_semis (length (z_toks z) + 3) (set_com z []) (z_com z)) as [[tc z1]|e|] eqn:E1; cbn [bind]; try discriminate.
  2:{ exfalso. apply (sk_skip_semis_nf (length (z_toks z) + 3) (set_com z []) (z_com z)); [unfold len; simpl; lia | assumption]. }
  apply C13Examples.sk_skip_semis_suf in E1. apply suf_length in E1. simpl in E1.
  destruct (z_eof z1); [discriminate|].
  destruct (sk_tree_comments tc None []) as [rooted kept].
  destruct (sk_body lower (length (z_toks z) + 3) m z1 [] [] false []) as [[[[items ncs] m1] z2]|e|] eqn:E2; cbn [bind]; try discriminate.
  2:{ exfalso. apply (sk_body_nf (length (z_toks z) + 3) m z1 [] [] false []); [unfold len; lia | assumption]. }
  apply C13Examples.sk_body_props in E2. destruct E2 as [S2 _]. apply suf_length in S2.
  destruct (sk_trailing (length (z_toks z) + 3) z2) as [z3|e|] eqn:E3; cbn [bind]; try discriminate.
  exfalso. apply (sk_trailing_nf (length (z_toks z) + 3) z2); [unfold len; lia | assumption].
Qed.

End SkFuel.
