(* C03Gen: Node._convert_node_to_root_polytomy (recursive: a Fixpoint on the fuel, one unit per call,
   exactly like Heap.root_polytomy) and Tree.polytomize_root as generated = Heap.v / HeapOps.v. *)
From Coq Require Import ZArith List Bool Lia.
From DV Require Import Model.PyPrims Model.Tree Model.Heap Model.HeapOps Model.C15Prims Model.MutPrims Gen.Mutators
     Model.C03GenInst Proofs.C03Base Proofs.C03GenPrims Proofs.C03GenNode Proofs.C03GenHeq Proofs.C03GenRemove
     Proofs.C03GenEdge Proofs.C03GenTree Proofs.C03GenReseed Proofs.C03GenMisc.
Import ListNotations.
Open Scope Z_scope.

(* after the edge-length update: detach the internal child c, re-attach its children, recurse *)
Lemma rp_tail_lemma (fuel : nat) (s c : Z) (h1 : heap) :
  (forall s h, exists v, Node__convert_node_to_root_polytomy HG fuel s h = lift v (root_polytomy fuel s h)) ->
  exists v,
    match Node_remove_child__suppress_unifurcations_False HG s c h1 with
    | MOk _ s0 =>
      match mfor (fun gc (_ : unit) s1 =>
                    match Node_add_child HG s gc s1 with
                    | MOk _ s2 => MOk (LNext tt) s2
                    | MErr dv_e s2 => MErr dv_e s2
                    | MFuel => MFuel
                    end) (kids s0 c) tt s0 with
      | MOk _ s1 =>
        match Node__convert_node_to_root_polytomy HG fuel s s1 with
        | MOk r s2 => MOk ([c] ++ r) s2
        | MErr dv_e s2 => MErr dv_e s2
        | MFuel => MFuel
        end
      | MErr dv_e s1 => MErr dv_e s1
      | MFuel => MFuel
      end
    | MErr dv_e s0 => MErr dv_e s0
    | MFuel => MFuel
    end
    = lift v (hdo h2 <- remove_child_plain s c h1 ;;
              hdo h3 <- hfold (add_child s) (kids h2 c) h2 ;;
              root_polytomy fuel s h3).
Proof.
  intro IH. rewrite gen_remove_plain_lift.
  destruct (remove_child_plain s c h1) as [h2|e h2|]; simpl lift; simpl hbind; cbv iota beta;
    [|exists []; reflexivity|exists []; reflexivity].
  rewrite gen_add_loop_lift.
  destruct (hfold (add_child s) (kids h2 c) h2) as [h3|e3 h3|]; simpl lift; simpl hbind; cbv iota beta;
    [|exists []; reflexivity|exists []; reflexivity].
  destruct (IH s h3) as [v E]. rewrite E.
  destruct (root_polytomy fuel s h3); simpl; [eexists; reflexivity|exists []; reflexivity|exists []; reflexivity].
Qed.

Lemma gen_root_polytomy : forall fuel s h,
  exists v, Node__convert_node_to_root_polytomy HG fuel s h = lift v (root_polytomy fuel s h).
Proof.
  induction fuel as [|fuel IH]; intros s h; [exists []; reflexivity|].
  cbn [Node__convert_node_to_root_polytomy root_polytomy].
  unfold Node_child_nodes. hsimpm. cbv zeta.
  destruct (kids h s) as [|lft [|rgt [|x r]]] eqn:Ek.
  - exists []. reflexivity.
  - change (Z.gtb (py_len [lft]) 2) with false. cbv iota.
    change (py_index [lft] 0) with (Some lft). cbv iota.
    change (Z.eqb (py_len [lft]) 1) with true. cbv iota.
    rewrite gen_is_internal. destruct (is_internal h lft); [|exists []; reflexivity].
    unfold Node__get_edge. hsimpm. cbv zeta. unfold add_len_try.
    destruct (elen h s), (elen h lft); cbv iota; (apply rp_tail_lemma; exact IH).
  - change (Z.gtb (py_len [lft; rgt]) 2) with false. cbv iota.
    change (py_index [lft; rgt] 0) with (Some lft). cbv iota.
    change (Z.eqb (py_len [lft; rgt]) 1) with false. cbv iota.
    change (py_index [lft; rgt] 1) with (Some rgt). cbv iota.
    rewrite !gen_is_internal. unfold Node__get_edge. hsimpm. cbv zeta.
    destruct (is_internal h rgt).
    + unfold add_len_try. destruct (elen h lft), (elen h rgt); cbv iota; (apply rp_tail_lemma; exact IH).
    + destruct (is_internal h lft); [|exists []; reflexivity].
      unfold add_len_try. destruct (elen h rgt), (elen h lft); cbv iota; (apply rp_tail_lemma; exact IH).
  - replace (Z.gtb (py_len (lft :: rgt :: x :: r)) 2) with true; [exists []; reflexivity|].
    symmetry. apply Z.gtb_lt. unfold py_len. simpl length. lia.
Qed.

Theorem gen_polytomize_root su h :
  to_hres (Tree_polytomize_root HG (fuel_of h) su h) = polytomize_root su h.
Proof.
  unfold Tree_polytomize_root, polytomize_root, Tree__get_seed_node, Tree__set_is_rooted. hsimpm. cbv zeta.
  destruct (gen_root_polytomy (fuel_of h) (seed h) h) as [v ->].
  destruct (root_polytomy (fuel_of h) (seed h) h) as [h1|e h1|]; simpl; try reflexivity.
  destruct su; reflexivity.
Qed.
