(* C14, sixth wave: generating trees with polytomies (the four-point condition is not strictly resolved).
   By the uniqueness of the weighted split system (Proofs/C14SplitTree.v tree_metric_unique, which needs no
   strictness): ANY tree that realises the leaf distances of a rose tree t (any shape, non-negative lengths)
   and has no negative split carries, on every split, the length that split has in t -- so it is a
   refinement of t whose extra edges all have total length 0.  That NJ's output on such a matrix realises
   the distances is NOT proved in general (the Q-criterion of Proofs/C14NjQ.v needs strictly resolved
   quartets); it is computed on a witness below. *)
From Coq Require Import ZArith QArith List Bool Lia Lqa.
From DV Require Import Model.PyPrims Model.Tree Model.C14Model Model.C14Spec Model.C14Spec2 Model.C14Spec3
     Proofs.C14Dict Proofs.C14Pdm Proofs.C14Clu Proofs.C14Proofs Proofs.C14Means Proofs.C14Upgma Proofs.C14Nj Proofs.C14Tq
     Proofs.C14Uniq Proofs.C14Split Proofs.C14SplitTree Proofs.C14NjUniq.
Import ListNotations.
Open Scope Z_scope.

Theorem realising_tree_refines_l t T :
  good_leaves t -> nonneg_lengths t ->
  qleaves_ok T -> NoDup (qtaxa T) -> (forall a, qhas a T = true <-> In (Some a) (leaf_taxa t)) -> split_nonneg T ->
  (forall a b, In (Some a) (leaf_taxa t) -> In (Some b) (leaf_taxa t) -> a <> b ->
     exists q d, qdist T a b = Some q /\ dist t a b = Some d /\ (q == uq d)%Q) ->
  (forall s, proper_split (qtaxa T) s -> (split_len T s == split_len (tq t) s)%Q) /\
  (forall m, In m (qnodes T) -> proper_split (qtaxa T) (qcl m) ->
     (forall n, In n (qnodes (tq t)) -> same_split (qtaxa T) (qcl m) (qcl n) = false) ->
     (split_len T (qcl m) == 0)%Q).
Proof.
  intros G Nn LO ND HO SN HD.
  assert (LO' : qleaves_ok (tq t)) by (apply tq_leaves_ok; exact (proj2 G)).
  assert (ND' : NoDup (qtaxa (tq t))) by (rewrite qtaxa_tq; apply taxa_of_NoDup; exact G).
  assert (SN' : split_nonneg (tq t)) by (apply nodes_nonneg_split_nonneg; apply tq_nodes_nonneg; exact Nn).
  assert (HE : forall x, qhas x T = qhas x (tq t)).
  { intro x. rewrite qhas_tq. destruct (qhas x T) eqn:E1; destruct (has x t) eqn:E2; try reflexivity.
    - apply HO in E1. apply has_In in E1. congruence.
    - apply has_In in E2. apply HO in E2. congruence. }
  assert (DE : deq T (tq t)).
  { intros x y Hx Hy Nxy. apply HO in Hx. apply HO in Hy. destruct (HD x y Hx Hy Nxy) as [q [d [E1 [E2 V]]]].
    destruct (qdist_tq t x y d E2) as [q' [E3 V']]. exists q, q'. repeat split; auto. rewrite V, V'. reflexivity. }
  assert (U : forall s, proper_split (qtaxa T) s -> (split_len T s == split_len (tq t) s)%Q)
    by (apply (tree_metric_unique T (tq t) LO LO' ND ND' HE DE SN SN')).
  split; [exact U|]. intros m Hm Pm No. rewrite (U (qcl m) Pm). rewrite split_len_slen. unfold slen. apply sumif_false.
  intros n Hn. rewrite <- (No n Hn). apply same_split_members. intro x. rewrite <- !qhas_taxa, HE. tauto.
Qed.

(* a generating tree with a polytomy at the root and one below it: ((A:1,B:2,C:3):2,D:1,E:2) *)
Definition ex_poly : tree :=
  T 0 None None None
    [T 1 None None (Some 2048) [T 2 (Some 0) None (Some 1024) []; T 3 (Some 1) None (Some 2048) []; T 4 (Some 2) None (Some 3072) []];
     T 5 (Some 3) None (Some 1024) []; T 6 (Some 4) None (Some 2048) []].

(* what nj_tree returns on its matrix (computed): a binary tree with two internal edges of length 0 *)
Definition ex_poly_nj : qtree :=
  QT 8 None None
    [QT 6 None (Some 0%Q) [QT 0 (Some 0) (Some 1%Q) []; QT 1 (Some 1) (Some 2%Q) []];
     QT 7 None (Some 0%Q)
        [QT 2 (Some 2) (Some 3%Q) [];
         QT 5 None (Some 2%Q) [QT 3 (Some 3) (Some 1%Q) []; QT 4 (Some 4) (Some 2%Q) []]]].

Lemma ex_poly_runs :
  (do p <- compile_from_tree ex_poly ;; nj_tree (qtable p true) [0; 1; 2; 3; 4]) = Ok ex_poly_nj.
Proof. vm_compute. reflexivity. Qed.

Lemma ex_poly_ok :
  good_leaves ex_poly /\ nonneg_lengths ex_poly /\
  qleaves_ok ex_poly_nj /\ NoDup (qtaxa ex_poly_nj) /\
  (forall a, qhas a ex_poly_nj = true <-> In (Some a) (leaf_taxa ex_poly)) /\ split_nonneg ex_poly_nj /\
  (forall a b, In (Some a) (leaf_taxa ex_poly) -> In (Some b) (leaf_taxa ex_poly) -> a <> b ->
     exists q d, qdist ex_poly_nj a b = Some q /\ dist ex_poly a b = Some d /\ (q == uq d)%Q) /\
  (* AB|CDE is an edge of the output and not of the generating tree: length 0; DE|ABC is an edge of both: 2 *)
  proper_split (qtaxa ex_poly_nj) (fun x => x <? 2) /\
  Qred (split_len ex_poly_nj (fun x => x <? 2)) = 0%Q /\ Qred (split_len (tq ex_poly) (fun x => x <? 2)) = 0%Q /\
  Qred (split_len ex_poly_nj (fun x => 3 <=? x)) = 2%Q /\ Qred (split_len (tq ex_poly) (fun x => 3 <=? x)) = 2%Q.
Proof.
  split; [|split; [|split; [|split; [|split; [|split; [|split; [|split]]]]]]].
  - split; simpl; [repeat (constructor; [simpl; intuition discriminate|]); constructor | intuition discriminate].
  - intros n Hn. simpl in Hn. repeat (destruct Hn as [<-|Hn]; [unfold len0; simpl; lia|]). destruct Hn.
  - intros m Hm Hk. simpl in Hm. repeat (destruct Hm as [<-|Hm]; [simpl in *; congruence|]). destruct Hm.
  - simpl. repeat (constructor; [simpl; intuition discriminate|]). constructor.
  - intro a. rewrite qhas_taxa. simpl. split.
    + intuition (subst; auto 10).
    + intros H. repeat (destruct H as [H|H]; [inversion H; auto 10|]). destruct H.
  - apply nodes_nonneg_split_nonneg. intros m Hm. simpl in Hm.
    repeat (destruct Hm as [<-|Hm]; [unfold Qle; simpl; lia|]). destruct Hm.
  - intros a b Ha Hb Nab. simpl in Ha, Hb.
    repeat (destruct Ha as [Ha|Ha]; [inversion Ha; subst a; clear Ha|]); try (destruct Ha);
    repeat (destruct Hb as [Hb|Hb]; [inversion Hb; subst b; clear Hb|]); try (destruct Hb); try congruence;
      (eexists; eexists; split; [vm_compute; reflexivity | split; [vm_compute; reflexivity | unfold Qeq; vm_compute; reflexivity]]).
  - split; [exists 0 | exists 2]; simpl; auto.
  - repeat split; vm_compute; reflexivity.
Qed.
