(* C17: the generated calc_node_ages (Gen/Ages.v) equals the hand-written model *)
From Coq Require Import ZArith QArith List Bool Lia ZifyBool.
From DV Require Import Model.PyPrims Model.Tree Model.C17Model Model.C17Prims Gen.Ages.
From DV Require Import Proofs.C17Ages Proofs.C17AgesThm Proofs.C17GenLib.
Import ListNotations.
Open Scope Z_scope.

(* ------------------------------------------------------------------------------------------ *)
(* what a configuration computes, on the input tree                                            *)

Definition fage (c : cfg) : tree -> Z := if c_fmax c then hmax else if c_fmin c then hmin else fp.
Definition errv (c : cfg) : cerr := if c_fmax c || c_fmin c then Py TypeErr else Ultra.

Definition len_some (k : tree) : bool := match t_len k with Some _ => true | None => false end.

(* the test at one node, given its children *)
Definition node_okb (c : cfg) (age : Z) (ks : list tree) : bool :=
  if c_fmax c || c_fmin c then forallb len_some ks
  else match check_prec (c_prec c) with
       | Some p => forallb (fun k => Z.abs (age - (fp k + elen k)) <=? p) (tl ks)
       | None => true
       end.

Fixpoint okb (c : cfg) (t : tree) : bool :=
  match t with T _ _ _ _ ks => forallb (okb c) ks && node_okb c (fage c t) ks end.

Definition retl (c : cfg) (io : bool) (t : tree) : list Z :=
  map (fage c) (filter (fun v => negb (io && is_leaf v)) (postorder t)).

Lemma retl_node c io i x l e ks :
  retl c io (T i x l e ks) = flat_map (retl c io) ks
    ++ (if io && is_leaf (T i x l e ks) then [] else [fage c (T i x l e ks)]).
Proof.
  unfold retl. cbn [postorder]. rewrite filter_app, map_app. f_equal.
  - induction ks as [|k r IH]; [reflexivity|]. cbn [flat_map]. rewrite filter_app, map_app, IH. reflexivity.
  - cbn [filter]. destruct (io && is_leaf (T i x l e ks)); reflexivity.
Qed.

Lemma fage_node c i x l e k r :
  fage c (T i x l e (k :: r)) =
  if c_fmax c then maxl (fage c k + elen k) (map (fun cc => fage c cc + elen cc) r)
  else if c_fmin c then minl (fage c k + elen k) (map (fun cc => fage c cc + elen cc) r)
  else fage c k + elen k.
Proof. unfold fage. destruct (c_fmax c); [reflexivity|]. destruct (c_fmin c); reflexivity. Qed.

Lemma fage_leaf c i x l e : fage c (T i x l e []) = 0.
Proof. unfold fage. destruct (c_fmax c); [reflexivity|]. destruct (c_fmin c); reflexivity. Qed.

(* ------------------------------------------------------------------------------------------ *)
(* the innermost loop: formatting the error message never raises                               *)

Lemma check_prec_num pv0 p : check_prec pv0 = Some p -> pv0 = PNum p.
Proof. destruct pv0 as [| |z]; try discriminate. cbn. destruct (z <? 0); [discriminate|]. intro H. inversion H. reflexivity. Qed.

Lemma py_index_0' {A} (a : A) l : py_index (a :: l) 0 = XOk a.
Proof. reflexivity. Qed.

Section Loops.
Variables (pv : precv) (fmx fmn io : bool) (t0 : tree).

Lemma msg_loop st cn : (forall n, In n cn -> exists g, s_age st (n_id n) = Some g) ->
  forall acc, exists d, py_for cn (g_calc_node_ages_loop1 pv fmx fmn io t0 st) acc = XOk d.
Proof.
  induction cn as [|n r IH]; intros H acc; [exists acc; reflexivity|]. cbn [py_for].
  unfold g_calc_node_ages_loop1 at 1. unfold py_age. destruct (H n (or_introl eq_refl)) as [g Hg]. rewrite Hg.
  cbn [py_add_oo xbind]. apply IH. intros m Hm. apply H. right. exact Hm.
Qed.

(* the comparison of one child's path with the node's age *)
Lemma join2_spec p node cn st age oc :
  check_prec pv = Some p -> s_age st (n_id node) = Some age ->
  (forall n, In n cn -> exists g, s_age st (n_id n) = Some g) ->
  g_calc_node_ages_join2 pv fmx fmn io t0 node cn (Some oc, st)
  = if Z.abs (age - oc) >? p then XErr Ultra else XOk st.
Proof.
  intros Hp Hi Hall. unfold g_calc_node_ages_join2. cbv beta iota zeta. unfold py_age. rewrite Hi. cbn [py_sub_oo xbind].
  rewrite (check_prec_num _ _ Hp). cbn [py_gt_prec xbind].
  destruct (Z.abs (age - oc) >? p); [|reflexivity].
  destruct (msg_loop st cn Hall []) as [d Ed]. rewrite <- (check_prec_num _ _ Hp). rewrite Ed. reflexivity.
Qed.

(* the loop over child_nodes[1:] *)
Lemma check_loop (p : Z) node cn i anc' age : forall (r : list tree) st,
  check_prec pv = Some p ->
  n_id node = i ->
  s_age st i = Some age ->
  (forall n, In n cn -> exists g, s_age st (n_id n) = Some g) ->
  (forall c, In c r -> s_age st (t_id c) = Some (fp c) /\ s_len st (t_id c) = t_len c) ->
  NoDup (map t_id r) ->
  if forallb (fun c => Z.abs (age - (fp c + elen c)) <=? p) r
  then exists st',
      py_for (map (fun k => mkNode k anc') r) (g_calc_node_ages_loop2 pv fmx fmn io t0 node cn) st = XOk st'
      /\ (forall c, In c r -> s_len st' (t_id c) = Some (elen c))
      /\ s_age st' = s_age st /\ s_rd st' = s_rd st
      /\ (forall j, ~ In j (map t_id r) -> s_len st' j = s_len st j)
  else py_for (map (fun k => mkNode k anc') r) (g_calc_node_ages_loop2 pv fmx fmn io t0 node cn) st = XErr Ultra.
Proof.
  intros r. induction r as [|c r IH]; intros st Hp Hid Hi Hall Hr Hnd.
  { cbn. exists st. split; [reflexivity|]. split; [intros c []|]. repeat split. }
  cbn [map forallb py_for]. cbn [map] in Hnd. inversion Hnd as [|? ? Hnin Hnd']; subst.
  destruct (Hr c (or_introl eq_refl)) as [Hage Hlen].
  assert (Hstep :
    g_calc_node_ages_loop2 pv fmx fmn io t0 node cn (mkNode c anc') st
    = if Z.abs (age - (fp c + elen c)) >? p then XErr Ultra
      else XOk (match t_len c with None => py_set_length st (t_id c) (Some 0) | Some _ => st end)).
  { unfold g_calc_node_ages_loop2. cbv beta iota zeta. unfold n_id at 1 2 3 4. cbn [n_sub]. unfold py_age at 1 2, py_length at 1.
    rewrite Hage, Hlen. unfold elen. destruct (t_len c) as [lc|]; cbn [py_add_oo xbind len0].
    - apply join2_spec; assumption.
    - cbn [py_set_length s_age]. rewrite Hage. replace (fp c + 0) with (fp c) by lia.
      apply join2_spec; [exact Hp | exact Hi | exact Hall]. }
  rewrite Hstep. destruct (Z.abs (age - (fp c + elen c)) >? p) eqn:Eg.
  - replace (Z.abs (age - (fp c + elen c)) <=? p) with false by lia. reflexivity.
  - replace (Z.abs (age - (fp c + elen c)) <=? p) with true by lia. cbn [andb xbind].
    set (st1 := match t_len c with None => py_set_length st (t_id c) (Some 0) | Some _ => st end).
    assert (A1 : s_age st1 = s_age st) by (unfold st1; destruct (t_len c); reflexivity).
    assert (R1 : s_rd st1 = s_rd st) by (unfold st1; destruct (t_len c); reflexivity).
    assert (L1 : s_len st1 (t_id c) = Some (elen c)).
    { unfold st1, elen. destruct (t_len c) eqn:E; [rewrite Hlen; reflexivity | cbn; apply upd_same]. }
    assert (L1' : forall j, j <> t_id c -> s_len st1 j = s_len st j).
    { intros j Hj. unfold st1. destruct (t_len c); [reflexivity|]. cbn. apply upd_other. exact Hj. }
    specialize (IH st1 Hp eq_refl).
    assert (Hr1 : forall c', In c' r -> s_age st1 (t_id c') = Some (fp c') /\ s_len st1 (t_id c') = t_len c').
    { intros c' Hc'. destruct (Hr c' (or_intror Hc')) as [H1 H2]. rewrite A1. split; [exact H1|].
      rewrite L1'; [exact H2|]. intro E. apply Hnin. rewrite <- E. apply in_map. exact Hc'. }
    assert (Hall1 : forall n, In n cn -> exists g, s_age st1 (n_id n) = Some g) by (rewrite A1; exact Hall).
    assert (Hi1 : s_age st1 (n_id node) = Some age) by (rewrite A1; exact Hi).
    specialize (IH Hi1 Hall1 Hr1 Hnd').
    destruct (forallb (fun c0 => Z.abs (age - (fp c0 + elen c0)) <=? p) r); [|exact IH].
    destruct IH as [st' [E' [Hl' [Ha' [Hrd' Hf']]]]]. exists st'. split; [exact E'|]. split; [|split; [|split]].
    + intros c' [<- | Hc']; [|apply Hl'; exact Hc']. rewrite Hf'; [exact L1 | exact Hnin].
    + rewrite Ha'. exact A1.
    + rewrite Hrd'. exact R1.
    + intros j Hj. rewrite Hf'; [|intro Hin; apply Hj; right; exact Hin]. apply L1'. intro E. apply Hj. left. symmetry. exact E.
Qed.

(* the precision test `not (max or min or prec is None or prec is False or prec < 0)` *)
Lemma disabled_chain :
  (if fmx then XOk true
   else xbind (if fmn then XOk true
               else xbind (if py_prec_is_none pv then XOk true
                           else xbind (if py_prec_is_false pv then XOk true
                                       else xbind (py_prec_lt pv 0) (fun c2 => XOk c2)) (fun b3 => XOk b3))
                      (fun b4 => XOk b4)) (fun b5 => XOk b5))
  = XOk (fmx || fmn || match check_prec pv with None => true | Some _ => false end).
Proof.
  destruct fmx; [reflexivity|]. destruct fmn; [reflexivity|]. destruct pv as [| |z]; try reflexivity.
  cbn. destruct (z <? 0); reflexivity.
Qed.

(* everything after `node.age = age_to_set`, when no test follows *)
Lemma join3_notest ages node cn st age :
  fmx || fmn || match check_prec pv with None => true | Some _ => false end = true ->
  g_calc_node_ages_join3 pv fmx fmn io t0 ages node cn (Some age, st)
  = XOk (py_set_age st (n_id node) (Some age), ages ++ [Some age]).
Proof.
  intro H. unfold g_calc_node_ages_join3. cbv beta iota zeta. rewrite disabled_chain, H. cbn [xbind negb].
  unfold g_calc_node_ages_join1. unfold py_age, py_append. cbn [py_set_age s_age]. rewrite upd_same. reflexivity.
Qed.

Lemma join3_test ages node cn st age :
  fmx || fmn || match check_prec pv with None => true | Some _ => false end = false ->
  g_calc_node_ages_join3 pv fmx fmn io t0 ages node cn (Some age, st)
  = xbind (py_for (py_slice_from cn 1) (g_calc_node_ages_loop2 pv fmx fmn io t0 node cn) (py_set_age st (n_id node) (Some age)))
      (fun st' => g_calc_node_ages_join1 pv fmx fmn io t0 ages node st').
Proof.
  intro H. unfold g_calc_node_ages_join3. cbv beta iota zeta. rewrite disabled_chain, H. reflexivity.
Qed.

End Loops.

(* ------------------------------------------------------------------------------------------ *)
(* one iteration of the post-order loop                                                        *)

Section Step.
Variables (pv : precv) (io : bool) (t0 : tree).

Definition kid_facts (c : cfg) (st : store) (ks : list tree) : Prop :=
  forall k, In k ks -> s_age st (t_id k) = Some (fage c k) /\ s_len st (t_id k) = t_len k.

Lemma step_leaf fmx fmn i x l e anc st ages :
  g_calc_node_ages_loop3 pv fmx fmn io t0 (mkNode (T i x l e []) anc) (st, ages)
  = XOk (py_set_age st i (Some 0), ages ++ (if io && true then [] else [Some 0])).
Proof.
  unfold g_calc_node_ages_loop3. cbv beta iota zeta. rewrite child_nodes_mk. cbn [t_kids map py_len length Z.of_nat Z.eqb].
  unfold n_id. cbn [n_sub t_id]. unfold py_age, py_append. cbn [py_set_age s_age]. rewrite upd_same.
  destruct io; cbn [negb andb]; [rewrite app_nil_r|]; reflexivity.
Qed.

Lemma xmapM_paths (c : cfg) st anc' ks : kid_facts c st ks ->
  xmapM (fun v_child => xbind (py_add_oo (py_age st (n_id v_child)) (py_length st (n_id v_child))) (fun n14 => XOk n14))
        (map (fun k => mkNode k anc') ks)
  = if forallb len_some ks then XOk (map (fun k => fage c k + elen k) ks) else XErr (Py TypeErr).
Proof.
  intro H. induction ks as [|k r IH]; [reflexivity|]. cbn [map xmapM forallb].
  destruct (H k (or_introl eq_refl)) as [Ha Hl].
  replace (py_age st (n_id (mkNode k anc'))) with (Some (fage c k)) by (symmetry; exact Ha).
  replace (py_length st (n_id (mkNode k anc'))) with (t_len k) by (symmetry; exact Hl).
  assert (Els : len_some k = match t_len k with Some _ => true | None => false end) by reflexivity.
  assert (Eel : elen k = len0 (t_len k)) by reflexivity.
  rewrite Els, Eel. destruct (t_len k) as [lk|]; cbn [py_add_oo xbind andb len0]; [|reflexivity].
  rewrite IH by (intros k' Hk'; apply H; right; exact Hk').
  destruct (forallb len_some r); reflexivity.
Qed.

(* forcing options *)
Lemma step_forced (mx : bool) i x l e k0 r anc st ages :
  let fmx := mx in let fmn := negb mx in let c := mkCfg pv fmx fmn in
  let t := T i x l e (k0 :: r) in
  kid_facts c st (k0 :: r) ->
  if node_okb c (fage c t) (k0 :: r)
  then g_calc_node_ages_loop3 pv fmx fmn io t0 (mkNode t anc) (st, ages)
       = XOk (py_set_age st i (Some (fage c t)), ages ++ [Some (fage c t)])
  else g_calc_node_ages_loop3 pv fmx fmn io t0 (mkNode t anc) (st, ages) = XErr (errv c).
Proof.
  intros fmx fmn c t Hk. unfold g_calc_node_ages_loop3. cbv beta iota zeta.
  subst t. rewrite child_nodes_mk. cbn [t_kids t_id]. rewrite py_len_map, py_len_zero. cbv iota.
  unfold node_okb, errv.
  assert (Hpaths := xmapM_paths c st (i :: anc) (k0 :: r) Hk).
  destruct mx; subst fmx fmn c; cbn [negb c_fmax c_fmin orb] in *.
  - rewrite Hpaths. destruct (forallb len_some (k0 :: r)); cbn [xbind]; [|reflexivity].
    cbn [map py_max_list xbind]. rewrite fage_node. cbn [c_fmax].
    rewrite join3_notest by reflexivity. reflexivity.
  - rewrite Hpaths. destruct (forallb len_some (k0 :: r)); cbn [xbind]; [|reflexivity].
    cbn [map py_min_list xbind]. rewrite fage_node. cbn [c_fmax c_fmin].
    rewrite join3_notest by reflexivity. reflexivity.
Qed.

(* no forcing *)
Lemma step_unforced i x l e k0 r anc st ages :
  let c := mkCfg pv false false in
  let t := T i x l e (k0 :: r) in
  kid_facts c st (k0 :: r) -> NoDup (map t_id (k0 :: r)) -> ~ In i (map t_id (k0 :: r)) ->
  if node_okb c (fage c t) (k0 :: r)
  then exists st', g_calc_node_ages_loop3 pv false false io t0 (mkNode t anc) (st, ages) = XOk (st', ages ++ [Some (fage c t)])
       /\ s_age st' i = Some (fage c t)
       /\ (forall j, j <> i -> s_age st' j = s_age st j)
       /\ s_rd st' = s_rd st
       /\ s_len st' (t_id k0) = Some (elen k0)
       /\ (forall k, In k r -> s_len st' (t_id k) = match check_prec pv with Some _ => Some (elen k) | None => t_len k end)
       /\ (forall j, ~ In j (map t_id (k0 :: r)) -> s_len st' j = s_len st j)
  else g_calc_node_ages_loop3 pv false false io t0 (mkNode t anc) (st, ages) = XErr Ultra.
Proof.
  intros c t Hk Hnd Hi. unfold g_calc_node_ages_loop3. cbv beta iota zeta.
  subst t. rewrite child_nodes_mk. cbn [t_kids t_id]. rewrite py_len_map, py_len_zero. cbv iota. cbn [map].
  rewrite py_index_0'. cbn [xbind].
  cbn [map] in Hnd, Hi. inversion Hnd as [|? ? Hk0r Hndr]; subst.
  destruct (Hk k0 (or_introl eq_refl)) as [Ha0 Hl0]. unfold fage in Ha0. cbn [c c_fmax c_fmin] in Ha0.
  set (node := mkNode (T i x l e (k0 :: r)) anc).
  set (cn := mkNode k0 (i :: anc) :: map (fun k => mkNode k (i :: anc)) r).
  set (age := fp k0 + elen k0).
  assert (Eage : fage c (T i x l e (k0 :: r)) = age) by reflexivity. rewrite Eage.
  (* the store after the first child *)
  set (st1 := match t_len k0 with None => py_set_length st (t_id k0) (Some 0) | Some _ => st end).
  assert (A1 : s_age st1 = s_age st) by (unfold st1; destruct (t_len k0); reflexivity).
  assert (R1 : s_rd st1 = s_rd st) by (unfold st1; destruct (t_len k0); reflexivity).
  assert (L1 : s_len st1 (t_id k0) = Some (elen k0)).
  { unfold st1, elen. destruct (t_len k0) eqn:E; [rewrite Hl0; reflexivity | cbn; apply upd_same]. }
  assert (L1' : forall j, j <> t_id k0 -> s_len st1 j = s_len st j).
  { intros j Hj. unfold st1. destruct (t_len k0); [reflexivity|]. cbn. apply upd_other. exact Hj. }
  assert (Hfirst : forall (K : option Z * store -> xres (store * list (option Z))),
    (if negb (py_is_none (py_length st (n_id (mkNode k0 (i :: anc))))) && negb (py_is_none (py_age st (n_id (mkNode k0 (i :: anc)))))
     then xbind (py_add_oo (py_age st (n_id (mkNode k0 (i :: anc)))) (py_length st (n_id (mkNode k0 (i :: anc)))))
            (fun n21 => K (Some n21, st))
     else if py_is_none (py_length st (n_id (mkNode k0 (i :: anc))))
          then K (py_age (py_set_length st (n_id (mkNode k0 (i :: anc))) (Some 0)) (n_id (mkNode k0 (i :: anc))),
                  py_set_length st (n_id (mkNode k0 (i :: anc))) (Some 0))
          else if py_is_none (py_age st (n_id (mkNode k0 (i :: anc))))
               then K (py_length (py_set_age st (n_id (mkNode k0 (i :: anc))) (Some 0)) (n_id (mkNode k0 (i :: anc))),
                       py_set_age st (n_id (mkNode k0 (i :: anc))) (Some 0))
               else K (Some 0, st))
    = K (Some age, st1)).
  { intro K. unfold n_id. cbn [n_sub]. unfold py_length, py_age. rewrite Ha0, Hl0. cbn [py_set_length s_age]. rewrite Ha0.
    unfold st1, age, elen. destruct (t_len k0) as [l0|]; cbn [py_is_none negb andb py_add_oo xbind len0]; [reflexivity|].
    replace (fp k0 + 0) with (fp k0) by lia. reflexivity. }
  rewrite (Hfirst (g_calc_node_ages_join3 pv false false io t0 ages node cn)). clear Hfirst.
  unfold node_okb. cbn [c c_fmax c_fmin orb c_prec tl].
  destruct (check_prec pv) as [p|] eqn:Hp.
  2:{ (* no test *)
      rewrite join3_notest by (rewrite Hp; reflexivity).
      eexists. split; [reflexivity|]. cbn [py_set_age s_age s_len s_rd].
      split; [apply upd_same|]. split; [intros j Hj; rewrite A1; apply upd_other; exact Hj|]. split; [exact R1|].
      split; [exact L1|]. split.
      - intros k Hkr. rewrite L1'; [apply (Hk k (or_intror Hkr))|]. intro E. apply Hk0r. rewrite <- E. apply in_map. exact Hkr.
      - intros j Hj. apply L1'. intro E. apply Hj. left. symmetry. exact E. }
  (* the test over the other children *)
  rewrite join3_test by (rewrite Hp; reflexivity).
  set (st2 := py_set_age st1 (n_id node) (Some age)).
  change (py_slice_from cn 1) with (map (fun k => mkNode k (i :: anc)) r).
  assert (Hi2 : s_age st2 i = Some age) by (cbn; apply upd_same).
  assert (Hall2 : forall n, In n cn -> exists g, s_age st2 (n_id n) = Some g).
  { intros n Hn. assert (exists k, In k (k0 :: r) /\ n = mkNode k (i :: anc)) as [k [Hkin ->]].
    { destruct Hn as [<- | Hn]; [exists k0; split; [left|]; reflexivity|]. apply in_map_iff in Hn. destruct Hn as [k [<- Hkin]].
      exists k. split; [right; exact Hkin | reflexivity]. }
    unfold n_id. cbn [n_sub]. exists (fp k). cbn [st2 py_set_age s_age]. rewrite upd_other.
    - rewrite A1. apply (Hk k Hkin).
    - intro E. apply Hi. change (t_id k = i) in E. rewrite <- E. apply (in_map t_id (k0 :: r) k Hkin). }
  assert (Hr2 : forall k, In k r -> s_age st2 (t_id k) = Some (fp k) /\ s_len st2 (t_id k) = t_len k).
  { intros k Hkr. split.
    - cbn [st2 py_set_age s_age]. rewrite upd_other; [rewrite A1; apply (Hk k (or_intror Hkr))|].
      intro E. apply Hi. right. change (t_id k = i) in E. rewrite <- E. apply in_map. exact Hkr.
    - cbn [st2 py_set_age s_len]. rewrite L1'; [apply (Hk k (or_intror Hkr))|]. intro E. apply Hk0r. rewrite <- E. apply in_map. exact Hkr. }
  pose proof (check_loop pv false false io t0 p node cn i (i :: anc) age r st2 Hp eq_refl Hi2 Hall2 Hr2 Hndr) as HL.
  destruct (forallb (fun k => Z.abs (age - (fp k + elen k)) <=? p) r); [|rewrite HL; reflexivity].
  destruct HL as [st3 [E3 [Hl3 [Ha3 [Hr3 Hf3]]]]]. rewrite E3. cbn [xbind].
  unfold g_calc_node_ages_join1, py_age, py_append. rewrite Ha3. change (n_id node) with i. rewrite Hi2.
  exists st3. split; [reflexivity|]. rewrite Ha3, Hr3. split; [exact Hi2|]. split.
  { intros j Hj. cbn [st2 py_set_age s_age]. rewrite upd_other; [rewrite A1; reflexivity | exact Hj]. }
  split; [exact R1|]. split.
  { rewrite Hf3; [exact L1 | exact Hk0r]. }
  split; [exact Hl3|].
  intros j Hj. rewrite Hf3; [|intro Hin; apply Hj; right; exact Hin]. cbn [st2 py_set_age s_len].
  apply L1'. intro E. apply Hj. left. symmetry. exact E.
Qed.

End Step.

(* ------------------------------------------------------------------------------------------ *)
(* the whole post-order loop                                                                   *)

Lemma lens_agree_node st i x l e ks :
  lens_agree st (T i x l e ks) <-> s_len st i = e /\ forall c, In c ks -> lens_agree st c.
Proof.
  split.
  - intro H. split; [apply (H _ (in_preorder_self _))|]. intros c Hc. eapply lens_agree_kid; [exact H | exact Hc].
  - intros [H1 H2] v Hv. apply in_preorder_inv in Hv. destruct Hv as [-> | [k [Hk Hv]]]; [exact H1 | apply (H2 k Hk v Hv)].
Qed.

Lemma coerce_id m co t : t_id (coerce m co t) = t_id t.
Proof. destruct t, m; reflexivity. Qed.

Lemma coerce_len_false m t : t_len (coerce m false t) = t_len t.
Proof. destruct t, m; reflexivity. Qed.

Lemma coerce_kids_co m co1 co2 t : t_kids (coerce m co1 t) = t_kids (coerce m co2 t).
Proof. destruct t, m; reflexivity. Qed.

Lemma ids_coerce m t : forall co, ids (coerce m co t) = ids t.
Proof.
  induction t as [i x l e ks IH] using tree_ind'. intro co. rewrite (ids_unfold (T i x l e ks)), ids_unfold, coerce_id. f_equal.
  rewrite Forall_forall in IH. cbn [t_kids coerce].
  assert (G : forall (g : tree -> tree) ls, (forall c, In c ls -> In c ks) -> (forall c, In c ls -> exists co', g c = coerce m co' c) ->
            flat_map ids (map g ls) = flat_map ids ls).
  { intros g ls Hs Hg. induction ls as [|c ls IHl]; [reflexivity|]. cbn [map flat_map].
    destruct (Hg c (or_introl eq_refl)) as [co' E]. rewrite E, (IH c (Hs c (or_introl eq_refl))). f_equal.
    apply IHl; intros; [apply Hs | apply Hg]; right; assumption. }
  destruct m.
  - apply G; [auto|]. intros c _. exists true. reflexivity.
  - destruct ks as [|k r]; [reflexivity|]. cbn [flat_map]. rewrite (IH k (or_introl eq_refl)). f_equal.
    apply G; [intros; right; assumption|]. intros c _. exists false. reflexivity.
  - apply G; [auto|]. intros c _. exists false. reflexivity.
Qed.

Lemma lens_agree_frame st1 st2 t : (forall j, In j (ids t) -> s_len st2 j = s_len st1 j) -> lens_agree st1 t -> lens_agree st2 t.
Proof. intros Hf H v Hv. rewrite Hf; [apply H; exact Hv | apply in_ids; exact Hv]. Qed.

(* from the un-coerced to the coerced root *)
Lemma lens_agree_coerce_root m st1 st2 t : NoDup (ids t) ->
  lens_agree st1 (coerce m false t) ->
  s_len st2 (t_id t) = Some (elen t) ->
  (forall j, In j (ids t) -> j <> t_id t -> s_len st2 j = s_len st1 j) ->
  lens_agree st2 (coerce m true t).
Proof.
  intros Hnd H Hroot Hf. destruct t as [i x l e ks]. cbn [t_id] in *.
  assert (Ek : coerce m true (T i x l e ks) = T i x l (Some (len0 e)) (t_kids (coerce m false (T i x l e ks)))) by (destruct m; reflexivity).
  assert (Ef : coerce m false (T i x l e ks) = T i x l e (t_kids (coerce m false (T i x l e ks)))) by (destruct m; reflexivity).
  rewrite Ek. rewrite Ef in H. apply lens_agree_node in H. destruct H as [_ Hk]. apply lens_agree_node. split; [exact Hroot|].
  intros c Hc. apply (lens_agree_frame st1); [|apply Hk; exact Hc].
  intros j Hj.
  assert (Hin : In j (flat_map ids (t_kids (coerce m false (T i x l e ks))))) by (apply in_flat_map; exists c; split; assumption).
  pose proof (ids_coerce m (T i x l e ks) false) as Ei. rewrite (ids_unfold (coerce m false (T i x l e ks))), coerce_id in Ei.
  rewrite (ids_unfold (T i x l e ks)) in Ei. cbn [t_id] in Ei. inversion Ei as [Ei'].
  apply Hf.
  - rewrite ids_unfold. right. cbn [t_kids]. rewrite <- Ei'. exact Hin.
  - intro E. subst j. destruct (nodup_root _ Hnd) as [Hn _]. cbn [t_id t_kids] in Hn. apply Hn. rewrite <- Ei'. exact Hin.
Qed.

Section Main.
Variables (pv : precv) (fmx fmn io : bool) (t0 : tree).
Hypothesis Hboth : fmx && fmn = false.
Let c := mkCfg pv fmx fmn.

Lemma gen_ages_sub k : forall anc st ages,
  lens_agree st k -> NoDup (ids k) ->
  if okb c k
  then exists st', py_for (post_under anc k) (g_calc_node_ages_loop3 pv fmx fmn io t0) (st, ages)
                   = XOk (st', ages ++ map Some (retl c io k))
       /\ (forall v, In v (preorder k) -> s_age st' (t_id v) = Some (fage c v))
       /\ lens_agree st' (coerce (mode_of c) false k)
       /\ (forall j, ~ In j (ids k) -> s_age st' j = s_age st j /\ s_len st' j = s_len st j)
       /\ s_rd st' = s_rd st
  else py_for (post_under anc k) (g_calc_node_ages_loop3 pv fmx fmn io t0) (st, ages) = XErr (errv c).
Proof.
  induction k as [i x l e ks IH] using tree_ind'. intros anc st ages Hl Hnd.
  rewrite post_under_unfold, py_for_app. cbn [t_id t_kids okb].
  destruct (nodup_root _ Hnd) as [Hroot Hd]. cbn [t_id t_kids] in Hroot, Hd.
  (* the children *)
  assert (Hkids : forall st1 ages1, (forall k, In k ks -> lens_agree st1 k) ->
    if forallb (okb c) ks
    then exists st', py_for (flat_map (post_under (i :: anc)) ks) (g_calc_node_ages_loop3 pv fmx fmn io t0) (st1, ages1)
                     = XOk (st', ages1 ++ map Some (flat_map (retl c io) ks))
         /\ (forall k, In k ks -> forall v, In v (preorder k) -> s_age st' (t_id v) = Some (fage c v))
         /\ (forall k, In k ks -> lens_agree st' (coerce (mode_of c) false k))
         /\ (forall j, ~ In j (flat_map ids ks) -> s_age st' j = s_age st1 j /\ s_len st' j = s_len st1 j)
         /\ s_rd st' = s_rd st1
    else py_for (flat_map (post_under (i :: anc)) ks) (g_calc_node_ages_loop3 pv fmx fmn io t0) (st1, ages1) = XErr (errv c)).
  { clear Hl Hnd Hroot. induction IH as [|k r Hk _ IHr]; intros st1 ages1 Hl1.
    - cbn. exists st1. rewrite app_nil_r. split; [reflexivity|]. split; [intros k []|]. split; [intros k []|]. split; [intros; split; reflexivity | reflexivity].
    - destruct (nodup_kids_cons k r Hd) as [Hdk [Hdr Hdisj]].
      cbn [flat_map forallb]. rewrite py_for_app.
      specialize (Hk (i :: anc) st1 ages1 (Hl1 k (or_introl eq_refl)) Hdk).
      destruct (okb c k); cbn [andb]; [|rewrite Hk; reflexivity].
      destruct Hk as [st2 [E2 [Ha2 [Hl2 [Hf2 Hr2]]]]]. rewrite E2. cbn [xbind].
      assert (Hl2' : forall k', In k' r -> lens_agree st2 k').
      { intros k' Hk' v Hv. destruct (Hf2 (t_id v)) as [_ Hlen].
        - intro Hin. apply (Hdisj _ Hin). apply in_flat_map. exists k'. split; [exact Hk' | apply in_ids; exact Hv].
        - rewrite Hlen. apply (Hl1 k' (or_intror Hk') v Hv). }
      specialize (IHr Hdr st2 (ages1 ++ map Some (retl c io k)) Hl2').
      destruct (forallb (okb c) r); [|exact IHr].
      destruct IHr as [st3 [E3 [Ha3 [Hl3 [Hf3 Hr3]]]]]. exists st3. split.
      + rewrite E3. rewrite map_app, app_assoc. reflexivity.
      + split; [|split; [|split]].
        * intros k' [<- | Hk'] v Hv; [|apply (Ha3 k' Hk' v Hv)].
          destruct (Hf3 (t_id v)) as [Hage _]; [apply Hdisj; apply in_ids; exact Hv|]. rewrite Hage. apply Ha2. exact Hv.
        * intros k' [<- | Hk']; [|apply (Hl3 k' Hk')].
          apply (lens_agree_frame st2); [|exact Hl2]. intros j Hj. rewrite ids_coerce in Hj. apply Hf3. apply Hdisj. exact Hj.
        * intros j Hj. destruct (Hf3 j) as [H1 H2]; [intro Hin; apply Hj; apply in_or_app; right; exact Hin|].
          destruct (Hf2 j) as [H3 H4]; [intro Hin; apply Hj; apply in_or_app; left; exact Hin|].
          rewrite H1, H2, H3, H4. split; reflexivity.
        * rewrite Hr3. exact Hr2. }
  assert (Hlk : forall k, In k ks -> lens_agree st k) by (intros k Hk; eapply lens_agree_kid; [exact Hl | exact Hk]).
  specialize (Hkids st ages Hlk).
  destruct (forallb (okb c) ks) eqn:Eok; cbn [andb]; [|rewrite Hkids; reflexivity].
  destruct Hkids as [st1 [E1 [Ha1 [Hl1 [Hf1 Hr1]]]]]. rewrite E1. cbn [xbind]. rewrite py_for_one.
  assert (Hroot1 : s_age st1 i = s_age st i /\ s_len st1 i = s_len st i) by (apply Hf1; exact Hroot).
  assert (Hlen_i : s_len st i = e) by (apply (Hl _ (in_preorder_self _))).
  assert (Hkf : kid_facts c st1 ks).
  { intros k Hk. split; [apply (Ha1 k Hk); apply in_preorder_self|].
    pose proof (Hl1 k Hk _ (in_preorder_self _)) as H. rewrite coerce_id, coerce_len_false in H. exact H. }
  assert (Hndk : NoDup (map t_id ks)).
  { clear - Hd. induction ks as [|k r IHr]; [constructor|]. destruct (nodup_kids_cons k r Hd) as [Hdk [Hdr Hdisj]].
    cbn [map]. constructor; [|apply IHr; exact Hdr]. intro Hin. apply in_map_iff in Hin. destruct Hin as [k' [E Hk']].
    apply (Hdisj (t_id k)); [rewrite ids_unfold; left; reflexivity|]. apply in_flat_map. exists k'. split; [exact Hk'|].
    rewrite <- E. rewrite ids_unfold. left. reflexivity. }
  assert (Hik : ~ In i (map t_id ks)).
  { intro Hin. apply Hroot. apply in_map_iff in Hin. destruct Hin as [k [E Hk]]. apply in_flat_map. exists k. split; [exact Hk|].
    rewrite <- E. rewrite ids_unfold. left. reflexivity. }
  (* ids of a kid's subtree other than the kid's root are not kid roots *)
  assert (Hdeep : forall k j, In k ks -> In j (ids k) -> j <> t_id k -> ~ In j (map t_id ks)).
  { clear - Hd. induction ks as [|k0 r IHr]; intros k j Hk Hj Hne Hin; [destruct Hk|].
    destruct (nodup_kids_cons k0 r Hd) as [Hdk [Hdr Hdisj]]. cbn [map] in Hin. destruct Hk as [<- | Hk].
    - destruct Hin as [E | Hin]; [congruence|]. apply in_map_iff in Hin. destruct Hin as [k' [E Hk']].
      apply (Hdisj j Hj). apply in_flat_map. exists k'. split; [exact Hk'|]. rewrite <- E. rewrite ids_unfold. left. reflexivity.
    - destruct Hin as [E | Hin]; [|apply (IHr Hdr k j Hk Hj Hne Hin)].
      apply (Hdisj j); [rewrite <- E; rewrite ids_unfold; left; reflexivity|]. apply in_flat_map. exists k. split; assumption. }
  rewrite retl_node, map_app, app_assoc.
  destruct ks as [|k0 r].
  { (* leaf *)
    rewrite step_leaf. cbn [node_okb forallb tl flat_map map]. rewrite app_nil_r.
    assert (Hok : node_okb c (fage c (T i x l e [])) [] = true).
    { unfold node_okb. destruct (c_fmax c || c_fmin c); [reflexivity|]. destruct (check_prec (c_prec c)); reflexivity. }
    rewrite Hok. rewrite fage_leaf. exists (py_set_age st1 i (Some 0)). split.
    - f_equal. f_equal. f_equal. unfold is_leaf. cbn [t_kids]. destruct io; reflexivity.
    - cbn [py_set_age s_age s_len s_rd]. split; [|split; [|split]].
      + intros v Hv. apply in_preorder_inv in Hv. destruct Hv as [-> | [k [[] _]]]. cbn [t_id]. rewrite upd_same, fage_leaf. reflexivity.
      + assert (Ec : coerce (mode_of c) false (T i x l e []) = T i x l e []) by (destruct (mode_of c); reflexivity).
        rewrite Ec. apply lens_agree_node. cbn [s_len py_set_age]. split; [rewrite (proj2 Hroot1); exact Hlen_i | intros k []].
      + intros j Hj. destruct (Hf1 j) as [H1 H2]; [intros []|]. rewrite H2. split; [|reflexivity].
        rewrite upd_other; [exact H1|]. intro E. apply Hj. rewrite ids_unfold. left. symmetry. exact E.
      + exact Hr1. }
  change (is_leaf (T i x l e (k0 :: r))) with false. rewrite andb_false_r.
  (* internal node *)
  set (t := T i x l e (k0 :: r)) in *.
  assert (Hnk : forall k, In k (k0 :: r) -> NoDup (ids k)).
  { intros k Hk. apply (nodup_kid t k Hnd Hk). }
  assert (Hfinish : forall st2,
     s_age st2 i = Some (fage c t) -> (forall j, j <> i -> s_age st2 j = s_age st1 j) -> s_rd st2 = s_rd st1 ->
     (forall j, ~ In j (map t_id (k0 :: r)) -> s_len st2 j = s_len st1 j) ->
     match mode_of c with
     | CoAll => forall k, In k (k0 :: r) -> s_len st2 (t_id k) = Some (elen k)
     | CoFirst => s_len st2 (t_id k0) = Some (elen k0) /\ forall k, In k r -> s_len st2 (t_id k) = s_len st1 (t_id k)
     | CoNone => forall k, In k (k0 :: r) -> s_len st2 (t_id k) = s_len st1 (t_id k)
     end ->
     (forall v, In v (preorder t) -> s_age st2 (t_id v) = Some (fage c v))
     /\ lens_agree st2 (coerce (mode_of c) false t)
     /\ (forall j, ~ In j (ids t) -> s_age st2 j = s_age st j /\ s_len st2 j = s_len st j)
     /\ s_rd st2 = s_rd st).
  { intros st2 Ha Hb Hc Hd' He.
    assert (Hco_true : forall k, In k (k0 :: r) -> s_len st2 (t_id k) = Some (elen k) -> lens_agree st2 (coerce (mode_of c) true k)).
    { intros k Hk Hs. apply (lens_agree_coerce_root (mode_of c) st1 st2 k (Hnk k Hk) (Hl1 k Hk) Hs).
      intros j Hj Hne. apply Hd'. apply (Hdeep k j Hk Hj Hne). }
    assert (Hco_false : forall k, In k (k0 :: r) -> s_len st2 (t_id k) = s_len st1 (t_id k) -> lens_agree st2 (coerce (mode_of c) false k)).
    { intros k Hk Hs. apply (lens_agree_frame st1); [|apply (Hl1 k Hk)]. intros j Hj. rewrite ids_coerce in Hj.
      destruct (Z.eq_dec j (t_id k)) as [-> | Hne]; [exact Hs|]. apply Hd'. apply (Hdeep k j Hk Hj Hne). }
    split; [|split; [|split]].
    - intros v Hv. apply in_preorder_inv in Hv. destruct Hv as [-> | [k [Hk Hv]]]; [exact Ha|].
      rewrite Hb; [apply (Ha1 k Hk v Hv)|]. intro E. apply Hroot. apply in_flat_map. exists k. split; [exact Hk|].
      rewrite <- E. apply in_ids. exact Hv.
    - assert (Hri : s_len st2 i = e) by (rewrite Hd'; [rewrite (proj2 Hroot1); exact Hlen_i | exact Hik]).
      unfold t. destruct (mode_of c); cbn [coerce]; apply lens_agree_node; (split; [exact Hri|]).
      + intros k' Hk'. apply in_map_iff in Hk'. destruct Hk' as [k [<- Hk]]. apply (Hco_true k Hk). apply He. exact Hk.
      + destruct He as [He0 Her]. intros k' [<- | Hk'].
        * apply (Hco_true k0 (or_introl eq_refl) He0).
        * apply in_map_iff in Hk'. destruct Hk' as [k [<- Hk]]. apply (Hco_false k (or_intror Hk)). apply Her. exact Hk.
      + intros k' Hk'. apply in_map_iff in Hk'. destruct Hk' as [k [<- Hk]]. apply (Hco_false k Hk). apply He. exact Hk.
    - intros j Hj. assert (Hji : j <> i) by (intro E; apply Hj; rewrite ids_unfold; left; symmetry; exact E).
      assert (Hjf : ~ In j (flat_map ids (k0 :: r))) by (intro Hin; apply Hj; rewrite ids_unfold; right; exact Hin).
      assert (Hjm : ~ In j (map t_id (k0 :: r))).
      { intro Hin. apply Hjf. apply in_map_iff in Hin. destruct Hin as [k [E Hk]]. apply in_flat_map. exists k. split; [exact Hk|].
        rewrite <- E. rewrite ids_unfold. left. reflexivity. }
      destruct (Hf1 j Hjf) as [H1 H2]. rewrite (Hb j Hji), (Hd' j Hjm), H1, H2. split; reflexivity.
    - rewrite Hc. exact Hr1. }
  unfold t in *. clear t.
  destruct fmx eqn:Emx.
  - (* is_force_max_age *)
    assert (Emn : fmn = false) by (destruct fmn; [discriminate | reflexivity]).
    pose proof (step_forced pv io t0 true i x l e k0 r anc st1 (ages ++ map Some (flat_map (retl c io) (k0 :: r)))) as HS.
    cbv zeta in HS. cbn [negb] in HS. subst c. rewrite Emn in *. specialize (HS Hkf).
    destruct (node_okb (mkCfg pv true false) (fage (mkCfg pv true false) (T i x l e (k0 :: r))) (k0 :: r)); [|exact HS].
    eexists. split; [exact HS|]. apply Hfinish; cbn [py_set_age s_age s_len s_rd].
    + apply upd_same.
    + intros j Hj. apply upd_other. exact Hj.
    + reflexivity.
    + intros; reflexivity.
    + unfold mode_of. cbn [c_fmax c_fmin orb]. intros; reflexivity.
  - destruct fmn eqn:Emn.
    + (* is_force_min_age *)
      pose proof (step_forced pv io t0 false i x l e k0 r anc st1 (ages ++ map Some (flat_map (retl c io) (k0 :: r)))) as HS.
      cbv zeta in HS. cbn [negb] in HS. subst c. specialize (HS Hkf).
      destruct (node_okb (mkCfg pv false true) (fage (mkCfg pv false true) (T i x l e (k0 :: r))) (k0 :: r)); [|exact HS].
      eexists. split; [exact HS|]. apply Hfinish; cbn [py_set_age s_age s_len s_rd].
      * apply upd_same.
      * intros j Hj. apply upd_other. exact Hj.
      * reflexivity.
      * intros; reflexivity.
      * unfold mode_of. cbn [c_fmax c_fmin orb]. intros; reflexivity.
    + (* no forcing *)
      pose proof (step_unforced pv io t0 i x l e k0 r anc st1 (ages ++ map Some (flat_map (retl c io) (k0 :: r))) Hkf Hndk Hik) as HS.
      cbv zeta in HS. subst c.
      destruct (node_okb (mkCfg pv false false) (fage (mkCfg pv false false) (T i x l e (k0 :: r))) (k0 :: r)); [|exact HS].
      destruct HS as [st2 [E2 [Ha2 [Hb2 [Hc2 [Hk0 [Hkr Hd2]]]]]]]. exists st2. split; [exact E2|].
      apply Hfinish; try assumption.
      unfold mode_of. cbn [c_fmax c_fmin orb c_prec]. destruct (check_prec pv) as [p|].
      * intros k [<- | Hk]; [exact Hk0 | apply (Hkr k Hk)].
      * split; [exact Hk0|]. intros k Hk. rewrite (Hkr k Hk). symmetry. apply (Hkf k (or_intror Hk)).
Qed.

End Main.

(* ------------------------------------------------------------------------------------------ *)
(* the hand-written model in the same terms                                                    *)

Lemma okb_enabled pv p t : check_prec pv = Some p -> okb (mkCfg pv false false) t = local_okb p t.
Proof.
  intro Hp. induction t as [i x l e ks IH] using tree_ind'. cbn [okb local_okb]. rewrite andb_comm. f_equal.
  - unfold node_okb. cbn [c_fmax c_fmin orb c_prec]. rewrite Hp. reflexivity.
  - induction IH as [|k r Hk _ IHr]; [reflexivity|]. cbn [forallb]. rewrite Hk, IHr. reflexivity.
Qed.

Lemma okb_disabled pv t : check_prec pv = None -> okb (mkCfg pv false false) t = true.
Proof.
  intro Hp. induction t as [i x l e ks IH] using tree_ind'. cbn [okb]. unfold node_okb. cbn [c_fmax c_fmin orb c_prec]. rewrite Hp, andb_true_r.
  induction IH as [|k r Hk _ IHr]; [reflexivity|]. cbn [forallb]. rewrite Hk, IHr. reflexivity.
Qed.

Lemma okb_forced c t : c_fmax c || c_fmin c = true -> (okb c t = true <-> lens_defined t).
Proof.
  intro Hf. induction t as [i x l e ks IH] using tree_ind'. rewrite Forall_forall in IH. cbn [okb]. unfold node_okb. rewrite Hf.
  rewrite andb_true_iff, !forallb_forall. split.
  - intros [H1 H2] v Hv k Hk. apply in_preorder_inv in Hv. destruct Hv as [-> | [k' [Hk' Hv]]].
    + cbn [t_kids] in Hk. specialize (H2 k Hk). unfold len_some in H2. destruct (t_len k); [discriminate | discriminate].
    + cbn [t_kids] in Hk'. apply (proj1 (IH k' Hk') (H1 k' Hk') v Hv k Hk).
  - intro H. split.
    + intros k Hk. apply IH; [exact Hk|]. eapply lens_defined_kid; [exact H | exact Hk].
    + intros k Hk. unfold len_some. pose proof (H _ (in_preorder_self _) k Hk) as Hn. destruct (t_len k); [reflexivity | contradiction].
Qed.

Lemma calc_okb pv fmx fmn t : fmx && fmn = false ->
  let c := mkCfg pv fmx fmn in
  if okb c t then calc c t = COk (annot (fage c) (mode_of c) false t)
  else exists n, calc c t = CErr (errv c) n.
Proof.
  intros Hb c. destruct fmx eqn:Emx.
  - assert (fmn = false) by (destruct fmn; [discriminate | reflexivity]). subst fmn.
    destruct (calc_forced true c t eq_refl) as [[Hl E] | [Hl [n [E _]]]].
    + rewrite (proj2 (okb_forced c t eq_refl) Hl). exact E.
    + destruct (okb c t) eqn:Eo; [exfalso; apply Hl; apply (okb_forced c t eq_refl); exact Eo|]. exists n. exact E.
  - destruct fmn eqn:Emn.
    + destruct (calc_forced false c t (conj eq_refl eq_refl)) as [[Hl E] | [Hl [n [E _]]]].
      * rewrite (proj2 (okb_forced c t eq_refl) Hl). exact E.
      * destruct (okb c t) eqn:Eo; [exfalso; apply Hl; apply (okb_forced c t eq_refl); exact Eo|]. exists n. exact E.
    + unfold c, mode_of, fage, errv. cbn [c_fmax c_fmin orb c_prec]. destruct (check_prec pv) as [p|] eqn:Hp.
      * rewrite (okb_enabled pv p t Hp).
        destruct (calc_enabled (mkCfg pv false false) p t eq_refl eq_refl Hp) as [[Ho E] | [Ho [e [n [E V]]]]]; rewrite Ho; [exact E|].
        exists n. destruct V as [_ [_ [_ [_ [_ [_ ->]]]]]]. exact E.
      * rewrite (okb_disabled pv t Hp). apply calc_disabled; [reflexivity | reflexivity | exact Hp].
Qed.

(* nodes of the annotated result *)
Lemma annot_is_leaf f m co s : a_is_leaf (annot f m co s) = is_leaf s.
Proof. destruct s as [i x l e ks]. unfold a_is_leaf, is_leaf. cbn [annot a_kids t_kids]. destruct m, ks; reflexivity. Qed.

Lemma ret_ages_annot f m io t : ret_ages io (annot f m false t) = map f (filter (fun v => negb (io && is_leaf v)) (postorder t)).
Proof.
  unfold ret_ages.
  assert (G : forall {X} (l : list X) (b : X -> bool) (v : X -> Z),
            map v (filter b l) = map snd (filter fst (map (fun x => (b x, v x)) l))).
  { intros X l b v. induction l as [|a l IH]; [reflexivity|]. cbn. destruct (b a); cbn; rewrite IH; reflexivity. }
  rewrite (G _ (apostorder _)), (G _ (postorder t)). do 2 f_equal.
  revert t. assert (H : forall t co, map (fun x => (negb (io && a_is_leaf x), a_age x)) (apostorder (annot f m co t))
                                  = map (fun x => (negb (io && is_leaf x), f x)) (postorder t)).
  { intro t. induction t as [i x l e ks IH] using tree_ind'. intro co. rewrite Forall_forall in IH.
    cbn [annot apostorder postorder]. rewrite !map_app. f_equal.
    - assert (G2 : forall (k : tree -> atree) (ls : list tree),
               (forall c, In c ls -> In c ks) -> (forall c, In c ls -> exists co', k c = annot f m co' c) ->
               map (fun x => (negb (io && a_is_leaf x), a_age x)) (flat_map apostorder (map k ls))
               = map (fun x => (negb (io && is_leaf x), f x)) (flat_map postorder ls)).
      { intros k ls Hs Hk. induction ls as [|c ls IHl]; [reflexivity|]. cbn [map flat_map]. rewrite !map_app.
        destruct (Hk c (or_introl eq_refl)) as [co' E]. rewrite E, (IH c (Hs c (or_introl eq_refl))). f_equal.
        apply IHl; intros; [apply Hs | apply Hk]; right; assumption. }
      destruct m.
      + apply G2; [auto|]. intros c _. exists true. reflexivity.
      + destruct ks as [|k r]; [reflexivity|]. cbn [flat_map]. rewrite !map_app. rewrite (IH k (or_introl eq_refl)). f_equal.
        apply G2; [intros; right; assumption|]. intros c _. exists false. reflexivity.
      + apply G2; [auto|]. intros c _. exists false. reflexivity.
    - cbn [map]. f_equal. f_equal. change (A i x l (f (T i x l e ks)) (if co then Some (len0 e) else e)
        match m with
        | CoAll => map (annot f m true) ks
        | CoFirst => match ks with [] => [] | k :: r => annot f m true k :: map (annot f m false) r end
        | CoNone => map (annot f m false) ks
        end) with (annot f m co (T i x l e ks)). rewrite annot_is_leaf. reflexivity. }
  intro t. apply H.
Qed.

Lemma g_calc_node_ages_eq_l : forall pv fmx fmn io t st,
  lens_agree st t -> NoDup (ids t) ->
  match calc_node_ages (mkCfg pv fmx fmn) t with
  | COk a =>
    exists st', g_calc_node_ages pv fmx fmn io t st = XOk (st', map Some (ret_ages io a))
      /\ (forall v, In v (apreorder a) -> s_age st' (a_id v) = Some (a_age v))
      /\ lens_agree st' (aforget a)
      /\ (forall j, ~ In j (ids t) -> s_age st' j = s_age st j /\ s_len st' j = s_len st j)
      /\ s_rd st' = s_rd st
  | CErr e n => g_calc_node_ages pv fmx fmn io t st = XErr e
  end.
Proof.
  intros pv fmx fmn io t st Hl Hnd. unfold calc_node_ages, g_calc_node_ages. cbn [c_fmax c_fmin].
  destruct (fmx && fmn) eqn:Hb; [reflexivity|].
  pose proof (calc_okb pv fmx fmn t Hb) as HM. cbv zeta in HM.
  pose proof (gen_ages_sub pv fmx fmn io t Hb t [] st [] Hl Hnd) as HG. unfold py_postorder_nodes.
  destruct (okb (mkCfg pv fmx fmn) t).
  - rewrite HM. destruct HG as [st' [E [Ha [Hlen [Hf Hr]]]]]. exists st'. rewrite E. cbn [xbind app].
    rewrite ret_ages_annot. split; [reflexivity|]. split; [|split; [|split]].
    + intros v Hv. apply apreorder_annot in Hv. destruct Hv as [s [co [Hs ->]]]. rewrite annot_id, annot_age. apply Ha. exact Hs.
    + rewrite aforget_annot. exact Hlen.
    + exact Hf.
    + exact Hr.
  - destruct HM as [n ->]. rewrite HG. reflexivity.
Qed.
