(* C19: the columns recorded for the k-th source select exactly that source's sequence *)
From Coq Require Import ZArith List Bool Lia.
From DV Require Import Model.PyPrims Model.C19Model Proofs.C19Alist Proofs.C19Rows Proofs.C19Cols Proofs.C19Concat Proofs.C19Proofs.
Import ListNotations.
Open Scope Z_scope.

Lemma select_from_app idx : forall (a b : row) i,
  select_from idx i (a ++ b) = select_from idx i a ++ select_from idx (i + zlen a) b.
Proof.
  induction a as [|c a IH]; intros b i; simpl.
  - unfold zlen. simpl. rewrite Z.add_0_r. reflexivity.
  - rewrite IH. replace (i + 1 + zlen a) with (i + zlen (c :: a)) by (rewrite zlen_cons; lia).
    destruct (memb i idx); reflexivity.
Qed.

Lemma select_none idx : forall (r : row) i,
  (forall j, i <= j < i + zlen r -> memb j idx = false) -> select_from idx i r = [].
Proof.
  induction r as [|c r IH]; intros i H; simpl; [reflexivity|].
  rewrite zlen_cons in H. pose proof (zlen_nonneg r).
  rewrite (H i) by lia. apply IH. intros j Hj. apply H. lia.
Qed.

Lemma select_all idx : forall (r : row) i,
  (forall j, i <= j < i + zlen r -> memb j idx = true) -> select_from idx i r = r.
Proof.
  induction r as [|c r IH]; intros i H; simpl; [reflexivity|].
  rewrite zlen_cons in H. pose proof (zlen_nonneg r).
  rewrite (H i) by lia. f_equal. apply IH. intros j Hj. apply H. lia.
Qed.

Lemma memb_zrange j a n : memb j (zrange a n) = true <-> a <= j < a + n.
Proof. rewrite memb_In. apply zrange_In. Qed.

Lemma memb_zrange_false j a n : ~ (a <= j < a + n) -> memb j (zrange a n) = false.
Proof. intros H. apply memb_false. intro X. apply zrange_In in X. exact (H X). Qed.

Lemma zsum_zlen_nonneg (rs : list row) : 0 <= zsum (map zlen rs).
Proof.
  induction rs as [|r rs IH]; simpl; [lia|]. pose proof (zlen_nonneg r). unfold zsum in *. simpl. lia.
Qed.

Lemma concat_slice : forall (rs : list row) k r i,
  nth_error rs k = Some r ->
  select_from (zrange (i + zsum (map zlen (firstn k rs))) (zlen r)) i (concat rs) = r.
Proof.
  induction rs as [|r0 rs IH]; intros k r i H; [destruct k; discriminate|].
  simpl concat. rewrite select_from_app. destruct k as [|k]; simpl in H.
  - inversion H; subst. simpl firstn. simpl map. unfold zsum. simpl fold_right. rewrite !Z.add_0_r.
    rewrite select_all by (intros j Hj; apply memb_zrange; unfold zlen in *; lia).
    rewrite select_none; [apply app_nil_r|]. intros j Hj. apply memb_zrange_false. unfold zlen in *. lia.
  - simpl firstn. simpl map. pose proof (zsum_zlen_nonneg (firstn k rs)). pose proof (zlen_nonneg r0).
    change (zsum (zlen r0 :: map zlen (firstn k rs))) with (zlen r0 + zsum (map zlen (firstn k rs))).
    rewrite select_none by (intros j Hj; apply memb_zrange_false; unfold zsum, zlen in *; lia). simpl.
    replace (i + (zlen r0 + zsum (map zlen (firstn k rs)))) with (i + zlen r0 + zsum (map zlen (firstn k rs))) by lia.
    apply IH. exact H.
Qed.

Section S.
Variable lower : lbl -> lbl.
Variable suffix : lbl -> Z -> lbl.
Variable locus : Z -> lbl.

Lemma firstn_incl {A} (k : nat) (l : list A) x : In x (firstn k l) -> In x l.
Proof.
  revert l. induction k as [|k IH]; intros l H; simpl in H; [destruct H|].
  destruct l as [|y l]; [destruct H|]. destruct H as [H|H]; [left; exact H | right; apply IH; exact H].
Qed.

Lemma Forall_nth_error {A} (P : A -> Prop) l k x : Forall P l -> nth_error l k = Some x -> P x.
Proof. intros F H. rewrite Forall_forall in F. apply F. apply (nth_error_In _ _ H). Qed.

Lemma concatenate_subset_selects_source_l (taxa_of : nsid -> list tid) (cms : list matrix) (res : matrix) :
  (forall n, NoDup (taxa_of n)) ->
  Forall (fun cm => NoDup (map fst (m_rows cm)) /\ incl (map fst (m_rows cm)) (taxa_of (m_ns cm))) cms ->
  concatenate lower suffix locus taxa_of cms = Ok res ->
  forall k cm l idx t,
    nth_error cms k = Some cm -> nth_error (m_subs res) k = Some (l, idx) -> In t (taxa_of (m_ns res)) ->
    exists whole part, aget t (m_rows res) = Some whole /\ aget t (m_rows cm) = Some part /\
                       select_from idx 0 whole = part /\ zlen part = zlen idx.
Proof.
  intros NT WF H k cm l idx t Hc Hs Ht.
  destruct (concatenate_spec_l lower suffix locus taxa_of cms res NT WF H)
    as [c0 [rest [E [_ [R1 [_ [_ [ROWS [_ [GET [_ [_ [_ SUB]]]]]]]]]]]]].
  cbv zeta in *. rewrite R1 in Ht.
  destruct (SUB k cm l idx Hc Hs) as [Ei _].
  destruct (Forall_nth_error _ _ _ _ ROWS Hc t Ht) as [part [Gp Lp]].
  set (rs := map (fun cm => match aget t (m_rows cm) with Some r => r | None => [] end) cms).
  exists (concat rs), part. split; [apply GET; exact Ht|]. split; [exact Gp|].
  assert (Hk : nth_error rs k = Some part).
  { unfold rs. rewrite nth_error_map, Hc. simpl. rewrite Gp. reflexivity. }
  assert (W : map zlen (firstn k rs) = map (fun c => vector_size (m_rows c)) (firstn k cms)).
  { unfold rs. rewrite firstn_map, map_map. apply map_ext_in. intros c Hin.
    assert (Hin' : In c cms) by (apply (firstn_incl _ _ _ Hin)).
    rewrite Forall_forall in ROWS. destruct (ROWS c Hin' t Ht) as [r [G L]]. rewrite G. exact L. }
  split.
  - rewrite Ei. rewrite <- W, <- Lp. change (fold_right Z.add 0 (map zlen (firstn k rs))) with (zsum (map zlen (firstn k rs))).
    rewrite <- (Z.add_0_l (zsum (map zlen (firstn k rs)))). apply concat_slice. exact Hk.
  - rewrite Ei. unfold zlen at 2. rewrite zrange_length. rewrite <- Lp. pose proof (zlen_nonneg part). lia.
Qed.

End S.
