(* C03 proofs, second wave: removing ANY node from its parent (prune_nodes, prune_taxa on internal
   nodes), attaching detached subtrees, taxon shuffling. *)
From Coq Require Import ZArith List Bool Lia Permutation.
From DV Require Import Model.PyPrims Model.Tree Model.Heap Model.HeapOps Model.C03Spec
  Proofs.C03Base Proofs.C03Abs Proofs.C03Local Proofs.C03Prims Proofs.C03Collapse Proofs.C03Suppress
  Proofs.C03Reseed Proofs.C03Order Proofs.C03Ops Proofs.C03Ops2 Proofs.C03PruneLoops Proofs.C03Hist.
Import ListNotations.
Open Scope Z_scope.

Lemma finishes_weaken r (P : heap -> Prop) errs errs' :
  (forall e, In e errs -> In e errs') -> finishes r P errs -> finishes r P errs'.
Proof.
  intros I [[h' [E H]]|[e [h' [E [He H]]]]]; [left; eauto|right]. exists e, h'. auto.
Qed.

(* ---------- the parent of a live node is live ---------- *)

Lemma live_parent h t nd p : Wr h t -> In nd (ids t) -> parent h nd = Some p -> In p (ids t) /\ In nd (kids h p).
Proof.
  intros W Hn Pn. destruct (find_ctx t nd Hn) as [c [s [-> Es]]]. subst nd.
  pose proof W as [R _]. apply rep_plug in R. destruct R as [Rc Rs].
  rewrite (rep_parent h _ s Rs) in Pn.
  destruct c as [|c' q x l e lft rgt]; simpl in Pn; [discriminate|]. inversion Pn; subst q.
  simpl in Rc. destruct Rc as [_ [Gq _]]. split.
  - apply in_plug. right. left. reflexivity.
  - unfold kids. rewrite Gq. simpl. apply in_app_iff. right. left. reflexivity.
Qed.

Lemma live_kid h t p ci : Wr h t -> In p (ids t) -> In ci (kids h p) -> In ci (ids t).
Proof.
  intros W Hp Hc. destruct (find_ctx t p Hp) as [c [s [-> Es]]]. subst p.
  rewrite (kids_of_focus h c s W) in Hc. apply in_plug. left.
  destruct s as [i x l e ks]. simpl in Hc. rewrite ids_eq. right. apply map_id_in_flat, Hc.
Qed.

Lemma shrunk_refl h t : WFt h t -> shrunk h t h.
Proof. intro W. exists t. split; [exact W|split; [auto|split; [lia|auto]]]. Qed.

Lemma shrunk_trans h t h1 t1 h2 :
  shrunk h t h1 -> WFt h1 t1 -> shrunk h1 t1 h2 -> shrunk h t h2.
Proof.
  intros [ta [Wa [Ia [Sa [Na [Ra Sda]]]]]] W1 [tb [Wb [Ib [Sb [Nb [Rb Sdb]]]]]].
  assert (ta = t1) by (eapply WFt_unique; eauto). subst ta.
  exists tb. split; [exact Wb|split; [auto|split; [lia|split; [congruence|split; congruence]]]].
Qed.

(* ---------- nd.edge.tail_node.remove_child(nd) for ANY node id ---------- *)

Lemma remove_from_parent_any e h t nd :
  WFt h t -> finishes (remove_from_parent e nd h) (shrunk h t) [e; ValueErr].
Proof.
  intros W. pose proof W as [W0 S]. unfold remove_from_parent.
  destruct (parent h nd) as [p|] eqn:Pn.
  2:{ right. exists e, h. split; [reflexivity|split; [left; reflexivity|apply shrunk_refl, W]]. }
  unfold remove_child_plain. destruct (memz nd (kids h p)) eqn:M.
  2:{ right. exists ValueErr, h. split; [reflexivity|split; [right; left; reflexivity|apply shrunk_refl, W]]. }
  apply memz_In in M. left.
  destruct (in_dec Z.eq_dec p (ids t)) as [Hp|Hp].
  - (* the parent is live: nd is one of its children in the tree *)
    destruct (find_ctx t p Hp) as [c [s [-> Es]]]. subst p. destruct s as [p x l el ks]. simpl t_id in *.
    pose proof (kids_of_focus h c _ W0) as K. simpl in K. rewrite K in M.
    destruct (in_map_split ks nd M) as [lft [s [rgt [-> En]]]]. subst nd.
    destruct (remove_child_plain_wf h c p x l el lft s rgt W0) as [h1 [E1 [W1 [_ [_ [_ [P1 [P2 P3]]]]]]]].
    unfold remove_child_plain in E1. rewrite K in E1.
    replace (memz (t_id s) (map t_id (lft ++ s :: rgt))) with true in E1
      by (symmetry; apply memz_In; rewrite map_app; apply in_app_iff; right; left; reflexivity).
    exists h1. split; [exact E1|].
    exists (plug c (T p x l el (lft ++ rgt))). split; [split; [exact W1|rewrite P3, <- S, !plug_id; reflexivity]|].
    split; [|split; [|auto]].
    + intros j Hj. apply in_plug in Hj. apply in_plug. destruct Hj as [Hj|Hj]; [left|right; exact Hj].
      rewrite ids_eq, flat_map_app in Hj. rewrite ids_focus. destruct Hj as [Hj|Hj]; [left; exact Hj|right].
      rewrite !in_app_iff in *. tauto.
    + rewrite <- !length_ids.
      pose proof (Permutation_length (ids_plug c (T p x l el (lft ++ rgt)))) as L1.
      pose proof (Permutation_length (ids_plug c (T p x l el (lft ++ s :: rgt)))) as L2.
      rewrite L1, L2, !app_length, ids_focus, (ids_eq p x l el (lft ++ rgt)), flat_map_app. simpl.
      rewrite !app_length. lia.
  - (* the parent is garbage, hence so is nd: only garbage cells change *)
    assert (Hn : ~ In nd (ids t)).
    { intro Hn. apply Hp. eapply live_parent; eauto. }
    eexists. split; [reflexivity|].
    set (h1 := set_parent nd None h).
    set (h' := set_kids p (remove_first nd (kids h1 p)) h1).
    assert (A : same_off [p; nd] h h') by (unfold h', h1, set_kids, set_parent; frame_solve).
    assert (G : grows h h') by (unfold h', h1, set_kids, set_parent; frame_solve).
    exists t. split; [split; [|exact S]|split; [auto|split; [lia|auto]]].
    apply (wr_frame [p; nd] h h' t W0 A G). intros j Hj [<-|[<-|[]]]; contradiction.
Qed.

Lemma hfold_remove_any e : forall l h t,
  WFt h t -> finishes (hfold (remove_from_parent e) l h) (shrunk h t) [e; ValueErr].
Proof.
  induction l as [|nd r IH]; intros h t W; simpl.
  - left. exists h. split; [reflexivity|apply shrunk_refl, W].
  - eapply finishes_bind; [apply (remove_from_parent_any e h t nd W)| |].
    + intros h1 H1. exact H1.
    + intros h1 H1. pose proof H1 as [t1 [W1 _]].
      eapply finishes_mono; [|apply (IH h1 t1 W1)]. intros h2 H2. eapply shrunk_trans; eauto.
Qed.

Lemma hfold_shrinking (f : Z -> heap -> hres) errs :
  (forall h t nd, WFt h t -> finishes (f nd h) (shrunk h t) errs) ->
  forall l h t, WFt h t -> finishes (hfold f l h) (shrunk h t) errs.
Proof.
  intros F. induction l as [|nd r IH]; intros h t W; simpl.
  - left. exists h. split; [reflexivity|apply shrunk_refl, W].
  - eapply finishes_bind; [apply (F h t nd W)| |].
    + intros h1 H1. exact H1.
    + intros h1 H1. pose proof H1 as [t1 [W1 _]].
      eapply finishes_mono; [|apply (IH h1 t1 W1)]. intros h2 H2. eapply shrunk_trans; eauto.
Qed.

Lemma shrunk_WF h t h' : shrunk h t h' -> WF h'.
Proof. intros [t' [W _]]. exists t'. exact W. Qed.

(* prune_nodes with ANY list of node ids (live, nested, repeated or garbage) *)
Theorem prune_nodes_finishes nodes plwt ub su h :
  WF h -> finishes (prune_nodes nodes plwt ub su h) WF [OtherErr; ValueErr; AttrErr].
Proof.
  intros [t W]. unfold prune_nodes.
  eapply finishes_bind with (P := shrunk h t).
  - eapply finishes_weaken; [|apply (hfold_remove_any OtherErr nodes h t W)].
    intros e [<-|[<-|[]]]; simpl; tauto.
  - intros h1 H1. eapply shrunk_WF, H1.
  - intros h1 H1. destruct plwt.
    + eapply finishes_weaken; [|apply prune_leaves_without_taxa_finishes; eapply shrunk_WF, H1].
      intros e [<-|[]]. simpl. tauto.
    + left. exists h1. split; [reflexivity|eapply shrunk_WF, H1].
Qed.

(* prune_taxa with both filters, i.e. also on internal nodes *)
Theorem prune_taxa_finishes taxa ub su ol oi h :
  WF h -> finishes (prune_taxa taxa ub su ol oi h) WF [AttrErr; ValueErr].
Proof.
  intros [t W]. unfold prune_taxa. rewrite (with_sub_seed h t _ W).
  eapply finishes_bind with (P := shrunk h t).
  - apply hfold_shrinking; [|exact W]. intros h0 t0 nd W0.
    destruct (((oi && is_internal h0 nd) || (ol && negb (is_internal h0 nd))) &&
              match taxon h0 nd with Some x => memz x taxa | None => false end).
    + apply remove_from_parent_any, W0.
    + left. exists h0. split; [reflexivity|apply shrunk_refl, W0].
  - intros h1 H1. eapply shrunk_WF, H1.
  - intros h1 H1. eapply finishes_weaken; [|apply prune_leaves_without_taxa_finishes; eapply shrunk_WF, H1].
    intros e [<-|[]]. simpl. tauto.
Qed.

(* ---------- attaching a DETACHED subtree (history steps OAddChild / OInsertChild) ---------- *)

(* ci is the root of a represented subtree that shares no node with the tree of the heap (a subtree
   detached earlier by remove_child / prune_subtree / parent_node = None, or a fresh node) *)
Definition detached (h : heap) (ci : Z) : Prop :=
  exists t tc par0, WFt h t /\ rep h par0 tc /\ t_id tc = ci /\ NoDup (ids tc) /\
    (forall j, In j (ids tc) -> ~ In j (ids t)) /\ (forall j, In j (ids tc) -> j < next h).

Lemma add_child_detached_wf h p ci :
  live h p -> detached h ci -> exists h', add_child p ci h = HOk h' /\ WF h'.
Proof.
  intros Lp [t [tc [par0 [W [Rt [Ei [Nt [Dt Bt]]]]]]]].
  destruct (live_ctx h t p W Lp) as [c [s [-> Es]]]. destruct s as [p' x l e ks]. simpl in Es. subst p'. subst ci.
  pose proof W as [W0 S].
  destruct (add_child_attach h c p x l e ks par0 tc W0 Rt Nt Dt Bt) as [h' [E [W' [_ [_ [_ [_ P3]]]]]]].
  exists h'. split; [exact E|]. exists (plug c (T p x l e (ks ++ [tc]))). split; [exact W'|].
  rewrite P3, <- S, !plug_id. reflexivity.
Qed.

Lemma insert_child_detached_wf h p n ci :
  live h p -> detached h ci -> WF (insert_child p n ci h).
Proof.
  intros Lp [t [tc [par0 [W [Rt [Ei [Nt [Dt Bt]]]]]]]].
  destruct (live_ctx h t p W Lp) as [c [s [-> Es]]]. destruct s as [p' x l e ks]. simpl in Es. subst p'. subst ci.
  pose proof W as [W0 S].
  pose proof (insert_child_attach h c p x l e ks n par0 tc W0 Rt Nt Dt Bt) as W'.
  destruct (insert_child_frame p n (t_id tc) h) as [_ [_ [_ [_ P3]]]].
  eexists. split; [exact W'|]. rewrite P3, <- S, !plug_id. reflexivity.
Qed.

(* moving a child of p to another position among p's children *)
Lemma set_parent_same h ci p : parent h ci = Some p -> forall j, get (set_parent ci (Some p) h) j = get h j.
Proof.
  intros P j. rewrite get_set_parent. destruct (Z.eqb j ci) eqn:E; [|reflexivity].
  apply Z.eqb_eq in E. subst j. rewrite (get_eta h ci), P. reflexivity.
Qed.

Lemma remove_first_perm x l : In x l -> Permutation l (x :: remove_first x l).
Proof.
  induction l as [|y r IH]; simpl; [intros []|]. intro H. destruct (Z.eqb x y) eqn:E.
  - apply Z.eqb_eq in E. subst. reflexivity.
  - destruct H as [->|H]; [rewrite Z.eqb_refl in E; discriminate|].
    etransitivity; [apply perm_skip, IH, H|apply perm_swap].
Qed.

Lemma insert_at_perm n x l : Permutation (insert_at n x l) (x :: l).
Proof.
  unfold insert_at. etransitivity; [apply Permutation_sym, Permutation_middle|].
  rewrite firstn_skipn. reflexivity.
Qed.

Lemma insert_child_move_wf h t p n ci :
  WFt h t -> In p (ids t) -> In ci (kids h p) ->
  exists t', WFt (insert_child p n ci h) t' /\ same_nodes t t'.
Proof.
  intros W Hp Hc. destruct (find_ctx t p Hp) as [c [s [-> Es]]]. subst p.
  destruct s as [p x l e ks]. simpl t_id in *. pose proof W as [W0 S].
  pose proof (kids_of_focus h c _ W0) as K. simpl in K. rewrite K in Hc.
  destruct (in_map_split ks ci Hc) as [lft [s [rgt [Eks Eci]]]].
  assert (Pc : parent h ci = Some p).
  { destruct (wr_focus _ _ _ _ _ _ _ W0) as [_ [_ [Fk _]]]. rewrite Eks in Fk.
    apply Forall_app in Fk. destruct Fk as [_ Fk]. inversion Fk as [|? ? Rs _]; subst.
    apply (rep_parent h (Some p) s Rs). }
  set (h1 := set_parent ci (Some p) h).
  assert (G1 : forall j, get h1 j = get h j) by (apply set_parent_same, Pc).
  assert (W1 : Wr h1 (plug c (T p x l e ks))).
  { destruct W0 as [R [N B]]. split; [|split; [exact N|exact B]].
    apply (rep_frame h h1); [intros j _; apply G1| |exact R].
    intros j _ Hh. unfold h1. rewrite has_set_parent, Hh. apply orb_true_r. }
  assert (K1 : kids h1 p = map t_id ks) by (unfold kids; rewrite G1; exact K).
  unfold insert_child. fold h1. rewrite K1.
  destruct (index_of ci (map t_id ks)) as [cur|] eqn:Ei.
  - destruct (Nat.eqb cur n).
    + exists (plug c (T p x l e ks)). split; [split; [exact W1|exact S]|apply same_nodes_refl].
    + assert (P : Permutation (map t_id ks) (insert_at n ci (remove_first ci (map t_id ks)))).
      { etransitivity; [apply (remove_first_perm ci), Hc|]. apply Permutation_sym, insert_at_perm. }
      destruct (Permutation_map_inv t_id ks (Permutation_sym P)) as [ks' [E P']].
      rewrite E. exists (plug c (T p x l e ks')). split.
      * split; [apply (set_kids_perm_wf h1 c p x l e ks ks' W1 P')|]. simpl. rewrite <- S, !plug_id. reflexivity.
      * apply same_nodes_plug_kids, P'.
  - exfalso. clear -Ei Hc. induction (map t_id ks) as [|y r IH]; simpl in *; [destruct Hc|].
    destruct (Z.eqb ci y) eqn:E; [discriminate|].
    destruct Hc as [->|Hc]; [rewrite Z.eqb_refl in E; discriminate|].
    destruct (index_of ci r); [discriminate|]. apply IH; auto.
Qed.

(* what remove_child leaves behind is detached *)
Lemma remove_child_detaches h c p x l e lft s rgt :
  WFt h (plug c (T p x l e (lft ++ s :: rgt))) ->
  exists h', remove_child p (t_id s) false h = HOk h' /\ WF h' /\ detached h' (t_id s).
Proof.
  intros [W S]. unfold remove_child.
  destruct (remove_child_plain_wf h c p x l e lft s rgt W) as [h1 [E1 [W1 [R1 [_ [_ [P1 [P2 P3]]]]]]]].
  destruct (detached_facts h c p x l e lft s rgt W) as [Ns [Ds Bs]].
  rewrite E1. simpl. exists h1. split; [reflexivity|].
  assert (W1' : WFt h1 (plug c (T p x l e (lft ++ rgt)))).
  { split; [exact W1|]. rewrite P3, <- S, !plug_id. reflexivity. }
  split; [exists (plug c (T p x l e (lft ++ rgt))); exact W1'|].
  exists (plug c (T p x l e (lft ++ rgt))), s, None.
  split; [exact W1'|split; [exact R1|split; [reflexivity|split; [exact Ns|split; [exact Ds|]]]]].
  intros j Hj. rewrite P1. apply Bs, Hj.
Qed.

(* ---------- the parent_node setter (also Edge.tail_node setter) ---------- *)

Lemma drop_child_wf h c q x l e lft s rgt :
  Wr h (plug c (T q x l e (lft ++ s :: rgt))) ->
  let h1 := set_kids q (remove_first (t_id s) (kids h q)) h in
  Wr h1 (plug c (T q x l e (lft ++ rgt))) /\ rep h1 (Some q) s /\ same_off [q] h h1 /\ grows h h1.
Proof.
  intros W h1. destruct (wr_focus _ _ _ _ _ _ _ W) as [Hq [Gq [Fk [N1 [N2 [N3 [N4 [N5 N6]]]]]]]].
  pose proof W as [_ [ND _]]. apply nodup_plug in ND. destruct ND as [ND _].
  pose proof (focus_facts _ _ _ _ _ _ _ ND) as F.
  assert (K : kids h q = map t_id lft ++ t_id s :: map t_id rgt).
  { unfold kids. rewrite Gq, map_app. reflexivity. }
  assert (Ncl : ~ In (t_id s) (map t_id lft)).
  { apply notin_map_of_flat. apply (fn_tc_lft _ _ _ _ F). apply ids_root. }
  unfold h1. rewrite K, remove_first_app_notin by exact Ncl. rewrite <- map_app.
  set (h2 := set_kids q (map t_id (lft ++ rgt)) h).
  assert (A : same_off [q] h h2) by (unfold h2, set_kids; frame_solve).
  assert (G : grows h h2) by (unfold h2, set_kids; frame_solve).
  apply Forall_app in Fk. destruct Fk as [Fl Fr]. inversion Fr as [|? ? Rs Fr']; subst.
  assert (In1 : forall j, In j (flat_map ids (lft ++ rgt)) -> In j (flat_map ids (lft ++ s :: rgt))).
  { intros j Hj. rewrite flat_map_app in *. simpl. rewrite !in_app_iff in *. tauto. }
  split; [|split; [|split; [exact A|exact G]]].
  - apply (focus_update_r [q] h h2 c q x l e (lft ++ s :: rgt) x l e (lft ++ rgt) W A G).
    + intros j [<-|[]]. exact N3.
    + unfold h2. rewrite get_set_kids, Z.eqb_refl. unfold parent, elen, taxon, label. rewrite Gq. reflexivity.
    + apply (Forall_rep_frame_off [q] h h2 (Some q) (lft ++ rgt) A G).
      * intros j Hj [<-|[]]. apply N2, In1, Hj.
      * apply Forall_app. split; assumption.
    + rewrite flat_map_app. apply NoDup_app_iff. split; [apply (fn_lft _ _ _ _ F)|split; [apply (fn_rgt _ _ _ _ F)|]].
      intros j H1 H2. eapply (fn_lft_rgt _ _ _ _ F); eauto.
    + intro H. apply N2, In1, H.
    + intros j Hj. apply N4, In1, Hj.
    + intros j Hj. simpl. apply N5, In1, Hj.
  - apply (rep_frame_off [q] h h2 (Some q) s A G); [|exact Rs].
    intros j Hj [<-|[]]. exact (fn_p_tc _ _ _ _ F Hj).
Qed.

Definition subtree_ids (h : heap) (ci : Z) : list Z :=
  match abs_at h ci with Some s => ids s | None => [] end.

Theorem set_parent_node_wf h t ci np :
  WFt h t -> In ci (ids t) -> ci <> seed h ->
  match np with None => True | Some q2 => In q2 (ids t) /\ ~ In q2 (subtree_ids h ci) end ->
  WF (set_parent_node ci np h).
Proof.
  intros W Hc Ds Hnp. destruct (find_ctx t ci Hc) as [c [s [-> Es]]]. subst ci.
  pose proof W as [W0 S].
  destruct c as [|c' q x l e lft rgt]; [exfalso; apply Ds; rewrite <- S; reflexivity|].
  simpl plug in *.
  destruct (wr_focus _ _ _ _ _ _ _ W0) as [_ [_ [Fk _]]].
  apply Forall_app in Fk. destruct Fk as [_ Fk]. inversion Fk as [|? ? Rs _]; subst.
  pose proof (rep_parent h (Some q) s Rs) as Pc.
  destruct (drop_child_wf h c' q x l e lft s rgt W0) as [W1 [R1 [A1 G1]]].
  destruct (detached_facts h c' q x l e lft s rgt W0) as [Ns [Dsj Bs]].
  set (h1 := set_kids q (remove_first (t_id s) (kids h q)) h) in *.
  assert (Sub : subtree_ids h (t_id s) = ids s).
  { unfold subtree_ids. rewrite (abs_at_rep h (Some q) s Rs Ns). reflexivity. }
  destruct np as [q2|].
  - destruct Hnp as [Hq2 Nq2]. rewrite Sub in Nq2.
    (* q2 is a node of what remains *)
    assert (Hq2' : In q2 (ids (plug c' (T q x l e (lft ++ rgt))))).
    { apply in_plug in Hq2. apply in_plug. destruct Hq2 as [H|H]; [left|right; exact H].
      rewrite ids_focus in H. rewrite ids_eq, flat_map_app. destruct H as [H|H]; [left; exact H|right].
      rewrite !in_app_iff in *. tauto. }
    destruct (find_ctx _ q2 Hq2') as [c2 [s2 [E2 Es2]]]. destruct s2 as [q2' x2 l2 e2 ks2]. simpl in Es2. subst q2'.
    rewrite E2 in W1.
    destruct (add_child_attach h1 c2 q2 x2 l2 e2 ks2 (Some q) s W1 R1 Ns) as [h3 [E3 [W3 [_ [_ [_ [_ P3]]]]]]].
    { intros j Hj. rewrite <- E2. apply Dsj, Hj. }
    { intros j Hj. apply Bs, Hj. }
    assert (Eq : h3 = set_parent_node (t_id s) (Some q2) h).
    { unfold set_parent_node. rewrite Pc. fold h1. unfold add_child in E3.
      destruct (Z.eqb (t_id s) q2); [discriminate|].
      destruct (oz_eqb (parent h1 q2) (Some (t_id s))); [discriminate|]. inversion E3. reflexivity. }
    rewrite <- Eq. eexists. split; [exact W3|].
    rewrite P3. simpl. rewrite <- S. pose proof (f_equal t_id E2) as E2'. rewrite !plug_id in *. simpl in *. congruence.
  - unfold set_parent_node. rewrite Pc. fold h1.
    set (h2 := set_parent (t_id s) None h1).
    assert (A2 : same_off [t_id s] h1 h2) by (unfold h2, set_parent; frame_solve).
    assert (G2 : grows h1 h2) by (unfold h2, set_parent; frame_solve).
    exists (plug c' (T q x l e (lft ++ rgt))). split.
    + apply (wr_frame [t_id s] h1 h2 _ W1 A2 G2). intros j Hj [<-|[]]. exact (Dsj _ (ids_root s) Hj).
    + simpl. rewrite <- S, !plug_id. reflexivity.
Qed.

(* ---------- shuffle_taxa with any script ---------- *)

Lemma set_taxon_live h t nd v :
  WFt h t -> In nd (ids t) ->
  exists t', WFt (set_taxon nd v h) t' /\ (forall j, In j (ids t') <-> In j (ids t)).
Proof.
  intros [W S] Hn. destruct (find_ctx t nd Hn) as [c [s [-> Es]]]. subst nd.
  destruct s as [p x l e ks]. simpl t_id.
  exists (plug c (T p v l e ks)). split.
  - split; [apply (set_taxon_wf h c p x l e ks v W)|]. simpl. rewrite <- S, !plug_id. reflexivity.
  - intro j. rewrite !in_plug, !ids_eq. reflexivity.
Qed.

Lemma shuffle_each_finishes : forall nodes pool draws h t,
  WFt h t -> (forall nd, In nd nodes -> In nd (ids t)) ->
  shuffle_each nodes pool draws h = HFuel \/
  exists h', shuffle_each nodes pool draws h = HOk h' /\ WF h' /\ rooted h' = rooted h /\ next h' = next h.
Proof.
  induction nodes as [|nd r IH]; intros pool draws h t W Hn; simpl.
  - right. exists h. split; [reflexivity|split; [exists t; exact W|auto]].
  - destruct draws as [|d ds]; [left; reflexivity|].
    destruct (swap_pop pool d) as [[x pool']|]; [|left; reflexivity].
    destruct (set_taxon_live h t nd (Some x) W (Hn nd (or_introl eq_refl))) as [t' [W' I']].
    destruct (IH pool' ds _ t' W') as [F|[h' [E [Wf [R N]]]]].
    + intros n0 H0. apply I'. apply Hn. right. exact H0.
    + left. exact F.
    + right. exists h'. split; [exact E|split; [exact Wf|split; [exact R|exact N]]].
Qed.

Theorem shuffle_taxa_finishes ii draws h :
  WF h -> shuffle_taxa ii draws h = HFuel \/ finishes (shuffle_taxa ii draws h) WF [AssertErr].
Proof.
  intros [t W]. unfold shuffle_taxa. rewrite (with_sub_seed h t _ W).
  set (nds := filter _ _). set (pool := flat_map _ nds).
  destruct (shuffle_each_finishes nds pool draws h t W) as [F|[h' [E [Wf _]]]].
  - intros nd H. unfold nds in H. apply filter_In in H. destruct H as [H _].
    destruct ii; [exact H|]. apply (proj1 (leaf_ids_sub t)), H.
  - left. rewrite F. reflexivity.
  - right. rewrite E. simpl. destruct (has_dup pool).
    + right. exists AssertErr, h'. split; [reflexivity|split; [left; reflexivity|exact Wf]].
    + left. exists h'. split; [reflexivity|exact Wf].
Qed.
