(* C04: what the two loops of _get_length_diffs compute, on dictionaries split mask -> (length, is seed edge) *)
From Coq Require Import ZArith List Bool Lia Permutation.
From DV Require Import Model.PyPrims Model.Tree Model.C04Model Proofs.C04Lists.
Import ListNotations.
Open Scope Z_scope.

Notation einfo := (option Z * bool)%type.

(* a missing length counts 0 *)
Definition ov (x : einfo) : Z := match fst x with Some v => v | None => 0 end.

(* value of split k in dictionary d: absent counts 0 *)
Definition val (d : list (Z * einfo)) (k : Z) : Z :=
  match zlookup k d with Some x => ov x | None => 0 end.

Lemma lenient_ov p x v : lenient_value p x = Ok v -> v = ov x.
Proof.
  unfold lenient_value, ov. destruct (fst x); [intro H; inversion H; reflexivity|].
  destruct p; try (intro H; inversion H; reflexivity).
  destruct (snd x); intro H; inversion H; reflexivity.
Qed.

Lemma strict_ov p x v : strict_value p x = Ok v -> v = ov x.
Proof.
  unfold strict_value, ov. destruct (fst x); [intro H; inversion H; reflexivity|].
  destruct p; try (intro H; inversion H; reflexivity);
  destruct (snd x); intro H; inversion H; reflexivity.
Qed.

Lemma filter_all {A} (f : A -> bool) l : (forall x, In x l -> f x = true) -> filter f l = l.
Proof.
  induction l as [|x r IH]; simpl; intro H; [reflexivity|].
  rewrite (H x (or_introl eq_refl)), IH; [reflexivity|]. intros y Hy. apply H. right. exact Hy.
Qed.

Lemma dict_remove_filter {V} k (l : list (Z * V)) :
  NoDup (keys l) -> dict_remove k l = filter (fun kx => negb (Z.eqb k (fst kx))) l.
Proof.
  induction l as [|[k0 v0] r IH]; simpl; intro H; [reflexivity|].
  inversion H as [|? ? Hk Hr]; subst. destruct (Z.eqb k k0) eqn:E; simpl.
  - apply Z.eqb_eq in E. subst. symmetry. apply filter_all. intros [k1 v1] Hin. simpl.
    destruct (Z.eqb k0 k1) eqn:E; [|reflexivity]. apply Z.eqb_eq in E. subst. exfalso. apply Hk.
    unfold keys. apply in_map_iff. exists (k1, v1). split; [reflexivity | exact Hin].
  - rewrite IH by exact Hr. reflexivity.
Qed.

Lemma filter_filter {A} (f g : A -> bool) l : filter f (filter g l) = filter (fun x => g x && f x) l.
Proof.
  induction l as [|x r IH]; simpl; [reflexivity|]. destruct (g x); simpl; [|exact IH].
  destruct (f x); rewrite IH; reflexivity.
Qed.

Lemma keys_filter_In {V} (f : Z * V -> bool) (l : list (Z * V)) k : In k (keys (filter f l)) -> In k (keys l).
Proof.
  unfold keys. rewrite !in_map_iff. intros [x [E H]]. apply filter_In in H. exists x. tauto.
Qed.

Lemma keys_filter_nodup {V} (f : Z * V -> bool) (l : list (Z * V)) : NoDup (keys l) -> NoDup (keys (filter f l)).
Proof.
  induction l as [|x r IH]; simpl; intro H; [constructor|].
  inversion H as [|? ? Hk Hr]; subst. destruct (f x); simpl; [|apply IH, Hr].
  constructor; [|apply IH, Hr]. intro H1. apply Hk. eapply keys_filter_In, H1.
Qed.

Section Spec.
Variable p : policy.

Notation L1 := (@loop1 einfo p (fun x => Ok x) (fun x => Ok x)).
Notation L2 := (@loop2 einfo p (fun x => Ok x) (fun x => Ok x)).

Lemma loop1_spec : forall (m1 m2 : list (Z * einfo)) out out' rest,
  NoDup (keys m1) -> NoDup (keys m2) ->
  L1 m1 m2 out = Ok (out', rest) ->
  out' = out ++ map (fun kx => (ov (snd kx), val m2 (fst kx))) m1
  /\ rest = filter (fun kx => negb (memz (fst kx) (keys m1))) m2.
Proof.
  induction m1 as [|[k e1] r IH]; intros m2 out out' rest H1 H2 H.
  - simpl in H. inversion H; subst. rewrite app_nil_r. split; [reflexivity|].
    symmetry. apply filter_all. intros; reflexivity.
  - inversion H1 as [|? ? Hk Hr]; subst.
    cbn [loop1 bind] in H.
    destruct (lenient_value p e1) as [v1| |] eqn:E1; cbn [bind] in H; try discriminate.
    apply lenient_ov in E1. subst v1.
    unfold dict_pop in H. destruct (zlookup k m2) as [e2|] eqn:E2.
    + cbn [bind] in H. destruct (strict_value p e2) as [v2| |] eqn:E3; cbn [bind] in H; try discriminate.
      apply strict_ov in E3. subst v2.
      apply IH in H; [|exact Hr|apply dict_remove_nodup, H2]. destruct H as [Ho Hrest]. split.
      * rewrite Ho, <- app_assoc. simpl. f_equal. f_equal.
        -- unfold val. simpl. rewrite E2. reflexivity.
        -- apply map_ext_in. intros [k' x'] Hin. simpl. f_equal. unfold val.
           rewrite zlookup_dict_remove by exact H2.
           destruct (Z.eqb k' k) eqn:E; [|reflexivity]. apply Z.eqb_eq in E. subst. exfalso. apply Hk.
           unfold keys. apply in_map_iff. exists (k, x'). split; [reflexivity|exact Hin].
      * rewrite Hrest, dict_remove_filter by exact H2. rewrite filter_filter.
        apply filter_ext. intros [k' x']. simpl. rewrite (Z.eqb_sym k k').
        destruct (Z.eqb k' k); reflexivity.
    + apply IH in H; [|exact Hr|exact H2]. destruct H as [Ho Hrest]. split.
      * rewrite Ho, <- app_assoc. simpl. f_equal. f_equal. unfold val. simpl. rewrite E2. reflexivity.
      * rewrite Hrest. apply filter_ext_in. intros [k' x'] Hin. simpl.
        destruct (Z.eqb k' k) eqn:E; [|reflexivity]. apply Z.eqb_eq in E. subst. exfalso.
        apply zlookup_None in E2. apply E2. unfold keys. apply in_map_iff. exists (k, x'). split; [reflexivity|exact Hin].
Qed.

Lemma loop2_spec : forall (m1 rest : list (Z * einfo)) out l,
  (forall kx, In kx rest -> zlookup (fst kx) m1 = None) ->
  L2 m1 rest out = Ok l ->
  l = out ++ map (fun kx => (0, ov (snd kx))) rest.
Proof.
  intros m1 rest. induction rest as [|[k e2] r IH]; intros out l Hn H.
  - simpl in H. inversion H. rewrite app_nil_r. reflexivity.
  - cbn [loop2 bind] in H.
    destruct (lenient_value p e2) as [v2| |] eqn:E2; cbn [bind] in H; try discriminate.
    apply lenient_ov in E2. subst v2.
    pose proof (Hn (k, e2) (or_introl eq_refl)) as Hz. simpl in Hz. rewrite Hz in H.
    apply IH in H; [|intros kx Hkx; apply Hn; right; exact Hkx].
    rewrite H, <- app_assoc. reflexivity.
Qed.

(* the pairs produced: one per split of the first dictionary (own value, the other's or 0), then one per
   split only the second has (0, its value) *)
Lemma length_diffs_spec (m1 m2 : list (Z * einfo)) l :
  NoDup (keys m1) -> NoDup (keys m2) ->
  length_diffs p (fun x => Ok x) (fun x => Ok x) m1 m2 = Ok l ->
  l = map (fun kx => (ov (snd kx), val m2 (fst kx))) m1
      ++ map (fun kx => (0, ov (snd kx))) (filter (fun kx => negb (memz (fst kx) (keys m1))) m2).
Proof.
  intros H1 H2 H. unfold length_diffs in H.
  destruct (L1 m1 m2 []) as [[o rest]| |] eqn:E; cbn [bind] in H; try discriminate.
  apply loop1_spec in E; [|exact H1|exact H2]. destruct E as [Eo Er]. simpl in Eo. simpl in H.
  apply loop2_spec in H.
  - rewrite H, Eo, Er. reflexivity.
  - intros [k x] Hin. simpl. rewrite Er in Hin. apply filter_In in Hin. destruct Hin as [_ Hm]. simpl in Hm.
    apply zlookup_None. apply memz_false. destruct (memz k (keys m1)); [discriminate|reflexivity].
Qed.

End Spec.

(* ------------------------------------------------------------------------------------------ *)
(* norms of the pair list as sums over any duplicate-free superset of the two key sets *)

Definition sum_h (h : Z -> Z -> Z) (l : list (Z * Z)) : Z := zsum (map (fun d => h (fst d) (snd d)) l).

Lemma sum_abs_h l : sum_abs l = sum_h (fun a b => Z.abs (a - b)) l.
Proof. induction l as [|d r IH]; unfold sum_h, zsum in *; simpl; [reflexivity|]. rewrite IH. reflexivity. Qed.

Lemma sum_sq_h l : sum_sq l = sum_h (fun a b => (a - b) * (a - b)) l.
Proof. induction l as [|d r IH]; unfold sum_h, zsum in *; simpl; [reflexivity|]. rewrite IH. reflexivity. Qed.

Lemma val_nodup (d : list (Z * einfo)) k x : NoDup (keys d) -> In (k, x) d -> val d k = ov x.
Proof. intros H Hin. unfold val. rewrite (zlookup_nodup k x d H Hin). reflexivity. Qed.

Lemma val_absent (d : list (Z * einfo)) k : ~ In k (keys d) -> val d k = 0.
Proof. intro H. unfold val. apply zlookup_None in H. rewrite H. reflexivity. Qed.

Lemma NoDup_app_intro {A} (a b : list A) :
  NoDup a -> NoDup b -> (forall x, In x a -> ~ In x b) -> NoDup (a ++ b).
Proof.
  induction a as [|x r IH]; simpl; intros Ha Hb H; [exact Hb|].
  inversion Ha as [|? ? Hx Hr]; subst. constructor.
  - rewrite in_app_iff. intros [H1|H1]; [tauto|]. apply (H x); [left; reflexivity | exact H1].
  - apply IH; [exact Hr | exact Hb|]. intros y Hy. apply H. right. exact Hy.
Qed.

Theorem length_diffs_norm (h : Z -> Z -> Z) p (m1 m2 : list (Z * einfo)) l U :
  h 0 0 = 0 ->
  NoDup (keys m1) -> NoDup (keys m2) ->
  length_diffs p (fun x => Ok x) (fun x => Ok x) m1 m2 = Ok l ->
  NoDup U -> incl (keys m1) U -> incl (keys m2) U ->
  sum_h h l = zsum (map (fun k => h (val m1 k) (val m2 k)) U).
Proof.
  intros h0 H1 H2 H HU I1 I2.
  apply length_diffs_spec in H; [|exact H1|exact H2]. subst l.
  set (rest := filter (fun kx => negb (memz (fst kx) (keys m1))) m2).
  set (g := fun k => h (val m1 k) (val m2 k)).
  assert (Hrest_in : forall k, In k (keys rest) <-> In k (keys m2) /\ ~ In k (keys m1)).
  { intro k. split.
    - intro Hk. unfold keys in Hk. apply in_map_iff in Hk. destruct Hk as [[k' x] [E Hin]]. simpl in E. subst k'.
      unfold rest in Hin. apply filter_In in Hin. destruct Hin as [Hin Hm]. simpl in Hm. split.
      + unfold keys. apply in_map_iff. exists (k, x). split; [reflexivity|exact Hin].
      + apply memz_false. destruct (memz k (keys m1)); [discriminate|reflexivity].
    - intros [Hk Hn]. unfold keys in Hk. apply in_map_iff in Hk. destruct Hk as [[k' x] [E Hin]]. simpl in E. subst k'.
      unfold keys. apply in_map_iff. exists (k, x). split; [reflexivity|]. unfold rest. apply filter_In.
      split; [exact Hin|]. simpl. apply memz_false in Hn. rewrite Hn. reflexivity. }
  rewrite (zsum_support g (keys m1 ++ keys rest) U).
  - unfold sum_h, keys. rewrite !map_app, !map_map, !zsum_app. f_equal.
    + apply zsum_map_ext. intros [k x] Hin. simpl. unfold g. rewrite (val_nodup m1 k x H1 Hin). reflexivity.
    + apply zsum_map_ext. intros [k x] Hin. simpl. unfold g.
      assert (Hk : In k (keys rest)) by (unfold keys; apply in_map_iff; exists (k, x); tauto).
      apply Hrest_in in Hk. destruct Hk as [Hk2 Hk1].
      rewrite (val_absent m1 k Hk1).
      unfold rest in Hin. apply filter_In in Hin. destruct Hin as [Hin _].
      rewrite (val_nodup m2 k x H2 Hin). reflexivity.
  - apply NoDup_app_intro; [exact H1 | apply keys_filter_nodup, H2|].
    intros k Hk Hr. apply Hrest_in in Hr. tauto.
  - exact HU.
  - intros k Hk. apply in_app_iff in Hk. destruct Hk as [Hk|Hk]; [apply I1, Hk|].
    apply Hrest_in in Hk. apply I2. tauto.
  - intros k _ Hn. unfold g. rewrite in_app_iff in Hn.
    assert (N1 : ~ In k (keys m1)) by tauto.
    assert (N2 : ~ In k (keys m2)) by (intro H0; apply Hn; right; apply Hrest_in; tauto).
    rewrite (val_absent m1 k N1), (val_absent m2 k N2). exact h0.
Qed.

(* ------------------------------------------------------------------------------------------ *)
(* definedness *)

Definition is_ok {A} (r : res A) : bool := match r with Ok _ => true | _ => false end.

(* an edge that the guarded side refuses: no length and not the seed edge *)
Definition refusable (x : einfo) : bool :=
  match fst x with None => negb (snd x) | Some _ => false end.

Lemma strict_ok p x : is_ok (strict_value p x) = match p with ZeroBoth => true | _ => negb (refusable x) end.
Proof. unfold strict_value, refusable. destruct (fst x), p, (snd x); reflexivity. Qed.

Lemma lenient_ok p x : is_ok (lenient_value p x) = match p with RefuseBoth => negb (refusable x) | _ => true end.
Proof. unfold lenient_value, refusable. destruct (fst x), p, (snd x); reflexivity. Qed.

Lemma no_fuel_strict p x : strict_value p x <> OutOfFuel.
Proof. unfold strict_value. destruct (fst x), p, (snd x); discriminate. Qed.

Lemma no_fuel_lenient p x : lenient_value p x <> OutOfFuel.
Proof. unfold lenient_value. destruct (fst x), p, (snd x); discriminate. Qed.

Lemma forallb_ext_in' {A} (f g : A -> bool) l : (forall x, In x l -> f x = g x) -> forallb f l = forallb g l.
Proof.
  induction l as [|x r IH]; simpl; intro H; [reflexivity|].
  rewrite (H x (or_introl eq_refl)), IH; [reflexivity|]. intros y Hy. apply H. right. exact Hy.
Qed.

Section Defined.
Variable p : policy.
Notation L1 := (@loop1 einfo p (fun x => Ok x) (fun x => Ok x)).
Notation L2 := (@loop2 einfo p (fun x => Ok x) (fun x => Ok x)).

Definition lok (x : einfo) : bool := is_ok (lenient_value p x).
Definition sok (x : einfo) : bool := is_ok (strict_value p x).

(* which entries the first loop checks *)
Definition chk1 (m2 : list (Z * einfo)) (kx : Z * einfo) : bool :=
  lok (snd kx) && match zlookup (fst kx) m2 with Some e2 => sok e2 | None => true end.

Lemma loop1_ok : forall (m1 m2 : list (Z * einfo)) out,
  NoDup (keys m1) -> NoDup (keys m2) ->
  is_ok (L1 m1 m2 out) = forallb (chk1 m2) m1.
Proof.
  induction m1 as [|[k e1] r IH]; intros m2 out H1 H2; [reflexivity|].
  inversion H1 as [|? ? Hk Hr]; subst.
  cbn [loop1 bind forallb]. unfold chk1 at 1, lok, sok. cbn [fst snd].
  destruct (lenient_value p e1) as [v1| |] eqn:E1; cbn [bind is_ok andb]; try reflexivity.
  unfold dict_pop. destruct (zlookup k m2) as [e2|] eqn:E2.
  - cbn [bind]. destruct (strict_value p e2) as [v2| |] eqn:E3; cbn [bind is_ok andb]; try reflexivity.
    rewrite IH by (try exact Hr; apply dict_remove_nodup, H2).
    apply forallb_ext_in'. intros [k' x'] Hin. unfold chk1. simpl.
    rewrite zlookup_dict_remove by exact H2.
    destruct (Z.eqb k' k) eqn:E; [|reflexivity]. apply Z.eqb_eq in E. subst. exfalso. apply Hk.
    unfold keys. apply in_map_iff. exists (k, x'). split; [reflexivity|exact Hin].
  - rewrite IH by assumption. reflexivity.
Qed.

Lemma loop2_ok : forall (m1 rest : list (Z * einfo)) out,
  (forall kx, In kx rest -> zlookup (fst kx) m1 = None) ->
  is_ok (L2 m1 rest out) = forallb (fun kx => lok (snd kx)) rest.
Proof.
  intros m1 rest. induction rest as [|[k e2] r IH]; intros out Hn; [reflexivity|].
  cbn [loop2 bind forallb]. unfold lok at 1. cbn [snd].
  destruct (lenient_value p e2) as [v2| |] eqn:E2; cbn [bind is_ok andb]; try reflexivity.
  pose proof (Hn (k, e2) (or_introl eq_refl)) as Hz. simpl in Hz. rewrite Hz.
  apply IH. intros kx Hkx. apply Hn. right. exact Hkx.
Qed.

(* _get_length_diffs returns (does not raise) exactly when every edge of the first tree passes the
   unguarded test, and every edge of the second tree passes the guarded test if its split is shared
   and the unguarded one otherwise *)
Theorem length_diffs_defined (m1 m2 : list (Z * einfo)) :
  NoDup (keys m1) -> NoDup (keys m2) ->
  (is_ok (length_diffs p (fun x => Ok x) (fun x => Ok x) m1 m2) = true <->
   (forall kx, In kx m1 -> lok (snd kx) = true) /\
   (forall kx, In kx m2 -> (if memz (fst kx) (keys m1) then sok (snd kx) else lok (snd kx)) = true)).
Proof.
  intros H1 H2. unfold length_diffs.
  pose proof (loop1_ok m1 m2 [] H1 H2) as O1.
  destruct (L1 m1 m2 []) as [[o rest]| |] eqn:E; cbn [bind].
  - pose proof (loop1_spec p m1 m2 [] o rest H1 H2 E) as [_ Er].
    assert (Hn : forall kx, In kx rest -> zlookup (fst kx) m1 = None).
    { intros [k x] Hin. simpl. rewrite Er in Hin. apply filter_In in Hin. destruct Hin as [_ Hm]. simpl in Hm.
      apply zlookup_None. apply memz_false. destruct (memz k (keys m1)); [discriminate|reflexivity]. }
    cbn [fst snd]. rewrite (loop2_ok m1 rest o Hn). simpl in O1. symmetry in O1.
    rewrite forallb_forall in O1. rewrite forallb_forall. split.
    + intro Hr. split.
      * intros kx Hkx. specialize (O1 kx Hkx). unfold chk1 in O1. apply andb_true_iff in O1. tauto.
      * intros [k e2] Hin. simpl. destruct (memz k (keys m1)) eqn:Em.
        -- apply memz_In in Em. unfold keys in Em. apply in_map_iff in Em. destruct Em as [[k' e1] [Ek Hin1]].
           simpl in Ek. subst k'. specialize (O1 (k, e1) Hin1). unfold chk1 in O1. simpl in O1.
           rewrite (zlookup_nodup k e2 m2 H2 Hin) in O1. apply andb_true_iff in O1. tauto.
        -- apply (Hr (k, e2)). rewrite Er. apply filter_In. split; [exact Hin|]. simpl. rewrite Em. reflexivity.
    + intros [Ha Hb] [k e2] Hin. rewrite Er in Hin. apply filter_In in Hin. destruct Hin as [Hin Hm]. simpl in Hm.
      specialize (Hb (k, e2) Hin). simpl in Hb. destruct (memz k (keys m1)); [discriminate|exact Hb].
  - simpl in O1. split; [discriminate|]. intros [Ha Hb]. exfalso.
    assert (F : forallb (chk1 m2) m1 = true).
    { apply forallb_forall. intros [k e1] Hin. unfold chk1. simpl. apply andb_true_iff. split.
      - apply (Ha (k, e1) Hin).
      - destruct (zlookup k m2) as [e2|] eqn:E2; [|reflexivity]. apply zlookup_In in E2.
        specialize (Hb (k, e2) E2). simpl in Hb.
        assert (Em : memz k (keys m1) = true).
        { apply memz_In. unfold keys. apply in_map_iff. exists (k, e1). split; [reflexivity|exact Hin]. }
        rewrite Em in Hb. exact Hb. }
    rewrite F in O1. discriminate.
  - simpl in O1. split; [discriminate|]. intros [Ha Hb]. exfalso.
    assert (F : forallb (chk1 m2) m1 = true).
    { apply forallb_forall. intros [k e1] Hin. unfold chk1. simpl. apply andb_true_iff. split.
      - apply (Ha (k, e1) Hin).
      - destruct (zlookup k m2) as [e2|] eqn:E2; [|reflexivity]. apply zlookup_In in E2.
        specialize (Hb (k, e2) E2). simpl in Hb.
        assert (Em : memz k (keys m1) = true).
        { apply memz_In. unfold keys. apply in_map_iff. exists (k, e1). split; [reflexivity|exact Hin]. }
        rewrite Em in Hb. exact Hb. }
    rewrite F in O1. discriminate.
Qed.

(* never out of fuel: there is no fuel *)
Lemma loop1_no_fuel : forall (m1 m2 : list (Z * einfo)) out, L1 m1 m2 out <> OutOfFuel.
Proof.
  induction m1 as [|[k e1] r IH]; intros m2 out; [discriminate|].
  cbn [loop1 bind]. destruct (lenient_value p e1) eqn:E1; cbn [bind]; try discriminate.
  - destruct (dict_pop k m2) as [[e2 m2']|]; [|apply IH]. cbn [bind].
    destruct (strict_value p e2) eqn:E2; cbn [bind]; try discriminate; [apply IH|].
    exfalso. eapply no_fuel_strict, E2.
  - exfalso. eapply no_fuel_lenient, E1.
Qed.

Lemma loop2_no_fuel : forall (m1 rest : list (Z * einfo)) out, L2 m1 rest out <> OutOfFuel.
Proof.
  intros m1 rest. induction rest as [|[k e2] r IH]; intro out; [discriminate|].
  cbn [loop2 bind]. destruct (lenient_value p e2) eqn:E2; cbn [bind]; try discriminate.
  - destruct (zlookup k m1) as [e1|]; [|apply IH]. cbn [bind].
    destruct (strict_value Current e1) eqn:E1; cbn [bind]; try discriminate; [apply IH|].
    exfalso. eapply no_fuel_strict, E1.
  - exfalso. eapply no_fuel_lenient, E2.
Qed.

Lemma length_diffs_no_fuel (m1 m2 : list (Z * einfo)) :
  length_diffs p (fun x => Ok x) (fun x => Ok x) m1 m2 <> OutOfFuel.
Proof.
  unfold length_diffs. destruct (L1 m1 m2 []) as [[o rest]| |] eqn:E; cbn [bind]; try discriminate.
  - apply loop2_no_fuel.
  - exfalso. eapply loop1_no_fuel, E.
Qed.

End Defined.

(* the only exception the loops raise is ValueError *)
Lemma lenient_err p x e : lenient_value p x = Err e -> e = ValueErr.
Proof. unfold lenient_value. destruct (fst x), p, (snd x); intro H; inversion H; reflexivity. Qed.
Lemma strict_err p x e : strict_value p x = Err e -> e = ValueErr.
Proof. unfold strict_value. destruct (fst x), p, (snd x); intro H; inversion H; reflexivity. Qed.

Lemma loop1_err p : forall (m1 m2 : list (Z * einfo)) out e,
  loop1 p (fun x => Ok x) (fun x => Ok x) m1 m2 out = Err e -> e = ValueErr.
Proof.
  induction m1 as [|[k e1] r IH]; intros m2 out e; [discriminate|].
  cbn [loop1 bind]. destruct (lenient_value p e1) eqn:E1; cbn [bind]; try discriminate.
  - destruct (dict_pop k m2) as [[e2 m2']|]; [|apply IH]. cbn [bind].
    destruct (strict_value p e2) eqn:E2; cbn [bind]; try discriminate; [apply IH|].
    intro H. inversion H; subst. eapply strict_err, E2.
  - intro H. inversion H; subst. eapply lenient_err, E1.
Qed.

Lemma loop2_err p : forall (m1 rest : list (Z * einfo)) out e,
  loop2 p (fun x => Ok x) (fun x => Ok x) m1 rest out = Err e -> e = ValueErr.
Proof.
  intros m1 rest. induction rest as [|[k e2] r IH]; intros out e; [discriminate|].
  cbn [loop2 bind]. destruct (lenient_value p e2) eqn:E2; cbn [bind]; try discriminate.
  - destruct (zlookup k m1) as [e1|]; [|apply IH]. cbn [bind].
    destruct (strict_value Current e1) eqn:E1; cbn [bind]; try discriminate; [apply IH|].
    intro H. inversion H; subst. eapply strict_err, E1.
  - intro H. inversion H; subst. eapply lenient_err, E2.
Qed.

Lemma length_diffs_err p (m1 m2 : list (Z * einfo)) e :
  length_diffs p (fun x => Ok x) (fun x => Ok x) m1 m2 = Err e -> e = ValueErr.
Proof.
  unfold length_diffs. destruct (loop1 p _ _ m1 m2 []) as [[o rest]| |] eqn:E; cbn [bind]; try discriminate.
  - apply loop2_err.
  - intro H. inversion H; subst. eapply loop1_err, E.
Qed.

(* symmetric definedness for the two repaired policies; for the current code see the refutation in
   Proofs/C04Main.v *)
Lemma lok_sok_zero x : lok ZeroBoth x = true /\ sok ZeroBoth x = true.
Proof. unfold lok, sok. rewrite lenient_ok, strict_ok. tauto. Qed.

Lemma lok_sok_refuse x : lok RefuseBoth x = negb (refusable x) /\ sok RefuseBoth x = negb (refusable x).
Proof. unfold lok, sok. rewrite lenient_ok, strict_ok. tauto. Qed.

Theorem length_diffs_defined_sym p (m1 m2 : list (Z * einfo)) :
  p <> Current ->
  NoDup (keys m1) -> NoDup (keys m2) ->
  is_ok (length_diffs p (fun x => Ok x) (fun x => Ok x) m1 m2)
  = is_ok (length_diffs p (fun x => Ok x) (fun x => Ok x) m2 m1).
Proof.
  intros Hp H1 H2.
  pose proof (length_diffs_defined p m1 m2 H1 H2) as A.
  pose proof (length_diffs_defined p m2 m1 H2 H1) as B.
  assert (G : is_ok (length_diffs p (fun x => Ok x) (fun x => Ok x) m1 m2) = true <->
              is_ok (length_diffs p (fun x => Ok x) (fun x => Ok x) m2 m1) = true).
  { rewrite A, B. destruct p; [congruence| |].
    - split; intros _; split; intros kx _; try (destruct (memz (fst kx) _)); apply lok_sok_zero.
    - assert (R : forall m m' : list (Z * einfo),
               (forall kx, In kx m -> lok RefuseBoth (snd kx) = true) /\
               (forall kx, In kx m' -> (if memz (fst kx) (keys m) then sok RefuseBoth (snd kx) else lok RefuseBoth (snd kx)) = true)
               <-> (forall kx, In kx m -> refusable (snd kx) = false) /\ (forall kx, In kx m' -> refusable (snd kx) = false)).
      { intros m m'. split; intros [Ha Hb]; split; intros kx Hkx.
        - specialize (Ha kx Hkx). rewrite (proj1 (lok_sok_refuse _)) in Ha. destruct (refusable (snd kx)); [discriminate|reflexivity].
        - specialize (Hb kx Hkx). destruct (memz (fst kx) (keys m));
            [rewrite (proj2 (lok_sok_refuse _)) in Hb | rewrite (proj1 (lok_sok_refuse _)) in Hb];
            destruct (refusable (snd kx)); try discriminate; reflexivity.
        - rewrite (proj1 (lok_sok_refuse _)), (Ha kx Hkx). reflexivity.
        - destruct (memz (fst kx) (keys m));
            [rewrite (proj2 (lok_sok_refuse _)) | rewrite (proj1 (lok_sok_refuse _))]; rewrite (Hb kx Hkx); reflexivity. }
      rewrite (R m1 m2), (R m2 m1). tauto. }
  destruct (is_ok (length_diffs p _ _ m1 m2)), (is_ok (length_diffs p _ _ m2 m1)); try reflexivity.
  - symmetry. apply G. reflexivity.
  - apply G. reflexivity.
Qed.
