(* C03 proofs: the Tree-level operations built from the primitives. *)
From Coq Require Import ZArith List Bool Lia Permutation.
From DV Require Import Model.PyPrims Model.Tree Model.Heap Model.HeapOps Model.C03Spec
  Proofs.C03Base Proofs.C03Abs Proofs.C03Local Proofs.C03Prims
  Proofs.C03Collapse Proofs.C03Suppress Proofs.C03Reseed Proofs.C03Order.
Import ListNotations.
Open Scope Z_scope.

Lemma with_sub_seed h t k : WFt h t -> with_sub h (seed h) k = k t.
Proof. intro W. unfold with_sub. fold (abs h). rewrite (abs_WFt h t W). reflexivity. Qed.

Lemma seed_kids h t : WFt h t -> kids h (seed h) = map t_id (t_kids t).
Proof. intros [[R _] S]. rewrite <- S. apply (rep_kids h None t R). Qed.

Definition rooted_ok (h h' : heap) : Prop := rooted h' = rooted h \/ rooted h' = Some false.

(* ---------- encode_bipartitions (structure) ---------- *)

Lemma encode_structural_wf su cb h t :
  WFt h t ->
  exists h', encode_structural su cb h = HOk h' /\
    WFt h' (spec_encode su cb (not_rooted h) t) /\ next h' = next h /\ rooted_ok h h'.
Proof.
  intro W. unfold encode_structural, spec_encode, rooted_ok.
  rewrite (seed_kids h t W), len_map_tid.
  destruct (cb && not_rooted h && (Z.of_nat (length (t_kids t)) =? 2)) eqn:C.
  - destruct (collapse_basal_wf h t true W) as [h1 [E1 [W1 [N1 [S1 [R1 _]]]]]].
    rewrite E1. simpl hbind. destruct su.
    + destruct (suppress_unifurcations_wf h1 _ W1) as [h2 [E2 [W2 [N2 [R2 _]]]]].
      exists h2. split; [exact E2|split; [exact W2|split; [congruence|]]]. rewrite R2. exact R1.
    + exists h1. split; [reflexivity|split; [exact W1|split; [exact N1|exact R1]]].
  - simpl hbind. destruct su.
    + destruct (suppress_unifurcations_wf h _ W) as [h2 [E2 [W2 [N2 [R2 _]]]]].
      exists h2. split; [exact E2|split; [exact W2|split; [exact N2|left; exact R2]]].
    + exists h. split; [reflexivity|split; [exact W|split; [reflexivity|left; reflexivity]]].
Qed.

Lemma leaf_taxa_spec_encode su cb u t : leaf_taxa (spec_encode su cb u t) = leaf_taxa t.
Proof.
  unfold spec_encode. destruct (cb && u && _); destruct su;
    rewrite ?leaf_taxa_spec_su, ?leaf_taxa_collapse_basal; reflexivity.
Qed.

(* ---------- reseed_at (new seed internal, or no unifurcation suppression) ---------- *)

Lemma reroot_top s : reroot CTop s = s.
Proof. destruct s. simpl. rewrite app_nil_r. reflexivity. Qed.

Lemma croot_in_cids c i x l e lft rgt d : In (croot (CNode c i x l e lft rgt) d) (cids (CNode c i x l e lft rgt)).
Proof.
  revert i x l e lft rgt d. induction c as [|c' IH j y m f a b]; intros; simpl.
  - left. reflexivity.
  - right. rewrite !in_app_iff. right. right. apply (IH j y m f a b i).
Qed.

Lemma reseed_at_wf ub cb su h c s :
  WFt h (plug c s) -> (t_kids s <> [] \/ su = false) ->
  exists h', reseed_at (t_id s) ub cb su h = HOk h' /\
    WFt h' (spec_encode su cb (not_rooted h) (reroot c s)) /\ next h' = next h /\ rooted_ok h h'.
Proof.
  intros W Hs. unfold reseed_at. destruct c as [|c' i x l e lft rgt].
  - (* the seed itself *)
    pose proof W as [_ S]. simpl in S. rewrite S, Z.eqb_refl, reroot_top.
    apply encode_structural_wf. exact W.
  - pose proof W as [W0 S].
    assert (Dseed : seed h <> t_id s).
    { rewrite <- S, plug_id. intro E.
      eapply (wr_focus_notin _ _ _ W0 (t_id s) (ids_root s)). rewrite <- E. apply croot_in_cids. }
    rewrite (eqb_neq_l _ _ Dseed).
    pose proof W0 as [R0 _]. apply rep_plug in R0. destruct R0 as [_ Rs]. simpl cpar in Rs.
    rewrite (rep_parent h (Some i) s Rs).
    rewrite (chain_ctx h _ s W0).
    destruct (reseed_core h _ s W) as [h1 [E1 H2]]. rewrite E1. simpl hbind.
    assert (Lf : negb (is_internal h (t_id s)) && su = false).
    { destruct Hs as [Hs| ->]; [|apply andb_false_r].
      unfold is_internal. rewrite (rep_kids h (Some i) s Rs).
      destruct (t_kids s); [congruence|reflexivity]. }
    rewrite Lf. simpl hbind. cbv zeta in H2.
    destruct H2 as [W2 [N2 [R2 _]]].
    destruct (encode_structural_wf su cb _ _ W2) as [h3 [E3 [W3 [N3 R3]]]].
    exists h3. split; [exact E3|]. unfold not_rooted in *. rewrite R2 in W3.
    split; [exact W3|split; [congruence|]]. unfold rooted_ok in *. rewrite R2 in R3. exact R3.
Qed.

(* ---------- reroot_at_node ---------- *)

Lemma WFt_set_rooted r h t : WFt h t -> WFt (set_rooted r h) t.
Proof. intros [W S]. split; [apply Wr_set_rooted, W|exact S]. Qed.

Lemma reroot_at_node_wf ub su cb h c s :
  WFt h (plug c s) -> (t_kids s <> [] \/ su = false) ->
  exists h', reroot_at_node (t_id s) ub su cb h = HOk h' /\
    WFt h' ((if ub then spec_encode su cb false else (fun t => t))
              (spec_encode su false true (reroot c s))) /\
    next h' = next h /\ rooted h' = Some true.
Proof.
  intros W Hs. unfold reroot_at_node.
  destruct (reseed_at_wf false false su h c s W Hs) as [h1 [E1 [W1 [N1 _]]]].
  rewrite E1. simpl hbind.
  assert (Es : forall u, spec_encode su false u (reroot c s) = spec_encode su false true (reroot c s)).
  { intro u. unfold spec_encode. reflexivity. }
  rewrite (Es (not_rooted h)) in W1.
  pose proof (WFt_set_rooted (Some true) h1 _ W1) as W2.
  destruct ub.
  - assert (NR : not_rooted (set_rooted (Some true) h1) = false) by reflexivity.
    unfold encode_structural. rewrite NR, andb_false_r. simpl hbind.
    unfold spec_encode at 1. rewrite andb_false_r. cbv zeta. simpl andb. cbv iota.
    destruct su.
    + destruct (suppress_unifurcations_wf _ _ W2) as [h4 [E4 [W4 [N4 [R4 _]]]]].
      exists h4. split; [exact E4|split; [exact W4|split; [simpl in N4; congruence|exact R4]]].
    + exists (set_rooted (Some true) h1). split; [reflexivity|split; [exact W2|split; [exact N1|reflexivity]]].
  - exists (set_rooted (Some true) h1). split; [reflexivity|split; [exact W2|]].
    split; [exact N1|reflexivity].
Qed.

(* ---------- leaf taxa of a context ---------- *)

Fixpoint ctx_leaf_taxa (c : ctx) : list (option Z) :=
  match c with
  | CTop => []
  | CNode c' _ _ _ _ lft rgt => flat_map leaf_taxa lft ++ flat_map leaf_taxa rgt ++ ctx_leaf_taxa c'
  end.

Lemma leaf_taxa_plug_split c u :
  Permutation (leaf_taxa (plug c u)) (leaf_taxa u ++ ctx_leaf_taxa c).
Proof.
  revert u. induction c as [|c' IH i x l e lft rgt]; intro u; simpl.
  - rewrite app_nil_r. reflexivity.
  - rewrite IH, C03Order.leaf_taxa_focus. rewrite <- !app_assoc.
    apply Permutation_app_swap_app.
Qed.

(* removing the child s of p: the leaf taxa of s go away; if s was the only child, p becomes a leaf *)
Lemma leaf_taxa_plug_remove c p (x : option Z) l e (lft : list tree) s (rgt : list tree) :
  Permutation (olist (if match lft ++ rgt with [] => true | _ => false end then Some x else None)
               ++ leaf_taxa (plug c (T p x l e (lft ++ s :: rgt))))
              (leaf_taxa s ++ leaf_taxa (plug c (T p x l e (lft ++ rgt)))).
Proof.
  rewrite !leaf_taxa_plug_split, C03Order.leaf_taxa_focus.
  destruct (lft ++ rgt) as [|k r] eqn:E.
  - apply app_eq_nil in E. destruct E as [-> ->]. simpl. rewrite app_nil_r.
    apply Permutation_cons_app. reflexivity.
  - rewrite <- E. rewrite C03Order.leaf_taxa_node by (rewrite E; discriminate).
    rewrite flat_map_app. simpl. rewrite <- !app_assoc.
    apply Permutation_app_swap_app.
Qed.

(* ---------- prune_subtree ---------- *)

Definition spec_tail (ub su unrooted : bool) (t : tree) : tree :=
  let t2 := if su then spec_su t else t in
  if ub then spec_encode su true unrooted t2 else t2.

Lemma leaf_taxa_spec_tail ub su u t : leaf_taxa (spec_tail ub su u t) = leaf_taxa t.
Proof.
  unfold spec_tail. destruct ub, su; rewrite ?leaf_taxa_spec_encode, ?leaf_taxa_spec_su; reflexivity.
Qed.

Lemma tail_wf (ub su : bool) h t :
  WFt h t ->
  exists h', hbind (hbind (HOk h) (fun h1 => if su then suppress_unifurcations h1 else HOk h1)) (ub_tail_su ub su) = HOk h' /\
    WFt h' (spec_tail ub su (not_rooted h) t) /\ next h' = next h /\ rooted_ok h h'.
Proof.
  intro W. simpl hbind. unfold spec_tail, ub_tail_su.
  assert (S1 : exists h1, (if su then suppress_unifurcations h else HOk h) = HOk h1 /\
                WFt h1 (if su then spec_su t else t) /\ next h1 = next h /\ rooted h1 = rooted h).
  { destruct su.
    - destruct (suppress_unifurcations_wf h t W) as [h1 [E1 [W1 [N1 [R1 _]]]]]. eauto.
    - exists h. auto. }
  destruct S1 as [h1 [E1 [W1 [N1 R1]]]]. rewrite E1. simpl hbind. destruct ub.
  - destruct (encode_structural_wf su true h1 _ W1) as [h2 [E2 [W2 [N2 R2]]]].
    exists h2. split; [exact E2|]. unfold not_rooted in *. rewrite R1 in W2.
    split; [exact W2|split; [congruence|]]. unfold rooted_ok in *. rewrite R1 in R2. exact R2.
  - exists h1. split; [reflexivity|split; [exact W1|split; [exact N1|left; exact R1]]].
Qed.

Lemma prune_subtree_root ub su h t : WFt h t -> prune_subtree (seed h) ub su h = HErr TypeErr h.
Proof.
  intros [[R _] S]. unfold prune_subtree. rewrite <- S, (rep_parent h None t R). reflexivity.
Qed.

Lemma prune_subtree_wf ub su h c p x l e lft s rgt :
  WFt h (plug c (T p x l e (lft ++ s :: rgt))) ->
  exists h', prune_subtree (t_id s) ub su h = HOk h' /\
    WFt h' (spec_tail ub su (not_rooted h) (plug c (T p x l e (lft ++ rgt)))) /\
    next h' = next h /\ rooted_ok h h'.
Proof.
  intros [W S]. unfold prune_subtree.
  destruct (wr_focus _ _ _ _ _ _ _ W) as [_ [_ [Fk _]]].
  apply Forall_app in Fk. destruct Fk as [_ Fk]. inversion Fk as [|? ? Rs _]; subst.
  rewrite (rep_parent h (Some p) s Rs).
  destruct (remove_child_plain_wf h c p x l e lft s rgt W) as [h1 [E1 [W1 [_ [_ [_ [P1 [P2 P3]]]]]]]].
  rewrite E1.
  assert (W1' : WFt h1 (plug c (T p x l e (lft ++ rgt)))).
  { split; [exact W1|]. rewrite P3, <- S, !plug_id. reflexivity. }
  destruct (tail_wf ub su h1 _ W1') as [h2 [E2 [W2 [N2 R2]]]].
  exists h2. split; [exact E2|]. unfold not_rooted, rooted_ok in *. rewrite P2 in *.
  split; [exact W2|split; [congruence|exact R2]].
Qed.

(* ---------- Node.remove_child (without the suppress_unifurcations branch) ---------- *)

Lemma remove_child_wf h c p x l e lft s rgt :
  WFt h (plug c (T p x l e (lft ++ s :: rgt))) ->
  exists h', remove_child p (t_id s) false h = HOk h' /\
    WFt h' (plug c (T p x l e (lft ++ rgt))) /\ next h' = next h /\ rooted h' = rooted h.
Proof.
  intros [W S]. unfold remove_child.
  destruct (remove_child_plain_wf h c p x l e lft s rgt W) as [h1 [E1 [W1 [_ [_ [_ [P1 [P2 P3]]]]]]]].
  rewrite E1. simpl. exists h1. split; [reflexivity|]. split; [|auto].
  split; [exact W1|]. rewrite P3, <- S, !plug_id. reflexivity.
Qed.

Lemma remove_child_not_child h p ci su : ~ In ci (kids h p) -> remove_child p ci su h = HErr ValueErr h.
Proof.
  intro N. unfold remove_child, remove_child_plain.
  replace (memz ci (kids h p)) with false by (symmetry; apply memz_false; exact N). reflexivity.
Qed.

(* ---------- new_child / insert_new_child on a live node ---------- *)

Lemma new_child_op_wf h c p x l e ks xn ln en :
  WFt h (plug c (T p x l e ks)) ->
  exists h', new_child p xn ln en h = HOk h' /\
    WFt h' (plug c (T p x l e (ks ++ [T (next h) xn ln en []]))) /\
    next h' = next h + 1 /\ rooted h' = rooted h.
Proof.
  intros [W S]. destruct (new_child_wf h c p x l e ks xn ln en W) as [h' [E [W' [N [R Sd]]]]].
  exists h'. split; [exact E|split; [|auto]]. split; [exact W'|]. rewrite Sd, <- S, !plug_id. reflexivity.
Qed.

Lemma insert_new_child_op_wf h c p x l e ks n xn ln en :
  WFt h (plug c (T p x l e ks)) ->
  let h' := insert_new_child p n xn ln en h in
  WFt h' (plug c (T p x l e (firstn n ks ++ T (next h) xn ln en [] :: skipn n ks))) /\
  next h' = next h + 1 /\ rooted h' = rooted h.
Proof.
  intros [W S] h'. destruct (insert_new_child_wf h c p x l e ks n xn ln en W) as [W' [N [R Sd]]].
  split; [|auto]. split; [exact W'|]. fold h' in Sd. rewrite Sd, <- S, !plug_id. reflexivity.
Qed.

(* ---------- Edge.collapse on a live node ---------- *)

Lemma edge_collapse_op_wf adj h c s :
  WFt h (plug c s) ->
  match c, t_kids s with
  | CTop, _ => edge_collapse (t_id s) adj h = HOk h
  | CNode _ _ _ _ _ _ _, [] => edge_collapse (t_id s) adj h = HErr ValueErr h
  | CNode c' p x l e lft rgt, kc =>
    exists h', edge_collapse (t_id s) adj h = HOk h' /\
      WFt h' (plug c' (T p x l e (lft ++ map (bump (if adj then t_len s else None)) kc ++ rgt))) /\
      next h' = next h /\ rooted h' = rooted h
  end.
Proof.
  intros [W S]. destruct c as [|c' p x l e lft rgt].
  - apply edge_collapse_root. destruct W as [R _]. apply (rep_parent h None s R).
  - pose proof W as [R0 _]. apply rep_plug in R0. destruct R0 as [_ Rs]. simpl cpar in Rs.
    destruct s as [ci xc lc ec kc]. simpl t_kids. simpl t_id. simpl t_len.
    destruct kc as [|k0 kr].
    + eapply edge_collapse_leaf; [apply (rep_parent h (Some p) _ Rs)|apply (rep_kids h (Some p) _ Rs)].
    + simpl plug in W.
      destruct (edge_collapse_wf h c' p x l e lft ci xc lc ec (k0 :: kr) rgt adj) as [h' [E [W' [[P1 [P2 P3]] _]]]];
        [discriminate|exact W|].
      exists h'. split; [exact E|split; [|auto]]. split; [exact W'|].
      rewrite P3, <- S. simpl plug. rewrite !plug_id. reflexivity.
Qed.
