(* C14 translator tie: the unconditional NJ recovery theorems (Proofs/C14NjQ.v, Proofs/C14NjTree.v)
   restated for the GENERATED nj_tree program (Gen/Pdm.v), through gen_nj_tree_ok. *)
From Coq Require Import ZArith QArith List Bool Lia.
From DV Require Import Model.PyPrims Model.Tree Model.C14Model Model.C14Spec Model.C14Spec2 Model.C14GenPrims Model.C14GenObj Gen.Pdm
  Proofs.C14Dict Proofs.C14Pdm Proofs.C14GenTreesBase Proofs.C14GenNj
  Proofs.C14Clu Proofs.C14Proofs Proofs.C14Qcrit Proofs.C14FourPoint Proofs.C14NjQ Proofs.C14NjTree.
Import ListNotations.
Open Scope Z_scope.

Lemma gen_nj_recovers_additive_top (none_key : Z) M order :
  NoDup order -> order <> [] ->
  mcomplete M order -> msymmetric M order -> mfour_point_strict M order ->
  exists T i hp, PDM_nj_tree none_key (length order) M order = Ok (i, hp) /\
                 (forall fuel, (qdepth T <= fuel)%nat -> rebuild fuel hp i = Ok T) /\
                 forall a b, In a order -> In b order -> a <> b -> exists q, qdist T a b = Some q /\ (q == mval M a b)%Q.
Proof.
  intros N Ne C S F. destruct (nj_recovers_additive_l M order N Ne C S F) as [T [ET D]].
  destruct (gen_nj_tree_ok none_key _ _ _ N C ET) as [i [hp [EG RB]]].
  exists T, i, hp. repeat split; assumption.
Qed.

Lemma gen_nj_recovers_tree_top (none_key : Z) t p order :
  rbin t -> good_leaves t -> t_kids t <> [] -> positive_internal t -> nonneg_lengths t ->
  compile_from_tree t = Ok p ->
  NoDup order -> order <> [] -> (forall a, In a order -> In (Some a) (leaf_taxa t)) ->
  exists T i hp, PDM_nj_tree none_key (length order) (qtable p true) order = Ok (i, hp) /\
                 (forall fuel, (qdepth T <= fuel)%nat -> rebuild fuel hp i = Ok T) /\
                 forall a b, In a order -> In b order -> a <> b ->
                   exists q d, qdist T a b = Some q /\ dist t a b = Some d /\ (q == uq d)%Q.
Proof.
  intros R G Hk P Nn Ec N Ne Hin.
  destruct (nj_recovers_tree_l t p order R G Hk P Nn Ec N Ne Hin) as [T [ET HD]].
  assert (C : mcomplete (qtable p true) order).
  { destruct (pdm_exact_p t G Hk) as [p' [E' [Hv _]]]. rewrite Ec in E'. assert (p' = p) by congruence. subst p'.
    intros a b Ha Hb _. destruct (Hv a b (Hin a Ha) (Hin b Hb)) as [r [d [s [_ [_ [_ [T1 _]]]]]]].
    rewrite qtable_get, T1. discriminate. }
  destruct (gen_nj_tree_ok none_key _ _ _ N C ET) as [i [hp [EG RB]]].
  exists T, i, hp. repeat split; assumption.
Qed.
