(* C19: the statements used by Props/C19.v *)
From Coq Require Import ZArith List Bool Lia.
From DV Require Import Model.PyPrims Model.C19Model Proofs.C19Alist Proofs.C19Rows Proofs.C19Cols Proofs.C19Concat.
Import ListNotations.
Open Scope Z_scope.

(* ------------------------------------------------------------------ *)
(* concatenate                                                          *)
(* ------------------------------------------------------------------ *)
Section Conc.
Variable lower : lbl -> lbl.
Variable suffix : lbl -> Z -> lbl.
Variable locus : Z -> lbl.

Lemma cm_ok_rows T ns0 nseqs cm :
  NoDup T -> wf_matrix T cm -> cm_ok T ns0 nseqs cm ->
  (forall t, In t T -> exists r, aget t (m_rows cm) = Some r /\ zlen r = vector_size (m_rows cm)) /\
  (forall t, In t T -> In t (keys (m_rows cm))).
Proof.
  intros NT W [E1 [E2 [E3 [t0 [T' [r0 [ET [G0 Hall]]]]]]]].
  assert (P := all_taxa_present T cm NT W E2).
  split; [|exact P].
  assert (NE : m_rows cm <> []).
  { intro X. rewrite X in E2. subst T. unfold zlen in E2. simpl in E2. lia. }
  destruct (vector_size_first (m_rows cm) NE) as [t1 [r1 [I1 [G1 V1]]]].
  assert (Z1 : zlen r1 = zlen r0). { apply (Hall t1 r1); [apply W; exact I1 | exact G1]. }
  intros t Ht. destruct (aget t (m_rows cm)) as [r|] eqn:G.
  - exists r. split; [reflexivity|]. rewrite V1, Z1. apply (Hall t r Ht G).
  - exfalso. apply aget_None in G. apply G. apply P. exact Ht.
Qed.

Lemma concatenate_spec_l (taxa_of : nsid -> list tid) (cms : list matrix) (res : matrix) :
  (forall n, NoDup (taxa_of n)) ->
  Forall (fun cm => NoDup (map fst (m_rows cm)) /\ incl (map fst (m_rows cm)) (taxa_of (m_ns cm))) cms ->
  concatenate lower suffix locus taxa_of cms = Ok res ->
  exists c0 rest, cms = c0 :: rest /\
    let T := taxa_of (m_ns c0) in
    T <> [] /\
    m_ns res = m_ns c0 /\ m_label res = None /\
    Forall (fun cm => m_ns cm = m_ns c0) cms /\
    Forall (fun cm => forall t, In t T ->
                      exists r, aget t (m_rows cm) = Some r /\ zlen r = vector_size (m_rows cm)) cms /\
    map fst (m_rows res) = map fst (m_rows c0) /\
    (forall t, In t T ->
       aget t (m_rows res)
       = Some (concat (map (fun cm => match aget t (m_rows cm) with Some r => r | None => [] end) cms))) /\
    (forall t, ~ In t T -> aget t (m_rows res) = None) /\
    length (m_subs res) = length cms /\
    NoDup (map (fun p => lower (fst p)) (m_subs res)) /\
    forall k cm l idx, nth_error cms k = Some cm -> nth_error (m_subs res) k = Some (l, idx) ->
      idx = zrange (fold_right Z.add 0 (map (fun c => vector_size (m_rows c)) (firstn k cms)))
                   (vector_size (m_rows cm)) /\
      has_key lower l (firstn k (m_subs res)) = false /\
      let base := match m_label cm with None => locus (Z.of_nat k) | Some b => b end in
      (l = base \/
       exists i, 2 <= i /\ l = suffix base i /\ has_key lower base (firstn k (m_subs res)) = true /\
                 forall j, 2 <= j < i -> has_key lower (suffix base j) (firstn k (m_subs res)) = true).
Proof.
  intros NT WF H. destruct cms as [|c0 rest]; [discriminate|].
  exists c0, rest. split; [reflexivity|]. cbv zeta.
  unfold concatenate in H.
  set (T := taxa_of (m_ns c0)) in *. set (ns0 := m_ns c0) in *.
  apply concat_loop_ok in H; [|reflexivity].
  destruct H as [HF [R1 [R2 [R3 [new [R4 R5]]]]]]. cbn [m_rows m_subs m_label app] in R2, R3, R4, R5.
  assert (WF' : Forall (fun cm => wf_matrix T cm) (c0 :: rest)).
  { rewrite Forall_forall in *. intros cm Hc. specialize (WF cm Hc). specialize (HF cm Hc).
    destruct HF as [E _]. unfold wf_matrix, keys. rewrite E in WF. exact WF. }
  assert (ROWS : Forall (fun cm => (forall t, In t T -> exists r, aget t (m_rows cm) = Some r /\ zlen r = vector_size (m_rows cm)) /\
                                   (forall t, In t T -> In t (keys (m_rows cm)))) (c0 :: rest)).
  { rewrite Forall_forall in *. intros cm Hc. apply (cm_ok_rows T ns0 (zlen (m_rows c0))); [apply NT | apply WF'; exact Hc | apply HF; exact Hc]. }
  assert (TNE : T <> []).
  { inversion HF as [|? ? [_ [_ [_ [t0 [T' [r0 [ET _]]]]]]] _]; subst. rewrite ET. discriminate. }
  split; [exact TNE|]. split; [exact R1|]. split; [exact R2|].
  split. { rewrite Forall_forall in *. intros cm Hc. apply (HF cm Hc). }
  split. { rewrite Forall_forall in *. intros cm Hc. apply (ROWS cm Hc). }
  assert (ND0 : Forall (fun rs : rows => NoDup (keys rs)) (map m_rows (c0 :: rest))).
  { rewrite Forall_forall in *. intros rs Hr. apply in_map_iff in Hr. destruct Hr as [cm [E Hc]]. subst. apply (WF' cm Hc). }
  split.
  { (* keys *)
    rewrite R3. simpl map. simpl fold_left.
    inversion WF' as [|? ? W0 WR]; subst. inversion ROWS as [|? ? [_ P0] PR]; subst.
    change (map fst (m_rows c0)) with (keys (m_rows c0)).
    rewrite <- (extend_from_empty (m_rows c0)) by apply W0.
    change (map fst ?x) with (keys x).
    apply fold_extend_keys_same. rewrite Forall_forall in *. intros rs Hr.
    apply in_map_iff in Hr. destruct Hr as [cm [E Hc]]. subst.
    split; [apply (WR cm Hc)|]. rewrite extend_from_empty by apply W0.
    intros x Hx. apply P0. apply (WR cm Hc). exact Hx. }
  split.
  { intros t Ht. rewrite R3, fold_extend_get by exact ND0. simpl ahas. cbn [orb].
    assert (X : existsb (ahas t) (map m_rows (c0 :: rest)) = true).
    { simpl. inversion ROWS as [|? ? [_ P0] _]; subst. replace (ahas t (m_rows c0)) with true; [reflexivity|].
      symmetry. apply ahas_In. apply P0. exact Ht. }
    rewrite X. unfold row_of at 1. simpl aget. cbn [app]. rewrite map_map. reflexivity. }
  split.
  { intros t Ht. rewrite R3, fold_extend_get by exact ND0. simpl ahas. cbn [orb].
    replace (existsb (ahas t) (map m_rows (c0 :: rest))) with false; [reflexivity|].
    symmetry. apply not_true_is_false. intro X. apply existsb_exists in X. destruct X as [rs [Hr Hh]].
    apply in_map_iff in Hr. destruct Hr as [cm [E Hc]]. subst. apply ahas_In in Hh.
    rewrite Forall_forall in WF'. apply Ht. apply (WF' cm Hc). exact Hh. }
  rewrite R4.
  destruct (names_ok_nth lower suffix locus _ _ _ _ _ R5) as [L N].
  split; [exact L|].
  split. { apply (names_ok_nodup lower suffix locus _ _ _ _ _ R5). constructor. }
  intros k cm l idx Hc Hn. destruct (N k cm l idx Hc Hn) as [[A1 A2] B].
  rewrite Z.add_0_l in B. cbn [app] in A1, A2. unfold base_label in A2. rewrite Z.add_0_l in A2.
  split; [exact B|]. split; [exact A1|]. exact A2.
Qed.

Lemma concatenate_terminates_l :
  (forall l i j, lower (suffix l i) = lower (suffix l j) -> i = j) ->
  (forall ss l, exists r,
      free_name lower suffix (S (S (length ss))) ss l l 2 = Ok r /\ has_key lower r ss = false /\
      (r = l \/ exists j, 2 <= j <= 2 + Z.of_nat (length ss) /\ r = suffix l j)) /\
  (forall taxa_of cms, concatenate lower suffix locus taxa_of cms <> OutOfFuel).
Proof.
  intros Inj. split.
  - intros ss l. destruct (free_name_terminates lower suffix Inj ss l) as [r E]. exists r.
    split; [exact E|]. split; [apply (free_name_ok lower suffix _ _ _ _ _ _ E)|].
    apply (free_name_bound lower suffix Inj). exact E.
  - intros taxa_of cms. destruct cms as [|c0 rest]; [discriminate|]. unfold concatenate.
    apply concat_loop_no_out_of_fuel; [exact Inj | reflexivity].
Qed.

Lemma concatenate_foreign_refused_l taxa_of cms :
  (forall l i j, lower (suffix l i) = lower (suffix l j) -> i = j) ->
  (exists c0 rest cm, cms = c0 :: rest /\ In cm cms /\ m_ns cm <> m_ns c0) ->
  exists e, concatenate lower suffix locus taxa_of cms = Err e.
Proof.
  intros Inj [c0 [rest [cm [E [Hin Hns]]]]].
  destruct (concatenate lower suffix locus taxa_of cms) as [res|e|] eqn:C.
  - exfalso. subst cms. unfold concatenate in C. apply concat_loop_ok in C; [|reflexivity].
    destruct C as [HF _]. rewrite Forall_forall in HF. destruct (HF cm Hin) as [X _]. contradiction.
  - exists e. reflexivity.
  - exfalso. exact (proj2 (concatenate_terminates_l Inj) taxa_of cms C).
Qed.

End Conc.

(* ------------------------------------------------------------------ *)
(* export                                                               *)
(* ------------------------------------------------------------------ *)
Lemma export_spec_l (T : list tid) (m : matrix) (idx : list Z) (d : cell) :
  incl (map fst (m_rows m)) T ->
  let e := export_character_indices T m idx in
  m_ns e = m_ns m /\ m_label e = m_label m /\ m_subs e = [] /\
  map fst (m_rows e) = map fst (m_rows m) /\
  forall t, aget t (m_rows e) =
            match aget t (m_rows m) with
            | None => None
            | Some r => Some (map (fun j => nth (Z.to_nat j) r d)
                                  (filter (fun j => memb j idx) (zrange 0 (zlen r))))
            end.
Proof.
  intros Inc. cbv zeta. unfold export_character_indices. cbn [m_ns m_label m_subs m_rows].
  repeat split; [apply export_rows_keys|].
  intros t. rewrite export_rows_get. destruct (aget t (m_rows m)) as [r|] eqn:G; [|reflexivity].
  assert (M : memb t T = true).
  { apply memb_In. apply Inc. apply aget_Some_In in G. change t with (fst (t, r)). apply in_map. exact G. }
  rewrite M. rewrite (select_from_spec idx d). f_equal. apply map_ext. intros j. rewrite Z.sub_0_r. reflexivity.
Qed.

Lemma export_subset_spec_l lower (T : list tid) (m : matrix) (l : lbl) :
  (forall idx, find_sub lower l (m_subs m) = Some idx ->
     export_character_subset lower T m l = Ok (export_character_indices T m idx) /\
     exists a b l', m_subs m = a ++ (l', idx) :: b /\ lower l' = lower l /\ has_key lower l a = false) /\
  (find_sub lower l (m_subs m) = None ->
     export_character_subset lower T m l = Err KeyErr /\ has_key lower l (m_subs m) = false).
Proof.
  unfold export_character_subset. split.
  - intros idx H. rewrite H. split; [reflexivity|].
    induction (m_subs m) as [|[l' i'] ss IH]; simpl in H; [discriminate|].
    destruct (Z.eqb_spec (lower l') (lower l)) as [E|E].
    + inversion H; subst. exists [], ss, l'. repeat split. exact E.
    + destruct (IH H) as [a [b [l2 [E1 [E2 E3]]]]]. exists ((l', i') :: a), b, l2.
      split; [simpl; f_equal; exact E1|]. split; [exact E2|]. simpl.
      destruct (Z.eqb_spec (lower l') (lower l)); [contradiction | exact E3].
  - intros H. rewrite H. split; [reflexivity|].
    induction (m_subs m) as [|[l' i'] ss IH]; simpl in *; [reflexivity|].
    destruct (Z.eqb_spec (lower l') (lower l)); [discriminate | apply IH; exact H].
Qed.

(* ------------------------------------------------------------------ *)
(* fill / fill_taxa / pack                                              *)
(* ------------------------------------------------------------------ *)
Lemma fill_spec_l (T : list tid) (m : matrix) (v : cell) (size : option Z) (app : bool) :
  incl (map fst (m_rows m)) T ->
  let s := match size with Some s => s | None => max_sequence_size T (m_rows m) end in
  let m' := fst (fill T m v size app) in
  snd (fill T m v size app) = s /\
  m_ns m' = m_ns m /\ m_label m' = m_label m /\ m_subs m' = m_subs m /\
  map fst (m_rows m') = map fst (m_rows m) /\
  (forall t, aget t (m_rows m') =
             match aget t (m_rows m) with
             | None => None
             | Some r => Some (if app then r ++ repeat v (Z.to_nat (s - zlen r))
                               else repeat v (Z.to_nat (s - zlen r)) ++ r)
             end) /\
  (forall t r r', aget t (m_rows m) = Some r -> aget t (m_rows m') = Some r' -> zlen r' = Z.max s (zlen r)) /\
  (size = None -> forall t r', aget t (m_rows m') = Some r' -> zlen r' = s) /\
  (size = None -> s = 0 \/ exists t r, aget t (m_rows m) = Some r /\ zlen r = s).
Proof.
  intros Inc. cbv zeta. unfold fill, fill_size. cbn [fst snd m_ns m_label m_subs m_rows set_rows].
  set (s := match size with Some s => s | None => max_sequence_size T (m_rows m) end).
  assert (G : forall t, aget t (fill_rows T v s app (m_rows m)) =
             match aget t (m_rows m) with None => None | Some r => Some (pad v s app r) end).
  { intros t. rewrite fill_rows_get. destruct (aget t (m_rows m)) as [r|] eqn:E; [|reflexivity].
    replace (memb t T) with true; [reflexivity|]. symmetry. apply memb_In. apply Inc.
    apply aget_Some_In in E. change t with (fst (t, r)). apply in_map. exact E. }
  split; [reflexivity|]. split; [reflexivity|]. split; [reflexivity|]. split; [reflexivity|].
  split; [apply fill_rows_keys|].
  split. { intros t. rewrite G. destruct (aget t (m_rows m)); [|reflexivity]. unfold pad. destruct app; reflexivity. }
  split. { intros t r r' E E'. rewrite G, E in E'. inversion E'. apply pad_len. }
  split.
  - intros Es t r' E'. rewrite G in E'. destruct (aget t (m_rows m)) as [r|] eqn:E; [|discriminate].
    inversion E'. rewrite pad_len. subst size. unfold s.
    assert (zlen r <= max_sequence_size T (m_rows m)).
    { apply (max_sequence_size_ge T (m_rows m) t r); [|exact E]. apply Inc. apply aget_Some_In in E.
      change t with (fst (t, r)). apply in_map. exact E. }
    lia.
  - intros Es. subst size. unfold s. destruct (max_sequence_size_attained T (m_rows m)) as [H|[t [r [_ [H1 H2]]]]].
    + left. exact H.
    + right. exists t, r. split; assumption.
Qed.

Lemma fill_taxa_spec_l (T : list tid) (m : matrix) :
  NoDup T ->
  let m' := fill_taxa T m in
  m_ns m' = m_ns m /\ m_label m' = m_label m /\ m_subs m' = m_subs m /\
  map fst (m_rows m') = map fst (m_rows m) ++ filter (fun t => negb (ahas t (m_rows m))) T /\
  (forall t, aget t (m_rows m') =
             match aget t (m_rows m) with
             | Some r => Some r
             | None => if memb t T then Some [] else None
             end).
Proof.
  intros NT. cbv zeta. unfold fill_taxa. cbn [m_ns m_label m_subs m_rows set_rows].
  repeat split; [apply fill_taxa_rows_keys; exact NT | intros t; apply fill_taxa_rows_get; exact NT].
Qed.

Lemma pack_spec_l (T : list tid) (m : matrix) (v : cell) (size : option Z) (app : bool) :
  NoDup T -> incl (map fst (m_rows m)) T ->
  let m' := fst (pack T m v size app) in
  let s := match size with Some s => s | None => max_sequence_size T (m_rows (fill_taxa T m)) end in
  m_ns m' = m_ns m /\ m_label m' = m_label m /\ m_subs m' = m_subs m /\
  map fst (m_rows m') = map fst (m_rows m) ++ filter (fun t => negb (ahas t (m_rows m))) T /\
  (forall t, In t T -> ahas t (m_rows m') = true) /\
  (forall t, aget t (m_rows m') =
             let pad0 r := if app then r ++ repeat v (Z.to_nat (s - zlen r))
                           else repeat v (Z.to_nat (s - zlen r)) ++ r in
             match aget t (m_rows m) with
             | Some r => Some (pad0 r)
             | None => if memb t T then Some (pad0 []) else None
             end) /\
  (size = None -> forall t r', aget t (m_rows m') = Some r' -> zlen r' = s).
Proof.
  intros NT Inc. cbv zeta. unfold pack.
  destruct (fill_taxa_spec_l T m NT) as [A1 [A2 [A3 [A4 A5]]]].
  assert (Inc' : incl (map fst (m_rows (fill_taxa T m))) T).
  { rewrite A4. intros x Hx. apply in_app_iff in Hx. destruct Hx as [Hx|Hx]; [apply Inc; exact Hx|].
    apply filter_In in Hx. tauto. }
  destruct (fill_spec_l T (fill_taxa T m) v size app Inc') as [_ [B2 [B3 [B4 [B5 [B6 [_ [B8 _]]]]]]]].
  split; [congruence|]. split; [congruence|]. split; [congruence|]. split; [congruence|].
  split.
  { intros t Ht. unfold ahas. rewrite B6, A5. destruct (aget t (m_rows m)); [reflexivity|].
    replace (memb t T) with true; [reflexivity|]. symmetry. apply memb_In. exact Ht. }
  split.
  { intros t. rewrite B6, A5. destruct (aget t (m_rows m)); [reflexivity|]. destruct (memb t T); reflexivity. }
  exact B8.
Qed.

(* ------------------------------------------------------------------ *)
(* the row algebra                                                      *)
(* ------------------------------------------------------------------ *)
Lemma same_ns_true self other : m_ns other = m_ns self -> same_ns self other = true.
Proof. intros E. unfold same_ns. rewrite E. apply Z.eqb_refl. Qed.

Lemma same_ns_false self other : m_ns other <> m_ns self -> same_ns self other = false.
Proof. intros E. unfold same_ns. apply Z.eqb_neq. exact E. Qed.

Lemma add_sequences_spec_l self other :
  NoDup (map fst (m_rows other)) -> m_ns other = m_ns self ->
  exists rs', add_sequences self other = Ok (mkM (m_ns self) (m_label self) rs' (m_subs self)) /\
    (forall t, aget t rs' = match aget t (m_rows self) with Some r => Some r | None => aget t (m_rows other) end) /\
    map fst rs' = map fst (m_rows self) ++ filter (fun t => negb (ahas t (m_rows self))) (map fst (m_rows other)).
Proof.
  intros ND E. exists (add_rows (m_rows self) (m_rows other)). unfold add_sequences. rewrite same_ns_true by exact E.
  split; [reflexivity|]. split; [intros t; apply add_rows_get; exact ND | apply add_rows_keys; exact ND].
Qed.

Lemma replace_sequences_spec_l self other :
  NoDup (map fst (m_rows other)) -> m_ns other = m_ns self ->
  exists rs', replace_sequences self other = Ok (mkM (m_ns self) (m_label self) rs' (m_subs self)) /\
    (forall t, aget t rs' = match aget t (m_rows self) with
                            | None => None
                            | Some r => match aget t (m_rows other) with Some r' => Some r' | None => Some r end
                            end) /\
    map fst rs' = map fst (m_rows self).
Proof.
  intros ND E. exists (replace_rows (m_rows self) (m_rows other)). unfold replace_sequences. rewrite same_ns_true by exact E.
  split; [reflexivity|]. split; [intros t; apply replace_rows_get; exact ND | apply replace_rows_keys; exact ND].
Qed.

Lemma update_sequences_spec_l self other :
  NoDup (map fst (m_rows other)) -> m_ns other = m_ns self ->
  exists rs', update_sequences self other = Ok (mkM (m_ns self) (m_label self) rs' (m_subs self)) /\
    (forall t, aget t rs' = match aget t (m_rows other) with Some r' => Some r' | None => aget t (m_rows self) end) /\
    map fst rs' = map fst (m_rows self) ++ filter (fun t => negb (ahas t (m_rows self))) (map fst (m_rows other)).
Proof.
  intros ND E. exists (update_rows (m_rows self) (m_rows other)). unfold update_sequences. rewrite same_ns_true by exact E.
  split; [reflexivity|]. split; [intros t; apply update_rows_get; exact ND | apply update_rows_keys; exact ND].
Qed.

Lemma extend_sequences_spec_l self other addnew :
  NoDup (map fst (m_rows other)) -> m_ns other = m_ns self ->
  exists rs', extend_sequences self other addnew = Ok (mkM (m_ns self) (m_label self) rs' (m_subs self)) /\
    (forall t, aget t rs' = match aget t (m_rows self), aget t (m_rows other) with
                            | Some r, Some r' => Some (r ++ r')
                            | Some r, None => Some r
                            | None, Some r' => if addnew then Some r' else None
                            | None, None => None
                            end) /\
    map fst rs' = map fst (m_rows self) ++
                  (if addnew then filter (fun t => negb (ahas t (m_rows self))) (map fst (m_rows other)) else []).
Proof.
  intros ND E. exists (extend_rows addnew (m_rows self) (m_rows other)). unfold extend_sequences. rewrite same_ns_true by exact E.
  split; [reflexivity|]. split; [intros t; apply extend_rows_get; exact ND | apply extend_rows_keys; exact ND].
Qed.

Lemma extend_matrix_spec_l self other :
  NoDup (map fst (m_rows other)) -> m_ns other = m_ns self ->
  exists rs', extend_matrix self other = Ok (mkM (m_ns self) (m_label self) rs' (m_subs self)) /\
    (forall t, aget t rs' = match aget t (m_rows self), aget t (m_rows other) with
                            | Some r, Some r' => Some (r ++ r')
                            | Some r, None => Some r
                            | None, Some r' => Some r'
                            | None, None => None
                            end) /\
    map fst rs' = map fst (m_rows self) ++ filter (fun t => negb (ahas t (m_rows self))) (map fst (m_rows other)).
Proof.
  intros ND E. exists (extend_matrix_rows (m_rows self) (m_rows other)). unfold extend_matrix. rewrite same_ns_true by exact E.
  split; [reflexivity|]. rewrite extend_matrix_rows_eq.
  split; [intros t; apply (extend_rows_get true); exact ND | apply (extend_rows_keys true); exact ND].
Qed.

Lemma remove_sequences_spec_l (rs : rows) (ts : list tid) :
  NoDup (map fst rs) ->
  (snd (remove_rows rs ts) = None <-> NoDup ts /\ incl ts (map fst rs)) /\
  exists ts1 ts2, ts = ts1 ++ ts2 /\ NoDup ts1 /\ incl ts1 (map fst rs) /\
    fst (remove_rows rs ts) = filter (fun p => negb (memb (fst p) ts1)) rs /\
    match snd (remove_rows rs ts) with
    | None => ts2 = []
    | Some e => e = KeyErr /\ exists t ts3, ts2 = t :: ts3 /\ (In t ts1 \/ ~ In t (map fst rs))
    end.
Proof.
  intros ND. split; [apply remove_rows_ok_iff; exact ND | apply remove_rows_spec; exact ND].
Qed.

Lemma discard_sequences_spec_l (rs : rows) (ts : list tid) :
  NoDup (map fst rs) -> discard_rows rs ts = filter (fun p => negb (memb (fst p) ts)) rs.
Proof. apply discard_rows_spec. Qed.

Lemma keep_sequences_spec_l (rs : rows) (ts : list tid) :
  keep_rows rs ts = filter (fun p => memb (fst p) ts) rs /\
  forall t, aget t (keep_rows rs ts) = if memb t ts then aget t rs else None.
Proof. split; [reflexivity | intros t; apply keep_rows_get]. Qed.

Lemma filter_rows_get (P : tid -> bool) (rs : rows) t :
  aget t (filter (fun p => P (fst p)) rs) = if P t then aget t rs else None.
Proof. apply aget_filter_key. Qed.

Lemma foreign_namespace_refused_l self other :
  m_ns other <> m_ns self ->
  add_sequences self other = Err ValueErr /\ replace_sequences self other = Err ValueErr /\
  update_sequences self other = Err ValueErr /\ (forall b, extend_sequences self other b = Err ValueErr) /\
  extend_matrix self other = Err ValueErr.
Proof.
  intros E. unfold add_sequences, replace_sequences, update_sequences, extend_sequences, extend_matrix.
  rewrite same_ns_false by exact E. repeat split.
Qed.
