(* C08 - generic lemmas: ids, NoDup, the pointer-level update `upd`, and the theorem that a loop
   over the post-order of a tree applying `upd f` at every node equals one structural recursion. *)
From Coq Require Import ZArith List Bool Lia.
From DV Require Import Model.PyPrims Model.Tree Model.C08Model.
Import ListNotations.
Open Scope Z_scope.

(* ---------------------------------------------------------------------------------------- *)
(* lists                                                                                    *)
(* ---------------------------------------------------------------------------------------- *)

Lemma memz_In x l : memz x l = true <-> In x l.
Proof.
  unfold memz. rewrite existsb_exists. split.
  - intros [y [Hy E]]. apply Z.eqb_eq in E. subst. exact Hy.
  - intro H. exists x. split; [exact H | apply Z.eqb_refl].
Qed.

Lemma memz_false x l : memz x l = false <-> ~ In x l.
Proof.
  rewrite <- memz_In. destruct (memz x l); split; intro H.
  - discriminate H.
  - exfalso. apply H. reflexivity.
  - intro H1. discriminate H1.
  - reflexivity.
Qed.

Lemma flat_map_app' {A B} (f : A -> list B) l1 l2 :
  flat_map f (l1 ++ l2) = flat_map f l1 ++ flat_map f l2.
Proof. induction l1 as [|a r IH]; simpl; [reflexivity|]. rewrite IH, app_assoc. reflexivity. Qed.

Lemma flat_map_flat_map {A B C} (f : A -> list B) (g : B -> list C) l :
  flat_map g (flat_map f l) = flat_map (fun a => flat_map g (f a)) l.
Proof. induction l as [|a r IH]; simpl; [reflexivity|]. rewrite flat_map_app', IH. reflexivity. Qed.

Lemma flat_map_ext_in {A B} (f g : A -> list B) l :
  (forall a, In a l -> f a = g a) -> flat_map f l = flat_map g l.
Proof.
  induction l as [|a r IH]; simpl; intro H; [reflexivity|].
  rewrite (H a (or_introl eq_refl)), IH; [reflexivity|]. intros b Hb. apply H. right. exact Hb.
Qed.

Lemma flat_map_singleton {A} (l : list A) : flat_map (fun a => [a]) l = l.
Proof. induction l as [|a r IH]; simpl; [reflexivity|]. rewrite IH. reflexivity. Qed.

Lemma map_flat_map {A B C} (f : A -> list B) (g : B -> C) l :
  map g (flat_map f l) = flat_map (fun a => map g (f a)) l.
Proof. induction l as [|a r IH]; simpl; [reflexivity|]. rewrite map_app, IH. reflexivity. Qed.

Lemma in_flat_map' {A B} (f : A -> list B) l b :
  In b (flat_map f l) <-> exists a, In a l /\ In b (f a).
Proof. apply in_flat_map. Qed.

Lemma NoDup_app_l {A} (l1 l2 : list A) : NoDup (l1 ++ l2) -> NoDup l1.
Proof.
  induction l1 as [|a r IH]; simpl; intro H; [constructor|].
  inversion H as [|? ? Hn Hr]; subst. constructor.
  - intro Hi. apply Hn. apply in_or_app. left. exact Hi.
  - apply IH. exact Hr.
Qed.

Lemma NoDup_app_r {A} (l1 l2 : list A) : NoDup (l1 ++ l2) -> NoDup l2.
Proof.
  induction l1 as [|a r IH]; simpl; intro H; [exact H|].
  inversion H; subst. apply IH. assumption.
Qed.

Lemma NoDup_app_disj {A} (l1 l2 : list A) x : NoDup (l1 ++ l2) -> In x l1 -> In x l2 -> False.
Proof.
  induction l1 as [|a r IH]; simpl; intros H H1 H2; [contradiction|].
  inversion H as [|? ? Hn Hr]; subst. destruct H1 as [->|H1].
  - apply Hn. apply in_or_app. right. exact H2.
  - exact (IH Hr H1 H2).
Qed.

Lemma NoDup_app_intro {A} (l1 l2 : list A) :
  NoDup l1 -> NoDup l2 -> (forall x, In x l1 -> In x l2 -> False) -> NoDup (l1 ++ l2).
Proof.
  induction l1 as [|a r IH]; simpl; intros H1 H2 Hd; [exact H2|].
  inversion H1 as [|? ? Hn Hr]; subst. constructor.
  - intro Hi. apply in_app_or in Hi. destruct Hi as [Hi|Hi]; [exact (Hn Hi)|].
    exact (Hd a (or_introl eq_refl) Hi).
  - apply IH; [exact Hr | exact H2 |]. intros x Hx Hx2. exact (Hd x (or_intror Hx) Hx2).
Qed.

Lemma NoDup_map_inj {A B} (f : A -> B) (l : list A) a b :
  NoDup (map f l) -> In a l -> In b l -> f a = f b -> a = b.
Proof.
  induction l as [|x r IH]; simpl; intros H Ha Hb E; [contradiction|].
  inversion H as [|? ? Hn Hr]; subst.
  destruct Ha as [->|Ha], Hb as [->|Hb].
  - reflexivity.
  - exfalso. apply Hn. rewrite E. apply in_map. exact Hb.
  - exfalso. apply Hn. rewrite <- E. apply in_map. exact Ha.
  - exact (IH Hr Ha Hb E).
Qed.

(* ---------------------------------------------------------------------------------------- *)
(* ids                                                                                      *)
(* ---------------------------------------------------------------------------------------- *)

Definition idsF (F : list tree) : list Z := flat_map ids F.

Lemma ids_T i x l e ks : ids (T i x l e ks) = i :: idsF ks.
Proof.
  unfold ids, idsF. simpl. f_equal. rewrite map_flat_map. reflexivity.
Qed.

Lemma idsF_cons k r : idsF (k :: r) = ids k ++ idsF r.
Proof. reflexivity. Qed.

Lemma idsF_app a b : idsF (a ++ b) = idsF a ++ idsF b.
Proof. unfold idsF. apply flat_map_app'. Qed.

Lemma t_id_in_ids t : In (t_id t) (ids t).
Proof. destruct t as [i x l e ks]. rewrite ids_T. left. reflexivity. Qed.

Lemma post_ids_T i x l e ks : post_ids (T i x l e ks) = flat_map post_ids ks ++ [i].
Proof.
  unfold post_ids. simpl. rewrite map_app, map_flat_map. reflexivity.
Qed.

Lemma post_ids_in : forall t a, In a (post_ids t) <-> In a (ids t).
Proof.
  induction t as [i x l e ks IH] using tree_ind'. intro a.
  rewrite post_ids_T, ids_T. rewrite in_app_iff. simpl.
  assert (G : In a (flat_map post_ids ks) <-> In a (idsF ks)).
  { unfold idsF. rewrite !in_flat_map. rewrite Forall_forall in IH. split; intros [k [Hk Ha]]; exists k; split; auto.
    - apply IH; assumption.
    - apply IH; assumption. }
  rewrite G. tauto.
Qed.

Lemma postF_in ks a : In a (flat_map post_ids ks) <-> In a (idsF ks).
Proof.
  unfold idsF. rewrite !in_flat_map. split; intros [k [Hk Ha]]; exists k; split; auto; apply post_ids_in; exact Ha.
Qed.

Lemma preorder_in_ids t n : In n (preorder t) -> In (t_id n) (ids t).
Proof. intro H. unfold ids. apply in_map. exact H. Qed.

Lemma preorder_T i x l e ks : preorder (T i x l e ks) = T i x l e ks :: flat_map preorder ks.
Proof. reflexivity. Qed.

Lemma preorder_self t : In t (preorder t).
Proof. destruct t. simpl. left. reflexivity. Qed.

Lemma preorder_trans : forall t n m, In n (preorder t) -> In m (preorder n) -> In m (preorder t).
Proof.
  induction t as [i x l e ks IH] using tree_ind'. intros n m Hn Hm.
  rewrite preorder_T in Hn. destruct Hn as [<-|Hn]; [exact Hm|].
  rewrite preorder_T. right. apply in_flat_map in Hn. destruct Hn as [k [Hk Hn]].
  apply in_flat_map. exists k. split; [exact Hk|]. rewrite Forall_forall in IH. exact (IH k Hk n m Hn Hm).
Qed.

Lemma kid_in_preorder i x l e ks k : In k ks -> In k (preorder (T i x l e ks)).
Proof.
  intro Hk. rewrite preorder_T. right. apply in_flat_map. exists k. split; [exact Hk | apply preorder_self].
Qed.

Lemma ids_sub_kid i x l e ks k a : In k ks -> In a (ids k) -> In a (ids (T i x l e ks)).
Proof.
  intros Hk Ha. rewrite ids_T. right. unfold idsF. apply in_flat_map. exists k. split; assumption.
Qed.

Lemma NoDup_ids_kids i x l e ks : NoDup (ids (T i x l e ks)) -> NoDup (idsF ks) /\ ~ In i (idsF ks).
Proof. rewrite ids_T. intro H. inversion H; subst. split; assumption. Qed.

Lemma NoDup_idsF_kid ks k : NoDup (idsF ks) -> In k ks -> NoDup (ids k).
Proof.
  induction ks as [|a r IH]; intros H Hk; [destruct Hk|].
  rewrite idsF_cons in H. destruct Hk as [->|Hk].
  - exact (NoDup_app_l _ _ H).
  - apply IH; [exact (NoDup_app_r _ _ H) | exact Hk].
Qed.

Lemma NoDup_ids_sub : forall t n, NoDup (ids t) -> In n (preorder t) -> NoDup (ids n).
Proof.
  induction t as [i x l e ks IH] using tree_ind'. intros n H Hn.
  rewrite preorder_T in Hn. destruct Hn as [<-|Hn]; [exact H|].
  apply in_flat_map in Hn. destruct Hn as [k [Hk Hn]].
  rewrite Forall_forall in IH. apply (IH k Hk); [|exact Hn].
  apply NoDup_ids_kids in H. destruct H as [H _]. exact (NoDup_idsF_kid ks k H Hk).
Qed.

(* nodes of a tree with distinct ids are determined by their id *)
Lemma node_by_id t a b : NoDup (ids t) -> In a (preorder t) -> In b (preorder t) -> t_id a = t_id b -> a = b.
Proof. unfold ids. apply NoDup_map_inj. Qed.

(* ---------------------------------------------------------------------------------------- *)
(* upd / updF / folds                                                                       *)
(* ---------------------------------------------------------------------------------------- *)

Definition foldF (f : tree -> list tree) (L : list Z) (F : list tree) : list tree :=
  fold_left (fun F id => updF f id F) L F.

Lemma upd_notin f id : forall t, ~ In id (ids t) -> upd f id t = [t].
Proof.
  induction t as [i x l e ks IH] using tree_ind'. intro H. rewrite ids_T in H. simpl.
  destruct (Z.eqb_spec i id) as [->|Hne]; [exfalso; apply H; left; reflexivity|].
  f_equal. f_equal.
  assert (G : flat_map (upd f id) ks = flat_map (fun k => [k]) ks).
  { apply flat_map_ext_in. intros k Hk. rewrite Forall_forall in IH. apply IH; [exact Hk|].
    intro Hi. apply H. right. unfold idsF. apply in_flat_map. exists k. split; assumption. }
  rewrite G. apply flat_map_singleton.
Qed.

Lemma updF_notin f id F : ~ In id (idsF F) -> updF f id F = F.
Proof.
  intro H. unfold updF.
  rewrite (flat_map_ext_in (upd f id) (fun k => [k])).
  - apply flat_map_singleton.
  - intros k Hk. apply upd_notin. intro Hi. apply H. unfold idsF. apply in_flat_map. exists k. split; assumption.
Qed.

Lemma foldF_notin f L : forall F, (forall id, In id L -> ~ In id (idsF F)) -> foldF f L F = F.
Proof.
  induction L as [|a r IH]; simpl; intros F H; [reflexivity|].
  unfold foldF in *. simpl. rewrite updF_notin; [|apply H; left; reflexivity].
  apply IH. intros id Hid. apply H. right. exact Hid.
Qed.

Lemma updF_app f id F1 F2 : updF f id (F1 ++ F2) = updF f id F1 ++ updF f id F2.
Proof. unfold updF. apply flat_map_app'. Qed.

Lemma foldF_app_forest f L : forall F1 F2, foldF f L (F1 ++ F2) = foldF f L F1 ++ foldF f L F2.
Proof.
  induction L as [|a r IH]; intros F1 F2; [reflexivity|].
  unfold foldF in *. simpl. rewrite updF_app. apply IH.
Qed.

Lemma foldF_app_list f L1 L2 F : foldF f (L1 ++ L2) F = foldF f L2 (foldF f L1 F).
Proof. unfold foldF. apply fold_left_app. Qed.

Lemma foldF_root f L : forall i x l e ks, ~ In i L ->
  foldF f L [T i x l e ks] = [T i x l e (foldF f L ks)].
Proof.
  induction L as [|a r IH]; intros i x l e ks H; [reflexivity|].
  unfold foldF in *. simpl.
  destruct (Z.eqb_spec i a) as [->|Hne]; [exfalso; apply H; left; reflexivity|].
  rewrite app_nil_r. rewrite IH; [reflexivity|]. intro Hi. apply H. right. exact Hi.
Qed.

(* the structural recursion a post-order loop of `upd f` computes *)
Fixpoint recf (f : tree -> list tree) (t : tree) : list tree :=
  match t with T i x l e ks => f (T i x l e (flat_map (recf f) ks)) end.

Definition ids_shrink (f : tree -> list tree) : Prop :=
  forall n a, In a (idsF (f n)) -> In a (ids n).

Lemma ids_recf f (Hf : ids_shrink f) : forall t a, In a (idsF (recf f t)) -> In a (ids t).
Proof.
  induction t as [i x l e ks IH] using tree_ind'. intros a Ha. simpl in Ha.
  apply Hf in Ha. rewrite ids_T in Ha. rewrite ids_T. destruct Ha as [Ha|Ha]; [left; exact Ha|right].
  unfold idsF in *. rewrite flat_map_flat_map in Ha. apply in_flat_map in Ha. destruct Ha as [k [Hk Ha]].
  apply in_flat_map. exists k. split; [exact Hk|]. rewrite Forall_forall in IH. exact (IH k Hk a Ha).
Qed.

Lemma post_fold_forest f (Hf : ids_shrink f) ks :
  Forall (fun t => NoDup (ids t) -> foldF f (post_ids t) [t] = recf f t) ks ->
  NoDup (idsF ks) -> foldF f (flat_map post_ids ks) ks = flat_map (recf f) ks.
Proof.
  induction ks as [|k r IH]; intros HP Hnd; [reflexivity|].
  inversion HP as [|? ? Pk Pr]; subst. simpl flat_map.
  rewrite idsF_cons in Hnd.
  rewrite foldF_app_list.
  change (k :: r) with ([k] ++ r). rewrite foldF_app_forest.
  rewrite Pk; [|exact (NoDup_app_l _ _ Hnd)].
  rewrite (foldF_notin f (post_ids k) r).
  2:{ intros id Hid Hin. apply post_ids_in in Hid. exact (NoDup_app_disj _ _ _ Hnd Hid Hin). }
  rewrite foldF_app_forest.
  rewrite (foldF_notin f (flat_map post_ids r) (recf f k)).
  2:{ intros id Hid Hin. apply postF_in in Hid. apply (ids_recf f Hf) in Hin.
      exact (NoDup_app_disj _ _ _ Hnd Hin Hid). }
  rewrite IH; [reflexivity | exact Pr | exact (NoDup_app_r _ _ Hnd)].
Qed.

Theorem post_fold f (Hf : ids_shrink f) : forall t, NoDup (ids t) -> foldF f (post_ids t) [t] = recf f t.
Proof.
  induction t as [i x l e ks IH] using tree_ind'. intro Hnd.
  rewrite post_ids_T, foldF_app_list.
  destruct (NoDup_ids_kids _ _ _ _ _ Hnd) as [Hk Hi].
  rewrite foldF_root; [|intro H; apply postF_in in H; exact (Hi H)].
  rewrite (post_fold_forest f Hf ks IH Hk).
  unfold foldF. simpl. rewrite Z.eqb_refl. rewrite app_nil_r. reflexivity.
Qed.

Lemma post_fold_kids f (Hf : ids_shrink f) ks :
  NoDup (idsF ks) -> foldF f (flat_map post_ids ks) ks = flat_map (recf f) ks.
Proof.
  intro H. apply post_fold_forest; [exact Hf | | exact H].
  apply Forall_forall. intros t _. apply post_fold. exact Hf.
Qed.

(* ---------------------------------------------------------------------------------------- *)
(* removal of a set of nodes                                                                *)
(* ---------------------------------------------------------------------------------------- *)

Fixpoint rmQ (q : tree -> bool) (t : tree) : list tree :=
  match t with T i x l e ks => if q t then [] else [T i x l e (flat_map (rmQ q) ks)] end.

Definition in_set (S : list Z) (n : tree) : bool := memz (t_id n) S.

Lemma rmQ_ext q1 q2 : forall t, (forall n, In n (preorder t) -> q1 n = q2 n) -> rmQ q1 t = rmQ q2 t.
Proof.
  induction t as [i x l e ks IH] using tree_ind'. intro H. simpl.
  rewrite (H _ (preorder_self _)). destruct (q2 (T i x l e ks)); [reflexivity|].
  f_equal. f_equal. apply flat_map_ext_in. intros k Hk. rewrite Forall_forall in IH. apply IH; [exact Hk|].
  intros n Hn. apply H. apply (preorder_trans _ k); [apply kid_in_preorder; exact Hk | exact Hn].
Qed.

Lemma rm_upd id S : forall t,
  flat_map (rmQ (in_set S)) (upd rm_f id t) = rmQ (in_set (id :: S)) t.
Proof.
  induction t as [i x l e ks IH] using tree_ind'.
  simpl rmQ. simpl upd.
  destruct (Z.eqb_spec i id) as [->|Hne]; simpl orb.
  - reflexivity.
  - simpl flat_map. rewrite app_nil_r. simpl rmQ. unfold in_set at 1 3. simpl t_id.
    destruct (memz i S); [reflexivity|].
    f_equal. f_equal. rewrite flat_map_flat_map.
    apply flat_map_ext_in. intros k Hk. rewrite Forall_forall in IH. rewrite (IH k Hk). reflexivity.
Qed.

Lemma rmQ_none q : forall t, (forall n, In n (preorder t) -> q n = false) -> rmQ q t = [t].
Proof.
  induction t as [i x l e ks IH] using tree_ind'. intro H. simpl.
  rewrite (H _ (preorder_self _)). f_equal. f_equal.
  rewrite (flat_map_ext_in _ (fun k => [k])); [apply flat_map_singleton|].
  intros k Hk. rewrite Forall_forall in IH. apply IH; [exact Hk|].
  intros n Hn. apply H. apply (preorder_trans _ k); [apply kid_in_preorder; exact Hk | exact Hn].
Qed.

Lemma rm_fold L : forall F, foldF rm_f L F = flat_map (rmQ (in_set L)) F.
Proof.
  induction L as [|a r IH]; intro F.
  - unfold foldF. simpl. symmetry.
    rewrite (flat_map_ext_in _ (fun k => [k])); [apply flat_map_singleton|].
    intros k _. apply rmQ_none. intros n _. reflexivity.
  - unfold foldF in *. simpl. rewrite IH. unfold updF. rewrite flat_map_flat_map.
    apply flat_map_ext_in. intros k _. apply rm_upd.
Qed.
