(* C17: the unary tree statistics equal their definitions *)
From Coq Require Import ZArith QArith List Bool Lia ZifyBool Setoid.
From DV Require Import Model.PyPrims Model.Tree Model.C17Model Proofs.C17Ages Proofs.C17Depth.
Import ListNotations.
Open Scope Z_scope.

(* ------------------------------------------------------------------------------------------ *)
(* sums in Q                                                                                   *)

Lemma sumQ_cons x l : (sumQ (x :: l) == x + sumQ l)%Q.
Proof. reflexivity. Qed.

Lemma sumQ_app a b : (sumQ (a ++ b) == sumQ a + sumQ b)%Q.
Proof.
  induction a as [|x a IH]; cbn [app].
  - unfold sumQ at 2. cbn. ring.
  - rewrite !sumQ_cons, IH. ring.
Qed.

Lemma sumQ_map_eq {X} (f g : X -> Q) l : (forall a, In a l -> (f a == g a)%Q) -> (sumQ (map f l) == sumQ (map g l))%Q.
Proof.
  induction l as [|a l IH]; intro H; [reflexivity|]. cbn [map]. rewrite !sumQ_cons.
  rewrite (H a (or_introl eq_refl)), IH; [reflexivity|]. intros b Hb. apply H. right. exact Hb.
Qed.

(* ------------------------------------------------------------------------------------------ *)
(* B1                                                                                          *)

Lemma maxl_heights (hs : tree -> nat) k r :
  maxl (Z.of_nat (hs k) - 1) (map (fun c => Z.of_nat (hs c) - 1) r)
  = Z.of_nat (fold_right (fun c n => Nat.max (hs c) n) O (k :: r)) - 1.
Proof.
  revert k. induction r as [|k' r IH]; intro k.
  - cbn. lia.
  - cbn [map maxl]. rewrite IH. cbn [fold_right]. lia.
Qed.

Lemma mi_height t : mi t = Z.of_nat (height t) - 1.
Proof.
  induction t as [i x l e ks IH] using tree_ind'. destruct ks as [|k r]; [reflexivity|].
  cbn [mi height]. inversion IH as [|? ? Hk Hr]; subst. rewrite Hk.
  replace (map mi r) with (map (fun c => Z.of_nat (height c) - 1) r).
  2:{ apply map_ext_in. intros c Hc. rewrite Forall_forall in Hr. symmetry. apply Hr. exact Hc. }
  rewrite (maxl_heights height). lia.
Qed.

Definition b1_weight (v : tree) : Q := 1 # Z.to_pos (Z.of_nat (height v) - 1).
Definition internalb (v : tree) : bool := negb (is_leaf v).

Lemma b1_sub_spec k : (b1_sub k == sumQ (map b1_weight (filter internalb (preorder k))))%Q.
Proof.
  induction k as [i x l e ks IH] using tree_ind'. destruct ks as [|k0 r]; [reflexivity|].
  rewrite preorder_unfold. cbn [filter t_kids]. change (internalb (T i x l e (k0 :: r))) with true. cbv iota.
  cbn [map]. rewrite sumQ_cons.
  change (b1_sub (T i x l e (k0 :: r))) with (sumQ (map b1_sub (k0 :: r)) + (1 # Z.to_pos (mi (T i x l e (k0 :: r)))))%Q.
  rewrite mi_height. fold (b1_weight (T i x l e (k0 :: r))).
  assert (G : (sumQ (map b1_sub (k0 :: r)) == sumQ (map b1_weight (filter internalb (flat_map preorder (k0 :: r)))))%Q).
  { induction IH as [|c ls Hc _ IHl]; [reflexivity|]. cbn [map flat_map]. rewrite filter_app, map_app, sumQ_app, sumQ_cons, Hc, IHl. reflexivity. }
  rewrite G. ring.
Qed.

Lemma B1_spec_l : forall t, (B1 t == sumQ (map b1_weight (filter internalb (nonroot t))))%Q.
Proof.
  intro t. unfold B1, nonroot. induction (t_kids t) as [|c ls IH]; [reflexivity|].
  cbn [map flat_map]. rewrite filter_app, map_app, sumQ_app, sumQ_cons, IH, b1_sub_spec. reflexivity.
Qed.

(* ------------------------------------------------------------------------------------------ *)
(* Colless                                                                                     *)

Definition nl (v : tree) : Z := Z.of_nat (length (leaves v)).

Definition colless_term (v : tree) : Z :=
  match t_kids v with [a; b] => Z.abs (nl b - nl a) | _ => 0 end.

Definition colless_spec (t : tree) : Z := sumZ (map colless_term (preorder t)).

Definition binary (t : tree) : Prop :=
  forall v, In v (preorder t) -> t_kids v = [] \/ exists a b, t_kids v = [a; b].

Lemma rseq_map_cases2 {X Y} (g : X -> res Y) (F : X -> Y) (PE : err -> Prop) ks :
  Forall (fun k => g k = Ok (F k) \/ exists e, g k = Err e /\ PE e) ks ->
  (rsequence (map g ks) = Ok (map F ks) /\ forall k, In k ks -> g k = Ok (F k))
  \/ (exists e, rsequence (map g ks) = Err e /\ PE e /\ exists k, In k ks /\ g k = Err e).
Proof.
  induction 1 as [|k r Hk _ IH].
  - left. split; [reflexivity|]. intros k [].
  - cbn [map rsequence]. destruct Hk as [E | [e [E P]]]; rewrite E.
    + destruct IH as [[E2 H2] | [e [E2 [P [k' [Hin E3]]]]]]; rewrite E2.
      * left. split; [reflexivity|]. intros c [<- | Hc]; [exact E | apply H2; exact Hc].
      * right. exists e. repeat split; try assumption. exists k'. split; [right; exact Hin | exact E3].
    + right. exists e. repeat split; try assumption. exists k. split; [left; reflexivity | exact E].
Qed.

Lemma nl_node i x l e k r : nl (T i x l e (k :: r)) = sumZ (map nl (k :: r)).
Proof.
  unfold nl. change (leaves (T i x l e (k :: r))) with (flat_map leaves (k :: r)).
  induction (k :: r) as [|c ls IH]; [reflexivity|]. cbn [flat_map map]. rewrite app_length, Nat2Z.inj_add, IH. reflexivity.
Qed.

Lemma binary_kid t k : binary t -> In k (t_kids t) -> binary k.
Proof. intros H Hk v Hv. apply H. eapply in_preorder_kid; eassumption. Qed.

Lemma colless_sub_spec t :
  (binary t /\ colless_sub t = Ok (colless_spec t, nl t))
  \/ (~ binary t /\ exists e, colless_sub t = Err e /\ (e = IndexErr \/ e = TypeErr)).
Proof.
  induction t as [i x l e ks IH] using tree_ind'.
  destruct ks as [|k0 r].
  { left. split; [|reflexivity]. intros v Hv. apply in_preorder_inv in Hv. destruct Hv as [-> | [k [[] _]]]. left. reflexivity. }
  change (colless_sub (T i x l e (k0 :: r))) with
    (match rsequence (map colless_sub (k0 :: r)) with
     | Ok [(cl, nl); (cr, nr)] => Ok ((cl + cr + Z.abs (nr - nl))%Z, (nl + nr)%Z)
     | Ok [_] => Err IndexErr
     | Ok _ => Err TypeErr
     | Err e => Err e
     | OutOfFuel => OutOfFuel
     end).
  destruct (rseq_map_cases2 colless_sub (fun c => (colless_spec c, nl c)) (fun e => e = IndexErr \/ e = TypeErr) (k0 :: r))
    as [[E Hall] | [er [E [P [c [Hc Ec]]]]]].
  { apply Forall_impl with (2 := IH). intros c [[_ H] | [_ [er [H P]]]]; [left; exact H|]. right. exists er. split; assumption. }
  - rewrite E.
    assert (Hb : forall c, In c (k0 :: r) -> binary c).
    { intros c Hc. rewrite Forall_forall in IH. destruct (IH c Hc) as [[H _] | [_ [er [H _]]]]; [exact H|].
      rewrite (Hall c Hc) in H. discriminate. }
    destruct r as [|k1 r].
    + right. split; [|exists IndexErr; split; [reflexivity | left; reflexivity]].
      intro H. destruct (H _ (in_preorder_self _)) as [H1 | [a [b H1]]]; discriminate.
    + destruct r as [|k2 r].
      * left. split.
        -- intros v Hv. apply in_preorder_inv in Hv. destruct Hv as [-> | [c [Hc Hv]]].
           ++ right. exists k0, k1. reflexivity.
           ++ apply (Hb c Hc v Hv).
        -- cbn [map]. f_equal. f_equal.
           ++ unfold colless_spec. rewrite (preorder_unfold (T i x l e [k0; k1])). cbn [map t_kids flat_map].
              rewrite app_nil_r, sumZ_cons, map_app, sumZ_app. change (colless_term (T i x l e [k0; k1])) with (Z.abs (nl k1 - nl k0)). lia.
           ++ rewrite nl_node. cbn. lia.
      * right. split; [|exists TypeErr; split; [reflexivity | right; reflexivity]].
        intro H. destruct (H _ (in_preorder_self _)) as [H1 | [a [b H1]]]; discriminate.
  - rewrite E. right. split; [|exists er; split; [reflexivity | exact P]].
    intro H. rewrite Forall_forall in IH. destruct (IH c Hc) as [[_ H1] | [H1 _]]; [rewrite H1 in Ec; discriminate|].
    apply H1. eapply binary_kid; [exact H | exact Hc].
Qed.

Lemma leaves_pos v : (1 <= length (leaves v))%nat.
Proof.
  induction v as [i x l e ks IH] using tree_ind'. destruct ks as [|a ks]; [cbn; lia|].
  change (leaves (T i x l e (a :: ks))) with (flat_map leaves (a :: ks)). cbn [flat_map]. rewrite app_length.
  inversion IH; subst. lia.
Qed.

Lemma colless_spec_l : forall w t,
  (forall v, In v (preorder t) -> t_kids v = [] \/ exists a b, t_kids v = [a; b]) ->
  let C := inject_Z (sumZ (map colless_term (preorder t))) in
  let n := Z.of_nat (length (leaves t)) in
  colless_tree_imbalance w NNone t = Ok C
  /\ colless_tree_imbalance w NFalse t = Ok C
  /\ colless_tree_imbalance w NYule t = Ok ((C - inject_Z n * ln_n w - inject_Z n * (euler w - 1 - ln_2 w)) / inject_Z n)%Q
  /\ colless_tree_imbalance w NPda t = Ok (C / pow15 w)%Q
  /\ colless_tree_imbalance w NBad t = Err TypeErr
  /\ (3 <= n -> exists q, colless_tree_imbalance w NMax t = Ok q /\ colless_tree_imbalance w NTrue t = Ok q
                 /\ (q == C * (2 # 1) / inject_Z ((n - 1) * (n - 2)))%Q)
  /\ (n < 3 -> colless_tree_imbalance w NMax t = Err OtherErr /\ colless_tree_imbalance w NTrue t = Err OtherErr).
Proof.
  intros w t Hb C n. destruct (colless_sub_spec t) as [[_ E] | [Hn _]]; [|contradiction].
  unfold colless_tree_imbalance. rewrite E. fold (colless_spec t). fold (nl t). fold C.
  change (nl t) with n. repeat split.
  - intro Hn. assert (Hd : (n * (n - 3) + 2 =? 0) = false) by nia. rewrite Hd.
    eexists. split; [reflexivity|]. split; [reflexivity|].
    replace ((n - 1) * (n - 2)) with (n * (n - 3) + 2) by lia. unfold Qdiv, C, colless_spec. ring.
  - assert (Hd : (n * (n - 3) + 2 =? 0) = true) by (pose proof (leaves_pos t); unfold n; nia).
    rewrite Hd. reflexivity.
  - assert (Hd : (n * (n - 3) + 2 =? 0) = true) by (pose proof (leaves_pos t); unfold n; nia).
    rewrite Hd. reflexivity.
Qed.

Lemma colless_nonbinary_l : forall w nm t,
  ~ (forall v, In v (preorder t) -> t_kids v = [] \/ exists a b, t_kids v = [a; b]) ->
  exists e, colless_tree_imbalance w nm t = Err e /\ (e = IndexErr \/ e = TypeErr).
Proof.
  intros w nm t Hn. destruct (colless_sub_spec t) as [[Hb _] | [_ [e [E P]]]]; [contradiction|].
  exists e. unfold colless_tree_imbalance. rewrite E. split; [reflexivity | exact P].
Qed.

(* ------------------------------------------------------------------------------------------ *)
(* Sackin, N_bar                                                                               *)

Lemma leaf_depths_epaths k : forall d,
  leaf_depths d k = map (fun vp => d - 1 + Z.of_nat (length (snd vp))) (filter (fun vp => is_leaf (fst vp)) (epaths k)).
Proof.
  induction k as [i x l e ks IH] using tree_ind'. intro d. rewrite epaths_unfold. cbn [filter fst t_kids].
  destruct ks as [|k0 r].
  - cbn. f_equal. lia.
  - change (is_leaf (T i x l e (k0 :: r))) with false. cbv iota.
    change (leaf_depths d (T i x l e (k0 :: r))) with (flat_map (leaf_depths (d + 1)) (k0 :: r)).
    generalize (elen (T i x l e (k0 :: r))) as L. intro L.
    induction IH as [|c ls Hc _ IHl]; [reflexivity|]. cbn [flat_map]. rewrite filter_app, map_app, IHl. f_equal.
    rewrite Hc, filter_map_comm, map_map. cbn [fst snd]. apply map_ext. intro vp. cbn [length]. lia.
Qed.

Lemma leaf_depths_paths t :
  leaf_depths 0 t = map (fun vp => Z.of_nat (length (snd vp))) (filter (fun vp => is_leaf (fst vp)) (paths t)).
Proof.
  destruct t as [i x l e ks]. unfold paths. cbn [filter fst t_kids]. destruct ks as [|k0 r]; [reflexivity|].
  change (is_leaf (T i x l e (k0 :: r))) with false. cbv iota.
  change (leaf_depths 0 (T i x l e (k0 :: r))) with (flat_map (leaf_depths (0 + 1)) (k0 :: r)).
  induction (k0 :: r) as [|c ls IH]; [reflexivity|]. cbn [flat_map]. rewrite filter_app, map_app, IH. f_equal.
  rewrite leaf_depths_epaths. apply map_ext. intro vp. lia.
Qed.

Lemma leaf_depths_length d t : length (leaf_depths d t) = length (leaves t).
Proof.
  revert d. induction t as [i x l e ks IH] using tree_ind'. intro d. destruct ks as [|k0 r]; [reflexivity|].
  change (leaf_depths d (T i x l e (k0 :: r))) with (flat_map (leaf_depths (d + 1)) (k0 :: r)).
  change (leaves (T i x l e (k0 :: r))) with (flat_map leaves (k0 :: r)).
  induction IH as [|c ls Hc _ IHl]; [reflexivity|]. cbn [flat_map]. rewrite !app_length, IHl, Hc. reflexivity.
Qed.

(* Sackin's index also is the sum over internal nodes of the number of tips they subtend *)
Lemma sackin_alt_gen t : forall d,
  sumZ (leaf_depths d t) = d * nl t + sumZ (map nl (filter internalb (preorder t))).
Proof.
  induction t as [i x l e ks IH] using tree_ind'. intro d. destruct ks as [|k0 r].
  - cbn. lia.
  - rewrite preorder_unfold. cbn [filter t_kids]. change (internalb (T i x l e (k0 :: r))) with true. cbv iota.
    cbn [map]. rewrite sumZ_cons, nl_node.
    change (leaf_depths d (T i x l e (k0 :: r))) with (flat_map (leaf_depths (d + 1)) (k0 :: r)).
    induction IH as [|c ls Hc _ IHl]; [cbn; lia|].
    cbn [flat_map map]. rewrite filter_app, map_app, !sumZ_app, !sumZ_cons, Hc. lia.
Qed.

Lemma sackin_spec_l : forall w t,
  let S := inject_Z (sumZ (map (fun vp => Z.of_nat (length (snd vp))) (filter (fun vp => is_leaf (fst vp)) (paths t)))) in
  let n := length (leaves t) in
  sumZ (map (fun vp => Z.of_nat (length (snd vp))) (filter (fun vp => is_leaf (fst vp)) (paths t)))
    = sumZ (map nl (filter internalb (preorder t)))
  /\ sackin_index w NNone t = Ok S /\ sackin_index w NFalse t = Ok S
  /\ sackin_index w NTrue t = Ok (S / inject_Z (Z.of_nat n))%Q
  /\ N_bar t = (S / inject_Z (Z.of_nat n))%Q
  /\ sackin_index w NYule t = Ok ((S - 2 * inject_Z (Z.of_nat n) * harmonic_from2 n) / inject_Z (Z.of_nat n))%Q
  /\ sackin_index w NPda t = Ok (S / pow15 w)%Q
  /\ sackin_index w NMax t = Err TypeErr /\ sackin_index w NBad t = Err TypeErr.
Proof.
  intros w t S n. unfold sackin_index, N_bar, S, n. rewrite <- leaf_depths_paths, leaf_depths_length.
  split; [rewrite sackin_alt_gen; lia|]. repeat split.
Qed.

Lemma harmonic_from2_step : forall m, (2 <= m)%nat ->
  (harmonic_from2 m == harmonic_from2 (m - 1) + (1 # Pos.of_nat m))%Q.
Proof.
  intros m Hm. destruct m as [|m']; [lia|]. destruct m' as [|m'']; [lia|].
  replace (S (S m'') - 1)%nat with (S m'') by lia. reflexivity.
Qed.

Lemma harmonic_from2_base : harmonic_from2 0 = 0%Q /\ harmonic_from2 1 = 0%Q.
Proof. split; reflexivity. Qed.

(* ------------------------------------------------------------------------------------------ *)
(* treeness                                                                                    *)

Definition int_len (ls : list tree) : Z := sumZ (map elen (filter internalb ls)).
Definition ext_len (ls : list tree) : Z := sumZ (map elen (filter is_leaf ls)).

Lemma int_len_flat ks : sumZ (map (fun c => int_len (preorder c)) ks) = int_len (flat_map preorder ks).
Proof.
  unfold int_len. induction ks as [|c ls IHl]; [reflexivity|].
  cbn [map flat_map]. rewrite filter_app, map_app, sumZ_app, sumZ_cons, IHl. reflexivity.
Qed.

Lemma ext_len_flat ks : sumZ (map (fun c => ext_len (preorder c)) ks) = ext_len (flat_map preorder ks).
Proof.
  unfold ext_len. induction ks as [|c ls IHl]; [reflexivity|].
  cbn [map flat_map]. rewrite filter_app, map_app, sumZ_app, sumZ_cons, IHl. reflexivity.
Qed.

Lemma tre_sub_spec k :
  (all_lens k /\ tre_sub k = Ok (int_len (preorder k), ext_len (preorder k)))
  \/ (~ all_lens k /\ tre_sub k = Err TypeErr).
Proof.
  induction k as [i x l e ks IH] using tree_ind'. cbn [tre_sub].
  destruct (rseq_map_cases tre_sub (fun c => (int_len (preorder c), ext_len (preorder c))) TypeErr ks) as
      [[E Hall] | [E [c [Hc Ec]]]].
  { apply Forall_impl with (2 := IH). intros c [[_ H1] | [_ H1]]; [left | right]; exact H1. }
  - rewrite E. destruct e as [len|].
    2:{ right. split; [|reflexivity]. intro H. apply (H _ (in_preorder_self _)). reflexivity. }
    left. split.
    + intros v Hv. apply in_preorder_inv in Hv. destruct Hv as [-> | [c [Hc Hv]]]; [discriminate|].
      rewrite Forall_forall in IH. destruct (IH c Hc) as [[H _] | [_ H]]; [apply H; exact Hv|].
      rewrite (Hall c Hc) in H. discriminate.
    + rewrite !map_map. cbn [fst snd].
      pose proof (int_len_flat ks) as Gi. pose proof (ext_len_flat ks) as Gx.
      rewrite Gi, Gx. rewrite preorder_unfold. cbn [t_kids]. unfold int_len, ext_len. cbn [filter].
      destruct ks as [|k0 r].
      * cbn. f_equal. f_equal. lia.
      * change (internalb (T i x l (Some len) (k0 :: r))) with true.
        change (is_leaf (T i x l (Some len) (k0 :: r))) with false. cbv iota. cbn [map]. rewrite sumZ_cons.
        change (elen (T i x l (Some len) (k0 :: r))) with len. f_equal. f_equal. lia.
  - rewrite E. right. split; [|reflexivity]. intro H.
    rewrite Forall_forall in IH. destruct (IH c Hc) as [[_ H1] | [H1 _]]; [rewrite H1 in Ec; discriminate|].
    apply H1. intros v Hv. apply H. eapply in_preorder_kid; [exact Hc | exact Hv].
Qed.

Lemma treeness_spec_l : forall t,
  let I := sumZ (map elen (filter internalb (nonroot t))) in
  let X := sumZ (map elen (filter is_leaf (nonroot t))) in
  ((forall v, In v (nonroot t) -> t_len v <> None) -> X + I <> 0 -> treeness t = Ok (inject_Z I / inject_Z (X + I))%Q)
  /\ ((forall v, In v (nonroot t) -> t_len v <> None) -> X + I = 0 -> treeness t = Err OtherErr)
  /\ ((exists v, In v (nonroot t) /\ t_len v = None) -> treeness t = Err TypeErr).
Proof.
  intros t I X. unfold treeness.
  destruct (rseq_map_cases tre_sub (fun c => (int_len (preorder c), ext_len (preorder c))) TypeErr (t_kids t)) as
      [[E Hall] | [E [c [Hc Ec]]]].
  { apply Forall_forall. intros c _. destruct (tre_sub_spec c) as [[_ H1] | [_ H1]]; [left | right]; exact H1. }
  - rewrite E, !map_map. cbn [fst snd].
    pose proof (int_len_flat (t_kids t)) as Gi. pose proof (ext_len_flat (t_kids t)) as Gx.
    fold (nonroot t) in Gi, Gx. change (int_len (nonroot t)) with I in Gi. change (ext_len (nonroot t)) with X in Gx.
    rewrite Gi, Gx. repeat split.
    + intros _ Hnz. destruct (X + I =? 0) eqn:Ez; [lia | reflexivity].
    + intros _ Hz. destruct (X + I =? 0) eqn:Ez; [reflexivity | lia].
    + intros [v [Hv Hn]]. exfalso. unfold nonroot in Hv. apply in_flat_map in Hv. destruct Hv as [c [Hc Hv]].
      destruct (tre_sub_spec c) as [[H _] | [_ H]]; [apply (H v Hv Hn)|]. rewrite (Hall c Hc) in H. discriminate.
  - rewrite E.
    assert (Hex : ~ (forall v, In v (nonroot t) -> t_len v <> None)).
    { intro H. destruct (tre_sub_spec c) as [[_ H1] | [H1 _]]; [rewrite H1 in Ec; discriminate|].
      apply H1. intros v Hv. apply H. unfold nonroot. apply in_flat_map. exists c. split; assumption. }
    repeat split; try (intros H; contradiction).
Qed.
