(* C11: translated methods = model - part D: taxon management of trees and tree lists, pop / remove *)
From Coq Require Import String.
From Coq Require Import List Bool Arith ZArith Lia.
From DV Require Import Model.PyPrims Model.C11Model Model.C11Prims Gen.Containers Proofs.C11Base Proofs.C11GenA Proofs.C11GenB.
Import ListNotations.
Open Scope nat_scope.

Lemma bindR_ret : forall A (x : R A), bindR x (fun s r => (s, Ok r)) = x.
Proof. intros A [s [a|e|]]; reflexivity. Qed.

Section WithLower.
Variable lower : lbl -> lbl.

(* ---- Tree ---- *)
Theorem step_MigrateTree_gen : forall st tr n u,
  valid_tree st tr && valid_ns st n = true ->
  step lower st (MigrateTree tr n u) = obs_unit (py_Tree_migrate_taxon_namespace lower st tr (Some n) u None).
Proof.
  intros st tr n u V. cbn [step]. rewrite V. apply andb_true_iff in V. destruct V as [Vt _]. apply ltb_lt' in Vt.
  rewrite gen_Tree_migrate by exact Vt. reflexivity.
Qed.

Theorem step_ReconstructTree_gen : forall st tr u,
  valid_tree st tr = true ->
  step lower st (ReconstructTree tr u) = obs_unit (py_Tree_reconstruct_taxon_namespace lower st tr u None).
Proof.
  intros st tr u V. cbn [step]. rewrite V. rewrite gen_Tree_reconstruct. unfold migrate_tree. cbn [kw_default]. cbv zeta.
  destruct (recon_refs lower st (t_ns (gettree st tr)) u (t_refs (gettree st tr)) []) as [[s1 r] m]. reflexivity.
Qed.

Theorem step_UpdateTree_gen : forall st tr,
  valid_tree st tr = true ->
  step lower st (UpdateTree tr) = obs_unit (py_Tree_update_taxon_namespace st tr).
Proof. intros st tr V. cbn [step]. rewrite V. rewrite gen_Tree_update. reflexivity. Qed.

(* ---- TreeList ---- *)
Lemma migrate_tree_frame : forall st tr n u memo,
  length (s_trees (fst (migrate_tree lower st tr n u memo))) = length (s_trees st)
  /\ s_lists (fst (migrate_tree lower st tr n u memo)) = s_lists st.
Proof.
  intros. unfold migrate_tree.
  pose proof (recon_refs_objs lower n u (t_refs (gettree st tr)) st (s_trees st) (s_lists st) (s_mats st) (s_dss st) memo) as Q.
  rewrite with_objs_id in Q. destruct (recon_refs lower st n u (t_refs (gettree st tr)) memo) as [[s1 r] m]. injection Q as Q.
  cbn [fst]. simpl. rewrite upd_length, Q. split; reflexivity.
Qed.

Lemma reconstruct_set_ns : forall st tr n u om,
  py_Tree_reconstruct_taxon_namespace lower (set_tree_ns st tr n) tr u om
  = py_Tree_migrate_taxon_namespace lower st tr (Some n) u om.
Proof. intros. unfold py_Tree_migrate_taxon_namespace. cbn [bindR]. rewrite bindR_ret. reflexivity. Qed.

Lemma for_each_migrate_trees : forall (trs : list oid) l u st0 st memo,
  s_lists st = s_lists st0 -> (forall tr, In tr trs -> tr < length (s_trees st)) ->
  for_each trs (fun stb (x : oid) (m : list (oid * oid)) =>
                  let s5 := set_tree_ns stb x (l_ns (getlist stb l)) in
                  bindR (py_Tree_reconstruct_taxon_namespace lower s5 x u (Some m)) (fun s r => (s, Ok r))) st memo
  = (fst (migrate_trees lower st (l_ns (getlist st0 l)) u trs memo), Ok (snd (migrate_trees lower st (l_ns (getlist st0 l)) u trs memo))).
Proof.
  induction trs as [|tr r IH]; intros l u st0 st memo L V; cbn [for_each migrate_trees]; [reflexivity|].
  cbv zeta. assert (N : l_ns (getlist st l) = l_ns (getlist st0 l)) by (unfold getlist; rewrite L; reflexivity).
  rewrite N, bindR_ret, reconstruct_set_ns, gen_Tree_migrate by (apply V; left; reflexivity). cbn [kw_default].
  destruct (migrate_tree_frame st tr (l_ns (getlist st0 l)) u memo) as [TL LL].
  destruct (migrate_tree lower st tr (l_ns (getlist st0 l)) u memo) as [st1 memo1]. cbn [fst snd bindR] in *.
  apply IH; [congruence|]. intros x Hx. rewrite TL. apply V. right. exact Hx.
Qed.

Theorem gen_TreeList_reconstruct : forall st l u om,
  (forall tr, In tr (l_trees (getlist st l)) -> tr < length (s_trees st)) ->
  py_TreeList_reconstruct_taxon_namespace lower st l u om
  = (fst (reconstruct_list lower st l u (kw_default om [])), Ok (snd (reconstruct_list lower st l u (kw_default om [])))).
Proof.
  intros st l u om V. unfold py_TreeList_reconstruct_taxon_namespace, reconstruct_list.
  change (match om with Some x_ => x_ | None => [] end) with (kw_default om []).
  rewrite (for_each_migrate_trees _ l u st st _ eq_refl V). cbn [bindR]. reflexivity.
Qed.

Theorem step_ReconstructList_gen : forall st l u,
  valid_list st l = true -> (forall tr, In tr (l_trees (getlist st l)) -> tr < length (s_trees st)) ->
  step lower st (ReconstructList l u) = obs_unit (py_TreeList_reconstruct_taxon_namespace lower st l u None).
Proof. intros st l u V W. cbn [step]. rewrite V, gen_TreeList_reconstruct by exact W. reflexivity. Qed.

Theorem step_MigrateList_gen : forall st l n u,
  valid_list st l && valid_ns st n = true -> (forall tr, In tr (l_trees (getlist st l)) -> tr < length (s_trees st)) ->
  step lower st (MigrateList l n u) = obs_unit (py_TreeList_migrate_taxon_namespace lower st l (Some n) u None).
Proof.
  intros st l n u V W. cbn [step]. rewrite V. apply andb_true_iff in V. destruct V as [Vl _]. apply ltb_lt' in Vl.
  unfold py_TreeList_migrate_taxon_namespace. cbn [bindR]. rewrite bindR_ret.
  assert (G : getlist (set_list_ns st l n) l = mkTL n (l_trees (getlist st l))).
  { unfold set_list_ns, getlist. simpl. apply nth_error_some_nth. destruct (nth_error (s_lists st) l) eqn:E.
    - eapply nth_error_upd_same. exact E.
    - apply nth_error_None in E. lia. }
  rewrite gen_TreeList_reconstruct; [reflexivity|]. rewrite G. exact W.
Qed.

Lemma for_each_update_trees : forall (trs : list oid) l st0 st,
  s_lists st = s_lists st0 -> (forall tr, In tr trs -> tr < length (s_trees st)) ->
  for_each trs (fun stb (x : oid) (_ : unit) =>
                  bindR (py_Tree_update_taxon_namespace (set_tree_ns stb x (l_ns (getlist stb l))) x) (fun s r => (s, Ok tt))) st tt
  = (update_trees st (l_ns (getlist st0 l)) trs, Ok tt).
Proof.
  induction trs as [|tr r IH]; intros l st0 st L V; cbn [for_each update_trees]; [reflexivity|].
  cbv zeta. assert (N : l_ns (getlist st l) = l_ns (getlist st0 l)) by (unfold getlist; rewrite L; reflexivity).
  assert (Vt : tr < length (s_trees st)) by (apply V; left; reflexivity).
  rewrite N, gen_Tree_update. unfold set_tree_ns. rewrite gettree_set_tree_same by exact Vt. cbn [t_ns bindR].
  rewrite update_tree_after_set_ns by exact Vt.
  apply IH.
  - unfold update_tree. simpl. rewrite (add_members_objs_id (t_refs (gettree st tr)) st (l_ns (getlist st0 l))). exact L.
  - intros x Hx. unfold update_tree. simpl. rewrite upd_length. rewrite (add_members_objs_id (t_refs (gettree st tr)) st (l_ns (getlist st0 l))).
    apply V. right. exact Hx.
Qed.

Theorem step_UpdateList_gen : forall st l,
  valid_list st l = true -> (forall tr, In tr (l_trees (getlist st l)) -> tr < length (s_trees st)) ->
  step lower st (UpdateList l) = obs_unit (py_TreeList_update_taxon_namespace st l).
Proof.
  intros st l V W. cbn [step]. rewrite V. unfold py_TreeList_update_taxon_namespace.
  rewrite (for_each_update_trees _ l st st eq_refl W). reflexivity.
Qed.

(* ---- pop / remove ---- *)
Theorem step_Pop_gen : forall st l i,
  valid_list st l = true -> step lower st (Pop l i) = obs_id (py_TreeList_pop st l i).
Proof.
  intros st l i V. cbn [step]. rewrite V. unfold py_TreeList_pop, py_list_pop.
  destruct (norm_index (length (l_trees (getlist st l))) i); reflexivity.
Qed.

Theorem step_Remove_gen : forall st l tr,
  valid_list st l && valid_tree st tr = true -> step lower st (Remove l tr) = obs_unit (py_TreeList_remove st l tr).
Proof.
  intros st l tr V. cbn [step]. rewrite V. unfold py_TreeList_remove, py_list_remove.
  destruct (remove_first tr (l_trees (getlist st l))); reflexivity.
Qed.

End WithLower.
