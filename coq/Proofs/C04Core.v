(* C04: proofs about Model/C04Model.v.  Everything is proved for both forms of
   collapse_basal_bifurcation's length bookkeeping (section variable mg, see C04Model.add_len).

   Parts: (Enc) from the stateful model to the pure description for default-argument calls;
   (Main) split-set / norm characterisations and the metric axioms; (Redraw) re-drawings that need no
   basal collapse; (WF) the well-formedness check implies the side conditions on the normalised tree;
   (Basal) re-drawings of not-rooted trees whose basal bifurcation is collapsed; (Final) the forms
   quoted by Props/C04.v. *)
From Coq Require Import ZArith List Bool Lia Permutation Relations.
From DV Require Import Model.PyPrims Model.Tree Model.C04Model Gen.BitFns Proofs.C04Lists Proofs.C04Loops Proofs.C04Bits.
Import ListNotations.
Open Scope Z_scope.

Section MG.
Variable mg : bool.
Local Notation normalise := (C04Model.normalise mg).
Local Notation basal_step := (C04Model.basal_step mg).
Local Notation collapse_basal := (C04Model.collapse_basal mg).
Local Notation removed_by_encode := (C04Model.removed_by_encode mg).
Local Notation encode_st := (C04Model.encode_st mg).
Local Notation get_bmap := (C04Model.get_bmap mg).
Local Notation add_len := (C04Model.add_len mg).
Local Notation encode_at := (C04Model.encode_at mg).
Local Notation prologue := (C04Model.prologue mg).
Local Notation do_fpfn := (C04Model.do_fpfn mg).
Local Notation do_symdiff := (C04Model.do_symdiff mg).
Local Notation do_missing := (C04Model.do_missing mg).
Local Notation bmap_at := (C04Model.bmap_at mg).
Local Notation do_length_diffs := (C04Model.do_length_diffs mg).
Local Notation do_wrf := (C04Model.do_wrf mg).
Local Notation do_euclid_sq := (C04Model.do_euclid_sq mg).
Local Notation step := (C04Model.step mg).
Local Notation fpfn := (C04Model.fpfn mg).
Local Notation rf := (C04Model.rf mg).
Local Notation missing := (C04Model.missing mg).
Local Notation wrf := (C04Model.wrf mg).
Local Notation euclid_sq := (C04Model.euclid_sq mg).
Local Notation entries := (C04Model.entries mg).
Local Notation splits := (C04Model.splits mg).
Local Notation split_len := (C04Model.split_len mg).

(* ================================================================================================ *)
(* from C04Enc *)


(* ------------------------------------------------------------------------------------------ *)
(* worlds *)

Lemma list_set_nth_same {A} (l : list A) n x y : nth_error l n = Some y -> nth_error (list_set l n x) n = Some x.
Proof.
  revert n. induction l as [|z r IH]; intros [|n]; simpl; try discriminate; [reflexivity|]. apply IH.
Qed.

Lemma list_set_nth_other {A} (l : list A) n m x : n <> m -> nth_error (list_set l n x) m = nth_error l m.
Proof.
  revert n m. induction l as [|z r IH]; intros [|n] [|m] H; simpl; try reflexivity; try congruence.
  apply IH. congruence.
Qed.

Lemma list_set_length {A} (l : list A) n x : length (list_set l n x) = length l.
Proof. revert n. induction l as [|z r IH]; intros [|n]; simpl; try reflexivity. rewrite IH. reflexivity. Qed.

Lemma list_set_set_same {A} (l : list A) n x y : list_set (list_set l n x) n y = list_set l n y.
Proof. revert n. induction l as [|z r IH]; intros [|n]; simpl; try reflexivity. rewrite IH. reflexivity. Qed.

Lemma list_set_comm {A} (l : list A) n m x y :
  n <> m -> list_set (list_set l n x) m y = list_set (list_set l m y) n x.
Proof.
  revert n m. induction l as [|z r IH]; intros [|n] [|m] H; simpl; try reflexivity; try congruence.
  rewrite IH by congruence. reflexivity.
Qed.

Lemma get_set_same w a st st0 : get_t w a = Ok st0 -> get_t (set_t w a st) a = Ok st.
Proof.
  unfold get_t, set_t. simpl. destruct (nth_error (w_trees w) a) eqn:E; [|discriminate]. intros _.
  rewrite (list_set_nth_same _ _ _ _ E). reflexivity.
Qed.

Lemma get_set_other w a b st : a <> b -> get_t (set_t w a st) b = get_t w b.
Proof. intro H. unfold get_t, set_t. simpl. rewrite list_set_nth_other by exact H. reflexivity. Qed.

Lemma acc_set w a st : w_acc (set_t w a st) = w_acc w.
Proof. reflexivity. Qed.

(* ------------------------------------------------------------------------------------------ *)
(* the state encode_bipartitions() leaves behind *)

Definition enc_state (acc : acc_map) (st : tstate) : tstate :=
  let s' := normalise (ts_struct st) in
  let pairs := enc_pairs acc s' in
  mkTS (ts_ns st) (fst s') (snd s')
       (map (fun d => (fst d, (snd d, true))) (removed_by_encode (ts_struct st)) ++ ts_det st)
       (ebip_update pairs (ts_ebip st))
       (negb (Z.eqb (lmask acc (fst s')) 0))
       (Some (map fst pairs))
       None.

Lemma encode_st_ok acc st : taxa_known acc (ts_tree st) = true -> encode_st acc st = Ok (enc_state acc st).
Proof. intro H. unfold encode_st. rewrite H. reflexivity. Qed.

Lemma encode_st_unknown acc st : taxa_known acc (ts_tree st) = false -> encode_st acc st = Err KeyErr.
Proof. intro H. unfold encode_st. rewrite H. reflexivity. Qed.

Lemma encode_at_ok w a st :
  get_t w a = Ok st -> taxa_known (w_acc w) (ts_tree st) = true ->
  encode_at w a = (Ok tt, set_t w a (enc_state (w_acc w) st)).
Proof. intros H K. unfold encode_at. rewrite H, (encode_st_ok _ _ K). reflexivity. Qed.

Lemma enc_state_struct acc st : ts_struct (enc_state acc st) = normalise (ts_struct st).
Proof. unfold enc_state. cbv zeta. unfold ts_struct at 1. cbn [ts_tree ts_rooted]. symmetry. apply surjective_pairing. Qed.

Lemma enc_state_ns acc st : ts_ns (enc_state acc st) = ts_ns st.
Proof. reflexivity. Qed.

Lemma pnodes_not_nil acc r t : pnodes acc r t <> [].
Proof. destruct t. simpl. intro H. apply app_eq_nil in H. destruct H; discriminate. Qed.

Lemma enc_pairs_fst acc s : map fst (enc_pairs acc s) = map fst (entries_n acc s).
Proof. unfold enc_pairs, entries_n. rewrite !map_map. reflexivity. Qed.

Lemma enc_pairs_not_nil acc s : map fst (enc_pairs acc s) <> [].
Proof.
  unfold enc_pairs. rewrite map_map. intro H. apply map_eq_nil in H. eapply pnodes_not_nil, H.
Qed.

(* ------------------------------------------------------------------------------------------ *)
(* the prologue with the default argument *)

Lemma prologue_fresh w a b sa sb :
  a <> b -> get_t w a = Ok sa -> get_t w b = Ok sb -> ts_ns sa = ts_ns sb ->
  taxa_known (w_acc w) (ts_tree sa) = true -> taxa_known (w_acc w) (ts_tree sb) = true ->
  prologue w a b false
  = (Ok tt, set_t (set_t w a (enc_state (w_acc w) sa)) b (enc_state (w_acc w) sb)).
Proof.
  intros Hab Ha Hb Hns Ka Kb. unfold prologue. rewrite Ha, Hb, Hns, Z.eqb_refl. cbn [negb].
  rewrite (encode_at_ok w a sa Ha Ka). cbn [wbind].
  assert (Hb' : get_t (set_t w a (enc_state (w_acc w) sa)) b = Ok sb) by (rewrite get_set_other by exact Hab; exact Hb).
  exact (encode_at_ok _ b sb Hb' Kb).
Qed.

Lemma prologue_ns_mismatch w a b sa sb upd :
  get_t w a = Ok sa -> get_t w b = Ok sb -> ts_ns sa <> ts_ns sb ->
  prologue w a b upd = (Err ValueErr, w).
Proof.
  intros Ha Hb Hns. unfold prologue. rewrite Ha, Hb. apply Z.eqb_neq in Hns. rewrite Hns. reflexivity.
Qed.

(* ------------------------------------------------------------------------------------------ *)
(* false_positives_and_negatives / symmetric_difference / find_missing_bipartitions *)

Definition frozen_ok (acc : acc_map) (s : struct) : Prop := lmask acc (fst (normalise s)) <> 0.

Lemma fpfn_fresh w a b sa sb :
  a <> b -> get_t w a = Ok sa -> get_t w b = Ok sb -> ts_ns sa = ts_ns sb ->
  taxa_known (w_acc w) (ts_tree sa) = true -> taxa_known (w_acc w) (ts_tree sb) = true ->
  frozen_ok (w_acc w) (ts_struct sa) -> frozen_ok (w_acc w) (ts_struct sb) ->
  do_fpfn w a b false
  = (Ok (diff_count (splits (w_acc w) (ts_struct sb)) (splits (w_acc w) (ts_struct sa)),
         diff_count (splits (w_acc w) (ts_struct sa)) (splits (w_acc w) (ts_struct sb))),
     set_t (set_t w a (enc_state (w_acc w) sa)) b (enc_state (w_acc w) sb)).
Proof.
  intros Hab Ha Hb Hns Ka Kb Fa Fb. unfold do_fpfn.
  rewrite (prologue_fresh w a b sa sb Hab Ha Hb Hns Ka Kb). cbn [wbind].
  set (w1 := set_t (set_t w a (enc_state (w_acc w) sa)) b (enc_state (w_acc w) sb)).
  assert (Ga : get_t w1 a = Ok (enc_state (w_acc w) sa)).
  { unfold w1. rewrite get_set_other by congruence. eapply get_set_same, Ha. }
  assert (Gb : get_t w1 b = Ok (enc_state (w_acc w) sb)).
  { unfold w1. eapply get_set_same. rewrite get_set_other by exact Hab. exact Hb. }
  unfold enc_at. rewrite Ga, Gb. cbn [ts_enc ts_frozen enc_state].
  unfold frozen_ok in Fa, Fb. apply Z.eqb_neq in Fa. apply Z.eqb_neq in Fb. rewrite Fa, Fb. cbn [negb andb orb].
  unfold splits, entries. rewrite !enc_pairs_fst. reflexivity.
Qed.

Lemma symdiff_fresh w a b sa sb :
  a <> b -> get_t w a = Ok sa -> get_t w b = Ok sb -> ts_ns sa = ts_ns sb ->
  taxa_known (w_acc w) (ts_tree sa) = true -> taxa_known (w_acc w) (ts_tree sb) = true ->
  frozen_ok (w_acc w) (ts_struct sa) -> frozen_ok (w_acc w) (ts_struct sb) ->
  do_symdiff w a b false
  = (Ok (diff_count (splits (w_acc w) (ts_struct sb)) (splits (w_acc w) (ts_struct sa))
         + diff_count (splits (w_acc w) (ts_struct sa)) (splits (w_acc w) (ts_struct sb))),
     set_t (set_t w a (enc_state (w_acc w) sa)) b (enc_state (w_acc w) sb)).
Proof.
  intros. unfold do_symdiff. rewrite (fpfn_fresh w a b sa sb) by assumption. reflexivity.
Qed.

Lemma missing_fresh w a b sa sb :
  a <> b -> get_t w a = Ok sa -> get_t w b = Ok sb -> ts_ns sa = ts_ns sb ->
  taxa_known (w_acc w) (ts_tree sa) = true -> taxa_known (w_acc w) (ts_tree sb) = true ->
  do_missing w a b false
  = (Ok (filter (fun m => negb (memz m (splits (w_acc w) (ts_struct sb)))) (splits (w_acc w) (ts_struct sa))),
     set_t (set_t w a (enc_state (w_acc w) sa)) b (enc_state (w_acc w) sb)).
Proof.
  intros Hab Ha Hb Hns Ka Kb. unfold do_missing.
  rewrite (prologue_fresh w a b sa sb Hab Ha Hb Hns Ka Kb). cbn [wbind].
  set (w1 := set_t (set_t w a (enc_state (w_acc w) sa)) b (enc_state (w_acc w) sb)).
  assert (Ga : get_t w1 a = Ok (enc_state (w_acc w) sa)).
  { unfold w1. rewrite get_set_other by congruence. eapply get_set_same, Ha. }
  assert (Gb : get_t w1 b = Ok (enc_state (w_acc w) sb)).
  { unfold w1. eapply get_set_same. rewrite get_set_other by exact Hab. exact Hb. }
  unfold enc_at. rewrite Ga, Gb. cbn [ts_enc ts_frozen enc_state].
  unfold splits, entries. rewrite !enc_pairs_fst. reflexivity.
Qed.

(* ------------------------------------------------------------------------------------------ *)
(* bipartition_edge_map of a freshly encoded tree *)

Definition ids_ok (acc : acc_map) (s : struct) : Prop :=
  NoDup (map fst (pnodes acc true (fst (normalise s)))).

Lemma in_dict_set {V} k (v : V) l x : In x (dict_set k v l) -> x = (k, v) \/ In x l.
Proof.
  induction l as [|[k0 v0] r IH]; simpl.
  - intros [H|[]]. left. symmetry. exact H.
  - destruct (Z.eqb k k0) eqn:E.
    + apply Z.eqb_eq in E. subst. intros [H|H]; [left; symmetry; exact H | right; right; exact H].
    + intros [H|H]; [right; left; exact H|]. apply IH in H. tauto.
Qed.

Lemma in_fold_dict {V} (l d : list (Z * V)) x :
  In x (fold_left (fun d kv => dict_set (fst kv) (snd kv) d) l d) -> In x d \/ In x l.
Proof.
  revert d. induction l as [|[k v] r IH]; simpl; intro d; [tauto|].
  intro H. apply IH in H. destruct H as [H|H]; [|tauto]. apply in_dict_set in H. simpl in H.
  destruct H as [H|H]; [right; left; symmetry; exact H | tauto].
Qed.

Lemma in_dict_of {V} (l : list (Z * V)) x : In x (dict_of l) -> In x l.
Proof. intro H. apply in_fold_dict in H. destruct H as [[]|H]. exact H. Qed.

Lemma build_bmap_spec {N} (fid fm : N -> Z) ebip : forall (ns : list N) d,
  (forall n, In n ns -> zlookup (fid n) ebip = Some (fm n)) ->
  build_bmap ebip (map fid ns) d
  = Ok (fold_left (fun d kv => dict_set (fst kv) (snd kv) d) (map (fun n => (fm n, fid n)) ns) d).
Proof.
  induction ns as [|n r IH]; intros d H; [reflexivity|].
  simpl. rewrite (H n (or_introl eq_refl)). apply IH. intros m Hm. apply H. right. exact Hm.
Qed.

Lemma zlookup_map_key {N V} (fid : N -> Z) (fv : N -> V) (ns : list N) n :
  NoDup (map fid ns) -> In n ns -> zlookup (fid n) (map (fun n => (fid n, fv n)) ns) = Some (fv n).
Proof.
  intros H Hin. apply zlookup_nodup.
  - unfold keys. rewrite map_map. exact H.
  - apply in_map_iff. exists n. split; [reflexivity|exact Hin].
Qed.

(* the state after bipartition_edge_map has been built on a freshly encoded tree *)
Definition bmap_state (acc : acc_map) (st : tstate) : tstate :=
  let st1 := enc_state acc st in
  mkTS (ts_ns st1) (ts_tree st1) (ts_rooted st1) (ts_det st1) (ts_ebip st1) (ts_frozen st1) (ts_enc st1)
       (Some (dict_of (enc_pairs acc (ts_struct st1)))).

Lemma get_bmap_fresh acc st :
  frozen_ok acc (ts_struct st) -> ids_ok acc (ts_struct st) ->
  get_bmap acc (enc_state acc st)
  = (Ok (dict_of (enc_pairs acc (normalise (ts_struct st)))), bmap_state acc st).
Proof.
  intros F I. unfold get_bmap, bmap_state. cbv zeta.
  assert (E1 : falsy (ts_bmap (enc_state acc st)) = true) by reflexivity.
  rewrite E1. cbn [negb].
  assert (E2 : falsy (ts_enc (enc_state acc st)) = false).
  { cbn [ts_enc enc_state falsy]. destruct (map fst (enc_pairs acc (normalise (ts_struct st)))) eqn:E; [|reflexivity].
    exfalso. eapply enc_pairs_not_nil, E. }
  rewrite E2.
  assert (E3 : ts_frozen (enc_state acc st) = true).
  { cbn [ts_frozen enc_state]. unfold frozen_ok in F. apply Z.eqb_neq in F. rewrite F. reflexivity. }
  rewrite E3. cbn [negb].
  set (s' := normalise (ts_struct st)).
  assert (Et : ts_tree (enc_state acc st) = fst s') by reflexivity.
  rewrite Et.
  rewrite (build_bmap_spec (fun n : Z * (Z * (option Z * bool)) => fst n)
            (fun n => split_of (snd s') (lmask acc (fst s')) (fst (snd n)))).
  - rewrite enc_state_struct. fold s'. unfold dict_of, enc_pairs. reflexivity.
  - intros n Hn. cbn [ts_ebip enc_state]. fold s'. unfold ebip_update. rewrite zlookup_app.
    unfold enc_pairs. rewrite map_map. cbn [fst snd]. unfold ids_ok in I. fold s' in I.
    rewrite (zlookup_map_key (fun n : Z * (Z * (option Z * bool)) => fst n)
               (fun n => split_of (snd s') (lmask acc (fst s')) (fst (snd n))) _ n I Hn).
    reflexivity.
Qed.

Lemma bmap_state_struct acc st : ts_struct (bmap_state acc st) = normalise (ts_struct st).
Proof. unfold bmap_state, ts_struct. cbn [ts_tree ts_rooted]. apply enc_state_struct. Qed.

(* a second access returns the cached map *)
Lemma get_bmap_cached acc st :
  get_bmap acc (bmap_state acc st)
  = (Ok (dict_of (enc_pairs acc (ts_struct (enc_state acc st)))), bmap_state acc st).
Proof.
  unfold get_bmap. cbn [ts_bmap bmap_state].
  destruct (dict_of (enc_pairs acc (ts_struct (enc_state acc st)))) eqn:E; [|reflexivity].
  exfalso. assert (K : forall k, In k (keys (dict_of (enc_pairs acc (ts_struct (enc_state acc st))))) -> False).
  { rewrite E. intros k []. }
  destruct (map fst (enc_pairs acc (ts_struct (enc_state acc st)))) as [|k r] eqn:E2.
  - eapply enc_pairs_not_nil, E2.
  - apply (K k). apply dict_of_keys. unfold keys. rewrite E2. left. reflexivity.
Qed.

(* the edge information of the nodes of the normalised tree *)
Definition ginfo (acc : acc_map) (s' : struct) (i : Z) : option Z * bool :=
  match zlookup i (pnodes acc true (fst s')) with Some x => snd x | None => (None, false) end.

Lemma edge_info_tree acc st i x :
  zlookup i (pnodes acc true (ts_tree st)) = Some x -> edge_info acc st i = Ok (snd x).
Proof. intro H. unfold edge_info. rewrite H. reflexivity. Qed.

Lemma mapv_ginfo_pairs acc s' :
  NoDup (map fst (pnodes acc true (fst s'))) ->
  mapv (ginfo acc s') (enc_pairs acc s') = entries_n acc s'.
Proof.
  intro H. unfold mapv, enc_pairs, entries_n. rewrite map_map. apply map_ext_in.
  intros n Hn. cbn [fst snd]. f_equal. unfold ginfo.
  rewrite (zlookup_nodup (fst n) (snd n) (pnodes acc true (fst s'))).
  - reflexivity.
  - exact H.
  - destruct n. exact Hn.
Qed.

Lemma dict_values_are_ids acc s' k i :
  In (k, i) (dict_of (enc_pairs acc s')) -> In i (map fst (pnodes acc true (fst s'))).
Proof.
  intro H. apply in_dict_of in H. unfold enc_pairs in H. apply in_map_iff in H.
  destruct H as [n [E Hn]]. inversion E; subst. apply in_map. exact Hn.
Qed.

(* ------------------------------------------------------------------------------------------ *)
(* the loops read edges through node ids: same thing as reading the entries directly *)

Section Bridge.
Variable p : policy.
Variables (i1 i2 : Z -> res (option Z * bool)) (g1 g2 : Z -> option Z * bool).

Lemma loop1_bridge : forall (m1 m2 : list (Z * Z)) out,
  (forall kx, In kx m1 -> i1 (snd kx) = Ok (g1 (snd kx))) ->
  (forall kx, In kx m2 -> i2 (snd kx) = Ok (g2 (snd kx))) ->
  loop1 p (fun x => Ok x) (fun x => Ok x) (mapv g1 m1) (mapv g2 m2) out
  = match loop1 p i1 i2 m1 m2 out with
    | Ok (o, r) => Ok (o, mapv g2 r)
    | Err e => Err e
    | OutOfFuel => OutOfFuel
    end.
Proof.
  induction m1 as [|[k e1] r IH]; intros m2 out H1 H2; [reflexivity|].
  cbn [mapv map loop1 fst snd bind]. pose proof (H1 (k, e1) (or_introl eq_refl)) as Q1. cbn [snd] in Q1. rewrite Q1. cbn [bind].
  destruct (lenient_value p (g1 e1)) as [v1| |]; cbn [bind]; try reflexivity.
  fold (mapv g1 r). fold (mapv g2 m2). rewrite dict_pop_mapv.
  unfold dict_pop at 2. unfold dict_pop at 1.
  destruct (zlookup k m2) as [e2|] eqn:E2; cbn [option_map fst snd bind].
  - assert (Hin : In (k, e2) m2) by (apply zlookup_In, E2).
    pose proof (H2 (k, e2) Hin) as Q2. cbn [snd] in Q2. rewrite Q2. cbn [bind].
    destruct (strict_value p (g2 e2)) as [v2| |]; cbn [bind]; try reflexivity.
    apply IH.
    + intros kx Hkx. apply H1. right. exact Hkx.
    + intros kx Hkx. apply H2. eapply dict_remove_In, Hkx.
  - apply IH; [|exact H2]. intros kx Hkx. apply H1. right. exact Hkx.
Qed.

Lemma loop2_bridge : forall (m1 rest : list (Z * Z)) out,
  (forall kx, In kx m1 -> i1 (snd kx) = Ok (g1 (snd kx))) ->
  (forall kx, In kx rest -> i2 (snd kx) = Ok (g2 (snd kx))) ->
  loop2 p (fun x => Ok x) (fun x => Ok x) (mapv g1 m1) (mapv g2 rest) out
  = loop2 p i1 i2 m1 rest out.
Proof.
  intros m1 rest. induction rest as [|[k e2] r IH]; intros out H1 H2; [reflexivity|].
  cbn [mapv map loop2 fst snd bind]. pose proof (H2 (k, e2) (or_introl eq_refl)) as Q2. cbn [snd] in Q2. rewrite Q2. cbn [bind].
  destruct (lenient_value p (g2 e2)) as [v2| |]; cbn [bind]; try reflexivity.
  fold (mapv g1 m1). fold (mapv g2 r). rewrite zlookup_mapv.
  destruct (zlookup k m1) as [e1|] eqn:E1; cbn [option_map bind].
  - assert (Hin : In (k, e1) m1) by (apply zlookup_In, E1).
    pose proof (H1 (k, e1) Hin) as Q1. cbn [snd] in Q1. rewrite Q1. cbn [bind].
    destruct (strict_value Current (g1 e1)) as [v1| |]; cbn [bind]; try reflexivity.
    apply IH; [exact H1|]. intros kx Hkx. apply H2. right. exact Hkx.
  - apply IH; [exact H1|]. intros kx Hkx. apply H2. right. exact Hkx.
Qed.

Lemma loop1_rest_sub : forall (m1 m2 : list (Z * Z)) out o r,
  loop1 p i1 i2 m1 m2 out = Ok (o, r) -> forall kx, In kx r -> In kx m2.
Proof.
  induction m1 as [|[k e1] r1 IH]; intros m2 out o r H kx Hkx.
  - simpl in H. inversion H; subst. exact Hkx.
  - cbn [loop1 bind] in H. destruct (i1 e1) as [x1| |]; cbn [bind] in H; try discriminate.
    destruct (lenient_value p x1); cbn [bind] in H; try discriminate.
    unfold dict_pop in H. destruct (zlookup k m2) as [e2|].
    + cbn [bind] in H. destruct (i2 e2) as [x2| |]; cbn [bind] in H; try discriminate.
      destruct (strict_value p x2); cbn [bind] in H; try discriminate.
      eapply dict_remove_In. eapply IH; [exact H|exact Hkx].
    + eapply IH; [exact H|exact Hkx].
Qed.

Lemma length_diffs_bridge (m1 m2 : list (Z * Z)) :
  (forall kx, In kx m1 -> i1 (snd kx) = Ok (g1 (snd kx))) ->
  (forall kx, In kx m2 -> i2 (snd kx) = Ok (g2 (snd kx))) ->
  length_diffs p i1 i2 m1 m2
  = length_diffs p (fun x => Ok x) (fun x => Ok x) (mapv g1 m1) (mapv g2 m2).
Proof.
  intros H1 H2. unfold length_diffs. rewrite (loop1_bridge m1 m2 [] H1 H2).
  destruct (loop1 p i1 i2 m1 m2 []) as [[o r]| |] eqn:E; cbn [bind fst snd]; try reflexivity.
  symmetry. apply loop2_bridge; [exact H1|].
  intros kx Hkx. apply H2. eapply loop1_rest_sub; [exact E|exact Hkx].
Qed.
End Bridge.

(* ------------------------------------------------------------------------------------------ *)
(* _get_length_diffs with the default argument *)

Definition ld_pure (p : policy) (acc : acc_map) (s1 s2 : struct) : res (list (Z * Z)) :=
  length_diffs p (fun x => Ok x) (fun x => Ok x) (dict_of (entries acc s1)) (dict_of (entries acc s2)).

Definition wf (acc : acc_map) (s : struct) : Prop :=
  taxa_known acc (fst s) = true /\ frozen_ok acc s /\ ids_ok acc s.

Lemma length_diffs_fresh p w a b sa sb :
  a <> b -> get_t w a = Ok sa -> get_t w b = Ok sb -> ts_ns sa = ts_ns sb ->
  wf (w_acc w) (ts_struct sa) -> wf (w_acc w) (ts_struct sb) ->
  do_length_diffs p w a b false
  = (ld_pure p (w_acc w) (ts_struct sa) (ts_struct sb),
     set_t (set_t w a (bmap_state (w_acc w) sa)) b (bmap_state (w_acc w) sb)).
Proof.
  intros Hab Ha Hb Hns [Ka [Fa Ia]] [Kb [Fb Ib]]. unfold do_length_diffs.
  set (acc := w_acc w) in *.
  rewrite (prologue_fresh w a b sa sb Hab Ha Hb Hns Ka Kb). cbn [wbind]. fold acc.
  set (w1 := set_t (set_t w a (enc_state acc sa)) b (enc_state acc sb)).
  assert (Ga : get_t w1 a = Ok (enc_state acc sa)).
  { unfold w1. rewrite get_set_other by congruence. eapply get_set_same, Ha. }
  assert (Gb : get_t w1 b = Ok (enc_state acc sb)).
  { unfold w1. eapply get_set_same. rewrite get_set_other by exact Hab. exact Hb. }
  unfold bmap_at at 1. rewrite Gb. change (w_acc w1) with acc.
  rewrite (get_bmap_fresh acc sb Fb Ib). cbn [wbind].
  set (w2 := set_t w1 b (bmap_state acc sb)).
  assert (Ga2 : get_t w2 a = Ok (enc_state acc sa)).
  { unfold w2. rewrite get_set_other by congruence. exact Ga. }
  unfold bmap_at. rewrite Ga2. change (w_acc w2) with acc.
  rewrite (get_bmap_fresh acc sa Fa Ia). cbn [wbind].
  set (w3 := set_t w2 a (bmap_state acc sa)).
  assert (Ga3 : get_t w3 a = Ok (bmap_state acc sa)).
  { unfold w3. eapply get_set_same, Ga2. }
  assert (Gb3 : get_t w3 b = Ok (bmap_state acc sb)).
  { unfold w3. rewrite get_set_other by exact Hab. unfold w2. eapply get_set_same, Gb. }
  assert (Ew : w3 = set_t (set_t w a (bmap_state acc sa)) b (bmap_state acc sb)).
  { unfold w3, w2, w1, set_t. cbn [w_acc w_trees]. f_equal.
    rewrite list_set_set_same.
    rewrite (list_set_comm (w_trees w) a b (enc_state acc sa) (bmap_state acc sb)) by congruence.
    rewrite list_set_set_same. apply list_set_comm. congruence. }
  rewrite <- Ew. f_equal.
  set (sa' := normalise (ts_struct sa)). set (sb' := normalise (ts_struct sb)).
  rewrite (length_diffs_bridge p (info_at w3 a) (info_at w3 b) (ginfo acc sa') (ginfo acc sb')).
  - unfold ld_pure, entries. fold sa' sb'.
    rewrite <- !dict_of_mapv, (mapv_ginfo_pairs acc sa' Ia), (mapv_ginfo_pairs acc sb' Ib). reflexivity.
  - intros [k i] Hin. cbn [snd]. apply dict_values_are_ids in Hin.
    unfold info_at. rewrite Ga3. cbn [bind]. change (w_acc w3) with acc.
    apply in_map_iff in Hin. destruct Hin as [n [En Hn]].
    assert (Z1 : zlookup i (pnodes acc true (fst sa')) = Some (snd n)).
    { subst i. apply zlookup_nodup; [exact Ia|]. destruct n; exact Hn. }
    unfold ginfo. rewrite Z1. apply edge_info_tree. exact Z1.
  - intros [k i] Hin. cbn [snd]. apply dict_values_are_ids in Hin.
    unfold info_at. rewrite Gb3. cbn [bind]. change (w_acc w3) with acc.
    apply in_map_iff in Hin. destruct Hin as [n [En Hn]].
    assert (Z1 : zlookup i (pnodes acc true (fst sb')) = Some (snd n)).
    { subst i. apply zlookup_nodup; [exact Ib|]. destruct n; exact Hn. }
    unfold ginfo. rewrite Z1. apply edge_info_tree. exact Z1.
Qed.

(* ================================================================================================ *)
(* from C04Main *)


(* ------------------------------------------------------------------------------------------ *)
(* the client-level functions (two fresh trees) in pure form *)

Lemma fresh_struct ns s : ts_struct (fresh ns s) = s.
Proof. destruct s. reflexivity. Qed.

Lemma world2_get0 acc s1 s2 : get_t (world2 acc s1 s2) 0 = Ok (fresh 0 s1).
Proof. reflexivity. Qed.
Lemma world2_get1 acc s1 s2 : get_t (world2 acc s1 s2) 1 = Ok (fresh 0 s2).
Proof. reflexivity. Qed.

Lemma fpfn_pure acc s1 s2 :
  taxa_known acc (fst s1) = true -> taxa_known acc (fst s2) = true ->
  frozen_ok acc s1 -> frozen_ok acc s2 ->
  fpfn acc s1 s2 = Ok (diff_count (splits acc s2) (splits acc s1), diff_count (splits acc s1) (splits acc s2)).
Proof.
  intros K1 K2 F1 F2. unfold fpfn.
  rewrite (fpfn_fresh (world2 acc s1 s2) 0 1 (fresh 0 s1) (fresh 0 s2)); try reflexivity;
    try (rewrite ?fresh_struct; assumption); try discriminate.
  cbn [fst w_acc world2]. rewrite !fresh_struct. reflexivity.
Qed.

Lemma rf_pure acc s1 s2 :
  taxa_known acc (fst s1) = true -> taxa_known acc (fst s2) = true ->
  frozen_ok acc s1 -> frozen_ok acc s2 ->
  rf acc s1 s2 = Ok (diff_count (splits acc s2) (splits acc s1) + diff_count (splits acc s1) (splits acc s2)).
Proof.
  intros K1 K2 F1 F2. unfold rf.
  rewrite (symdiff_fresh (world2 acc s1 s2) 0 1 (fresh 0 s1) (fresh 0 s2)); try reflexivity;
    try (rewrite ?fresh_struct; assumption); try discriminate.
  cbn [fst w_acc world2]. rewrite !fresh_struct. reflexivity.
Qed.

Lemma missing_pure acc s1 s2 :
  taxa_known acc (fst s1) = true -> taxa_known acc (fst s2) = true ->
  missing acc s1 s2 = Ok (filter (fun m => negb (memz m (splits acc s2))) (splits acc s1)).
Proof.
  intros K1 K2. unfold missing.
  rewrite (missing_fresh (world2 acc s1 s2) 0 1 (fresh 0 s1) (fresh 0 s2)); try reflexivity;
    try (rewrite ?fresh_struct; assumption); try discriminate.
  cbn [fst w_acc world2]. rewrite !fresh_struct. reflexivity.
Qed.

Lemma wf_fresh acc s : wf acc s -> wf acc (ts_struct (fresh 0 s)).
Proof. rewrite fresh_struct. tauto. Qed.

Lemma wrf_pure p acc s1 s2 :
  wf acc s1 -> wf acc s2 ->
  wrf p acc s1 s2 = match ld_pure p acc s1 s2 with Ok l => Ok (sum_abs l) | Err e => Err e | OutOfFuel => OutOfFuel end.
Proof.
  intros W1 W2. unfold wrf, do_wrf.
  rewrite (length_diffs_fresh p (world2 acc s1 s2) 0 1 (fresh 0 s1) (fresh 0 s2));
    try reflexivity; try discriminate; try (apply wf_fresh; assumption).
  cbn [w_acc world2]. rewrite !fresh_struct. destruct (ld_pure p acc s1 s2); reflexivity.
Qed.

Lemma euclid_pure p acc s1 s2 :
  wf acc s1 -> wf acc s2 ->
  euclid_sq p acc s1 s2 = match ld_pure p acc s1 s2 with Ok l => Ok (sum_sq l) | Err e => Err e | OutOfFuel => OutOfFuel end.
Proof.
  intros W1 W2. unfold euclid_sq, do_euclid_sq.
  rewrite (length_diffs_fresh p (world2 acc s1 s2) 0 1 (fresh 0 s1) (fresh 0 s2));
    try reflexivity; try discriminate; try (apply wf_fresh; assumption).
  cbn [w_acc world2]. rewrite !fresh_struct. destruct (ld_pure p acc s1 s2); reflexivity.
Qed.

(* ------------------------------------------------------------------------------------------ *)
(* unweighted: cardinalities of the one-sided differences *)

Lemma fp_fn_are_one_sided_l acc s1 s2 S1 S2 :
  taxa_known acc (fst s1) = true -> taxa_known acc (fst s2) = true ->
  lmask acc (fst (normalise s1)) <> 0 -> lmask acc (fst (normalise s2)) <> 0 ->
  NoDup S1 -> NoDup S2 ->
  (forall m, In m S1 <-> In m (splits acc s1)) -> (forall m, In m S2 <-> In m (splits acc s2)) ->
  fpfn acc s1 s2 = Ok (Z.of_nat (length (filter (fun m => negb (memz m S1)) S2)),
                      Z.of_nat (length (filter (fun m => negb (memz m S2)) S1))).
Proof.
  intros K1 K2 F1 F2 N1 N2 E1 E2. rewrite (fpfn_pure acc s1 s2 K1 K2 F1 F2).
  rewrite (diff_count_spec (splits acc s2) (splits acc s1) S2 S1 N2 E2 E1).
  rewrite (diff_count_spec (splits acc s1) (splits acc s2) S1 S2 N1 E1 E2). reflexivity.
Qed.

Lemma rf_is_symdiff_card_l acc s1 s2 S1 S2 :
  taxa_known acc (fst s1) = true -> taxa_known acc (fst s2) = true ->
  lmask acc (fst (normalise s1)) <> 0 -> lmask acc (fst (normalise s2)) <> 0 ->
  NoDup S1 -> NoDup S2 ->
  (forall m, In m S1 <-> In m (splits acc s1)) -> (forall m, In m S2 <-> In m (splits acc s2)) ->
  rf acc s1 s2 = Ok (Z.of_nat (length (filter (fun m => negb (memz m S2)) S1))
                     + Z.of_nat (length (filter (fun m => negb (memz m S1)) S2))).
Proof.
  intros K1 K2 F1 F2 N1 N2 E1 E2. rewrite (rf_pure acc s1 s2 K1 K2 F1 F2).
  rewrite (diff_count_spec (splits acc s2) (splits acc s1) S2 S1 N2 E2 E1).
  rewrite (diff_count_spec (splits acc s1) (splits acc s2) S1 S2 N1 E1 E2). f_equal. lia.
Qed.

(* indicator sums *)
Definition ind (b : bool) : Z := if b then 1 else 0.

Lemma length_filter_ind {A} (f : A -> bool) l : Z.of_nat (length (filter f l)) = zsum (map (fun x => ind (f x)) l).
Proof.
  induction l as [|x r IH]; [reflexivity|]. simpl. unfold zsum in *. simpl. rewrite <- IH.
  destruct (f x); cbn [length ind]; rewrite ?Nat2Z.inj_succ; lia.
Qed.

Lemma diff_count_ind a b U :
  NoDup U -> incl a U ->
  diff_count a b = zsum (map (fun x => ind (memz x a && negb (memz x b))) U).
Proof.
  intros HU Ha. unfold diff_count. rewrite length_filter_ind.
  rewrite (zsum_support (fun x => ind (memz x a && negb (memz x b))) (dedup a) U).
  - apply zsum_map_ext. intros x Hx. apply (proj1 (dedup_In x a)) in Hx. apply (proj2 (memz_In x a)) in Hx. rewrite Hx. reflexivity.
  - apply dedup_NoDup.
  - exact HU.
  - intros x Hx. apply Ha. apply dedup_In. exact Hx.
  - intros x _ Hn. rewrite dedup_In in Hn. apply memz_false in Hn. rewrite Hn. reflexivity.
Qed.

Definition sd (a b : list Z) : Z := diff_count b a + diff_count a b.

Lemma sd_ind a b U :
  NoDup U -> incl a U -> incl b U ->
  sd a b = zsum (map (fun x => ind (xorb (memz x a) (memz x b))) U).
Proof.
  intros HU Ha Hb. unfold sd. rewrite (diff_count_ind b a U HU Hb), (diff_count_ind a b U HU Ha).
  rewrite <- zsum_map_add. apply zsum_map_ext. intros x _.
  destruct (memz x a), (memz x b); reflexivity.
Qed.

Lemma sd_sym a b : sd a b = sd b a.
Proof. unfold sd. lia. Qed.

Lemma sd_self a : sd a a = 0.
Proof.
  rewrite (sd_ind a a (dedup a)).
  - apply zsum_map_zero. intros x _. rewrite xorb_nilpotent. reflexivity.
  - apply dedup_NoDup.
  - intros x Hx. apply dedup_In. exact Hx.
  - intros x Hx. apply dedup_In. exact Hx.
Qed.

Lemma sd_triangle a b c : sd a c <= sd a b + sd b c.
Proof.
  set (U := dedup (a ++ b ++ c)).
  assert (HU : NoDup U) by apply dedup_NoDup.
  assert (Ia : incl a U) by (intros x Hx; apply dedup_In; rewrite !in_app_iff; tauto).
  assert (Ib : incl b U) by (intros x Hx; apply dedup_In; rewrite !in_app_iff; tauto).
  assert (Ic : incl c U) by (intros x Hx; apply dedup_In; rewrite !in_app_iff; tauto).
  rewrite (sd_ind a c U HU Ia Ic), (sd_ind a b U HU Ia Ib), (sd_ind b c U HU Ib Ic).
  rewrite <- zsum_map_add. apply zsum_map_le. intros x _.
  destruct (memz x a), (memz x b), (memz x c); simpl; lia.
Qed.

Lemma sd_zero_same_set a b : (forall x, In x a <-> In x b) -> sd a b = 0.
Proof.
  intro H. rewrite (sd_ind a b (dedup (a ++ b))).
  - apply zsum_map_zero. intros x _.
    assert (E : memz x a = memz x b).
    { destruct (memz x a) eqn:E1, (memz x b) eqn:E2; try reflexivity.
      - apply memz_In in E1. apply memz_false in E2. exfalso. apply E2, H, E1.
      - apply memz_In in E2. apply memz_false in E1. exfalso. apply E1, H, E2. }
    rewrite E, xorb_nilpotent. reflexivity.
  - apply dedup_NoDup.
  - intros x Hx. apply dedup_In. rewrite in_app_iff. tauto.
  - intros x Hx. apply dedup_In. rewrite in_app_iff. tauto.
Qed.

Lemma rf_sd acc s1 s2 :
  taxa_known acc (fst s1) = true -> taxa_known acc (fst s2) = true ->
  frozen_ok acc s1 -> frozen_ok acc s2 ->
  rf acc s1 s2 = Ok (sd (splits acc s1) (splits acc s2)).
Proof. intros. rewrite rf_pure by assumption. reflexivity. Qed.

(* ------------------------------------------------------------------------------------------ *)
(* weighted: norms over the union *)

Definition kd (acc : acc_map) (s : struct) := dict_of (entries acc s).

Lemma ld_norm (h : Z -> Z -> Z) p acc s1 s2 l U :
  h 0 0 = 0 -> ld_pure p acc s1 s2 = Ok l ->
  NoDup U -> incl (splits acc s1) U -> incl (splits acc s2) U ->
  sum_h h l = zsum (map (fun k => h (val (kd acc s1) k) (val (kd acc s2) k)) U).
Proof.
  intros h0 H HU I1 I2. unfold ld_pure in H.
  apply (length_diffs_norm h p (kd acc s1) (kd acc s2) l U h0); try exact H; try exact HU; try apply dict_of_nodup.
  - intros k Hk. apply I1. unfold kd in Hk. apply (proj1 (dict_of_keys _ k)) in Hk. exact Hk.
  - intros k Hk. apply I2. unfold kd in Hk. apply (proj1 (dict_of_keys _ k)) in Hk. exact Hk.
Qed.

Lemma val_split_len acc s m : NoDup (splits acc s) -> val (kd acc s) m = split_len acc s m.
Proof.
  intro H. unfold kd. rewrite dict_of_id by exact H. unfold val, split_len, ov.
  destruct (zlookup m (entries acc s)) as [[[v|] r]|]; reflexivity.
Qed.

Lemma wrf_is_L1_l p acc s1 s2 v U :
  wf acc s1 -> wf acc s2 ->
  NoDup (splits acc s1) -> NoDup (splits acc s2) ->
  wrf p acc s1 s2 = Ok v ->
  NoDup U -> incl (splits acc s1) U -> incl (splits acc s2) U ->
  v = zsum (map (fun m => Z.abs (split_len acc s1 m - split_len acc s2 m)) U).
Proof.
  intros W1 W2 N1 N2 H HU I1 I2. rewrite (wrf_pure p acc s1 s2 W1 W2) in H.
  destruct (ld_pure p acc s1 s2) as [l| |] eqn:E; try discriminate. inversion H; subst.
  rewrite sum_abs_h. rewrite (ld_norm (fun a b => Z.abs (a - b)) p acc s1 s2 l U eq_refl E HU I1 I2).
  apply zsum_map_ext. intros m _. rewrite !val_split_len by assumption. reflexivity.
Qed.

Lemma euclid_is_L2_l p acc s1 s2 v U :
  wf acc s1 -> wf acc s2 ->
  NoDup (splits acc s1) -> NoDup (splits acc s2) ->
  euclid_sq p acc s1 s2 = Ok v ->
  NoDup U -> incl (splits acc s1) U -> incl (splits acc s2) U ->
  v = zsum (map (fun m => (split_len acc s1 m - split_len acc s2 m) * (split_len acc s1 m - split_len acc s2 m)) U).
Proof.
  intros W1 W2 N1 N2 H HU I1 I2. rewrite (euclid_pure p acc s1 s2 W1 W2) in H.
  destruct (ld_pure p acc s1 s2) as [l| |] eqn:E; try discriminate. inversion H; subst.
  rewrite sum_sq_h. rewrite (ld_norm (fun a b => (a - b) * (a - b)) p acc s1 s2 l U eq_refl E HU I1 I2).
  apply zsum_map_ext. intros m _. rewrite !val_split_len by assumption. reflexivity.
Qed.

(* general form (no assumption on colliding masks): per split the LAST post-order edge counts *)
Definition U3 (acc : acc_map) (s1 s2 s3 : struct) : list Z := dedup (splits acc s1 ++ splits acc s2 ++ splits acc s3).

Lemma U3_nodup acc s1 s2 s3 : NoDup (U3 acc s1 s2 s3).
Proof. apply dedup_NoDup. Qed.
Lemma U3_1 acc s1 s2 s3 : incl (splits acc s1) (U3 acc s1 s2 s3).
Proof. intros x Hx. apply dedup_In. rewrite !in_app_iff. tauto. Qed.
Lemma U3_2 acc s1 s2 s3 : incl (splits acc s2) (U3 acc s1 s2 s3).
Proof. intros x Hx. apply dedup_In. rewrite !in_app_iff. tauto. Qed.
Lemma U3_3 acc s1 s2 s3 : incl (splits acc s3) (U3 acc s1 s2 s3).
Proof. intros x Hx. apply dedup_In. rewrite !in_app_iff. tauto. Qed.

Lemma wrf_sym_l p acc s1 s2 v v' :
  wf acc s1 -> wf acc s2 -> wrf p acc s1 s2 = Ok v -> wrf p acc s2 s1 = Ok v' -> v = v'.
Proof.
  intros W1 W2 H H'. rewrite (wrf_pure p acc s1 s2 W1 W2) in H. rewrite (wrf_pure p acc s2 s1 W2 W1) in H'.
  destruct (ld_pure p acc s1 s2) as [l| |] eqn:E; try discriminate.
  destruct (ld_pure p acc s2 s1) as [l'| |] eqn:E'; try discriminate.
  inversion H; inversion H'; subst. rewrite !sum_abs_h.
  rewrite (ld_norm _ p acc s1 s2 l (U3 acc s1 s2 s2) eq_refl E (U3_nodup _ _ _ _) (U3_1 _ _ _ _) (U3_2 _ _ _ _)).
  rewrite (ld_norm _ p acc s2 s1 l' (U3 acc s1 s2 s2) eq_refl E' (U3_nodup _ _ _ _) (U3_2 _ _ _ _) (U3_1 _ _ _ _)).
  apply zsum_map_ext. intros m _. lia.
Qed.

Lemma euclid_sq_sym_l p acc s1 s2 v v' :
  wf acc s1 -> wf acc s2 -> euclid_sq p acc s1 s2 = Ok v -> euclid_sq p acc s2 s1 = Ok v' -> v = v'.
Proof.
  intros W1 W2 H H'. rewrite (euclid_pure p acc s1 s2 W1 W2) in H. rewrite (euclid_pure p acc s2 s1 W2 W1) in H'.
  destruct (ld_pure p acc s1 s2) as [l| |] eqn:E; try discriminate.
  destruct (ld_pure p acc s2 s1) as [l'| |] eqn:E'; try discriminate.
  inversion H; inversion H'; subst. rewrite !sum_sq_h.
  rewrite (ld_norm _ p acc s1 s2 l (U3 acc s1 s2 s2) eq_refl E (U3_nodup _ _ _ _) (U3_1 _ _ _ _) (U3_2 _ _ _ _)).
  rewrite (ld_norm _ p acc s2 s1 l' (U3 acc s1 s2 s2) eq_refl E' (U3_nodup _ _ _ _) (U3_2 _ _ _ _) (U3_1 _ _ _ _)).
  apply zsum_map_ext. intros m _. lia.
Qed.

Lemma wrf_triangle_l p acc s1 s2 s3 d13 d12 d23 :
  wf acc s1 -> wf acc s2 -> wf acc s3 ->
  wrf p acc s1 s3 = Ok d13 -> wrf p acc s1 s2 = Ok d12 -> wrf p acc s2 s3 = Ok d23 ->
  d13 <= d12 + d23.
Proof.
  intros W1 W2 W3 H13 H12 H23.
  rewrite (wrf_pure p acc s1 s3 W1 W3) in H13. rewrite (wrf_pure p acc s1 s2 W1 W2) in H12.
  rewrite (wrf_pure p acc s2 s3 W2 W3) in H23.
  destruct (ld_pure p acc s1 s3) as [l13| |] eqn:E13; try discriminate.
  destruct (ld_pure p acc s1 s2) as [l12| |] eqn:E12; try discriminate.
  destruct (ld_pure p acc s2 s3) as [l23| |] eqn:E23; try discriminate.
  inversion H13; inversion H12; inversion H23; subst. rewrite !sum_abs_h.
  rewrite (ld_norm _ p acc s1 s3 l13 (U3 acc s1 s2 s3) eq_refl E13 (U3_nodup _ _ _ _) (U3_1 _ _ _ _) (U3_3 _ _ _ _)).
  rewrite (ld_norm _ p acc s1 s2 l12 (U3 acc s1 s2 s3) eq_refl E12 (U3_nodup _ _ _ _) (U3_1 _ _ _ _) (U3_2 _ _ _ _)).
  rewrite (ld_norm _ p acc s2 s3 l23 (U3 acc s1 s2 s3) eq_refl E23 (U3_nodup _ _ _ _) (U3_2 _ _ _ _) (U3_3 _ _ _ _)).
  rewrite <- zsum_map_add. apply zsum_map_le. intros m _. lia.
Qed.

Lemma wrf_zero_l p acc s1 s2 v :
  wf acc s1 -> wf acc s2 ->
  (forall m, val (kd acc s1) m = val (kd acc s2) m) ->
  wrf p acc s1 s2 = Ok v -> v = 0.
Proof.
  intros W1 W2 Hv H. rewrite (wrf_pure p acc s1 s2 W1 W2) in H.
  destruct (ld_pure p acc s1 s2) as [l| |] eqn:E; try discriminate. inversion H; subst. rewrite sum_abs_h.
  rewrite (ld_norm _ p acc s1 s2 l (U3 acc s1 s2 s2) eq_refl E (U3_nodup _ _ _ _) (U3_1 _ _ _ _) (U3_2 _ _ _ _)).
  apply zsum_map_zero. intros m _. rewrite Hv. lia.
Qed.

Lemma euclid_zero_l p acc s1 s2 v :
  wf acc s1 -> wf acc s2 ->
  (forall m, val (kd acc s1) m = val (kd acc s2) m) ->
  euclid_sq p acc s1 s2 = Ok v -> v = 0.
Proof.
  intros W1 W2 Hv H. rewrite (euclid_pure p acc s1 s2 W1 W2) in H.
  destruct (ld_pure p acc s1 s2) as [l| |] eqn:E; try discriminate. inversion H; subst. rewrite sum_sq_h.
  rewrite (ld_norm _ p acc s1 s2 l (U3 acc s1 s2 s2) eq_refl E (U3_nodup _ _ _ _) (U3_1 _ _ _ _) (U3_2 _ _ _ _)).
  apply zsum_map_zero. intros m _. rewrite Hv. lia.
Qed.

(* ------------------------------------------------------------------------------------------ *)
(* Minkowski without square roots: for A = |x-z|^2, B = |x-y|^2, C = |y-z|^2
   sqrt A <= sqrt B + sqrt C  <=>  A - B - C <= 0 \/ (A - B - C)^2 <= 4 B C *)

Lemma amgm_aux X Y T : 0 <= X -> 0 <= Y -> T * T <= X * Y -> 2 * T <= X + Y.
Proof.
  intros HX HY H. destruct (Z_le_gt_dec (2 * T) (X + Y)) as [|G]; [assumption|exfalso].
  assert (A1 : (X + Y) * (X + Y) < (2 * T) * (2 * T)) by (apply Z.mul_lt_mono_nonneg; lia).
  assert (A2 : (X + Y) * (X + Y) = (X - Y) * (X - Y) + 4 * (X * Y)) by ring.
  assert (A3 : 0 <= (X - Y) * (X - Y)) by apply Z.square_nonneg.
  assert (A4 : (2 * T) * (2 * T) = 4 * (T * T)) by ring. lia.
Qed.

Lemma cauchy_schwarz {A} (u v : A -> Z) l :
  zsum (map (fun x => u x * v x) l) * zsum (map (fun x => u x * v x) l)
  <= zsum (map (fun x => u x * u x) l) * zsum (map (fun x => v x * v x) l).
Proof.
  induction l as [|x r IH]; [simpl; lia|].
  unfold zsum in *. simpl.
  set (S := fold_right Z.add 0 (map (fun x => u x * v x) r)) in *.
  set (P := fold_right Z.add 0 (map (fun x => u x * u x) r)) in *.
  set (Q := fold_right Z.add 0 (map (fun x => v x * v x) r)) in *.
  assert (HP : 0 <= P) by (apply (zsum_map_nonneg (fun x => u x * u x) r); intro; nia).
  assert (HQ : 0 <= Q) by (apply (zsum_map_nonneg (fun x => v x * v x) r); intro; nia).
  set (a := u x). set (b := v x).
  assert (Ha : 0 <= a * a) by nia. assert (Hb : 0 <= b * b) by nia.
  assert (HX : 0 <= a * a * Q) by (apply Z.mul_nonneg_nonneg; assumption).
  assert (HY : 0 <= b * b * P) by (apply Z.mul_nonneg_nonneg; assumption).
  assert (HT : (a * b * S) * (a * b * S) <= (a * a * Q) * (b * b * P)).
  { replace ((a * b * S) * (a * b * S)) with ((a * a) * (b * b) * (S * S)) by ring.
    replace ((a * a * Q) * (b * b * P)) with ((a * a) * (b * b) * (P * Q)) by ring.
    apply Z.mul_le_mono_nonneg_l; [apply Z.mul_nonneg_nonneg; assumption | exact IH]. }
  pose proof (amgm_aux _ _ _ HX HY HT) as K.
  replace ((a * b + S) * (a * b + S)) with (a * a * (b * b) + 2 * (a * b * S) + S * S) by ring.
  replace ((a * a + P) * (b * b + Q)) with (a * a * (b * b) + (a * a * Q + b * b * P) + P * Q) by ring.
  lia.
Qed.

Lemma minkowski_sq {A} (x y z : A -> Z) l :
  let Aa := zsum (map (fun k => (x k - z k) * (x k - z k)) l) in
  let B := zsum (map (fun k => (x k - y k) * (x k - y k)) l) in
  let C := zsum (map (fun k => (y k - z k) * (y k - z k)) l) in
  Aa - B - C <= 0 \/ (Aa - B - C) * (Aa - B - C) <= 4 * B * C.
Proof.
  intros Aa B C. right.
  assert (E : Aa - B - C = 2 * zsum (map (fun k => (x k - y k) * (y k - z k)) l)).
  { unfold Aa, B, C. clear. induction l as [|k r IH]; unfold zsum in *; cbn [map fold_right]; [reflexivity|].
    assert (P : forall a b c, (a - c) * (a - c) - (a - b) * (a - b) - (b - c) * (b - c) = 2 * ((a - b) * (b - c)))
      by (intros; ring).
    specialize (P (x k) (y k) (z k)). lia. }
  rewrite E.
  pose proof (cauchy_schwarz (fun k => x k - y k) (fun k => y k - z k) l) as CS.
  set (S := zsum (map (fun k => (x k - y k) * (y k - z k)) l)) in *.
  assert (CS' : S * S <= B * C) by exact CS.
  replace (2 * S * (2 * S)) with (4 * (S * S)) by ring. lia.
Qed.

Lemma euclid_triangle_l p acc s1 s2 s3 d13 d12 d23 :
  wf acc s1 -> wf acc s2 -> wf acc s3 ->
  euclid_sq p acc s1 s3 = Ok d13 -> euclid_sq p acc s1 s2 = Ok d12 -> euclid_sq p acc s2 s3 = Ok d23 ->
  d13 - d12 - d23 <= 0 \/ (d13 - d12 - d23) * (d13 - d12 - d23) <= 4 * d12 * d23.
Proof.
  intros W1 W2 W3 H13 H12 H23.
  rewrite (euclid_pure p acc s1 s3 W1 W3) in H13. rewrite (euclid_pure p acc s1 s2 W1 W2) in H12.
  rewrite (euclid_pure p acc s2 s3 W2 W3) in H23.
  destruct (ld_pure p acc s1 s3) as [l13| |] eqn:E13; try discriminate.
  destruct (ld_pure p acc s1 s2) as [l12| |] eqn:E12; try discriminate.
  destruct (ld_pure p acc s2 s3) as [l23| |] eqn:E23; try discriminate.
  inversion H13; inversion H12; inversion H23; subst. rewrite !sum_sq_h.
  rewrite (ld_norm _ p acc s1 s3 l13 (U3 acc s1 s2 s3) eq_refl E13 (U3_nodup _ _ _ _) (U3_1 _ _ _ _) (U3_3 _ _ _ _)).
  rewrite (ld_norm _ p acc s1 s2 l12 (U3 acc s1 s2 s3) eq_refl E12 (U3_nodup _ _ _ _) (U3_1 _ _ _ _) (U3_2 _ _ _ _)).
  rewrite (ld_norm _ p acc s2 s3 l23 (U3 acc s1 s2 s3) eq_refl E23 (U3_nodup _ _ _ _) (U3_2 _ _ _ _) (U3_3 _ _ _ _)).
  apply (minkowski_sq (val (kd acc s1)) (val (kd acc s2)) (val (kd acc s3)) (U3 acc s1 s2 s3)).
Qed.

(* ------------------------------------------------------------------------------------------ *)
(* definedness *)

Lemma wrf_defined_iff p acc s1 s2 :
  wf acc s1 -> wf acc s2 ->
  ((exists v, wrf p acc s1 s2 = Ok v) <-> is_ok (ld_pure p acc s1 s2) = true).
Proof.
  intros W1 W2. rewrite (wrf_pure p acc s1 s2 W1 W2).
  destruct (ld_pure p acc s1 s2); simpl; split; try discriminate; try (intros [v H]; discriminate); eauto.
Qed.

Lemma euclid_defined_iff p acc s1 s2 :
  wf acc s1 -> wf acc s2 ->
  ((exists v, euclid_sq p acc s1 s2 = Ok v) <-> is_ok (ld_pure p acc s1 s2) = true).
Proof.
  intros W1 W2. rewrite (euclid_pure p acc s1 s2 W1 W2).
  destruct (ld_pure p acc s1 s2); simpl; split; try discriminate; try (intros [v H]; discriminate); eauto.
Qed.

Lemma ld_pure_sym_defined p acc s1 s2 :
  p <> Current -> is_ok (ld_pure p acc s1 s2) = is_ok (ld_pure p acc s2 s1).
Proof. intro Hp. unfold ld_pure. apply length_diffs_defined_sym; [exact Hp| |]; apply dict_of_nodup. Qed.

Lemma defined_sym_l p acc s1 s2 :
  p <> Current -> wf acc s1 -> wf acc s2 ->
  ((exists v, wrf p acc s1 s2 = Ok v) <-> (exists v, wrf p acc s2 s1 = Ok v)) /\
  ((exists v, euclid_sq p acc s1 s2 = Ok v) <-> (exists v, euclid_sq p acc s2 s1 = Ok v)).
Proof.
  intros Hp W1 W2.
  rewrite (wrf_defined_iff p acc s1 s2 W1 W2), (wrf_defined_iff p acc s2 s1 W2 W1).
  rewrite (euclid_defined_iff p acc s1 s2 W1 W2), (euclid_defined_iff p acc s2 s1 W2 W1).
  rewrite (ld_pure_sym_defined p acc s1 s2 Hp). tauto.
Qed.

(* when it is not defined it is a ValueError, never anything else *)
Lemma wrf_only_value_error p acc s1 s2 :
  wf acc s1 -> wf acc s2 ->
  (exists v, wrf p acc s1 s2 = Ok v) \/ wrf p acc s1 s2 = Err ValueErr.
Proof.
  intros W1 W2. rewrite (wrf_pure p acc s1 s2 W1 W2). unfold ld_pure.
  destruct (length_diffs p _ _ (dict_of (entries acc s1)) (dict_of (entries acc s2))) as [l|e|] eqn:E.
  - left. eauto.
  - right. apply length_diffs_err in E. subst. reflexivity.
  - exfalso. eapply length_diffs_no_fuel, E.
Qed.

(* the current code: exactly the shared splits whose edge on the SECOND tree has no length (and is
   not the seed edge) make it refuse *)
Lemma wrf_current_defined acc s1 s2 :
  wf acc s1 -> wf acc s2 ->
  ((exists v, wrf Current acc s1 s2 = Ok v) <->
   (forall m x, In (m, x) (kd acc s2) -> In m (splits acc s1) -> refusable x = false)).
Proof.
  intros W1 W2. rewrite (wrf_defined_iff Current acc s1 s2 W1 W2). unfold ld_pure.
  rewrite (length_diffs_defined Current _ _ (dict_of_nodup _) (dict_of_nodup _)). fold (kd acc s1) (kd acc s2). split.
  - intros [_ Hb] m x Hin Hm. specialize (Hb (m, x) Hin). cbn [fst snd] in Hb.
    assert (Em : memz m (keys (kd acc s1)) = true).
    { apply memz_In. unfold kd. apply dict_of_keys. exact Hm. }
    rewrite Em in Hb. unfold sok in Hb. rewrite strict_ok in Hb. destruct (refusable x); [discriminate|reflexivity].
  - intro H. split.
    + intros kx _. unfold lok. rewrite lenient_ok. reflexivity.
    + intros [m x] Hin. cbn [fst snd]. destruct (memz m (keys (kd acc s1))) eqn:Em.
      * unfold sok. rewrite strict_ok. apply (proj1 (memz_In _ _)) in Em. unfold kd in Em. apply (proj1 (dict_of_keys _ m)) in Em.
        rewrite (H m x Hin Em). reflexivity.
      * unfold lok. rewrite lenient_ok. reflexivity.
Qed.

(* ------------------------------------------------------------------------------------------ *)
(* namespaces *)

Lemma namespace_mismatch_l p w a b sa sb upd :
  get_t w a = Ok sa -> get_t w b = Ok sb -> ts_ns sa <> ts_ns sb ->
  do_fpfn w a b upd = (Err ValueErr, w) /\
  do_symdiff w a b upd = (Err ValueErr, w) /\
  do_missing w a b upd = (Err ValueErr, w) /\
  do_wrf p w a b upd = (Err ValueErr, w) /\
  do_euclid_sq p w a b upd = (Err ValueErr, w).
Proof.
  intros Ha Hb Hns.
  unfold do_symdiff, do_wrf, do_euclid_sq, do_length_diffs, do_fpfn, do_missing.
  rewrite (prologue_ns_mismatch w a b sa sb upd Ha Hb Hns). repeat split; reflexivity.
Qed.

(* ------------------------------------------------------------------------------------------ *)
(* default arguments: whatever was cached, the result is the one of two fresh trees with the
   current structures, and the trees are left normalised *)

Lemma structs_after w a b sa sb sa' sb' :
  a <> b -> get_t w a = Ok sa -> get_t w b = Ok sb ->
  let w' := set_t (set_t w a sa') b sb' in
  get_t w' a = Ok sa' /\ get_t w' b = Ok sb' /\ (forall c, c <> a -> c <> b -> get_t w' c = get_t w c).
Proof.
  intros Hab Ha Hb w'. unfold w'. repeat split.
  - rewrite get_set_other by congruence. eapply get_set_same, Ha.
  - eapply get_set_same. rewrite get_set_other by exact Hab. exact Hb.
  - intros c Ca Cb. rewrite !get_set_other by congruence. reflexivity.
Qed.

Lemma default_args_fresh_l p w a b sa sb :
  a <> b -> get_t w a = Ok sa -> get_t w b = Ok sb -> ts_ns sa = ts_ns sb ->
  wf (w_acc w) (ts_struct sa) -> wf (w_acc w) (ts_struct sb) ->
  let acc := w_acc w in
  let s1 := ts_struct sa in
  let s2 := ts_struct sb in
  fst (do_fpfn w a b false) = fpfn acc s1 s2 /\
  fst (do_symdiff w a b false) = rf acc s1 s2 /\
  fst (do_missing w a b false) = missing acc s1 s2 /\
  fst (do_wrf p w a b false) = wrf p acc s1 s2 /\
  fst (do_euclid_sq p w a b false) = euclid_sq p acc s1 s2 /\
  (forall w', w' = snd (do_fpfn w a b false) \/ w' = snd (do_symdiff w a b false) \/ w' = snd (do_missing w a b false)
              \/ w' = snd (do_wrf p w a b false) \/ w' = snd (do_euclid_sq p w a b false) ->
     (exists sa' sb', get_t w' a = Ok sa' /\ get_t w' b = Ok sb' /\
        ts_struct sa' = normalise s1 /\ ts_struct sb' = normalise s2) /\
     (forall c, c <> a -> c <> b -> get_t w' c = get_t w c)).
Proof.
  intros Hab Ha Hb Hns W1 W2 acc s1 s2.
  destruct W1 as [K1 [F1 I1]] eqn:EW1. destruct W2 as [K2 [F2 I2]] eqn:EW2.
  assert (W1' : wf acc s1) by (repeat split; assumption).
  assert (W2' : wf acc s2) by (repeat split; assumption).
  rewrite (fpfn_fresh w a b sa sb Hab Ha Hb Hns K1 K2 F1 F2).
  unfold do_symdiff, do_wrf, do_euclid_sq.
  rewrite (fpfn_fresh w a b sa sb Hab Ha Hb Hns K1 K2 F1 F2).
  rewrite (missing_fresh w a b sa sb Hab Ha Hb Hns K1 K2).
  rewrite (length_diffs_fresh p w a b sa sb Hab Ha Hb Hns W1' W2').
  cbn [wbind fst snd]. fold acc s1 s2.
  rewrite (fpfn_pure acc s1 s2 K1 K2 F1 F2), (rf_pure acc s1 s2 K1 K2 F1 F2), (missing_pure acc s1 s2 K1 K2).
  rewrite (wrf_pure p acc s1 s2 W1' W2'), (euclid_pure p acc s1 s2 W1' W2').
  repeat split; try reflexivity.
  - destruct (ld_pure p acc s1 s2); reflexivity.
  - destruct (ld_pure p acc s1 s2); reflexivity.
  - assert (G : w' = set_t (set_t w a (enc_state acc sa)) b (enc_state acc sb)
                \/ w' = set_t (set_t w a (bmap_state acc sa)) b (bmap_state acc sb)).
    { destruct H as [H|[H|[H|[H|H]]]]; try (left; exact H);
        destruct (ld_pure p acc s1 s2); right; exact H. }
    destruct G as [G|G]; subst w'.
    + destruct (structs_after w a b sa sb (enc_state acc sa) (enc_state acc sb) Hab Ha Hb) as [G1 [G2 _]].
      exists (enc_state acc sa), (enc_state acc sb). repeat split; try assumption; apply enc_state_struct.
    + destruct (structs_after w a b sa sb (bmap_state acc sa) (bmap_state acc sb) Hab Ha Hb) as [G1 [G2 _]].
      exists (bmap_state acc sa), (bmap_state acc sb). repeat split; try assumption; apply bmap_state_struct.
  - intros c Ca Cb.
    assert (G : w' = set_t (set_t w a (enc_state acc sa)) b (enc_state acc sb)
                \/ w' = set_t (set_t w a (bmap_state acc sa)) b (bmap_state acc sb)).
    { destruct H as [H|[H|[H|[H|H]]]]; try (left; exact H);
        destruct (ld_pure p acc s1 s2); right; exact H. }
    destruct G as [G|G]; subst w'; rewrite !get_set_other by congruence; reflexivity.
Qed.

(* ================================================================================================ *)
(* from C04Redraw *)


(* one reordering step: the children of one node (anywhere in the tree) are permuted *)
Inductive redraw1 : tree -> tree -> Prop :=
| R_here i x l e ks ks' : Permutation ks ks' -> redraw1 (T i x l e ks) (T i x l e ks')
| R_below i x l e pre k k' post :
    redraw1 k k' -> redraw1 (T i x l e (pre ++ k :: post)) (T i x l e (pre ++ k' :: post)).

(* a re-drawing: any number of steps *)
Definition redraw : tree -> tree -> Prop := clos_refl_trans tree redraw1.

(* ------------------------------------------------------------------------------------------ *)

Definition body (acc : acc_map) (t : tree) : list (Z * (Z * (option Z * bool))) :=
  flat_map (pnodes acc false) (t_kids t).

Lemma pnodes_body acc b t : pnodes acc b t = body acc t ++ [(t_id t, (lmask acc t, (t_len t, b)))].
Proof. destruct t. reflexivity. Qed.

Lemma suppress_unfold i x l e ks :
  suppress (T i x l e ks)
  = match ks with
    | [k] => set_len (suppress k) (merge_len e (t_len (suppress k)))
    | _ => T i x l e (map suppress ks)
    end.
Proof. destruct ks as [|k [|k2 r]]; reflexivity. Qed.

Lemma lmask_set_len acc t e : lmask acc (set_len t e) = lmask acc t.
Proof. destruct t as [i x l e0 [|k r]]; reflexivity. Qed.

Lemma body_set_len acc t e : body acc (set_len t e) = body acc t.
Proof. destruct t. reflexivity. Qed.

Lemma id_set_len t e : t_id (set_len t e) = t_id t.
Proof. destruct t. reflexivity. Qed.

Lemma len_set_len t e : t_len (set_len t e) = e.
Proof. destruct t. reflexivity. Qed.

Lemma kids_set_len t e : t_kids (set_len t e) = t_kids t.
Proof. destruct t. reflexivity. Qed.

Definition lor_all (l : list Z) : Z := fold_right Z.lor 0 l.

Lemma lmask_node acc i x l e ks :
  ks <> [] -> lmask acc (T i x l e ks) = lor_all (map (lmask acc) ks).
Proof.
  intro H. destruct ks as [|k r]; [congruence|]. cbn [lmask]. unfold lor_all.
  generalize (k :: r). intro ks. induction ks as [|a b IH]; simpl; [reflexivity|]. rewrite IH. reflexivity.
Qed.

Lemma lor_all_perm l l' : Permutation l l' -> lor_all l = lor_all l'.
Proof.
  induction 1; unfold lor_all in *; simpl.
  - reflexivity.
  - rewrite IHPermutation. reflexivity.
  - rewrite !Z.lor_assoc, (Z.lor_comm y x). reflexivity.
  - congruence.
Qed.

(* what matters of a (sub)tree once unifurcations are suppressed *)
Record same_up_to_order (acc : acc_map) (a b : tree) : Prop := {
  so_id : t_id a = t_id b;
  so_len : t_len a = t_len b;
  so_mask : lmask acc a = lmask acc b;
  so_body : Permutation (body acc a) (body acc b)
}.

Lemma so_refl acc a : same_up_to_order acc a a.
Proof. constructor; try reflexivity. Qed.

Lemma so_pnodes acc b t t' : same_up_to_order acc t t' -> Permutation (pnodes acc b t) (pnodes acc b t').
Proof.
  intros [E1 E2 E3 E4]. rewrite !pnodes_body, E1, E2, E3. apply Permutation_app_tail. exact E4.
Qed.

Lemma so_set_len acc t t' e : same_up_to_order acc t t' -> same_up_to_order acc (set_len t e) (set_len t' e).
Proof.
  intros [E1 E2 E3 E4]. constructor.
  - rewrite !id_set_len. exact E1.
  - rewrite !len_set_len. reflexivity.
  - rewrite !lmask_set_len. exact E3.
  - rewrite !body_set_len. exact E4.
Qed.

Lemma Permutation_singleton_l {A} (a : A) l : Permutation [a] l -> l = [a].
Proof. intro H. apply Permutation_length_1_inv in H. exact H. Qed.

Lemma flat_map_perm {A B} (f : A -> list B) l l' : Permutation l l' -> Permutation (flat_map f l) (flat_map f l').
Proof.
  induction 1; simpl.
  - constructor.
  - apply Permutation_app_head. assumption.
  - rewrite !app_assoc. apply Permutation_app_tail. apply Permutation_app_comm.
  - eapply perm_trans; eassumption.
Qed.

Lemma suppress_many i x l e ks :
  (2 <= length ks)%nat -> suppress (T i x l e ks) = T i x l e (map suppress ks).
Proof. destruct ks as [|a [|b r]]; simpl; intro H; try lia; reflexivity. Qed.

(* the invariant of one reordering step *)
Lemma redraw1_suppress acc t t' : redraw1 t t' -> same_up_to_order acc (suppress t) (suppress t').
Proof.
  induction 1 as [i x l e ks ks' HP | i x l e pre k k' post Hr IH].
  - destruct ks as [|k1 [|k2 r]].
    + apply Permutation_nil in HP. subst. apply so_refl.
    + apply Permutation_singleton_l in HP. subst. apply so_refl.
    + assert (L : length ks' = length (k1 :: k2 :: r)) by (symmetry; apply Permutation_length, HP).
      rewrite !suppress_many by (rewrite ?L; simpl; lia).
      assert (HM : Permutation (map suppress (k1 :: k2 :: r)) (map suppress ks')) by (apply Permutation_map, HP).
      assert (N1 : map suppress (k1 :: k2 :: r) <> []) by discriminate.
      assert (N2 : map suppress ks' <> []).
      { intro E. apply map_eq_nil in E. subst. discriminate. }
      constructor; try reflexivity.
      * rewrite !lmask_node by assumption. apply lor_all_perm. apply Permutation_map. exact HM.
      * unfold body. cbn [t_kids]. apply flat_map_perm. exact HM.
  - destruct pre as [|p1 pre'], post as [|q1 post'].
    + cbn [app]. rewrite !suppress_unfold. rewrite (so_len _ _ _ IH). apply so_set_len. exact IH.
    + rewrite !suppress_many by (rewrite app_length; simpl; lia).
      constructor; try reflexivity.
      * rewrite !lmask_node by discriminate. cbn [app map]. unfold lor_all. cbn [fold_right]. rewrite (so_mask _ _ _ IH). reflexivity.
      * unfold body. cbn [t_kids app map flat_map]. apply Permutation_app_tail. apply so_pnodes. exact IH.
    + rewrite !suppress_many by (rewrite app_length; simpl; lia).
      constructor; try reflexivity.
      * rewrite !lmask_node by discriminate. rewrite !map_app. cbn [map].
        unfold lor_all. rewrite !fold_right_app. cbn [fold_right]. rewrite (so_mask _ _ _ IH). reflexivity.
      * unfold body. cbn [t_kids]. rewrite !map_app. cbn [map]. rewrite !flat_map_app. cbn [flat_map].
        apply Permutation_app_head. apply Permutation_app_tail. apply so_pnodes. exact IH.
    + rewrite !suppress_many by (rewrite app_length; simpl; lia).
      constructor; try reflexivity.
      * rewrite !lmask_node by discriminate. rewrite !map_app. cbn [map].
        unfold lor_all. rewrite !fold_right_app. cbn [fold_right]. rewrite (so_mask _ _ _ IH). reflexivity.
      * unfold body. cbn [t_kids]. rewrite !map_app. cbn [map]. rewrite !flat_map_app. cbn [flat_map].
        apply Permutation_app_head. apply Permutation_app_tail. apply so_pnodes. exact IH.
Qed.

(* ------------------------------------------------------------------------------------------ *)
(* one step, on structures whose basal bifurcation (if any) is not collapsed *)

Definition no_basal (s : struct) : Prop := is_true (snd s) = true \/ nkids (fst s) <> 2%nat.

Lemma normalise_no_basal s : no_basal s -> normalise s = (suppress (fst s), snd s).
Proof.
  destruct s as [t r]. unfold no_basal, normalise, basal_step. cbn [fst snd]. intros [H|H].
  - rewrite H. reflexivity.
  - apply Nat.eqb_neq in H. rewrite H, andb_false_r. reflexivity.
Qed.

Lemma nkids_redraw1 t t' : redraw1 t t' -> nkids t' = nkids t.
Proof.
  destruct 1 as [i x l e ks ks' HP | i x l e pre k k' post Hr]; unfold nkids; cbn [t_kids].
  - symmetry. apply Permutation_length, HP.
  - rewrite !app_length. reflexivity.
Qed.

Lemma leaf_taxa_node i x l e ks : ks <> [] -> leaf_taxa (T i x l e ks) = flat_map leaf_taxa ks.
Proof. destruct ks; [congruence|reflexivity]. Qed.

Lemma leaf_taxa_redraw1 t t' : redraw1 t t' -> Permutation (leaf_taxa t) (leaf_taxa t').
Proof.
  induction 1 as [i x l e ks ks' HP | i x l e pre k k' post Hr IH].
  - destruct ks as [|k1 r].
    + apply Permutation_nil in HP. subst. apply Permutation_refl.
    + assert (N : ks' <> []).
      { intro E. subst. apply Permutation_sym, Permutation_nil in HP. discriminate. }
      rewrite !leaf_taxa_node by (try exact N; discriminate). apply flat_map_perm, HP.
  - rewrite !leaf_taxa_node by (destruct pre; discriminate).
    rewrite !flat_map_app. cbn [flat_map]. apply Permutation_app_head, Permutation_app_tail, IH.
Qed.

Lemma forallb_perm {A} (f : A -> bool) l l' : Permutation l l' -> forallb f l = forallb f l'.
Proof.
  induction 1; simpl; try congruence.
  destruct (f x), (f y); reflexivity.
Qed.

Lemma taxa_known_redraw1 acc t t' : redraw1 t t' -> taxa_known acc t' = taxa_known acc t.
Proof. intro H. unfold taxa_known. symmetry. apply forallb_perm, leaf_taxa_redraw1, H. Qed.

Lemma entries_redraw1 acc r t t' :
  redraw1 t t' -> no_basal (t, r) ->
  no_basal (t', r) /\
  lmask acc (fst (normalise (t', r))) = lmask acc (fst (normalise (t, r))) /\
  Permutation (pnodes acc true (fst (normalise (t, r)))) (pnodes acc true (fst (normalise (t', r)))) /\
  Permutation (entries acc (t, r)) (entries acc (t', r)).
Proof.
  intros H NB.
  assert (NB' : no_basal (t', r)).
  { destruct NB as [NB|NB]; [left; exact NB|right]. cbn [fst] in *. rewrite (nkids_redraw1 t t' H). exact NB. }
  pose proof (redraw1_suppress acc t t' H) as SO.
  rewrite (normalise_no_basal _ NB), (normalise_no_basal _ NB'). cbn [fst snd].
  repeat split.
  - exact NB'.
  - symmetry. apply (so_mask _ _ _ SO).
  - apply so_pnodes, SO.
  - unfold entries. rewrite (normalise_no_basal _ NB), (normalise_no_basal _ NB'). unfold entries_n. cbn [fst snd].
    rewrite (so_mask _ _ _ SO). apply Permutation_map. apply so_pnodes, SO.
Qed.

(* ------------------------------------------------------------------------------------------ *)
(* structures with the same entries up to order are interchangeable *)

Lemma zlookup_perm {V} (l l' : list (Z * V)) k :
  Permutation l l' -> NoDup (keys l) -> zlookup k l = zlookup k l'.
Proof.
  intros HP HN.
  assert (HN' : NoDup (keys l')) by (eapply Permutation_NoDup; [apply Permutation_map, HP | exact HN]).
  destruct (zlookup k l) as [v|] eqn:E.
  - apply zlookup_In in E. symmetry. apply zlookup_nodup; [exact HN'|]. eapply Permutation_in; eassumption.
  - symmetry. apply zlookup_None. apply zlookup_None in E. intro H. apply E.
    eapply Permutation_in; [apply Permutation_sym, Permutation_map, HP | exact H].
Qed.

Definition same_dict (d d' : list (Z * einfo)) : Prop :=
  NoDup (keys d) /\ NoDup (keys d') /\ (forall x, In x d <-> In x d').

Lemma same_dict_keys d d' k : same_dict d d' -> (In k (keys d) <-> In k (keys d')).
Proof.
  intros [_ [_ H]]. unfold keys. rewrite !in_map_iff. split; intros [x [E Hx]]; exists x; split; try exact E; apply H, Hx.
Qed.

Lemma same_dict_memz d d' k : same_dict d d' -> memz k (keys d) = memz k (keys d').
Proof.
  intro H. destruct (memz k (keys d)) eqn:E1, (memz k (keys d')) eqn:E2; try reflexivity.
  - apply memz_In in E1. apply memz_false in E2. exfalso. apply E2. apply (same_dict_keys d d' k H), E1.
  - apply memz_In in E2. apply memz_false in E1. exfalso. apply E1. apply (same_dict_keys d d' k H), E2.
Qed.

Lemma same_dict_val d d' k : same_dict d d' -> val d k = val d' k.
Proof.
  intros [N [N' H]]. unfold val.
  destruct (zlookup k d) as [x|] eqn:E.
  - apply zlookup_In in E. apply H in E. rewrite (zlookup_nodup k x d' N' E). reflexivity.
  - destruct (zlookup k d') as [x'|] eqn:E'; [|reflexivity].
    apply zlookup_In in E'. apply H in E'. rewrite (zlookup_nodup k x' d N E') in E. discriminate.
Qed.

Lemma ld_same_dict (h : Z -> Z -> Z) p d1 d1' d2 d2' :
  h 0 0 = 0 -> same_dict d1 d1' -> same_dict d2 d2' ->
  match length_diffs p (fun x => Ok x) (fun x => Ok x) d1 d2 with
  | Ok l => Ok (sum_h h l) | Err e => Err e | OutOfFuel => OutOfFuel end
  = match length_diffs p (fun x => Ok x) (fun x => Ok x) d1' d2' with
    | Ok l => Ok (sum_h h l) | Err e => Err e | OutOfFuel => OutOfFuel end.
Proof.
  intros h0 S1 S2.
  pose proof S1 as [N1 [N1' H1]]. pose proof S2 as [N2 [N2' H2]].
  assert (D : is_ok (length_diffs p (fun x => Ok x) (fun x => Ok x) d1 d2) = true
              <-> is_ok (length_diffs p (fun x => Ok x) (fun x => Ok x) d1' d2') = true).
  { rewrite (length_diffs_defined p d1 d2 N1 N2), (length_diffs_defined p d1' d2' N1' N2'). split.
    - intros [A B]. split.
      + intros kx Hkx. apply A, H1, Hkx.
      + intros kx Hkx. rewrite <- (same_dict_memz d1 d1' (fst kx) S1). apply B, H2, Hkx.
    - intros [A B]. split.
      + intros kx Hkx. apply A, H1, Hkx.
      + intros kx Hkx. rewrite (same_dict_memz d1 d1' (fst kx) S1). apply B, H2, Hkx. }
  destruct (length_diffs p _ _ d1 d2) as [l|e|] eqn:E; destruct (length_diffs p _ _ d1' d2') as [l'|e'|] eqn:E'; simpl in D.
  - f_equal.
    set (U := dedup (keys d1 ++ keys d2)).
    assert (HU : NoDup U) by apply dedup_NoDup.
    assert (I1 : incl (keys d1) U) by (intros k Hk; apply dedup_In; rewrite in_app_iff; tauto).
    assert (I2 : incl (keys d2) U) by (intros k Hk; apply dedup_In; rewrite in_app_iff; tauto).
    assert (I1' : incl (keys d1') U) by (intros k Hk; apply I1, (same_dict_keys d1 d1' k S1), Hk).
    assert (I2' : incl (keys d2') U) by (intros k Hk; apply I2, (same_dict_keys d2 d2' k S2), Hk).
    rewrite (length_diffs_norm h p d1 d2 l U h0 N1 N2 E HU I1 I2).
    rewrite (length_diffs_norm h p d1' d2' l' U h0 N1' N2' E' HU I1' I2').
    apply zsum_map_ext. intros k _. rewrite (same_dict_val d1 d1' k S1), (same_dict_val d2 d2' k S2). reflexivity.
  - exfalso. destruct D as [D _]. specialize (D eq_refl). discriminate.
  - exfalso. destruct D as [D _]. specialize (D eq_refl). discriminate.
  - exfalso. destruct D as [_ D]. specialize (D eq_refl). discriminate.
  - apply length_diffs_err in E. apply length_diffs_err in E'. subst. reflexivity.
  - exfalso. eapply length_diffs_no_fuel, E'.
  - exfalso. eapply length_diffs_no_fuel, E.
  - exfalso. eapply length_diffs_no_fuel, E.
  - exfalso. eapply length_diffs_no_fuel, E.
Qed.

Lemma same_dict_refl d : NoDup (keys d) -> same_dict d d.
Proof. intro H. repeat split; try exact H; tauto. Qed.

Lemma same_dict_of_perm acc s s' :
  Permutation (entries acc s) (entries acc s') -> NoDup (splits acc s) -> same_dict (kd acc s) (kd acc s').
Proof.
  intros HP HN.
  assert (HN' : NoDup (splits acc s')) by (eapply Permutation_NoDup; [apply Permutation_map, HP | exact HN]).
  unfold kd. rewrite !dict_of_id by assumption. repeat split; try assumption.
  - intro H. eapply Permutation_in; eassumption.
  - intro H. eapply Permutation_in; [apply Permutation_sym, HP | exact H].
Qed.

(* all five functions agree on two structures with the same entries up to order *)
Definition interchangeable (acc : acc_map) (s s' : struct) : Prop :=
  forall p s2, wf acc s2 ->
    fpfn acc s s2 = fpfn acc s' s2 /\ fpfn acc s2 s = fpfn acc s2 s' /\
    rf acc s s2 = rf acc s' s2 /\ rf acc s2 s = rf acc s2 s' /\
    wrf p acc s s2 = wrf p acc s' s2 /\ wrf p acc s2 s = wrf p acc s2 s' /\
    euclid_sq p acc s s2 = euclid_sq p acc s' s2 /\ euclid_sq p acc s2 s = euclid_sq p acc s2 s'.

Lemma diff_count_same_sets a a' b b' :
  (forall x, In x a <-> In x a') -> (forall x, In x b <-> In x b') -> diff_count a b = diff_count a' b'.
Proof.
  intros Ha Hb.
  rewrite (diff_count_spec a b (dedup a) (dedup b) (dedup_NoDup a) (fun x => dedup_In x a) (fun x => dedup_In x b)).
  rewrite (diff_count_spec a' b' (dedup a) (dedup b) (dedup_NoDup a)).
  - reflexivity.
  - intro x. rewrite dedup_In. apply Ha.
  - intro x. rewrite dedup_In. apply Hb.
Qed.

Lemma interchangeable_of_perm acc s s' :
  wf acc s -> wf acc s' -> NoDup (splits acc s) ->
  Permutation (entries acc s) (entries acc s') -> interchangeable acc s s'.
Proof.
  intros W W' HN HP p s2 W2.
  pose proof (same_dict_of_perm acc s s' HP HN) as SD.
  pose proof (same_dict_refl (kd acc s2) (dict_of_nodup _)) as SR.
  assert (Hs : forall x, In x (splits acc s) <-> In x (splits acc s')).
  { intro x. split; intro H; [eapply Permutation_in; [apply Permutation_map, HP|exact H]
                            | eapply Permutation_in; [apply Permutation_sym, Permutation_map, HP|exact H]]. }
  assert (Hr : forall x, In x (splits acc s2) <-> In x (splits acc s2)) by tauto.
  destruct W as [K [F I]], W' as [K' [F' I']]. pose proof W2 as [K2 [F2 I2]].
  assert (Ws : wf acc s) by (repeat split; assumption).
  assert (Ws' : wf acc s') by (repeat split; assumption).
  rewrite !fpfn_pure, !rf_pure by assumption.
  rewrite !wrf_pure, !euclid_pure by assumption.
  rewrite (diff_count_same_sets (splits acc s2) (splits acc s2) (splits acc s) (splits acc s') Hr Hs).
  rewrite (diff_count_same_sets (splits acc s) (splits acc s') (splits acc s2) (splits acc s2) Hs Hr).
  unfold ld_pure. fold (kd acc s) (kd acc s') (kd acc s2).
  pose proof (ld_same_dict (fun a b => Z.abs (a - b)) p _ _ _ _ eq_refl SD SR) as A1.
  pose proof (ld_same_dict (fun a b => Z.abs (a - b)) p _ _ _ _ eq_refl SR SD) as A2.
  pose proof (ld_same_dict (fun a b => (a - b) * (a - b)) p _ _ _ _ eq_refl SD SR) as B1.
  pose proof (ld_same_dict (fun a b => (a - b) * (a - b)) p _ _ _ _ eq_refl SR SD) as B2.
  repeat split; try reflexivity.
  - destruct (length_diffs p _ _ (kd acc s) (kd acc s2)), (length_diffs p _ _ (kd acc s') (kd acc s2));
      rewrite ?sum_abs_h; exact A1.
  - destruct (length_diffs p _ _ (kd acc s2) (kd acc s)), (length_diffs p _ _ (kd acc s2) (kd acc s'));
      rewrite ?sum_abs_h; exact A2.
  - destruct (length_diffs p _ _ (kd acc s) (kd acc s2)), (length_diffs p _ _ (kd acc s') (kd acc s2));
      rewrite ?sum_sq_h; exact B1.
  - destruct (length_diffs p _ _ (kd acc s2) (kd acc s)), (length_diffs p _ _ (kd acc s2) (kd acc s'));
      rewrite ?sum_sq_h; exact B2.
Qed.

(* ------------------------------------------------------------------------------------------ *)
(* any number of steps *)

Lemma redraw1_transfer acc r t t' :
  redraw1 t t' -> no_basal (t, r) -> wf acc (t, r) -> NoDup (splits acc (t, r)) ->
  no_basal (t', r) /\ wf acc (t', r) /\ NoDup (splits acc (t', r)) /\
  Permutation (entries acc (t, r)) (entries acc (t', r)).
Proof.
  intros H NB [K [F I]] HN.
  destruct (entries_redraw1 acc r t t' H NB) as [NB' [EM [PN PE]]].
  repeat split.
  - exact NB'.
  - cbn [fst] in *. rewrite (taxa_known_redraw1 acc t t' H). exact K.
  - unfold frozen_ok in *. rewrite EM. exact F.
  - unfold ids_ok in *. eapply Permutation_NoDup; [apply Permutation_map, PN | exact I].
  - eapply Permutation_NoDup; [apply Permutation_map, PE | exact HN].
  - exact PE.
Qed.

Lemma redraw_transfer acc r t t' :
  redraw t t' -> no_basal (t, r) -> wf acc (t, r) -> NoDup (splits acc (t, r)) ->
  no_basal (t', r) /\ wf acc (t', r) /\ NoDup (splits acc (t', r)) /\
  Permutation (entries acc (t, r)) (entries acc (t', r)).
Proof.
  induction 1 as [t t' H | t | t t1 t' H1 IH1 H2 IH2]; intros NB W HN.
  - apply redraw1_transfer; assumption.
  - repeat split; try assumption; try apply W. apply Permutation_refl.
  - destruct (IH1 NB W HN) as [NB1 [W1 [HN1 P1]]]. destruct (IH2 NB1 W1 HN1) as [NB2 [W2 [HN2 P2]]].
    repeat split; try assumption; try apply W2. eapply perm_trans; eassumption.
Qed.

Theorem child_order_invariant_l acc r t t' :
  redraw t t' -> no_basal (t, r) -> wf acc (t, r) -> NoDup (splits acc (t, r)) ->
  interchangeable acc (t, r) (t', r).
Proof.
  intros H NB W HN. destruct (redraw_transfer acc r t t' H NB W HN) as [_ [W' [_ P]]].
  apply interchangeable_of_perm; assumption.
Qed.

(* the distance between a tree and a re-drawing of it is zero *)
Theorem zero_on_redrawing_l p acc r t t' :
  redraw t t' -> no_basal (t, r) -> wf acc (t, r) -> NoDup (splits acc (t, r)) ->
  rf acc (t, r) (t', r) = Ok 0 /\
  fpfn acc (t, r) (t', r) = Ok (0, 0) /\
  (forall v, wrf p acc (t, r) (t', r) = Ok v -> v = 0) /\
  (forall v, euclid_sq p acc (t, r) (t', r) = Ok v -> v = 0).
Proof.
  intros H NB W HN. destruct (redraw_transfer acc r t t' H NB W HN) as [_ [W' [HN' P]]].
  pose proof (same_dict_of_perm acc _ _ P HN) as SD.
  assert (Hs : forall x, In x (splits acc (t, r)) <-> In x (splits acc (t', r))).
  { intro x. split; intro Hx; [eapply Permutation_in; [apply Permutation_map, P|exact Hx]
                             | eapply Permutation_in; [apply Permutation_sym, Permutation_map, P|exact Hx]]. }
  pose proof W as [K [F I]]. pose proof W' as [K' [F' I']].
  assert (D0 : forall a b, (forall x, In x a <-> In x b) -> diff_count a b = 0).
  { intros a b Hab. unfold diff_count.
    rewrite (filter_ext_In' (fun x => negb (memz x b)) (fun _ => false)).
    - clear. induction (dedup a); simpl; [reflexivity|assumption].
    - intros x Hx. apply (proj1 (dedup_In x a)) in Hx. apply Hab in Hx. apply (proj2 (memz_In x b)) in Hx. rewrite Hx. reflexivity. }
  repeat split.
  - rewrite rf_pure by assumption. rewrite !D0; [reflexivity| |]; intro x; [apply Hs | symmetry; apply Hs].
  - rewrite fpfn_pure by assumption. rewrite !D0; [reflexivity| |]; intro x; [apply Hs | symmetry; apply Hs].
  - intros v Hv. apply (wrf_zero_l p acc (t, r) (t', r) v W W'); [|exact Hv].
    intro m. apply same_dict_val, SD.
  - intros v Hv. apply (euclid_zero_l p acc (t, r) (t', r) v W W'); [|exact Hv].
    intro m. apply same_dict_val, SD.
Qed.

(* ================================================================================================ *)
(* from C04WF *)


Lemma nodupb_NoDup l : nodupb l = true -> NoDup l.
Proof.
  induction l as [|x r IH]; simpl; intro H; [constructor|].
  apply andb_true_iff in H. destruct H as [H1 H2]. constructor; [|apply IH, H2].
  apply memz_false. destruct (memz x r); [discriminate|reflexivity].
Qed.

(* subsequences *)
Inductive sub {A} : list A -> list A -> Prop :=
| sub_nil : sub [] []
| sub_skip x l1 l2 : sub l1 l2 -> sub l1 (x :: l2)
| sub_keep x l1 l2 : sub l1 l2 -> sub (x :: l1) (x :: l2).

Lemma sub_refl {A} (l : list A) : sub l l.
Proof. induction l; constructor; assumption. Qed.

Lemma sub_nil_l {A} (l : list A) : sub [] l.
Proof. induction l; constructor; assumption. Qed.

Lemma sub_app {A} (a b c d : list A) : sub a b -> sub c d -> sub (a ++ c) (b ++ d).
Proof.
  induction 1 as [|x l1 l2 H IH|x l1 l2 H IH]; simpl; intro Hc;
    [exact Hc | apply sub_skip, IH, Hc | apply sub_keep, IH, Hc].
Qed.

Lemma sub_In {A} (a b : list A) x : sub a b -> In x a -> In x b.
Proof. induction 1; simpl; intro Hi; [assumption | right; auto | destruct Hi; [left; assumption | right; auto]]. Qed.

Lemma sub_NoDup {A} (a b : list A) : sub a b -> NoDup b -> NoDup a.
Proof.
  induction 1 as [|x l1 l2 H IH|x l1 l2 H IH]; intro N.
  - constructor.
  - inversion N; subst. auto.
  - inversion N as [|? ? Hx Hr]; subst. constructor; [|auto]. intro Hi. apply Hx. eapply sub_In; eassumption.
Qed.

Lemma sub_trans {A} (a b c : list A) : sub a b -> sub b c -> sub a c.
Proof.
  intros H1 H2. revert a H1. induction H2 as [|x l1 l2 H IH|x l1 l2 H IH]; intros a H1.
  - exact H1.
  - constructor. apply IH, H1.
  - inversion H1; subst; constructor; apply IH; assumption.
Qed.

Lemma sub_flat_map {A B} (f g : A -> list B) ks :
  Forall (fun k => sub (f k) (g k)) ks -> sub (flat_map f ks) (flat_map g ks).
Proof. induction 1; simpl; [constructor | apply sub_app; assumption]. Qed.

(* node ids in post-order *)
Definition pids (t : tree) : list Z := map t_id (postorder t).

Lemma pids_node i x l e ks : pids (T i x l e ks) = flat_map pids ks ++ [i].
Proof.
  unfold pids. cbn [postorder]. rewrite map_app. cbn [map t_id]. f_equal.
  induction ks as [|k r IH]; simpl; [reflexivity|]. rewrite map_app, IH. reflexivity.
Qed.

Lemma pnodes_pids acc b t : map fst (pnodes acc b t) = pids t.
Proof.
  revert b. induction t as [i x l e ks IH] using tree_ind'. intro b.
  rewrite pids_node. cbn [pnodes]. rewrite map_app. cbn [map fst]. f_equal.
  induction IH as [|k r Hk Hr IHr]; simpl; [reflexivity|]. rewrite map_app, Hk, IHr. reflexivity.
Qed.

Lemma pids_set_len t e : pids (set_len t e) = pids t.
Proof. destruct t. cbn [set_len]. rewrite !pids_node. reflexivity. Qed.

Lemma pids_suppress t : sub (pids (suppress t)) (pids t).
Proof.
  induction t as [i x l e ks IH] using tree_ind'. rewrite suppress_unfold.
  destruct ks as [|k [|k2 r]].
  - apply sub_refl.
  - rewrite pids_set_len, pids_node. cbn [flat_map]. rewrite app_nil_r.
    inversion IH as [|? ? Hk _]; subst.
    replace (pids (suppress k)) with (pids (suppress k) ++ []) by apply app_nil_r.
    apply sub_app; [exact Hk | apply sub_nil_l].
  - rewrite !pids_node. apply sub_app; [|apply sub_refl].
    rewrite flat_map_concat_map, map_map, <- flat_map_concat_map.
    apply sub_flat_map. exact IH.
Qed.

Lemma pids_collapse t t' d : collapse_basal t = (t', d) -> sub (pids t') (pids t).
Proof.
  destruct t as [i x l e ks]. unfold collapse_basal.
  destruct ks as [|c0 [|c1 [|c2 r]]]; try (intro H; inversion H; subst; apply sub_refl).
  destruct (Nat.leb 2 (nkids c1)) eqn:E1; [|destruct (Nat.leb 2 (nkids c0)) eqn:E0]; intro H; inversion H; subst; clear H.
  - rewrite !pids_node. cbn [flat_map]. rewrite app_nil_r, pids_set_len.
    destruct c1 as [i1 x1 l1 e1 ks1]. cbn [t_kids]. rewrite pids_node.
    rewrite <- !app_assoc. apply sub_app; [apply sub_refl|].
    apply sub_app; [apply sub_refl|]. constructor. apply sub_refl.
  - rewrite !pids_node. cbn [flat_map]. rewrite app_nil_r, flat_map_app. cbn [flat_map]. rewrite app_nil_r, pids_set_len.
    destruct c0 as [i0 x0 l0 e0 ks0]. cbn [t_kids]. rewrite pids_node.
    rewrite <- !app_assoc. apply sub_app; [apply sub_refl|]. constructor. apply sub_refl.
  - apply sub_refl.
Qed.

Lemma pids_normalise s : sub (pids (fst (normalise s))) (pids (fst s)).
Proof.
  destruct s as [t r]. unfold normalise, basal_step. cbn [fst snd].
  destruct (negb (is_true r) && Nat.eqb (nkids t) 2).
  - destruct (collapse_basal t) as [t' [d|]] eqn:E; cbn [fst snd].
    + eapply sub_trans; [apply pids_suppress | eapply pids_collapse, E].
    + apply pids_suppress.
  - apply pids_suppress.
Qed.

(* leafset masks are not touched by the normalisation *)
Lemma lor_all_app a b : lor_all (a ++ b) = Z.lor (lor_all a) (lor_all b).
Proof. induction a as [|x r IH]; unfold lor_all in *; simpl; [reflexivity|]. rewrite IH, Z.lor_assoc. reflexivity. Qed.

Lemma lmask_suppress acc t : lmask acc (suppress t) = lmask acc t.
Proof.
  induction t as [i x l e ks IH] using tree_ind'. rewrite suppress_unfold.
  destruct ks as [|k [|k2 r]].
  - reflexivity.
  - rewrite lmask_set_len. inversion IH as [|? ? Hk _]; subst. rewrite Hk.
    rewrite lmask_node by discriminate. unfold lor_all. simpl. rewrite Z.lor_0_r. reflexivity.
  - rewrite !lmask_node by discriminate. f_equal. rewrite map_map. apply map_ext_in.
    intros k' Hk'. rewrite Forall_forall in IH. apply IH, Hk'.
Qed.

Lemma lmask_kids acc t : (2 <= nkids t)%nat -> lmask acc t = lor_all (map (lmask acc) (t_kids t)).
Proof.
  destruct t as [i x l e ks]. unfold nkids. cbn [t_kids]. intro H. apply lmask_node.
  destruct ks; simpl in H; [lia|discriminate].
Qed.

Lemma lmask_collapse acc t t' d : collapse_basal t = (t', d) -> lmask acc t' = lmask acc t.
Proof.
  destruct t as [i x l e ks]. unfold collapse_basal.
  destruct ks as [|c0 [|c1 [|c2 r]]]; try (intro H; inversion H; subst; reflexivity).
  destruct (Nat.leb 2 (nkids c1)) eqn:E1; [|destruct (Nat.leb 2 (nkids c0)) eqn:E0]; intro H; inversion H; subst; clear H.
  - apply Nat.leb_le in E1. rewrite !lmask_node by discriminate. cbn [map]. unfold lor_all at 1 2. cbn [fold_right].
    fold (lor_all (map (lmask acc) (t_kids c1))). rewrite lmask_set_len, (lmask_kids acc c1 E1), Z.lor_0_r. reflexivity.
  - apply Nat.leb_le in E0. rewrite (lmask_node acc i x l e [c0; c1]) by discriminate.
    rewrite lmask_node by (destruct (t_kids c0); discriminate).
    rewrite map_app, lor_all_app. cbn [map]. unfold lor_all at 2 3. cbn [fold_right].
    rewrite lmask_set_len, (lmask_kids acc c0 E0), !Z.lor_0_r. reflexivity.
  - reflexivity.
Qed.

Lemma lmask_normalise acc s : lmask acc (fst (normalise s)) = lmask acc (fst s).
Proof.
  destruct s as [t r]. unfold normalise, basal_step. cbn [fst snd].
  destruct (negb (is_true r) && Nat.eqb (nkids t) 2).
  - destruct (collapse_basal t) as [t' [d|]] eqn:E; cbn [fst snd].
    + rewrite lmask_suppress. eapply lmask_collapse, E.
    + apply lmask_suppress.
  - apply lmask_suppress.
Qed.

Theorem well_formed_wf acc s : well_formed acc s = true -> wf acc s.
Proof.
  unfold well_formed. rewrite !andb_true_iff. intros [[K F] N]. repeat split.
  - exact K.
  - unfold frozen_ok. rewrite lmask_normalise. apply Z.eqb_neq. destruct (Z.eqb (lmask acc (fst s)) 0); [discriminate|reflexivity].
  - unfold ids_ok. rewrite pnodes_pids. eapply sub_NoDup; [apply pids_normalise|]. apply nodupb_NoDup. exact N.
Qed.

(* ================================================================================================ *)
(* from C04Basal *)


(* ------------------------------------------------------------------------------------------ *)
(* what one reordering step keeps *)

Lemma redraw1_root t t' : redraw1 t t' -> t_id t' = t_id t /\ t_len t' = t_len t /\ nkids t' = nkids t.
Proof.
  intro H. split; [|split]; [destruct H; reflexivity | destruct H; reflexivity | apply nkids_redraw1, H].
Qed.

Lemma lmask_redraw1 acc t t' : redraw1 t t' -> lmask acc t' = lmask acc t.
Proof.
  intro H. rewrite <- (lmask_suppress acc t), <- (lmask_suppress acc t'). symmetry.
  apply (so_mask _ _ _ (redraw1_suppress acc t t' H)).
Qed.

Lemma redraw1_set_len t t' e : redraw1 t t' -> redraw1 (set_len t e) (set_len t' e).
Proof. destruct 1; cbn [set_len]; constructor; assumption. Qed.

Lemma redraw1_kids t t' :
  redraw1 t t' ->
  Permutation (t_kids t) (t_kids t') \/
  exists pre k k' post, t_kids t = pre ++ k :: post /\ t_kids t' = pre ++ k' :: post /\ redraw1 k k'.
Proof. destruct 1; cbn [t_kids]; [left; assumption | right; eauto 8]. Qed.

Lemma pids_redraw1 t t' : redraw1 t t' -> Permutation (pids t) (pids t').
Proof.
  induction 1 as [i x l e ks ks' HP | i x l e pre k k' post Hr IH]; rewrite !pids_node.
  - apply Permutation_app_tail. apply flat_map_perm, HP.
  - apply Permutation_app_tail. rewrite !flat_map_app. cbn [flat_map].
    apply Permutation_app_head, Permutation_app_tail, IH.
Qed.

Lemma NoDup_nodupb l : NoDup l -> nodupb l = true.
Proof.
  induction 1 as [|x r Hx Hr IH]; simpl; [reflexivity|].
  apply memz_false in Hx. rewrite Hx, IH. reflexivity.
Qed.

Lemma well_formed_redraw1 acc r t t' :
  redraw1 t t' -> well_formed acc (t, r) = true -> well_formed acc (t', r) = true.
Proof.
  intros H W. unfold well_formed in *. cbn [fst] in *. rewrite !andb_true_iff in *. destruct W as [[K F] N].
  repeat split.
  - rewrite (taxa_known_redraw1 acc t t' H). exact K.
  - rewrite (lmask_redraw1 acc t t' H). exact F.
  - apply NoDup_nodupb. eapply Permutation_NoDup; [apply (pids_redraw1 t t' H)|]. apply nodupb_NoDup. exact N.
Qed.

(* ------------------------------------------------------------------------------------------ *)
(* the shape of a step at a two-child seed *)

Lemma redraw1_inv2 i x l e c0 c1 t' :
  redraw1 (T i x l e [c0; c1]) t' ->
  t' = T i x l e [c0; c1] \/ t' = T i x l e [c1; c0] \/
  (exists c0x, redraw1 c0 c0x /\ t' = T i x l e [c0x; c1]) \/
  (exists c1x, redraw1 c1 c1x /\ t' = T i x l e [c0; c1x]).
Proof.
  intro H. inversion H as [i' x' l' e' ks ks' HP | i' x' l' e' pre k k' post Hr]; subst.
  - apply Permutation_length_2_inv in HP. destruct HP as [->| ->]; tauto.
  - destruct pre as [|p [|p2 pre]].
    + simpl in *. match goal with E : _ :: _ = [c0; c1] |- _ => inversion E; subst end. right. right. left. eauto.
    + simpl in *. match goal with E : _ :: _ = [c0; c1] |- _ => inversion E; subst end. right. right. right. eauto.
    + exfalso. match goal with E : _ ++ _ = [c0; c1] |- _ => apply (f_equal (@length tree)) in E; rewrite app_length in E; simpl in E; lia end.
Qed.

(* the tree collapse_basal_bifurcation() produces, by cases *)
Definition collapsed (i : Z) (x l e : option Z) (c0 c1 : tree) : tree :=
  if Nat.leb 2 (nkids c1) then T i x l e (set_len c0 (add_len (t_len c0) (t_len c1)) :: t_kids c1)
  else if Nat.leb 2 (nkids c0) then T i x l e (t_kids c0 ++ [set_len c1 (add_len (t_len c1) (t_len c0))])
  else T i x l e [c0; c1].

Definition collapses (c0 c1 : tree) : bool := Nat.leb 2 (nkids c1) || Nat.leb 2 (nkids c0).

Lemma collapse_basal_2 i x l e c0 c1 :
  fst (collapse_basal (T i x l e [c0; c1])) = collapsed i x l e c0 c1 /\
  (snd (collapse_basal (T i x l e [c0; c1])) = None <-> collapses c0 c1 = false).
Proof.
  unfold collapse_basal, collapsed, collapses.
  destruct (Nat.leb 2 (nkids c1)); [split; [reflexivity|split; discriminate]|].
  destruct (Nat.leb 2 (nkids c0)); split; try reflexivity; split; try discriminate; reflexivity.
Qed.

(* normalise on a not-rooted two-child seed *)
Lemma normalise_2 i x l e c0 c1 r :
  is_true r = false ->
  normalise (T i x l e [c0; c1], r)
  = (suppress (collapsed i x l e c0 c1), if collapses c0 c1 then Some false else r).
Proof.
  intro Hr. unfold normalise, basal_step. cbn [fst snd nkids t_kids length Nat.eqb]. rewrite Hr. cbn [negb andb].
  destruct (collapse_basal_2 i x l e c0 c1) as [E1 E2].
  destruct (collapse_basal (T i x l e [c0; c1])) as [u [d|]] eqn:E; cbn [fst snd] in *.
  - destruct (collapses c0 c1); [subst; reflexivity|]. exfalso. destruct E2 as [_ E2]. specialize (E2 eq_refl). discriminate.
  - destruct E2 as [E2 _]. pose proof (E2 eq_refl) as E3. rewrite E3. unfold collapses in E3.
    apply orb_false_iff in E3. destruct E3 as [A B]. unfold collapsed. rewrite A, B. reflexivity.
Qed.

(* both seed children are internal, and are exchanged: the one case where the collapsed trees are
   not re-drawings of each other (a different edge is removed) *)
Definition both_internal (c0 c1 : tree) : bool := Nat.leb 2 (nkids c0) && Nat.leb 2 (nkids c1).

Lemma collapsed_redraw1 i x l e c0 c1 t' :
  redraw1 (T i x l e [c0; c1]) t' ->
  exists d0 d1, t' = T i x l e [d0; d1] /\ collapses d0 d1 = collapses c0 c1 /\
    (redraw1 (collapsed i x l e c0 c1) (collapsed i x l e d0 d1) \/
     collapsed i x l e c0 c1 = collapsed i x l e d0 d1 \/
     (d0 = c1 /\ d1 = c0 /\ both_internal c0 c1 = true)).
Proof.
  intro H. pose proof H as H0. apply redraw1_inv2 in H. destruct H as [->|[->|[[c0x [Hr ->]]|[c1x [Hr ->]]]]].
  - exists c0, c1. repeat split. right. left. reflexivity.
  - exists c1, c0. split; [reflexivity|]. split; [unfold collapses; apply orb_comm|].
    unfold collapsed, both_internal.
    destruct (Nat.leb 2 (nkids c1)) eqn:A, (Nat.leb 2 (nkids c0)) eqn:B.
    + right. right. repeat split.
    + left. apply R_here. apply Permutation_cons_append.
    + left. apply R_here. apply Permutation_sym, Permutation_cons_append.
    + left. exact H0.
  - destruct (redraw1_root c0 c0x Hr) as [_ [El En]].
    exists c0x, c1. split; [reflexivity|]. split; [unfold collapses; rewrite En; reflexivity|].
    unfold collapsed. rewrite En, El.
    destruct (Nat.leb 2 (nkids c1)) eqn:A; [|destruct (Nat.leb 2 (nkids c0)) eqn:B].
    + left. apply (R_below i x l e [] _ _ (t_kids c1)). apply redraw1_set_len, Hr.
    + left. destruct (redraw1_kids c0 c0x Hr) as [HP|[pre [k [k' [post [E1 [E2 Hk]]]]]]].
      * apply R_here. apply Permutation_app_tail, HP.
      * rewrite E1, E2, <- !app_assoc. cbn [app]. apply R_below, Hk.
    + left. exact H0.
  - destruct (redraw1_root c1 c1x Hr) as [_ [El En]].
    exists c0, c1x. split; [reflexivity|]. split; [unfold collapses; rewrite En; reflexivity|].
    unfold collapsed. rewrite En, El.
    destruct (Nat.leb 2 (nkids c1)) eqn:A; [|destruct (Nat.leb 2 (nkids c0)) eqn:B].
    + left. destruct (redraw1_kids c1 c1x Hr) as [HP|[pre [k [k' [post [E1 [E2 Hk]]]]]]].
      * apply R_here. apply perm_skip, HP.
      * rewrite E1, E2. apply (R_below i x l e (_ :: pre)), Hk.
    + left. apply (R_below i x l e (t_kids c0) _ _ []). apply redraw1_set_len, Hr.
    + left. exact H0.
Qed.

(* ------------------------------------------------------------------------------------------ *)
(* the exchanged, both-internal case *)

Lemma taxon_mask_nonneg acc x : 0 <= taxon_mask acc x.
Proof.
  unfold taxon_mask. destruct x as [tx|]; [|lia]. destruct (zlookup tx acc) as [i|]; [|lia].
  apply Z.shiftl_nonneg. lia.
Qed.

Lemma lor_all_nonneg l : (forall m, In m l -> 0 <= m) -> 0 <= lor_all l.
Proof.
  induction l as [|m r IH]; intro H; unfold lor_all in *; simpl; [lia|].
  apply Z.lor_nonneg. split; [apply H; left; reflexivity | apply IH; intros; apply H; right; assumption].
Qed.

Lemma lmask_nonneg acc t : 0 <= lmask acc t.
Proof.
  induction t as [i x l e ks IH] using tree_ind'. destruct ks as [|k r].
  - apply taxon_mask_nonneg.
  - rewrite lmask_node by discriminate. apply lor_all_nonneg. intros m Hm. apply in_map_iff in Hm.
    destruct Hm as [k' [<- Hk]]. rewrite Forall_forall in IH. apply IH, Hk.
Qed.

Lemma suppress_internal i x l e ks :
  (2 <= length ks)%nat -> suppress (T i x l e ks) = T i x l e (map suppress ks).
Proof. apply suppress_many. Qed.

Definition bodyk (acc : acc_map) (ks : list tree) : list (Z * (Z * (option Z * bool))) :=
  flat_map (pnodes acc false) (map suppress ks).

(* pnodes of the normalised tree when c1 is removed and c0 kept *)
Lemma pnodes_collapsed_keep0 acc i x l e c0 c1 ll :
  (2 <= nkids c0)%nat -> (2 <= nkids c1)%nat ->
  pnodes acc true (suppress (T i x l e (set_len c0 ll :: t_kids c1)))
  = (bodyk acc (t_kids c0) ++ [(t_id c0, (lmask acc c0, (ll, false)))]) ++ bodyk acc (t_kids c1)
    ++ [(i, (Z.lor (lmask acc c0) (lmask acc c1), (e, true)))].
Proof.
  intros H0 H1.
  destruct c0 as [i0 x0 l0 e0 ks0], c1 as [i1 x1 l1 e1 ks1]. unfold nkids in *. cbn [t_kids t_id set_len] in *.
  rewrite suppress_many by (simpl; lia).
  cbn [map]. rewrite (suppress_many i0 x0 l0 ll ks0 H0).
  assert (M0 : lmask acc (T i0 x0 l0 ll (map suppress ks0)) = lmask acc (T i0 x0 l0 e0 ks0)).
  { rewrite <- (suppress_many i0 x0 l0 ll ks0 H0). rewrite lmask_suppress. destruct ks0; reflexivity. }
  assert (MR : lmask acc (T i x l e (T i0 x0 l0 ll (map suppress ks0) :: map suppress ks1))
               = Z.lor (lmask acc (T i0 x0 l0 e0 ks0)) (lmask acc (T i1 x1 l1 e1 ks1))).
  { rewrite lmask_node by discriminate. cbn [map]. unfold lor_all. cbn [fold_right]. rewrite M0. f_equal.
    rewrite (lmask_node acc i1 x1 l1 e1 ks1) by (destruct ks1; simpl in H1; [lia|discriminate]).
    unfold lor_all. f_equal. rewrite map_map. apply map_ext. intro k. apply lmask_suppress. }
  cbn [pnodes flat_map]. unfold bodyk. rewrite M0, MR, <- !app_assoc. reflexivity.
Qed.

Lemma add_len_comm_iff a b : (mg = true \/ (a = None <-> b = None)) -> add_len a b = add_len b a.
Proof.
  destruct a, b; simpl; intros [H|[H1 H2]]; try reflexivity; try (f_equal; lia); try (rewrite H; reflexivity);
    [discriminate (H2 eq_refl) | discriminate (H1 eq_refl)].
Qed.

Lemma entries_swap_internal acc i x l e c0 c1 r :
  is_true r = false -> both_internal c0 c1 = true ->
  (mg = true \/ (t_len c0 = None <-> t_len c1 = None)) ->
  Z.land (lmask acc c0) (lmask acc c1) = 0 ->
  0 < Z.lor (lmask acc c0) (lmask acc c1) ->
  Permutation (entries acc (T i x l e [c0; c1], r)) (entries acc (T i x l e [c1; c0], r)).
Proof.
  intros Hr HB HL HD HP. unfold both_internal in HB. apply andb_true_iff in HB. destruct HB as [B0 B1].
  pose proof B0 as B0'. pose proof B1 as B1'. apply Nat.leb_le in B0'. apply Nat.leb_le in B1'.
  unfold entries. rewrite !normalise_2 by exact Hr. unfold collapses, collapsed. rewrite B0, B1. cbn [orb].
  unfold entries_n. cbn [fst snd].
  rewrite (pnodes_collapsed_keep0 acc i x l e c0 c1 _ B0' B1').
  rewrite (pnodes_collapsed_keep0 acc i x l e c1 c0 _ B1' B0').
  assert (TMg : forall d0 d1 ll, (2 <= nkids d0)%nat -> (2 <= nkids d1)%nat ->
            lmask acc (suppress (T i x l e (set_len d0 ll :: t_kids d1))) = Z.lor (lmask acc d0) (lmask acc d1)).
  { intros d0 d1 ll G0 G1. pose proof (pnodes_collapsed_keep0 acc i x l e d0 d1 ll G0 G1) as P.
    rewrite pnodes_body in P. rewrite app_assoc in P. apply app_inj_tail in P. destruct P as [_ P].
    inversion P. reflexivity. }
  rewrite (TMg c0 c1 _ B0' B1'), (TMg c1 c0 _ B1' B0').
  set (tm := Z.lor (lmask acc c0) (lmask acc c1)) in *.
  rewrite (Z.lor_comm (lmask acc c1) (lmask acc c0)). fold tm.
  rewrite (add_len_comm_iff (t_len c1) (t_len c0)) by tauto.
  rewrite !map_app. cbn [map fst snd].
  assert (SP : split_of (Some false) tm (lmask acc c0) = split_of (Some false) tm (lmask acc c1)).
  { unfold split_of. cbn [is_true]. apply normalize_complement; [exact HP | reflexivity | exact HD]. }
  rewrite SP.
  set (F := fun n : Z * (Z * (option Z * bool)) => (split_of (Some false) tm (fst (snd n)), snd (snd n))).
  set (X := (split_of (Some false) tm (lmask acc c1), (add_len (t_len c0) (t_len c1), false))).
  set (R := (split_of (Some false) tm tm, (e, true))).
  (* (A ++ [X]) ++ B ++ [R]  ~  (B ++ [X]) ++ A ++ [R] *)
  set (A := map F (bodyk acc (t_kids c0))). set (B := map F (bodyk acc (t_kids c1))).
  rewrite (app_assoc (A ++ [X]) B [R]), (app_assoc (B ++ [X]) A [R]). apply Permutation_app_tail.
  rewrite <- !app_assoc. cbn [app].
  apply perm_trans with (l' := X :: A ++ B); [apply Permutation_sym, Permutation_middle|].
  apply perm_trans with (l' := X :: B ++ A); [apply perm_skip, Permutation_app_comm | apply Permutation_middle].
Qed.

(* ------------------------------------------------------------------------------------------ *)
(* one step, any structure *)

(* the condition under which exchanging two internal seed children of a not-rooted tree is harmless:
   their edge lengths are both present or both missing (else the current collapse_basal_bifurcation()
   drops one; no condition for the repaired form), and their leafsets are disjoint (true whenever the
   leaves carry distinct taxa) *)
Definition seed_ok (acc : acc_map) (s : struct) : Prop :=
  is_true (snd s) = false ->
  forall c0 c1, t_kids (fst s) = [c0; c1] -> both_internal c0 c1 = true ->
    (mg = true \/ (t_len c0 = None <-> t_len c1 = None)) /\ Z.land (lmask acc c0) (lmask acc c1) = 0.

Lemma both_internal_comm c0 c1 : both_internal c0 c1 = both_internal c1 c0.
Proof. unfold both_internal. apply andb_comm. Qed.

Lemma seed_ok_redraw1 acc r t t' : redraw1 t t' -> seed_ok acc (t, r) -> seed_ok acc (t', r).
Proof.
  intros H S Hr d0 d1 Hk HB. cbn [fst snd] in *.
  destruct t as [i x l e ks].
  assert (L : length ks = 2%nat).
  { pose proof (nkids_redraw1 _ _ H) as N. unfold nkids in N. rewrite Hk in N. cbn [t_kids length] in N. lia. }
  destruct ks as [|c0 [|c1 [|c2 rest]]]; try discriminate.
  specialize (S Hr c0 c1 eq_refl).
  apply redraw1_inv2 in H. destruct H as [->|[->|[[c0x [Hx ->]]|[c1x [Hx ->]]]]]; cbn [t_kids] in Hk; inversion Hk; subst.
  - apply S, HB.
  - rewrite both_internal_comm in HB. destruct (S HB) as [A B]. split; [tauto|]. rewrite Z.land_comm. exact B.
  - destruct (redraw1_root c0 d0 Hx) as [_ [El En]]. unfold both_internal in *. rewrite En in HB.
    destruct (S HB) as [A B]. rewrite El, (lmask_redraw1 acc c0 d0 Hx). tauto.
  - destruct (redraw1_root c1 d1 Hx) as [_ [El En]]. unfold both_internal in *. rewrite En in HB.
    destruct (S HB) as [A B]. rewrite El, (lmask_redraw1 acc c1 d1 Hx). tauto.
Qed.

Lemma entries_of_so acc u u' r' :
  same_up_to_order acc (suppress u) (suppress u') ->
  Permutation (entries_n acc (suppress u, r')) (entries_n acc (suppress u', r')).
Proof.
  intro SO. unfold entries_n. cbn [fst snd]. rewrite (so_mask _ _ _ SO). apply Permutation_map, so_pnodes, SO.
Qed.

Lemma entries_redraw1_gen acc r t t' :
  redraw1 t t' -> well_formed acc (t, r) = true -> seed_ok acc (t, r) ->
  Permutation (entries acc (t, r)) (entries acc (t', r)).
Proof.
  intros H W S.
  destruct (is_true r) eqn:Hr.
  { apply (entries_redraw1 acc r t t' H). left. exact Hr. }
  destruct t as [i x l e ks].
  destruct ks as [|c0 [|c1 [|c2 rest]]];
    try (apply (entries_redraw1 acc r _ t' H); right; cbn [fst nkids t_kids length]; lia).
  destruct (collapsed_redraw1 i x l e c0 c1 t' H) as [d0 [d1 [-> [EC Hc]]]].
  destruct Hc as [Hc|[Hc|[-> [-> HB]]]].
  - unfold entries. rewrite !normalise_2 by exact Hr. rewrite EC. apply entries_of_so. apply redraw1_suppress, Hc.
  - unfold entries. rewrite !normalise_2 by exact Hr. rewrite EC, Hc. apply Permutation_refl.
  - 
    destruct (S Hr c0 c1 eq_refl HB) as [HL HD].
    apply entries_swap_internal; try assumption.
    unfold well_formed in W. cbn [fst] in W. rewrite !andb_true_iff in W. destruct W as [[_ F] _].
    assert (E : lmask acc (T i x l e [c0; c1]) = Z.lor (lmask acc c0) (lmask acc c1)).
    { cbn [lmask fold_right]. rewrite Z.lor_0_r. reflexivity. }
    rewrite E in F. pose proof (lmask_nonneg acc c0). pose proof (lmask_nonneg acc c1).
    assert (0 <= Z.lor (lmask acc c0) (lmask acc c1)) by (apply Z.lor_nonneg; split; assumption).
    destruct (Z.eqb (Z.lor (lmask acc c0) (lmask acc c1)) 0) eqn:EZ; [discriminate|]. apply Z.eqb_neq in EZ. lia.
Qed.

(* ------------------------------------------------------------------------------------------ *)
(* any number of steps *)

Lemma redraw_transfer_gen acc r t t' :
  redraw t t' -> well_formed acc (t, r) = true -> seed_ok acc (t, r) -> NoDup (splits acc (t, r)) ->
  well_formed acc (t', r) = true /\ seed_ok acc (t', r) /\ NoDup (splits acc (t', r)) /\
  Permutation (entries acc (t, r)) (entries acc (t', r)).
Proof.
  induction 1 as [t t' H | t | t t1 t' H1 IH1 H2 IH2]; intros W S HN.
  - pose proof (entries_redraw1_gen acc r t t' H W S) as P. split; [|split; [|split]].
    + eapply well_formed_redraw1; eassumption.
    + eapply seed_ok_redraw1; eassumption.
    + eapply Permutation_NoDup; [apply Permutation_map, P | exact HN].
    + exact P.
  - split; [|split; [|split]]; try assumption. apply Permutation_refl.
  - destruct (IH1 W S HN) as [W1 [S1 [HN1 P1]]]. destruct (IH2 W1 S1 HN1) as [W2 [S2 [HN2 P2]]].
    split; [|split; [|split]]; try assumption. eapply perm_trans; eassumption.
Qed.

Theorem child_order_invariant_gen acc r t t' :
  redraw t t' -> well_formed acc (t, r) = true -> seed_ok acc (t, r) -> NoDup (splits acc (t, r)) ->
  interchangeable acc (t, r) (t', r).
Proof.
  intros H W S HN. destruct (redraw_transfer_gen acc r t t' H W S HN) as [W' [_ [_ P]]].
  apply interchangeable_of_perm; try assumption; apply well_formed_wf; assumption.
Qed.

Theorem zero_on_redrawing_gen p acc r t t' :
  redraw t t' -> well_formed acc (t, r) = true -> seed_ok acc (t, r) -> NoDup (splits acc (t, r)) ->
  rf acc (t, r) (t', r) = Ok 0 /\
  fpfn acc (t, r) (t', r) = Ok (0, 0) /\
  (forall v, wrf p acc (t, r) (t', r) = Ok v -> v = 0) /\
  (forall v, euclid_sq p acc (t, r) (t', r) = Ok v -> v = 0).
Proof.
  intros H W S HN. destruct (redraw_transfer_gen acc r t t' H W S HN) as [W' [_ [HN' P]]].
  pose proof (well_formed_wf acc _ W) as Wf. pose proof (well_formed_wf acc _ W') as Wf'.
  pose proof (same_dict_of_perm acc _ _ P HN) as SD.
  assert (Hs : forall x, In x (splits acc (t, r)) <-> In x (splits acc (t', r))).
  { intro x. split; intro Hx; [eapply Permutation_in; [apply Permutation_map, P|exact Hx]
                             | eapply Permutation_in; [apply Permutation_sym, Permutation_map, P|exact Hx]]. }
  pose proof Wf as [K [F I]]. pose proof Wf' as [K' [F' I']].
  assert (D0 : forall a b, (forall x, In x a <-> In x b) -> diff_count a b = 0).
  { intros a b Hab. unfold diff_count.
    rewrite (filter_ext_In' (fun x => negb (memz x b)) (fun _ => false)).
    - clear. induction (dedup a); simpl; [reflexivity|assumption].
    - intros x Hx. apply (proj1 (dedup_In x a)) in Hx. apply Hab in Hx. apply (proj2 (memz_In x b)) in Hx. rewrite Hx. reflexivity. }
  repeat split.
  - rewrite rf_pure by assumption. rewrite !D0; [reflexivity| |]; intro x; [apply Hs | symmetry; apply Hs].
  - rewrite fpfn_pure by assumption. rewrite !D0; [reflexivity| |]; intro x; [apply Hs | symmetry; apply Hs].
  - intros v Hv. apply (wrf_zero_l p acc (t, r) (t', r) v Wf Wf'); [|exact Hv].
    intro m. apply same_dict_val, SD.
  - intros v Hv. apply (euclid_zero_l p acc (t, r) (t', r) v Wf Wf'); [|exact Hv].
    intro m. apply same_dict_val, SD.
Qed.

(* ================================================================================================ *)
(* from C04Final *)


Ltac wfs := repeat match goal with H : well_formed _ _ = true |- _ => apply well_formed_wf in H end.

Lemma F_rf_is_symdiff_card acc s1 s2 S1 S2 :
  well_formed acc s1 = true -> well_formed acc s2 = true ->
  NoDup S1 -> NoDup S2 ->
  (forall m, In m S1 <-> In m (splits acc s1)) -> (forall m, In m S2 <-> In m (splits acc s2)) ->
  rf acc s1 s2 = Ok (Z.of_nat (length (filter (fun m => negb (memz m S2)) S1))
                     + Z.of_nat (length (filter (fun m => negb (memz m S1)) S2))).
Proof. intros W1 W2. wfs. destruct W1 as [K1 [F1 _]], W2 as [K2 [F2 _]]. apply rf_is_symdiff_card_l; assumption. Qed.

Lemma F_fp_fn_are_one_sided acc s1 s2 S1 S2 :
  well_formed acc s1 = true -> well_formed acc s2 = true ->
  NoDup S1 -> NoDup S2 ->
  (forall m, In m S1 <-> In m (splits acc s1)) -> (forall m, In m S2 <-> In m (splits acc s2)) ->
  fpfn acc s1 s2 = Ok (Z.of_nat (length (filter (fun m => negb (memz m S1)) S2)),
                      Z.of_nat (length (filter (fun m => negb (memz m S2)) S1))).
Proof. intros W1 W2. wfs. destruct W1 as [K1 [F1 _]], W2 as [K2 [F2 _]]. apply fp_fn_are_one_sided_l; assumption. Qed.

Lemma F_wrf_is_L1 p acc s1 s2 v U :
  well_formed acc s1 = true -> well_formed acc s2 = true ->
  NoDup (splits acc s1) -> NoDup (splits acc s2) ->
  wrf p acc s1 s2 = Ok v ->
  NoDup U -> incl (splits acc s1) U -> incl (splits acc s2) U ->
  v = fold_right Z.add 0 (map (fun m => Z.abs (split_len acc s1 m - split_len acc s2 m)) U).
Proof. intros W1 W2. wfs. apply wrf_is_L1_l; assumption. Qed.

Lemma F_euclid_is_L2 p acc s1 s2 v U :
  well_formed acc s1 = true -> well_formed acc s2 = true ->
  NoDup (splits acc s1) -> NoDup (splits acc s2) ->
  euclid_sq p acc s1 s2 = Ok v ->
  NoDup U -> incl (splits acc s1) U -> incl (splits acc s2) U ->
  v = fold_right Z.add 0
        (map (fun m => (split_len acc s1 m - split_len acc s2 m) * (split_len acc s1 m - split_len acc s2 m)) U).
Proof. intros W1 W2. wfs. apply euclid_is_L2_l; assumption. Qed.

Lemma F_rf_sym acc s1 s2 :
  well_formed acc s1 = true -> well_formed acc s2 = true ->
  rf acc s1 s2 = rf acc s2 s1 /\ exists d, rf acc s1 s2 = Ok d /\ 0 <= d.
Proof.
  intros W1 W2. wfs. destruct W1 as [K1 [F1 _]], W2 as [K2 [F2 _]].
  rewrite !rf_sd by assumption. rewrite sd_sym. split; [reflexivity|]. eexists. split; [reflexivity|].
  unfold sd, diff_count. lia.
Qed.

Lemma F_rf_zero_self acc s : well_formed acc s = true -> rf acc s s = Ok 0 /\ fpfn acc s s = Ok (0, 0).
Proof.
  intros W. wfs. destruct W as [K [F _]]. rewrite rf_sd, fpfn_pure by assumption.
  pose proof (sd_self (splits acc s)) as H. unfold sd in H.
  assert (0 <= diff_count (splits acc s) (splits acc s)) by (unfold diff_count; lia).
  rewrite sd_self. split; [reflexivity|]. f_equal. f_equal; lia.
Qed.

Lemma F_rf_triangle acc s1 s2 s3 d13 d12 d23 :
  well_formed acc s1 = true -> well_formed acc s2 = true -> well_formed acc s3 = true ->
  rf acc s1 s3 = Ok d13 -> rf acc s1 s2 = Ok d12 -> rf acc s2 s3 = Ok d23 ->
  d13 <= d12 + d23.
Proof.
  intros W1 W2 W3. wfs. destruct W1 as [K1 [F1 _]], W2 as [K2 [F2 _]], W3 as [K3 [F3 _]].
  rewrite !rf_sd by assumption. intros H13 H12 H23. inversion H13; inversion H12; inversion H23; subst.
  apply sd_triangle.
Qed.

Lemma F_wrf_sym p acc s1 s2 v v' :
  well_formed acc s1 = true -> well_formed acc s2 = true ->
  wrf p acc s1 s2 = Ok v -> wrf p acc s2 s1 = Ok v' -> v = v'.
Proof. intros W1 W2. wfs. apply wrf_sym_l; assumption. Qed.

Lemma F_euclid_sq_sym p acc s1 s2 v v' :
  well_formed acc s1 = true -> well_formed acc s2 = true ->
  euclid_sq p acc s1 s2 = Ok v -> euclid_sq p acc s2 s1 = Ok v' -> v = v'.
Proof. intros W1 W2. wfs. apply euclid_sq_sym_l; assumption. Qed.

Lemma F_wrf_triangle p acc s1 s2 s3 d13 d12 d23 :
  well_formed acc s1 = true -> well_formed acc s2 = true -> well_formed acc s3 = true ->
  wrf p acc s1 s3 = Ok d13 -> wrf p acc s1 s2 = Ok d12 -> wrf p acc s2 s3 = Ok d23 ->
  d13 <= d12 + d23.
Proof. intros W1 W2 W3. wfs. apply wrf_triangle_l; assumption. Qed.

Lemma F_euclid_triangle p acc s1 s2 s3 d13 d12 d23 :
  well_formed acc s1 = true -> well_formed acc s2 = true -> well_formed acc s3 = true ->
  euclid_sq p acc s1 s3 = Ok d13 -> euclid_sq p acc s1 s2 = Ok d12 -> euclid_sq p acc s2 s3 = Ok d23 ->
  0 <= d13 /\ 0 <= d12 /\ 0 <= d23 /\
  (d13 - d12 - d23 <= 0 \/ (d13 - d12 - d23) * (d13 - d12 - d23) <= 4 * d12 * d23).
Proof.
  intros W1 W2 W3 H13 H12 H23. wfs.
  assert (NN : forall s s' d, wf acc s -> wf acc s' -> euclid_sq p acc s s' = Ok d -> 0 <= d).
  { intros s s' d Ws Ws' H. rewrite (euclid_pure p acc s s' Ws Ws') in H.
    destruct (ld_pure p acc s s'); try discriminate. inversion H; subst. clear.
    induction l as [|x r IH]; simpl; [lia|]. assert (0 <= (fst x - snd x) * (fst x - snd x)) by apply Z.square_nonneg. lia. }
  split; [apply (NN s1 s3 d13 W1 W3 H13)|]. split; [apply (NN s1 s2 d12 W1 W2 H12)|].
  split; [apply (NN s2 s3 d23 W2 W3 H23)|].
  apply (euclid_triangle_l p acc s1 s2 s3); assumption.
Qed.

Lemma F_self_weighted_zero p acc s v :
  well_formed acc s = true ->
  (wrf p acc s s = Ok v -> v = 0) /\ (euclid_sq p acc s s = Ok v -> v = 0).
Proof.
  intros W. wfs. split; intro H.
  - apply (wrf_zero_l p acc s s v W W); [reflexivity | exact H].
  - apply (euclid_zero_l p acc s s v W W); [reflexivity | exact H].
Qed.

Lemma F_defined_sym p acc s1 s2 :
  p <> Current ->
  well_formed acc s1 = true -> well_formed acc s2 = true ->
  ((exists v, wrf p acc s1 s2 = Ok v) <-> (exists v, wrf p acc s2 s1 = Ok v)) /\
  ((exists v, euclid_sq p acc s1 s2 = Ok v) <-> (exists v, euclid_sq p acc s2 s1 = Ok v)) /\
  ((exists v, wrf p acc s1 s2 = Ok v) \/ wrf p acc s1 s2 = Err ValueErr).
Proof.
  intros Hp W1 W2. wfs. destruct (defined_sym_l p acc s1 s2 Hp W1 W2) as [A B].
  repeat split; try apply A; try apply B. apply wrf_only_value_error; assumption.
Qed.

(* the current code refuses exactly when a split of the first tree is also a split of the second
   and the edge that carries it there (the last one in post-order) has no length and is not the
   seed edge *)
Lemma F_refusal_current acc s1 s2 :
  well_formed acc s1 = true -> well_formed acc s2 = true ->
  NoDup (splits acc s2) ->
  ((exists v, wrf Current acc s1 s2 = Ok v) <->
   (forall m x, In (m, x) (entries acc s2) -> In m (splits acc s1) -> fst x = None -> snd x = true)).
Proof.
  intros W1 W2 N2. wfs. rewrite (wrf_current_defined acc s1 s2 W1 W2). unfold kd. rewrite dict_of_id by exact N2.
  split; intros H m x Hin Hm.
  - intro Hx. specialize (H m x Hin Hm). unfold refusable in H. rewrite Hx in H. destruct (snd x); [reflexivity|discriminate].
  - unfold refusable. destruct (fst x) eqn:E; [reflexivity|]. rewrite (H m x Hin Hm E). reflexivity.
Qed.

Lemma F_namespace_mismatch p w a b sa sb upd :
  get_t w a = Ok sa -> get_t w b = Ok sb -> ts_ns sa <> ts_ns sb ->
  do_fpfn w a b upd = (Err ValueErr, w) /\
  do_symdiff w a b upd = (Err ValueErr, w) /\
  do_missing w a b upd = (Err ValueErr, w) /\
  do_wrf p w a b upd = (Err ValueErr, w) /\
  do_euclid_sq p w a b upd = (Err ValueErr, w).
Proof. apply namespace_mismatch_l. Qed.

Lemma F_default_args_fresh p w a b sa sb :
  a <> b -> get_t w a = Ok sa -> get_t w b = Ok sb -> ts_ns sa = ts_ns sb ->
  well_formed (w_acc w) (ts_struct sa) = true -> well_formed (w_acc w) (ts_struct sb) = true ->
  fst (do_fpfn w a b false) = fpfn (w_acc w) (ts_struct sa) (ts_struct sb) /\
  fst (do_symdiff w a b false) = rf (w_acc w) (ts_struct sa) (ts_struct sb) /\
  fst (do_missing w a b false) = missing (w_acc w) (ts_struct sa) (ts_struct sb) /\
  fst (do_wrf p w a b false) = wrf p (w_acc w) (ts_struct sa) (ts_struct sb) /\
  fst (do_euclid_sq p w a b false) = euclid_sq p (w_acc w) (ts_struct sa) (ts_struct sb) /\
  (forall w', w' = snd (do_fpfn w a b false) \/ w' = snd (do_symdiff w a b false) \/ w' = snd (do_missing w a b false)
              \/ w' = snd (do_wrf p w a b false) \/ w' = snd (do_euclid_sq p w a b false) ->
     (exists sa' sb', get_t w' a = Ok sa' /\ get_t w' b = Ok sb' /\
        ts_struct sa' = normalise (ts_struct sa) /\ ts_struct sb' = normalise (ts_struct sb)) /\
     (forall c, c <> a -> c <> b -> get_t w' c = get_t w c)).
Proof. intros Hab Ha Hb Hns W1 W2. wfs. apply (default_args_fresh_l p w a b sa sb); assumption. Qed.

Lemma seed_ok_intro acc r t :
  (r <> Some true -> forall c0 c1, t_kids t = [c0; c1] ->
     (2 <= length (t_kids c0))%nat -> (2 <= length (t_kids c1))%nat ->
     (mg = true \/ (t_len c0 = None <-> t_len c1 = None)) /\ Z.land (lmask acc c0) (lmask acc c1) = 0) ->
  seed_ok acc (t, r).
Proof.
  intros H Hr c0 c1 Hk HB. cbn [fst snd] in *. unfold both_internal in HB. apply andb_true_iff in HB.
  destruct HB as [B0 B1]. apply Nat.leb_le in B0. apply Nat.leb_le in B1.
  apply H; try assumption. intro E. subst. discriminate.
Qed.

Lemma F_child_order_invariant acc r t t' :
  redraw t t' ->
  well_formed acc (t, r) = true -> NoDup (splits acc (t, r)) ->
  (r <> Some true -> forall c0 c1, t_kids t = [c0; c1] ->
     (2 <= length (t_kids c0))%nat -> (2 <= length (t_kids c1))%nat ->
     (mg = true \/ (t_len c0 = None <-> t_len c1 = None)) /\ Z.land (lmask acc c0) (lmask acc c1) = 0) ->
  forall p s2, well_formed acc s2 = true ->
    fpfn acc (t, r) s2 = fpfn acc (t', r) s2 /\ fpfn acc s2 (t, r) = fpfn acc s2 (t', r) /\
    rf acc (t, r) s2 = rf acc (t', r) s2 /\ rf acc s2 (t, r) = rf acc s2 (t', r) /\
    wrf p acc (t, r) s2 = wrf p acc (t', r) s2 /\ wrf p acc s2 (t, r) = wrf p acc s2 (t', r) /\
    euclid_sq p acc (t, r) s2 = euclid_sq p acc (t', r) s2 /\ euclid_sq p acc s2 (t, r) = euclid_sq p acc s2 (t', r).
Proof.
  intros H W HN S p s2 W2. apply seed_ok_intro in S. apply well_formed_wf in W2.
  apply (child_order_invariant_gen acc r t t' H W S HN p s2 W2).
Qed.

Lemma F_zero_on_redrawing p acc r t t' :
  redraw t t' ->
  well_formed acc (t, r) = true -> NoDup (splits acc (t, r)) ->
  (r <> Some true -> forall c0 c1, t_kids t = [c0; c1] ->
     (2 <= length (t_kids c0))%nat -> (2 <= length (t_kids c1))%nat ->
     (mg = true \/ (t_len c0 = None <-> t_len c1 = None)) /\ Z.land (lmask acc c0) (lmask acc c1) = 0) ->
  rf acc (t, r) (t', r) = Ok 0 /\
  fpfn acc (t, r) (t', r) = Ok (0, 0) /\
  (forall v, wrf p acc (t, r) (t', r) = Ok v -> v = 0) /\
  (forall v, euclid_sq p acc (t, r) (t', r) = Ok v -> v = 0).
Proof.
  intros H W HN S. apply seed_ok_intro in S. apply zero_on_redrawing_gen; assumption.
Qed.

(* the encoding list returned by encode_bipartitions() is `splits` *)
Lemma F_encode_is_splits w a st :
  get_t w a = Ok st -> taxa_known (w_acc w) (ts_tree st) = true ->
  fst (step Current w (OpEncode a)) = OMasks (splits (w_acc w) (ts_struct st)).
Proof.
  intros Ha K. unfold step. rewrite (encode_at_ok w a st Ha K). cbn [fst].
  unfold enc_at. rewrite (get_set_same w a (enc_state (w_acc w) st) st Ha).
  cbn [ts_enc enc_state to_out fst]. unfold splits, entries. rewrite enc_pairs_fst. reflexivity.
Qed.

End MG.
