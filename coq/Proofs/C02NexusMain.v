(* C02 (NEXUS): assembly of nexus_trees_roundtrip. *)
From Coq Require Import ZArith List Bool Lia Arith DecimalN.
From DV Require Import Model.PyPrims Gen.CharClasses Model.Tokenizer Model.Newick Model.C02Spec Model.C02ListSpec
     Model.C02Nexus Model.C02NexusSpec
     Proofs.C02Tok Proofs.C02Escape Proofs.C02Lex Proofs.C02Parse Proofs.C02Resolve Proofs.C02ListParse Proofs.C02ListMap Proofs.C02ListDoc
     Proofs.C02NexusMap Proofs.C02NexusLex Proofs.C02NexusDoc Proofs.C02NexusRead Proofs.C02Main.
Import ListNotations.
Open Scope Z_scope.

Section Relabel.
Variable L : Type.
Variable o : rt_opts.
Notation ntree := (ntree L).
Notation taxa_order := (taxa_order L o).
Notation expectF := (expectF L o).

Lemma own_tax_relabel f tx lb ln ks :
  own_tax L o (relabel L f (Nd tx lb ln ks)) = option_map f (own_tax L o (Nd tx lb ln ks)).
Proof.
  cbn [relabel]. unfold own_tax, tag_is_taxon.
  assert (E : is_nil (map (relabel L f) ks) = is_nil ks) by (destruct ks; reflexivity). rewrite E.
  destruct (is_nil ks || rt_it o); [reflexivity | reflexivity].
Qed.

Lemma exp_lbl_relabel f tx lb ln ks :
  exp_lbl L o (relabel L f (Nd tx lb ln ks)) = exp_lbl L o (Nd tx lb ln ks).
Proof. cbn [relabel]. unfold exp_lbl. destruct ks; reflexivity. Qed.

Lemma taxa_order_relabel f : forall t, taxa_order (relabel L f t) = map f (taxa_order t).
Proof.
  induction t as [tx lb ln ks IH] using ntree_ind'.
  change (relabel L f (Nd tx lb ln ks)) with (Nd (option_map f tx) lb ln (map (relabel L f) ks)).
  rewrite (taxa_order_unfold L o _ _ _ (map (relabel L f) ks)), (taxa_order_unfold L o tx lb ln ks), map_app. f_equal.
  - induction IH as [|k r Hk Hr IHr]; [reflexivity|]. cbn [map flat_map]. rewrite map_app, Hk, IHr. reflexivity.
  - rewrite !(own_taxa_tax L o).
    change (Nd (option_map f tx) lb ln (map (relabel L f) ks)) with (relabel L f (Nd tx lb ln ks)).
    rewrite own_tax_relabel. destruct (own_tax L o (Nd tx lb ln ks)); reflexivity.
Qed.

Lemma expectF_relabel f ix : forall t, expectF ix (relabel L f t) = expectF (fun l => ix (f l)) t.
Proof.
  induction t as [tx lb ln ks IH] using ntree_ind'.
  change (expectF ix (relabel L f (Nd tx lb ln ks)))
    with (PN (match own_tax L o (relabel L f (Nd tx lb ln ks)) with Some l => Some (ix l) | None => None end)
             (exp_lbl L o (relabel L f (Nd tx lb ln ks))) ln [] (map (expectF ix) (map (relabel L f) ks))).
  rewrite own_tax_relabel, exp_lbl_relabel. cbn [C02NexusSpec.expectF].
  f_equal.
  - destruct (own_tax L o (Nd tx lb ln ks)); reflexivity.
  - rewrite map_map. induction IH as [|k r Hk Hr IHr]; [reflexivity|]. cbn [map]. rewrite Hk, IHr. reflexivity.
Qed.

Lemma expectF_ext ix1 ix2 : forall t, (forall l, In l (taxa_order t) -> ix1 l = ix2 l) -> expectF ix1 t = expectF ix2 t.
Proof.
  induction t as [tx lb ln ks IH] using ntree_ind'. intro H. rewrite (taxa_order_unfold L o) in H.
  cbn [C02NexusSpec.expectF]. f_equal.
  - rewrite (own_taxa_tax L o) in H. destruct (own_tax L o (Nd tx lb ln ks)) as [l|]; [|reflexivity].
    f_equal. apply H. apply in_app_iff. right. left. reflexivity.
  - assert (Hk : forall l, In l (flat_map taxa_order ks) -> ix1 l = ix2 l) by (intros l Hl; apply H; apply in_app_iff; left; exact Hl).
    clear H. induction IH as [|k r Hk' Hr IHr]; [reflexivity|]. cbn [map flat_map] in *.
    rewrite Hk', IHr; [reflexivity | |]; intros l Hl; apply Hk; apply in_app_iff; [right | left]; exact Hl.
Qed.

(* resolve: the positions name the labels *)
Lemma resolve_expectF ns : forall t, wf_tree L o t = true -> (forall l, In l (taxa_order t) -> In l ns) ->
  resolve L ns (expectF (pos ns) t) = Some (norm L t).
Proof.
  induction t as [tx lb ln ks IH] using ntree_ind'. intros Hwf Hin.
  pose proof (wf_unfold L o _ _ _ _ Hwf) as [_ [Hshape Hks]].
  rewrite (taxa_order_unfold L o) in Hin.
  cbn [C02NexusSpec.expectF]. rewrite resolve_unfold.
  assert (KS : resolve_list L ns (map (expectF (pos ns)) ks) = Some (map (norm L) ks)).
  { assert (Hk : forall l, In l (flat_map taxa_order ks) -> In l ns) by (intros l Hl; apply Hin; apply in_app_iff; left; exact Hl).
    clear Hin Hshape Hwf. induction IH as [|k r Hk' Hr IHr]; [reflexivity|].
    simpl in Hks. apply andb_true_iff in Hks. destruct Hks as [H1 H2]. cbn [map resolve_list flat_map] in *.
    rewrite Hk'; [| exact H1 | intros l Hl; apply Hk; apply in_app_iff; left; exact Hl].
    rewrite IHr; [reflexivity | exact H2 | intros l Hl; apply Hk; apply in_app_iff; right; exact Hl]. }
  rewrite KS. rewrite (own_taxa_tax L o) in Hin.
  unfold own_tax, exp_lbl, tag_is_taxon in *. cbn [norm].
  destruct (is_nil ks) eqn:Ek; cbn [orb] in *.
  - destruct tx as [l|]; [|reflexivity]. rewrite (pos_nth ns l) by (apply Hin; apply in_app_iff; right; left; reflexivity). reflexivity.
  - destruct (rt_it o) eqn:Eit.
    + destruct lb; [discriminate|]. destruct tx as [l|]; [|reflexivity].
      rewrite (pos_nth ns l) by (apply Hin; apply in_app_iff; right; left; reflexivity). reflexivity.
    + destruct tx; [discriminate|]. reflexivity.
Qed.

End Relabel.

Section Assembly.
Variable L : Type.
Variable render_len : L -> str.
Variable parse_len : str -> option L.
Variable lower : str -> str.
Variable upper : str -> str.
Hypothesis len_roundtrip : forall x, parse_len (render_len x) = Some x.
Hypothesis len_plain : forall x, render_len x <> [] /\ forallb numeral_char (render_len x) = true.
Hypothesis lower_digits : forall n, lower (dec_of_nat n) = dec_of_nat n.
Hypothesis upper_fixed : forall s, forallb up_fixed s = true -> upper s = s.
Hypothesis upper_translate : upper wd_Translate = kw_TRANSLATE.
Variable o : rt_opts.
Variable tokn : nat -> nat.      (* TRANSLATE token numbering: position -> accession index *)

Notation ntree := (ntree L).
Notation taxa_order := (taxa_order L o).
Notation expectF := (expectF L o).
Notation ro := (rt_ropts o).
Notation wo := (rt_wopts o).

(* ---- TRANSLATE tokens ---- *)
Definition tokn_inj (ns : list str) : Prop :=
  forall i j, (i < length ns)%nat -> (j < length ns)%nat -> tokn i = tokn j -> i = j.

Lemma translate_token_pos ns l : In l ns -> tok_of tokn ns l = dec_of_nat (S (tokn (pos ns l))).
Proof.
  intro H. unfold tok_of, pos. destruct (index_of_in l ns O H) as [i E]. rewrite E. reflexivity.
Qed.

Definition tok_list (ns : list str) : list str := map (fun i => dec_of_nat (S (tokn i))) (seq O (length ns)).
Definition tokix (ns : list str) (s : str) : nat := pos (tok_list ns) s.

Lemma tok_list_nodup ns : tokn_inj ns -> NoDup (tok_list ns).
Proof.
  intro Hinj. unfold tok_list. apply nodup_map_on; [apply seq_NoDup|].
  intros a b Ha Hb E. apply in_seq in Ha. apply in_seq in Hb. apply dec_of_nat_inj in E. apply Hinj; lia.
Qed.

Lemma tokix_dec ns i : tokn_inj ns -> (i < length ns)%nat -> tokix ns (dec_of_nat (S (tokn i))) = i.
Proof.
  intros Hinj Hi. unfold tokix.
  assert (Hn : nth_error (tok_list ns) i = Some (dec_of_nat (S (tokn i)))).
  { unfold tok_list. rewrite nth_error_map. rewrite (nth_error_nth' _ O) by (rewrite seq_length; exact Hi).
    rewrite seq_nth by exact Hi. reflexivity. }
  apply (nth_error_nodup_inj (tok_list ns) _ i (dec_of_nat (S (tokn i))) (tok_list_nodup ns Hinj)); [|exact Hn].
  apply pos_nth. eapply nth_error_In. exact Hn.
Qed.

Lemma nodup_map_pos ns ls : NoDup ls -> (forall l, In l ls -> In l ns) -> NoDup (map (pos ns) ls).
Proof.
  intros Hnd Hin. induction Hnd as [|x l Hx Hl IH]; [constructor|]. simpl. constructor.
  - intro Hi. apply in_map_iff in Hi. destruct Hi as [y [E Hy]].
    assert (y = x).
    { pose proof (pos_nth ns y (Hin y (or_intror Hy))) as A. pose proof (pos_nth ns x (Hin x (or_introl eq_refl))) as B.
      rewrite E in A. congruence. }
    subst. contradiction.
  - apply IH. intros y Hy. apply Hin. right. exact Hy.
Qed.

(* ---- numerals are admissible labels ---- *)
Lemma last_in {A} (l : list A) d : l <> [] -> In (last l d) l.
Proof. induction l as [|x [|y l] IH]; intro H; [congruence | left; reflexivity | right; apply IH; discriminate]. Qed.

Lemma label_ok_dec l0 n : label_ok o l0 = true -> label_ok o (dec_of_nat n) = true.
Proof.
  intro H0. unfold label_ok in *. rewrite !andb_true_iff in *. destruct H0 as [[_ _] Hc].
  pose proof (dec_digits n) as D. pose proof (dec_nonempty n) as Hne.
  assert (Dall : forall c, In c (dec_of_nat n) -> 48 <= c <= 57).
  { intros c Hc'. rewrite forallb_forall in D. specialize (D c Hc'). lia. }
  repeat split.
  - unfold good_label. rewrite !andb_true_iff. repeat split.
    + destruct (dec_of_nat n); [congruence | reflexivity].
    + apply forallb_forall. intros c Hc'. specialize (Dall c Hc'). unfold admissible. lia.
    + unfold no_edge_ws. destruct (dec_of_nat n) as [|c l] eqn:E; [reflexivity|].
      assert (A : 48 <= c <= 57) by (apply Dall; left; reflexivity).
      assert (B : 48 <= last (c :: l) c <= 57) by (apply Dall; apply last_in; discriminate).
      unfold py_isspace. lia.
  - apply negb_true_iff. unfold is_struct1. destruct (dec_of_nat n) as [|c [|c2 l]] eqn:E; try reflexivity.
    assert (A : 48 <= c <= 57) by (apply Dall; left; reflexivity).
    unfold zmem. simpl. unfold LPAREN, RPAREN, COMMA, COLON, SEMI. lia.
  - unfold consistent_opts in *.
    assert (S0 : zmem SPACE (dec_of_nat n) = false).
    { destruct (zmem SPACE (dec_of_nat n)) eqn:E; [|reflexivity]. apply zmem_In in E. specialize (Dall _ E). unfold SPACE in Dall. lia. }
    rewrite S0. simpl. rewrite orb_true_r, andb_true_r.
    destruct (rt_uu o), (rt_pu o); simpl in *; try reflexivity; try discriminate;
      rewrite ?andb_false_r in Hc; simpl in Hc; discriminate.
Qed.

(* ---- relabelling keeps a tree in the domain ---- *)
Lemma wf_relabel f : forall t : ntree, wf_tree L o t = true ->
  (forall l, In l (taxa_order t) -> label_ok o (f l) = true) ->
  wf_tree L o (relabel L f t) = true.
Proof.
  induction t as [tx lb ln ks IH] using ntree_ind'. intros Hwf Hf.
  pose proof (wf_unfold L o _ _ _ _ Hwf) as [Hl [Hshape Hks]].
  rewrite (taxa_order_unfold L o) in Hf. rewrite (own_taxa_tax L o) in Hf.
  cbn [relabel wf_tree]. rewrite !andb_true_iff. repeat split.
  - unfold tag_of, own_tax, tag_is_taxon in *.
    assert (E : is_nil (map (relabel L f) ks) = is_nil ks) by (destruct ks; reflexivity). rewrite E.
    destruct (is_nil ks) eqn:Ek; cbn [orb] in *.
    + destruct tx as [l|]; [|reflexivity]. simpl. apply Hf. apply in_app_iff. right. left. reflexivity.
    + destruct (rt_it o); [|exact Hl].
      destruct tx as [l|]; [|reflexivity]. simpl. apply Hf. apply in_app_iff. right. left. reflexivity.
  - assert (E : is_nil (map (relabel L f) ks) = is_nil ks) by (destruct ks; reflexivity). rewrite E.
    destruct (is_nil ks); [destruct tx; exact Hshape|]. destruct (rt_it o); [exact Hshape | destruct tx; exact Hshape].
  - assert (Hk : forall l, In l (flat_map taxa_order ks) -> label_ok o (f l) = true) by (intros l Hi; apply Hf; apply in_app_iff; left; exact Hi).
    clear Hf Hl Hshape Hwf. induction IH as [|k r Hk' Hr IHr]; [reflexivity|].
    simpl in Hks. apply andb_true_iff in Hks. destruct Hks as [H1 H2]. cbn [map forallb flat_map] in *.
    rewrite Hk'; [| exact H1 | intros l Hi; apply Hk; apply in_app_iff; left; exact Hi].
    apply IHr; [exact H2 | intros l Hi; apply Hk; apply in_app_iff; right; exact Hi].
Qed.

(* every taxon tag of a tree in the domain is label_ok *)
Lemma taxa_label_ok : forall t : ntree, wf_tree L o t = true -> forall l, In l (taxa_order t) -> label_ok o l = true.
Proof.
  induction t as [tx lb ln ks IH] using ntree_ind'. intros Hwf l Hin.
  pose proof (wf_unfold L o _ _ _ _ Hwf) as [Hl [Hshape Hks]].
  rewrite (taxa_order_unfold L o) in Hin. apply in_app_iff in Hin. destruct Hin as [Hin|Hin].
  - clear Hl Hshape Hwf. induction IH as [|k r Hk Hr IHr]; [contradiction|].
    simpl in Hks. apply andb_true_iff in Hks. destruct Hks as [H1 H2]. cbn [flat_map] in Hin.
    apply in_app_iff in Hin. destruct Hin as [Hin|Hin]; [apply Hk; assumption | apply IHr; assumption].
  - rewrite (own_taxa_tax L o) in Hin. unfold own_tax, tag_of, tag_is_taxon in *.
    destruct (is_nil ks); cbn [orb] in *.
    + destruct tx as [x|]; [|contradiction]. destruct Hin as [E|[]]. subst. exact Hl.
    + destruct (rt_it o); [|contradiction]. destruct tx as [x|]; [|contradiction]. destruct Hin as [E|[]]. subst. exact Hl.
Qed.

(* ---- fuel ---- *)
Notation tree_stmt_toks := (tree_stmt_toks L render_len o).
Notation stmt_toks := (stmt_toks L render_len o).

Lemma stmt_toks_need r (t : ntree) : wf_tree L o t = true -> (need L t <= 2 * length (stmt_toks r t))%nat.
Proof.
  intro Hwf. unfold C02ListDoc.stmt_toks. rewrite add_comments_length, app_length. simpl length.
  pose proof (wtoks_len L render_len lower o t Hwf). unfold need. lia.
Qed.

Lemma flat_stmt_bound : forall (its : list (nat * (option bool * ntree))) it, In it its ->
  (3 * length its + length (stmt_toks (fst (snd it)) (snd (snd it))) <= length (flat_map tree_stmt_toks its))%nat.
Proof.
  induction its as [|x its IH]; intros it Hin; [contradiction|].
  cbn [flat_map]. rewrite app_length. unfold C02NexusDoc.tree_stmt_toks at 1. rewrite app_length. simpl length.
  destruct Hin as [E|Hin].
  - subst. assert ((3 * length its <= length (flat_map tree_stmt_toks its))%nat).
    { clear. induction its as [|y its IH]; [simpl; lia|]. cbn [flat_map]. rewrite app_length.
      unfold C02NexusDoc.tree_stmt_toks at 1. rewrite app_length. simpl length. lia. }
    lia.
  - specialize (IH it Hin). lia.
Qed.

Lemma enum_from_length {A} (l : list A) : forall off, length (enum_from off l) = length l.
Proof. induction l as [|x l IH]; intro off; simpl; [reflexivity|]. rewrite IH. reflexivity. Qed.

Lemma enum_from_in_snd {A} (l : list A) : forall off it, In it (enum_from off l) -> In (snd it) l.
Proof.
  induction l as [|x l IH]; intros off it H; [contradiction|]. simpl in H. destruct H as [H|H]; [subst; left; reflexivity | right; eapply IH; exact H].
Qed.

Lemma map_enum_snd {A B} (g : A -> B) (l : list A) : forall off, map (fun it => g (snd it)) (enum_from off l) = map g l.
Proof. induction l as [|x l IH]; intro off; simpl; [reflexivity|]. rewrite IH. reflexivity. Qed.

(* ---- the theorem ---- *)
Notation read_nexus := (read_nexus L parse_len lower upper).

Theorem nexus_read_written : forall (tr : bool) (ns : list str) (ts : list (option bool * ntree)),
  tokn_inj ns -> ts <> [] ->
  NoDup (map lower ns) -> forallb (nlabel_ok o) ns = true -> (forall l, In l ns -> is_struct1 l = false) ->
  (tr = true -> ns <> []) ->
  forallb (fun rt => wf_tree L o (snd rt)) ts = true ->
  (forall l, In l (doc_taxa L o ts) -> In l ns) ->
  Forall (fun rt => NoDup (map lower (taxa_order (snd rt)))) ts ->
  Forall (fun rt => rooting_consistent o (fst rt) = true) ts ->
  read_nexus ro (write_nexus_tok L render_len o tokn tr ns ts)
  = NOk ([ns], [(O, map (fun rt => mkPR (fst rt) [] (expectF (pos ns) (snd rt))) ts)]).
Proof.
  intros tr ns ts Hinj Hne Hnd Hlab Hstruct Htr Hwf Hin Hndt Hroot.
  assert (Hns : forall l, In l ns -> not_struct l) by (intros l Hl; apply is_struct1_not; apply Hstruct; exact Hl).
  (* facts about every tree *)
  assert (Hper : forall rt, In rt ts -> wf_tree L o (snd rt) = true /\ (forall l, In l (taxa_order (snd rt)) -> In l ns)
                                        /\ NoDup (map lower (taxa_order (snd rt))) /\ rooting_consistent o (fst rt) = true).
  { intros rt Hrt. rewrite forallb_forall in Hwf. rewrite Forall_forall in Hndt, Hroot. repeat split; auto.
    intros l Hl. apply Hin. unfold doc_taxa. apply in_flat_map. exists rt. split; assumption. }
  set (f := tok_of tokn ns).
  (* the shown trees are in the domain *)
  assert (Hwf' : forallb (fun rt => wf_tree L o (snd rt)) (shown L tokn tr ns ts) = true).
  { unfold shown. destruct tr; [|exact Hwf]. apply forallb_forall. intros rt' Hrt'. apply in_map_iff in Hrt'.
    destruct Hrt' as [rt [E Hrt]]. subst rt'. cbn [snd]. destruct (Hper rt Hrt) as [A [B _]].
    apply wf_relabel; [exact A|]. intros l Hl. unfold f. rewrite (translate_token_pos ns l (B l Hl)).
    apply (label_ok_dec l). apply (taxa_label_ok (snd rt) A l Hl). }
  unfold C02Nexus.read_nexus.
  change (ro_preserve_underscores ro) with (rt_pu o).
  rewrite (tokenize_nexus L render_len len_plain o tokn tr ns ts Hlab Htr Hwf'). cbn [fst snd].
  set (toks := nexus_toks L render_len o tokn tr ns ts).
  set (its := enum_from O (shown L tokn tr ns ts)).
  set (ixs := if tr then tokix ns else pos ns).
  assert (Etoks : toks = W kw_HASHNEXUS :: taxa_toks o ns ++ [W kw_BEGIN; W kw_TREES; T [SEMI] false] ++ translate_toks o tokn tr ns
                         ++ flat_map tree_stmt_toks its ++ end_toks) by reflexivity.
  assert (Hits_len : length its = length ts).
  { unfold its. rewrite enum_from_length. unfold shown. destruct tr; [apply map_length | reflexivity]. }
  assert (Hits_ne : its <> []).
  { intro E. apply (f_equal (@length _)) in E. rewrite Hits_len in E. destruct ts; [congruence | discriminate]. }
  (* fuel *)
  set (F := nexus_fuel toks).
  assert (Hlen1 : (length ns + length (flat_map tree_stmt_toks its) <= length toks)%nat).
  { rewrite Etoks. cbn [length]. rewrite !app_length. unfold taxa_toks. rewrite !app_length, map_length. simpl. lia. }
  assert (HF1 : (length ns + 5 <= F)%nat) by (unfold F, nexus_fuel; lia).
  (* per statement *)
  assert (Hok : forall it, In it its -> stmt_ok_n L lower o (block_mapper lower tokn tr ns) ixs F (length its + 5) it).
  { intros it Hit. pose proof (flat_stmt_bound its it Hit) as Hb.
    assert (Hsn : In (snd it) (shown L tokn tr ns ts)) by (eapply enum_from_in_snd; exact Hit).
    assert (Hwfi : wf_tree L o (snd (snd it)) = true).
    { rewrite forallb_forall in Hwf'. apply (Hwf' (snd it) Hsn). }
    pose proof (stmt_toks_need (fst (snd it)) (snd (snd it)) Hwfi) as Hneed.
    unfold stmt_ok_n. split; [exact Hwfi|]. split; [unfold F, nexus_fuel; lia|].
    unfold shown in Hsn. unfold block_mapper, ixs. destruct tr.
    - apply in_map_iff in Hsn. destruct Hsn as [rt [E Hrt]]. destruct (Hper rt Hrt) as [A [B [C D]]].
      rewrite <- E. cbn [fst snd]. rewrite (taxa_order_relabel L o). repeat split.
      + intros s Hs. apply in_map_iff in Hs. destruct Hs as [l [El Hl]]. subst s.
        rewrite (translate_token_pos ns l (B l Hl)). rewrite tokix_dec by (try exact Hinj; apply pos_lt; apply B; exact Hl).
        apply lookup_translate; [exact lower_digits | apply B; exact Hl | exact Hinj].
      + rewrite map_map. rewrite (map_ext_in _ (pos ns)).
        * apply nodup_map_pos; [apply (nodup_map_nodup lower); exact C | exact B].
        * intros l Hl. rewrite (translate_token_pos ns l (B l Hl)). apply tokix_dec; [exact Hinj|]. apply pos_lt. apply B. exact Hl.
      + exact D.
    - destruct (Hper (snd it) Hsn) as [A [B [C D]]]. repeat split.
      + intros s Hs. apply lookup_plain; [exact Hnd | apply B; exact Hs].
      + apply nodup_map_pos; [apply (nodup_map_nodup lower); exact C | exact B].
      + exact D. }
  (* run *)
  rewrite Etoks.
  change (require_next (init_pstate (W kw_HASHNEXUS :: taxa_toks o ns ++ [W kw_BEGIN; W kw_TREES; T [SEMI] false] ++ translate_toks o tokn tr ns
                                     ++ flat_map tree_stmt_toks its ++ end_toks, EndEof []) (new_mapper lower [] false false)))
    with (Ok (St kw_HASHNEXUS (taxa_toks o ns ++ [W kw_BEGIN; W kw_TREES; T [SEMI] false] ++ translate_toks o tokn tr ns
                                     ++ flat_map tree_stmt_toks its ++ end_toks) (EndEof []) 0 false [] (new_mapper lower [] false false))).
  cbn [of_res nbind].
  match goal with |- context [cur_text (St kw_HASHNEXUS ?tl ?e ?n ?b ?sn ?m)] =>
    change (cur_text (St kw_HASHNEXUS tl e n b sn m)) with kw_HASHNEXUS end.
  rewrite (upper_fixed kw_HASHNEXUS) by reflexivity.
  change (str_eqb kw_HASHNEXUS kw_HASHNEXUS) with true. cbn [negb].
  destruct (read_stream L render_len parse_len lower upper len_roundtrip upper_fixed upper_translate
              o tokn tr ns ixs its F Hnd Hns Htr Hits_ne HF1 Hok) as [ps E].
  rewrite E. cbn [nbind nx_tns nx_trees]. f_equal. f_equal. f_equal. f_equal.
  (* the trees *)
  unfold its, stmt_result, shown, ixs. destruct tr.
  - rewrite enum_from_map, map_map. cbn [fst snd].
    rewrite <- (map_enum_snd (fun rt : option bool * ntree => mkPR (fst rt) [] (expectF (pos ns) (snd rt))) ts O).
    apply map_ext_in. intros it Hit. f_equal.
    assert (Hrt : In (snd it) ts) by (eapply enum_from_in_snd; exact Hit).
    destruct (Hper (snd it) Hrt) as [A [B _]].
    rewrite (expectF_relabel L o). apply (expectF_ext L o). intros l Hl.
    rewrite (translate_token_pos ns l (B l Hl)). apply tokix_dec; [exact Hinj|]. apply pos_lt. apply B. exact Hl.
  - rewrite (map_enum_snd (fun rt : option bool * ntree => mkPR (fst rt) [] (expectF (pos ns) (snd rt))) ts O). reflexivity.
Qed.

End Assembly.

(* ---- the model's writers are write_nexus_tok for the right token numbering ---- *)
Lemma write_nexus_tok_id (L : Type) (render_len : L -> str) (o : rt_opts) tr ns (ts : list (option bool * ntree L)) :
  write_nexus_tok L render_len o (fun i => i) tr ns ts = write_nexus L render_len (rt_wopts o) tr ns ts.
Proof. reflexivity. Qed.

Lemma combine_enum (accs : list nat) : forall (ns : list str) off, length accs = length ns ->
  combine accs ns = map (fun il : nat * str => (nth (fst il - off) accs O, snd il)) (enum_from off ns).
Proof.
  induction accs as [|a accs IH]; intros ns off Hl; destruct ns as [|l ns]; try discriminate; [reflexivity|].
  simpl in Hl. injection Hl as Hl. cbn [combine enum_from map fst snd]. rewrite Nat.sub_diag. cbn [nth]. f_equal.
  rewrite (IH ns (S off) Hl). apply map_ext_in. intros [i x] Hin. cbn [fst snd].
  assert (Hi : (S off <= i)%nat).
  { clear - Hin. revert off Hin. induction ns as [|y ns IHn]; intros off Hin; [contradiction|]. simpl in Hin.
    destruct Hin as [E|Hin]; [inversion E; lia | apply IHn in Hin; lia]. }
  replace (i - off)%nat with (S (i - S off)) by lia. reflexivity.
Qed.

Lemma write_nexus_tok_acc (L : Type) (render_len : L -> str) (o : rt_opts) tr ns accs (ts : list (option bool * ntree L)) :
  length accs = length ns ->
  write_nexus_tok L render_len o (fun i => nth i accs O) tr ns ts = write_nexus_acc L render_len (rt_wopts o) tr ns accs ts.
Proof.
  intro Hl. unfold write_nexus_tok, write_nexus_acc, write_trees_block_acc. f_equal. f_equal. f_equal.
  destruct tr; [|reflexivity]. f_equal.
  unfold write_translate_tok, write_translate_acc. f_equal. f_equal. f_equal.
  rewrite (combine_enum accs ns O Hl). rewrite map_map. apply map_ext. intros [i l]. unfold tr_entry. cbn [fst snd].
  rewrite Nat.sub_0_r. reflexivity.
Qed.

Lemma nth_inj_nodup (accs : list nat) n : length accs = n -> NoDup accs ->
  forall i j, (i < n)%nat -> (j < n)%nat -> nth i accs O = nth j accs O -> i = j.
Proof. intros Hl Hnd i j Hi Hj E. apply (proj1 (NoDup_nth accs O) Hnd); [lia | lia | exact E]. Qed.

Lemma nexus_trees_roundtrip_l :
  forall (L : Type) (render_len : L -> str) (parse_len : str -> option L) (lower upper : str -> str),
    (forall x, parse_len (render_len x) = Some x) ->
    (forall x, render_len x <> [] /\ forallb numeral_char (render_len x) = true) ->
    (forall n, lower (dec_of_nat n) = dec_of_nat n) ->
    (forall s, forallb up_fixed s = true -> upper s = s) ->
    upper wd_Translate = kw_TRANSLATE ->
  forall (o : rt_opts) (tr : bool) (ns : list str) (accs : list nat) (ts : list (option bool * ntree L)),
    length accs = length ns -> NoDup accs ->
    ts <> [] ->
    NoDup (map lower ns) -> forallb (nlabel_ok o) ns = true -> (forall l, In l ns -> is_struct1 l = false) ->
    (tr = true -> ns <> []) ->
    forallb (fun rt => wf_tree L o (snd rt)) ts = true ->
    (forall l, In l (doc_taxa L o ts) -> In l ns) ->
    Forall (fun rt => NoDup (map lower (taxa_order L o (snd rt)))) ts ->
    Forall (fun rt => rooting_consistent o (fst rt) = true) ts ->
    read_nexus L parse_len lower upper (rt_ropts o) (write_nexus_acc L render_len (rt_wopts o) tr ns accs ts)
      = NOk ([ns], [(O, map (fun rt => mkPR (fst rt) [] (expectF L o (pos ns) (snd rt))) ts)])
    /\ Forall (fun rt => resolve L ns (expectF L o (pos ns) (snd rt)) = Some (norm L (snd rt))) ts.
Proof.
  intros L render_len parse_len lower upper H1 H2 H3 H4 H5 o tr ns accs ts Hlen Hacc Hne Hnd Hlab Hstr Htr Hwf Hin Hndt Hroot. split.
  - rewrite <- (write_nexus_tok_acc L render_len o tr ns accs ts Hlen).
    apply (nexus_read_written L render_len parse_len lower upper H1 H2 H3 H4 H5 o (fun i => nth i accs O)); try assumption.
    unfold tokn_inj. apply (nth_inj_nodup accs (length ns) Hlen Hacc).
  - apply Forall_forall. intros rt Hrt. apply resolve_expectF.
    + rewrite forallb_forall in Hwf. apply Hwf. exact Hrt.
    + intros l Hl. apply Hin. unfold doc_taxa. apply in_flat_map. exists rt. split; assumption.
Qed.

Lemma relabel_ext (L : Type) (f g : str -> str) : (forall l, f l = g l) -> forall t : ntree L, relabel L f t = relabel L g t.
Proof.
  intros E t. induction t as [tx lb ln ks IH] using ntree_ind'. cbn [relabel].
  assert (Ek : map (relabel L f) ks = map (relabel L g) ks).
  { induction IH as [|k r Hk Hr IHr]; [reflexivity|]. cbn [map]. rewrite Hk, IHr. reflexivity. }
  rewrite Ek. destruct tx; [cbn [option_map]; rewrite E; reflexivity | reflexivity].
Qed.

Lemma enum_from_lt (ns : list str) : forall off i (l : str), In (i, l) (enum_from off ns) -> (i < off + length ns)%nat.
Proof.
  induction ns as [|y ns IH]; intros off i l H; [contradiction|]. cbn [enum_from] in H. cbn [length].
  destruct H as [E|H]; [inversion E; lia | apply IH in H; lia].
Qed.

(* the plain writer = accession indices 0, 1, 2, ... *)
Lemma write_nexus_acc_seq (L : Type) (render_len : L -> str) (o : rt_opts) tr ns (ts : list (option bool * ntree L)) :
  write_nexus_acc L render_len (rt_wopts o) tr ns (seq O (length ns)) ts = write_nexus L render_len (rt_wopts o) tr ns ts.
Proof.
  rewrite <- (write_nexus_tok_acc L render_len o tr ns (seq O (length ns)) ts) by apply seq_length.
  rewrite <- write_nexus_tok_id. unfold write_nexus_tok. f_equal. f_equal. f_equal.
  assert (Etok : forall l, tok_of (fun i => nth i (seq O (length ns)) O) ns l = tok_of (fun i => i) ns l).
  { intro l. unfold tok_of. destruct (index_of l ns O) as [i|] eqn:E; [|reflexivity].
    destruct (index_of_spec l ns O i E) as [_ Hn]. rewrite Nat.sub_0_r in Hn.
    rewrite seq_nth; [reflexivity | apply nth_error_Some; congruence]. }
  destruct tr.
  - f_equal.
    + unfold write_translate_tok. f_equal. f_equal. f_equal. apply map_ext_in. intros [i l] Hi. unfold tr_entry. cbn [fst snd].
      assert (Hlt : (i < length ns)%nat).
      { apply (enum_from_lt ns O i l Hi). }
      rewrite seq_nth by exact Hlt. reflexivity.
    + f_equal. apply flat_map_ext. intros [i [r t]]. cbn [fst snd]. f_equal. f_equal. f_equal.
      rewrite !write_tree_relabel. rewrite (relabel_ext L _ _ Etok t). reflexivity.
  - reflexivity.
Qed.

(* ---- non-vacuity: labels that are other taxa's positions, with and without TRANSLATE ---- *)
Definition ascii_upper (s : str) : str := map (fun c => if (97 <=? c) && (c <=? 122) then c - 32 else c) s.

Example ascii_upper_ok : ascii_upper wd_Translate = kw_TRANSLATE.
Proof. reflexivity. Qed.

Definition ex_ns : list str := [[50]; [49]; [97; 32; 98]; [51]].       (* "2" "1" "a b" "3": label "2" is taxon 1, label "1" is taxon 2 *)
Definition ex_nexus_trees : list (option bool * ntree str) :=
  [(Some true, Nd None (Some [120]) None [Nd (Some [49]) None (Some [49; 46; 53]) []; Nd None None None [Nd (Some [50]) None None []; Nd (Some [97; 32; 98]) None (Some [50]) []]]);
   (None, Nd None None None [Nd (Some [51]) None None []; Nd (Some [50]) None None []])].

Example ex_nexus_ok : forall tr : bool,
  read_nexus str parse_num (fun s => s) ascii_upper (rt_ropts rt_default)
             (write_nexus str (fun x => x) (rt_wopts rt_default) tr ex_ns ex_nexus_trees)
  = NOk ([ex_ns], [(O, map (fun rt => mkPR (fst rt) [] (expectF str rt_default (pos ex_ns) (snd rt))) ex_nexus_trees)]).
Proof. intros [|]; vm_compute; reflexivity. Qed.

(* the known finding nexus-translate-empty-namespace on the model: "Translate ;" is rejected *)
Lemma nexus_translate_empty_ns :
  read_nexus str parse_num (fun s => s) ascii_upper (rt_ropts rt_default)
             (write_nexus str (fun x => x) (rt_wopts rt_default) true [] [(None, Nd None None (Some [49]) [])])
  = NErr ParseErr.
Proof. vm_compute. reflexivity. Qed.
