(* C14, sixth wave: a family of weighted clusters that is laminar (any two nested or disjoint), as the
   non-root nodes of a rooted tree are, is determined as a weighted split system by the metric it
   induces (Buneman / Zaretskii).  This file is the combinatorial core, about a list `ns` of nodes
   over a list `L` of taxa; Proofs/C14SplitTree.v instantiates it with the nodes of a tree. *)
From Coq Require Import ZArith QArith List Bool Lia Lqa.
From DV Require Import Model.PyPrims Model.Tree Model.C14Model Model.C14Spec Model.C14Spec2 Model.C14Spec3
     Proofs.C14Dict Proofs.C14Clu Proofs.C14Upgma Proofs.C14Nj Proofs.C14Qcrit Proofs.C14NjQ.
Import ListNotations.
Open Scope Z_scope.

(* ---------- lists and booleans ---------- *)
Lemma forallb_false {A} (f : A -> bool) l : forallb f l = false -> exists x, In x l /\ f x = false.
Proof.
  induction l as [|a l IH]; simpl; [discriminate|]. destruct (f a) eqn:E; simpl.
  - intro H. destruct (IH H) as [x [Hx Fx]]. exists x. auto.
  - intros _. exists a. auto.
Qed.

Lemma filter_length_le {A} (P Q : A -> bool) l :
  (forall x, In x l -> P x = true -> Q x = true) -> (length (filter P l) <= length (filter Q l))%nat.
Proof.
  induction l as [|a l IH]; intro H; simpl; [lia|].
  assert (IH' : (length (filter P l) <= length (filter Q l))%nat) by (apply IH; intros x Hx; apply H; right; exact Hx).
  destruct (P a) eqn:Pa.
  - rewrite (H a (or_introl eq_refl) Pa). simpl. lia.
  - destruct (Q a); simpl; lia.
Qed.

Lemma filter_length_lt {A} (P Q : A -> bool) l x :
  (forall y, In y l -> P y = true -> Q y = true) -> In x l -> P x = false -> Q x = true ->
  (length (filter P l) < length (filter Q l))%nat.
Proof.
  induction l as [|a l IH]; intros H Hx Px Qx; [destruct Hx|]. simpl.
  assert (Hl : forall y, In y l -> P y = true -> Q y = true) by (intros y Hy; apply H; right; exact Hy).
  destruct Hx as [->|Hx].
  - rewrite Px, Qx. simpl. pose proof (filter_length_le P Q l Hl). lia.
  - pose proof (IH Hl Hx Px Qx). destruct (P a) eqn:Pa.
    + rewrite (H a (or_introl eq_refl) Pa). simpl. lia.
    + destruct (Q a); simpl; lia.
Qed.

Lemma argmax_ex {A} (f : A -> nat) l : l <> [] -> exists x, In x l /\ forall y, In y l -> (f y <= f x)%nat.
Proof.
  induction l as [|a l IH]; [congruence|]. intros _. destruct l as [|b l].
  - exists a. split; [left; reflexivity|]. intros y [<-|[]]. lia.
  - destruct IH as [x [Hx Mx]]; [discriminate|]. destruct (le_lt_dec (f a) (f x)).
    + exists x. split; [right; exact Hx|]. intros y [<-|Hy]; [lia | apply Mx; exact Hy].
    + exists a. split; [left; reflexivity|]. intros y [<-|Hy]; [lia|]. pose proof (Mx y Hy). lia.
Qed.

Lemma argmin_ex {A} (f : A -> nat) l : l <> [] -> exists x, In x l /\ forall y, In y l -> (f x <= f y)%nat.
Proof.
  induction l as [|a l IH]; [congruence|]. intros _. destruct l as [|b l].
  - exists a. split; [left; reflexivity|]. intros y [<-|[]]. lia.
  - destruct IH as [x [Hx Mx]]; [discriminate|]. destruct (le_lt_dec (f x) (f a)).
    + exists x. split; [right; exact Hx|]. intros y [<-|Hy]; [lia | apply Mx; exact Hy].
    + exists a. split; [left; reflexivity|]. intros y [<-|Hy]; [lia|]. pose proof (Mx y Hy). lia.
Qed.

(* ---------- same_split ---------- *)
Definition agree (L : list Z) (s c : Z -> bool) : bool := forallb (fun x => Bool.eqb (s x) (c x)) L.
Definition anti (L : list Z) (s c : Z -> bool) : bool := forallb (fun x => Bool.eqb (s x) (negb (c x))) L.

Lemma agree_iff L s c : agree L s c = true <-> forall x, In x L -> s x = c x.
Proof.
  unfold agree. rewrite forallb_forall. split; intros H x Hx.
  - apply eqb_prop. apply H. exact Hx.
  - rewrite (H x Hx). apply eqb_reflx.
Qed.

Lemma anti_iff L s c : anti L s c = true <-> forall x, In x L -> s x = negb (c x).
Proof.
  unfold anti. rewrite forallb_forall. split; intros H x Hx.
  - apply eqb_prop. apply H. exact Hx.
  - rewrite (H x Hx). apply eqb_reflx.
Qed.

Lemma same_split_iff L s c :
  same_split L s c = true <-> (forall x, In x L -> s x = c x) \/ (forall x, In x L -> s x = negb (c x)).
Proof.
  unfold same_split. fold (agree L s c). fold (anti L s c). rewrite orb_true_iff, agree_iff, anti_iff. tauto.
Qed.

Lemma same_split_refl L s : same_split L s s = true.
Proof. apply same_split_iff. left. reflexivity. Qed.

Lemma same_split_sym_t L s c : same_split L s c = true -> same_split L c s = true.
Proof.
  rewrite !same_split_iff. intros [H|H]; [left | right]; intros x Hx; rewrite (H x Hx); [reflexivity|].
  symmetry. apply negb_involutive.
Qed.

Lemma same_split_trans L s c d : same_split L s c = true -> same_split L c d = true -> same_split L s d = true.
Proof.
  rewrite !same_split_iff. intros [H1|H1] [H2|H2].
  - left. intros x Hx. rewrite (H1 x Hx). apply H2. exact Hx.
  - right. intros x Hx. rewrite (H1 x Hx). apply H2. exact Hx.
  - right. intros x Hx. rewrite (H1 x Hx), (H2 x Hx). reflexivity.
  - left. intros x Hx. rewrite (H1 x Hx), (H2 x Hx). apply negb_involutive.
Qed.

Lemma same_split_sym L s c : same_split L s c = same_split L c s.
Proof.
  destruct (same_split L s c) eqn:E1; destruct (same_split L c s) eqn:E2; try reflexivity.
  - apply same_split_sym_t in E1. congruence.
  - apply same_split_sym_t in E2. congruence.
Qed.

(* same_split with a fixed first argument does not distinguish equivalent second arguments *)
Lemma same_split_congr L s c d : same_split L c d = true -> same_split L s c = same_split L s d.
Proof.
  intro H. destruct (same_split L s c) eqn:E1; destruct (same_split L s d) eqn:E2; try reflexivity.
  - rewrite (same_split_trans L s c d E1 H) in E2. discriminate.
  - apply same_split_sym_t in H. rewrite (same_split_trans L s d c E2 H) in E1. discriminate.
Qed.

Lemma same_split_members L L' s c : (forall x, In x L <-> In x L') -> same_split L s c = same_split L' s c.
Proof.
  intro H. destruct (same_split L s c) eqn:E1; destruct (same_split L' s c) eqn:E2; try reflexivity.
  - apply same_split_iff in E1. assert (same_split L' s c = true); [|congruence].
    apply same_split_iff. destruct E1 as [E|E]; [left | right]; intros x Hx; apply E; apply H; exact Hx.
  - apply same_split_iff in E2. assert (same_split L s c = true); [|congruence].
    apply same_split_iff. destruct E2 as [E|E]; [left | right]; intros x Hx; apply E; apply H; exact Hx.
Qed.

(* ---------- a quartet (a, a' | b, b') is separated by a cluster ---------- *)
Definition sepq (c : Z -> bool) (a a' b b' : Z) : bool :=
  (c a && c a' && negb (c b) && negb (c b')) || (negb (c a) && negb (c a') && c b && c b').

Lemma sepq_cases c a a' b b' : sepq c a a' b b' = true ->
  (c a = true /\ c a' = true /\ c b = false /\ c b' = false) \/
  (c a = false /\ c a' = false /\ c b = true /\ c b' = true).
Proof. unfold sepq. destruct (c a), (c a'), (c b), (c b'); simpl; intro H; try discriminate; tauto. Qed.

Lemma sepq_same L c d a a' b b' : In a L -> In a' L -> In b L -> In b' L ->
  same_split L c d = true -> sepq c a a' b b' = sepq d a a' b b'.
Proof.
  intros Ha Ha' Hb Hb' H. apply same_split_iff in H. unfold sepq.
  destruct H as [H|H]; rewrite (H a Ha), (H a' Ha'), (H b Hb), (H b' Hb'); [reflexivity|].
  destruct (d a), (d a'), (d b), (d b'); reflexivity.
Qed.

(* ---------- sums over the nodes selected by a predicate ---------- *)
Definition sumif (S : qtree -> bool) (ns : list qtree) : Q :=
  qsum (map (fun m => if S m then qlen0 m else 0%Q) ns).

Lemma sumif_ext S S' ns : (forall m, In m ns -> S m = S' m) -> (sumif S ns == sumif S' ns)%Q.
Proof. intro H. unfold sumif. apply qsum_ext. intros m Hm. rewrite (H m Hm). reflexivity. Qed.

Lemma sumif_false S ns : (forall m, In m ns -> S m = false) -> (sumif S ns == 0)%Q.
Proof.
  intro H. unfold sumif. induction ns as [|m ns IH]; [reflexivity|]. rewrite qsum_cons, (H m (or_introl eq_refl)).
  rewrite IH; [ring|]. intros m' Hm'. apply H. right. exact Hm'.
Qed.

Lemma sumif_or S S1 S2 ns :
  (forall m, In m ns -> S m = S1 m || S2 m) -> (forall m, In m ns -> S1 m && S2 m = false) ->
  (sumif S ns == sumif S1 ns + sumif S2 ns)%Q.
Proof.
  intros H D. unfold sumif. induction ns as [|m ns IH]; [simpl; ring|]. rewrite !qsum_cons, IH.
  - rewrite (H m (or_introl eq_refl)). pose proof (D m (or_introl eq_refl)) as Dm.
    destruct (S1 m), (S2 m); simpl in *; try discriminate; ring.
  - intros m' Hm'. apply H. right. exact Hm'.
  - intros m' Hm'. apply D. right. exact Hm'.
Qed.

(* the distance induced by the weighted clusters, and the quartet expression *)
Definition dsum (ns : list qtree) (x y : Z) : Q :=
  qsum (map (fun m => if xorb (qcl m x) (qcl m y) then qlen0 m else 0%Q) ns).

Definition dexpr (ns : list qtree) (a a' b b' : Z) : Q :=
  (dsum ns a b + dsum ns a' b' - dsum ns a a' - dsum ns b b')%Q.

(* d(a,b) + d(a',b') - d(a,a') - d(b,b') = 2 (weight separating aa'|bb') - 2 (weight separating ab|a'b') *)
Lemma dexpr_sep ns a a' b b' :
  (dexpr ns a a' b b' ==
   2 * sumif (fun m => sepq (qcl m) a a' b b') ns - 2 * sumif (fun m => sepq (qcl m) a b a' b') ns)%Q.
Proof.
  unfold dexpr, dsum, sumif. induction ns as [|m ns IH]; [simpl; ring|]. rewrite !qsum_cons.
  assert (E : ((if xorb (qcl m a) (qcl m b) then qlen0 m else 0) + (if xorb (qcl m a') (qcl m b') then qlen0 m else 0)
               - (if xorb (qcl m a) (qcl m a') then qlen0 m else 0) - (if xorb (qcl m b) (qcl m b') then qlen0 m else 0)
               == 2 * (if sepq (qcl m) a a' b b' then qlen0 m else 0) - 2 * (if sepq (qcl m) a b a' b' then qlen0 m else 0))%Q).
  { unfold sepq. destruct (qcl m a), (qcl m a'), (qcl m b), (qcl m b'); simpl; ring. }
  lra.
Qed.

Lemma dsum_diag ns a : (dsum ns a a == 0)%Q.
Proof.
  unfold dsum. induction ns as [|m ns IH]; [reflexivity|]. rewrite qsum_cons, IH, xorb_nilpotent. ring.
Qed.

(* ================================================================================================ *)
Section Family.
Variable L : list Z.
Variable ns : list qtree.

Hypothesis HL : forall m x, In m ns -> qcl m x = true -> In x L.
Hypothesis Hlam : forall m m', In m ns -> In m' ns ->
  (forall x, qcl m x = true -> qcl m' x = true) \/
  (forall x, qcl m' x = true -> qcl m x = true) \/
  (forall x, qcl m x = true -> qcl m' x = true -> False).
Hypothesis Hne : forall m, In m ns -> exists x, qcl m x = true.
Hypothesis Hleaf : forall x, In x L -> exists m, In m ns /\ forall y, qcl m y = Z.eqb x y.

Definition slen (s : Z -> bool) : Q := sumif (fun m => same_split L s (qcl m)) ns.

Definition snonneg : Prop :=
  forall m, In m ns -> proper_split L (qcl m) -> (0 <= slen (qcl m))%Q.

(* ---------- chains of clusters through a common point ---------- *)
Lemma chain_up (ok : qtree -> Prop) x0 ts : ts <> [] ->
  (forall t, In t ts -> exists m, In m ns /\ ok m /\ qcl m x0 = true /\ qcl m t = true) ->
  exists m, In m ns /\ ok m /\ qcl m x0 = true /\ forall t, In t ts -> qcl m t = true.
Proof.
  induction ts as [|t ts IH]; [congruence|]. intros _ H. destruct ts as [|t' ts'].
  - destruct (H t (or_introl eq_refl)) as [m [Hm [Om [X0 Xt]]]]. exists m. repeat split; auto.
    intros t0 [<-|[]]. exact Xt.
  - destruct IH as [m' [Hm' [Om' [X0' All']]]]; [discriminate | intros t0 Ht0; apply H; right; exact Ht0|].
    destruct (H t (or_introl eq_refl)) as [m [Hm [Om [X0 Xt]]]].
    destruct (Hlam m m' Hm Hm') as [S|[S|S]].
    + exists m'. repeat split; auto. intros t0 [<-|Ht0]; [apply S; exact Xt | apply All'; exact Ht0].
    + exists m. repeat split; auto. intros t0 [<-|Ht0]; [exact Xt | apply S; apply All'; exact Ht0].
    + exfalso. exact (S x0 X0 X0').
Qed.

Lemma chain_down (ok : qtree -> Prop) x0 es : es <> [] ->
  (forall e, In e es -> exists m, In m ns /\ ok m /\ qcl m x0 = true /\ qcl m e = false) ->
  exists m, In m ns /\ ok m /\ qcl m x0 = true /\ forall e, In e es -> qcl m e = false.
Proof.
  induction es as [|e es IH]; [congruence|]. intros _ H. destruct es as [|e' es'].
  - destruct (H e (or_introl eq_refl)) as [m [Hm [Om [X0 Xe]]]]. exists m. repeat split; auto.
    intros e0 [<-|[]]. exact Xe.
  - destruct IH as [m' [Hm' [Om' [X0' All']]]]; [discriminate | intros e0 He0; apply H; right; exact He0|].
    destruct (H e (or_introl eq_refl)) as [m [Hm [Om [X0 Xe]]]].
    destruct (Hlam m m' Hm Hm') as [S|[S|S]].
    + exists m. repeat split; auto. intros e0 [<-|He0]; [exact Xe|].
      destruct (qcl m e0) eqn:E; [|reflexivity]. pose proof (All' e0 He0) as F. rewrite (S e0 E) in F. discriminate.
    + exists m'. repeat split; auto. intros e0 [<-|He0]; [|apply All'; exact He0].
      destruct (qcl m' e) eqn:E; [|reflexivity]. rewrite (S e E) in Xe. discriminate.
    + exfalso. exact (S x0 X0 X0').
Qed.

(* rooted triples determine a cluster *)
Lemma triples_cluster (A : Z -> bool) a0 b0 :
  In a0 L -> A a0 = true -> In b0 L -> A b0 = false ->
  (forall a a' b, In a L -> In a' L -> In b L -> A a = true -> A a' = true -> A b = false ->
     exists m, In m ns /\ qcl m a = true /\ qcl m a' = true /\ qcl m b = false) ->
  exists m, In m ns /\ forall x, In x L -> qcl m x = A x.
Proof.
  intros Ha0 Aa0 Hb0 Ab0 H3.
  set (As := filter A L). set (Bs := filter (fun x => negb (A x)) L).
  assert (NA : As <> []). { intro E. assert (In a0 As) by (apply filter_In; auto). rewrite E in H. destruct H. }
  assert (NB : Bs <> []). { intro E. assert (In b0 Bs) by (apply filter_In; rewrite Ab0; auto). rewrite E in H. destruct H. }
  assert (S1 : forall b, In b Bs -> exists m, In m ns /\ (forall t, In t As -> qcl m t = true) /\ qcl m a0 = true /\ qcl m b = false).
  { intros b Hb. apply filter_In in Hb. destruct Hb as [HbL Ab]. apply negb_true_iff in Ab.
    destruct (chain_up (fun m => qcl m b = false) a0 As NA) as [m [Hm [Ob [X0 All]]]].
    - intros t Ht. apply filter_In in Ht. destruct Ht as [HtL At].
      destruct (H3 a0 t b Ha0 HtL HbL Aa0 At Ab) as [m [Hm [X1 [X2 X3]]]]. exists m. auto.
    - exists m. auto. }
  destruct (chain_down (fun m => forall t, In t As -> qcl m t = true) a0 Bs NB) as [m [Hm [Om [_ All]]]].
  { intros e He. destruct (S1 e He) as [m [Hm [O1 [O2 O3]]]]. exists m. auto. }
  exists m. split; [exact Hm|]. intros x Hx. destruct (A x) eqn:Ax.
  - apply Om. apply filter_In. auto.
  - apply All. apply filter_In. rewrite Ax. auto.
Qed.

(* quartets determine a split *)
Lemma quartets_split (A : Z -> bool) a0 b0 :
  In a0 L -> A a0 = true -> In b0 L -> A b0 = false ->
  (forall a a' b b', In a L -> In a' L -> In b L -> In b' L ->
     A a = true -> A a' = true -> A b = false -> A b' = false ->
     exists m, In m ns /\ sepq (qcl m) a a' b b' = true) ->
  exists m, In m ns /\ same_split L A (qcl m) = true.
Proof.
  intros Ha0 Aa0 Hb0 Ab0 QC.
  set (t3 := fun a a' b => existsb (fun m => qcl m a && qcl m a' && negb (qcl m b)) ns).
  destruct (forallb (fun a => forallb (fun a' => forallb (fun b => implb (A a && A a' && negb (A b)) (t3 a a' b)) L) L) L) eqn:E.
  - (* every rooted triple is displayed: A is a cluster *)
    destruct (triples_cluster A a0 b0 Ha0 Aa0 Hb0 Ab0) as [m [Hm Em]].
    + intros a a' b Ha Ha' Hb Aa Aa' Ab. rewrite forallb_forall in E. specialize (E a Ha).
      rewrite forallb_forall in E. specialize (E a' Ha'). rewrite forallb_forall in E. specialize (E b Hb).
      rewrite Aa, Aa', Ab in E. simpl in E. unfold t3 in E. apply existsb_exists in E. destruct E as [m [Hm Sm]].
      apply andb_true_iff in Sm. destruct Sm as [Sm S3]. apply andb_true_iff in Sm. destruct Sm as [S1 S2].
      apply negb_true_iff in S3. exists m. auto.
    + exists m. split; [exact Hm|]. apply same_split_iff. left. intros x Hx. symmetry. apply Em. exact Hx.
  - (* some triple is not: the complement is a cluster *)
    apply forallb_false in E. destruct E as [a [Ha E]]. apply forallb_false in E. destruct E as [a' [Ha' E]].
    apply forallb_false in E. destruct E as [b [Hb E]].
    destruct (A a) eqn:Aa; [|discriminate]. destruct (A a') eqn:Aa'; [|discriminate]. destruct (A b) eqn:Ab; [discriminate|].
    simpl in E. unfold t3 in E.
    assert (No : forall m, In m ns -> qcl m a = true -> qcl m a' = true -> qcl m b = false -> False).
    { intros m Hm X1 X2 X3. assert (existsb (fun m => qcl m a && qcl m a' && negb (qcl m b)) ns = true); [|congruence].
      apply existsb_exists. exists m. rewrite X1, X2, X3. auto. }
    set (Bs := filter (fun x => negb (A x)) L).
    assert (NB : Bs <> []). { intro E0. assert (In b Bs) by (apply filter_In; rewrite Ab; auto). rewrite E0 in H. destruct H. }
    destruct (chain_up (fun m => qcl m a = false /\ qcl m a' = false) b Bs NB) as [M [HM [[Ma Ma'] [Mb MB]]]].
    { intros b' Hb'. apply filter_In in Hb'. destruct Hb' as [Hb'L Ab']. apply negb_true_iff in Ab'.
      destruct (QC a a' b b' Ha Ha' Hb Hb'L Aa Aa' Ab Ab') as [m [Hm Sm]].
      destruct (sepq_cases _ _ _ _ _ Sm) as [[X1 [X2 [X3 X4]]]|[X1 [X2 [X3 X4]]]].
      - exfalso. exact (No m Hm X1 X2 X3).
      - exists m. auto. }
    destruct (triples_cluster (fun x => negb (A x)) b0 a0 Hb0) as [m [Hm Em]]; [rewrite Ab0; reflexivity | exact Ha0 | rewrite Aa0; reflexivity | |].
    + intros b1 b2 a'' Hb1 Hb2 Ha'' Nb1 Nb2 Na''. apply negb_true_iff in Nb1. apply negb_true_iff in Nb2. apply negb_false_iff in Na''.
      destruct (qcl M a'') eqn:Ma''.
      * destruct (QC a a'' b1 b2 Ha Ha'' Hb1 Hb2 Aa Na'' Nb1 Nb2) as [m [Hm Sm]].
        destruct (sepq_cases _ _ _ _ _ Sm) as [[X1 [X2 [X3 X4]]]|[X1 [X2 [X3 X4]]]].
        -- exfalso. destruct (Hlam m M Hm HM) as [S|[S|S]].
           ++ rewrite (S a X1) in Ma. discriminate.
           ++ assert (qcl M b1 = true) by (apply MB; apply filter_In; rewrite Nb1; auto). rewrite (S b1 H) in X3. discriminate.
           ++ exact (S a'' X2 Ma'').
        -- exists m. auto.
      * exists M. repeat split; auto; apply MB; apply filter_In; [rewrite Nb1 | rewrite Nb2]; auto.
    + exists m. split; [exact Hm|]. apply same_split_iff. right. intros x Hx. rewrite (Em x Hx). symmetry. apply negb_involutive.
Qed.

(* ---------- tight quartets ---------- *)
Definition subL (P Q : Z -> bool) : bool := forallb (fun x => implb (P x) (Q x)) L.
Definition csize (m : qtree) : nat := length (filter (qcl m) L).

Lemma subL_true P Q : subL P Q = true <-> forall x, In x L -> P x = true -> Q x = true.
Proof.
  unfold subL. rewrite forallb_forall. split; intros H x Hx.
  - intro Px. specialize (H x Hx). rewrite Px in H. exact H.
  - destruct (P x) eqn:Px; [simpl; apply H; auto | reflexivity].
Qed.

Lemma subL_false P Q : subL P Q = false -> exists x, In x L /\ P x = true /\ Q x = false.
Proof.
  intro H. apply forallb_false in H. destruct H as [x [Hx E]]. exists x. destruct (P x), (Q x); try discriminate; auto.
Qed.

Lemma csize_le m m' : (forall x, qcl m x = true -> qcl m' x = true) -> (csize m <= csize m')%nat.
Proof. intro H. apply filter_length_le. intros x _. apply H. Qed.

Lemma csize_lt m m' x : (forall y, qcl m y = true -> qcl m' y = true) -> In x L -> qcl m x = false -> qcl m' x = true ->
  (csize m < csize m')%nat.
Proof. intros H Hx X1 X2. apply (filter_length_lt (qcl m) (qcl m') L x); auto. Qed.

Lemma tight_down n0 : In n0 ns ->
  exists a a', qcl n0 a = true /\ qcl n0 a' = true /\
    (a = a' -> forall x, qcl n0 x = true -> x = a) /\
    forall m, In m ns -> qcl m a = true -> qcl m a' = true -> forall x, qcl n0 x = true -> qcl m x = true.
Proof.
  intro H0.
  set (cands := filter (fun m => subL (qcl m) (qcl n0) && negb (subL (qcl n0) (qcl m))) ns).
  destruct cands as [|c0 cs] eqn:EC.
  - destruct (Hne n0 H0) as [a Xa]. exists a, a. split; [exact Xa|]. split; [exact Xa|].
    assert (Sing : forall x, qcl n0 x = true -> x = a).
    { intros x Xx. destruct (Hleaf x (HL n0 x H0 Xx)) as [mx [Hmx Emx]].
      assert (S1 : subL (qcl mx) (qcl n0) = true).
      { apply subL_true. intros y _ Hy. rewrite Emx in Hy. apply Z.eqb_eq in Hy. subst y. exact Xx. }
      destruct (subL (qcl n0) (qcl mx)) eqn:S2.
      - rewrite subL_true in S2. specialize (S2 a (HL n0 a H0 Xa) Xa). rewrite Emx in S2. apply Z.eqb_eq in S2. exact S2.
      - exfalso. assert (In mx cands) by (apply filter_In; rewrite S1, S2; auto). rewrite EC in H. destruct H. }
    split; [intros _; exact Sing|]. intros m Hm Xm _ x Xx. rewrite (Sing x Xx). exact Xm.
  - destruct (argmax_ex csize cands) as [m1 [Hm1 Max]]; [rewrite EC; discriminate|].
    apply filter_In in Hm1. destruct Hm1 as [Hm1 P1]. apply andb_true_iff in P1. destruct P1 as [S1 S2].
    apply negb_true_iff in S2. rewrite subL_true in S1. apply subL_false in S2. destruct S2 as [a' [Ha' [Xa' Na']]].
    destruct (Hne m1 Hm1) as [a Xa1]. assert (Xa : qcl n0 a = true) by (apply S1; [apply (HL m1 a Hm1 Xa1) | exact Xa1]).
    exists a, a'. split; [exact Xa|]. split; [exact Xa'|]. split; [intro E; subst a'; congruence|].
    intros m Hm Xma Xma' x Xx.
    assert (Sub1 : forall y, qcl m1 y = true -> qcl m y = true).
    { destruct (Hlam m m1 Hm Hm1) as [S|[S|S]]; [rewrite (S a' Xma') in Na'; discriminate | exact S | exfalso; exact (S a Xma Xa1)]. }
    destruct (Hlam m n0 Hm H0) as [S|[S|S]]; [| apply S; exact Xx | exfalso; exact (S a Xma Xa)].
    destruct (subL (qcl n0) (qcl m)) eqn:S3.
    + rewrite subL_true in S3. apply S3; [apply (HL n0 x H0 Xx) | exact Xx].
    + exfalso. assert (Hc : In m (filter (fun m => subL (qcl m) (qcl n0) && negb (subL (qcl n0) (qcl m))) ns)).
      { apply filter_In. split; [exact Hm|]. rewrite S3. rewrite andb_true_r. apply subL_true. intros y _ Hy. apply S. exact Hy. }
      fold cands in Hc. pose proof (Max m Hc). pose proof (csize_lt m1 m a' Sub1 Ha' Na' Xma'). lia.
Qed.

Lemma tight_up n0 b0 : In n0 ns -> In b0 L -> qcl n0 b0 = false ->
  exists b b', In b L /\ In b' L /\ qcl n0 b = false /\ qcl n0 b' = false /\
    (b = b' -> forall x, In x L -> qcl n0 x = false -> x = b) /\
    (forall m, In m ns -> (forall x, qcl n0 x = true -> qcl m x = true) -> qcl m b = false -> qcl m b' = false ->
       forall x, qcl m x = true -> qcl n0 x = true) /\
    (forall m, In m ns -> qcl m b = true -> qcl m b' = true -> (forall x, qcl m x = true -> qcl n0 x = true -> False) ->
       forall x, In x L -> qcl n0 x = false -> qcl m x = true).
Proof.
  intros H0 Hb0 Nb0. destruct (Hne n0 H0) as [a Xa]. pose proof (HL n0 a H0 Xa) as HaL.
  set (p2 := fun m => subL (qcl n0) (qcl m) && negb (subL (qcl m) (qcl n0)) && negb (subL (fun _ => true) (qcl m))).
  set (cands2 := filter p2 ns).
  destruct cands2 as [|c0 cs] eqn:EC2.
  - (* no cluster strictly between n0 and L *)
    assert (C1 : forall b b', In b L -> qcl n0 b = false ->
              forall m, In m ns -> (forall x, qcl n0 x = true -> qcl m x = true) -> qcl m b = false -> qcl m b' = false ->
              forall x, qcl m x = true -> qcl n0 x = true).
    { intros b b' Hb Nb m Hm Sup Mb _ x Xx. destruct (subL (qcl m) (qcl n0)) eqn:S1.
      - rewrite subL_true in S1. apply S1; [apply (HL m x Hm Xx) | exact Xx].
      - exfalso. assert (Hc : In m (filter p2 ns)).
        { apply filter_In. split; [exact Hm|]. unfold p2. rewrite S1. simpl. rewrite andb_true_r. apply andb_true_iff. split.
          - apply subL_true. intros y _ Hy. apply Sup. exact Hy.
          - apply negb_true_iff. destruct (subL (fun _ => true) (qcl m)) eqn:S2; [|reflexivity].
            rewrite subL_true in S2. rewrite (S2 b Hb eq_refl) in Mb. discriminate. }
        fold cands2 in Hc. rewrite EC2 in Hc. destruct Hc. }
    set (p3 := fun m => forallb (fun x => negb (qcl m x && qcl n0 x)) L && negb (subL (fun x => negb (qcl n0 x)) (qcl m))).
    set (cands3 := filter p3 ns).
    destruct cands3 as [|c1 cs1] eqn:EC3.
    + (* the complement is a single taxon *)
      assert (Sing : forall x, In x L -> qcl n0 x = false -> x = b0).
      { intros x Hx Nx. destruct (Hleaf x Hx) as [mx [Hmx Emx]].
        assert (D : forallb (fun y => negb (qcl mx y && qcl n0 y)) L = true).
        { apply forallb_forall. intros y _. rewrite Emx. destruct (Z.eqb x y) eqn:Exy; [|reflexivity].
          apply Z.eqb_eq in Exy. subst y. rewrite Nx. reflexivity. }
        destruct (subL (fun y => negb (qcl n0 y)) (qcl mx)) eqn:S2.
        - rewrite subL_true in S2. assert (qcl mx b0 = true) by (apply S2; [exact Hb0 | rewrite Nb0; reflexivity]).
          rewrite Emx in H. apply Z.eqb_eq in H. exact H.
        - exfalso. assert (Hc : In mx (filter p3 ns)) by (apply filter_In; unfold p3; rewrite D, S2; auto).
          fold cands3 in Hc. rewrite EC3 in Hc. destruct Hc. }
      exists b0, b0. repeat split; auto.
      * apply (C1 b0 b0 Hb0 Nb0).
      * intros m Hm Mb _ _ x Hx Nx. rewrite (Sing x Hx Nx). exact Mb.
    + destruct (argmax_ex csize cands3) as [m3 [Hm3 Max]]; [rewrite EC3; discriminate|].
      apply filter_In in Hm3. destruct Hm3 as [Hm3 P3]. apply andb_true_iff in P3. destruct P3 as [D3 S3].
      apply negb_true_iff in S3. apply subL_false in S3. destruct S3 as [b' [Hb' [Nb' Mb']]]. apply negb_true_iff in Nb'.
      destruct (Hne m3 Hm3) as [b Xb]. pose proof (HL m3 b Hm3 Xb) as HbL.
      assert (Nb : qcl n0 b = false).
      { rewrite forallb_forall in D3. specialize (D3 b HbL). rewrite Xb in D3. simpl in D3. apply negb_true_iff in D3. exact D3. }
      exists b, b'. split; [exact HbL|]. split; [exact Hb'|]. split; [exact Nb|]. split; [exact Nb'|].
      split; [intro E; subst b'; congruence|]. split; [apply (C1 b b' HbL Nb)|].
      intros m Hm Mb Mb2 Dis x Hx Nx.
      assert (Sub3 : forall y, qcl m3 y = true -> qcl m y = true).
      { destruct (Hlam m m3 Hm Hm3) as [S|[S|S]]; [rewrite (S b' Mb2) in Mb'; discriminate | exact S | exfalso; exact (S b Mb Xb)]. }
      destruct (subL (fun y => negb (qcl n0 y)) (qcl m)) eqn:S4.
      * rewrite subL_true in S4. apply S4; [exact Hx | rewrite Nx; reflexivity].
      * exfalso. assert (Hc : In m (filter p3 ns)).
        { apply filter_In. split; [exact Hm|]. unfold p3. rewrite S4, andb_true_r. apply forallb_forall. intros y _.
          destruct (qcl m y) eqn:My; [|reflexivity]. destruct (qcl n0 y) eqn:Ny; [|reflexivity]. exfalso. exact (Dis y My Ny). }
        fold cands3 in Hc. pose proof (Max m Hc). pose proof (csize_lt m3 m b' Sub3 Hb' Mb' Mb2). lia.
  - (* the smallest cluster strictly between n0 and L *)
    destruct (argmin_ex csize cands2) as [m2 [Hm2 Min]]; [rewrite EC2; discriminate|].
    apply filter_In in Hm2. destruct Hm2 as [Hm2 P2]. unfold p2 in P2.
    apply andb_true_iff in P2. destruct P2 as [P2 S3]. apply andb_true_iff in P2. destruct P2 as [S1 S2].
    apply negb_true_iff in S2. apply negb_true_iff in S3. rewrite subL_true in S1.
    apply subL_false in S2. destruct S2 as [b [Hb [Mb Nb]]]. apply subL_false in S3. destruct S3 as [b' [Hb' [_ Mb']]].
    assert (Nb' : qcl n0 b' = false).
    { destruct (qcl n0 b') eqn:E; [|reflexivity]. rewrite (S1 b' Hb' E) in Mb'. discriminate. }
    assert (Ma2 : qcl m2 a = true) by (apply S1; auto).
    exists b, b'. split; [exact Hb|]. split; [exact Hb'|]. split; [exact Nb|]. split; [exact Nb'|].
    split; [intro E; subst b'; congruence|]. split.
    + intros m Hm Sup Xb Xb' x Xx.
      assert (Sub2 : forall y, qcl m y = true -> qcl m2 y = true).
      { destruct (Hlam m m2 Hm Hm2) as [S|[S|S]]; [exact S | rewrite (S b Mb) in Xb; discriminate | exfalso; exact (S a (Sup a Xa) Ma2)]. }
      destruct (subL (qcl m) (qcl n0)) eqn:S4.
      * rewrite subL_true in S4. apply S4; [apply (HL m x Hm Xx) | exact Xx].
      * exfalso. assert (Hc : In m (filter p2 ns)).
        { apply filter_In. split; [exact Hm|]. unfold p2. rewrite S4. simpl. rewrite andb_true_r. apply andb_true_iff. split.
          - apply subL_true. intros y _ Hy. apply Sup. exact Hy.
          - apply negb_true_iff. destruct (subL (fun _ => true) (qcl m)) eqn:S5; [|reflexivity].
            rewrite subL_true in S5. rewrite (S5 b Hb eq_refl) in Xb. discriminate. }
        fold cands2 in Hc. pose proof (Min m Hc). pose proof (csize_lt m m2 b Sub2 Hb Xb Mb). lia.
    + intros m Hm Xb Xb' Dis x Hx Nx. exfalso.
      destruct (Hlam m m2 Hm Hm2) as [S|[S|S]].
      * rewrite (S b' Xb') in Mb'. discriminate.
      * exact (Dis a (S a Ma2) Xa).
      * exact (S b Xb Mb).
Qed.

Lemma tight_quartet n0 b0 : In n0 ns -> In b0 L -> qcl n0 b0 = false ->
  exists a a' b b', In a L /\ In a' L /\ In b L /\ In b' L /\
    qcl n0 a = true /\ qcl n0 a' = true /\ qcl n0 b = false /\ qcl n0 b' = false /\
    (a = a' -> forall x, qcl n0 x = true -> x = a) /\
    (b = b' -> forall x, In x L -> qcl n0 x = false -> x = b) /\
    forall m, In m ns -> sepq (qcl m) a a' b b' = true -> same_split L (qcl n0) (qcl m) = true.
Proof.
  intros H0 Hb0 Nb0.
  destruct (tight_down n0 H0) as [a [a' [Xa [Xa' [Sa Dn]]]]].
  destruct (tight_up n0 b0 H0 Hb0 Nb0) as [b [b' [Hb [Hb' [Nb [Nb' [Sb [Up1 Up2]]]]]]]].
  exists a, a', b, b'. repeat split; auto; try (eapply HL; eassumption).
  intros m Hm Sm. apply same_split_iff.
  destruct (sepq_cases _ _ _ _ _ Sm) as [[X1 [X2 [X3 X4]]]|[X1 [X2 [X3 X4]]]].
  - left. intros x _. pose proof (Dn m Hm X1 X2) as Sup. pose proof (Up1 m Hm Sup X3 X4) as Sub.
    destruct (qcl n0 x) eqn:E1; destruct (qcl m x) eqn:E2; try reflexivity.
    + rewrite (Sup x E1) in E2. discriminate.
    + rewrite (Sub x E2) in E1. discriminate.
  - right. assert (Dis : forall x, qcl m x = true -> qcl n0 x = true -> False).
    { destruct (Hlam m n0 Hm H0) as [S|[S|S]]; [rewrite (S b X3) in Nb; discriminate | rewrite (S a Xa) in X1; discriminate | exact S]. }
    intros x Hx. destruct (qcl n0 x) eqn:E1; destruct (qcl m x) eqn:E2; try reflexivity.
    + exfalso. exact (Dis x E2 E1).
    + rewrite (Up2 m Hm X3 X4 Dis x Hx E1) in E2. discriminate.
Qed.

(* a cluster separating aa'|bb' excludes any cluster separating ab|a'b' *)
Lemma lam_nosepx n a a' b b' : In n ns -> sepq (qcl n) a a' b b' = true ->
  forall m, In m ns -> sepq (qcl m) a b a' b' = false.
Proof.
  intros Hn Sn m Hm. destruct (sepq (qcl m) a b a' b') eqn:Sm; [|reflexivity]. exfalso.
  destruct (sepq_cases _ _ _ _ _ Sn) as [[X1 [X2 [X3 X4]]]|[X1 [X2 [X3 X4]]]];
  destruct (sepq_cases _ _ _ _ _ Sm) as [[Y1 [Y2 [Y3 Y4]]]|[Y1 [Y2 [Y3 Y4]]]];
  destruct (Hlam n m Hn Hm) as [S|[S|S]];
  try (rewrite (S _ X1) in *; discriminate); try (rewrite (S _ X2) in *; discriminate);
  try (rewrite (S _ X3) in *; discriminate); try (rewrite (S _ X4) in *; discriminate);
  try (rewrite (S _ Y1) in *; discriminate); try (rewrite (S _ Y2) in *; discriminate);
  try (rewrite (S _ Y3) in *; discriminate); try (rewrite (S _ Y4) in *; discriminate);
  try (exact (S _ X1 Y1)); try (exact (S _ X2 Y3)); try (exact (S _ X3 Y2)); try (exact (S _ X4 Y4));
  try (exact (S _ X2 Y4)); try (exact (S _ X1 Y2)); try (exact (S _ X3 Y1)); try (exact (S _ X4 Y3)).
Qed.

(* ---------- grouping the nodes by the split they induce ---------- *)
Lemma group_nonneg : forall n (S : qtree -> bool),
  (length (filter S ns) <= n)%nat ->
  (forall m, In m ns -> S m = true -> (0 <= slen (qcl m))%Q) ->
  (forall m m', In m ns -> In m' ns -> same_split L (qcl m) (qcl m') = true -> S m = S m') ->
  (0 <= sumif S ns)%Q.
Proof.
  induction n as [|n IH]; intros S Len Pos Resp.
  - assert (forall m, In m ns -> S m = false).
    { intros m Hm. destruct (S m) eqn:E; [|reflexivity]. assert (In m (filter S ns)) by (apply filter_In; auto).
      destruct (filter S ns); [destruct H | simpl in Len; lia]. }
    rewrite (sumif_false S ns H). lra.
  - destruct (filter S ns) as [|m0 r] eqn:EF.
    + assert (forall m, In m ns -> S m = false).
      { intros m Hm. destruct (S m) eqn:E; [|reflexivity]. assert (In m (filter S ns)) by (apply filter_In; auto).
        rewrite EF in H. destruct H. }
      rewrite (sumif_false S ns H). lra.
    + assert (H0 : In m0 (filter S ns)) by (rewrite EF; left; reflexivity). apply filter_In in H0. destruct H0 as [H0 S0].
      set (S' := fun m => S m && negb (same_split L (qcl m0) (qcl m))).
      assert (E : (sumif S ns == slen (qcl m0) + sumif S' ns)%Q).
      { unfold slen. apply sumif_or.
        - intros m Hm. unfold S'. destruct (same_split L (qcl m0) (qcl m)) eqn:E1; simpl.
          + rewrite <- (Resp m0 m H0 Hm E1). exact S0.
          + rewrite andb_true_r. reflexivity.
        - intros m Hm. unfold S'. destruct (same_split L (qcl m0) (qcl m)); simpl; [apply andb_false_r | reflexivity]. }
      rewrite E. pose proof (Pos m0 H0 S0) as P0.
      assert (P1 : (0 <= sumif S' ns)%Q).
      { apply IH.
        - assert (length (filter S' ns) < length (filter S ns))%nat; [|rewrite EF in *; simpl in *; lia].
          apply (filter_length_lt S' S ns m0); auto.
          + intros y _ Hy. unfold S' in Hy. apply andb_true_iff in Hy. tauto.
          + unfold S'. rewrite same_split_refl. apply andb_false_r.
        - intros m Hm Hs. unfold S' in Hs. apply andb_true_iff in Hs. apply Pos; tauto.
        - intros m m' Hm Hm' Sm. unfold S'. rewrite (Resp m m' Hm Hm' Sm), (same_split_congr L (qcl m0) (qcl m) (qcl m') Sm). reflexivity. }
      lra.
Qed.

Lemma sep_proper m a a' b b' : In a L -> In b L -> sepq (qcl m) a a' b b' = true -> proper_split L (qcl m).
Proof.
  intros Ha Hb S. destruct (sepq_cases _ _ _ _ _ S) as [[X1 [X2 [X3 X4]]]|[X1 [X2 [X3 X4]]]]; split; eauto.
Qed.

(* ---------- the quartet expression bounds the length of a split ---------- *)
Lemma slen_congr s s' : same_split L s s' = true -> (slen s == slen s')%Q.
Proof.
  intro H. unfold slen. apply sumif_ext. intros m _.
  rewrite (same_split_sym L s (qcl m)), (same_split_sym L s' (qcl m)). apply same_split_congr. exact H.
Qed.

Lemma bound_present s n a a' b b' :
  snonneg -> In n ns -> same_split L s (qcl n) = true ->
  In a L -> In a' L -> In b L -> In b' L -> s a = true -> s a' = true -> s b = false -> s b' = false ->
  (2 * slen s <= dexpr ns a a' b b')%Q.
Proof.
  intros SN Hn Sn Ha Ha' Hb Hb' A1 A2 B1 B2.
  assert (SepS : forall m, In m ns -> same_split L s (qcl m) = true -> sepq (qcl m) a a' b b' = true).
  { intros m Hm Sm. rewrite <- (sepq_same L s (qcl m) a a' b b' Ha Ha' Hb Hb' Sm). unfold sepq. rewrite A1, A2, B1, B2. reflexivity. }
  rewrite dexpr_sep.
  rewrite (sumif_false (fun m => sepq (qcl m) a b a' b') ns (lam_nosepx n a a' b b' Hn (SepS n Hn Sn))).
  set (S2 := fun m => sepq (qcl m) a a' b b' && negb (same_split L s (qcl m))).
  assert (E : (sumif (fun m => sepq (qcl m) a a' b b') ns == slen s + sumif S2 ns)%Q).
  { unfold slen. apply sumif_or.
    - intros m Hm. unfold S2. destruct (same_split L s (qcl m)) eqn:E1; simpl; [apply SepS; auto | rewrite andb_true_r; reflexivity].
    - intros m Hm. unfold S2. destruct (same_split L s (qcl m)); simpl; [apply andb_false_r | reflexivity]. }
  rewrite E. assert (P : (0 <= sumif S2 ns)%Q); [|lra].
  apply (group_nonneg (length (filter S2 ns)) S2 (le_n _)).
  - intros m Hm Hs. unfold S2 in Hs. apply andb_true_iff in Hs. destruct Hs as [Hs _]. apply SN; [exact Hm|].
    apply (sep_proper m a a' b b' Ha Hb Hs).
  - intros m m' Hm Hm' Smm. unfold S2. rewrite (sepq_same L (qcl m) (qcl m') a a' b b' Ha Ha' Hb Hb' Smm),
      (same_split_congr L s (qcl m) (qcl m') Smm). reflexivity.
Qed.

Lemma bound_absent a a' b b' :
  snonneg -> In a L -> In a' L -> In b L -> In b' L ->
  (forall m, In m ns -> sepq (qcl m) a a' b b' = false) ->
  (dexpr ns a a' b b' <= 0)%Q.
Proof.
  intros SN Ha Ha' Hb Hb' No. rewrite dexpr_sep. rewrite (sumif_false _ ns No).
  assert (P : (0 <= sumif (fun m => sepq (qcl m) a b a' b') ns)%Q); [|lra].
  apply (group_nonneg (length (filter (fun m => sepq (qcl m) a b a' b') ns)) _ (le_n _)).
  - intros m Hm Hs. apply SN; [exact Hm|]. apply (sep_proper m a b a' b' Ha Ha' Hs).
  - intros m m' Hm Hm' Smm. apply (sepq_same L (qcl m) (qcl m') a b a' b' Ha Hb Ha' Hb' Smm).
Qed.

(* a split that is not induced by any node has a quartet across it that no node separates *)
Lemma absent_quartet s :
  proper_split L s -> (forall m, In m ns -> same_split L s (qcl m) = false) ->
  exists a a' b b', In a L /\ In a' L /\ In b L /\ In b' L /\
    s a = true /\ s a' = true /\ s b = false /\ s b' = false /\
    forall m, In m ns -> sepq (qcl m) a a' b b' = false.
Proof.
  intros [[a0 [Ha0 Aa0]] [b0 [Hb0 Ab0]]] No.
  set (ex := fun a a' b b' => existsb (fun m => sepq (qcl m) a a' b b') ns).
  destruct (forallb (fun a => forallb (fun a' => forallb (fun b => forallb (fun b' =>
              implb (s a && s a' && negb (s b) && negb (s b')) (ex a a' b b')) L) L) L) L) eqn:E.
  - exfalso. destruct (quartets_split s a0 b0 Ha0 Aa0 Hb0 Ab0) as [m [Hm Sm]].
    + intros a a' b b' Ha Ha' Hb Hb' A1 A2 B1 B2. rewrite forallb_forall in E. specialize (E a Ha).
      rewrite forallb_forall in E. specialize (E a' Ha'). rewrite forallb_forall in E. specialize (E b Hb).
      rewrite forallb_forall in E. specialize (E b' Hb'). rewrite A1, A2, B1, B2 in E. simpl in E.
      unfold ex in E. apply existsb_exists in E. exact E.
    + rewrite (No m Hm) in Sm. discriminate.
  - apply forallb_false in E. destruct E as [a [Ha E]]. apply forallb_false in E. destruct E as [a' [Ha' E]].
    apply forallb_false in E. destruct E as [b [Hb E]]. apply forallb_false in E. destruct E as [b' [Hb' E]].
    destruct (s a) eqn:A1; [|discriminate]. destruct (s a') eqn:A2; [|discriminate].
    destruct (s b) eqn:B1; [discriminate|]. destruct (s b') eqn:B2; [discriminate|]. simpl in E.
    exists a, a', b, b'. repeat split; auto. intros m Hm. destruct (sepq (qcl m) a a' b b') eqn:Sm; [|reflexivity].
    unfold ex in E. assert (existsb (fun m => sepq (qcl m) a a' b b') ns = true); [|congruence].
    apply existsb_exists. exists m. auto.
Qed.

(* the tight quartet of a node evaluates to twice the length of its split *)
Lemma tight_eval n0 b0 : In n0 ns -> In b0 L -> qcl n0 b0 = false ->
  exists a a' b b', In a L /\ In a' L /\ In b L /\ In b' L /\
    qcl n0 a = true /\ qcl n0 a' = true /\ qcl n0 b = false /\ qcl n0 b' = false /\
    (a = a' -> forall x, qcl n0 x = true -> x = a) /\
    (b = b' -> forall x, In x L -> qcl n0 x = false -> x = b) /\
    (dexpr ns a a' b b' == 2 * slen (qcl n0))%Q /\ (dexpr ns a a' b' b == 2 * slen (qcl n0))%Q.
Proof.
  intros H0 Hb0 Nb0.
  destruct (tight_quartet n0 b0 H0 Hb0 Nb0) as [a [a' [b [b' [Ha [Ha' [Hb [Hb' [X1 [X2 [X3 [X4 [Sa [Sb Tight]]]]]]]]]]]]]].
  exists a, a', b, b'. repeat split; auto.
  - assert (S0 : sepq (qcl n0) a a' b b' = true) by (unfold sepq; rewrite X1, X2, X3, X4; reflexivity).
    rewrite dexpr_sep. rewrite (sumif_false (fun m => sepq (qcl m) a b a' b') ns (lam_nosepx n0 a a' b b' H0 S0)).
    assert (E : (sumif (fun m => sepq (qcl m) a a' b b') ns == slen (qcl n0))%Q); [|rewrite E; ring].
    unfold slen. apply sumif_ext. intros m Hm. destruct (sepq (qcl m) a a' b b') eqn:Sm.
    + symmetry. apply Tight; auto.
    + destruct (same_split L (qcl n0) (qcl m)) eqn:E1; [|reflexivity].
      rewrite <- (sepq_same L (qcl n0) (qcl m) a a' b b' Ha Ha' Hb Hb' E1), S0 in Sm. discriminate.
  - (* the other pairing: d(a,b') + d(a',b) - d(a,a') - d(b,b') *)
    assert (S0 : sepq (qcl n0) a a' b' b = true) by (unfold sepq; rewrite X1, X2, X3, X4; reflexivity).
    rewrite dexpr_sep. rewrite (sumif_false (fun m => sepq (qcl m) a b' a' b) ns (lam_nosepx n0 a a' b' b H0 S0)).
    assert (E : (sumif (fun m => sepq (qcl m) a a' b' b) ns == slen (qcl n0))%Q); [|rewrite E; ring].
    unfold slen. apply sumif_ext. intros m Hm.
    assert (Sw : forall c, sepq c a a' b' b = sepq c a a' b b').
    { intro c. unfold sepq. destruct (c a), (c a'), (c b), (c b'); reflexivity. }
    rewrite Sw. destruct (sepq (qcl m) a a' b b') eqn:Sm.
    + symmetry. apply Tight; auto.
    + destruct (same_split L (qcl n0) (qcl m)) eqn:E1; [|reflexivity].
      rewrite <- (sepq_same L (qcl n0) (qcl m) a a' b b' Ha Ha' Hb Hb' E1) in Sm. rewrite Sw in S0. congruence.
Qed.

End Family.
