(* C03 proofs: links between the context-style results delivered by the heap proofs and the
   executable specification functions of Model/C03Spec.v.  Pure tree-level lemmas (no heap). *)
From Coq Require Import ZArith List Bool Lia Permutation.
From DV Require Import Model.PyPrims Model.Tree Model.C03Spec
  Proofs.C03Base Proofs.C03Local Proofs.C03Reseed Proofs.C03Order.
Import ListNotations. Open Scope Z_scope.

(* ---------- lifting a local rewrite through a context ---------- *)

(* F searches for node ci and passes transparently through every node that is not ci and whose
   other children do not contain ci *)
Definition passes (ci : Z) (F : tree -> tree) : Prop :=
  forall i x l e lft s rgt,
    ~ In ci (flat_map ids lft) -> ~ In ci (flat_map ids rgt) -> i <> ci -> t_id s <> ci ->
    F (T i x l e (lft ++ s :: rgt)) = T i x l e (lft ++ F s :: rgt).

Lemma lift_ctx ci F (HF : passes ci F) c :
  forall s, NoDup (ids (plug c s)) -> In ci (ids s) -> t_id s <> ci ->
            F (plug c s) = plug c (F s).
Proof.
  induction c as [|c' IH i x l e lft rgt]; intros s N I D; simpl; [reflexivity|].
  simpl plug in N. pose proof N as N0. apply nodup_plug in N0. destruct N0 as [N1 _].
  pose proof (focus_facts _ _ _ _ _ _ _ N1) as FF.
  assert (Di : i <> ci). { intro E. subst i. exact (fn_p_tc _ _ _ _ FF I). }
  rewrite IH.
  - f_equal. apply HF; [exact (fn_tc_lft _ _ _ _ FF ci I)|exact (fn_tc_rgt _ _ _ _ FF ci I)|exact Di|exact D].
  - exact N.
  - rewrite ids_focus. right. apply in_app_iff. right. apply in_app_iff. left. exact I.
  - exact Di.
Qed.

(* ---------- A. spec_prune ---------- *)

Definition prune_kid (ci : Z) (k : tree) : list tree :=
  if Z.eqb (t_id k) ci then [] else [spec_prune ci k].

Lemma spec_prune_eq ci i x l e ks :
  spec_prune ci (T i x l e ks) = T i x l e (flat_map (prune_kid ci) ks).
Proof. reflexivity. Qed.

Lemma prune_kids_notin ci ks :
  Forall (fun k => ~ In ci (ids k) -> spec_prune ci k = k) ks ->
  ~ In ci (flat_map ids ks) -> flat_map (prune_kid ci) ks = ks.
Proof.
  induction 1 as [|k r Hk Hr IHr]; simpl; intro N; [reflexivity|].
  rewrite in_app_iff in N. unfold prune_kid at 1.
  destruct (Z.eqb (t_id k) ci) eqn:E.
  - apply Z.eqb_eq in E. exfalso. apply N. left. rewrite <- E. apply ids_root.
  - simpl. rewrite Hk by tauto. f_equal. apply IHr. tauto.
Qed.

Lemma spec_prune_notin : forall t ci, ~ In ci (ids t) -> spec_prune ci t = t.
Proof.
  induction t as [i x l e ks IH] using tree_ind'. intros ci N. rewrite ids_eq in N.
  rewrite spec_prune_eq. f_equal. apply prune_kids_notin.
  - eapply Forall_impl; [|exact IH]. intros k Hk. apply Hk.
  - intro H. apply N. right. exact H.
Qed.

Lemma prune_kids_notin' ci ks : ~ In ci (flat_map ids ks) -> flat_map (prune_kid ci) ks = ks.
Proof.
  apply prune_kids_notin. apply Forall_forall. intros k _. apply spec_prune_notin.
Qed.

Lemma spec_prune_passes ci : passes ci (spec_prune ci).
Proof.
  intros i x l e lft s rgt Nl Nr _ Ds. rewrite spec_prune_eq, flat_map_app. simpl.
  rewrite !prune_kids_notin' by assumption. unfold prune_kid.
  apply Z.eqb_neq in Ds. rewrite Ds. reflexivity.
Qed.

Lemma spec_prune_focus p x l e lft tc rgt :
  NoDup (ids (T p x l e (lft ++ tc :: rgt))) ->
  spec_prune (t_id tc) (T p x l e (lft ++ tc :: rgt)) = T p x l e (lft ++ rgt).
Proof.
  intro N. pose proof (focus_facts _ _ _ _ _ _ _ N) as FF.
  rewrite spec_prune_eq, flat_map_app. simpl.
  rewrite !prune_kids_notin'.
  - unfold prune_kid. rewrite Z.eqb_refl. reflexivity.
  - exact (fn_tc_rgt _ _ _ _ FF _ (ids_root tc)).
  - exact (fn_tc_lft _ _ _ _ FF _ (ids_root tc)).
Qed.

Lemma spec_prune_plug c p x l e lft tc rgt :
  NoDup (ids (plug c (T p x l e (lft ++ tc :: rgt)))) ->
  spec_prune (t_id tc) (plug c (T p x l e (lft ++ tc :: rgt))) = plug c (T p x l e (lft ++ rgt)).
Proof.
  intro N. pose proof N as N0. apply nodup_plug in N0. destruct N0 as [N1 _].
  pose proof (focus_facts _ _ _ _ _ _ _ N1) as FF.
  rewrite (lift_ctx (t_id tc) _ (spec_prune_passes (t_id tc))).
  - rewrite spec_prune_focus by exact N1. reflexivity.
  - exact N.
  - rewrite ids_focus. right. apply in_app_iff. right. apply in_app_iff. left. apply ids_root.
  - simpl. intro E. apply (fn_p_tc _ _ _ _ FF). rewrite E. apply ids_root.
Qed.

(* ---------- B. spec_collapse ---------- *)

Definition collapse_kid (ci : Z) (adj : bool) (k : tree) : list tree :=
  match k with
  | T j _ _ ej ((_ :: _) as kk) =>
    if Z.eqb j ci then map (bump (if adj then ej else None)) kk
    else [spec_collapse ci adj k]
  | _ => [spec_collapse ci adj k]
  end.

Lemma spec_collapse_eq ci adj i x l e ks :
  spec_collapse ci adj (T i x l e ks) = T i x l e (flat_map (collapse_kid ci adj) ks).
Proof. reflexivity. Qed.

Lemma collapse_kid_ne ci adj k : t_id k <> ci -> collapse_kid ci adj k = [spec_collapse ci adj k].
Proof.
  destruct k as [j xj lj ej [|k1 kr]]; intro D; [reflexivity|].
  unfold collapse_kid. simpl in D. apply Z.eqb_neq in D. rewrite D. reflexivity.
Qed.

Lemma collapse_kids_notin ci adj ks :
  Forall (fun k => ~ In ci (ids k) -> spec_collapse ci adj k = k) ks ->
  ~ In ci (flat_map ids ks) -> flat_map (collapse_kid ci adj) ks = ks.
Proof.
  induction 1 as [|k r Hk Hr IHr]; simpl; intro N; [reflexivity|].
  rewrite in_app_iff in N. rewrite collapse_kid_ne.
  - simpl. rewrite Hk by tauto. f_equal. apply IHr. tauto.
  - intro E. apply N. left. rewrite <- E. apply ids_root.
Qed.

Lemma spec_collapse_notin : forall t ci adj, ~ In ci (ids t) -> spec_collapse ci adj t = t.
Proof.
  induction t as [i x l e ks IH] using tree_ind'. intros ci adj N. rewrite ids_eq in N.
  rewrite spec_collapse_eq. f_equal. apply collapse_kids_notin.
  - eapply Forall_impl; [|exact IH]. intros k Hk. apply Hk.
  - intro H. apply N. right. exact H.
Qed.

Lemma collapse_kids_notin' ci adj ks :
  ~ In ci (flat_map ids ks) -> flat_map (collapse_kid ci adj) ks = ks.
Proof.
  apply collapse_kids_notin. apply Forall_forall. intros k _. apply spec_collapse_notin.
Qed.

Lemma spec_collapse_passes ci adj : passes ci (spec_collapse ci adj).
Proof.
  intros i x l e lft s rgt Nl Nr _ Ds. rewrite spec_collapse_eq, flat_map_app. simpl.
  rewrite !collapse_kids_notin' by assumption. rewrite collapse_kid_ne by exact Ds. reflexivity.
Qed.

Lemma spec_collapse_focus p x l e lft ci xc lc ec kc rgt adj :
  kc <> [] ->
  NoDup (ids (T p x l e (lft ++ T ci xc lc ec kc :: rgt))) ->
  spec_collapse ci adj (T p x l e (lft ++ T ci xc lc ec kc :: rgt))
  = T p x l e (lft ++ map (bump (if adj then ec else None)) kc ++ rgt).
Proof.
  intros Hk N. pose proof (focus_facts _ _ _ _ _ _ _ N) as FF.
  rewrite spec_collapse_eq, flat_map_app. simpl.
  rewrite !collapse_kids_notin'.
  - destruct kc as [|k1 kr]; [congruence|]. unfold collapse_kid. rewrite Z.eqb_refl. reflexivity.
  - exact (fn_tc_rgt _ _ _ _ FF _ (ids_root (T ci xc lc ec kc))).
  - exact (fn_tc_lft _ _ _ _ FF _ (ids_root (T ci xc lc ec kc))).
Qed.

Lemma spec_collapse_plug c p x l e lft ci xc lc ec kc rgt adj :
  kc <> [] ->
  NoDup (ids (plug c (T p x l e (lft ++ T ci xc lc ec kc :: rgt)))) ->
  spec_collapse ci adj (plug c (T p x l e (lft ++ T ci xc lc ec kc :: rgt)))
  = plug c (T p x l e (lft ++ map (bump (if adj then ec else None)) kc ++ rgt)).
Proof.
  intros Hk N. pose proof N as N0. apply nodup_plug in N0. destruct N0 as [N1 _].
  pose proof (focus_facts _ _ _ _ _ _ _ N1) as FF.
  rewrite (lift_ctx ci _ (spec_collapse_passes ci adj)).
  - rewrite spec_collapse_focus by assumption. reflexivity.
  - exact N.
  - rewrite ids_focus. right. apply in_app_iff. right. apply in_app_iff. left.
    apply (ids_root (T ci xc lc ec kc)).
  - simpl. intro E. apply (fn_p_tc _ _ _ _ FF). rewrite E. apply (ids_root (T ci xc lc ec kc)).
Qed.

(* ---------- C. re-rooting: rr / spec_reseed ---------- *)

(* the local loop of rr, named *)
Definition rr_go (n i : Z) (x l e : option Z) (upk : option Z -> list tree) (rl : option Z)
  : list tree -> list tree -> option tree :=
  fix go (lft rgt : list tree) : option tree :=
    match rgt with
    | [] => None
    | k :: r =>
      match rr n k (fun lk => [T i x l lk (rev lft ++ r ++ upk e)]) rl with
      | Some t' => Some t'
      | None => go (k :: lft) r
      end
    end.

Lemma rr_eq n i x l e ks upk rl :
  rr n (T i x l e ks) upk rl =
  if Z.eqb i n then Some (T i x l rl (ks ++ upk e)) else rr_go n i x l e upk rl [] ks.
Proof. reflexivity. Qed.

Lemma rr_go_cons n i x l e upk rl lft k r :
  rr_go n i x l e upk rl lft (k :: r) =
  match rr n k (fun lk => [T i x l lk (rev lft ++ r ++ upk e)]) rl with
  | Some t' => Some t'
  | None => rr_go n i x l e upk rl (k :: lft) r
  end.
Proof. reflexivity. Qed.

Lemma rr_go_none n i x l e upk rl rgt :
  Forall (fun k => forall upk' rl', rr n k upk' rl' = None) rgt ->
  forall lft, rr_go n i x l e upk rl lft rgt = None.
Proof.
  induction 1 as [|k r Hk Hr IHr]; intro lft; [reflexivity|].
  rewrite rr_go_cons, Hk. apply IHr.
Qed.

Lemma rr_notin : forall t n upk rl, ~ In n (ids t) -> rr n t upk rl = None.
Proof.
  induction t as [i x l e ks IH] using tree_ind'. intros n upk rl N. rewrite ids_eq in N.
  rewrite rr_eq. destruct (Z.eqb i n) eqn:E.
  - apply Z.eqb_eq in E. exfalso. apply N. left. exact E.
  - apply rr_go_none. rewrite Forall_forall in *. intros k Hk upk' rl'. apply IH; [exact Hk|].
    intro H. apply N. right. eapply flat_ids_in; eauto.
Qed.

Lemma rr_go_notin n i x l e upk rl lft rgt :
  ~ In n (flat_map ids rgt) -> rr_go n i x l e upk rl lft rgt = None.
Proof.
  intro N. apply rr_go_none. apply Forall_forall. intros k Hk upk' rl'. apply rr_notin.
  intro H. apply N. eapply flat_ids_in; eauto.
Qed.

Lemma rr_go_frame n i x l e upk rl k rgt :
  ~ In n (flat_map ids rgt) ->
  forall lft acc L, ~ In n (flat_map ids lft) -> L = rev acc ++ lft ->
  rr_go n i x l e upk rl acc (lft ++ k :: rgt) =
  rr n k (fun lk => [T i x l lk (L ++ rgt ++ upk e)]) rl.
Proof.
  intro Nr. induction lft as [|a lft' IH]; intros acc L Nl EL.
  - rewrite app_nil_r in EL. subst L. simpl app. rewrite rr_go_cons.
    rewrite rr_go_notin by exact Nr.
    destruct (rr n k _ rl); reflexivity.
  - simpl in Nl. rewrite in_app_iff in Nl.
    change ((a :: lft') ++ k :: rgt) with (a :: (lft' ++ k :: rgt)).
    rewrite rr_go_cons. rewrite rr_notin by tauto.
    apply IH; [tauto|]. subst L. simpl. rewrite <- app_assoc. reflexivity.
Qed.

(* one frame *)
Lemma rr_frame n p x l e lft k rgt upk rl :
  p <> n -> ~ In n (flat_map ids lft) -> ~ In n (flat_map ids rgt) ->
  rr n (T p x l e (lft ++ k :: rgt)) upk rl =
  rr n k (fun lk => [T p x l lk (lft ++ rgt ++ upk e)]) rl.
Proof.
  intros D Nl Nr. rewrite rr_eq. apply Z.eqb_neq in D. rewrite D.
  apply rr_go_frame; [exact Nr|exact Nl|reflexivity].
Qed.

(* the accumulator rr has built when it arrives at the hole of c *)
Fixpoint upk_of (c : ctx) (upk0 : option Z -> list tree) : option Z -> list tree :=
  match c with
  | CTop => upk0
  | CNode c' i x l e lft rgt => fun lk => [T i x l lk (lft ++ rgt ++ upk_of c' upk0 e)]
  end.

Lemma rr_ctx n upk0 rl c :
  forall s, NoDup (ids (plug c s)) -> In n (ids s) ->
            rr n (plug c s) upk0 rl = rr n s (upk_of c upk0) rl.
Proof.
  induction c as [|c' IH i x l e lft rgt]; intros s N I; simpl; [reflexivity|].
  simpl plug in N. pose proof N as N0. apply nodup_plug in N0. destruct N0 as [N1 _].
  pose proof (focus_facts _ _ _ _ _ _ _ N1) as FF.
  rewrite IH.
  - apply rr_frame.
    + intro E. subst i. exact (fn_p_tc _ _ _ _ FF I).
    + exact (fn_tc_lft _ _ _ _ FF n I).
    + exact (fn_tc_rgt _ _ _ _ FF n I).
  - exact N.
  - rewrite ids_focus. right. apply in_app_iff. right. apply in_app_iff. left. exact I.
Qed.

Lemma upk_of_up c : forall lk, upk_of c (fun _ => []) lk = olist (up c lk).
Proof.
  induction c as [|c' IH i x l e lft rgt]; intro lk; simpl; [reflexivity|].
  rewrite IH. reflexivity.
Qed.

Lemma t_len_plug c : forall s, t_len (plug c s) = root_len c (t_len s).
Proof.
  induction c as [|c' IH i x l e lft rgt]; intro s; simpl; [reflexivity|]. rewrite IH. reflexivity.
Qed.

Lemma rr_plug c s : NoDup (ids (plug c s)) -> spec_reseed (t_id s) (plug c s) = Some (reroot c s).
Proof.
  intro N. unfold spec_reseed. rewrite rr_ctx by (exact N || apply ids_root).
  rewrite t_len_plug. destruct s as [si xs ls es ks]. simpl t_id. simpl t_len.
  rewrite rr_eq, Z.eqb_refl, upk_of_up. reflexivity.
Qed.

(* sanity check on a concrete context *)
Example rr_plug_example :
  let c := CNode (CNode CTop 1 None None (Some 10) [T 2 (Some 0) None (Some 3) []] [T 3 (Some 1) None None []])
                 4 None None (Some 5) [T 5 (Some 2) None (Some 1) []] [] in
  let s := T 6 None None (Some 7) [T 7 (Some 3) None None []; T 8 (Some 4) None None []] in
  spec_reseed 6 (plug c s) = Some (reroot c s).
Proof. vm_compute. reflexivity. Qed.

(* ---------- D. leaf taxa and ids under re-rooting ---------- *)

Fixpoint ctx_leaf_taxa (c : ctx) : list (option Z) :=
  match c with
  | CTop => []
  | CNode c' _ _ _ _ lft rgt => flat_map leaf_taxa lft ++ flat_map leaf_taxa rgt ++ ctx_leaf_taxa c'
  end.

(* no node of the context turns into a leaf when the path is inverted *)
Fixpoint ctx_keeps_leaves (c : ctx) : Prop :=
  match c with
  | CTop => True
  | CNode c' _ _ _ _ lft rgt => (lft ++ rgt <> [] \/ c' <> CTop) /\ ctx_keeps_leaves c'
  end.

Lemma leaf_taxa_plug_ctx c : forall s,
  Permutation (leaf_taxa (plug c s)) (leaf_taxa s ++ ctx_leaf_taxa c).
Proof.
  induction c as [|c' IH i x l e lft rgt]; intro s; simpl.
  - rewrite app_nil_r. reflexivity.
  - rewrite IH, leaf_taxa_focus. rewrite <- !app_assoc.
    apply Permutation_app_swap_app.
Qed.

Lemma flat_map_single {A B} (f : A -> list B) a : flat_map f [a] = f a.
Proof. simpl. apply app_nil_r. Qed.

Lemma up_some c lk : c <> CTop -> olist (up c lk) <> [].
Proof. destruct c; [congruence|]. intros _. simpl. discriminate. Qed.

Lemma leaf_taxa_up c : forall lk, ctx_keeps_leaves c ->
  Permutation (flat_map leaf_taxa (olist (up c lk))) (ctx_leaf_taxa c).
Proof.
  induction c as [|c' IH i x l e lft rgt]; intros lk K.
  - simpl. constructor.
  - destruct K as [K1 K2]. simpl up. simpl olist. rewrite flat_map_single.
    rewrite leaf_taxa_node.
    + rewrite !flat_map_app. simpl ctx_leaf_taxa.
      apply Permutation_app_head, Permutation_app_head. apply IH. exact K2.
    + intro E. rewrite app_assoc in E. apply app_eq_nil in E. destruct E as [E1 E2].
      destruct K1 as [K1|K1]; [exact (K1 E1)|exact (up_some c' e K1 E2)].
Qed.

Lemma leaf_taxa_reroot c s :
  t_kids s <> [] -> ctx_keeps_leaves c ->
  Permutation (leaf_taxa (reroot c s)) (leaf_taxa (plug c s)).
Proof.
  intros Hk K. rewrite leaf_taxa_plug_ctx. destruct s as [si xs ls es ks]. simpl in Hk.
  unfold reroot. rewrite !leaf_taxa_node.
  - rewrite flat_map_app. apply Permutation_app_head. apply leaf_taxa_up. exact K.
  - exact Hk.
  - intro E. apply app_eq_nil in E. tauto.
Qed.

Lemma ids_up c : forall lk, Permutation (flat_map ids (olist (up c lk))) (cids c).
Proof.
  induction c as [|c' IH i x l e lft rgt]; intro lk.
  - simpl. constructor.
  - simpl up. simpl olist. rewrite flat_map_single, ids_eq, !flat_map_app. simpl cids.
    constructor. apply Permutation_app_head, Permutation_app_head. apply IH.
Qed.

Lemma ids_reroot c s : Permutation (ids (reroot c s)) (ids (plug c s)).
Proof.
  rewrite ids_plug. destruct s as [si xs ls es ks]. unfold reroot.
  rewrite !ids_eq, flat_map_app. simpl. constructor. apply Permutation_app_head. apply ids_up.
Qed.
