(* C12, second wave: which annotations the rebuilt AnnotationSet of an annotable copy lists, and in which
   order -- for every well-formed heap (top level of the third pass, C12Own2.dc_spec3). *)
From Coq Require Import ZArith List Bool Lia.
From DV Require Import Model.PyPrims Model.C12Model Model.C12Spec2 Proofs.C12Heap Proofs.C12Inv Proofs.C12Copy Proofs.C12Wf
  Proofs.C12Proofs Proofs.C12Iso Proofs.C12Wf2 Proofs.C12IsoTop Proofs.C12Own Proofs.C12AnnDef Proofs.C12Own2 Proofs.C12Fun Proofs.C12Wf3.
Import ListNotations.
Open Scope Z_scope.

Lemma init_inv3 : forall nf h seeds, Inv3 h (init_st nf h seeds).
Proof.
  intros nf h seeds. constructor; simpl.
  - intros y1 y2 ob1 ob2 sy H1 _ G1. apply hget_Some_range in G1. lia.
  - intros s1 s2 ob1 ob2 k1 k2 l H1 _ G1. apply hget_Some_range in G1. lia.
Qed.

Theorem deepcopy_annotation_sets_l : forall nf h seeds root fuel s' y,
  wf_heap h seeds = true -> wf_heap2 h = true -> wf_heap3 h = true -> memz root (owned_list h) = false ->
  0 <= root < hlen h -> (length h < fuel)%nat ->
  run_seeded nf fuel h seeds root = Ok (s', R y) ->
  forall a b oa, In (a, b) (sc s') -> hget h a = Some oa -> is_annk (okind oa) = true ->
    exists done, AnnState s' b done
      /\ map fst done = refs_of (ann_items h oa)
      /\ (forall p, In p done -> In p (sc s')).
Proof.
  intros nf h seeds root fuel s' y WF WF2 WF3 NO Hr Hf E a b oa I G AK.
  destruct (wf_heap_parts _ _ WF) as [Hc [Hs [Hi [Hn Hk]]]].
  assert (R3 := dc_spec3 h seeds (closedb_spec h Hc) (ann_items_ok_spec h seeds Hi) (bound_names_ok_spec h Hn)
           (attr_keys_ok_spec h Hk) (wf2_listkeys h WF2) (wf2_noalias h WF2) (wf2_taxa h WF2) (wf2_bound h WF2)
           (wf2_ilist h WF2) (wf2_ilist2 h WF2) (wf3_nodup h WF3) fuel).
  destruct R3 as [[_ RB] R3]. unfold run_seeded in E.
  assert (IV0 := init_inv h seeds nf WF).
  assert (J0 := init_inv2 h seeds nf Hs).
  assert (HU := U_init h seeds nf).
  assert (V0 : vsrc2 h (R root)) by (split; [exact Hr | exact (not_owned_of_list h root NO)]).
  assert (UF : (U h (init_st nf h seeds) < fuel)%nat) by lia.
  destruct (R3 (init_st nf h seeds) (R root) IV0 J0 (init_inv3 nf h seeds) V0 UF s' (R y) E) as [_ [_ ACC]].
  destruct (RB (init_st nf h seeds) (R root) IV0 J0 V0 UF s' (R y) E) as [J _].
  destruct (j_scr _ _ J a b I) as [_ Rb].
  apply (ACC a b I); [simpl; lia | intros []| exact G | exact AK].
Qed.
