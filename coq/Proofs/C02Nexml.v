(* C02 (NeXML, element level): the reader rebuilds the tree from the elements the writer produced. *)
From Coq Require Import ZArith List Bool Lia Arith.
From DV Require Import Model.PyPrims Gen.CharClasses Model.Tokenizer Model.Newick Model.C02Nexml
     Proofs.C02Lex.
Import ListNotations.

Section NexmlProofs.
Variable L : Type.
Notation ntree := (ntree L).
Notation xedge := (xedge L).
Notation cell := (cell L).
Notation nsize := (nsize L).

(* ---- association lists keyed by nat ---- *)
Lemma lookup_app_none {A} k (a b : list (nat * A)) : lookup_nat k a = None -> lookup_nat k (a ++ b) = lookup_nat k b.
Proof. induction a as [|[k' v] a IH]; simpl; intro H; [reflexivity|]. destruct (Nat.eqb k k'); [discriminate | apply IH; exact H]. Qed.

Lemma lookup_none_notin {A} k (l : list (nat * A)) : ~ In k (map fst l) -> lookup_nat k l = None.
Proof.
  induction l as [|[k' v] l IH]; simpl; intro H; [reflexivity|].
  destruct (Nat.eqb k k') eqn:E; [apply Nat.eqb_eq in E; subst; exfalso; apply H; left; reflexivity | apply IH; intro Hi; apply H; right; exact Hi].
Qed.

Lemma lookup_map {A B} (g : nat -> A -> B) k (l : list (nat * A)) :
  lookup_nat k (map (fun kv => (fst kv, g (fst kv) (snd kv))) l) = option_map (g k) (lookup_nat k l).
Proof.
  induction l as [|[k' v] l IH]; simpl; [reflexivity|].
  destruct (Nat.eqb k k') eqn:E; [apply Nat.eqb_eq in E; subst; reflexivity | exact IH].
Qed.

Lemma update_as_map {A} k v (l : list (nat * A)) : NoDup (map fst l) ->
  update_nat k v l = map (fun kv => (fst kv, if Nat.eqb (fst kv) k then v else snd kv)) l.
Proof.
  induction l as [|[k' v'] l IH]; simpl; intro Hnd; [reflexivity|]. inversion Hnd; subst.
  destruct (Nat.eqb k k') eqn:E.
  - apply Nat.eqb_eq in E. subst k'. rewrite Nat.eqb_refl. f_equal.
    rewrite <- (map_id l) at 1. apply map_ext_in. intros [k2 v2] Hi. simpl.
    destruct (Nat.eqb k2 k) eqn:E2; [|reflexivity]. apply Nat.eqb_eq in E2. subst. exfalso. apply H1.
    apply (in_map fst) in Hi. exact Hi.
  - rewrite Nat.eqb_sym, E. f_equal. apply IH. exact H2.
Qed.

Lemma map_fst_map {A B} (g : nat -> A -> B) (l : list (nat * A)) :
  map fst (map (fun kv => (fst kv, g (fst kv) (snd kv))) l) = map fst l.
Proof. rewrite map_map. reflexivity. Qed.

(* ---- what the loop over the <edge> elements does, as one map over the cells ---- *)
Definition targets (es : list xedge) : list nat :=
  map (fun e => match xe_target L e with Some h => h | None => O end) es.

Definition find_in (es : list xedge) (id : nat) : option xedge :=
  find (fun e => match xe_target L e with Some h => Nat.eqb h id | None => false end) es.

Definition kids_of (es : list xedge) (id : nat) : list nat :=
  flat_map (fun e => match xe_source L e, xe_target L e with
                     | Some t, Some h => if Nat.eqb t id then [h] else []
                     | _, _ => []
                     end) es.

Definition upd (es : list xedge) (id : nat) (c : cell) : cell :=
  match find_in es id with
  | Some e => mkCell L (c_label L c) (c_taxon L c) (xe_source L e) (c_kids L c ++ kids_of es id) (xe_length L e)
  | None => mkCell L (c_label L c) (c_taxon L c) (c_parent L c) (c_kids L c ++ kids_of es id) (c_len L c)
  end.

Definition edge_ok (keys : list nat) (e : xedge) : Prop :=
  exists h t, xe_target L e = Some h /\ xe_source L e = Some t /\ In h keys /\ In t keys /\ h <> t.

Definition EWf (es : list xedge) (cells : list (nat * cell)) : Prop :=
  NoDup (map fst cells) /\ Forall (edge_ok (map fst cells)) es /\ NoDup (targets es) /\
  (forall h c, In h (targets es) -> lookup_nat h cells = Some c -> c_parent L c = None).

Lemma lookup_in {A} (l : list (nat * A)) k v : NoDup (map fst l) -> In (k, v) l -> lookup_nat k l = Some v.
Proof.
  induction l as [|[k' v'] l IH]; simpl; intros Hnd Hi; [contradiction|]. inversion Hnd; subst.
  destruct Hi as [Hi|Hi].
  - inversion Hi; subst. rewrite Nat.eqb_refl. reflexivity.
  - destruct (Nat.eqb k k') eqn:E; [apply Nat.eqb_eq in E; subst; exfalso; apply H1; apply (in_map fst) in Hi; exact Hi | apply IH; assumption].
Qed.

Lemma lookup_some_in {A} (l : list (nat * A)) k : In k (map fst l) -> exists v, lookup_nat k l = Some v.
Proof.
  induction l as [|[k' v'] l IH]; simpl; intro H; [contradiction|].
  destruct (Nat.eqb k k') eqn:E; [eexists; reflexivity|]. destruct H as [H|H]; [subst; rewrite Nat.eqb_refl in E; discriminate | apply IH; exact H].
Qed.

Lemma find_none_all {A} (p : A -> bool) (l : list A) : (forall x, In x l -> p x = false) -> find p l = None.
Proof. induction l as [|x l IH]; simpl; intro H; [reflexivity|]. rewrite (H x (or_introl eq_refl)). apply IH. intros y Hy. apply H. right. exact Hy. Qed.

Lemma cell_eta (c : cell) : mkCell L (c_label L c) (c_taxon L c) (c_parent L c) (c_kids L c ++ []) (c_len L c) = c.
Proof. destruct c. simpl. rewrite app_nil_r. reflexivity. Qed.

Lemma filter_filter {A} (p q : A -> bool) (l : list A) : filter p (filter q l) = filter (fun x => q x && p x) l.
Proof. induction l as [|x l IH]; simpl; [reflexivity|]. destruct (q x); simpl; [destruct (p x); rewrite IH; reflexivity | exact IH]. Qed.

Theorem attach_spec : forall es cells U, EWf es cells ->
  attach_edges L es cells U
  = XOk (map (fun kv => (fst kv, upd es (fst kv) (snd kv))) cells,
         filter (fun i => negb (existsb (Nat.eqb i) (targets es))) U).
Proof.
  induction es as [|e r IH]; intros cells U [Hnd [Hok [Hnt Hpar]]].
  - simpl. f_equal. f_equal.
    + rewrite <- (map_id cells) at 1. apply map_ext. intros [k c]. simpl. unfold upd. simpl. rewrite cell_eta. reflexivity.
    + induction U as [|u U IHU]; simpl; [reflexivity|]. rewrite <- IHU. reflexivity.
  - pose proof (Forall_inv Hok) as [h [t [Et [Es [Hh [Ht Hne]]]]]]. pose proof (Forall_inv_tail Hok) as Hok'.
    cbn [attach_edges]. rewrite Et, Es.
    destruct (lookup_some_in cells h Hh) as [hc Ehc]. destruct (lookup_some_in cells t Ht) as [tc Etc].
    rewrite Ehc, Etc.
    assert (Hp : c_parent L hc = None).
    { apply (Hpar h hc); [simpl; rewrite Et; left; reflexivity | exact Ehc]. }
    rewrite Hp. assert (Ene : Nat.eqb h t = false) by (apply Nat.eqb_neq; exact Hne). rewrite Ene.
    set (tc' := mkCell L (c_label L tc) (c_taxon L tc) (c_parent L tc) (c_kids L tc ++ [h]) (c_len L tc)).
    set (hc' := mkCell L (c_label L hc) (c_taxon L hc) (Some t) (c_kids L hc) (xe_length L e)).
    rewrite (update_as_map t tc' cells Hnd).
    set (cells1 := map (fun kv : nat * cell => (fst kv, if Nat.eqb (fst kv) t then tc' else snd kv)) cells).
    assert (Hk1 : map fst cells1 = map fst cells) by (unfold cells1; rewrite map_map; reflexivity).
    rewrite (update_as_map h hc' cells1) by (rewrite Hk1; exact Hnd).
    set (cells2 := map (fun kv : nat * cell => (fst kv, if Nat.eqb (fst kv) h then hc' else snd kv)) cells1).
    assert (Hk2 : map fst cells2 = map fst cells) by (unfold cells2; rewrite map_map; exact Hk1).
    simpl in Hnt. rewrite Et in Hnt. inversion Hnt as [|? ? Hhn Hnt']; subst.
    rewrite (IH cells2 (filter (fun i => negb (Nat.eqb i h)) U)).
    + f_equal. f_equal.
      * (* the cells *)
        unfold cells2, cells1. rewrite !map_map. apply map_ext_in. intros [k c] Hin. cbn [fst snd].
        assert (Elk : lookup_nat k cells = Some c) by (apply lookup_in; assumption).
        f_equal. unfold upd, find_in, kids_of. cbn [find flat_map]. rewrite Et, Es.
        destruct (Nat.eqb k h) eqn:Ekh.
        -- apply Nat.eqb_eq in Ekh. subst k. rewrite Ehc in Elk. inversion Elk; subst c.
           rewrite Nat.eqb_refl. rewrite Nat.eqb_sym, Ene. cbn [app].
           assert (Fn : find (fun e0 : xedge => match xe_target L e0 with Some h0 => Nat.eqb h0 h | None => false end) r = None).
           { apply find_none_all. intros e' He'. destruct (xe_target L e') as [h'|] eqn:Et'; [|reflexivity].
             apply Nat.eqb_neq. intro E. subst h'. apply Hhn. unfold targets. apply in_map_iff. exists e'. rewrite Et'. auto. }
           rewrite Fn. unfold hc'. cbn [c_label c_taxon c_parent c_kids c_len]. rewrite Es. reflexivity.
        -- rewrite (Nat.eqb_sym h k), Ekh.
           destruct (Nat.eqb k t) eqn:Ekt.
           ++ apply Nat.eqb_eq in Ekt. subst k. rewrite Etc in Elk. inversion Elk; subst c.
              rewrite Nat.eqb_refl. unfold tc'. cbn [c_label c_taxon c_parent c_kids c_len].
              destruct (find _ r); rewrite <- app_assoc; reflexivity.
           ++ rewrite (Nat.eqb_sym t k), Ekt. reflexivity.
      * (* the parentless nodes *)
        rewrite filter_filter. apply filter_ext. intro i. simpl. rewrite Et. rewrite negb_orb. reflexivity.
    + (* the invariant for the remaining edges *)
      unfold EWf. rewrite Hk2. repeat split; try assumption.
      intros h' c' Hh' Elk'. unfold cells2, cells1 in Elk'. rewrite map_map in Elk'. cbn [fst snd] in Elk'.
      rewrite (lookup_map (fun k c => if Nat.eqb k h then hc' else if Nat.eqb k t then tc' else c)) in Elk'.
      destruct (lookup_nat h' cells) as [c0|] eqn:E0; [|discriminate]. simpl in Elk'. inversion Elk'; subst c'.
      assert (Hh'h : Nat.eqb h' h = false) by (apply Nat.eqb_neq; intro E; subst; contradiction).
      rewrite Hh'h. destruct (Nat.eqb h' t) eqn:E1.
      * apply Nat.eqb_eq in E1. subst h'. rewrite Etc in E0. inversion E0; subst c0. unfold tc'. simpl.
        apply (Hpar t tc); [simpl; right; exact Hh' | exact Etc].
      * apply (Hpar h' c0); [simpl; right; exact Hh' | exact E0].
Qed.

(* ---- preorder numbering ---- *)
Fixpoint nsizes (ks : list ntree) : nat := match ks with [] => O | c :: r => (nsize c + nsizes r)%nat end.

Lemma nsize_unfold tx lb ln ks : nsize (Nd tx lb ln ks) = S (nsizes ks).
Proof. induction ks as [|c r IH]; [reflexivity|]. cbn [C02Nexml.nsize fold_right nsizes] in *. first [reflexivity | congruence | (f_equal; f_equal; congruence)]. Qed.

Lemma nsize_pos t : (1 <= nsize t)%nat.
Proof. destruct t. rewrite nsize_unfold. lia. Qed.

(* (id, subtree) for every node, ids k, k+1, ... in preorder *)
Fixpoint pre (t : ntree) (k : nat) : list (nat * ntree) :=
  match t with
  | Nd tx lb ln ks =>
    (k, t) :: (fix go (ks : list ntree) (k : nat) : list (nat * ntree) :=
                 match ks with [] => [] | c :: r => pre c k ++ go r (k + nsize c)%nat end) ks (S k)
  end.

Fixpoint pre_list (ks : list ntree) (k : nat) : list (nat * ntree) :=
  match ks with [] => [] | c :: r => pre c k ++ pre_list r (k + nsize c)%nat end.

Lemma pre_unfold tx lb ln ks k : pre (Nd tx lb ln ks) k = (k, Nd tx lb ln ks) :: pre_list ks (S k).
Proof. reflexivity. Qed.

Lemma pre_ids : forall t k, map fst (pre t k) = seq k (nsize t).
Proof.
  induction t as [tx lb ln ks IH] using ntree_ind'. intro k. rewrite pre_unfold, nsize_unfold. cbn [map seq fst]. f_equal.
  generalize (S k). induction IH as [|c r Hc Hr IHr]; intro j; [reflexivity|].
  cbn [pre_list nsizes]. rewrite map_app, Hc, IHr, seq_app. reflexivity.
Qed.

Lemma pre_list_ids ks k : map fst (pre_list ks k) = seq k (nsizes ks).
Proof.
  revert k. induction ks as [|c r IH]; intro k; [reflexivity|]. cbn [pre_list nsizes]. rewrite map_app, pre_ids, IH, seq_app. reflexivity.
Qed.

(* ids of the children of a node whose first child gets id k *)
Fixpoint child_ids (ks : list ntree) (k : nat) : list nat :=
  match ks with [] => [] | c :: r => k :: child_ids r (k + nsize c)%nat end.

(* ---- the edges, without their own ids ---- *)
Definition etriple (e : xedge) : option nat * option nat * option L := (xe_source L e, xe_target L e, xe_length L e).

Fixpoint elist (parent : option nat) (t : ntree) (nk : nat) : list (option nat * option nat * option L) :=
  match t with
  | Nd tx lb ln ks =>
    (parent, Some nk, ln) ::
    (fix go (ks : list ntree) (k : nat) : list (option nat * option nat * option L) :=
       match ks with [] => [] | c :: r => elist (Some nk) c k ++ go r (k + nsize c)%nat end) ks (S nk)
  end.

Fixpoint elist_list (parent : option nat) (ks : list ntree) (k : nat) : list (option nat * option nat * option L) :=
  match ks with [] => [] | c :: r => elist parent c k ++ elist_list parent r (k + nsize c)%nat end.

Lemma elist_unfold parent tx lb ln ks nk :
  elist parent (Nd tx lb ln ks) nk = (parent, Some nk, ln) :: elist_list (Some nk) ks (S nk).
Proof.
  cbn [elist]. f_equal. generalize (S nk). induction ks as [|c r IH]; intro j; [reflexivity|]. cbn [elist_list]. rewrite IH. reflexivity.
Qed.

Lemma write_edges_triples : forall t parent nk ek,
  map etriple (fst (write_edges L parent t nk ek)) = elist parent t nk.
Proof.
  induction t as [tx lb ln ks IH] using ntree_ind'. intros parent nk ek. rewrite elist_unfold. cbn [write_edges].
  assert (G : forall ks', Forall (fun t => forall parent nk ek, map etriple (fst (write_edges L parent t nk ek)) = elist parent t nk) ks' ->
            forall cnk ek acc,
     map etriple (fst ((fix go (ks : list ntree) (cnk ek : nat) (acc : list xedge) : list xedge * nat :=
          match ks with
          | [] => (acc, ek)
          | c :: r => let '(es, ek') := write_edges L (Some nk) c cnk ek in go r (cnk + nsize c)%nat ek' (acc ++ es)
          end) ks' cnk ek acc))
     = map etriple acc ++ elist_list (Some nk) ks' cnk).
  { induction ks' as [|c r IHr]; intros HF cnk ek' acc; [simpl; rewrite app_nil_r; reflexivity|].
    pose proof (Forall_inv HF) as Hc. pose proof (Forall_inv_tail HF) as Hr. cbv beta in Hc.
    specialize (Hc (Some nk) cnk ek'). destruct (write_edges L (Some nk) c cnk ek') as [es ek2]. cbn [fst] in Hc.
    rewrite (IHr Hr). rewrite map_app, Hc. cbn [elist_list]. rewrite <- app_assoc. reflexivity. }
  rewrite (G ks IH). reflexivity.
Qed.

(* find_in / kids_of / targets only look at the triples *)
Definition tfind (es : list (option nat * option nat * option L)) (id : nat) :=
  find (fun e => match snd (fst e) with Some h => Nat.eqb h id | None => false end) es.
Definition tkids (es : list (option nat * option nat * option L)) (id : nat) : list nat :=
  flat_map (fun e => match fst (fst e), snd (fst e) with Some t, Some h => if Nat.eqb t id then [h] else [] | _, _ => [] end) es.
Definition ttargets (es : list (option nat * option nat * option L)) : list nat :=
  map (fun e => match snd (fst e) with Some h => h | None => O end) es.

Lemma kids_of_triples es id : kids_of es id = tkids (map etriple es) id.
Proof. unfold kids_of, tkids. induction es as [|e r IH]; [reflexivity|]. cbn [flat_map map]. rewrite IH. reflexivity. Qed.
Lemma targets_triples es : targets es = ttargets (map etriple es).
Proof. unfold targets, ttargets. rewrite map_map. reflexivity. Qed.
Lemma find_in_triples es id : option_map etriple (find_in es id) = tfind (map etriple es) id.
Proof.
  unfold find_in, tfind. induction es as [|e r IH]; [reflexivity|]. cbn [find map]. unfold etriple at 2. cbn [fst snd].
  destruct (xe_target L e) as [h|]; [destruct (Nat.eqb h id); [reflexivity | exact IH] | exact IH].
Qed.

(* targets of the edges of a subtree: the ids of its nodes, in preorder *)
Lemma elist_targets : forall t parent nk, ttargets (elist parent t nk) = seq nk (nsize t).
Proof.
  induction t as [tx lb ln ks IH] using ntree_ind'. intros parent nk. rewrite elist_unfold, nsize_unfold.
  cbn [ttargets map seq fst snd]. f_equal. fold (ttargets (elist_list (Some nk) ks (S nk))).
  generalize (S nk). induction IH as [|c r Hc Hr IHr]; intro j; [reflexivity|].
  cbn [elist_list nsizes]. unfold ttargets in *. rewrite map_app, Hc, IHr, seq_app. reflexivity.
Qed.

Lemma elist_list_targets parent ks k : ttargets (elist_list parent ks k) = seq k (nsizes ks).
Proof.
  revert k. induction ks as [|c r IH]; intro k; [reflexivity|]. cbn [elist_list nsizes]. unfold ttargets in *.
  rewrite map_app. fold (ttargets (elist parent c k)). rewrite elist_targets, IH, seq_app. reflexivity.
Qed.

(* sources: the parent, or ids inside the subtree *)
Lemma elist_sources : forall t parent nk e, In e (elist parent t nk) ->
  fst (fst e) = parent \/ exists s, fst (fst e) = Some s /\ (nk <= s < nk + nsize t)%nat.
Proof.
  induction t as [tx lb ln ks IH] using ntree_ind'. intros parent nk e He. rewrite elist_unfold in He. rewrite nsize_unfold.
  destruct He as [He|He]; [subst; left; reflexivity|]. right.
  assert (G : forall k, In e (elist_list (Some nk) ks k) -> (nk < k)%nat ->
              exists s, fst (fst e) = Some s /\ (nk <= s < k + nsizes ks)%nat).
  { clear He. induction IH as [|c r Hc Hr IHr]; intros k He Hk; [contradiction|]. cbn [elist_list nsizes] in *.
    apply in_app_iff in He. destruct He as [He|He].
    - destruct (Hc (Some nk) k e He) as [E|[s [E Hs]]]; [exists nk; split; [exact E | lia] | exists s; split; [exact E | lia]].
    - destruct (IHr (k + nsize c)%nat He ltac:(lia)) as [s [E Hs]]. exists s. split; [exact E | lia]. }
  destruct (G (S nk) He ltac:(lia)) as [s [E Hs]]. exists s. split; [exact E | lia].
Qed.

(* ---- children and own edge of every node, read off the edge list ---- *)
Lemma tkids_app a b id : tkids (a ++ b) id = tkids a id ++ tkids b id.
Proof. unfold tkids. apply flat_map_app. Qed.

Lemma tfind_app a b id : tfind (a ++ b) id = match tfind a id with Some e => Some e | None => tfind b id end.
Proof. unfold tfind. induction a as [|e a IH]; [reflexivity|]. cbn [app find]. destruct (snd (fst e)) as [h|]; [destruct (Nat.eqb h id); [reflexivity | exact IH] | exact IH]. Qed.

Lemma tfind_none es id : ~ In id (ttargets es) \/ (forall e, In e es -> snd (fst e) <> Some id) -> tfind es id = None.
Proof.
  intro H. unfold tfind. apply find_none_all. intros e He. destruct (snd (fst e)) as [h|] eqn:E; [|reflexivity].
  apply Nat.eqb_neq. intro Eh. subst h. destruct H as [H|H].
  - apply H. unfold ttargets. apply in_map_iff. exists e. rewrite E. auto.
  - apply (H e He). exact E.
Qed.

Definition parent_lt (parent : option nat) (nk : nat) : Prop := match parent with Some p => (p < nk)%nat | None => True end.

(* an id outside the subtree gets a child from it only through the subtree's own edge *)
Lemma tkids_outside : forall t parent nk id, (id < nk \/ nk + nsize t <= id)%nat ->
  tkids (elist parent t nk) id = match parent with Some p => if Nat.eqb p id then [nk] else [] | None => [] end.
Proof.
  induction t as [tx lb ln ks IH] using ntree_ind'. intros parent nk id Hid. rewrite elist_unfold. rewrite nsize_unfold in Hid.
  change (tkids ((parent, Some nk, ln) :: elist_list (Some nk) ks (S nk)) id)
    with (match parent with Some t0 => if Nat.eqb t0 id then [nk] else [] | None => [] end ++ tkids (elist_list (Some nk) ks (S nk)) id).
  assert (G : forall k, (nk < k)%nat -> (id < nk \/ k + nsizes ks <= id)%nat -> tkids (elist_list (Some nk) ks k) id = []).
  { clear Hid. induction IH as [|c r Hc Hr IHr]; intros k Hk Hid; [reflexivity|]. cbn [elist_list nsizes] in *.
    rewrite tkids_app. rewrite Hc by lia. rewrite IHr by lia.
    assert (E : Nat.eqb nk id = false) by (apply Nat.eqb_neq; lia). rewrite E. reflexivity. }
  rewrite G by lia. rewrite app_nil_r. reflexivity.
Qed.

Lemma tkids_list_outside parent ks k id : (id < k \/ k + nsizes ks <= id)%nat ->
  tkids (elist_list parent ks k) id = match parent with Some p => if Nat.eqb p id then child_ids ks k else [] | None => [] end.
Proof.
  revert k. induction ks as [|c r IH]; intros k Hid.
  - simpl. destruct parent as [p|]; [destruct (Nat.eqb p id)|]; reflexivity.
  - cbn [elist_list nsizes child_ids] in *. rewrite tkids_app. rewrite tkids_outside by lia. rewrite IH by lia.
    destruct parent as [p|]; [destruct (Nat.eqb p id)|]; reflexivity.
Qed.

(* every node of the subtree gets exactly its children, in order *)
Lemma tkids_inside : forall t parent nk i s, parent_lt parent nk -> In (i, s) (pre t nk) ->
  tkids (elist parent t nk) i = child_ids (n_kids L s) (S i).
Proof.
  induction t as [tx lb ln ks IH] using ntree_ind'. intros parent nk i s Hp Hin.
  rewrite elist_unfold. rewrite pre_unfold in Hin.
  change (tkids ((parent, Some nk, ln) :: elist_list (Some nk) ks (S nk)) i)
    with (match parent with Some t0 => if Nat.eqb t0 i then [nk] else [] | None => [] end ++ tkids (elist_list (Some nk) ks (S nk)) i).
  destruct Hin as [Hin|Hin].
  - inversion Hin; subst i s. cbn [n_kids].
    assert (E0 : match parent with Some t0 => if Nat.eqb t0 nk then [nk] else [] | None => [] end = []).
    { destruct parent as [p|]; [|reflexivity]. simpl in Hp. assert (E : Nat.eqb p nk = false) by (apply Nat.eqb_neq; lia). rewrite E. reflexivity. }
    rewrite E0. cbn [app]. rewrite tkids_list_outside by lia. rewrite Nat.eqb_refl. reflexivity.
  - (* inside a child *)
    assert (Hi : (nk < i)%nat).
    { apply (in_map fst) in Hin. rewrite pre_list_ids in Hin. apply in_seq in Hin. cbn [fst] in Hin. lia. }
    assert (E0 : match parent with Some t0 => if Nat.eqb t0 i then [nk] else [] | None => [] end = []).
    { destruct parent as [p|]; [|reflexivity]. simpl in Hp. assert (E : Nat.eqb p i = false) by (apply Nat.eqb_neq; lia). rewrite E. reflexivity. }
    rewrite E0. cbn [app].
    assert (G : forall k, (nk < k)%nat -> In (i, s) (pre_list ks k) ->
                tkids (elist_list (Some nk) ks k) i = child_ids (n_kids L s) (S i)).
    { clear Hin E0. induction IH as [|c r Hc Hr IHr]; intros k Hk Hin; [contradiction|]. cbn [pre_list elist_list] in *.
      rewrite tkids_app. apply in_app_iff in Hin. destruct Hin as [Hin|Hin].
      - rewrite (Hc (Some nk) k i s) by (simpl; assumption).
        assert (Hint : (k <= i < k + nsize c)%nat).
        { apply (in_map fst) in Hin. rewrite pre_ids in Hin. apply in_seq in Hin. cbn [fst] in Hin. lia. }
        rewrite tkids_list_outside by lia.
        assert (E : Nat.eqb nk i = false) by (apply Nat.eqb_neq; lia). rewrite E, app_nil_r. reflexivity.
      - assert (Hint : (k + nsize c <= i)%nat).
        { apply (in_map fst) in Hin. rewrite pre_list_ids in Hin. apply in_seq in Hin. cbn [fst] in Hin. lia. }
        rewrite tkids_outside by lia. assert (E : Nat.eqb nk i = false) by (apply Nat.eqb_neq; lia). rewrite E. cbn [app].
        apply IHr; [lia | exact Hin]. }
    apply G; [lia | exact Hin].
Qed.

(* the edge of a node carries its length *)
Lemma tfind_inside : forall t parent nk i s, In (i, s) (pre t nk) ->
  exists par, tfind (elist parent t nk) i = Some (par, Some i, n_len L s).
Proof.
  induction t as [tx lb ln ks IH] using ntree_ind'. intros parent nk i s Hin.
  rewrite elist_unfold. rewrite pre_unfold in Hin. destruct Hin as [Hin|Hin].
  - inversion Hin; subst i s. exists parent. unfold tfind. cbn [find fst snd]. rewrite Nat.eqb_refl. reflexivity.
  - assert (Hi : (nk < i)%nat).
    { apply (in_map fst) in Hin. rewrite pre_list_ids in Hin. apply in_seq in Hin. cbn [fst] in Hin. lia. }
    unfold tfind. cbn [find fst snd]. assert (E : Nat.eqb nk i = false) by (apply Nat.eqb_neq; lia). rewrite E.
    fold (tfind (elist_list (Some nk) ks (S nk)) i).
    assert (G : forall k, In (i, s) (pre_list ks k) -> exists par, tfind (elist_list (Some nk) ks k) i = Some (par, Some i, n_len L s)).
    { clear Hin. induction IH as [|c r Hc Hr IHr]; intros k Hin; [contradiction|]. cbn [pre_list elist_list] in *.
      rewrite tfind_app. apply in_app_iff in Hin. destruct Hin as [Hin|Hin].
      - destruct (Hc (Some nk) k i s Hin) as [par Ep]. rewrite Ep. exists par. reflexivity.
      - assert (Hint : (k + nsize c <= i)%nat).
        { apply (in_map fst) in Hin. rewrite pre_list_ids in Hin. apply in_seq in Hin. cbn [fst] in Hin. lia. }
        rewrite (tfind_none (elist (Some nk) c k) i).
        + apply IHr. exact Hin.
        + left. rewrite elist_targets. intro H. apply in_seq in H. lia. }
    apply G. exact Hin.
Qed.

(* ---- the node elements ---- *)
Variable ns : list str.
Variable otu0 : nat.

Definition idx (l : str) : nat := match index_of_label l ns O with Some i => i | None => O end.

Fixpoint tin (t : ntree) : bool :=
  match t with
  | Nd tx lb ln ks =>
    (match tx with Some l => match index_of_label l ns O with Some _ => true | None => false end | None => true end)
    && forallb tin ks
  end.

Definition xn (flag : bool) (it : nat * ntree) : xnode :=
  mkXNode (fst it) (truthy_label (n_label L (snd it))) (option_map (fun l => (otu0 + idx l)%nat) (n_taxon L (snd it))) flag.

Lemma write_nodes_spec : forall t rooted seed k, tin t = true ->
  write_nodes L ns otu0 rooted seed t k
  = Some (xn (rooted && seed) (k, t) :: map (xn false) (pre_list (n_kids L t) (S k)), (k + nsize t)%nat).
Proof.
  induction t as [tx lb ln ks IH] using ntree_ind'. intros rooted seed k Hin.
  cbn [tin] in Hin. apply andb_true_iff in Hin. destruct Hin as [Htx Hks].
  cbn [write_nodes n_kids]. rewrite nsize_unfold.
  assert (Eotu : match tx with
                 | Some l => match index_of_label l ns 0 with Some i => Some (Some (otu0 + i)%nat) | None => None end
                 | None => Some None
                 end = Some (option_map (fun l => (otu0 + idx l)%nat) tx)).
  { destruct tx as [l|]; [|reflexivity]. cbn [option_map]. unfold idx. destruct (index_of_label l ns 0); [reflexivity | discriminate]. }
  rewrite Eotu.
  assert (G : forall ks', Forall (fun t => forall rooted seed k, tin t = true ->
                 write_nodes L ns otu0 rooted seed t k
                 = Some (xn (rooted && seed) (k, t) :: map (xn false) (pre_list (n_kids L t) (S k)), (k + nsize t)%nat)) ks' ->
              forallb tin ks' = true -> forall j acc,
     (fix go (ks : list ntree) (k : nat) (acc : list xnode) : option (list xnode * nat) :=
        match ks with
        | [] => Some (acc, k)
        | c :: r => match write_nodes L ns otu0 rooted false c k with
                    | None => None
                    | Some (xs, k') => go r k' (acc ++ xs)
                    end
        end) ks' j acc = Some (acc ++ map (xn false) (pre_list ks' j), (j + nsizes ks')%nat)).
  { induction ks' as [|c r IHr]; intros HF Ht j acc; [simpl; rewrite app_nil_r, Nat.add_0_r; reflexivity|].
    simpl in Ht. apply andb_true_iff in Ht. destruct Ht as [Hc Hr].
    rewrite (Forall_inv HF rooted false j Hc). rewrite andb_false_r.
    rewrite (IHr (Forall_inv_tail HF) Hr). cbn [pre_list nsizes]. rewrite map_app.
    destruct c as [tx' lb' ln' ks'']. rewrite pre_unfold. cbn [map n_kids]. rewrite <- !app_assoc. cbn [app].
    f_equal. f_equal. lia. }
  rewrite (G ks IH Hks). cbn [app]. unfold xn at 1. cbn [fst snd n_label n_taxon]. f_equal. f_equal. lia.
Qed.

(* ---- _parse_nodes ---- *)
Variable taxa : list (nat * nat).
Hypothesis taxa_ok : forall i, (i < length ns)%nat -> lookup_nat (otu0 + i)%nat taxa = Some i.

Lemma index_of_label_lt l : forall ns' off i, index_of_label l ns' off = Some i -> (off <= i < off + length ns')%nat.
Proof.
  induction ns' as [|x r IH]; intros off i H; simpl in H; [discriminate|].
  destruct (str_eqb x l); [inversion H; subst; simpl; lia | apply IH in H; simpl; lia].
Qed.

Definition cell0 (s : ntree) : cell :=
  mkCell L (truthy_label (n_label L s)) (option_map idx (n_taxon L s)) None [] None.

Lemma parse_nodes_spec : forall its flag cells roots,
  NoDup (map fst cells ++ map fst its) ->
  forallb (fun it => tin (snd it)) its = true ->
  (flag = true -> exists it r, its = it :: r) ->
  parse_nodes L taxa (match its with it :: r => xn flag it :: map (xn false) r | [] => [] end) cells roots
  = XOk (cells ++ map (fun it => (fst it, cell0 (snd it))) its,
         roots ++ (if flag then match its with it :: _ => [fst it] | [] => [] end else [])).
Proof.
  assert (G : forall its cells roots,
     NoDup (map fst cells ++ map fst its) -> forallb (fun it => tin (snd it)) its = true ->
     parse_nodes L taxa (map (xn false) its) cells roots
     = XOk (cells ++ map (fun it => (fst it, cell0 (snd it))) its, roots)).
  { induction its as [|[i s] its IH]; intros cells roots Hnd Ht; [simpl; rewrite app_nil_r; reflexivity|].
    simpl in Ht. apply andb_true_iff in Ht. destruct Ht as [Hs Hr].
    cbn [map parse_nodes xn fst snd xn_id xn_otu xn_root xn_label].
    rewrite lookup_none_notin.
    2:{ intro Hi. simpl in Hnd. apply NoDup_remove_2 in Hnd. apply Hnd. apply in_app_iff. left. exact Hi. }
    assert (Etx : match option_map (fun l => (otu0 + idx l)%nat) (n_taxon L s) with
                  | Some oid => match lookup_nat oid taxa with Some i0 => XOk (Some i0) | None => XErr OtherErr end
                  | None => XOk None
                  end = XOk (option_map idx (n_taxon L s))).
    { destruct s as [tx lb ln ks]. cbn [n_taxon tin] in *. destruct tx as [l|]; [|reflexivity]. cbn [option_map].
      apply andb_true_iff in Hs. destruct Hs as [Hs _]. unfold idx. destruct (index_of_label l ns 0) as [i0|] eqn:E; [|discriminate].
      rewrite taxa_ok; [reflexivity|]. apply index_of_label_lt in E. lia. }
    rewrite Etx. cbn [xbind].
    rewrite (IH (cells ++ [(i, mkCell L (truthy_label (n_label L s)) (option_map idx (n_taxon L s)) None [] None)]) roots).
    - rewrite <- app_assoc. reflexivity.
    - rewrite map_app. simpl. rewrite <- app_assoc. exact Hnd.
    - exact Hr. }
  intros its flag cells roots Hnd Ht Hf. destruct its as [|[i s] its].
  - destruct flag; [destruct (Hf eq_refl) as [it [r E]]; discriminate|]. simpl. rewrite !app_nil_r. reflexivity.
  - destruct flag.
    + simpl in Ht. apply andb_true_iff in Ht. destruct Ht as [Hs Hr].
      cbn [parse_nodes xn fst snd xn_id xn_otu xn_root xn_label].
      rewrite lookup_none_notin.
      2:{ intro Hi. simpl in Hnd. apply NoDup_remove_2 in Hnd. apply Hnd. apply in_app_iff. left. exact Hi. }
      assert (Etx : match option_map (fun l => (otu0 + idx l)%nat) (n_taxon L s) with
                    | Some oid => match lookup_nat oid taxa with Some i0 => XOk (Some i0) | None => XErr OtherErr end
                    | None => XOk None
                    end = XOk (option_map idx (n_taxon L s))).
      { destruct s as [tx lb ln ks]. cbn [n_taxon tin] in *. destruct tx as [l|]; [|reflexivity]. cbn [option_map].
        apply andb_true_iff in Hs. destruct Hs as [Hs _]. unfold idx. destruct (index_of_label l ns 0) as [i0|] eqn:E; [|discriminate].
        rewrite taxa_ok; [reflexivity|]. apply index_of_label_lt in E. lia. }
      rewrite Etx. cbn [xbind].
      rewrite (G its _ _); [rewrite <- app_assoc; reflexivity | rewrite map_app; simpl; rewrite <- app_assoc; exact Hnd | exact Hr].
    + change (xn false (i, s) :: map (xn false) its) with (map (xn false) ((i, s) :: its)).
      rewrite (G _ _ _ Hnd Ht). rewrite app_nil_r. reflexivity.
Qed.

(* ---- build ---- *)
Definition xexpect : ntree -> ptree L :=
  fix f (t : ntree) : ptree L :=
    match t with Nd tx lb ln ks => PN (option_map idx tx) (truthy_label lb) ln [] (map f ks) end.

Definition node_cell_ok (cells : list (nat * cell)) (it : nat * ntree) : Prop :=
  exists par, lookup_nat (fst it) cells
              = Some (mkCell L (truthy_label (n_label L (snd it))) (option_map idx (n_taxon L (snd it))) par
                             (child_ids (n_kids L (snd it)) (S (fst it))) (n_len L (snd it))).

Lemma build_spec cells : forall t nk fuel, (nsize t <= fuel)%nat ->
  (forall it, In it (pre t nk) -> node_cell_ok cells it) ->
  build L fuel cells nk = XOk (xexpect t).
Proof.
  induction t as [tx lb ln ks IH] using ntree_ind'. intros nk fuel Hf Hok.
  rewrite nsize_unfold in Hf. destruct fuel as [|fuel]; [lia|].
  rewrite pre_unfold in Hok.
  destruct (Hok (nk, Nd tx lb ln ks) (or_introl eq_refl)) as [par Ec]. cbn [fst snd n_label n_taxon n_kids n_len] in Ec.
  cbn [build]. rewrite Ec. cbn [c_kids c_taxon c_label c_len].
  assert (G : forall k, (nsizes ks <= fuel)%nat -> (forall it, In it (pre_list ks k) -> node_cell_ok cells it) ->
     (fix go (ids : list nat) : xres (list (ptree L)) :=
        match ids with
        | [] => XOk []
        | i :: r => xbind (build L fuel cells i) (fun k0 => xbind (go r) (fun ks0 => XOk (k0 :: ks0)))
        end) (child_ids ks k) = XOk (map xexpect ks)).
  { clear Hok Ec Hf. induction IH as [|c r Hc Hr IHr]; intros k Hk Hok; [reflexivity|]. cbn [child_ids map pre_list nsizes] in *.
    assert (H1 : build L fuel cells k = XOk (xexpect c)).
    { apply Hc; [lia | intros it Hit; apply Hok; apply in_app_iff; left; exact Hit]. }
    rewrite H1. cbn [xbind].
    assert (H2 : (nsizes r <= fuel)%nat) by lia.
    rewrite (IHr (k + nsize c)%nat H2); [reflexivity | intros it Hit; apply Hok; apply in_app_iff; right; exact Hit]. }
  rewrite (G (S nk)); [reflexivity | lia | intros it Hit; apply Hok; right; exact Hit].
Qed.

(* ---- one tree: build_tree on the elements write_xtree produced ---- *)
Lemma elist_shape : forall t parent nk e, In e (elist parent t nk) ->
  exists h, snd (fst e) = Some h /\ (nk <= h < nk + nsize t)%nat /\
            (fst (fst e) = parent \/ exists s, fst (fst e) = Some s /\ (nk <= s < h)%nat).
Proof.
  induction t as [tx lb ln ks IH] using ntree_ind'. intros parent nk e He. rewrite elist_unfold in He. rewrite nsize_unfold.
  destruct He as [He|He]; [subst; exists nk; cbn [fst snd]; repeat split; [lia | lia | left; reflexivity]|].
  assert (G : forall k, In e (elist_list (Some nk) ks k) -> (nk < k)%nat ->
              exists h, snd (fst e) = Some h /\ (k <= h < k + nsizes ks)%nat /\ exists s, fst (fst e) = Some s /\ (nk <= s < h)%nat).
  { clear He. induction IH as [|c r Hc Hr IHr]; intros k He Hk; [contradiction|]. cbn [elist_list nsizes] in *.
    apply in_app_iff in He. destruct He as [He|He].
    - destruct (Hc (Some nk) k e He) as [h [E1 [E2 [E3|[s [E3 E4]]]]]].
      + exists h. repeat split; [exact E1 | lia | lia | exists nk; split; [exact E3 | lia]].
      + exists h. repeat split; [exact E1 | lia | lia | exists s; split; [exact E3 | lia]].
    - destruct (IHr (k + nsize c)%nat He ltac:(lia)) as [h [E1 [E2 [s [E3 E4]]]]].
      exists h. repeat split; [exact E1 | lia | lia | exists s; split; [exact E3 | lia]]. }
  destruct (G (S nk) He ltac:(lia)) as [h [E1 [E2 [s [E3 E4]]]]].
  exists h. repeat split; [exact E1 | lia | lia | right; exists s; split; [exact E3 | lia]].
Qed.

Lemma tin_pre : forall t k, tin t = true -> forallb (fun it => tin (snd it)) (pre t k) = true.
Proof.
  induction t as [tx lb ln ks IH] using ntree_ind'. intros k Ht. rewrite pre_unfold. cbn [forallb snd]. rewrite Ht. cbn [andb].
  cbn [tin] in Ht. apply andb_true_iff in Ht. destruct Ht as [_ Hks].
  generalize (S k). induction IH as [|c r Hc Hr IHr]; intro j; [reflexivity|].
  simpl in Hks. apply andb_true_iff in Hks. destruct Hks as [H1 H2]. cbn [pre_list]. rewrite forallb_app, (Hc j H1), (IHr H2). reflexivity.
Qed.

Lemma filter_seq_head nk m :
  filter (fun i => negb (existsb (Nat.eqb i) (seq (S nk) m))) (seq nk (S m)) = [nk].
Proof.
  cbn [seq filter].
  assert (E1 : existsb (Nat.eqb nk) (seq (S nk) m) = false).
  { destruct (existsb (Nat.eqb nk) (seq (S nk) m)) eqn:E; [|reflexivity]. apply existsb_exists in E. destruct E as [x [Hx Ex]].
    apply Nat.eqb_eq in Ex. subst. apply in_seq in Hx. lia. }
  rewrite E1. cbn [negb]. f_equal.
  assert (G : forall l, (forall x, In x l -> In x (seq (S nk) m)) ->
              filter (fun i => negb (existsb (Nat.eqb i) (seq (S nk) m))) l = []).
  { induction l as [|x l IH]; intro H; [reflexivity|]. cbn [filter].
    assert (E : existsb (Nat.eqb x) (seq (S nk) m) = true) by (apply existsb_exists; exists x; split; [apply H; left; reflexivity | apply Nat.eqb_refl]).
    rewrite E. apply IH. intros y Hy. apply H. right. exact Hy. }
  apply G. auto.
Qed.

Lemma lookup_cells0 (its : list (nat * ntree)) i c :
  lookup_nat i (map (fun it => (fst it, cell0 (snd it))) its) = Some c -> c_parent L c = None.
Proof.
  induction its as [|[j s] its IH]; simpl; [discriminate|]. destruct (Nat.eqb i j); [intro H; inversion H; reflexivity | exact IH].
Qed.

Lemma in_triples (es : list xedge) e : In e es -> In (etriple e) (map etriple es).
Proof. apply in_map. Qed.

Theorem build_tree_written : forall rt k x k', tin (snd rt) = true ->
  write_xtree L ns otu0 rt k = Some (x, k') ->
  build_tree L taxa x
  = XOk (mkPR (Some (match fst rt with Some true => true | _ => false end)) [] (xexpect (snd rt))).
Proof.
  intros [r t] k x k' Ht Hw. cbn [fst snd] in *. unfold write_xtree in Hw. cbn [fst snd] in Hw.
  set (rooted := match r with Some true => true | _ => false end) in *.
  set (nk := S k) in *.
  rewrite (write_nodes_spec t rooted true nk Ht) in Hw. rewrite andb_true_r in Hw.
  pose proof (write_edges_triples t None nk (nk + nsize t)%nat) as Htr.
  destruct (write_edges L None t nk (nk + nsize t)%nat) as [edges k2]. cbn [fst] in Htr.
  destruct t as [tx lb ln ks]. rewrite elist_unfold in Htr.
  destruct edges as [|re es]; [discriminate|]. inversion Hw; subst x k'. clear Hw.
  cbn [map] in Htr. unfold etriple at 1 in Htr. injection Htr as Esre Etre Elre Ees.
  set (t := Nd tx lb ln ks) in *.
  set (its := pre t nk).
  assert (Eits : its = (nk, t) :: pre_list ks (S nk)) by reflexivity.
  (* nodes *)
  unfold build_tree. cbn [xt_nodes xt_edges xt_rootedge n_kids].
  assert (Hkeys : map fst its = seq nk (nsize t)) by apply pre_ids.
  change (xn rooted (nk, t) :: map (xn false) (pre_list ks (S nk)))
    with (match its with [] => [] | it :: r0 => xn rooted it :: map (xn false) r0 end).
  rewrite (parse_nodes_spec its rooted [] []);
    [| change (map fst (@nil (nat * cell)) ++ map fst its) with (map fst its); rewrite Hkeys; apply seq_NoDup | apply tin_pre; exact Ht | intros _; eexists; eexists; exact Eits].
  cbn [xbind app].
  set (cells0 := map (fun it : nat * ntree => (fst it, cell0 (snd it))) its).
  assert (Hk0 : map fst cells0 = seq nk (nsize t)) by (unfold cells0; rewrite map_map; exact Hkeys).
  assert (Eroots : (if rooted then match its with it :: _ => [fst it] | [] => [] end else []) = if rooted then [nk] else []) by reflexivity.
  rewrite Eroots.
  assert (Eseed0 : match (if rooted then [nk] else []) with [] => XOk None | [r0] => XOk (Some r0) | _ :: _ :: _ => @XErr (option nat) OtherErr end
                   = XOk (if rooted then Some nk else None)) by (destruct rooted; reflexivity).
  rewrite Eseed0. cbn [xbind].
  (* edges *)
  assert (Htg : targets es = seq (S nk) (nsizes ks)).
  { rewrite targets_triples, Ees. apply elist_list_targets. }
  assert (HW : EWf es cells0).
  { unfold EWf. rewrite Hk0. repeat split.
    - apply seq_NoDup.
    - apply Forall_forall. intros e He. pose proof (in_triples es e He) as Hin. rewrite Ees in Hin.
      assert (Hin' : In (etriple e) (elist None t nk)) by (unfold t; rewrite elist_unfold; right; exact Hin).
      destruct (elist_shape t None nk (etriple e) Hin') as [h [E1 [E2 E3]]].
      assert (Hhn : (S nk <= h)%nat).
      { assert (X : In h (ttargets (elist_list (Some nk) ks (S nk)))).
        { unfold ttargets. apply in_map_iff. exists (etriple e). rewrite E1. auto. }
        rewrite elist_list_targets in X. apply in_seq in X. lia. }
      destruct (elist_sources t None nk (etriple e) Hin') as [E4|[s [E4 E5]]].
      + (* source None: only the root edge, which is not in es *)
        exfalso. unfold t in Hin. clear - Hin E4.
        assert (G : forall j e0, In e0 (elist_list (Some nk) ks j) -> fst (fst e0) <> None).
        { clear. induction ks as [|c r IH]; intros j e0 H; [contradiction|]. cbn [elist_list] in H. apply in_app_iff in H. destruct H as [H|H].
          - destruct c as [tx lb ln ks']. rewrite elist_unfold in H. destruct H as [H|H]; [subst; discriminate|].
            destruct (elist_sources (Nd tx lb ln ks') (Some nk) j e0) as [E|[s [E _]]]; [rewrite elist_unfold; right; exact H | rewrite E; discriminate | rewrite E; discriminate].
          - apply (IH _ _ H). }
        apply (G _ _ Hin). exact E4.
      + unfold etriple in E1, E4. cbn [fst snd] in E1, E4. exists h, s. repeat split; try assumption.
        * apply in_seq. lia.
        * apply in_seq. lia.
        * destruct E3 as [E3|[s' [E3 E6]]]; [unfold etriple in E3; cbn [fst snd] in E3; congruence|].
          unfold etriple in E3. cbn [fst snd] in E3. rewrite E4 in E3. inversion E3; subst s'. lia.
    - rewrite Htg. apply seq_NoDup.
    - intros h c _ Hl. apply (lookup_cells0 its h c Hl). }
  rewrite (attach_spec es cells0 (map fst cells0) HW). cbn [xbind].
  assert (Ens : nsize t = S (nsizes ks)) by (unfold t; apply nsize_unfold).
  rewrite Hk0, Htg. rewrite Ens. rewrite filter_seq_head.
  assert (Eseed : match (if rooted then Some nk else None) with
                  | Some r0 => if Nat.eqb r0 nk then XOk nk else @XErr nat OtherErr
                  | None => XOk nk
                  end = XOk nk) by (destruct rooted; [rewrite Nat.eqb_refl|]; reflexivity).
  rewrite Eseed. cbn [xbind].
  set (cells1 := map (fun kv : nat * cell => (fst kv, upd es (fst kv) (snd kv))) cells0).
  assert (Hk1 : map fst cells1 = seq nk (nsize t)) by (unfold cells1; rewrite map_map; exact Hk0).
  (* the root edge *)
  rewrite Etre.
  assert (Hroot1 : lookup_nat nk cells1 = Some (upd es nk (cell0 t))).
  { unfold cells1. rewrite (lookup_map (fun k c => upd es k c)). unfold cells0.
    rewrite (lookup_in _ nk (cell0 t)); [reflexivity | fold cells0; rewrite Hk0; apply seq_NoDup |].
    apply (in_map (fun it : nat * ntree => (fst it, cell0 (snd it))) its (nk, t)). rewrite Eits. left. reflexivity. }
  rewrite Hroot1. rewrite Nat.eqb_refl. cbn [xbind].
  rewrite (update_as_map nk _ cells1) by (rewrite Hk1; apply seq_NoDup).
  set (cells2 := map _ cells1).
  assert (Hlen2 : length cells2 = nsize t).
  { unfold cells2. rewrite map_length. rewrite <- (map_length fst cells1), Hk1. apply seq_length. }
  rewrite (build_spec cells2 t nk (S (length cells2))); [cbn [xbind]; unfold rooted; destruct r as [[|]|]; reflexivity | lia |].
  (* every node has the expected cell *)
  intros [i s] Hin. unfold node_cell_ok. cbn [fst snd].
  assert (Hi : In i (seq nk (nsize t))) by (rewrite <- Hkeys; apply (in_map fst its (i, s)); exact Hin).
  assert (Hl0 : lookup_nat i cells0 = Some (cell0 s)).
  { apply lookup_in; [rewrite Hk0; apply seq_NoDup|]. unfold cells0.
    apply (in_map (fun it : nat * ntree => (fst it, cell0 (snd it))) its (i, s)). exact Hin. }
  assert (Hl1 : lookup_nat i cells1 = Some (upd es i (cell0 s))).
  { unfold cells1. rewrite (lookup_map (fun k c => upd es k c)). rewrite Hl0. reflexivity. }
  assert (Hkids : kids_of es i = child_ids (n_kids L s) (S i)).
  { rewrite kids_of_triples, Ees.
    pose proof (tkids_inside t None nk i s I Hin) as K. unfold t in K. rewrite elist_unfold in K. exact K. }
  unfold cells2. rewrite (lookup_map (fun k c => if Nat.eqb k nk then _ else c)). rewrite Hl1. cbn [option_map].
  destruct (Nat.eqb i nk) eqn:Ei.
  - (* the root *)
    apply Nat.eqb_eq in Ei. subst i.
    assert (s = t).
    { fold its in Hin. rewrite Eits in Hin. destruct Hin as [Hin|Hin]; [inversion Hin; reflexivity|].
      apply (in_map fst) in Hin. rewrite pre_list_ids in Hin. apply in_seq in Hin. cbn [fst] in Hin. lia. }
    subst s. eexists. unfold upd.
    assert (Fn : find_in es nk = None).
    { pose proof (find_in_triples es nk) as F. rewrite Ees in F.
      rewrite (tfind_none (elist_list (Some nk) ks (S nk)) nk) in F.
      - destruct (find_in es nk); [discriminate | reflexivity].
      - left. rewrite elist_list_targets. intro H. apply in_seq in H. lia. }
    rewrite Fn. cbn [c_label c_taxon c_parent c_kids c_len cell0]. rewrite Hkids, Elre. reflexivity.
  - (* another node *)
    apply Nat.eqb_neq in Ei.
    destruct (tfind_inside t None nk i s Hin) as [par Ef]. unfold t in Ef. rewrite elist_unfold in Ef.
    unfold tfind in Ef. cbn [find fst snd] in Ef. assert (E : Nat.eqb nk i = false) by (apply Nat.eqb_neq; lia). rewrite E in Ef.
    fold (tfind (elist_list (Some nk) ks (S nk)) i) in Ef.
    pose proof (find_in_triples es i) as F. rewrite Ees, Ef in F.
    destruct (find_in es i) as [e|] eqn:Ee; [|discriminate]. simpl in F. inversion F as [[F1 F2 F3]].
    exists (xe_source L e). unfold upd. rewrite Ee. cbn [c_label c_taxon c_parent c_kids c_len cell0]. rewrite Hkids. reflexivity.
Qed.

Lemma build_trees_written : forall ts k xs k', forallb (fun rt => tin (snd rt)) ts = true ->
  write_xtrees L ns otu0 ts k = Some (xs, k') ->
  build_trees L taxa xs
  = XOk (map (fun rt => mkPR (Some (match fst rt with Some true => true | _ => false end)) [] (xexpect (snd rt))) ts).
Proof.
  induction ts as [|rt ts IH]; intros k xs k' Ht Hw.
  - simpl in Hw. inversion Hw; subst. reflexivity.
  - simpl in Ht. apply andb_true_iff in Ht. destruct Ht as [H1 H2]. cbn [write_xtrees] in Hw.
    destruct (write_xtree L ns otu0 rt k) as [[x k1]|] eqn:E1; [|discriminate].
    destruct (write_xtrees L ns otu0 ts k1) as [[xs' k2]|] eqn:E2; [|discriminate].
    inversion Hw; subst. cbn [build_trees map].
    rewrite (build_tree_written rt k x k1 H1 E1). cbn [xbind]. rewrite (IH k1 xs' k' H2 E2). reflexivity.
Qed.

Lemma write_xtree_some : forall rt k, tin (snd rt) = true -> exists x k', write_xtree L ns otu0 rt k = Some (x, k').
Proof.
  intros [r t] k Ht. unfold write_xtree. cbn [fst snd] in *. rewrite (write_nodes_spec t _ true (S k) Ht).
  destruct (write_edges L None t (S k) (S k + nsize t)) as [edges k2] eqn:E.
  pose proof (write_edges_triples t None (S k) (S k + nsize t)%nat) as Htr. rewrite E in Htr. cbn [fst] in Htr.
  destruct t as [tx lb ln ks]. rewrite elist_unfold in Htr. destruct edges; [discriminate|]. eexists. eexists. reflexivity.
Qed.

Lemma write_xtrees_some : forall ts k, forallb (fun rt => tin (snd rt)) ts = true -> exists xs k', write_xtrees L ns otu0 ts k = Some (xs, k').
Proof.
  induction ts as [|rt ts IH]; intros k Ht; [eexists; eexists; reflexivity|].
  simpl in Ht. apply andb_true_iff in Ht. destruct Ht as [H1 H2]. cbn [write_xtrees].
  destruct (write_xtree_some rt k H1) as [x [k1 E1]]. rewrite E1.
  destruct (IH k1 H2) as [xs [k2 E2]]. rewrite E2. eexists. eexists. reflexivity.
Qed.

End NexmlProofs.

(* ---- the document ---- *)
Section NexmlDoc.
Variable L : Type.

Lemma otus_taxa_ok (ns : list str) : forall i, (i < length ns)%nat ->
  lookup_nat (1 + i)%nat
    (map (fun il : nat * (nat * option str) => (fst (snd il), fst il))
         (enum_from O (map (fun il : nat * str => (S (fst il), truthy_label (Some (snd il)))) (enum_from O ns))))
  = Some i.
Proof.
  assert (G : forall (ns : list str) off i, (i < length ns)%nat ->
     lookup_nat (S (off + i))
       (map (fun il : nat * (nat * option str) => (fst (snd il), fst il))
            (enum_from off (map (fun il : nat * str => (S (fst il), truthy_label (Some (snd il)))) (enum_from off ns))))
     = Some (off + i)%nat).
  { induction ns0 as [|l ns0 IH]; intros off i Hi; [simpl in Hi; lia|].
    cbn [enum_from map fst snd lookup_nat]. destruct i as [|i].
    - rewrite Nat.add_0_r, Nat.eqb_refl. reflexivity.
    - assert (E : Nat.eqb (S (off + S i)) (S off) = false) by (apply Nat.eqb_neq; lia). rewrite E.
      replace (S (off + S i)) with (S (S off + i)) by lia. replace (off + S i)%nat with (S off + i)%nat by lia.
      apply IH. simpl in Hi. lia. }
  intros i Hi. apply (G ns O i Hi).
Qed.

Lemma enum_snd {A} (l : list A) : forall off, map snd (enum_from off l) = l.
Proof. induction l as [|x l IH]; intro off; simpl; [reflexivity|]. rewrite IH. reflexivity. Qed.

Theorem nexml_roundtrip_elements : forall (ns : list str) (ts : list (option bool * ntree L)),
  ns <> [] -> forallb (fun rt => tin L ns (snd rt)) ts = true ->
  exists d, write_nexml L ns ts = Some d /\
    read_nexml L d
    = XOk (map (fun l => truthy_label (Some l)) ns,
           map (fun rt => mkPR (Some (match fst rt with Some true => true | _ => false end)) []
                               (xexpect L ns (snd rt))) ts).
Proof.
  intros ns ts Hne Ht. unfold write_nexml.
  destruct (write_xtrees_some L ns 1 ts (S (S (length ns))) Ht) as [xs [k' E]]. rewrite E.
  eexists. split; [reflexivity|].
  unfold read_nexml. cbn [xd_trees_otus xd_otus_id xd_otus xd_trees].
  assert (Hnil : is_nil (map (fun il : nat * str => (S (fst il), truthy_label (Some (snd il)))) (enum_from O ns)) = false)
    by (destruct ns; [congruence | reflexivity]).
  rewrite Hnil. cbn [Nat.eqb negb].
  rewrite (build_trees_written L ns 1 _ (otus_taxa_ok ns) ts _ xs k' Ht E). cbn [xbind].
  f_equal. f_equal. rewrite map_map. cbn [snd]. rewrite <- (map_map snd (fun l => truthy_label (Some l))).
  rewrite enum_snd. reflexivity.
Qed.

End NexmlDoc.
