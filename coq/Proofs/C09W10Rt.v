(* C09, wave 10 (c): the RECEIVER side of routes.  After a route from a separated world EVERY matrix of the final
   world - the receivers of add_/replace_/update_/extend_sequences / extend_matrix and the results of concatenate /
   export_character_indices included - is written and read back, in every format C09 has a round-trip theorem
   for, with the content the value-level semantics (Proofs/C09W10Val.v: v_run) gives it. *)
From Coq Require Import ZArith List Bool Lia Permutation.
From DV Require Import Model.PyPrims Model.C09AlphaTypes Model.C09Alphabets Model.C09Model Model.C09Spec Model.C09Nexus Model.C09Convert Model.C09Obj.
From DV Require Import Proofs.C09Text Proofs.C09Fasta Proofs.C09PhylipInst Proofs.C09NexusProofs Proofs.C09NexusStd
  Proofs.C09Main Proofs.C09Examples Proofs.C09ObjProofs Proofs.C09W9Sep Proofs.C09W10Src Proofs.C09W10Val.
Import ListNotations.
Open Scope Z_scope.

Local Notation MX ns w mi := (iter_rows ns (deref (ow_store w) mi)).

Lemma result_fasta_after_route_l : forall (lower : text -> text) (a : alphabet) (wrap : bool) (width : Z)
    (ns : list text) w ops w' cs i c,
  sep w -> o_run CopyValues w ops = Ok w' -> v_run (contents w) ops = Ok cs -> nth_error cs i = Some c ->
  forallb fasta_label_ok (map fst (iter_rows ns c)) = true ->
  labels_distinct lower (map fst (iter_rows ns c)) = true ->
  cells_ok a (iter_rows ns c) = true ->
  rows_nonempty (iter_rows ns c) = true ->
  exists mi', nth_error (ow_ms w') i = Some mi' /\
    read_fasta lower a (write_fasta a wrap width (MX ns w' mi')) = Ok (iter_rows ns c).
Proof.
  intros lower a wrap width ns w ops w' cs i c S Hs Hv Hi H1 H2 H3 H4.
  destruct (route_matrix_value_l ns w ops w' cs i c S Hs Hv Hi) as (mi' & Hn & E).
  exists mi'. split; [exact Hn|]. rewrite E. apply fasta_roundtrip_l; assumption.
Qed.

Lemma result_phylip_after_route_l : forall (lower : text -> text) (a : alphabet) (wo : phy_wopts) (ro : phy_ropts)
    (nchar : Z) (ns : list text) w ops w' cs i c,
  sep w -> o_run CopyValues w ops = Ok w' -> v_run (contents w) ops = Ok cs -> nth_error cs i = Some c ->
  r_strict ro = w_strict wo ->
  iter_rows ns c <> [] -> 1 <= nchar ->
  forallb (phylip_label_ok wo ro) (map fst (iter_rows ns c)) = true ->
  labels_distinct lower (map fst (iter_rows ns c)) = true ->
  cells_ok a (iter_rows ns c) = true ->
  rectangular nchar (iter_rows ns c) = true ->
  exists mi', nth_error (ow_ms w') i = Some mi' /\
    exists t, write_phylip (symbols_as_string a) wo (MX ns w' mi') = Ok t
              /\ read_phylip lower Z (phylip_states a) ro t = Ok (iter_rows ns c).
Proof.
  intros lower a wo ro nchar ns w ops w' cs i c S Hs Hv Hi H1 H2 H3 H4 H5 H6 H7.
  destruct (route_matrix_value_l ns w ops w' cs i c S Hs Hv Hi) as (mi' & Hn & E).
  exists mi'. split; [exact Hn|]. rewrite E. apply (phylip_roundtrip_l lower a wo ro nchar); assumption.
Qed.

Lemma result_phylip_continuous_after_route_l : forall (lower : text -> text) (V : Type) (render : V -> text)
    (parse : text -> option V) (dec : Z -> V),
  (forall v, parse (render v) = Some v) ->
  (forall v, render v <> [] /\ nospace (render v)) ->
  forall (wo : phy_wopts) (ro : phy_ropts) (nchar : Z) (ns : list text) w ops w' cs i c,
  sep w -> o_run CopyValues w ops = Ok w' -> v_run (contents w) ops = Ok cs -> nth_error cs i = Some c ->
  r_strict ro = w_strict wo ->
  cont_rows dec (iter_rows ns c) <> [] -> 1 <= nchar ->
  forallb (phylip_label_ok wo ro) (map fst (cont_rows dec (iter_rows ns c))) = true ->
  labels_distinct lower (map fst (cont_rows dec (iter_rows ns c))) = true ->
  rectangular nchar (cont_rows dec (iter_rows ns c)) = true ->
  exists mi', nth_error (ow_ms w') i = Some mi' /\
    exists t, write_phylip (cont_as_string V render) wo (cont_rows dec (MX ns w' mi')) = Ok t
              /\ read_phylip lower V (phylip_cont V parse) ro t = Ok (cont_rows dec (iter_rows ns c)).
Proof.
  intros lower V render parse dec P1 P2 wo ro nchar ns w ops w' cs i c S Hs Hv Hi H1 H2 H3 H4 H5 H6.
  destruct (route_matrix_value_l ns w ops w' cs i c S Hs Hv Hi) as (mi' & Hn & E).
  exists mi'. split; [exact Hn|]. rewrite E. 
  apply (phylip_continuous_roundtrip_l lower V render parse P1 P2 wo ro nchar); assumption.
Qed.

Lemma result_nexus_after_route_l : forall (lower : text -> text) (dt : dtype) (simple cs0 : bool) (nchar : Z)
    (ns : list text) w ops w' cs i c,
  sep w -> o_run CopyValues w ops = Ok w' -> v_run (contents w) ops = Ok cs -> nth_error cs i = Some c ->
  fixed_dtype dt = true ->
  iter_rows ns c <> [] -> 1 <= nchar ->
  forallb label_token_ok (map fst (iter_rows ns c)) = true ->
  NoDup (map (keyf lower cs0) (map fst (iter_rows ns c))) ->
  cells_ok (alphabet_of_dtype dt) (iter_rows ns c) = true ->
  rectangular nchar (iter_rows ns c) = true ->
  exists mi', nth_error (ow_ms w') i = Some mi' /\
    exists toks st',
      write_chars_block dt [alphabet_of_dtype dt] [] (mkNW simple None None) (MX ns w' mi') = Ok toks
      /\ read_chars_block lower keep_ns
           (if simple then nx_init [] None cs0
            else nx_init (map fst (iter_rows ns c)) (Some (len (iter_rows ns c))) cs0) toks
         = Ok (st', [mkBR dt (alphabet_of_dtype dt) (iter_rows ns c) (map fst (iter_rows ns c)) None None], [EOL; EOL; EOL]).
Proof.
  intros lower dt simple cs0 nchar ns w ops w' cs i c S Hs Hv Hi H1 H2 H3 H4 H5 H6 H7.
  destruct (route_matrix_value_l ns w ops w' cs i c S Hs Hv Hi) as (mi' & Hn & E).
  exists mi'. split; [exact Hn|]. rewrite E. apply (nexus_chars_roundtrip_l lower dt simple cs0 _ nchar); assumption.
Qed.

Lemma result_nexus_standard_after_route_l : forall (lower : text -> text) (dt : dtype) (a : alphabet)
    (sym_order : list text) (simple cs0 : bool) (nchar : Z) (ns : list text) w ops w' cs i c,
  sep w -> o_run CopyValues w ops = Ok w' -> v_run (contents w) ops = Ok cs -> nth_error cs i = Some c ->
  std_dtype dt = true -> std_alphabet_ok a = true ->
  same_set sym_order (fundamental_symbols [a]) = true -> texts_distinct sym_order = true ->
  iter_rows ns c <> [] -> 1 <= nchar ->
  forallb label_token_ok (map fst (iter_rows ns c)) = true ->
  NoDup (map (keyf lower cs0) (map fst (iter_rows ns c))) ->
  forallb (fun r => forallb (valid_cell a) (snd r)) (iter_rows ns c) = true ->
  rectangular nchar (iter_rows ns c) = true ->
  exists mi', nth_error (ow_ms w') i = Some mi' /\
    exists toks st' b rows',
      write_chars_block dt [a] sym_order (mkNW simple None None) (MX ns w' mi') = Ok toks
      /\ read_chars_block lower keep_ns
           (if simple then nx_init [] None cs0
            else nx_init (map fst (iter_rows ns c)) (Some (len (iter_rows ns c))) cs0) toks
         = Ok (st', [mkBR DtStandard b rows' (map fst (iter_rows ns c)) None None], [EOL; EOL; EOL])
      /\ map fst rows' = map fst (iter_rows ns c)
      /\ map (fun r => map (state_str b) (snd r)) rows'
         = map (fun r => map (state_str a) (snd r)) (iter_rows ns c).
Proof.
  intros lower dt a so simple cs0 nchar ns w ops w' cs i c S Hs Hv Hi H1 H2 H3 H4 H5 H6 H7 H8 H9 H10.
  destruct (route_matrix_value_l ns w ops w' cs i c S Hs Hv Hi) as (mi' & Hn & E).
  exists mi'. split; [exact Hn|]. rewrite E. 
  apply (nexus_standard_roundtrip_l lower dt a so simple cs0 _ nchar); assumption.
Qed.

Lemma result_through_after_route_l : forall (lower : text -> text) (dt : dtype) (nchar : Z) (f : format)
    (ns : list text) w ops w' cs i c,
  sep w -> o_run CopyValues w ops = Ok w' -> v_run (contents w) ops = Ok cs -> nth_error cs i = Some c ->
  admissible lower dt nchar f (iter_rows ns c) = true ->
  exists mi', nth_error (ow_ms w') i = Some mi' /\ through lower dt f (MX ns w' mi') = Ok (iter_rows ns c).
Proof.
  intros lower dt nchar f ns w ops w' cs i c S Hs Hv Hi H.
  destruct (route_matrix_value_l ns w ops w' cs i c S Hs Hv Hi) as (mi' & Hn & E).
  exists mi'. split; [exact Hn|]. rewrite E. exact (through_identity_l lower dt nchar f _ H).
Qed.

(* ---- satisfiability: the route of C09W10Src.v; matrix 1 is the receiver of extend_sequences, matrix 2 the
   concatenate result, matrix 3 the export result ---- *)

Definition ex10_cs : list rowmap :=
  [[([97], [0; 1]); ([98], [2; 3])];
   [([98], [1; 2; 3]); ([97], [0; 0; 1])];
   [([97], [0; 1; 0; 0; 1]); ([98], [2; 3; 1; 2; 3])];
   [([97], [0; 0]); ([98], [2; 1])]].

Lemma ex10_value_route :
  sep (o_init ex_ms)
  /\ (exists w', o_run CopyValues (o_init ex_ms) ex_route10 = Ok w')
  /\ v_run (contents (o_init ex_ms)) ex_route10 = Ok ex10_cs
  /\ nth_error ex10_cs 1 = Some [([98], [1; 2; 3]); ([97], [0; 0; 1])]
  /\ nth_error ex10_cs 2 = Some [([97], [0; 1; 0; 0; 1]); ([98], [2; 3; 1; 2; 3])]
  /\ nth_error ex10_cs 3 = Some [([97], [0; 0]); ([98], [2; 1])]
  /\ iter_rows ex_ns [([98], [1; 2; 3]); ([97], [0; 0; 1])] = [([97], [0; 0; 1]); ([98], [1; 2; 3])].
Proof.
  split; [exact ex_sep|]. split; [eexists; vm_compute; reflexivity|]. repeat split; vm_compute; reflexivity.
Qed.

Definition ex10_concat : rowmap := [([97], [0; 1; 0; 0; 1]); ([98], [2; 3; 1; 2; 3])].

Lemma ex10r_fasta_hyps :
  let m := iter_rows ex_ns ex10_concat in
  forallb fasta_label_ok (map fst m) = true /\ labels_distinct ascii_low (map fst m) = true
  /\ cells_ok alpha_dna m = true /\ rows_nonempty m = true.
Proof. vm_compute. repeat split. Qed.

Lemma ex10r_phylip_hyps :
  let m := iter_rows ex_ns ex10_concat in
  r_strict (mkPR true true false true) = w_strict (mkPW true true) /\ m <> [] /\ 1 <= 5
  /\ forallb (phylip_label_ok (mkPW true true) (mkPR true true false true)) (map fst m) = true
  /\ forallb (phylip_label_ok (mkPW false false) (mkPR false false true false)) (map fst m) = true
  /\ labels_distinct ascii_low (map fst m) = true /\ cells_ok alpha_dna m = true /\ rectangular 5 m = true.
Proof. vm_compute. repeat split. discriminate. discriminate. Qed.

Lemma ex10r_cont_hyps :
  let m := cont_rows (fun z => z) (iter_rows ex_ns ex10_concat) in
  m <> [] /\ forallb (phylip_label_ok (mkPW false false) (mkPR false true true false)) (map fst m) = true
  /\ labels_distinct ascii_low (map fst m) = true /\ rectangular 5 m = true.
Proof. vm_compute. repeat split. discriminate. Qed.

Lemma ex10r_nexus_hyps :
  let m := iter_rows ex_ns ex10_concat in
  fixed_dtype DtDna = true /\ m <> [] /\ 1 <= 5 /\ forallb label_token_ok (map fst m) = true
  /\ NoDup (map (keyf ascii_low false) (map fst m)) /\ cells_ok (alphabet_of_dtype DtDna) m = true
  /\ rectangular 5 m = true.
Proof.
  vm_compute. split; [reflexivity|]. split; [discriminate|]. split; [discriminate|]. split; [reflexivity|].
  split; [apply nodup2; discriminate|]. split; reflexivity.
Qed.

Lemma ex10r_standard_hyps :
  let m := iter_rows ex_ns ex10_concat in
  std_dtype DtStandard = true /\ std_alphabet_ok alpha_standard = true
  /\ same_set ex_order (fundamental_symbols [alpha_standard]) = true /\ texts_distinct ex_order = true
  /\ m <> [] /\ forallb label_token_ok (map fst m) = true
  /\ NoDup (map (keyf ascii_low true) (map fst m))
  /\ forallb (fun r => forallb (valid_cell alpha_standard) (snd r)) m = true /\ rectangular 5 m = true.
Proof.
  vm_compute. do 4 (split; [reflexivity|]). split; [discriminate|]. split; [reflexivity|].
  split; [apply nodup2; discriminate|]. split; reflexivity.
Qed.

(* the receiver (matrix 1) and the export result (matrix 3) are admissible for every format too *)
Lemma ex10r_through_hyps :
  admissible ascii_low DtDna 5 (FFasta true 70) (iter_rows ex_ns ex10_concat) = true
  /\ admissible ascii_low DtDna 5 (FPhylip (mkPW true false) (mkPR true true false false)) (iter_rows ex_ns ex10_concat) = true
  /\ admissible ascii_low DtDna 5 (FNexus false) (iter_rows ex_ns ex10_concat) = true
  /\ admissible ascii_low DtDna 3 (FPhylip (mkPW false false) (mkPR false false false false))
       (iter_rows ex_ns [([98], [1; 2; 3]); ([97], [0; 0; 1])]) = true
  /\ admissible ascii_low DtDna 3 (FNexus true) (iter_rows ex_ns [([98], [1; 2; 3]); ([97], [0; 0; 1])]) = true
  /\ admissible ascii_low DtDna 2 (FFasta false 0) (iter_rows ex_ns [([97], [0; 0]); ([98], [2; 1])]) = true
  /\ admissible ascii_low DtProtein 2 (FNexus true) (iter_rows ex_ns [([97], [0; 0]); ([98], [2; 1])]) = true.
Proof. vm_compute. repeat split. Qed.
