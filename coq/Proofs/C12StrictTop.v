(* C12, sixth wave: top level of deepcopy_isomorphism_strict: the executable privacy predicates give the
   propositional hypotheses of Proofs/C12Strict.v; recorded sources are not atomic (Proofs/C12NoAtom.v); atomic
   objects the source reaches are reached by the copy as the very same objects. *)
From Coq Require Import ZArith List Bool Lia.
From DV Require Import Model.PyPrims Model.C12Model Model.C12Spec2 Model.C12Spec3 Model.C12Spec4 Proofs.C12Heap Proofs.C12Inv
  Proofs.C12Copy Proofs.C12Wf Proofs.C12Proofs Proofs.C12Iso Proofs.C12Wf2 Proofs.C12IsoTop Proofs.C12Own Proofs.C12AnnDef
  Proofs.C12Own2 Proofs.C12Fun Proofs.C12Wf3 Proofs.C12AnnTop Proofs.C12FunTop Proofs.C12Image Proofs.C12ImageTop
  Proofs.C12Examples Proofs.C12IsoFull Proofs.C12IsoFullTop Proofs.C12NoAtom Proofs.C12Strict.
Import ListNotations.
Open Scope Z_scope.

(* ---- the executable predicates, as propositions ---------------------------------------------------------------- *)

Lemma prim_tuple_spec : forall h t, prim_tuple h t = true -> ptuple h t.
Proof.
  intros h t H. unfold prim_tuple in H. destruct (hget h t) as [ob|] eqn:G; [|discriminate].
  apply andb_true_iff in H. destruct H as [K F]. apply kind_eqb_eq in K.
  exists ob. split; [exact G|]. split; [exact K|]. intros k v I. rewrite forallb_forall in F.
  specialize (F (k, v) I). simpl in F. apply andb_true_iff in F. destruct F as [F1 F2].
  destruct k; destruct v; try discriminate; eauto.
Qed.

Lemma entry_ok_spec : forall h seeds o, entry_ok h seeds o = true -> In o seeds \/ is_atomic h o = true.
Proof. intros h seeds o H. unfold entry_ok in H. apply orb_true_iff in H. destruct H as [H|H]; [left; apply memz_In; exact H | right; exact H]. Qed.

Lemma priv_parts : forall h seeds reg root, private_region_ok h seeds reg root = true ->
  (forall b, In b seeds -> In b reg)
  /\ (forall b, is_atomic h b = true -> In b reg)
  /\ (forall o ob k v t, hget h o = Some ob -> In o reg -> In (k, v) (obody ob) -> (k = R t \/ v = R t) -> In t reg)
  /\ (forall o ob k v t, hget h o = Some ob -> ~ In o reg -> In (k, v) (obody ob) -> (k = R t \/ v = R t) ->
        In t reg -> In t seeds \/ is_atomic h t = true \/ ptuple h t)
  /\ (In root reg -> In root seeds \/ is_atomic h root = true).
Proof.
  intros h seeds reg root H. unfold private_region_ok in H.
  apply andb_true_iff in H. destruct H as [H H4]. apply andb_true_iff in H. destruct H as [H H3].
  apply andb_true_iff in H. destruct H as [H1 H2].
  split; [|split; [|split; [|split]]].
  - intros b I. rewrite forallb_forall in H1. apply memz_In. exact (H1 b I).
  - intros b A. unfold is_atomic, kind_at in A. destruct (hget h b) as [ob|] eqn:G; [|discriminate].
    destruct (hget_nth _ _ _ G) as [N P0]. assert (X := forallbi_spec _ _ _ _ H2 _ _ N). simpl in X.
    rewrite Z2Nat.id in X by exact P0. destruct (okind ob); try discriminate. simpl in X. apply memz_In. exact X.
  - intros o ob k v t G IR I KV. destruct (hget_nth _ _ _ G) as [N P0].
    assert (X := forallbi_spec _ _ _ _ H3 _ _ N). simpl in X. rewrite Z2Nat.id in X by exact P0.
    rewrite forallb_forall in X. specialize (X t (In_body_refs _ _ _ _ I KV)).
    rewrite (proj2 (memz_In o reg) IR) in X. apply memz_In. exact X.
  - intros o ob k v t G NR I KV IT. destruct (hget_nth _ _ _ G) as [N P0].
    assert (X := forallbi_spec _ _ _ _ H3 _ _ N). simpl in X. rewrite Z2Nat.id in X by exact P0.
    rewrite forallb_forall in X. specialize (X t (In_body_refs _ _ _ _ I KV)).
    destruct (memz o reg) eqn:MO; [exfalso; apply NR; apply memz_In; exact MO|].
    rewrite (proj2 (memz_In t reg) IT) in X. simpl in X. apply orb_true_iff in X. destruct X as [X|X].
    + destruct (entry_ok_spec _ _ _ X); auto.
    + right. right. apply prim_tuple_spec. exact X.
  - intro IR. rewrite (proj2 (memz_In root reg) IR) in H4. simpl in H4. apply entry_ok_spec. exact H4.
Qed.

Lemma region_closed_reach : forall h reg,
  (forall o ob k v t, hget h o = Some ob -> In o reg -> In (k, v) (obody ob) -> (k = R t \/ v = R t) -> In t reg) ->
  forall b o, In b reg -> reach h b o -> In o reg.
Proof.
  intros h reg CL b o IB RE. induction RE as [|m o2 RE IH ED]; [exact IB|].
  destruct ED as [ob [k [v [G [I KV]]]]]. exact (CL m ob k v o2 G IH I KV).
Qed.

Lemma is_ref_in_spec : forall l v t, v = R t -> In t l -> is_ref_in l v = true.
Proof. intros l v t E I. subst v. simpl. apply memz_In. exact I. Qed.

Lemma conts_private_spec : forall h, conts_private_ok h = true ->
  forall o ob k v t, hget h o = Some ob -> In (k, v) (obody ob) -> (k = R t \/ v = R t) ->
    In t (owned_inner h) -> okind ob = KAnnSet /\ (k = NM_ILIST \/ k = NM_ISET) /\ v = R t.
Proof.
  intros h H o ob k v t G I KV IT. unfold conts_private_ok in H. rewrite forallb_forall in H.
  specialize (H ob (hget_In _ _ _ G)). rewrite forallb_forall in H. specialize (H (k, v) I). simpl in H.
  apply andb_true_iff in H. destruct H as [HK HV].
  destruct KV as [E|E].
  - rewrite (is_ref_in_spec _ k t E IT) in HK. discriminate.
  - rewrite (is_ref_in_spec _ v t E IT) in HV. simpl in HV.
    apply andb_true_iff in HV. destruct HV as [K1 K2]. apply kind_eqb_eq in K1.
    apply orb_true_iff in K2. split; [exact K1|]. split; [|exact E].
    destruct K2 as [K2|K2]; apply val_eqb_eq in K2; auto.
Qed.

(* ---- recorded sources are not atomic ---------------------------------------------------------------------------- *)

Theorem recorded_not_atomic_l : forall nf h seeds root fuel s' y,
  wf_heap h seeds = true -> wf_heap2 h = true -> memz root (owned_list h) = false ->
  0 <= root < hlen h -> (length h < fuel)%nat ->
  run_seeded nf fuel h seeds root = Ok (s', R y) ->
  forall a b, In (a, b) (sc s') -> is_atomic h a = false.
Proof.
  intros nf h seeds root fuel s' y WF WF2 NO Hr Hf E a b I.
  destruct (deepcopy_bisimulation_l nf h seeds root fuel s' y WF WF2 NO Hr Hf E) as [_ [PAIR _]].
  destruct (PAIR a b I) as [_ [Hb [oa [ob [Ga [Gb [_ [KD _]]]]]]]].
  unfold is_atomic, kind_at. rewrite Ga. destruct (okind oa) eqn:K; try reflexivity.
  exfalso. assert (X := run_seeded_na nf fuel h seeds root s' (R y) E b).
  unfold kind_at in X. rewrite Gb, <- KD in X. specialize (X eq_refl). lia.
Qed.

(* ---- the strict isomorphism -------------------------------------------------------------------------------------- *)

Theorem deepcopy_isomorphism_strict_l : forall nf h seeds reg root fuel s' y,
  wf_heap h seeds = true -> wf_heap2 h = true -> wf_heap3 h = true -> wf_heap3s h = true -> wf_heap4 h = true ->
  root_seeds_ok h seeds root = true -> memz root (owned_list h) = false ->
  private_region_ok h seeds reg root = true -> conts_private_ok h = true -> root_ok4 h root = true ->
  0 <= root < hlen h -> (length h < fuel)%nat ->
  run_seeded nf fuel h seeds root = Ok (s', R y) ->
  iso_rel h s' root y root y
  /\ (forall b, reach (sh s') y b -> exists a, iso_rel h s' root y a b)
  /\ (forall a, reach h root a -> (exists b, iso_rel h s' root y a b) \/ empty_annset_part h a)
  /\ (forall a a' b, iso_rel h s' root y a b -> iso_rel h s' root y a' b -> a = a')
  /\ (forall a b b', iso_rel h s' root y a b -> iso_rel h s' root y a b' -> b = b' \/ kind_at h a = Some KTuple)
  /\ (forall a b, iso_rel h s' root y a b -> kind_at h a <> Some KTuple -> (a = b <-> In a reg))
  /\ (forall a b, In (a, b) (sc s') -> is_atomic h a = false /\ (reach (sh s') y b -> ~ In a (owned_conts h)))
  /\ (forall b, reach (sh s') y b -> hlen h <= b -> b = y \/
        exists a am m, iso_rel h s' root y a b /\ iso_rel h s' root y am m /\ hlen h <= m
                       /\ edge h am a /\ edge (sh s') m b).
Proof.
  intros nf h seeds reg root fuel s' y WF WF2 WF3 WF3S WF4 RS NO PR CP0 R4 Hr Hf E.
  destruct (wf_heap_parts _ _ WF) as [Hc _].
  destruct (deepcopy_fresh_disjoint_l nf h seeds root fuel s' y WF Hr Hf E) as [OLD [_ FRE]].
  destruct (deepcopy_bisimulation_l nf h seeds root fuel s' y WF WF2 NO Hr Hf E) as [RR [PAIR INJ]].
  assert (ANN := deepcopy_annotation_sets_l nf h seeds root fuel s' y WF WF2 WF3 NO Hr Hf E).
  destruct (deepcopy_single_valued_l nf h seeds root fuel s' y WF WF2 WF3 RS NO Hr Hf E) as [FUN [SRC FND]].
  destruct (run_inv23 nf h seeds root fuel s' y WF WF2 WF3 NO Hr Hf E) as [J J3].
  assert (NOATOM := recorded_not_atomic_l nf h seeds root fuel s' y WF WF2 NO Hr Hf E).
  destruct (deepcopy_isomorphism_l nf h seeds root fuel s' y WF WF2 WF3 WF3S WF4 RS NO Hr Hf E) as [T1 [ONTO [TOT [INJR [_ [FRS _]]]]]].
  assert (NOSRC : forall a b, In (a, b) (sc s') -> ~ owned h a).
  { intros a b I O. apply (proj1 (SRC a b I)). apply owned_in_list. exact O. }
  assert (NOSEED : forall a b, In (a, b) (sc s') -> ~ In a seeds) by (intros a b I; exact (proj2 (SRC a b I))).
  assert (ANN' : forall a b oa, In (a, b) (sc s') -> hget h a = Some oa -> is_annk (okind oa) = true ->
            exists done, AnnState s' b done /\ map fst done = refs_of (ann_items h oa) /\ (forall p, In p done -> In p (sc s'))).
  { intros a b oa I G AK. exact (ANN a b oa I G AK). }
  assert (SHAPE : forall x ob sx sxo, hget h x = Some ob -> is_annk (okind ob) = true ->
            bget (obody ob) NM_ANN = Some (R sx) -> hget h sx = Some sxo ->
            (forall k v, In (k, v) (obody sxo) ->
               (exists p, k = P p) /\ (k = NM_ILIST \/ k = NM_ISET \/ (k = NM_TARGET /\ ((exists p, v = P p) \/ v = R x))))).
  { intros x ob sx sxo G AK BA GS. exact (proj1 (wf3s_shape h WF3S x ob sx sxo G AK BA GS)). }
  assert (CL := closedb_spec h Hc).
  assert (SND := wf2_nodup h WF2). assert (SO := wf3s_owned h WF3S). assert (LK := wf2_listkeys h WF2).
  assert (PRIV := j_priv _ _ J). assert (OWNC := own_cont _ _ J3).
  assert (EX := wf4_exact h WF4). assert (CND := wf4_nodup h WF4).
  assert (EB := edges_back h s' root y). feed EB.
  assert (CPOF := cp_of h s'). feed CPOF.
  assert (CPFUN := cp_fun h s'). feed CPFUN.
  assert (CPNR := cp_norange h s'). feed CPNR.
  assert (CPFRESH := cp_fresh h s'). feed CPFRESH.
  assert (PFRESH := pair_fresh h s'). feed PFRESH.
  destruct (priv_parts h seeds reg root PR) as [RSEED [RATOM [RCL [REGOUT ROOTOUT]]]].
  assert (SHAREDREG : forall o, reach (sh s') y o -> o < hlen h -> In o reg).
  { intros o RO Lo. destruct (FRE o RO) as [F|[b [SB RB]]]; [lia|].
    apply (region_closed_reach h reg RCL b o); [|exact RB]. destruct SB as [S|A]; [exact (RSEED b S) | exact (RATOM b A)]. }
  assert (SEEDCONT : forall a, In a seeds -> ~ In a (owned_conts h)).
  { intros a I. destruct (root_seeds_spec h seeds root RS) as [_ SD]. exact (proj2 (proj2 (SD a I))). }
  assert (ROOTNC : ~ In root (owned_conts h)).
  { intro I. unfold root_ok4 in R4. rewrite (proj2 (memz_In _ _) I) in R4. discriminate. }
  assert (CONTPRIV := conts_private_spec h CP0).
  assert (S1 := iso_functional_strict h s' root y seeds reg). feed S1.
  assert (S2 := iso_shared_iff_region h s' root y seeds reg). feed S2.
  assert (S3 := recorded_not_container h s' root y). feed S3.
  assert (S4 := pred_exists h s' root y). feed S4.
  split; [exact T1|]. split; [exact ONTO|]. split; [exact TOT|]. split; [exact INJR|]. split; [exact S1|]. split; [exact S2|].
  split; [|exact S4].
  intros a b I. split; [exact (NOATOM a b I) | exact (S3 a b I)].
Qed.
