(* C13: route-level consequences for NEXUS: list / per-collection lists / iterator / offsets. *)
From Coq Require Import ZArith List Bool Lia.
From DV Require Import Model.PyPrims Model.C13Model Proofs.C13Lists Proofs.C13Lockstep Proofs.C13Suffix Proofs.C13Blocks.
Import ListNotations.
Open Scope Z_scope.

Section Routes.
Variable T : Type.
Variables lower upper : str -> str.
Variable parse_tree : mapper -> tz -> res (option T * mapper * tz).
Variable set_label : T -> option str -> T.
Variable add_comments : T -> list str -> T.
Variable vl : bool.
Variable vs : bool.
Variables va vk : bool.

Hypothesis parse_tree_suf : forall m z ot m' z',
  parse_tree m z = Ok (ot, m', z') -> suf (z_toks z') (z_toks z).
Hypothesis upper_idem : forall s, upper (upper s) = upper s.

(* the NEXUS iterator run under an arbitrary namespace configuration *)
Definition nexus_yield (nc : nscfg) (ns0 : list str) (d : doc) : list T * res (core * regs) :=
  y_items_from_stream T lower upper parse_tree set_label add_comments vl nc false
                      (doc_fuel d) (core_init nc ns0 d) (regs_init nc).

Notation NR := (nexus_read T lower upper parse_tree set_label add_comments vl vs).

Lemma yield_from_files_nexus : forall ns0 d,
  yield_from_files T lower upper parse_tree set_label add_comments vl Nexus ns0 d =
  (fst (nexus_yield (c_ns cfg_yield) ns0 d),
   do s <- snd (nexus_yield (c_ns cfg_yield) ns0 d) ;; Ok (nth O (k_nss (fst s)) [])).
Proof.
  intros. unfold yield_from_files, nexus_yield.
  destruct (y_items_from_stream _ _ _ _ _ _ _ _ _ _ _) as [out r]. reflexivity.
Qed.

(* the reader under configuration (nc, tlf) is determined by the iterator under nc *)
Lemma nexus_read_of_yield : forall nc tlf ns0 d,
  SetsOk upper vs (fst d) ->
  match snd (nexus_yield nc ns0 d) with
  | Ok (k', g') =>
    exists s, NR (mkCfg nc tlf) ns0 d = Ok s /\ r_k s = k' /\ r_g s = g'
              /\ match tlf with
                 | TLFixed => rs_list0 T s = fst (nexus_yield nc ns0 d)
                 | TLNew => concat (rs_blocks T s) = fst (nexus_yield nc ns0 d)
                 end
  | Err e => NR (mkCfg nc tlf) ns0 d = Err e
  | OutOfFuel => NR (mkCfg nc tlf) ns0 d = OutOfFuel
  end.
Proof.
  intros nc tlf ns0 d N. unfold nexus_yield, nexus_read, nexus_init. cbn [c_ns c_tlfac].
  set (tls0 := match tlf with TLFixed => [mkTl None [] []] | TLNew => [] end).
  assert (W0 : wf T tlf tls0 [] None).
  { unfold wf, tls0. destruct tlf; simpl; auto. }
  assert (F0 : flat T tlf tls0 = []).
  { unfold flat, tls0. destruct tlf; reflexivity. }
  pose proof (stream_agree T lower upper parse_tree set_label add_comments vl vs nc tlf false parse_tree_suf upper_idem
                (doc_fuel d) (core_init nc ns0 d) (regs_init nc) tls0 [] W0) as H.
  specialize (H N).
  destruct (y_items_from_stream T lower upper parse_tree set_label add_comments vl nc false
              (doc_fuel d) (core_init nc ns0 d) (regs_init nc)) as [out r].
  simpl fst in *. simpl snd in *. unfold trees_rel in H.
  destruct r as [[k' g']|e|]; try assumption.
  destruct H as [tls' [reg' [tb' [E [W F]]]]].
  exists (mkRs k' g' tls' reg'). split; [exact E|]. split; [reflexivity|]. split; [reflexivity|].
  rewrite F0 in F. simpl in F. unfold wf, flat in *. destruct tlf.
  - destruct W as [Hreg _]. unfold rs_blocks. cbn [r_tls r_tlreg]. rewrite Hreg.
    rewrite (map_nth_seq _ _ (fun x => tl_trees x)). exact F.
  - unfold rs_list0. cbn [r_tls]. exact F.
Qed.

(* one list for everything = the concatenation of one list per collection (same namespace
   configuration): TreeList.get vs TreeList.get(collection_offset=..) / Tree.get *)
Lemma list_vs_blocks : forall nc ns0 d,
  SetsOk upper vs (fst d) ->
  match NR (mkCfg nc TLNew) ns0 d with
  | Ok sb => exists sl, NR (mkCfg nc TLFixed) ns0 d = Ok sl
                        /\ rs_list0 T sl = concat (rs_blocks T sb) /\ r_k sl = r_k sb /\ r_g sl = r_g sb
  | Err e => NR (mkCfg nc TLFixed) ns0 d = Err e
  | OutOfFuel => NR (mkCfg nc TLFixed) ns0 d = OutOfFuel
  end.
Proof.
  intros nc ns0 d N.
  pose proof (nexus_read_of_yield nc TLNew ns0 d N) as HB.
  pose proof (nexus_read_of_yield nc TLFixed ns0 d N) as HL.
  destruct (snd (nexus_yield nc ns0 d)) as [[k' g']|e|].
  - destruct HB as [sb [EB [KB [GB FB]]]]. destruct HL as [sl [EL [KL [GL FL]]]].
    rewrite EB. exists sl. repeat split; congruence.
  - rewrite HB. assumption.
  - rewrite HB. assumption.
Qed.

(* ---- offsets ---- *)

Lemma nth_error_concat : forall (bs : list (list T)) (c k : nat) b t,
  nth_error bs c = Some b -> nth_error b k = Some t ->
  nth_error (concat bs) (length (concat (firstn c bs)) + k) = Some t.
Proof.
  induction bs as [|x r IH]; intros c k b t Hc Hk; destruct c; simpl in *; try discriminate.
  - inversion Hc; subst. rewrite nth_error_app1; [assumption|]. apply nth_error_Some. congruence.
  - rewrite app_length, <- Nat.add_assoc. rewrite nth_error_app2 by lia.
    replace (length x + (length (concat (firstn c r)) + k) - length x)%nat
      with (length (concat (firstn c r)) + k)%nat by lia.
    eapply IH; eassumption.
Qed.

Lemma py_index_nat : forall A (l : list A) (i : nat) x,
  nth_error l i = Some x -> py_index l (Z.of_nat i) = Some x.
Proof.
  intros A l i x H. unfold py_index.
  assert (i < length l)%nat by (apply nth_error_Some; congruence).
  assert (E : (0 <=? Z.of_nat i) && (Z.of_nat i <? Z.of_nat (length l)) = true).
  { apply andb_true_iff. split; [apply Z.leb_le | apply Z.ltb_lt]; lia. }
  rewrite E, Nat2Z.id. assumption.
Qed.

Lemma py_index_out : forall A (l : list A) (i : Z), Z.of_nat (length l) <= i -> py_index l i = None.
Proof.
  intros A l i H. unfold py_index.
  assert (E1 : (0 <=? i) && (i <? Z.of_nat (length l)) = false) by (apply andb_false_iff; right; apply Z.ltb_ge; lia).
  assert (E2 : (i <? 0) && (0 <=? Z.of_nat (length l) + i) = false) by (apply andb_false_iff; left; apply Z.ltb_ge; lia).
  rewrite E1, E2. reflexivity.
Qed.

Lemma py_index_neg : forall A (l : list A) (j : nat) x,
  (0 < j <= length l)%nat -> nth_error l (length l - j) = Some x -> py_index l (- Z.of_nat j) = Some x.
Proof.
  intros A l j x Hj H. unfold py_index.
  assert (E1 : (0 <=? - Z.of_nat j) && (- Z.of_nat j <? Z.of_nat (length l)) = false) by (apply andb_false_iff; left; apply Z.leb_gt; lia).
  assert (E2 : (- Z.of_nat j <? 0) && (0 <=? Z.of_nat (length l) + - Z.of_nat j) = true).
  { apply andb_true_iff. split; [apply Z.ltb_lt | apply Z.leb_le]; lia. }
  rewrite E1, E2. replace (Z.to_nat (Z.of_nat (length l) + - Z.of_nat j)) with (length l - j)%nat by lia. assumption.
Qed.

Lemma py_index_below : forall A (l : list A) (i : Z), i < - Z.of_nat (length l) -> py_index l i = None.
Proof.
  intros A l i H. unfold py_index.
  assert (E1 : (0 <=? i) && (i <? Z.of_nat (length l)) = false) by (apply andb_false_iff; left; apply Z.leb_gt; lia).
  assert (E2 : (i <? 0) && (0 <=? Z.of_nat (length l) + i) = false) by (apply andb_false_iff; right; apply Z.leb_gt; lia).
  rewrite E1, E2. reflexivity.
Qed.

(* select_tree is Python indexing twice, with the two emptiness tests of Tree.get *)
Lemma select_tree_spec : forall (blocks : list (list T)) (c k : Z),
  select_tree T set_label vk blocks c k =
  match blocks with
  | [] => Err ValueErr
  | _ => match py_index blocks c with
         | None => Err IndexErr
         | Some [] => Err ValueErr
         | Some tl => match py_index tl k with
                      | None => Err IndexErr
                      | Some t => Ok (got_label T set_label vk t)
                      end
         end
  end.
Proof.
  intros blocks c k. unfold select_tree. destruct blocks as [|b r]; [reflexivity|]. simpl is_nil.
  destruct (py_index (b :: r) c) as [tl|]; [|reflexivity]. destruct tl; reflexivity.
Qed.

Lemma select_tree_nat : forall (blocks : list (list T)) (c k : nat) b t,
  nth_error blocks c = Some b -> nth_error b k = Some t ->
  select_tree T set_label vk blocks (Z.of_nat c) (Z.of_nat k) = Ok (got_label T set_label vk t).
Proof.
  intros blocks c k b t Hc Hk. rewrite select_tree_spec.
  destruct blocks as [|b0 r]; [destruct c; discriminate|].
  rewrite (py_index_nat _ _ _ _ Hc). destruct b as [|x q]; [destruct k; discriminate|].
  rewrite (py_index_nat _ _ _ _ Hk). reflexivity.
Qed.

End Routes.
