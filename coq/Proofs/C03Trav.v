(* C03 proofs, traversal clause: on a well-formed heap the four pointer-walking traversals of
   dendropy's Node (preorder_iter, postorder_iter, levelorder_iter, leaf_iter; the stack / queue
   machines over _child_nodes) terminate and visit exactly the live nodes, each exactly once, in
   the structural orders of the abstract tree.

   The machines are modelled at heap level over node ids (top of the stack = head of the list;
   the queue is consumed from the head and extended at the tail), with explicit fuel:
     pre_run   : pop x, yield x, push the children of x (first child on top)
     post_run  : pop (x,false) -> push (x,true) and then the children (first child on top);
                 pop (x,true)  -> yield x
     level_run : dequeue x, yield x, enqueue the children of x
     leaf_run  : post_run filtered by (the child list of x is empty)
   A result None means out of fuel; the theorems give Some, with fuel an explicit function of the
   size of the abstract tree, so the machines terminate. *)
From Coq Require Import ZArith List Bool Lia Permutation.
From DV Require Import Model.PyPrims Model.Tree Model.Heap Proofs.C03Base Proofs.C03Abs Proofs.C03Local Proofs.C03Hist.
Import ListNotations. Open Scope Z_scope.

(* ---------- the machines ---------- *)

Fixpoint pre_run (fuel : nat) (h : heap) (stack : list Z) : option (list Z) :=
  match fuel with
  | O => match stack with [] => Some [] | _ => None end
  | S n =>
    match stack with
    | [] => Some []
    | x :: r => option_map (cons x) (pre_run n h (kids h x ++ r))
    end
  end.

Fixpoint post_run (fuel : nat) (h : heap) (stack : list (Z * bool)) : option (list Z) :=
  match fuel with
  | O => match stack with [] => Some [] | _ => None end
  | S n =>
    match stack with
    | [] => Some []
    | (x, true) :: r => option_map (cons x) (post_run n h r)
    | (x, false) :: r => post_run n h (map (fun k => (k, false)) (kids h x) ++ (x, true) :: r)
    end
  end.

Fixpoint level_run (fuel : nat) (h : heap) (queue : list Z) : option (list Z) :=
  match fuel with
  | O => match queue with [] => Some [] | _ => None end
  | S n =>
    match queue with
    | [] => Some []
    | x :: r => option_map (cons x) (level_run n h (r ++ kids h x))
    end
  end.

Definition heap_leaf (h : heap) (x : Z) : bool := match kids h x with [] => true | _ => false end.

Definition leaf_run (fuel : nat) (h : heap) (stack : list (Z * bool)) : option (list Z) :=
  option_map (filter (fun x => match kids h x with [] => true | _ => false end)) (post_run fuel h stack).

(* ---------- structural level order on rose trees (queue based) ---------- *)

Fixpoint level_forest (fuel : nat) (q : list tree) : list tree :=
  match fuel with
  | O => []
  | S n =>
    match q with
    | [] => []
    | t :: r => t :: level_forest n (r ++ t_kids t)
    end
  end.

Definition level_order (t : tree) : list tree := level_forest (size t) [t].
Definition level_ids (t : tree) : list Z := map t_id (level_order t).

(* ---------- list and tree facts ---------- *)

Lemma map_flat_map_tr {A B C} (f : B -> C) (g : A -> list B) (l : list A) :
  map f (flat_map g l) = flat_map (fun a => map f (g a)) l.
Proof. induction l as [|a r IH]; simpl; [reflexivity|]. rewrite map_app, IH. reflexivity. Qed.

Lemma flat_map_map_tr {A B C} (f : A -> B) (g : B -> list C) (l : list A) :
  flat_map g (map f l) = flat_map (fun a => g (f a)) l.
Proof. induction l as [|a r IH]; simpl; [reflexivity|]. rewrite IH. reflexivity. Qed.

Lemma sizes_nil_le0 (ts : list tree) : (sizes ts <= 0)%nat -> ts = [].
Proof.
  destruct ts as [|t r]; [reflexivity|]. rewrite sizes_cons. pose proof (size_pos t). lia.
Qed.

Lemma pre_ids_eq i x l e ks : pre_ids (T i x l e ks) = i :: flat_map pre_ids ks.
Proof. unfold pre_ids. simpl. rewrite map_flat_map_tr. reflexivity. Qed.

Lemma post_ids_eq i x l e ks : post_ids (T i x l e ks) = flat_map post_ids ks ++ [i].
Proof. unfold post_ids. simpl. rewrite map_app, map_flat_map_tr. reflexivity. Qed.

Lemma leaves_eq i x l e ks :
  leaves (T i x l e ks) = match ks with [] => [T i x l e ks] | _ => flat_map leaves ks end.
Proof. destruct ks; reflexivity. Qed.

Lemma leaf_ids_eq i x l e ks :
  leaf_ids (T i x l e ks) = match ks with [] => [i] | _ => flat_map leaf_ids ks end.
Proof.
  unfold leaf_ids. rewrite leaves_eq. destruct ks as [|k r]; [reflexivity|].
  rewrite map_flat_map_tr. reflexivity.
Qed.

Lemma flat_map_perm {A B} (f g : A -> list B) (l : list A) :
  Forall (fun a => Permutation (f a) (g a)) l -> Permutation (flat_map f l) (flat_map g l).
Proof.
  induction 1 as [|a r Ha Hr IH]; simpl; [constructor|]. apply Permutation_app; assumption.
Qed.

Lemma post_pre_perm t : Permutation (postorder t) (preorder t).
Proof.
  induction t as [i x l e ks IH] using tree_ind'. simpl.
  rewrite <- Permutation_cons_append. constructor. apply flat_map_perm, IH.
Qed.

Lemma post_pre_ids_perm t : Permutation (post_ids t) (pre_ids t).
Proof. apply Permutation_map, post_pre_perm. Qed.

(* the structural level order enumerates the nodes of the forest *)
Lemma level_forest_perm : forall fuel q,
  (sizes q <= fuel)%nat -> Permutation (level_forest fuel q) (flat_map preorder q).
Proof.
  induction fuel as [|n IH]; intros q L.
  - apply sizes_nil_le0 in L. subst. constructor.
  - destruct q as [|t r]; [constructor|]. destruct t as [i x l e ks].
    cbn [level_forest t_kids flat_map preorder]. constructor.
    rewrite IH.
    + rewrite flat_map_app. apply Permutation_app_comm.
    + rewrite sizes_app. rewrite sizes_cons, size_eq in L. lia.
Qed.

Lemma level_forest_fuel : forall f1 f2 q,
  (sizes q <= f1)%nat -> (sizes q <= f2)%nat -> level_forest f1 q = level_forest f2 q.
Proof.
  induction f1 as [|n IH]; intros f2 q L1 L2.
  - apply sizes_nil_le0 in L1. subst. destruct f2; reflexivity.
  - destruct q as [|t r]; [destruct f2; reflexivity|].
    destruct f2 as [|m]; [rewrite sizes_cons in L2; pose proof (size_pos t); lia|].
    destruct t as [i x l e ks]. cbn [level_forest t_kids]. f_equal.
    rewrite sizes_cons, size_eq in L1, L2.
    apply IH; rewrite sizes_app; lia.
Qed.

Theorem level_order_perm t : Permutation (level_order t) (preorder t).
Proof.
  unfold level_order. rewrite level_forest_perm.
  - simpl. rewrite app_nil_r. reflexivity.
  - rewrite sizes_cons. simpl. lia.
Qed.

Lemma level_ids_perm t : Permutation (level_ids t) (pre_ids t).
Proof. apply Permutation_map, level_order_perm. Qed.

(* ---------- represented trees ---------- *)

Definition repd (h : heap) (t : tree) : Prop := exists par, rep h par t.

Lemma repd_node h i x l e ks :
  repd h (T i x l e ks) -> kids h i = map t_id ks /\ Forall (repd h) ks.
Proof.
  intros [par R]. split.
  - apply (rep_kids h par (T i x l e ks) R).
  - apply rep_eq in R. destruct R as [_ [_ C]]. eapply Forall_impl; [|exact C].
    intros k Rk. exists (Some i). exact Rk.
Qed.

(* ---------- pre-order ---------- *)

Theorem pre_run_rep h : forall fuel ts,
  Forall (fun t => exists par, rep h par t) ts -> (sizes ts <= fuel)%nat ->
  pre_run fuel h (map t_id ts) = Some (flat_map (fun t => map t_id (preorder t)) ts).
Proof.
  induction fuel as [|n IH]; intros ts F L.
  - apply sizes_nil_le0 in L. subst. reflexivity.
  - destruct ts as [|t r]; [reflexivity|].
    inversion F as [|? ? Rt Fr]; subst. destruct t as [i x l e ks].
    destruct (repd_node h i x l e ks Rt) as [K Fk].
    cbn [map t_id pre_run]. rewrite K, <- map_app, IH.
    + cbn [flat_map preorder map option_map]. rewrite flat_map_app, map_flat_map_tr, <- app_comm_cons.
      reflexivity.
    + apply Forall_app. split; [exact Fk|exact Fr].
    + rewrite sizes_app. rewrite sizes_cons, size_eq in L. lia.
Qed.

(* ---------- post-order ---------- *)

(* a stack entry (t,false) is a subtree still to be expanded, (t,true) is the node t itself,
   waiting to be yielded after its children *)
Definition item_entry (it : tree * bool) : Z * bool := (t_id (fst it), snd it).
Definition item_out (it : tree * bool) : list Z :=
  if snd it then [t_id (fst it)] else post_ids (fst it).
Definition item_cost (it : tree * bool) : nat :=
  if snd it then 1%nat else (2 * size (fst it))%nat.
Definition item_ok (h : heap) (it : tree * bool) : Prop := snd it = false -> repd h (fst it).
Definition cost (its : list (tree * bool)) : nat :=
  fold_right (fun it n => (item_cost it + n)%nat) O its.

Lemma cost_cons it r : cost (it :: r) = (item_cost it + cost r)%nat.
Proof. reflexivity. Qed.

Lemma cost_app a b : cost (a ++ b) = (cost a + cost b)%nat.
Proof. induction a as [|it r IH]; [reflexivity|]. simpl app. rewrite !cost_cons, IH. lia. Qed.

Lemma item_cost_pos it : (0 < item_cost it)%nat.
Proof. destruct it as [t [|]]; unfold item_cost; cbn [fst snd]; [lia|]. pose proof (size_pos t). lia. Qed.

Lemma cost_fresh (ts : list tree) : cost (map (fun t => (t, false)) ts) = (2 * sizes ts)%nat.
Proof.
  induction ts as [|t r IH]; [reflexivity|]. simpl map. rewrite cost_cons, IH, sizes_cons.
  unfold item_cost. cbn [fst snd]. lia.
Qed.

Lemma post_run_gen h : forall fuel its,
  Forall (item_ok h) its -> (cost its <= fuel)%nat ->
  post_run fuel h (map item_entry its) = Some (flat_map item_out its).
Proof.
  induction fuel as [|n IH]; intros its F L.
  - destruct its as [|it r]; [reflexivity|]. rewrite cost_cons in L. pose proof (item_cost_pos it). lia.
  - destruct its as [|[t b] r]; [reflexivity|].
    inversion F as [|? ? Ok Fr]; subst. rewrite cost_cons in L. destruct b.
    + unfold item_cost in L. cbn [fst snd] in L.
      cbn [map item_entry fst snd post_run]. rewrite IH; [reflexivity|exact Fr|lia].
    + destruct t as [i x l e ks].
      destruct (repd_node h i x l e ks (Ok eq_refl)) as [K Fk].
      unfold item_cost in L. cbn [fst snd] in L. rewrite size_eq in L.
      cbn [map item_entry fst snd t_id post_run]. rewrite K.
      replace (map (fun k : Z => (k, false)) (map t_id ks) ++ (i, true) :: map item_entry r)
        with (map item_entry (map (fun k => (k, false)) ks ++ (T i x l e ks, true) :: r)).
      2:{ rewrite map_app, !map_map. reflexivity. }
      rewrite IH.
      * f_equal. rewrite flat_map_app, flat_map_map_tr.
        cbn [flat_map]. unfold item_out at 1 2 4. cbn [fst snd t_id].
        rewrite post_ids_eq, <- app_assoc. reflexivity.
      * apply Forall_app. split.
        -- apply Forall_map. eapply Forall_impl; [|exact Fk]. intros k Rk _. exact Rk.
        -- constructor; [intro E; discriminate E|exact Fr].
      * rewrite cost_app, cost_fresh, cost_cons. unfold item_cost at 1. cbn [fst snd]. lia.
Qed.

Theorem post_run_rep h fuel ts :
  Forall (fun t => exists par, rep h par t) ts -> (2 * sizes ts <= fuel)%nat ->
  post_run fuel h (map (fun t => (t_id t, false)) ts) = Some (flat_map post_ids ts).
Proof.
  intros F L.
  replace (map (fun t => (t_id t, false)) ts) with (map item_entry (map (fun t => (t, false)) ts))
    by (rewrite map_map; reflexivity).
  rewrite post_run_gen.
  - rewrite flat_map_map_tr. reflexivity.
  - apply Forall_map. eapply Forall_impl; [|exact F]. intros t Rt _. exact Rt.
  - rewrite cost_fresh. exact L.
Qed.

(* ---------- level order ---------- *)

Theorem level_run_rep h : forall fuel ts,
  Forall (fun t => exists par, rep h par t) ts -> (sizes ts <= fuel)%nat ->
  level_run fuel h (map t_id ts) = Some (map t_id (level_forest fuel ts)).
Proof.
  induction fuel as [|n IH]; intros ts F L.
  - apply sizes_nil_le0 in L. subst. reflexivity.
  - destruct ts as [|t r]; [reflexivity|].
    inversion F as [|? ? Rt Fr]; subst. destruct t as [i x l e ks].
    destruct (repd_node h i x l e ks Rt) as [K Fk].
    cbn [map t_id level_run level_forest t_kids]. rewrite K, <- map_app, IH.
    + reflexivity.
    + apply Forall_app. split; [exact Fr|exact Fk].
    + rewrite sizes_app. rewrite sizes_cons, size_eq in L. lia.
Qed.

(* ---------- leaves ---------- *)

(* on a represented tree the heap-level leaf test (empty _child_nodes) picks exactly the leaves
   out of the post-order *)
Lemma filter_flat_map {A B} (p : B -> bool) (g : A -> list B) (l : list A) :
  filter p (flat_map g l) = flat_map (fun a => filter p (g a)) l.
Proof. induction l as [|a r IH]; simpl; [reflexivity|]. rewrite filter_app, IH. reflexivity. Qed.

Lemma flat_map_ext_Forall {A B} (f g : A -> list B) (l : list A) :
  Forall (fun a => f a = g a) l -> flat_map f l = flat_map g l.
Proof. induction 1 as [|a r Ha Hr IH]; simpl; [reflexivity|]. rewrite Ha, IH. reflexivity. Qed.

Lemma filter_post_leaf h t :
  repd h t -> filter (heap_leaf h) (post_ids t) = leaf_ids t.
Proof.
  induction t as [i x l e ks IH] using tree_ind'. intro R.
  destruct (repd_node h i x l e ks R) as [K Fk].
  rewrite post_ids_eq, leaf_ids_eq, filter_app, filter_flat_map.
  rewrite (flat_map_ext_Forall (fun a => filter (heap_leaf h) (post_ids a)) leaf_ids).
  2:{ rewrite Forall_forall in *. intros k Hk. apply IH; auto. }
  cbn [filter]. unfold heap_leaf at 1. rewrite K.
  destruct ks as [|k r]; [reflexivity|]. cbn [map]. apply app_nil_r.
Qed.

Theorem leaf_run_rep h fuel ts :
  Forall (fun t => exists par, rep h par t) ts -> (2 * sizes ts <= fuel)%nat ->
  leaf_run fuel h (map (fun t => (t_id t, false)) ts) = Some (flat_map leaf_ids ts).
Proof.
  intros F L. unfold leaf_run. rewrite (post_run_rep h fuel ts F L). cbn [option_map]. f_equal.
  change (filter (heap_leaf h) (flat_map post_ids ts) = flat_map leaf_ids ts).
  rewrite filter_flat_map. apply flat_map_ext_Forall.
  eapply Forall_impl; [|exact F]. intros t Rt. apply filter_post_leaf, Rt.
Qed.

(* a node of a represented tree is a leaf of the tree iff its heap child list is empty *)
Lemma leaf_ids_heap h t x :
  repd h t -> (In x (leaf_ids t) <-> (In x (pre_ids t) /\ kids h x = [])).
Proof.
  intro R. rewrite <- (filter_post_leaf h t R), filter_In.
  assert (P : In x (post_ids t) <-> In x (pre_ids t)).
  { split; apply Permutation_in; [|symmetry]; apply post_pre_ids_perm. }
  rewrite P. unfold heap_leaf. destruct (kids h x); split; intros [A B]; split; auto; discriminate.
Qed.

(* ---------- the property-level statement ---------- *)

(* fuel: one step per node for the pre-order and level-order machines, two steps per node (one
   expansion, one yield) for the post-order machine and the leaf iterator *)
Theorem traversals_visit_live h :
  WF h ->
  exists t, abs h = Some t /\
    pre_run (size t) h [seed h] = Some (pre_ids t) /\
    post_run (2 * size t) h [(seed h, false)] = Some (post_ids t) /\
    (exists lo, level_run (size t) h [seed h] = Some lo /\ Permutation lo (pre_ids t)) /\
    leaf_run (2 * size t) h [(seed h, false)] = Some (leaf_ids t) /\
    NoDup (pre_ids t) /\ Permutation (post_ids t) (pre_ids t) /\
    (forall x, In x (pre_ids t) <-> live h x) /\
    (forall x, In x (leaf_ids t) <-> (live h x /\ kids h x = [])).
Proof.
  intro W. destruct (WF_abs h W) as [t [A [[R [N _]] S]]]. exists t.
  assert (F : Forall (fun t => exists par, rep h par t) [t]).
  { constructor; [exists None; exact R|constructor]. }
  assert (Z1 : sizes [t] = size t) by (rewrite sizes_cons; simpl; lia).
  assert (LV : forall x, In x (pre_ids t) <-> live h x).
  { intro x. split.
    - intro Hx. exists t. split; [exact A|exact Hx].
    - intros [t' [A' Hx]]. rewrite A in A'. inversion A'; subst t'. exact Hx. }
  assert (RD : repd h t) by (exists None; exact R).
  split; [exact A|]. rewrite <- S.
  split; [|split; [|split; [|split; [|split; [|split; [|split]]]]]].
  - pose proof (pre_run_rep h (size t) [t] F) as P. cbn [map flat_map] in P.
    rewrite app_nil_r in P. apply P. lia.
  - pose proof (post_run_rep h (2 * size t) [t] F) as P. cbn [map flat_map] in P.
    rewrite app_nil_r in P. apply P. lia.
  - exists (level_ids t). split; [|apply level_ids_perm].
    apply (level_run_rep h (size t) [t] F). lia.
  - pose proof (leaf_run_rep h (2 * size t) [t] F) as P. cbn [map flat_map] in P.
    rewrite app_nil_r in P. apply P. lia.
  - exact N.
  - apply post_pre_ids_perm.
  - exact LV.
  - intro x. rewrite (leaf_ids_heap h t x RD), (LV x). reflexivity.
Qed.

(* each live node is yielded exactly once by every traversal *)
Corollary traversals_once h t :
  WF h -> abs h = Some t ->
  NoDup (pre_ids t) /\ NoDup (post_ids t) /\ NoDup (level_ids t) /\ NoDup (leaf_ids t).
Proof.
  intros W A. pose proof (WF_abs_t h t W A) as [[R [N _]] _].
  assert (Np : NoDup (post_ids t)).
  { eapply Permutation_NoDup; [symmetry; apply post_pre_ids_perm|exact N]. }
  repeat split.
  - exact N.
  - exact Np.
  - eapply Permutation_NoDup; [symmetry; apply level_ids_perm|exact N].
  - rewrite <- (filter_post_leaf h t (ex_intro _ None R)). apply NoDup_filter, Np.
Qed.
