(* C12, sixth wave: under the privacy hypothesis (Model/C12Spec4.v) the isomorphism relation is single-valued
   except on tuples: exceptions 5(b) (copied AND shared) and 5(c) (owned container copied generically AND
   rebuilt) of deepcopy_isomorphism cannot occur.

   Key lemma (pred_outside): the predecessor of a reachable fresh image.  Every fresh object b the copy reaches
   other than the copy's root is referred to by a fresh object m the copy reaches; m is the image of a source
   object am (onto), the edge m -> b is the image of an edge am -> a (edges_back) and a is THE source of b
   (injective).  By induction along the path, the source of a reachable fresh image lies outside the seeded
   region (or is a tuple of immutable values). *)
From Coq Require Import ZArith List Bool Lia.
From DV Require Import Model.PyPrims Model.C12Model Model.C12Spec2 Model.C12Spec3 Model.C12Spec4 Proofs.C12Heap Proofs.C12Inv
  Proofs.C12Wf Proofs.C12Iso Proofs.C12Wf2 Proofs.C12Wf3 Proofs.C12Own Proofs.C12IsoFull.
Import ListNotations.
Open Scope Z_scope.

Definition ptuple (h : heap) (a : Z) : Prop :=
  exists ob, hget h a = Some ob /\ okind ob = KTuple /\ forall k v, In (k, v) (obody ob) -> (exists p, k = P p) /\ (exists q, v = P q).

Lemma reach_pred : forall h r b, reach h r b -> b = r \/ exists m, reach h r m /\ edge h m b.
Proof. intros h r b RE. destruct RE as [|m b2 RE ED]; [left; reflexivity | right; exists m; auto]. Qed.

Section Strict.
Variable h : heap.
Variable s' : st.
Variable root y : Z.
Variable seeds reg : list Z.
Notation n0 := (hlen h).
Notation c := (sc s').
Notation h' := (sh s').
Notation rho := (iso_rel h s' root y).

Hypothesis OLD : forall o, o < n0 -> hget h' o = hget h o.
Hypothesis CLOSED : forall o ob k v, hget h o = Some ob -> In (k, v) (obody ob) -> vsrc h k /\ vsrc h v.
Hypothesis T1 : rho root y.
Hypothesis ONTO : forall b, reach h' y b -> exists a, rho a b.
Hypothesis EBACK : forall a b ob k' v', rho a b -> hget h' b = Some ob -> In (k', v') (obody ob) ->
  exists oa k v, hget h a = Some oa /\ In (k, v) (obody oa) /\ viso rho k k' /\ viso rho v v'.
Hypothesis INJR : forall a a' b, rho a b -> rho a' b -> a = a'.
Hypothesis FRS : forall a b, rho a b -> (b < n0 -> a = b) /\ (n0 <= b -> 0 <= a < n0 /\ a <> b).
Hypothesis INJ : forall a a' b, In (a, b) c -> In (a', b) c -> a = a'.
Hypothesis FUN : forall a b b', In (a, b) c -> In (a, b') c -> b = b' \/ kind_at h a = Some KTuple.
Hypothesis CPOF : forall a b, cont_pair h s' a b -> CP h s' a b.
Hypothesis CPFUN : forall a b b', CP h s' a b -> CP h s' a b' -> b = b'.
Hypothesis CPNR : forall a b, CP h s' a b -> ~ in_range c b.
Hypothesis CPFRESH : forall a b, CP h s' a b -> n0 <= b.
Hypothesis PFRESH : forall a b, In (a, b) c -> n0 <= b.
Hypothesis NOSRC : forall a b, In (a, b) c -> ~ owned h a.
Hypothesis SETSOWNED : forall o ob, hget h o = Some ob -> okind ob = KAnnSet -> owned h o.
Hypothesis NOSEED : forall a b, In (a, b) c -> ~ In a seeds.
Hypothesis NOATOM : forall a b, In (a, b) c -> is_atomic h a = false.
Hypothesis SEEDCONT : forall a, In a seeds -> ~ In a (owned_conts h).
Hypothesis ROOTNC : ~ In root (owned_conts h).
Hypothesis REGOUT : forall o ob k v t, hget h o = Some ob -> ~ In o reg -> In (k, v) (obody ob) -> (k = R t \/ v = R t) ->
  In t reg -> In t seeds \/ is_atomic h t = true \/ ptuple h t.
Hypothesis ROOTOUT : In root reg -> In root seeds \/ is_atomic h root = true.
Hypothesis SHAREDREG : forall o, reach h' y o -> o < n0 -> In o reg.
Hypothesis CONTPRIV : forall o ob k v t, hget h o = Some ob -> In (k, v) (obody ob) -> (k = R t \/ v = R t) ->
  In t (owned_inner h) -> okind ob = KAnnSet /\ (k = NM_ILIST \/ k = NM_ISET) /\ v = R t.

Lemma refers_fresh' : forall o ob k v t, hget h' o = Some ob -> In (k, v) (obody ob) -> (k = R t \/ v = R t) -> n0 <= t -> n0 <= o.
Proof.
  intros o ob k v t G I KV Ht. destruct (Z_lt_le_dec o n0) as [Lt|Ge]; [|exact Ge].
  rewrite (OLD o Lt) in G. destruct (CLOSED o ob k v G I) as [Vk Vv]. destruct KV; subst; simpl in *; lia.
Qed.

(* the source end of the edge that corresponds to an edge m -> b of the copy *)
Lemma edge_back : forall am m ob k' v' b, rho am m -> hget h' m = Some ob -> In (k', v') (obody ob) ->
  (k' = R b \/ v' = R b) ->
  exists oa k v a, hget h am = Some oa /\ In (k, v) (obody oa) /\ (k = R a \/ v = R a) /\ rho a b
    /\ viso rho k k' /\ viso rho v v'.
Proof.
  intros am m ob k' v' b RHO G I KV.
  destruct (EBACK am m ob k' v' RHO G I) as [oa [k [v [Ga [I0 [VK VV]]]]]].
  destruct KV as [E|E]; subst.
  - destruct k as [p|a]; simpl in VK; [contradiction|]. exists oa, (R a), v, a. auto 10.
  - destruct v as [p|a]; simpl in VV; [contradiction|]. exists oa, k, (R a), a. auto 10.
Qed.

(* an object with a fresh image is not a memo seed and not atomic *)
Lemma fresh_image_not_entry : forall a b, rho a b -> n0 <= b -> ~ In a seeds /\ is_atomic h a = false.
Proof.
  intros a b [_ [_ W]] Hb. destruct W as [I|[[E Ha]|CC]].
  - split; [exact (NOSEED a b I) | exact (NOATOM a b I)].
  - lia.
  - assert (CPab := CPOF a b CC). split.
    + intro S. exact (SEEDCONT a S (cp_in_conts h s' a b CPab)).
    + destruct CPab as [x yy ox oy sx sxo lx zx l z done sy ly zy Ixy G AK BA GSX BL BZ BT KS CS GLX GZX CL KL CZ KZ VM EZ NE D GY BY GSY GLY GZY W].
      unfold is_atomic, kind_at.
      destruct W as [[Ea _]|[[Ea _]|[Ea _]]]; subst a.
      * rewrite GSX, KS. reflexivity.
      * rewrite GLX, KL. reflexivity.
      * rewrite GZX, KZ. reflexivity.
Qed.

(* a memo seed / an atomic object corresponds to itself only *)
Lemma entry_image_self : forall a b, rho a b -> (In a seeds \/ is_atomic h a = true) -> a = b.
Proof.
  intros a b RHO EN. destruct (FRS a b RHO) as [F1 _]. destruct (Z_lt_le_dec b n0) as [L|G]; [exact (F1 L)|].
  exfalso. destruct (fresh_image_not_entry a b RHO G) as [NS NA]. destruct EN as [S|A]; [exact (NS S) | congruence].
Qed.

Lemma ptuple_no_edge : forall a ob k v t, ptuple h a -> hget h a = Some ob -> In (k, v) (obody ob) -> (k = R t \/ v = R t) -> False.
Proof.
  intros a ob k v t [ob0 [G0 [_ PR]]] G I KV. assert (ob0 = ob) by congruence. subst ob0.
  destruct (PR k v I) as [[p E1] [q E2]]. destruct KV; subst; discriminate.
Qed.

(* ---- the predecessor lemma --------------------------------------------------------------------------------- *)

Theorem pred_outside : forall b, reach h' y b -> n0 <= b -> forall a, rho a b -> ~ In a reg \/ ptuple h a.
Proof.
  intros b RE. induction RE as [|m b2 RE IH ED]; intros Hb a RHO.
  - assert (a = root) by (eapply INJR; [exact RHO | exact T1]). subst a.
    left. intro IR. destruct (fresh_image_not_entry root y T1 Hb) as [NS NA].
    destruct (ROOTOUT IR) as [S|A]; [exact (NS S) | congruence].
  - destruct ED as [ob [k' [v' [G [I KV]]]]].
    assert (Hm : n0 <= m) by (eapply refers_fresh'; eassumption).
    destruct (ONTO m RE) as [am RM].
    destruct (edge_back am m ob k' v' b2 RM G I KV) as [oa [k [v [a2 [Ga [I0 [KV0 [RA _]]]]]]]].
    assert (a2 = a) by (eapply INJR; eassumption). subst a2.
    destruct (IH Hm am RM) as [OUT|PT].
    2:{ exfalso. exact (ptuple_no_edge am oa k v a PT Ga I0 KV0). }
    destruct (In_dec Z.eq_dec a reg) as [IR|NR]; [|left; exact NR].
    destruct (fresh_image_not_entry a b2 RHO Hb) as [NS NA].
    destruct (REGOUT am oa k v a Ga OUT I0 KV0 IR) as [S|[A|PT]]; [exfalso; exact (NS S) | congruence | right; exact PT].
Qed.

(* exported form of the predecessor lemma: a fresh object the copy reaches, other than the copy's root, is
   referred to by a fresh object m the copy reaches; m is the image of am, and am refers to the source a of b *)
Theorem pred_exists : forall b, reach h' y b -> n0 <= b -> b = y \/
  exists a am m, rho a b /\ rho am m /\ n0 <= m /\ edge h am a /\ edge h' m b.
Proof.
  intros b RB Hb. destruct (reach_pred h' y b RB) as [E|[m [RM ED]]]; [left; exact E | right].
  assert (ED0 := ED). destruct ED as [ob [k' [v' [G [I KV]]]]].
  assert (Hm : n0 <= m) by (eapply refers_fresh'; eassumption).
  destruct (ONTO m RM) as [am RMM].
  destruct (edge_back am m ob k' v' b RMM G I KV) as [oa [k [v [a [Ga [I0 [KV0 [RA _]]]]]]]].
  exists a, am, m. split; [exact RA|]. split; [exact RMM|]. split; [exact Hm|]. split; [|exact ED0].
  exists oa, k, v. auto.
Qed.

Lemma ptuple_kind : forall a, ptuple h a -> kind_at h a = Some KTuple.
Proof. intros a [ob [G [K _]]]. unfold kind_at. rewrite G, K. reflexivity. Qed.

(* an object the copy reaches as the very same (old) object has no fresh image, tuples of immutables excepted *)
Theorem shared_not_copied : forall a b, rho a b -> n0 <= b -> reach h' y a -> a < n0 -> ptuple h a.
Proof.
  intros a b RHO Hb RA La. destruct RHO as [R1 [R2 W]].
  destruct (pred_outside b R2 Hb a (conj R1 (conj R2 W))) as [OUT|PT]; [|exact PT].
  exfalso. exact (OUT (SHAREDREG a RA La)).
Qed.

(* ---- 5(c): an owned container is never copied generically --------------------------------------------------- *)

Lemma conts_split : forall a, In a (owned_conts h) -> owned h a \/ In a (owned_inner h).
Proof.
  intros a I. unfold owned_conts in I. apply in_flat_map in I. destruct I as [ob [Io I]].
  destruct (is_annk (okind ob)) eqn:AK; [|contradiction].
  destruct (bget (obody ob) NM_ANN) as [[p|sx]|] eqn:BA; try contradiction.
  destruct I as [E|I].
  - subst a. left. destruct (In_nth_error _ _ Io) as [n N].
    exists (Z.of_nat n), ob. split; [|auto]. unfold hget.
    destruct (Z.of_nat n <? 0) eqn:LT; [apply Z.ltb_lt in LT; lia|]. rewrite Nat2Z.id. exact N.
  - right. unfold owned_inner. apply in_flat_map. exists ob. split; [exact Io|]. rewrite AK, BA. exact I.
Qed.

Theorem recorded_not_container : forall a b, In (a, b) c -> reach h' y b -> ~ In a (owned_conts h).
Proof.
  intros a b Iab RB IC.
  assert (Hb := PFRESH a b Iab).
  destruct (conts_split a IC) as [O|INN]; [exact (NOSRC a b Iab O)|].
  (* a is reachable from the source root: b has a source by onto, which is a (the copy b was allocated once) *)
  destruct (ONTO b RB) as [a0 RHO0].
  assert (RAB : rho a b).
  { destruct RHO0 as [R1 [R2 W]]. destruct W as [I0|[[E Ha]|CC]].
    - assert (a0 = a) by (eapply INJ; eassumption). subst a0. split; [exact R1|]. split; [exact R2 | left; exact Iab].
    - lia.
    - exfalso. apply (CPNR a0 b (CPOF a0 b CC)). exists a. exact Iab. }
  clear RHO0.
  destruct (reach_pred h' y b RB) as [E|[m [RM ED]]].
  - subst b. assert (a = root) by (eapply INJR; [exact RAB | exact T1]). subst a. exact (ROOTNC IC).
  - destruct ED as [ob [k' [v' [G [I KV]]]]].
    assert (Hm : n0 <= m) by (eapply refers_fresh'; eassumption).
    destruct (ONTO m RM) as [am RMM].
    destruct (edge_back am m ob k' v' b RMM G I KV) as [oa [k [v [a2 [Ga [I0 [KV0 [RA [VK VV]]]]]]]]].
    assert (a2 = a) by (eapply INJR; eassumption). subst a2.
    destruct (CONTPRIV am oa k v a Ga I0 KV0 INN) as [KS [KK EV]]. subst v.
    destruct RMM as [_ [_ W]]. destruct W as [Im|[[E Ha]|CC]].
    + exact (NOSRC am m Im (SETSOWNED am oa Ga KS)).
    + lia.
    + assert (CPm := CPOF am m CC).
      assert (CPm' := CPm).
      destruct CPm as [x yy ox oy sx sxo lx zx l z done sy ly zy Ixy Gx AK BA GSX BL BZ BT KSx CS GLX GZX CL KL CZ KZ VM EZ NE D GY BY GSY GLY GZY W].
      assert (MK : forall a1 b1, ((a1 = sx /\ b1 = sy) \/ (a1 = lx /\ b1 = ly) \/ (a1 = zx /\ b1 = zy)) -> CP h s' a1 b1).
      { intros a1 b1 W1. eapply (CP_intro h s' a1 b1 x yy ox oy sx sxo lx zx l z done sy ly zy); eauto. }
      destruct W as [[Ea Eb]|[[Ea Eb]|[Ea Eb]]]; subst am m.
      * assert (ob = mkObj CLS_ANNSET KAnnSet [(NM_ILIST, R ly); (NM_ISET, R zy); (NM_TARGET, R yy)]) by congruence. subst ob.
        assert (k' = k) by (destruct KK as [KK|KK]; subst k; destruct k'; simpl in VK; try contradiction; unfold NM_ILIST, NM_ISET; congruence).
        subst k'. simpl in I.
        assert (BB : b = ly \/ b = zy).
        { destruct KV as [E|E]; [subst k; destruct KK as [KK|KK]; discriminate KK|]. subst v'.
          destruct I as [I|[I|[I|[]]]]; inversion I; subst; auto.
          destruct KK as [KK|KK]; discriminate KK. }
        destruct BB as [E|E]; subst b.
        -- apply (CPNR lx ly (MK lx ly (or_intror (or_introl (conj eq_refl eq_refl))))). exists a. exact Iab.
        -- apply (CPNR zx zy (MK zx zy (or_intror (or_intror (conj eq_refl eq_refl))))). exists a. exact Iab.
      * assert (oa = l) by congruence. subst oa. rewrite KL in KS. discriminate KS.
      * assert (oa = z) by congruence. subst oa. rewrite KZ in KS. discriminate KS.
Qed.

(* ---- single-valued, tuples excepted ------------------------------------------------------------------------- *)

Theorem iso_functional_strict : forall a b b', rho a b -> rho a b' -> b = b' \/ kind_at h a = Some KTuple.
Proof.
  intros a b b' RHO RHO'. assert (X := RHO). assert (X' := RHO').
  destruct X as [_ [RB W]]. destruct X' as [_ [RB' W']].
  destruct W as [I|[[E Ha]|CC]]; destruct W' as [I'|[[E' Ha']|CC']].
  - exact (FUN a b b' I I').
  - subst b'. right. apply ptuple_kind. apply (shared_not_copied a b RHO (PFRESH a b I) RB'). lia.
  - exfalso. exact (recorded_not_container a b I RB (cp_in_conts h s' a b' (CPOF a b' CC'))).
  - subst b. right. apply ptuple_kind. apply (shared_not_copied a b' RHO' (PFRESH a b' I') RB). lia.
  - left. congruence.
  - subst b. right. apply ptuple_kind. apply (shared_not_copied a b' RHO' (CPFRESH a b' (CPOF a b' CC')) RB). lia.
  - exfalso. exact (recorded_not_container a b' I' RB' (cp_in_conts h s' a b (CPOF a b CC))).
  - subst b'. right. apply ptuple_kind. apply (shared_not_copied a b RHO (CPFRESH a b (CPOF a b CC)) RB'). lia.
  - left. exact (CPFUN a b b' (CPOF a b CC) (CPOF a b' CC')).
Qed.

(* what corresponds to itself is exactly the seeded region (of what the source root reaches) *)
Theorem iso_shared_iff_region : forall a b, rho a b -> kind_at h a <> Some KTuple -> (a = b <-> In a reg).
Proof.
  intros a b RHO NT. destruct (FRS a b RHO) as [F1 F2]. split.
  - intro E. subst b. assert (La : a < n0) by (destruct (Z_lt_le_dec a n0) as [L|G]; [exact L | destruct (F2 G) as [_ NE]; congruence]).
    destruct RHO as [_ [RB _]]. exact (SHAREDREG a RB La).
  - intro IR. destruct (Z_lt_le_dec b n0) as [L|G]; [exact (F1 L)|].
    destruct RHO as [R1 [R2 W]].
    destruct (pred_outside b R2 G a (conj R1 (conj R2 W))) as [OUT|PT]; [contradiction | exfalso; exact (NT (ptuple_kind a PT))].
Qed.

End Strict.
