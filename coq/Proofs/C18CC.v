(* C18 - contained_coalescent_tree: gene lineages of different species never join more recently
   than the species diverged *)
From Coq Require Import QArith Lqa List Bool Arith Lia Permutation.
From DV Require Import Model.C18Model Proofs.C18Lists Proofs.C18Monad Proofs.C18Coal.
Import ListNotations.
Open Scope nat_scope.

Lemma stree_ind2 (P : stree -> Prop) :
  (forall i g l p ks, Forall P ks -> P (SN i g l p ks)) -> forall s, P s.
Proof.
  intros H. fix IH 1. intros [i g l p ks]. apply H.
  induction ks as [|k r IHr]; constructor; [apply IH | exact IHr].
Qed.

(* ---------------- species-tree vocabulary ---------------- *)

Lemma sgenes_sub : forall s c, In c (ssubtrees s) -> forall x, In x (sgenes c) -> In x (sgenes s).
Proof.
  induction s as [i g l p ks IH] using stree_ind2. intros c Hc x Hx. simpl in Hc. destruct Hc as [<-|Hc]; [exact Hx|].
  apply in_flat_map in Hc. destruct Hc as (k & Hk & Hc). rewrite Forall_forall in IH.
  simpl. apply in_or_app. right. apply in_flat_map. exists k. split; [exact Hk|]. eapply IH; eauto.
Qed.

Lemma ssubtrees_self : forall s, In s (ssubtrees s).
Proof. intros [i g l p ks]. simpl. auto. Qed.

Lemma filter_nil {A} (f : A -> bool) : forall l, (forall a, In a l -> f a = false) -> filter f l = [].
Proof.
  induction l as [|a l IH]; intros H; simpl; [reflexivity|]. rewrite (H a (or_introl eq_refl)). apply IH.
  intros b Hb. apply H. right. exact Hb.
Qed.

Lemma up_len_notin : forall c x, ~ In x (sgenes c) -> up_len c x = 0%Q.
Proof.
  intros c x H. unfold up_len. rewrite filter_nil; [reflexivity|].
  intros c' Hc'. apply memb_false. intro Hx. apply H. eapply sgenes_sub; eauto.
Qed.

Definition kidsum (ks : list stree) (x : nat) : Q := qsum (map (fun k => up_len k x) ks).

Lemma up_len_node : forall i g l p ks x, In x (sgenes (SN i g l p ks)) ->
  (up_len (SN i g l p ks) x == lenq l + kidsum ks x)%Q.
Proof.
  intros i g l p ks x Hx. unfold up_len at 1. cbn [ssubtrees filter].
  rewrite (proj2 (memb_In x _) Hx). cbn [map qsum s_len].
  apply Qplus_comp; [reflexivity|]. clear Hx.
  unfold kidsum. induction ks as [|k r IH]; [reflexivity|].
  cbn [flat_map map qsum]. rewrite filter_app, map_app, qsum_app. apply Qplus_comp; [reflexivity|exact IH].
Qed.

Lemma kidsum_notin : forall ks x, ~ In x (flat_map sgenes ks) -> kidsum ks x = 0%Q \/ (kidsum ks x == 0)%Q.
Proof.
  intros ks x H. right. unfold kidsum. induction ks as [|k r IH]; [reflexivity|]. simpl in *.
  rewrite up_len_notin by (intro Hc; apply H; apply in_or_app; auto).
  rewrite IH by (intro Hc; apply H; apply in_or_app; auto). reflexivity.
Qed.

Lemma kidsum_cons_in : forall k r x, In x (sgenes k) -> ~ In x (flat_map sgenes r) ->
  (kidsum (k :: r) x == up_len k x)%Q.
Proof.
  intros k r x H1 H2. unfold kidsum. simpl. destruct (kidsum_notin r x H2) as [E|E]; unfold kidsum in E; rewrite E; ring.
Qed.

Lemma kidsum_cons_notin : forall k r x, ~ In x (sgenes k) -> (kidsum (k :: r) x == kidsum r x)%Q.
Proof.
  intros k r x H1. unfold kidsum. simpl. rewrite up_len_notin by exact H1. ring.
Qed.

(* ---------------- gene-tree vocabulary ---------------- *)

Lemma gtips_node : forall x l k r, gtips (G x l (k :: r)) =
  map (fun p => (fst p, (snd p + lenq l)%Q)) (flat_map gtips (k :: r)).
Proof. reflexivity. Qed.

Lemma gtips_stretch : forall w g x h', In (x, h') (gtips (stretch w g)) ->
  exists h, In (x, h) (gtips g) /\ (h' == h + w)%Q.
Proof.
  intros w [tx l ks] x h' H. destruct ks as [|k r].
  - simpl in H. destruct H as [H|[]]. inversion H; subst. exists (lenq l). split; [simpl; auto|reflexivity].
  - simpl stretch in H. rewrite gtips_node in H. apply in_map_iff in H. destruct H as ([y h0] & E & H0).
    simpl in E. inversion E; subst. exists (h0 + lenq l)%Q. split.
    + rewrite gtips_node. apply in_map_iff. exists (x, h0). split; [reflexivity|exact H0].
    + simpl. ring.
Qed.

Lemma gtips_anc : forall a b x h', In (x, h') (gtips (G None (Some 0%Q) [a; b])) ->
  exists h, (In (x, h) (gtips a) \/ In (x, h) (gtips b)) /\ (h' == h)%Q.
Proof.
  intros a b x h' H. rewrite gtips_node in H. apply in_map_iff in H. destruct H as ([y h0] & E & H0).
  simpl in E. inversion E; subst. exists h0. split; [|simpl; ring].
  simpl in H0. rewrite app_nil_r in H0. apply in_app_or in H0. exact H0.
Qed.

Lemma joins_stretch : forall w g x y h, joins (stretch w g) x y h -> joins g x y h.
Proof.
  intros w [tx l ks] x y h H. simpl in H.
  inversion H as [? ? ? i j k1 k2 ? ? ? h' E1 E2 Hne H1 H2 | ? ? ? k ? ? ? Hk Hj]; subst.
  - apply (j_here tx l ks i j k1 k2 x y h h'); assumption.
  - apply (j_below tx l ks k x y h); assumption.
Qed.

Lemma joins_anc : forall a b x y h, joins (G None (Some 0%Q) [a; b]) x y h ->
  In (Some x, h) (gtips a) \/ In (Some x, h) (gtips b) \/ joins a x y h \/ joins b x y h.
Proof.
  intros a b x y h H. inversion H as [? ? ? i j k1 k2 ? ? ? h' E1 E2 Hne H1 H2 | ? ? ? k ? ? ? Hk Hj]; subst.
  - destruct i as [|[|i]]; simpl in E1; inversion E1; subst; auto. destruct i; discriminate.
  - destruct Hk as [<-|[<-|[]]]; auto.
Qed.

Lemma gtips_kid : forall tx l ks k x h, In k ks -> In (x, h) (gtips k) ->
  In (x, (h + lenq l)%Q) (gtips (G tx l ks)).
Proof.
  intros tx l ks k x h Hk H. destruct ks as [|k0 r]; [destruct Hk|]. rewrite gtips_node.
  apply in_map_iff. exists (x, h). split; [reflexivity|]. apply in_flat_map. eauto.
Qed.

Lemma joins_tips : forall g x y h, joins g x y h ->
  (exists hx, In (Some x, hx) (gtips g)) /\ (exists hy, In (Some y, hy) (gtips g)).
Proof.
  induction g as [tx l ks IH] using gtree_ind2. intros x y h H.
  inversion H as [? ? ? i j k1 k2 ? ? ? h' E1 E2 Hne H1 H2 | ? ? ? k ? ? ? Hk Hj]; subst.
  - apply nth_error_In in E1, E2. split.
    + exists (h + lenq l)%Q. apply (gtips_kid tx l ks k1 (Some x) h E1 H1).
    + exists (h' + lenq l)%Q. apply (gtips_kid tx l ks k2 (Some y) h' E2 H2).
  - rewrite Forall_forall in IH. destruct (IH k Hk x y h Hj) as [[hx Hx] [hy Hy]]. split.
    + exists (hx + lenq l)%Q. apply (gtips_kid tx l ks k (Some x) hx Hk Hx).
    + exists (hy + lenq l)%Q. apply (gtips_kid tx l ks k (Some y) hy Hk Hy).
Qed.

(* ---------------- the invariants ---------------- *)

Definition strict_sub (s : stree) : list stree := flat_map ssubtrees (s_kids s).

(* every gene tip x of every lineage belongs to s, has already spent the time needed to leave
   every species edge strictly below s that holds it, and has spent d in s's own edge *)
Definition HT (s : stree) (d : Q) (nodes : list gtree) : Prop :=
  forall l x h, In l nodes -> In (Some x, h) (gtips l) ->
    In x (sgenes s) /\
    (forall c', In c' (strict_sub s) -> In x (sgenes c') -> up_len c' x <= h)%Q /\
    (kidsum (s_kids s) x + d <= h)%Q.

(* joins already made respect every species edge strictly below s *)
Definition JN (s : stree) (nodes : list gtree) : Prop :=
  forall l x y h, In l nodes -> joins l x y h ->
    forall c', In c' (strict_sub s) -> In x (sgenes c') -> ~ In y (sgenes c') -> (up_len c' x <= h)%Q.

Lemma HT_stretch : forall s d w nodes, (0 <= w)%Q -> HT s d nodes -> HT s (d + w) (map (stretch w) nodes).
Proof.
  intros s d w nodes Hw H l x h' Hl Hx. apply in_map_iff in Hl. destruct Hl as (l0 & <- & Hl0).
  apply gtips_stretch in Hx. destruct Hx as (h & Hx & E). destruct (H l0 x h Hl0 Hx) as (A & B & C).
  split; [exact A|]. split.
  - intros c' Hc' Hxc. specialize (B c' Hc' Hxc). lra.
  - lra.
Qed.

Lemma JN_stretch : forall s w nodes, JN s nodes -> JN s (map (stretch w) nodes).
Proof.
  intros s w nodes H l x y h Hl Hj. apply in_map_iff in Hl. destruct Hl as (l0 & <- & Hl0).
  apply joins_stretch in Hj. eapply H; eauto.
Qed.

Lemma HT_weaken : forall s d d' nodes, (d' <= d)%Q -> HT s d nodes -> HT s d' nodes.
Proof.
  intros s d d' nodes Hd H l x h Hl Hx. destruct (H l x h Hl Hx) as (A & B & C). split; [exact A|]. split; [exact B|lra].
Qed.

Lemma coal_step_In : forall tm i j nodes l, i < length nodes -> j < length nodes -> i <> j ->
  In l (coal_step tm i j nodes) ->
  In l (map (stretch tm) nodes) \/
  exists a b, In a (map (stretch tm) nodes) /\ In b (map (stretch tm) nodes) /\ l = G None (Some 0%Q) [a; b].
Proof.
  intros tm i j nodes l Hi Hj Hne Hl. unfold coal_step in Hl. apply in_app_or in Hl. destruct Hl as [Hl|[<-|[]]].
  - left. pose proof (coal_step_perm tm i j nodes Hi Hj Hne) as P. simpl in P.
    eapply Permutation_in; [apply Permutation_sym; exact P|]. right. right. exact Hl.
  - right. eexists _, _. split; [|split; [|reflexivity]]; apply nth_In; rewrite map_length; assumption.
Qed.

Definition cinv (s : stree) (period : option Q) (nodes : list gtree) (rem : option Q) : Prop :=
  exists d, (0 <= d)%Q /\
    match period, rem with
    | Some p, Some rm => (d + rm == p)%Q
    | None, None => True
    | _, _ => False
    end /\ HT s d nodes /\ JN s nodes /\ Forall (garity bin2) nodes.

Lemma cinv_step : forall s period pop, (0 <= time_units pop)%Q ->
  forall nodes rem e i j, cinv s period nodes rem -> (0 <= e)%Q ->
    i < length nodes -> j < length nodes -> i <> j ->
    (match rem with None => True | Some rm => e * time_units pop <= rm end)%Q ->
    cinv s period (coal_step (e * time_units pop) i j nodes) (option_map (fun rm => (rm - e * time_units pop)%Q) rem).
Proof.
  intros s period pop Hpop nodes rem e i j (d & Hd & Hrel & Hht & Hjn & Hga) He Hi Hj Hne Hrem.
  set (tm := (e * time_units pop)%Q) in *.
  assert (Htm : (0 <= tm)%Q) by (unfold tm; apply Qmult_le_0_compat; assumption).
  exists (d + tm)%Q. split; [lra|]. split.
  - destruct period as [p|], rem as [rm|]; simpl; auto. lra.
  - pose proof (HT_stretch s d tm nodes Htm Hht) as H1. pose proof (JN_stretch s tm nodes Hjn) as J1.
    assert (Ha1 : Forall (garity bin2) (map (stretch tm) nodes)).
    { rewrite Forall_map. eapply Forall_impl; [|exact Hga]. intros g0. apply stretch_arity. }
    split; [|split].
    3:{ apply coal_step_Forall; auto. destruct (coal_step_elems _ tm i j nodes Hi Hj Ha1) as [A1 A2].
        constructor; [right; reflexivity|]. repeat constructor; assumption. }
    + intros l x h Hl Hx. destruct (coal_step_In tm i j nodes l Hi Hj Hne Hl) as [Hl1|(a & b & Ha & Hb & ->)].
      * eapply H1; eauto.
      * apply gtips_anc in Hx. destruct Hx as (h0 & [Hx|Hx] & E).
        -- destruct (H1 a x h0 Ha Hx) as (A & B & C). split; [exact A|]. split; [|lra].
           intros c' Hc' Hxc. specialize (B c' Hc' Hxc). lra.
        -- destruct (H1 b x h0 Hb Hx) as (A & B & C). split; [exact A|]. split; [|lra].
           intros c' Hc' Hxc. specialize (B c' Hc' Hxc). lra.
    + intros l x y h Hl Hjo c' Hc' Hxc Hyc. destruct (coal_step_In tm i j nodes l Hi Hj Hne Hl) as [Hl1|(a & b & Ha & Hb & ->)].
      * eapply J1; eauto.
      * apply joins_anc in Hjo. destruct Hjo as [Hx|[Hx|[Hjo|Hjo]]].
        -- destruct (H1 a x h Ha Hx) as (_ & B & _). apply B; assumption.
        -- destruct (H1 b x h Hb Hx) as (_ & B & _). apply B; assumption.
        -- apply (J1 a x y h Ha Hjo c' Hc' Hxc Hyc).
        -- apply (J1 b x y h Hb Hjo c' Hc' Hxc Hyc).
Qed.

Definition nonneg (q : Q) : Prop := (0 <= q)%Q.

Lemma time_units_nonneg : forall pop, (0 <= pop)%Q -> (0 <= time_units pop)%Q.
Proof. intros pop H. unfold time_units. destruct (Qeq_bool pop 0); [lra|exact H]. Qed.

(* coalesce_nodes over the edge of s (period = its length, or None at the root) *)
Lemma coalesce_nodes_spec : forall s pop period nodes r L r',
  (0 <= pop)%Q -> (0 <= lenq period)%Q ->
  script_exp nonneg (fst r) -> HT s 0 nodes -> JN s nodes -> Forall (garity bin2) nodes ->
  coalesce_nodes pop period nodes r = Done L r' ->
  (exists d, (lenq period <= d)%Q /\ HT s d L) /\ JN s L /\ Forall (garity bin2) L /\ script_exp nonneg (fst r').
Proof.
  intros s pop period nodes r L r' Hpop Hper Hs Hht Hjn Hga H. unfold coalesce_nodes in H.
  destruct nodes as [|n0 nr] eqn:En.
  - apply ret_Done in H. destruct H as [<- <-]. split; [exists (lenq period); split; [lra|intros l x h []]|].
    split; [intros l x y h []|split; [constructor|exact Hs]].
  - rewrite <- En in *. step H. destruct a as [nodes' remaining].
    assert (C0 : cinv s period nodes period).
    { exists 0%Q. split; [lra|]. split; [destruct period; [lra|exact I]|]. split; [exact Hht|split; [exact Hjn|exact Hga]]. }
    destruct (coal_loop_inv nonneg (cinv s period) pop (cinv_step s period pop (time_units_nonneg pop Hpop))
                _ _ _ _ _ _ Hs C0 Hs0) as [(d & Hd & Hrel & Hht' & Hjn' & Hga') Hs'].
    simpl in Hrel, Hht', Hjn', Hga'.
    assert (Hgs : forall w, Forall (garity bin2) (map (stretch w) nodes')).
    { intros w. rewrite Forall_map. eapply Forall_impl; [|exact Hga']. intros g0. apply stretch_arity. }
    destruct remaining as [rm|].
    + destruct period as [p|]; [|contradiction]. simpl in *.
      destruct (Qltb 0 rm) eqn:Eq.
      * apply ret_Done in H. destruct H as [<- <-].
        assert (Hrm : (0 <= rm)%Q).
        { unfold Qltb in Eq. apply negb_true_iff in Eq. destruct (Qlt_le_dec 0 rm) as [Hl|Hl]; [lra|].
          exfalso. apply Qle_bool_iff in Hl. congruence. }
        split; [|split; [apply JN_stretch; exact Hjn'|split; [apply Hgs|exact Hs']]].
        exists (d + rm)%Q. split; [lra|]. apply HT_stretch; assumption.
      * apply ret_Done in H. destruct H as [<- <-].
        assert (Hrm : (rm <= 0)%Q).
        { unfold Qltb in Eq. apply negb_false_iff in Eq. apply Qle_bool_iff in Eq. exact Eq. }
        split; [|split; [exact Hjn'|split; [exact Hga'|exact Hs']]]. exists d. split; [lra|exact Hht'].
    + destruct period as [p|]; [contradiction|]. apply ret_Done in H. destruct H as [<- <-].
      split; [|split; [exact Hjn'|split; [exact Hga'|exact Hs']]]. exists d. split; [simpl; lra|exact Hht'].
Qed.

(* ---------------- the walk over the species tree ---------------- *)

Fixpoint cc_kids (ks : list stree) : M (list gtree) :=
  match ks with
  | [] => ret []
  | k :: r => let! p := cc_pool k in
              let! u := edge_coal k p in
              let! b := cc_kids r in
              ret (u ++ b)
  end.

Lemma cc_pool_unfold : forall i g l p ks, cc_pool (SN i g l p ks) =
  (let! rest := cc_kids ks in
   match g, ks with
   | None, [] => ret None
   | _, _ => ret (Some (map (fun x => G (Some x) None []) (match g with Some l => l | None => [] end) ++ rest))
   end).
Proof. reflexivity. Qed.

Definition sp_ok (s : stree) : Prop :=
  forall c, In c (ssubtrees s) -> (0 <= lenq (s_len c))%Q /\ (0 <= s_pop c)%Q.

(* what the parent sees of the lineages handed up by the edge of s *)
Definition HTr (s : stree) (L : list gtree) : Prop :=
  forall l x h, In l L -> In (Some x, h) (gtips l) ->
    In x (sgenes s) /\ (forall c', In c' (ssubtrees s) -> In x (sgenes c') -> up_len c' x <= h)%Q.

Definition JNr (s : stree) (L : list gtree) : Prop :=
  forall l x y h, In l L -> joins l x y h ->
    forall c', In c' (ssubtrees s) -> In x (sgenes c') -> ~ In y (sgenes c') -> (up_len c' x <= h)%Q.

Lemma ssubtrees_strict : forall s c', In c' (ssubtrees s) -> c' = s \/ In c' (strict_sub s).
Proof. intros [i g l p ks] c' H. simpl in H. destruct H as [<-|H]; [left; reflexivity|right; exact H]. Qed.

Lemma after_edge : forall s d L, (lenq (s_len s) <= d)%Q -> HT s d L -> JN s L -> HTr s L /\ JNr s L.
Proof.
  intros s d L Hd Hht Hjn. split.
  - intros l x h Hl Hx. destruct (Hht l x h Hl Hx) as (A & B & C). split; [exact A|].
    intros c' Hc' Hxc. destruct (ssubtrees_strict s c' Hc') as [->|Hs]; [|apply B; assumption].
    destruct s as [i g len p ks]. rewrite (up_len_node i g len p ks x A). simpl in *. lra.
  - intros l x y h Hl Hj c' Hc' Hxc Hyc. destruct (ssubtrees_strict s c' Hc') as [->|Hs]; [|eapply Hjn; eauto].
    exfalso. apply Hyc. destruct (joins_tips l x y h Hj) as [_ [hy Hy]]. destruct (Hht l y hy Hl Hy) as (A & _). exact A.
Qed.

Definition HTk (ks : list stree) (L : list gtree) : Prop :=
  forall l x h, In l L -> In (Some x, h) (gtips l) ->
    In x (flat_map sgenes ks) /\
    (forall c', In c' (flat_map ssubtrees ks) -> In x (sgenes c') -> up_len c' x <= h)%Q /\
    (kidsum ks x <= h)%Q.

Definition JNk (ks : list stree) (L : list gtree) : Prop :=
  forall l x y h, In l L -> joins l x y h ->
    forall c', In c' (flat_map ssubtrees ks) -> In x (sgenes c') -> ~ In y (sgenes c') -> (up_len c' x <= h)%Q.

Lemma in_sub_kids : forall ks c' x, In c' (flat_map ssubtrees ks) -> In x (sgenes c') -> In x (flat_map sgenes ks).
Proof.
  intros ks c' x Hc Hx. apply in_flat_map in Hc. destruct Hc as (k & Hk & Hc). apply in_flat_map. exists k.
  split; [exact Hk|]. eapply sgenes_sub; eauto.
Qed.

Lemma kids_combine : forall k r0 u b,
  NoDup (sgenes k ++ flat_map sgenes r0) ->
  HTr k u -> JNr k u -> HTk r0 b -> JNk r0 b -> HTk (k :: r0) (u ++ b) /\ JNk (k :: r0) (u ++ b).
Proof.
  intros k r0 u b Hn Hu Ju Hb Jb. apply NoDup_app_iff in Hn. destruct Hn as (_ & _ & Hdis).
  split.
  - intros l x h Hl Hx. apply in_app_or in Hl. destruct Hl as [Hl|Hl].
    + destruct (Hu l x h Hl Hx) as (A & B). split; [simpl; apply in_or_app; left; exact A|]. split.
      * intros c' Hc' Hxc. simpl in Hc'. apply in_app_or in Hc'. destruct Hc' as [Hc'|Hc']; [apply B; assumption|].
        exfalso. apply (Hdis x A). eapply in_sub_kids; eauto.
      * rewrite (kidsum_cons_in k r0 x A (Hdis x A)). apply B; [apply ssubtrees_self|exact A].
    + destruct (Hb l x h Hl Hx) as (A & B & C).
      assert (Hnk : ~ In x (sgenes k)) by (intro Hc; apply (Hdis x Hc A)).
      split; [simpl; apply in_or_app; right; exact A|]. split.
      * intros c' Hc' Hxc. simpl in Hc'. apply in_app_or in Hc'. destruct Hc' as [Hc'|Hc']; [|apply B; assumption].
        exfalso. apply Hnk. eapply sgenes_sub; eauto.
      * rewrite (kidsum_cons_notin k r0 x Hnk). exact C.
  - intros l x y h Hl Hj c' Hc' Hxc Hyc. destruct (joins_tips l x y h Hj) as [[hx Hx] _].
    apply in_app_or in Hl. simpl in Hc'. apply in_app_or in Hc'. destruct Hl as [Hl|Hl].
    + destruct (Hu l x hx Hl Hx) as (A & _). destruct Hc' as [Hc'|Hc']; [eapply Ju; eauto|].
      exfalso. apply (Hdis x A). eapply in_sub_kids; eauto.
    + destruct (Hb l x hx Hl Hx) as (A & _). destruct Hc' as [Hc'|Hc']; [|eapply Jb; eauto].
      exfalso. apply (Hdis x); [eapply sgenes_sub; eauto|exact A].
Qed.

Definition Pcc (s : stree) : Prop :=
  forall r pool r', NoDup (sgenes s) -> sp_ok s -> script_exp nonneg (fst r) ->
    cc_pool s r = Done (Some pool) r' ->
    HT s 0 pool /\ JN s pool /\ Forall (garity bin2) pool /\ script_exp nonneg (fst r').

Lemma sp_ok_kid : forall i g l p ks k, sp_ok (SN i g l p ks) -> In k ks -> sp_ok k.
Proof.
  intros i g l p ks k H Hk c Hc. apply H. simpl. right. apply in_flat_map. eauto.
Qed.

Lemma edge_coal_spec : forall s pool r L r',
  (0 <= lenq (s_len s))%Q -> (0 <= s_pop s)%Q -> script_exp nonneg (fst r) ->
  HT s 0 pool -> JN s pool -> Forall (garity bin2) pool ->
  edge_coal s (Some pool) r = Done L r' ->
  HTr s L /\ JNr s L /\ Forall (garity bin2) L /\ script_exp nonneg (fst r').
Proof.
  intros s pool r L r' Hl Hp Hs Hht Hjn Hga H. unfold edge_coal in H.
  destruct (coalesce_nodes_spec s (s_pop s) (s_len s) pool r L r' Hp Hl Hs Hht Hjn Hga H) as ((d & Hd & Hht') & Hjn' & Hga' & Hs').
  destruct (after_edge s d L Hd Hht' Hjn') as [A B]. auto.
Qed.

Lemma cc_kids_spec : forall ks, Forall Pcc ks ->
  forall r rest r', NoDup (flat_map sgenes ks) -> (forall k, In k ks -> sp_ok k) -> script_exp nonneg (fst r) ->
    cc_kids ks r = Done rest r' ->
    HTk ks rest /\ JNk ks rest /\ Forall (garity bin2) rest /\ script_exp nonneg (fst r').
Proof.
  induction ks as [|k r0 IH]; intros HP r rest r' Hn Hok Hs H; simpl in H.
  - apply ret_Done in H. destruct H as [<- <-]. split; [intros l x h []|]. split; [intros l x y h []|]. split; [constructor|exact Hs].
  - inversion HP as [|? ? Pk Pr]; subst. simpl in Hn.
    step H. step H. step H. apply ret_Done in H. destruct H as [<- <-].
    destruct a as [pool|]; [|discriminate].
    assert (Hnk : NoDup (sgenes k)) by (apply NoDup_app_iff in Hn; tauto).
    assert (Hnr : NoDup (flat_map sgenes r0)) by (apply NoDup_app_iff in Hn; tauto).
    assert (Hokk : sp_ok k) by (apply Hok; left; reflexivity).
    destruct (Pk r pool r1 Hnk Hokk Hs Hs0) as (K1 & K2 & K3 & K4).
    destruct (Hokk k (ssubtrees_self k)) as [Hl Hp].
    destruct (edge_coal_spec k pool r1 a0 r2 Hl Hp K4 K1 K2 K3 Hs1) as (E1 & E2 & E3 & E4).
    destruct (IH Pr r2 a1 r3 Hnr (fun k' Hk' => Hok k' (or_intror Hk')) E4 Hs2) as (R1 & R2 & R3 & R4).
    destruct (kids_combine k r0 a0 a1 Hn E1 E2 R1 R2) as [C1 C2].
    split; [exact C1|]. split; [exact C2|]. split; [apply Forall_app; auto|exact R4].
Qed.

Lemma cc_pool_spec : forall s, Pcc s.
Proof.
  induction s as [i g l p ks IH] using stree_ind2. intros r pool r' Hn Hok Hs H.
  rewrite cc_pool_unfold in H. step H.
  assert (Hnk : NoDup (flat_map sgenes ks)) by (simpl in Hn; apply NoDup_app_iff in Hn; tauto).
  destruct (cc_kids_spec ks IH r a r0 Hnk (fun k Hk => sp_ok_kid i g l p ks k Hok Hk) Hs Hs0) as (K1 & K2 & K3 & K4).
  set (own := match g with Some l0 => l0 | None => [] end) in *.
  assert (Hpool : pool = map (fun x => G (Some x) None []) own ++ a /\ r' = r0).
  { destruct g as [l0|]; [|destruct ks as [|k0 kr]]; apply ret_Done in H; destruct H as [H <-]; inversion H; auto. }
  destruct Hpool as [-> ->]. clear H.
  assert (Hdis : forall x, In x own -> ~ In x (flat_map sgenes ks)).
  { simpl in Hn. apply NoDup_app_iff in Hn. destruct Hn as (_ & _ & Hd). intros x Hx. apply Hd. unfold own in Hx. destruct g; exact Hx. }
  assert (Hown : forall x, In x own -> In x (sgenes (SN i g l p ks))).
  { intros x Hx. simpl. apply in_or_app. left. unfold own in Hx. destruct g; exact Hx. }
  split; [|split; [|split; [|exact K4]]].
  - intros l0 x h Hl Hx. apply in_app_or in Hl. destruct Hl as [Hl|Hl].
    + apply in_map_iff in Hl. destruct Hl as (x0 & <- & Hx0). simpl in Hx. destruct Hx as [Hx|[]]. inversion Hx; subst.
      split; [apply Hown; exact Hx0|]. split.
      * intros c' Hc' Hxc. exfalso. apply (Hdis x Hx0). unfold strict_sub in Hc'. simpl in Hc'. eapply in_sub_kids; eauto.
      * simpl s_kids. destruct (kidsum_notin ks x (Hdis x Hx0)) as [E|E]; rewrite E; lra.
    + destruct (K1 l0 x h Hl Hx) as (A & B & C). split; [simpl; apply in_or_app; right; exact A|]. split.
      * intros c' Hc' Hxc. apply B; assumption.
      * simpl s_kids. lra.
  - intros l0 x y h Hl Hj c' Hc' Hxc Hyc. apply in_app_or in Hl. destruct Hl as [Hl|Hl].
    + apply in_map_iff in Hl. destruct Hl as (x0 & <- & Hx0). inversion Hj as [? ? ? i0 j0 k1 k2 ? ? ? h' E1 E2|? ? ? k0 ? ? ? Hk0 Hj0]; subst.
      * destruct i0; discriminate.
      * destruct Hk0.
    + eapply K2; eauto.
  - apply Forall_app. split; [|exact K3]. rewrite Forall_map. apply Forall_forall. intros x _.
    constructor; [left; reflexivity|constructor].
Qed.

Theorem contained_spec_proved : forall S script g r,
  cc_sim S script = Done g r ->
  NoDup (sgenes S) ->
  (forall c, In c (ssubtrees S) -> (0 <= lenq (s_len c))%Q /\ (0 <= s_pop c)%Q) ->
  (forall q, In (DExp q) script -> (0 <= q)%Q) ->
  (forall c x y h, In c (flat_map ssubtrees (s_kids S)) -> In x (sgenes c) -> ~ In y (sgenes c) ->
                   joins g x y h -> (up_len c x <= h)%Q) /\
  (forall s, In s (gsubtrees g) -> length (g_kids s) = 0 \/ length (g_kids s) = 2).
Proof.
  intros S script g r H Hn Hok Hs. unfold cc_sim, cc_run in H. step H.
  destruct a as [nodes|]; [|discriminate].
  destruct (cc_pool_spec S (script, []) nodes r0 Hn Hok Hs Hs0) as (K1 & K2 & K3 & K4).
  assert (Hfin : exists final, JN S final /\ Forall (garity bin2) final /\ exists rest, final = g :: rest).
  { destruct (1 <? length nodes).
    - step H. destruct (Hok S (ssubtrees_self S)) as [_ Hp].
      destruct (coalesce_nodes_spec S (s_pop S) None nodes r0 a r1 Hp ltac:(simpl; lra) K4 K1 K2 K3 Hs1) as (_ & J & Ga & _).
      destruct a as [|g0 rest]; [discriminate|]. apply ret_Done in H. destruct H as [<- _]. eauto.
    - step H. apply ret_Done in Hs1. destruct Hs1 as [<- <-].
      destruct nodes as [|g0 rest]; [discriminate|]. apply ret_Done in H. destruct H as [<- _]. eauto. }
  destruct Hfin as (final & J & Ga & rest & ->). split.
  - intros c x y h Hc Hx Hy Hj. apply (J g x y h (or_introl eq_refl) Hj c Hc Hx Hy).
  - apply (proj1 (garity_subtrees bin2 g)). inversion Ga; subst. assumption.
Qed.

Theorem cc_fuel_proved : forall S script, cc_sim S script <> NoFuel.
Proof.
  assert (Hcn : forall pop period nodes r, coalesce_nodes pop period nodes r <> NoFuel).
  { intros pop period nodes r H. unfold coalesce_nodes in H. destruct nodes as [|n0 nr] eqn:En; [discriminate|].
    rewrite <- En in H. apply bnd_NoFuel in H. destruct H as [H|([nodes' rem'] & r1 & _ & H)].
    - revert H. apply coal_loop_fuel. lia.
    - destruct rem' as [rm|]; [destruct (Qltb 0 rm)|]; discriminate. }
  assert (Hpool : forall s r, cc_pool s r <> NoFuel).
  { induction s as [i g l p ks IH] using stree_ind2. intros r H. rewrite cc_pool_unfold in H.
    apply bnd_NoFuel in H. destruct H as [H|(rest & r1 & _ & H)].
    - clear - IH Hcn H. revert r H. induction ks as [|k r0 IHk]; intros r H; simpl in H; [discriminate|].
      inversion IH as [|? ? Pk Pr]; subst.
      apply bnd_NoFuel in H. destruct H as [H|(p0 & r1 & _ & H)]; [eapply Pk; eauto|].
      apply bnd_NoFuel in H. destruct H as [H|(u & r2 & _ & H)].
      + unfold edge_coal in H. destruct p0; [eapply Hcn; eauto|discriminate].
      + apply bnd_NoFuel in H. destruct H as [H|(b & r3 & _ & H)]; [eapply IHk; eauto|discriminate].
    - destruct g; [discriminate|]. destruct ks; discriminate. }
  intros S script H. unfold cc_sim, cc_run in H.
  apply bnd_NoFuel in H. destruct H as [H|(p0 & r1 & _ & H)]; [eapply Hpool; eauto|].
  destruct p0 as [nodes|]; [|discriminate].
  apply bnd_NoFuel in H. destruct H as [H|(final & r2 & _ & H)].
  - destruct (1 <? length nodes); [eapply Hcn; eauto|discriminate].
  - destruct final; discriminate.
Qed.
