(* C10: generic lemmas about the association lists / list helpers of Model/C10Model.v
   and the few bit facts the namespace theorems need. *)
From Coq Require Import ZArith List Bool Lia Permutation Sorted.
From DV Require Import Model.PyPrims Model.C10Model.
Import ListNotations.
Open Scope Z_scope.

(* ---------- alookup / aremove / aset ---------- *)

Lemma alookup_aremove_eq {V} (k : Z) (l : list (Z * V)) : alookup k (aremove k l) = None.
Proof.
  induction l as [|[k' v] r IH]; simpl; [reflexivity|].
  destruct (Z.eqb k k') eqn:E; [exact IH|]. simpl. rewrite E. exact IH.
Qed.

Lemma alookup_aremove_neq {V} (k k0 : Z) (l : list (Z * V)) :
  k <> k0 -> alookup k (aremove k0 l) = alookup k l.
Proof.
  intros N. induction l as [|[k' v] r IH]; simpl; [reflexivity|].
  destruct (Z.eqb k0 k') eqn:E0.
  - apply Z.eqb_eq in E0. subst k'. destruct (Z.eqb k k0) eqn:E1.
    + apply Z.eqb_eq in E1. contradiction.
    + exact IH.
  - simpl. destruct (Z.eqb k k'); [reflexivity| exact IH].
Qed.

Lemma alookup_aset_eq {V} (k : Z) (v : V) (l : list (Z * V)) : alookup k (aset k v l) = Some v.
Proof. unfold aset. simpl. rewrite Z.eqb_refl. reflexivity. Qed.

Lemma alookup_aset_neq {V} (k k0 : Z) (v : V) (l : list (Z * V)) :
  k <> k0 -> alookup k (aset k0 v l) = alookup k l.
Proof.
  intros N. unfold aset. simpl. destruct (Z.eqb k k0) eqn:E.
  - apply Z.eqb_eq in E. contradiction.
  - apply alookup_aremove_neq. exact N.
Qed.

Lemma alookup_aset {V} (k k0 : Z) (v : V) (l : list (Z * V)) :
  alookup k (aset k0 v l) = if Z.eqb k k0 then Some v else alookup k l.
Proof.
  destruct (Z.eqb k k0) eqn:E.
  - apply Z.eqb_eq in E. subst. apply alookup_aset_eq.
  - apply Z.eqb_neq in E. apply alookup_aset_neq. exact E.
Qed.

Lemma alookup_aremove {V} (k k0 : Z) (l : list (Z * V)) :
  alookup k (aremove k0 l) = if Z.eqb k k0 then None else alookup k l.
Proof.
  destruct (Z.eqb k k0) eqn:E.
  - apply Z.eqb_eq in E. subst. apply alookup_aremove_eq.
  - apply Z.eqb_neq in E. apply alookup_aremove_neq. exact E.
Qed.

Lemma alookup_In {V} (k : Z) (v : V) (l : list (Z * V)) : alookup k l = Some v -> In (k, v) l.
Proof.
  induction l as [|[k' v'] r IH]; simpl; [discriminate|].
  destruct (Z.eqb k k') eqn:E.
  - apply Z.eqb_eq in E. intros H. inversion H. subst. left. reflexivity.
  - intros H. right. apply IH. exact H.
Qed.

Lemma In_alookup_some {V} (k : Z) (v : V) (l : list (Z * V)) :
  In (k, v) l -> exists v', alookup k l = Some v'.
Proof.
  induction l as [|[k' v'] r IH]; simpl; [contradiction|].
  intros [H|H].
  - inversion H. subst. rewrite Z.eqb_refl. eauto.
  - destruct (Z.eqb k k'); eauto.
Qed.

Lemma alookup_none_not_key {V} (k : Z) (l : list (Z * V)) :
  alookup k l = None -> forall v, ~ In (k, v) l.
Proof.
  intros H v I. apply In_alookup_some in I. destruct I as [v' I]. congruence.
Qed.

(* renaming the keys of an association list by a map that is injective on the keys involved *)
Lemma alookup_map_key {V} (f : Z -> Z) (l : list (Z * V)) (k : Z) :
  (forall k' v, In (k', v) l -> f k' = f k -> k' = k) ->
  alookup (f k) (map (fun p => (f (fst p), snd p)) l) = alookup k l.
Proof.
  induction l as [|[k' v] r IH]; intros Hinj; simpl; [reflexivity|].
  destruct (Z.eqb k k') eqn:E.
  - apply Z.eqb_eq in E. subst. rewrite Z.eqb_refl. reflexivity.
  - apply Z.eqb_neq in E. destruct (Z.eqb (f k) (f k')) eqn:E2.
    + apply Z.eqb_eq in E2. exfalso. apply E. symmetry. apply (Hinj k' v); [left; reflexivity| congruence].
    + apply IH. intros k'' v' I. apply (Hinj k'' v'). right. exact I.
Qed.

Lemma alookup_map_key_inv {V} (f : Z -> Z) (l : list (Z * V)) (x : Z) (v : V) :
  alookup x (map (fun p => (f (fst p), snd p)) l) = Some v ->
  exists k v0, In (k, v0) l /\ x = f k.
Proof.
  induction l as [|[k' v'] r IH]; simpl; [discriminate|].
  destruct (Z.eqb x (f k')) eqn:E.
  - apply Z.eqb_eq in E. intros _. exists k', v'. split; [left; reflexivity| exact E].
  - intros H. destruct (IH H) as (k & v0 & I & Ex). exists k, v0. split; [right; exact I| exact Ex].
Qed.

Lemma alookup_map_val {V W} (g : V -> W) (l : list (Z * V)) (k : Z) :
  alookup k (map (fun p => (fst p, g (snd p))) l) = option_map g (alookup k l).
Proof.
  induction l as [|[k' v] r IH]; simpl; [reflexivity|].
  destruct (Z.eqb k k'); [reflexivity| exact IH].
Qed.

(* ---------- memb / remove_all / filter ---------- *)

Lemma memb_In (t : Z) (l : list Z) : memb t l = true <-> In t l.
Proof.
  unfold memb. rewrite existsb_exists. split.
  - intros (x & I & E). apply Z.eqb_eq in E. subst. exact I.
  - intros I. exists t. split; [exact I| apply Z.eqb_refl].
Qed.

Lemma memb_false (t : Z) (l : list Z) : memb t l = false <-> ~ In t l.
Proof.
  rewrite <- memb_In. destruct (memb t l); split; intros H; try reflexivity; try discriminate.
  exfalso. apply H. reflexivity.
Qed.

Lemma In_remove_all (t x : Z) (l : list Z) : In x (remove_all t l) <-> In x l /\ x <> t.
Proof.
  induction l as [|y r IH]; simpl; [tauto|].
  destruct (Z.eqb t y) eqn:E.
  - apply Z.eqb_eq in E. subst y. rewrite IH. split; [tauto|]. intros [[H|H] N]; [congruence| tauto].
  - apply Z.eqb_neq in E. simpl. rewrite IH. split.
    + intros [H|H]; [subst; split; [left; reflexivity| congruence] | tauto].
    + tauto.
Qed.

Lemma NoDup_remove_all (t : Z) (l : list Z) : NoDup l -> NoDup (remove_all t l).
Proof.
  induction 1 as [|y r Hn Hd IH]; simpl; [constructor|].
  destruct (Z.eqb t y); [exact IH|]. constructor; [|exact IH].
  rewrite In_remove_all. tauto.
Qed.

Lemma remove_all_filter (t : Z) (l : list Z) :
  remove_all t l = filter (fun x => negb (Z.eqb t x)) l.
Proof.
  induction l as [|y r IH]; simpl; [reflexivity|].
  destruct (Z.eqb t y); simpl; congruence.
Qed.

Lemma NoDup_filter {A} (f : A -> bool) (l : list A) : NoDup l -> NoDup (filter f l).
Proof.
  induction 1 as [|y r Hn Hd IH]; simpl; [constructor|].
  destruct (f y); [|exact IH]. constructor; [|exact IH].
  rewrite filter_In. tauto.
Qed.

Lemma filter_filter {A} (f g : A -> bool) (l : list A) :
  filter f (filter g l) = filter (fun x => g x && f x) l.
Proof.
  induction l as [|y r IH]; simpl; [reflexivity|].
  destruct (g y); simpl; [destruct (f y); simpl; congruence| exact IH].
Qed.

Lemma filter_ext_in' {A} (f g : A -> bool) (l : list A) :
  (forall x, In x l -> f x = g x) -> filter f l = filter g l.
Proof.
  induction l as [|y r IH]; simpl; intros H; [reflexivity|].
  rewrite (H y) by (left; reflexivity). rewrite IH by (intros; apply H; right; assumption).
  reflexivity.
Qed.

Lemma NoDup_app_single (l : list Z) (t : Z) : NoDup l -> ~ In t l -> NoDup (l ++ [t]).
Proof.
  intros Hd Hn. induction Hd as [|y r Hy Hd IH]; simpl.
  - constructor; [simpl; tauto| constructor].
  - constructor.
    + rewrite in_app_iff. simpl. intros [H|[H|[]]]; [tauto|]. subst. apply Hn. left. reflexivity.
    + apply IH. intros H. apply Hn. right. exact H.
Qed.

(* ---------- bits ---------- *)

Lemma shiftl1_pow (i : Z) : 0 <= i -> Z.shiftl 1 i = 2 ^ i.
Proof. intros H. rewrite Z.shiftl_mul_pow2 by exact H. lia. Qed.

Lemma shiftl1_testbit (i k : Z) : 0 <= i -> Z.testbit (Z.shiftl 1 i) k = Z.eqb i k.
Proof. intros H. rewrite shiftl1_pow by exact H. apply Z.pow2_bits_eqb. exact H. Qed.

Lemma shiftl1_pos (i : Z) : 0 <= i -> 0 < Z.shiftl 1 i.
Proof. intros H. rewrite shiftl1_pow by exact H. apply Z.pow_pos_nonneg; lia. Qed.

Lemma shiftl1_inj (i j : Z) : 0 <= i -> 0 <= j -> Z.shiftl 1 i = Z.shiftl 1 j -> i = j.
Proof.
  intros Hi Hj E. assert (T : Z.testbit (Z.shiftl 1 i) i = Z.testbit (Z.shiftl 1 j) i) by (rewrite E; reflexivity).
  rewrite !shiftl1_testbit in T by assumption. rewrite Z.eqb_refl in T. symmetry in T.
  apply Z.eqb_eq in T. congruence.
Qed.

Lemma land_shiftl1_zero (m i : Z) : 0 <= i ->
  Z.eqb (Z.land m (Z.shiftl 1 i)) 0 = negb (Z.testbit m i).
Proof.
  intros Hi. destruct (Z.testbit m i) eqn:T; simpl.
  - apply Z.eqb_neq. intros E.
    assert (B : Z.testbit (Z.land m (Z.shiftl 1 i)) i = true).
    { rewrite Z.land_spec, T, shiftl1_testbit, Z.eqb_refl by exact Hi. reflexivity. }
    rewrite E in B. rewrite Z.bits_0 in B. discriminate.
  - apply Z.eqb_eq. apply Z.bits_inj'. intros k Hk.
    rewrite Z.land_spec, Z.bits_0, shiftl1_testbit by exact Hi.
    destruct (Z.eqb i k) eqn:E; [|apply andb_false_r].
    apply Z.eqb_eq in E. subst. rewrite T. reflexivity.
Qed.
