(* C03Gen (wave 6): Tree.shuffle_taxa compiled from the source (Gen/Mutators.v Tree_shuffle_taxa) refines
   HeapOps.shuffle_taxa.  The scripted rng of the generated code is one list of draws, one singleton
   [i] per rng.randrange call; `x.taxon = v` is the section variable wr_taxon, instantiated with
   Heap.set_taxon.  Hypothesis: no node is reached twice by the traversal (true of every well-formed
   heap): on a heap where a node hangs under two parents (the state F18 leaves) the source trips its
   first `assert len(current_node_taxon_map) == len(node_taxa)`, which HeapOps.shuffle_taxa does not
   model. *)
From Coq Require Import ZArith List Bool Lia.
From DV Require Import Model.PyPrims Model.Tree Model.Heap Model.HeapOps Model.C15Prims Model.MutPrims Gen.Mutators
     Model.C03GenInst Proofs.C03Base Proofs.C03Abs Proofs.C03PruneLoops Proofs.C03GenPrims Proofs.C03GenNode Proofs.C03Thms.
Import ListNotations.
Open Scope Z_scope.

Ltac hsimps := cbn [mst mnode medge mg_eqb rd_parent wr_parent rd_kids wr_kids rd_edge rd_head rd_length rd_taxon
                    wr_length rd_seed wr_seed rd_rooted wr_rooted new_node x_postorder_nodes x_leaf_nodes
                    x_preorder_nodes HG] in *.

(* ---------------------------------------------------------------- the swap-and-pop on the local list *)
Definition swap_chain (l : list Z) (d : nat) : option (Z * list Z) :=
  match py_index l (Z.of_nat d) with
  | Some a =>
    match py_index l (-1) with
    | Some b =>
      match py_set_index l (-1) a with
      | Some l1 =>
        match py_set_index l1 (Z.of_nat d) b with
        | Some l2 => py_pop_last l2
        | None => None
        end
      | None => None
      end
    | None => None
    end
  | None => None
  end.

Lemma set_nth_app_len {A} (p : list A) x y q : set_nth (length p) x (p ++ y :: q) = Some (p ++ x :: q).
Proof. induction p as [|a p IH]; simpl; [reflexivity|]. rewrite IH. reflexivity. Qed.

Lemma pop_last_snoc {A} (p : list A) x : py_pop_last (p ++ [x]) = Some (x, p).
Proof. unfold py_pop_last. rewrite rev_app_distr. simpl. rewrite rev_involutive. reflexivity. Qed.

Lemma py_index_nat {A} (l : list A) d : py_index l (Z.of_nat d) = nth_error l d.
Proof.
  unfold py_index. replace (Z.of_nat d <? 0) with false by (symmetry; apply Z.ltb_ge; lia).
  rewrite Nat2Z.id. reflexivity.
Qed.

Lemma py_index_last {A} (p : list A) x : py_index (p ++ [x]) (-1) = Some x.
Proof.
  unfold py_index, py_len. change (-1 <? 0) with true. cbv iota. rewrite app_length. simpl length.
  replace (Z.of_nat (length p + 1) + -1) with (Z.of_nat (length p)) by lia.
  replace (Z.of_nat (length p) <? 0) with false by (symmetry; apply Z.ltb_ge; lia).
  rewrite Nat2Z.id, nth_error_app2 by lia. rewrite Nat.sub_diag. reflexivity.
Qed.

Lemma py_set_index_last {A} (p : list A) x a : py_set_index (p ++ [x]) (-1) a = Some (p ++ [a]).
Proof.
  unfold py_set_index. change (-1 <? 0) with true. cbv iota. rewrite app_length. simpl length.
  replace (Z.of_nat (length p + 1) + -1) with (Z.of_nat (length p)) by lia.
  replace (Z.of_nat (length p) <? 0) with false by (symmetry; apply Z.ltb_ge; lia).
  rewrite Nat2Z.id. apply set_nth_app_len.
Qed.

Lemma py_set_index_nat {A} (p : list A) y q b :
  py_set_index (p ++ y :: q) (Z.of_nat (length p)) b = Some (p ++ b :: q).
Proof.
  unfold py_set_index. replace (Z.of_nat (length p) <? 0) with false by (symmetry; apply Z.ltb_ge; lia).
  rewrite Nat2Z.id. apply set_nth_app_len.
Qed.

Lemma nth_error_mid {A} (p : list A) a q : nth_error (p ++ a :: q) (length p) = Some a.
Proof. rewrite nth_error_app2 by lia. rewrite Nat.sub_diag. reflexivity. Qed.

Lemma swap_chain_mid p a q z : swap_chain (p ++ a :: q ++ [z]) (length p) = Some (a, p ++ z :: q).
Proof.
  unfold swap_chain. rewrite py_index_nat, nth_error_mid.
  assert (EL : p ++ a :: q ++ [z] = (p ++ a :: q) ++ [z]) by (rewrite <- app_assoc; reflexivity).
  rewrite EL at 1. rewrite py_index_last.
  rewrite EL. rewrite py_set_index_last.
  replace ((p ++ a :: q) ++ [a]) with (p ++ a :: (q ++ [a])) by (rewrite <- app_assoc; reflexivity).
  rewrite py_set_index_nat.
  replace (p ++ z :: q ++ [a]) with ((p ++ z :: q) ++ [a]) by (rewrite <- app_assoc; reflexivity).
  apply pop_last_snoc.
Qed.

Lemma swap_pop_mid p a q z : swap_pop (p ++ a :: q ++ [z]) (length p) = Some (a, p ++ z :: q).
Proof.
  unfold swap_pop. rewrite nth_error_mid.
  assert (EL : p ++ a :: q ++ [z] = (p ++ a :: q) ++ [z]) by (rewrite <- app_assoc; reflexivity).
  rewrite EL at 1. rewrite rev_app_distr. simpl rev at 1. cbn [app].
  assert (Len : length (p ++ a :: q ++ [z]) = (length p + (length q + 2))%nat).
  { rewrite app_length. simpl. rewrite app_length. simpl. lia. }
  rewrite Len.
  destruct (Nat.eqb_spec (length p) (length p + (length q + 2) - 1)) as [C|_]; [lia|].
  rewrite firstn_app, firstn_all, Nat.sub_diag, firstn_O, app_nil_r.
  replace (p ++ a :: q ++ [z]) with ((p ++ [a]) ++ q ++ [z]) by (rewrite <- app_assoc; reflexivity).
  replace (S (length p)) with (length (p ++ [a])) by (rewrite app_length; simpl; lia).
  rewrite skipn_app, skipn_all, Nat.sub_diag. simpl skipn. cbn [app].
  replace (length p + (length q + 2) - 2 - length p)%nat with (length q) by lia.
  rewrite firstn_app, firstn_all, Nat.sub_diag. simpl. rewrite app_nil_r. reflexivity.
Qed.

Lemma swap_chain_last p z : swap_chain (p ++ [z]) (length p) = Some (z, p).
Proof.
  unfold swap_chain. rewrite py_index_nat, nth_error_mid, py_index_last, py_set_index_last, py_set_index_nat.
  apply pop_last_snoc.
Qed.

Lemma swap_pop_last p z : swap_pop (p ++ [z]) (length p) = Some (z, p).
Proof.
  unfold swap_pop. rewrite nth_error_mid, rev_app_distr. simpl rev. cbn [app].
  rewrite app_length. simpl length. replace (length p + 1 - 1)%nat with (length p) by lia.
  rewrite Nat.eqb_refl, firstn_app, firstn_all, Nat.sub_diag. simpl. rewrite app_nil_r. reflexivity.
Qed.

Lemma swap_chain_eq l d : (d < length l)%nat -> swap_chain l d = swap_pop l d.
Proof.
  intro Hd. destruct (@exists_last _ l) as [l0 [z ->]]; [intro E; subst; simpl in Hd; lia|].
  rewrite app_length in Hd. simpl in Hd.
  destruct (Nat.eq_dec d (length l0)) as [->|Hne].
  - rewrite swap_chain_last, swap_pop_last. reflexivity.
  - destruct (nth_error l0 d) as [a|] eqn:En; [|apply nth_error_None in En; lia].
    apply nth_error_split in En. destruct En as [p [q [-> Hp]]]. subst d.
    rewrite <- app_assoc. cbn [app]. rewrite swap_chain_mid, swap_pop_mid. reflexivity.
Qed.

Lemma swap_pop_none l d : (length l <= d)%nat -> swap_pop l d = None.
Proof. intro H. unfold swap_pop. replace (nth_error l d) with (@None Z) by (symmetry; apply nth_error_None; lia). reflexivity. Qed.

Lemma swap_pop_length l d x l' : swap_pop l d = Some (x, l') -> S (length l') = length l.
Proof.
  unfold swap_pop. destruct (nth_error l d) eqn:En; [|discriminate].
  assert (Hd : (d < length l)%nat) by (apply nth_error_Some; congruence).
  destruct (rev l); [discriminate|].
  assert (Ls : length (skipn (S d) l) = (length l - S d)%nat) by apply skipn_length.
  remember (skipn (S d) l) as sk eqn:Esk. clear Esk.
  destruct (Nat.eqb d (length l - 1)) eqn:E; intro H; injection H as <- <-.
  - rewrite firstn_length. lia.
  - apply Nat.eqb_neq in E. rewrite app_length. cbn [length]. rewrite !firstn_length. lia.
Qed.

(* ---------------------------------------------------------------- the first loop *)
Definition pairs_of (h : heap) (l : list Z) : list (Z * Z) :=
  flat_map (fun nd => match taxon h nd with Some v => [(nd, v)] | None => [] end) l.
Definition taxa_of (h : heap) (l : list Z) : list Z :=
  flat_map (fun nd => match taxon h nd with Some v => [v] | None => [] end) l.
Definition has_taxon (h : heap) (nd : Z) : bool := match taxon h nd with Some _ => true | None => false end.

Lemma dict_set_fresh (k v : Z) (m : list (Z * Z)) :
  ~ In k (map fst m) -> py_dict_set Z.eqb k v m = m ++ [(k, v)].
Proof.
  induction m as [|[k' v'] r IH]; intro H; simpl; [reflexivity|].
  destruct (Z.eqb_spec k k') as [->|Hne]; [exfalso; apply H; left; reflexivity|].
  rewrite IH; [reflexivity|]. intro C. apply H. right. exact C.
Qed.

Lemma pairs_fst h l : map fst (pairs_of h l) = filter (has_taxon h) l.
Proof.
  induction l as [|x r IH]; [reflexivity|]. unfold pairs_of, has_taxon in *. simpl.
  destruct (taxon h x); simpl; rewrite IH; reflexivity.
Qed.

Lemma taxa_of_filter h l : taxa_of h (filter (has_taxon h) l) = taxa_of h l.
Proof.
  induction l as [|x r IH]; [reflexivity|]. unfold taxa_of, has_taxon in *. simpl.
  destruct (taxon h x) eqn:E; simpl; [rewrite E|]; rewrite IH; reflexivity.
Qed.

Lemma pairs_taxa_len h l : length (pairs_of h l) = length (taxa_of h l).
Proof.
  induction l as [|x r IH]; [reflexivity|]. unfold pairs_of, taxa_of in *. simpl.
  destruct (taxon h x); simpl; rewrite ?app_length, IH; reflexivity.
Qed.

Lemma taxa_of_map h l : map (taxon h) (filter (has_taxon h) l) = map Some (taxa_of h l).
Proof.
  induction l as [|x r IH]; [reflexivity|]. unfold taxa_of, has_taxon in *. simpl.
  destruct (taxon h x) eqn:E; simpl; [rewrite E|]; rewrite IH; reflexivity.
Qed.

Definition step1 (nd : Z) (v : list (Z * Z) * list Z) (s : heap) : mres heap (lctl (list (Z * Z) * list Z)) :=
  match taxon s nd with
  | Some x => MOk (LNext (py_dict_set Z.eqb nd x (fst v), snd v ++ [x])) s
  | None => MOk (LNext v) s
  end.

Lemma loop1 (body : Z -> list (Z * Z) * list Z -> heap -> mres heap (lctl (list (Z * Z) * list Z))) :
  (forall nd v s, body nd v s = step1 nd v s) ->
  forall l h m nt, NoDup l -> (forall x, In x l -> ~ In x (map fst m)) ->
  mfor body l (m, nt) h = MOk (LNext (m ++ pairs_of h l, nt ++ taxa_of h l)) h.
Proof.
  intro Hb. induction l as [|x r IH]; intros h m nt N D.
  - simpl. unfold pairs_of, taxa_of. simpl. rewrite !app_nil_r. reflexivity.
  - inversion N as [|? ? Nx Nr]; subst. simpl mfor. rewrite Hb. unfold step1. cbn [fst snd].
    unfold pairs_of, taxa_of. simpl flat_map. fold (pairs_of h r). fold (taxa_of h r).
    destruct (taxon h x) as [v|] eqn:E.
    + rewrite dict_set_fresh by (apply D; left; reflexivity).
      rewrite IH; [rewrite <- !app_assoc; reflexivity|exact Nr|].
      intros y Hy. rewrite map_app, in_app_iff. intros [C|[C|[]]]; [apply (D y (or_intror Hy) C)|].
      simpl in C. subst y. exact (Nx Hy).
    + simpl app. apply IH; [exact Nr|]. intros y Hy. apply D. right. exact Hy.
Qed.

(* ---------------------------------------------------------------- the second loop *)
Definition sing (draws : list nat) : list (list nat) := map (fun d => [d]) draws.

Notation okey := (option Z) (only parsing).
Definition oeq : okey -> okey -> bool := option_eqb Z.eqb.

Lemma oeq_spec a b : oeq a b = true <-> a = b.
Proof.
  unfold oeq, option_eqb. destruct a, b; split; intro H; try discriminate; try reflexivity.
  - apply Z.eqb_eq in H. subst. reflexivity.
  - inversion H. apply Z.eqb_refl.
Qed.

Definition addkey (acc : list okey) (k : okey) : list okey := if py_in oeq k acc then acc else acc ++ [k].
Definition addkeys (ks : list okey) (acc : list okey) : list okey := fold_left addkey ks acc.

Lemma dict_set_keys (k : okey) (v : Z) (d : list (okey * Z)) :
  map fst (py_dict_set oeq k v d) = addkey (map fst d) k.
Proof.
  unfold addkey. induction d as [|[k' v'] r IH]; simpl; [reflexivity|].
  destruct (oeq k k') eqn:E.
  - simpl. apply oeq_spec in E. subst. reflexivity.
  - simpl. rewrite IH. destruct (py_in oeq k (map fst r)); reflexivity.
Qed.

Definition step2 (nd : Z) (v : list (list nat) * list Z * list (okey * Z)) (s : heap)
  : mres heap (lctl (list (list nat) * list Z * list (okey * Z))) :=
  let '(sc, pool, d2) := v in
  if Z.leb (py_len pool) 0 then MErr ValueErr s
  else match sc with
       | [d] :: sc' =>
         if Z.ltb (Z.of_nat d) (py_len pool) then
           match swap_chain pool d with
           | Some (x, pool') => MOk (LNext (sc', pool', py_dict_set oeq (taxon s nd) x d2)) (set_taxon nd (Some x) s)
           | None => MErr IndexErr s
           end
         else MFuel
       | _ => MFuel
       end.

Lemma taxon_set_taxon_other nd v h j : j <> nd -> taxon (set_taxon nd v h) j = taxon h j.
Proof.
  intro H. unfold taxon, set_taxon, upd_cell, get. simpl.
  assert (E : forall m, alookup j (aupd nd (mkCell (c_parent (get h nd)) (c_kids (get h nd)) (c_elen (get h nd)) v (c_label (get h nd))) m)
                        = alookup j m).
  { induction m as [|[k c] r IH]; simpl.
    - replace (j =? nd) with false by (symmetry; apply Z.eqb_neq; exact H). reflexivity.
    - destruct (Z.eqb_spec nd k) as [->|Hk]; simpl.
      + replace (j =? k) with false by (symmetry; apply Z.eqb_neq; exact H). reflexivity.
      + destruct (j =? k); [reflexivity|exact IH]. }
  fold (get h nd). rewrite E. reflexivity.
Qed.

Lemma loop2 (body : Z -> list (list nat) * list Z * list (okey * Z) -> heap
                   -> mres heap (lctl (list (list nat) * list Z * list (okey * Z)))) :
  (forall nd v s, body nd v s = step2 nd v s) ->
  forall nodes pool draws h d2, NoDup nodes -> length nodes = length pool ->
  (shuffle_each nodes pool draws h = HFuel /\ mfor body nodes (sing draws, pool, d2) h = MFuel) \/
  (exists h' sc' d2',
     shuffle_each nodes pool draws h = HOk h' /\
     mfor body nodes (sing draws, pool, d2) h = MOk (LNext (sc', [], d2')) h' /\
     map fst d2' = addkeys (map (taxon h) nodes) (map fst d2)).
Proof.
  intro Hb. induction nodes as [|nd r IH]; intros pool draws h d2 N L.
  - destruct pool; [|discriminate]. right. exists h, (sing draws), d2. simpl. auto.
  - inversion N as [|? ? Nx Nr]; subst. destruct pool as [|p0 pr]; [discriminate|].
    simpl mfor. rewrite Hb. unfold step2.
    replace (py_len (p0 :: pr) <=? 0) with false by (symmetry; apply Z.leb_gt; unfold py_len; simpl length; lia).
    simpl shuffle_each.
    destruct draws as [|d ds]; [left; split; reflexivity|].
    simpl sing. fold (sing ds).
    destruct (Z.of_nat d <? py_len (p0 :: pr)) eqn:Elt;
      [apply Z.ltb_lt in Elt; rename Elt into Hlt|apply Z.ltb_ge in Elt; rename Elt into Hge].
    + assert (Hd : (d < length (p0 :: pr))%nat) by (unfold py_len in Hlt; lia).
      rewrite (swap_chain_eq _ _ Hd).
      destruct (swap_pop (p0 :: pr) d) as [[x pool']|] eqn:Esw.
      * cbv beta iota. try replace (Z.of_nat d <? py_len (p0 :: pr)) with true by (symmetry; apply Z.ltb_lt; exact Hlt).
        cbv beta iota. pose proof (swap_pop_length _ _ _ _ Esw) as Lp.
        assert (L' : length r = length pool') by (simpl in L, Lp; lia).
        destruct (IH pool' ds (set_taxon nd (Some x) h) (py_dict_set oeq (taxon h nd) x d2) Nr L')
          as [[E1 E2]|[h' [sc' [d2' [E1 [E2 E3]]]]]].
        -- left. split; assumption.
        -- right. exists h', sc', d2'. split; [exact E1|]. split; [exact E2|].
           rewrite E3, dict_set_keys. simpl map. unfold addkeys. simpl fold_left.
           replace (map (taxon (set_taxon nd (Some x) h)) r) with (map (taxon h) r); [reflexivity|].
           apply map_ext_in. intros j Hj. symmetry. apply taxon_set_taxon_other. intro C. subst j. exact (Nx Hj).
      * exfalso. unfold swap_pop in Esw.
        destruct (nth_error (p0 :: pr) d) eqn:En; [|apply nth_error_None in En; lia].
        destruct (rev (p0 :: pr)) eqn:Er; [|destruct (Nat.eqb d (length (p0 :: pr) - 1)); discriminate].
        apply (f_equal (@length Z)) in Er. rewrite rev_length in Er. discriminate.
    + left. rewrite swap_pop_none by (unfold py_len in Hge; lia).
      try replace (Z.of_nat d <? py_len (p0 :: pr)) with false by (symmetry; apply Z.ltb_ge; exact Hge).
      split; reflexivity.
Qed.

(* ---------------------------------------------------------------- counting keys *)
Lemma py_in_oeq k l : py_in oeq k l = true <-> In k l.
Proof.
  induction l as [|y r IH]; simpl; [split; [discriminate|intros []]|].
  destruct (oeq k y) eqn:E.
  - apply oeq_spec in E. subst. split; auto.
  - rewrite IH. split; [auto|]. intros [C|C]; [|exact C]. subst. exfalso.
    assert (T : oeq k k = true) by (apply oeq_spec; reflexivity). congruence.
Qed.

Lemma addkeys_len ks : forall acc,
  (length (addkeys ks acc) <= length acc + length ks)%nat /\
  (length (addkeys ks acc) = length acc + length ks <-> NoDup ks /\ forall k, In k ks -> ~ In k acc)%nat.
Proof.
  induction ks as [|k r IH]; intro acc.
  - simpl. split; [lia|]. split; [intros _; split; [constructor|intros ? []]|lia].
  - change (addkeys (k :: r) acc) with (addkeys r (addkey acc k)). cbn [length].
    unfold addkey. destruct (py_in oeq k acc) eqn:E.
    + destruct (IH acc) as [B _]. split; [lia|]. split; [lia|].
      intros [_ D]. exfalso. apply (D k (or_introl eq_refl)). apply py_in_oeq. exact E.
    + destruct (IH (acc ++ [k])) as [B Q]. rewrite app_length in B, Q. simpl in B, Q. split; [lia|].
      assert (Nk : ~ In k acc) by (intro C; apply py_in_oeq in C; congruence).
      split.
      * intro H. assert (H' : length (addkeys r (acc ++ [k])) = (length acc + 1 + length r)%nat) by lia.
        apply Q in H'. destruct H' as [Nr D]. split.
        -- constructor; [|exact Nr]. intro C. apply (D k C). apply in_or_app. right. left. reflexivity.
        -- intros j [<-|Hj]; [exact Nk|]. intro C. apply (D j Hj). apply in_or_app. left. exact C.
      * intros [Nd D]. inversion Nd as [|? ? Nkr Nr]; subst.
        assert (H' : length (addkeys r (acc ++ [k])) = (length acc + 1 + length r)%nat).
        { apply Q. split; [exact Nr|]. intros j Hj C. apply in_app_or in C. destruct C as [C|[C|[]]].
          - exact (D j (or_intror Hj) C).
          - subst j. exact (Nkr Hj). }
        lia.
Qed.

Lemma keys_count pool :
  (Z.of_nat (length (addkeys (map Some pool) [])) =? Z.of_nat (length pool)) = negb (has_dup pool).
Proof.
  destruct (addkeys_len (map Some pool) []) as [B Q]. simpl length in B, Q. rewrite map_length in B, Q.
  destruct (has_dup pool) eqn:E; simpl negb.
  - apply Z.eqb_neq. intro C. assert (C' : length (addkeys (map Some pool) []) = length pool) by lia.
    apply Q in C'. destruct C' as [Nd _].
    assert (Np : NoDup pool).
    { clear -Nd. induction pool as [|x r IH]; [constructor|]. simpl in Nd. inversion Nd as [|? ? Nx Nr]; subst.
      constructor; [|apply IH, Nr]. intro C. apply Nx. apply in_map. exact C. }
    apply has_dup_false in Np. congruence.
  - apply Z.eqb_eq. apply has_dup_false in E. f_equal. apply Q. split; [|intros k0 _ C0; destruct C0].
    apply FinFun.Injective_map_NoDup; [|exact E]. intros a b H. inversion H. reflexivity.
Qed.

(* ---------------------------------------------------------------- the method *)
Theorem gen_shuffle_taxa (ii : bool) (draws : list nat) (h : heap) :
  (forall t, abs_at h (seed h) = Some t -> NoDup (if ii then pre_ids t else leaf_ids t)) ->
  to_hres (Tree_shuffle_taxa HG set_taxon ii (sing draws) h) = shuffle_taxa ii draws h.
Proof.
  intro Hnd. unfold Tree_shuffle_taxa, shuffle_taxa, with_sub. hsimps.
  assert (K : forall l, NoDup l ->
    to_hres
      (match mfor (fun nd '(current_node_taxon_map, node_taxa) s =>
              let dv_taxon2 := taxon s nd in
              match dv_taxon2 with
              | Some dv_v3 =>
                if negb false
                then let current_node_taxon_map := py_dict_set Z.eqb nd dv_v3 current_node_taxon_map in
                     let node_taxa := node_taxa ++ [dv_v3] in
                     MOk (LNext (current_node_taxon_map, node_taxa)) s
                else MErr AssertErr s
              | None => MOk (LNext (current_node_taxon_map, node_taxa)) s
              end) l ([], []) h with
       | MOk dv_c s =>
         let '(current_node_taxon_map, node_taxa) := lctl_val dv_c in
         if py_len current_node_taxon_map =? py_len node_taxa
         then let current_to_shuffled_taxon_map := [] in
              match mfor (fun nd '(rng, node_taxa, current_to_shuffled_taxon_map) s =>
                      if py_len node_taxa <=? 0 then MErr ValueErr s
                      else match rng with
                           | [dv_draw4] :: rng =>
                             if Z.of_nat dv_draw4 <? py_len node_taxa
                             then let random_index := Z.of_nat dv_draw4 in
                                  match py_index node_taxa random_index with
                                  | Some dv_item5 =>
                                    match py_index node_taxa (-1) with
                                    | Some dv_item6 =>
                                      match py_set_index node_taxa (-1) dv_item5 with
                                      | Some node_taxa =>
                                        match py_set_index node_taxa random_index dv_item6 with
                                        | Some node_taxa =>
                                          match py_pop_last node_taxa with
                                          | Some (new_taxon, node_taxa) =>
                                            let dv_taxon7 := taxon s nd in
                                            let current_to_shuffled_taxon_map :=
                                              py_dict_set (option_eqb Z.eqb) dv_taxon7 new_taxon current_to_shuffled_taxon_map in
                                            let s := set_taxon nd (Some new_taxon) s in
                                            MOk (LNext (rng, node_taxa, current_to_shuffled_taxon_map)) s
                                          | None => MErr IndexErr s
                                          end
                                        | None => MErr IndexErr s
                                        end
                                      | None => MErr IndexErr s
                                      end
                                    | None => MErr IndexErr s
                                    end
                                  | None => MErr IndexErr s
                                  end
                             else MFuel
                           | _ => MFuel
                           end) (map fst current_node_taxon_map) (sing draws, node_taxa, current_to_shuffled_taxon_map) s with
              | MOk dv_c0 s0 =>
                let '(rng, node_taxa0, current_to_shuffled_taxon_map0) := lctl_val dv_c0 in
                if py_len node_taxa0 =? 0
                then if py_len current_to_shuffled_taxon_map0 =? py_len current_node_taxon_map
                     then MOk current_to_shuffled_taxon_map0 s0
                     else MErr AssertErr s0
                else MErr AssertErr s0
              | MErr dv_e s0 => MErr dv_e s0
              | MFuel => MFuel
              end
         else MErr AssertErr s
       | MErr dv_e s => MErr dv_e s
       | MFuel => MFuel
       end)
    = (hdo h1 <- shuffle_each (filter (has_taxon h) l) (taxa_of h (filter (has_taxon h) l)) draws h ;;
       if has_dup (taxa_of h (filter (has_taxon h) l)) then HErr AssertErr h1 else HOk h1)).
  { intros l Nl.
    match goal with |- context [mfor ?b l ([], []) h] =>
      assert (Hb1 : forall nd v s, b nd v s = step1 nd v s)
        by (intros nd [m nt] s; unfold step1; cbn [fst snd]; destruct (taxon s nd); reflexivity);
      rewrite (loop1 b Hb1 l h [] [] Nl (fun _ _ C => C))
    end.
    cbn [app lctl_val]. unfold py_len at 1 2. rewrite pairs_taxa_len, Z.eqb_refl.
    rewrite pairs_fst. rewrite taxa_of_filter.
    set (nds := filter (has_taxon h) l). set (pool := taxa_of h l).
    assert (Nn : NoDup nds) by (apply NoDup_filter, Nl).
    assert (Ln : length nds = length pool).
    { unfold nds, pool. rewrite <- pairs_fst, map_length. apply pairs_taxa_len. }
    match goal with |- context [mfor ?b nds (sing draws, pool, []) h] =>
      assert (Hb2 : forall nd v s, b nd v s = step2 nd v s)
        by (intros nd [[sc pl] d2] s; unfold step2, swap_chain;
            destruct (py_len pl <=? 0); [reflexivity|];
            destruct sc as [|[|d [|? ?]] sc']; try reflexivity;
            destruct (Z.of_nat d <? py_len pl); [|reflexivity];
            destruct (py_index pl (Z.of_nat d)) as [a|]; [|reflexivity];
            destruct (py_index pl (-1)) as [b0|]; [|reflexivity];
            destruct (py_set_index pl (-1) a) as [l1|]; [|reflexivity];
            destruct (py_set_index l1 (Z.of_nat d) b0) as [l2|]; [|reflexivity];
            destruct (py_pop_last l2) as [[? ?]|]; reflexivity);
      destruct (loop2 b Hb2 nds pool draws h [] Nn Ln) as [[E1 E2]|[h' [sc' [d2' [E1 [E2 E3]]]]]]
    end.
    - rewrite E1, E2. reflexivity.
    - rewrite E1, E2. cbn [lctl_val hbind]. change (py_len (@nil Z) =? 0) with true. cbv iota.
      unfold py_len. rewrite <- (map_length fst d2'), E3. simpl map.
      unfold nds at 1. rewrite taxa_of_map. fold pool.
      rewrite pairs_taxa_len. fold pool. rewrite keys_count.
      destruct (has_dup pool); reflexivity. }
  destruct (abs_at h (seed h)) as [t|] eqn:Ea; [|destruct ii; reflexivity].
  specialize (Hnd t eq_refl).
  destruct ii; cbv zeta; apply (K _ Hnd).
Qed.

Theorem gen_shuffle_taxa_wf (ii : bool) (draws : list nat) (h : heap) :
  WF h -> to_hres (Tree_shuffle_taxa HG set_taxon ii (sing draws) h) = shuffle_taxa ii draws h.
Proof.
  intros [t [[R [N B]] S]]. apply gen_shuffle_taxa. intros t' A.
  assert (E : abs h = Some t) by (apply C03Abs.abs_WFt; split; [split; [exact R|split; [exact N|exact B]]|exact S]).
  unfold abs in E. rewrite E in A. inversion A; subst t'.
  destruct ii; [exact N|]. apply (proj2 (C03PruneLoops.leaf_ids_sub t)), N.
Qed.
