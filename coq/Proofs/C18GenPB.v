(* C18 - uniform_pure_birth_tree GENERATED from the Python source (Gen/Sim.v) refines the hand-written
   model pb_run (through the invariant pb_inv of Proofs/C18PB.v) *)
From Coq Require Import QArith ZArith List Bool Arith Lia Permutation.
From DV Require Import Model.C18Model Model.C18Prims Gen.Sim.
From DV Require Import Proofs.C18Lists Proofs.C18Tree Proofs.C18Monad Proofs.C18BD Proofs.C18PB
                       Proofs.C18GenCoal Proofs.C18GenBD.
From DV Require Model.PyPrims.
Import ListNotations.
Open Scope nat_scope.

(* for nd in leaf_nodes: nd.edge.length += waiting_time *)
Lemma grow_fold_generic : forall (f : btree -> nat -> btree) w,
  (forall t x, f t x = set_len x (fun l_ => (l_ + w)%Q) t) ->
  forall L t, NoDup (ids t) -> NoDup L -> fold_left f L t = add_len_set L w t.
Proof.
  intros f w Hf. induction L as [|x L IH]; intros t Hn HL; simpl.
  - rewrite add_len_set_relabel. symmetry.
    rewrite <- (relabel_ext (fun i l tx => (l, tx))); [|reflexivity].
    clear. induction t as [i l tx ks IH] using btree_ind2. simpl. f_equal. apply map_id_Forall. exact IH.
  - inversion HL as [|? ? Hx HL']; subst. rewrite Hf.
    rewrite (set_len_relabel x _ t Hn).
    rewrite IH; [|rewrite relabel_ids; exact Hn|exact HL'].
    rewrite !add_len_set_relabel, relabel_relabel. apply relabel_ext. intros i l tx _. cbn [fst snd memb].
    destruct (i =? x) eqn:E.
    + apply Nat.eqb_eq in E. subst i. rewrite (proj2 (memb_false x L) Hx). reflexivity.
    + reflexivity.
Qed.

Lemma bnd_smap_cong_dep {A B C} (f : B -> C) (m : M A) (k1 : A -> M C) (k2 : A -> M B) r :
  (forall a r', m r = Done a r' -> k1 a r' = smap f (k2 a r')) -> bnd m k1 r = smap f (bnd m k2 r).
Proof. intros H. unfold bnd. destruct (m r) eqn:E; try reflexivity. apply H. reflexivity. Qed.

Definition pb_tup (tn : btree * nat) := (fst tn, snd tn, leaf_ids (fst tn)).

Lemma gen_pb_loop : forall f N b t next r,
  pb_inv t next -> N <= f + length (leaf_ids t) ->
  py_while (S f) (gen_uniform_pure_birth_tree_while2 (seq 0 N) b) (t, next, leaf_ids t) r =
  smap (fun tn => CNext (R := Empty_set) (pb_tup tn)) (pb_loop f N b t next r).
Proof.
  induction f as [|f IH]; intros N b t next r I Hf.
  - rewrite py_while_S. cbn [pb_loop]. unfold gen_uniform_pure_birth_tree_while2. cbv beta iota. rewrite seq_length.
    replace (length (leaf_ids t) <? N) with false by (symmetry; apply Nat.ltb_ge; lia).
    replace (N <=? length (leaf_ids t)) with true by (symmetry; apply Nat.leb_le; lia). reflexivity.
  - rewrite py_while_S. cbn [pb_loop]. unfold gen_uniform_pure_birth_tree_while2 at 1. cbv beta iota. rewrite seq_length.
    destruct (N <=? length (leaf_ids t)) eqn:E.
    + replace (length (leaf_ids t) <? N) with false by (symmetry; apply Nat.ltb_ge; apply Nat.leb_le in E; lia). reflexivity.
    + apply Nat.leb_gt in E. replace (length (leaf_ids t) <? N) with true by (symmetry; apply Nat.ltb_lt; lia).
      unfold py_expovariate, pb_rate. rewrite bnd_assoc. apply bnd_smap_cong. intros w r1. cbv zeta.
      assert (NL : NoDup (leaf_ids t)) by (apply NoDup_leaf_ids; apply (pb_nodup _ _ I)).
      rewrite (grow_fold_generic (gen_uniform_pure_birth_tree_fold1 w) w (fun t0 x => eq_refl) (leaf_ids t) t (pb_nodup _ _ I) NL).
      rewrite bnd_assoc. apply bnd_smap_cong_dep. intros i r2 Hd.
      apply d_choice_Done in Hd. destruct Hd as [Hi _].
      set (t1 := add_len_set (leaf_ids t) w t). set (x := nth i (leaf_ids t) 0).
      assert (E1 : ids t1 = ids t) by (unfold t1; rewrite add_len_set_relabel; apply relabel_ids).
      assert (E2 : leaf_ids t1 = leaf_ids t) by (unfold t1; rewrite add_len_set_relabel; apply relabel_leaf_ids).
      assert (Hx : In x (leaf_ids t1)) by (rewrite E2; apply nth_In; exact Hi).
      assert (N1 : NoDup (ids t1)) by (rewrite E1; apply (pb_nodup _ _ I)).
      assert (Hc : forall c, next <= c -> ~ In c (ids t1)).
      { intros c Hc Hin. rewrite E1 in Hin. apply (pb_fresh _ _ I) in Hin. lia. }
      unfold py_new_child. cbv beta iota zeta.
      rewrite (gen_birth_tree t1 x next (S next) N1 Hx (Hc _ (le_n _)) (Hc _ (le_S _ _ (le_n _)))).
      destruct (pb_step t next w i I Hi) as [I' Hl]. unfold pb_next in *. fold t1 x in I', Hl.
      unfold bnd at 1. unfold ret at 1. cbv beta iota.
      apply IH; [exact I'|]. rewrite Hl. lia.
Qed.

(* for idx, leaf in enumerate(leaf_nodes): leaf.taxon = taxon_namespace[idx] *)
Lemma set_tax_cons : forall x k m t, ~ In x (map fst m) ->
  set_tax m (set_tax [(x, k)] t) = set_tax ((x, k) :: m) t.
Proof.
  intros x k m t Hx. rewrite !set_tax_relabel, relabel_relabel. apply relabel_ext. intros i l tx _. cbn [fst snd assoc].
  destruct (i =? x) eqn:E; [|reflexivity]. apply Nat.eqb_eq in E. subst i.
  rewrite (proj2 (assoc_None x m) Hx). reflexivity.
Qed.

Lemma enum_keys_from : forall (L : list nat) s, map fst (enum_from s L) = L.
Proof. induction L as [|a L IH]; intros s; simpl; [reflexivity|]. f_equal. apply IH. Qed.

Lemma nth_error_seq : forall N i, i < N -> nth_error (seq 0 N) i = Some i.
Proof.
  intros N i H. rewrite (nth_error_nth' (seq 0 N) 0) by (rewrite seq_length; exact H). rewrite seq_nth by exact H. reflexivity.
Qed.

Lemma nth_error_seq_out : forall N i, N <= i -> nth_error (seq 0 N) i = None.
Proof. intros N i H. apply nth_error_None. rewrite seq_length. exact H. Qed.

Lemma relabel_id : forall t, relabel (fun i l tx => (l, tx)) t = t.
Proof. induction t as [i l tx ks IH] using btree_ind2. simpl. f_equal. apply map_id_Forall. exact IH. Qed.

Lemma gen_pb_taxa : forall N L k t r, NoDup L ->
  py_forM (gen_uniform_pure_birth_tree_forM3 (seq 0 N)) (combine (seq k (length L)) L) t r =
  if (match L with [] => true | _ => k + length L <=? N end)
  then Done (CNext (R := Empty_set) (set_tax (enum_from k L) t)) r
  else PyErr PyPrims.IndexErr.
Proof.
  intros N. induction L as [|x L IH]; intros k t r Hn.
  - simpl. rewrite set_tax_relabel. unfold ret. f_equal. f_equal. symmetry.
    rewrite <- (relabel_ext (fun i l tx => (l, tx))); [apply relabel_id|reflexivity].
  - inversion Hn as [|? ? Hx Hn']; subst. cbn [length seq combine py_forM].
    unfold bnd at 1. unfold gen_uniform_pure_birth_tree_forM3 at 1. cbv beta iota.
    unfold bnd at 1. unfold py_index.
    destruct (Nat.lt_ge_cases k N) as [Hk|Hk].
    + rewrite (nth_error_seq N k Hk). unfold ret at 1 2. cbv beta iota zeta.
      rewrite IH by exact Hn'. unfold b_set_tax.
      rewrite set_tax_cons by (rewrite enum_keys_from; exact Hx).
      cbn [enum_from]. destruct L as [|y L'].
      * cbn [length]. replace (k + 1 <=? N) with true by (symmetry; apply Nat.leb_le; lia). reflexivity.
      * replace (S k + length (y :: L') <=? N) with (k + length (x :: y :: L') <=? N) by (f_equal; simpl; lia). reflexivity.
    + rewrite (nth_error_seq_out N k Hk). unfold raise.
      cbn [length]. replace (k + S (length L) <=? N) with false by (symmetry; apply Nat.leb_gt; lia). reflexivity.
Qed.

Theorem gen_uniform_pure_birth_tree_eq : forall N b r,
  gen_uniform_pure_birth_tree (seq 0 N) b r = pb_run N b r.
Proof.
  intros N b r. unfold gen_uniform_pure_birth_tree, pb_run. cbv zeta.
  change (b_set_len py_tree_new (b_id py_tree_new) 0%Q) with (bleaf 0 0%Q).
  change (leaf_ids (bleaf 0 0%Q)) with [0]. rewrite seq_length.
  assert (Hloop := gen_pb_loop N N b (bleaf 0 0%Q) 1 r pb_init_inv ltac:(simpl; lia)).
  change (leaf_ids (bleaf 0 0%Q)) with [0] in Hloop.
  unfold bnd. rewrite Hloop.
  destruct (pb_loop N N b (bleaf 0 0%Q) 1 r) as [[t next] r1| | | |] eqn:El; try reflexivity.
  cbn [smap pb_tup fst snd]. cbv beta iota.
  assert (H1 : length (leaf_ids (bleaf 0 0%Q)) <= N \/ N = 0) by (simpl; lia).
  assert (I : pb_inv t next).
  { destruct N as [|N'].
    - simpl in El. inversion El; subst. apply pb_init_inv.
    - eapply (pb_loop_spec _ _ _ _ _ _ _ _ _ pb_init_inv); [|exact El]. simpl. lia. }
  unfold py_expovariate, pb_rate.
  destruct (expovariate (inject_Z (Z.of_nat (length (leaf_ids t))) / b) r1) as [w r2| | | |]; try reflexivity.
  assert (NL : NoDup (leaf_ids t)) by (apply NoDup_leaf_ids; apply (pb_nodup _ _ I)).
  rewrite (grow_fold_generic (gen_uniform_pure_birth_tree_fold4 w) w (fun t0 x => eq_refl) (leaf_ids t) t (pb_nodup _ _ I) NL).
  unfold py_enumerate. rewrite (gen_pb_taxa N (leaf_ids t) 0 _ r2 NL).
  destruct (leaf_ids t) as [|l0 lr] eqn:EL; [exfalso; eapply leaf_ids_nonempty; eauto|].
  cbn [Nat.add]. destruct (length (l0 :: lr) <=? N); reflexivity.
Qed.
