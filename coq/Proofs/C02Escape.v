(* C02: the writer's token escaping against the NexusTokenizer.
   - generated finite obligations over coq/Gen/CharClasses.v (vm_compute)
   - next_token on captured delimiters, plain unquoted runs, quoted literals
   - escape_tokenize_roundtrip *)
From Coq Require Import ZArith List Bool Lia.
From DV Require Import Model.PyPrims Gen.CharClasses Model.Tokenizer Model.Newick Model.C02Spec Proofs.C02Tok.
Import ListNotations.
Open Scope Z_scope.

(* ---------- generated obligations (closed by computation over the generated lists) ---------- *)

Definition delims_protected_check (protect : list Z) : bool :=
  forallb (fun c => zmem c protect) (tok_captured_delimiters ++ tok_quote_chars ++ tok_comment_begin)
  && forallb (fun c => zmem c protect || (c =? SPACE) || negb (admissible c)) tok_uncaptured_delimiters.

Lemma delims_protected_writer_b : delims_protected_check newick_writer_protect = true.
Proof. vm_compute. reflexivity. Qed.

Lemma delims_protected_default_b : delims_protected_check escape_default_protect = true.
Proof. vm_compute. reflexivity. Qed.

(* the remaining facts about the generated sets the round trip needs *)
Definition tokenizer_shape_check : bool :=
  (* the writer's quote character is the tokenizer's quote character, doubled to escape *)
  zmem QUOTE tok_quote_chars && tok_escape_quote_by_doubling
  && forallb (fun c => c =? QUOTE) tok_quote_chars
  (* captured delimiters win over nothing else: the three classes are disjoint *)
  && forallb (fun c => negb (zmem c tok_uncaptured_delimiters)) tok_captured_delimiters
  && forallb (fun c => negb (zmem c tok_uncaptured_delimiters) && negb (zmem c tok_captured_delimiters)) tok_quote_chars
  (* the underscore is an ordinary character; the blank is a delimiter *)
  && negb (zmem UNDERSCORE (tok_uncaptured_delimiters ++ tok_captured_delimiters ++ tok_quote_chars ++ tok_comment_begin))
  && zmem SPACE tok_uncaptured_delimiters
  (* the structural characters of the tree statement are captured delimiters *)
  && forallb (fun c => zmem c tok_captured_delimiters) [LPAREN; RPAREN; COMMA; COLON; SEMI]
  && zmem NEWLINE tok_uncaptured_delimiters.

Lemma tokenizer_shape_b : tokenizer_shape_check = true.
Proof. vm_compute. reflexivity. Qed.

Definition writer_class_check (protect : list Z) : bool :=
  zmem TAB protect && negb (zmem UNDERSCORE protect) && negb (zmem SPACE protect).

Lemma writer_class_b : writer_class_check newick_writer_protect = true.
Proof. vm_compute. reflexivity. Qed.
Lemma default_class_b : writer_class_check escape_default_protect = true.
Proof. vm_compute. reflexivity. Qed.

(* ---------- list helpers ---------- *)
Lemma zmem_In c l : zmem c l = true <-> In c l.
Proof.
  unfold zmem. rewrite existsb_exists. split.
  - intros [x [Hi He]]. apply Z.eqb_eq in He. subst. exact Hi.
  - intro H. exists c. split; [exact H | apply Z.eqb_refl].
Qed.

Lemma forallb_zmem (P : Z -> bool) l c : forallb P l = true -> zmem c l = true -> P c = true.
Proof. intros H Hc. apply zmem_In in Hc. rewrite forallb_forall in H. apply H. exact Hc. Qed.

Lemma zmem_app c a b : zmem c (a ++ b) = zmem c a || zmem c b.
Proof. unfold zmem. apply existsb_app. Qed.

Arguments zmem : simpl never.

(* ---------- everything below is about NexusTokenizer(preserve_unquoted_underscores = pu) ---------- *)
Section Nexus.
Variable pu : bool.
Let cfg := nexus_cfg pu.

Notation unc c := (zmem c tok_uncaptured_delimiters) (only parsing).
Notation cap c := (zmem c tok_captured_delimiters) (only parsing).
Notation quo c := (zmem c tok_quote_chars) (only parsing).
Notation cbeg c := (zmem c tok_comment_begin) (only parsing).

(* a character that the unquoted loop copies into the token *)
Definition plain (c : Z) : bool := negb (unc c) && negb (cap c) && negb (cbeg c).

(* the stream continues with a captured delimiter, or ends *)
Definition cap_start (r : str) : bool := match r with [] => true | c :: _ => cap c end.

Definition conv (c : Z) : Z := if (c =? UNDERSCORE) && negb pu then SPACE else c.

Lemma shape_quote : quo QUOTE = true /\ tok_escape_quote_by_doubling = true /\ unc QUOTE = false /\ cap QUOTE = false.
Proof.
  pose proof tokenizer_shape_b as H. unfold tokenizer_shape_check in H.
  rewrite !andb_true_iff in H. destruct H as [[[[[[[[H1 H2] H3] H4] H5] H6] H7] H8] H9].
  pose proof (forallb_zmem _ _ QUOTE H5 H1) as Q. apply andb_true_iff in Q. destruct Q as [Q1 Q2].
  apply negb_true_iff in Q1, Q2. idtac. auto.
Qed.

Lemma quo_is_quote c : quo c = true -> c = QUOTE.
Proof.
  pose proof tokenizer_shape_b as H. unfold tokenizer_shape_check in H.
  rewrite !andb_true_iff in H. destruct H as [[[[[[[[H1 H2] H3] H4] H5] H6] H7] H8] H9].
  intro Hq. apply (forallb_zmem _ _ c H3) in Hq. apply Z.eqb_eq. exact Hq.
Qed.

Lemma cap_not_unc c : cap c = true -> unc c = false.
Proof.
  pose proof tokenizer_shape_b as H. unfold tokenizer_shape_check in H.
  rewrite !andb_true_iff in H. destruct H as [[[[[[[[H1 H2] H3] H4] H5] H6] H7] H8] H9].
  intro Hc. apply (forallb_zmem _ _ c H4) in Hc. apply negb_true_iff in Hc. exact Hc.
Qed.

Lemma underscore_plain : plain UNDERSCORE = true /\ quo UNDERSCORE = false.
Proof.
  pose proof tokenizer_shape_b as H. unfold tokenizer_shape_check in H.
  rewrite !andb_true_iff in H. destruct H as [[[[[[[[H1 H2] H3] H4] H5] H6] H7] H8] H9].
  apply negb_true_iff in H6. rewrite !zmem_app in H6. rewrite !orb_false_iff in H6.
  destruct H6 as [A [B [C D]]]. unfold plain. rewrite A, B, C, D. auto.
Qed.

Lemma space_unc : unc SPACE = true.
Proof.
  pose proof tokenizer_shape_b as H. unfold tokenizer_shape_check in H.
  rewrite !andb_true_iff in H. destruct H as [[[[[[[[H1 H2] H3] H4] H5] H6] H7] H8] H9]. exact H7.
Qed.

Lemma newline_unc : unc NEWLINE = true.
Proof.
  pose proof tokenizer_shape_b as H. unfold tokenizer_shape_check in H.
  rewrite !andb_true_iff in H. destruct H as [[[[[[[[H1 H2] H3] H4] H5] H6] H7] H8] H9]. exact H9.
Qed.

Lemma struct_cap c : In c [LPAREN; RPAREN; COMMA; COLON; SEMI] -> cap c = true.
Proof.
  pose proof tokenizer_shape_b as H. unfold tokenizer_shape_check in H.
  rewrite !andb_true_iff in H. destruct H as [[[[[[[[H1 H2] H3] H4] H5] H6] H7] H8] H9].
  intro Hi. rewrite forallb_forall in H8. apply H8. exact Hi.
Qed.

(* --- one captured delimiter --- *)
Lemma next_captured c r : cap c = true -> next_token cfg (c :: r) = TTok [c] false [] r.
Proof.
  intro Hc. unfold next_token. cbn [next_tok length].
  assert (Hs : skip_ws cfg (c :: r) = c :: r).
  { cbn [skip_ws]. change (tc_uncaptured cfg) with tok_uncaptured_delimiters.
    rewrite (cap_not_unc c Hc). reflexivity. }
  rewrite Hs. change (tc_captured cfg) with tok_captured_delimiters.
  idtac. rewrite Hc. reflexivity.
Qed.

(* --- a run of plain characters --- *)
Lemma unquoted_plain : forall s r f, forallb plain s = true -> cap_start r = true ->
  (length (s ++ r) < f)%nat ->
  unquoted_loop cfg f (s ++ r) = Some (map conv s, [], r).
Proof.
  induction s as [|c s IH]; intros r f Hp Hr Hf.
  - destruct f as [|f]; [simpl in Hf; lia|]. simpl app. destruct r as [|c r]; [reflexivity|].
    cbn [unquoted_loop]. simpl in Hr.
    change (tc_uncaptured cfg) with tok_uncaptured_delimiters.
    change (tc_captured cfg) with tok_captured_delimiters.
    rewrite (cap_not_unc c Hr). idtac. rewrite Hr. reflexivity.
  - destruct f as [|f]; [simpl in Hf; lia|]. simpl in Hp. apply andb_true_iff in Hp. destruct Hp as [Hc Hp].
    unfold plain in Hc. rewrite !andb_true_iff, !negb_true_iff in Hc. destruct Hc as [[H1 H2] H3].
    simpl app. cbn [unquoted_loop].
    change (tc_uncaptured cfg) with tok_uncaptured_delimiters.
    change (tc_captured cfg) with tok_captured_delimiters.
    change (tc_cbegin cfg) with tok_comment_begin.
    change (tc_preserve_underscores cfg) with pu.
    idtac. rewrite H1, H2, H3.
    rewrite (IH r f Hp Hr); [reflexivity | simpl in Hf; lia].
Qed.

Lemma next_plain s r : s <> [] -> forallb plain s = true -> quo (hd 0 s) = false -> cap_start r = true ->
  next_token cfg (s ++ r) = TTok (map conv s) false [] r.
Proof.
  intros Hne Hp Hq Hr. destruct s as [|c s]; [congruence|].
  unfold next_token. cbn [next_tok].
  pose proof Hp as Hp0. simpl in Hp. apply andb_true_iff in Hp. destruct Hp as [Hc Hp].
  unfold plain in Hc. rewrite !andb_true_iff, !negb_true_iff in Hc. destruct Hc as [[H1 H2] H3].
  assert (Hs : skip_ws cfg ((c :: s) ++ r) = c :: (s ++ r)).
  { simpl app. cbn [skip_ws]. change (tc_uncaptured cfg) with tok_uncaptured_delimiters.
    idtac. rewrite H1. reflexivity. }
  rewrite Hs.
  change (tc_captured cfg) with tok_captured_delimiters.
  change (tc_quotes cfg) with tok_quote_chars.
  idtac. rewrite H2. simpl in Hq. idtac. rewrite Hq.
  change (c :: s ++ r) with ((c :: s) ++ r).
  rewrite (unquoted_plain (c :: s) r _ Hp0 Hr); [|lia].
  reflexivity.
Qed.

(* --- a quoted literal --- *)
Lemma quoted_loop_double : forall l r, match r with [] => True | c :: _ => c <> QUOTE end ->
  quoted_loop cfg QUOTE (double_quotes l ++ QUOTE :: r) = Some (l, r).
Proof.
  destruct shape_quote as [_ [Hd _]].
  induction l as [|c l IH]; intros r Hr.
  - simpl app. cbn [quoted_loop]. rewrite Z.eqb_refl.
    change (tc_double cfg) with tok_escape_quote_by_doubling. rewrite Hd.
    destruct r as [|c2 r2]; [reflexivity|].
    destruct (c2 =? QUOTE) eqn:E; [apply Z.eqb_eq in E; contradiction | reflexivity].
  - unfold double_quotes. cbn [flat_map]. fold (double_quotes l).
    destruct (c =? QUOTE) eqn:E.
    + apply Z.eqb_eq in E. subst c. simpl app. cbn [quoted_loop]. rewrite Z.eqb_refl.
      change (tc_double cfg) with tok_escape_quote_by_doubling. rewrite Hd.
      rewrite (IH r Hr). reflexivity.
    + simpl app. cbn [quoted_loop]. rewrite E. rewrite (IH r Hr). reflexivity.
Qed.

Lemma next_quoted l r : cap_start r = true ->
  next_token cfg (QUOTE :: double_quotes l ++ QUOTE :: r) = TTok l true [] r.
Proof.
  intro Hr. destruct shape_quote as [Hq [Hd [Hu Hc]]].
  unfold next_token. cbn [next_tok].
  assert (Hs : skip_ws cfg (QUOTE :: double_quotes l ++ QUOTE :: r) = QUOTE :: double_quotes l ++ QUOTE :: r).
  { cbn [skip_ws]. change (tc_uncaptured cfg) with tok_uncaptured_delimiters. idtac. rewrite Hu. reflexivity. }
  rewrite Hs.
  change (tc_captured cfg) with tok_captured_delimiters.
  change (tc_quotes cfg) with tok_quote_chars.
  idtac. idtac. rewrite Hc, Hq.
  rewrite quoted_loop_double; [reflexivity|].
  destruct r as [|c r]; [exact I|]. simpl in Hr. intro E. subst c. idtac. rewrite Hr in Hc. discriminate.
Qed.

(* --- escape_token against the tokenizer, for a protect class that covers the delimiters --- *)
Section Class.
Variable protect : list Z.
Hypothesis Hprot : delims_protected_check protect = true.
Hypothesis Hcls : writer_class_check protect = true.

Let prot c := zmem c protect.

Lemma unprotected_plain c : prot c = false -> admissible c = true -> c <> SPACE ->
  plain c = true /\ quo c = false.
Proof.
  intros Hp Ha Hs. unfold delims_protected_check in Hprot. apply andb_true_iff in Hprot.
  destruct Hprot as [P1 P2].
  assert (A : zmem c (tok_captured_delimiters ++ tok_quote_chars ++ tok_comment_begin) = false).
  { destruct (zmem c (tok_captured_delimiters ++ tok_quote_chars ++ tok_comment_begin)) eqn:E; [|reflexivity].
    apply (forallb_zmem _ _ c P1) in E. unfold prot in Hp. congruence. }
  rewrite !zmem_app, !orb_false_iff in A. destruct A as [A1 [A2 A3]].
  assert (B : unc c = false).
  { idtac. destruct (zmem c tok_uncaptured_delimiters) eqn:E; [|reflexivity].
    apply (forallb_zmem _ _ c P2) in E. unfold prot in Hp. rewrite Hp, Ha in E. simpl in E.
    rewrite orb_false_r in E. apply Z.eqb_eq in E. contradiction. }
  unfold plain. rewrite A1, A2, A3, B. auto.
Qed.

Definition sp2us (c : Z) : Z := if (c =? SPACE) || (c =? TAB) then UNDERSCORE else c.

Lemma escape_tokenize_roundtrip_gen : forall ps uu l r,
  negb (is_nil l) = true -> forallb admissible l = true -> cap_start r = true ->
  consistent_opts uu pu ps l = true ->
  next_token cfg (escape_token protect ps (negb uu) l ++ r)
  = TTok l (escape_quotes protect ps (negb uu) l) [] r.
Proof.
  intros ps uu l r Hne Hadm Hr Hcons.
  unfold writer_class_check in Hcls. rewrite !andb_true_iff, !negb_true_iff in Hcls.
  destruct Hcls as [[Ctab Cus] Csp].
  unfold escape_token, escape_quotes.
  set (has_prot := existsb (fun c => zmem c protect) l).
  set (has_us := zmem UNDERSCORE l).
  set (has_sp := zmem SPACE l).
  destruct (negb ps && negb has_us && negb has_prot) eqn:EA.
  - (* spaces become underscores, unquoted *)
    rewrite !andb_true_iff, !negb_true_iff in EA. destruct EA as [[Eps Eus] Epr].
    assert (Hall : forall c, In c l -> prot c = false /\ c <> UNDERSCORE /\ c <> TAB).
    { intros c Hi. assert (P : prot c = false).
      { unfold has_prot in Epr. destruct (prot c) eqn:E; [|reflexivity].
        assert (X : existsb (fun c => zmem c protect) l = true) by (apply existsb_exists; exists c; auto).
        congruence. }
      split; [exact P|]. split.
      - intro E. subst c. unfold has_us in Eus. apply zmem_In in Hi. congruence.
      - intro E. subst c. unfold prot in P. congruence. }
    assert (Hpl : forallb plain (map sp2us l) = true).
    { apply forallb_forall. intros x Hx. apply in_map_iff in Hx. destruct Hx as [c [Hx Hi]]. subst x.
      destruct (Hall c Hi) as [P [N1 N2]]. unfold sp2us.
      destruct (c =? SPACE) eqn:E1; [apply underscore_plain|].
      destruct (c =? TAB) eqn:E2; [apply underscore_plain|]. simpl.
      rewrite forallb_forall in Hadm. apply Z.eqb_neq in E1.
      apply (unprotected_plain c P (Hadm c Hi) E1). }
    assert (Hq : quo (hd 0 (map sp2us l)) = false).
    { destruct l as [|c l]; [discriminate|]. simpl. destruct (Hall c (or_introl eq_refl)) as [P [N1 N2]].
      unfold sp2us. destruct (c =? SPACE) eqn:E1; [apply underscore_plain|].
      destruct (c =? TAB) eqn:E2; [apply underscore_plain|]. simpl.
      rewrite forallb_forall in Hadm. apply Z.eqb_neq in E1.
      apply (unprotected_plain c P (Hadm c (or_introl eq_refl)) E1). }
    rewrite next_plain; [| destruct l; [discriminate | simpl; discriminate] | exact Hpl | exact Hq | exact Hr].
    f_equal. rewrite map_map.
    rewrite <- (map_id l) at 2. apply map_ext_in. intros c Hi.
    destruct (Hall c Hi) as [P [N1 N2]]. unfold conv, sp2us.
    destruct (c =? SPACE) eqn:E1.
    + apply Z.eqb_eq in E1. subst c. simpl.
      (* a space was written as underscore: the reader must convert it back *)
      unfold consistent_opts in Hcons. destruct pu; [|reflexivity].
      rewrite andb_false_r in Hcons. simpl in Hcons. rewrite Eps in Hcons. simpl in Hcons.
      apply andb_true_iff in Hcons. destruct Hcons as [_ Hc]. apply negb_true_iff in Hc.
      apply zmem_In in Hi. congruence.
    + apply Z.eqb_neq in N2. rewrite N2. simpl. apply Z.eqb_neq in N1. rewrite N1. reflexivity.
  - destruct (has_prot || has_sp || (negb uu && has_us)) eqn:EB.
    + (* quoted *)
      change (QUOTE :: double_quotes l ++ [QUOTE]) with ((QUOTE :: double_quotes l ++ [QUOTE])).
      replace ((QUOTE :: double_quotes l ++ [QUOTE]) ++ r) with (QUOTE :: double_quotes l ++ QUOTE :: r)
        by (simpl; rewrite <- app_assoc; reflexivity).
      apply next_quoted. exact Hr.
    + (* written as is *)
      rewrite !orb_false_iff in EB. destruct EB as [[Epr Esp] Eq].
      assert (Hall : forall c, In c l -> prot c = false /\ c <> SPACE).
      { intros c Hi. split.
        - unfold has_prot in Epr. destruct (prot c) eqn:E; [|reflexivity].
          assert (X : existsb (fun c => zmem c protect) l = true) by (apply existsb_exists; exists c; auto).
          congruence.
        - intro E. subst c. unfold has_sp in Esp. apply zmem_In in Hi. congruence. }
      assert (Hpl : forallb plain l = true).
      { apply forallb_forall. intros c Hi. destruct (Hall c Hi) as [P N].
        rewrite forallb_forall in Hadm. apply (unprotected_plain c P (Hadm c Hi) N). }
      assert (Hq : quo (hd 0 l) = false).
      { destruct l as [|c l]; [discriminate|]. simpl. destruct (Hall c (or_introl eq_refl)) as [P N].
        rewrite forallb_forall in Hadm. apply (unprotected_plain c P (Hadm c (or_introl eq_refl)) N). }
      rewrite next_plain; [| destruct l; [discriminate | discriminate] | exact Hpl | exact Hq | exact Hr].
      f_equal. rewrite <- (map_id l) at 2. apply map_ext_in. intros c Hi. unfold conv.
      destruct (c =? UNDERSCORE) eqn:E1; [|reflexivity].
      apply Z.eqb_eq in E1. subst c.
      (* an unquoted underscore was written: only with unquoted_underscores, so the reader preserves it *)
      assert (U : has_us = true) by (apply zmem_In; exact Hi).
      rewrite U, andb_true_r in Eq. apply negb_false_iff in Eq. subst uu.
      unfold consistent_opts in Hcons. simpl in Hcons. apply andb_true_iff in Hcons.
      destruct Hcons as [Hc _]. rewrite Hc. reflexivity.
Qed.

End Class.
End Nexus.

(* the statement for the Newick writer's class *)
Lemma escape_tokenize_roundtrip_l : forall (pu ps uu : bool) (l r : str),
  good_label l = true -> cap_start r = true -> consistent_opts uu pu ps l = true ->
  next_token (nexus_cfg pu) (escape_token newick_writer_protect ps (negb uu) l ++ r)
  = TTok l (escape_quotes newick_writer_protect ps (negb uu) l) [] r.
Proof.
  intros pu ps uu l r Hg Hr Hc. unfold good_label in Hg. rewrite !andb_true_iff in Hg.
  destruct Hg as [[H1 H2] H3].
  apply (escape_tokenize_roundtrip_gen pu newick_writer_protect delims_protected_writer_b writer_class_b); assumption.
Qed.

(* and for the default class (NEXUS TAXLABELS / TRANSLATE labels) *)
Lemma escape_tokenize_roundtrip_default_l : forall (pu ps uu : bool) (l r : str),
  good_label l = true -> cap_start r = true -> consistent_opts uu pu ps l = true ->
  next_token (nexus_cfg pu) (escape_token escape_default_protect ps (negb uu) l ++ r)
  = TTok l (escape_quotes escape_default_protect ps (negb uu) l) [] r.
Proof.
  intros pu ps uu l r Hg Hr Hc. unfold good_label in Hg. rewrite !andb_true_iff in Hg.
  destruct Hg as [[H1 H2] H3].
  apply (escape_tokenize_roundtrip_gen pu escape_default_protect delims_protected_default_b default_class_b); assumption.
Qed.

Lemma delims_protected_l : forall c,
  (In c tok_captured_delimiters \/ In c tok_quote_chars \/ In c tok_comment_begin ->
     zmem c newick_writer_protect = true) /\
  (In c tok_uncaptured_delimiters ->
     zmem c newick_writer_protect = true \/ c = SPACE \/ admissible c = false).
Proof.
  intro c. pose proof delims_protected_writer_b as H. unfold delims_protected_check in H.
  apply andb_true_iff in H. destruct H as [P1 P2]. split.
  - intro Hi. rewrite forallb_forall in P1. apply P1. rewrite !in_app_iff. tauto.
  - intro Hi. rewrite forallb_forall in P2. specialize (P2 c Hi).
    rewrite !orb_true_iff in P2. destruct P2 as [[A|A]|A]; [left; exact A | right; left; apply Z.eqb_eq; exact A |
      right; right; apply negb_true_iff; exact A].
Qed.

Lemma delims_protected_default_l : forall c,
  (In c tok_captured_delimiters \/ In c tok_quote_chars \/ In c tok_comment_begin ->
     zmem c escape_default_protect = true) /\
  (In c tok_uncaptured_delimiters ->
     zmem c escape_default_protect = true \/ c = SPACE \/ admissible c = false).
Proof.
  intro c. pose proof delims_protected_default_b as H. unfold delims_protected_check in H.
  apply andb_true_iff in H. destruct H as [P1 P2]. split.
  - intro Hi. rewrite forallb_forall in P1. apply P1. rewrite !in_app_iff. tauto.
  - intro Hi. rewrite forallb_forall in P2. specialize (P2 c Hi).
    rewrite !orb_true_iff in P2. destruct P2 as [[A|A]|A]; [left; exact A | right; left; apply Z.eqb_eq; exact A |
      right; right; apply negb_true_iff; exact A].
Qed.

(* non-vacuity *)
Example good_label_ex : good_label [97; 32; 40; 39; 95; 61; 92; 233] = true.   (* a ('_=\é *)
Proof. reflexivity. Qed.
