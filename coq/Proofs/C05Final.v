(* C05: final forms of the statements used by Props/C05.v *)
From Coq Require Import ZArith QArith Qabs Qreduction List Bool Lia Lqa Permutation Sorted.
From DV Require Import Model.PyPrims Gen.BitFns Gen.Consts Model.C05Model Model.C05Spec
     Proofs.C05Lists Proofs.C05Freq Proofs.C05Consensus Proofs.C05Stats Proofs.C05Trees
     Proofs.C05Array Proofs.C05Examples.
Import ListNotations.
Open Scope Z_scope.

Lemma strongly_sorted_impl {A} (R R' : A -> A -> Prop) l :
  (forall a b, R a b -> R' a b) -> StronglySorted R l -> StronglySorted R' l.
Proof.
  intros H S. induction S as [|a l S IH F]; constructor; [assumption|].
  rewrite Forall_forall in *. intros x I. apply H. now apply F.
Qed.

Theorem greedy_consensus_spec_full :
  forall (d : sd) (all : Z) (bits : list Z) (th : Q) (rarg : option bool)
         (d' : sd) (cands : list (Q * Z)) (acc : list Z) (tr : ctree) (r : option bool),
  all <> 0 ->
  consensus d all bits (Some th) rarg = (d', (cands, acc, tr, r)) ->
  (forall f s, In (f, s) cands <->
               In (s, f) (snd (get_freqs d)) /\
               ((th <= f)%Q \/ (almost_one th = true /\ almost_one f = true))) /\
  StronglySorted (fun x y => (fst y < fst x)%Q \/ ((fst x == fst y)%Q /\ snd y <= snd x)) cands /\
  (forall m, In m acc -> exists f s, In (f, s) cands /\ fsb_nontrivial all (Z.land s all) = true
                                     /\ m = fsb_denorm all (truthy r) s) /\
  NoDup acc /\
  (forall a b, In a acc -> In b acc -> a <> b -> compat all a b = true) /\
  (forall pre f s post, cands = pre ++ (f, s) :: post ->
     fsb_nontrivial all (Z.land s all) = true ->
     let m := fsb_denorm all (truthy r) s in
     In m acc \/ is_single m = true \/
     exists f' s', In (f', s') pre /\
                   ((f < f')%Q \/ ((f' == f)%Q /\ s <= s')) /\
                   In (fsb_denorm all (truthy r) s') acc /\
                   compat all m (fsb_denorm all (truthy r) s') = false).
Proof.
  intros d all bits th rarg d' cands acc tr r NZ E.
  destruct (greedy_consensus_spec_l d all bits th rarg d' cands acc tr r NZ E) as [A [B [C [D [F G]]]]].
  split; [intros f s; rewrite A, passes_cases; reflexivity|].
  split.
  { eapply strongly_sorted_impl; [|exact B]. intros a b H. apply pair_geb_iff in H. exact H. }
  split; [exact C|]. split; [exact D|]. split; [exact F|].
  intros pre f s post Ec N m.
  destruct (G pre f s post Ec N) as [H | [H | [f' [s' [H1 [H2 [H3 H4]]]]]]]; [now left | now right; left|].
  right. right. exists f', s'. apply pair_geb_iff in H2. unfold pair_ge in H2. simpl in H2.
  repeat split; assumption.
Qed.

Theorem default_threshold_is_half_l :
  (default_min_freq == 1 # 2)%Q /\ ~ ((1 # 2) < default_min_freq)%Q /\ rule_for default_min_freq = GreedyRule.
Proof.
  assert (E : Qeq_bool default_min_freq (1 # 2) = true) by (vm_compute; reflexivity).
  apply Qeq_bool_iff in E.
  split; [exact E|]. split.
  - rewrite E. apply Qlt_irrefl.
  - vm_compute. reflexivity.
Qed.

Lemma nodup_by_count (l : list Z) : (forall x, In x l -> count_occ Z.eq_dec l x = 1%nat) -> NoDup l.
Proof. intro H. apply (NoDup_count_occ' Z.eq_dec). exact H. Qed.

Theorem majority_consensus_at_one_refuted_l :
  exists (c : config) (ts : list tree_in) (s : Z),
    (forall t, In t ts -> NoDup (splits_of t)) /\
    (forall t, In t ts -> tree_compatible 15 true t = true) /\
    In (fsb_denorm 15 true s)
       (snd (fst (fst (snd (consensus (count_trees c sd_empty ts) 15 [1; 2; 4; 8] (Some 1%Q) None))))) /\
    (exact_freq c ts s < 1)%Q.
Proof.
  exists ex_cfg, [tAB (Some 1%Q); tAC (Some (1 # 1073741824)%Q)], 3.
  split; [|split; [|split]].
  - intros t [E | [E | []]]; subst; apply nodup_by_count; intros x I; simpl in I;
      repeat (destruct I as [I|I]; [subst; reflexivity|]); destruct I.
  - intros t [E | [E | []]]; subst; reflexivity.
  - vm_compute. tauto.
  - destruct ex_almost_one as [_ [B _]]. apply qlt_bool_iff in B. exact B.
Qed.

Theorem update_any_representation_l : forall (c : config) (d o : sd) (ts ts' : list tree_in),
  Rep c d ts -> Rep c o ts' -> CacheOk d ->
  Rep c (update d o) (ts ++ ts') /\ CacheOk (update d o) /\
  forall s, (snd (query (update d o) s) == exact_freq_m c (ts ++ ts') s)%Q.
Proof.
  intros c d o ts ts' R O C.
  pose proof (rep_update c d o ts ts' R O) as R'.
  pose proof (cache_update c d o ts ts' R O C) as C'.
  split; [exact R'|]. split; [exact C'|]. intro s. now apply query_val.
Qed.

Theorem treearray_weighting_l :
  if treearray_forwards_use_tree_weights
  then forall (c : config) (ts : list tree_in) (a : ta) (s : Z),
      (forall t, In t ts -> NoDup (splits_of t)) ->
      ta_add_trees true c (ta_empty None) ts = Ok a ->
      (snd (query (ta_sd a) s) == exact_freq c ts s)%Q
  else (forall (c : config) (ts : list tree_in) (a : ta) (s : Z),
           (forall t, In t ts -> NoDup (splits_of t)) ->
           ta_add_trees false c (ta_empty None) ts = Ok a ->
           (snd (query (ta_sd a) s)
            == exact_freq (mkCfg (ignore_len c) (ignore_ages c) true (Some 0%Q)) ts s)%Q)
       /\ exists a, ta_add_trees false ex_cfg_unweighted (ta_empty None) [tAB (Some 3%Q); tAC (Some 1%Q)] = Ok a /\
                    Qeq_bool (snd (query (ta_sd a) 3)) (3 # 4) = true /\
                    Qeq_bool (exact_freq ex_cfg_unweighted [tAB (Some 3%Q); tAC (Some 1%Q)] 3) (1 # 2) = true.
Proof.
  exact (match treearray_forwards_use_tree_weights as b
               return (if b
                       then forall (c : config) (ts : list tree_in) (a : ta) (s : Z),
                           (forall t, In t ts -> NoDup (splits_of t)) ->
                           ta_add_trees true c (ta_empty None) ts = Ok a ->
                           (snd (query (ta_sd a) s) == exact_freq c ts s)%Q
                       else (forall (c : config) (ts : list tree_in) (a : ta) (s : Z),
                                (forall t, In t ts -> NoDup (splits_of t)) ->
                                ta_add_trees false c (ta_empty None) ts = Ok a ->
                                (snd (query (ta_sd a) s)
                                 == exact_freq (mkCfg (ignore_len c) (ignore_ages c) true (Some 0%Q)) ts s)%Q)
                            /\ exists a, ta_add_trees false ex_cfg_unweighted (ta_empty None) [tAB (Some 3%Q); tAC (Some 1%Q)] = Ok a /\
                                         Qeq_bool (snd (query (ta_sd a) 3)) (3 # 4) = true /\
                                         Qeq_bool (exact_freq ex_cfg_unweighted [tAB (Some 3%Q); tAC (Some 1%Q)] 3) (1 # 2) = true)
         with
         | true => treearray_freq_exact_l
         | false => conj treearray_freq_unforwarded_l ex_treearray_unforwarded
         end).
Qed.
