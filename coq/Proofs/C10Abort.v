(* C10, eighth wave: batch additions that fail part-way (Model/C10AbortModel.v).

   The state after add_taxa / new_taxa over an iterable that fails after handing over k elements is
   the state after the successful batch of exactly those k elements; hence every invariant / bit
   stability theorem of the base model holds along histories that contain failing batches, the
   accession counter lies above every index handed out before the failure, and the next addition
   gets a bit no member holds. *)
From Coq Require Import ZArith List Bool Lia.
From DV Require Import Model.PyPrims Model.C10Model Model.C10AbortModel
  Proofs.C10Lists Proofs.C10Inv Proofs.C10Bits Proofs.C10Batch.
Import ListNotations.
Open Scope Z_scope.

Section WithLower.
Variable lower : lbl -> lbl.

(* the exception does not roll anything back and does not leave anything half-written *)
Lemma astep_world_l w a : fst (astep lower w a) = fst (step lower w (base_of a)).
Proof.
  destruct a; cbn [astep base_of step]; try reflexivity.
  - unfold lift_ns. destruct (add_taxa (w_ns w) ts); reflexivity.
  - destruct (negb (is_mut (w_ns w))); [reflexivity|].
    destruct (new_taxa w ls []) as [[w' ts]| |]; reflexivity.
Qed.

(* what the caller sees: the namespace's own refusal if there is one, else the iterable's error *)
Lemma astep_output_l w a :
  snd (astep lower w a) =
  match a with
  | ABase o => snd (step lower w o)
  | AddTaxaAbort _ e | NewTaxaAbort _ e =>
    match snd (step lower w (base_of a)) with OErr e' => OErr e' | _ => OErr e end
  end.
Proof.
  destruct a; cbn [astep base_of step]; try reflexivity.
  - unfold lift_ns. destruct (add_taxa (w_ns w) ts); reflexivity.
  - destruct (negb (is_mut (w_ns w))); [reflexivity|].
    destruct (new_taxa w ls []) as [[w' ts]| |]; reflexivity.
Qed.

Lemma arun_world_base_l ops : forall w,
  arun_world lower w ops = run_world lower w (map base_of ops).
Proof.
  unfold arun_world, run_world. induction ops as [|a r IH]; intros w; cbn [fold_left map]; [reflexivity|].
  rewrite astep_world_l. apply IH.
Qed.

(* 1. the invariant over histories with failing batches *)
Theorem astep_inv_l w a : Inv (w_ns w) -> Inv (w_ns (fst (astep lower w a))).
Proof. intros I. rewrite astep_world_l. apply step_inv. exact I. Qed.

Theorem aops_inv_l w ops : Inv (w_ns w) -> Inv (w_ns (arun_world lower w ops)).
Proof. intros I. rewrite arun_world_base_l. apply ops_inv_l. exact I. Qed.

(* 2. a member keeps its bit across a failing batch *)
Theorem abit_stable_l w a t i : Inv (w_ns w) -> base_of a <> DeepCopy ->
  In t (taxa (w_ns w)) -> alookup t (acc (w_ns w)) = Some i ->
  In t (taxa (w_ns (fst (astep lower w a)))) ->
  alookup t (acc (w_ns (fst (astep lower w a)))) = Some i.
Proof. rewrite astep_world_l. apply bit_stable_l. Qed.

(* 3. the refused batch: nothing happens *)
Theorem abort_refused_l w : Inv (w_ns w) -> is_mut (w_ns w) = false ->
  (forall ts e, (exists t, In t ts /\ ~ In t (taxa (w_ns w))) ->
     astep lower w (AddTaxaAbort ts e) = (w, OErr TypeErr))
  /\ (forall ts e, (forall t, In t ts -> In t (taxa (w_ns w))) ->
     astep lower w (AddTaxaAbort ts e) = (w, OErr e))
  /\ (forall ls e, astep lower w (NewTaxaAbort ls e) = (w, OErr TypeErr)).
Proof.
  intros I M. destruct w as [n lab nxt]. cbn [w_ns] in *. split; [|split].
  - intros ts e H. cbn [astep w_ns]. rewrite (proj2 (add_taxa_immutable_l ts n I M) H). reflexivity.
  - intros ts e H. cbn [astep w_ns]. rewrite (proj1 (add_taxa_immutable_l ts n I M) H). reflexivity.
  - intros ls e. cbn [astep w_ns]. rewrite M. reflexivity.
Qed.

(* 4. add_taxa failing after ts: exactly the distinct new objects among ts were accessioned, with
      consecutive fresh indices, and the COUNTER covers them *)
Theorem add_taxa_abort_spec_l w ts e : Inv (w_ns w) -> is_mut (w_ns w) = true ->
  let w' := fst (astep lower w (AddTaxaAbort ts e)) in
  let new := batch_new (taxa (w_ns w)) ts in
  snd (astep lower w (AddTaxaAbort ts e)) = OErr e
  /\ taxa (w_ns w') = taxa (w_ns w) ++ new
  /\ NoDup (taxa (w_ns w'))
  /\ count (w_ns w') = count (w_ns w) + Z.of_nat (length new)
  /\ (forall t i, alookup t (acc (w_ns w)) = Some i -> alookup t (acc (w_ns w')) = Some i)
  /\ (forall k t, nth_error new k = Some t -> alookup t (acc (w_ns w')) = Some (count (w_ns w) + Z.of_nat k))
  /\ (forall t i, In t (taxa (w_ns w')) -> alookup t (acc (w_ns w')) = Some i -> 0 <= i < count (w_ns w'))
  /\ all_taxa_bitmask (w_ns w') = Z.shiftl 1 (count (w_ns w) + Z.of_nat (length new)) - 1
  /\ w_lab w' = w_lab w /\ w_next w' = w_next w.
Proof.
  intros I M w' new.
  assert (O : snd (astep lower w (AddTaxaAbort ts e)) = OErr e).
  { cbn [astep]. destruct (add_taxa_mutable_ok ts (w_ns w) M) as (n' & E & _). rewrite E. reflexivity. }
  pose proof (astep_inv_l w (AddTaxaAbort ts e) I) as I'. fold w' in I'.
  unfold w'. rewrite astep_world_l. cbn [base_of].
  destruct (add_taxa_step_spec_l lower w ts I M) as (_ & Ht & Hn & _ & Hc & Hold & Hnew & _ & Hl & Hx).
  fold new in Ht, Hc, Hnew.
  split; [exact O|]. split; [exact Ht|]. split; [exact Hn|]. split; [exact Hc|]. split; [exact Hold|].
  split; [exact Hnew|]. split.
  - intros t i _ A. unfold w' in I'. rewrite astep_world_l in I'. cbn [base_of] in I'.
    apply (inv_range _ I' _ _ A).
  - split; [|split; assumption]. unfold all_taxa_bitmask. rewrite Hc. reflexivity.
Qed.

(* 5. new_taxa failing after ls: one new member per label handed over *)
Theorem new_taxa_abort_spec_l w ls e :
  (Inv (w_ns w) /\ forall t, In t (taxa (w_ns w)) -> t < w_next w) -> is_mut (w_ns w) = true ->
  let w' := fst (astep lower w (NewTaxaAbort ls e)) in
  let new := zseq (w_next w) (length ls) in
  snd (astep lower w (NewTaxaAbort ls e)) = OErr e
  /\ taxa (w_ns w') = taxa (w_ns w) ++ new
  /\ NoDup (taxa (w_ns w'))
  /\ w_next w' = w_next w + Z.of_nat (length ls)
  /\ count (w_ns w') = count (w_ns w) + Z.of_nat (length ls)
  /\ (forall k l, nth_error ls k = Some l ->
        alookup (w_next w + Z.of_nat k) (acc (w_ns w')) = Some (count (w_ns w) + Z.of_nat k)
        /\ label_of w' (w_next w + Z.of_nat k) = l)
  /\ (forall t i, alookup t (acc (w_ns w)) = Some i -> alookup t (acc (w_ns w')) = Some i).
Proof.
  intros W M w' new.
  destruct (new_taxa_step_spec_l lower w ls W M) as (Ho & Ht & Hn & Hx & Hc & Hnew & Hold & _).
  assert (O : snd (astep lower w (NewTaxaAbort ls e)) = OErr e).
  { rewrite astep_output_l. cbn [base_of]. rewrite Ho. reflexivity. }
  unfold w'. rewrite astep_world_l. cbn [base_of]. fold new in Ht.
  repeat (split; [assumption|]). exact Hold.
Qed.

(* 6. the NEXT addition after a failed batch gets a bit that no member holds *)
Theorem addition_after_abort_fresh_bit_l w a t : Inv (w_ns w) ->
  let w1 := fst (astep lower w a) in
  ~ In t (taxa (w_ns w1)) -> is_mut (w_ns w1) = true ->
  let w2 := fst (astep lower w1 (ABase (AddTaxon t))) in
  taxa (w_ns w2) = taxa (w_ns w1) ++ [t]
  /\ alookup t (acc (w_ns w2)) = Some (count (w_ns w1))
  /\ (forall u, In u (taxa (w_ns w1)) ->
        exists i, alookup u (acc (w_ns w1)) = Some i /\ alookup u (acc (w_ns w2)) = Some i
                  /\ 0 <= i < count (w_ns w1) /\ Z.shiftl 1 i <> Z.shiftl 1 (count (w_ns w1)))
  /\ Inv (w_ns w2).
Proof.
  intros I w1 NM M w2.
  pose proof (astep_inv_l w a I) as I1. fold w1 in I1.
  pose proof (astep_inv_l w1 (ABase (AddTaxon t)) I1) as I2. fold w2 in I2.
  assert (A : alookup t (acc (w_ns w1)) = None).
  { destruct (alookup t (acc (w_ns w1))) as [i|] eqn:E; [|reflexivity].
    exfalso. apply NM. apply (inv_dom _ I1). eauto. }
  assert (E2 : w_ns w2 = mkNs (taxa (w_ns w1) ++ [t]) (aset t (count (w_ns w1)) (acc (w_ns w1)))
                              (aset (count (w_ns w1)) t (rev (w_ns w1))) (count (w_ns w1) + 1)
                              (bm (w_ns w1)) (is_mut (w_ns w1)) (is_cs (w_ns w1))).
  { unfold w2. cbn [astep step]. unfold add_taxon. rewrite A, M. reflexivity. }
  rewrite E2. cbn [taxa acc]. split; [reflexivity|]. split; [apply alookup_aset_eq|].
  split; [|rewrite <- E2; exact I2].
  intros u Hu. apply (inv_dom _ I1) in Hu as Hi. destruct Hi as [i Hi]. exists i.
  pose proof (inv_range _ I1 _ _ Hi) as R. pose proof (inv_count _ I1) as C.
  split; [exact Hi|]. split.
  - rewrite alookup_aset_neq; [exact Hi|]. intros E. subst u. apply NM. exact Hu.
  - split; [exact R|]. intros E. apply shiftl1_inj in E; lia.
Qed.

End WithLower.

(* ---------- non-vacuity: the shape of the defect the clause excludes ---------- *)

(* members a(0) b(1); add_taxa over an iterable that yields x(2), a, y(3), x and then raises ValueError;
   then new_taxon: the new member gets index 4, not 2 *)
Example ax_abort_then_new :
  Inv (w_ns bx_w) /\
  let '(w1, o1) := astep (fun l => l) bx_w (AddTaxaAbort [2; 0; 3; 2] ValueErr) in
  let '(w2, o2) := astep (fun l => l) w1 (ABase (NewTaxon 7)) in
  o1 = OErr ValueErr /\ observe w1 = [(0, 0); (1, 1); (2, 2); (3, 3)] /\ count (w_ns w1) = 4
  /\ all_taxa_bitmask (w_ns w1) = 15
  /\ o2 = OTax (Some 4) /\ observe w2 = [(0, 0); (1, 1); (2, 2); (3, 3); (4, 4)].
Proof. split; [exact (proj1 bx_repeated_object)| vm_compute; repeat split; reflexivity]. Qed.

Example ax_abort_new_taxa :
  let '(w1, o1) := astep (fun l => l) bx_w (NewTaxaAbort [7; 7] KeyErr) in
  let '(w2, o2) := astep (fun l => l) w1 (ABase (RequireTaxon 9 None)) in
  o1 = OErr KeyErr /\ observe w1 = [(0, 0); (1, 1); (4, 2); (5, 3)]
  /\ o2 = OTax (Some 6) /\ observe w2 = [(0, 0); (1, 1); (4, 2); (5, 3); (6, 4)].
Proof. vm_compute. repeat split; reflexivity. Qed.

Example ax_abort_immutable :
  let w := mkW (mkNs [0; 1] [(1, 1); (0, 0)] [(1, 1); (0, 0)] 2 [] false false) (w_lab bx_w) 4 in
  astep (fun l => l) w (AddTaxaAbort [0; 2; 2] ValueErr) = (w, OErr TypeErr)
  /\ astep (fun l => l) w (AddTaxaAbort [0; 1] ValueErr) = (w, OErr ValueErr)
  /\ astep (fun l => l) w (NewTaxaAbort [5] ValueErr) = (w, OErr TypeErr).
Proof. vm_compute. repeat split; reflexivity. Qed.
