(* C03Gen: the generated Tree-level glue methods = Model/HeapOps.v.  reseed_at, suppress_unifurcations
   and encode_bipartitions are operations of the interface (instantiated with HeapOps.v's functions):
   what is tied to the source here is the order of the calls, the arguments passed on, the edge-length
   bookkeeping and the error branches. *)
From Coq Require Import ZArith List Bool Lia.
From DV Require Import Model.PyPrims Model.Tree Model.Heap Model.HeapOps Model.C15Prims Model.MutPrims Gen.Mutators
     Model.C03GenInst Proofs.C03Base Proofs.C03GenPrims Proofs.C03GenNode Proofs.C03GenHeq Proofs.C03GenRemove
     Proofs.C03GenEdge.
Import ListNotations.
Open Scope Z_scope.

Ltac hsimpx := cbn [mst mnode medge mg_eqb rd_parent wr_parent rd_kids wr_kids rd_edge rd_head rd_length
                    wr_length rd_seed wr_seed rd_rooted wr_rooted new_node x_reseed_at x_suppress_unifurcations
                    x_encode_bipartitions HG] in *.

(* ---------------------------------------------------------------- seed_node setter *)
Theorem gen_set_seed_node i h :
  (exists h', Tree__set_seed_node HG i h = MOk tt h' /\ heq h' (set_seed_node i h)) /\
  (match parent h i with Some q => memz i (kids h q) = true | None => True end ->
   Tree__set_seed_node HG i h = MOk tt (set_seed_node i h)).
Proof.
  unfold Tree__set_seed_node, set_seed_node, Node__get_parent_node. hsimpx. cbv zeta.
  change (seed (set_seed i h)) with i.
  split.
  - destruct (gen_set_parent_node i None (set_seed i h)) as [h' [E Hq]].
    exists h'. split; [|exact Hq]. hsimpx.
    destruct (parent (set_seed i h) i); rewrite E; reflexivity.
  - intro Hl.
    pose proof (gen_set_parent_node_exact i None (set_seed i h) Hl) as E. hsimpx.
    destruct (parent (set_seed i h) i); rewrite E; reflexivity.
Qed.

(* ---------------------------------------------------------------- collapse_basal_bifurcation / deroot *)
Lemma py_len_HeapOps {A} (l : list A) : py_len l = len l.
Proof. reflexivity. Qed.

Lemma gen_cbb_core (keep del : Z) (su : bool) (h : heap) :
  memz del (kids h del) = false ->
  to_hres
    (match elen h del with
     | Some L =>
       match elen h keep with
       | Some la =>
         match elen h keep, Some L with
         | Some dv_x, Some dv_y =>
           match Edge_collapse HG del false (set_elen keep (Some (dv_x + dv_y)) h) with
           | MOk _ s => if su then match Tree__set_is_rooted HG (Some false) s with
                                   | MOk _ s => MOk (Some (Tree__get_seed_node HG s)) s
                                   | MErr dv_e s => MErr dv_e s
                                   | MFuel => MFuel
                                   end
                        else MOk (Some (Tree__get_seed_node HG s)) s
           | MErr dv_e s => MErr dv_e s
           | MFuel => MFuel
           end
         | _, _ =>
           match Edge_collapse HG del false h with
           | MOk _ s => if su then match Tree__set_is_rooted HG (Some false) s with
                                   | MOk _ s => MOk (Some (Tree__get_seed_node HG s)) s
                                   | MErr dv_e s => MErr dv_e s
                                   | MFuel => MFuel
                                   end
                        else MOk (Some (Tree__get_seed_node HG s)) s
           | MErr dv_e s => MErr dv_e s
           | MFuel => MFuel
           end
         end
       | None =>
         match Edge_collapse HG del false (set_elen keep (Some L) h) with
         | MOk _ s => if su then match Tree__set_is_rooted HG (Some false) s with
                                 | MOk _ s => MOk (Some (Tree__get_seed_node HG s)) s
                                 | MErr dv_e s => MErr dv_e s
                                 | MFuel => MFuel
                                 end
                      else MOk (Some (Tree__get_seed_node HG s)) s
         | MErr dv_e s => MErr dv_e s
         | MFuel => MFuel
         end
       end
     | None =>
       match Edge_collapse HG del false h with
       | MOk _ s => if su then match Tree__set_is_rooted HG (Some false) s with
                               | MOk _ s => MOk (Some (Tree__get_seed_node HG s)) s
                               | MErr dv_e s => MErr dv_e s
                               | MFuel => MFuel
                               end
                    else MOk (Some (Tree__get_seed_node HG s)) s
       | MErr dv_e s => MErr dv_e s
       | MFuel => MFuel
       end
     end)
  = (hdo h2 <- edge_collapse del false (add_len_none keep (elen h del) h) ;;
     HOk (if su then set_rooted (Some false) h2 else h2)).
Proof.
  intro Hs. unfold add_len_none.
  assert (T : forall h0, memz del (kids h0 del) = false ->
     to_hres (match Edge_collapse HG del false h0 with
              | MOk _ s => if su then match Tree__set_is_rooted HG (Some false) s with
                                      | MOk _ s => MOk (Some (Tree__get_seed_node HG s)) s
                                      | MErr dv_e s => MErr dv_e s
                                      | MFuel => MFuel
                                      end
                           else MOk (Some (Tree__get_seed_node HG s)) s
              | MErr dv_e s => MErr dv_e s
              | MFuel => MFuel
              end)
     = (hdo h2 <- edge_collapse del false h0 ;; HOk (if su then set_rooted (Some false) h2 else h2))).
  { intros h0 H0. rewrite (gen_edge_collapse del false h0 H0).
    destruct (edge_collapse del false h0) as [h2|e h2|]; simpl; try reflexivity.
    destruct su; reflexivity. }
  destruct (elen h del) as [L|]; [|apply T; exact Hs].
  destruct (elen h keep) as [la|]; apply T; rewrite kids_set_elen; exact Hs.
Qed.

Theorem gen_collapse_basal_bifurcation su h :
  (forall c, In c (kids h (seed h)) -> memz c (kids h c) = false) ->
  to_hres (Tree_collapse_basal_bifurcation HG su h) = collapse_basal_bifurcation su h.
Proof.
  intro Hk. unfold Tree_collapse_basal_bifurcation, collapse_basal_bifurcation.
  unfold Node_child_nodes, Node__get_edge. hsimpx. cbv zeta.
  change (Tree__get_seed_node HG h) with (seed h).
  destruct (kids h (seed h)) as [|c0 [|c1 [|c2 r]]] eqn:Ek; try reflexivity.
  2:{ rewrite py_len_ge3. reflexivity. }
  change (Z.eqb (py_len [c0; c1]) 2) with true. simpl negb. cbv iota.
  change (py_index [c0; c1] 1) with (Some c1). change (py_index [c0; c1] 0) with (Some c0). cbv iota.
  rewrite !Z.geb_leb. unfold len, py_len.
  destruct (2 <=? Z.of_nat (length (kids h c1))).
  - apply gen_cbb_core. apply Hk. right; left; reflexivity.
  - destruct (2 <=? Z.of_nat (length (kids h c0))); [|reflexivity].
    apply gen_cbb_core. apply Hk. left; reflexivity.
Qed.

Theorem gen_deroot h :
  (forall c, In c (kids h (seed h)) -> memz c (kids h c) = false) ->
  to_hres (Tree_deroot HG h) = deroot h.
Proof.
  intro Hk. unfold Tree_deroot, deroot. rewrite <- (gen_collapse_basal_bifurcation true h Hk).
  destruct (Tree_collapse_basal_bifurcation HG true h); reflexivity.
Qed.

(* ---------------------------------------------------------------- to_outgroup_position *)
Lemma option_eqb_Z_refl (o : option Z) : option_eqb Z.eqb o o = true.
Proof. destruct o; simpl; [apply Z.eqb_refl|reflexivity]. Qed.

(* the CURRENT source (repair 1c81f78b): re-order first, re-seed last = HeapOps.to_outgroup_position_r *)
Theorem gen_to_outgroup_position og ub su h :
  to_hres (Tree_to_outgroup_position HG og ub su h) = to_outgroup_position_r og ub su h.
Proof.
  unfold Tree_to_outgroup_position, to_outgroup_position_r. hsimpx. cbv zeta.
  destruct (parent h og) as [p|]; [|reflexivity].
  rewrite gen_remove_plain_lift.
  destruct (remove_child_plain p og h) as [h1|e h1|]; simpl; try reflexivity.
  unfold Node__get_edge. hsimpx. cbv zeta.
  destruct (gen_insert_child_eq p 0 og h1) as [v E]. simpl Z.of_nat in E. rewrite E.
  rewrite elen_insert_child, option_eqb_Z_refl.
  unfold Tree__get_seed_node. hsimpx. cbv zeta.
  destruct (reseed_at p ub false su (insert_child p 0 og h1)) as [h2|e h2|]; reflexivity.
Qed.

(* ---------------------------------------------------------------- reroot_at_node / reroot_at_edge *)
Lemma gen_reroot_at_node_eq n ub su cb h :
  Tree_reroot_at_node HG n ub su cb h
  = match reroot_at_node n ub su cb h with
    | HOk h' => MOk (seed h') h' | HErr e h' => MErr e h' | HFuel => MFuel
    end.
Proof.
  unfold Tree_reroot_at_node, reroot_at_node, Tree__set_is_rooted, Tree__get_seed_node. hsimpx. cbv zeta.
  destruct (reseed_at n false false su h) as [h1|e h1|]; simpl; try reflexivity.
  destruct ub; [|reflexivity].
  destruct (encode_structural su cb (set_rooted (Some true) h1)); reflexivity.
Qed.

Theorem gen_reroot_at_node n ub su cb h :
  to_hres (Tree_reroot_at_node HG n ub su cb h) = reroot_at_node n ub su cb h.
Proof. rewrite gen_reroot_at_node_eq. destruct (reroot_at_node n ub su cb h); reflexivity. Qed.

Lemma gen_new_child_lift p x l e h :
  Node_new_child HG p (x, l, e) h = lift (next h) (new_child p x l e h).
Proof.
  unfold Node_new_child, new_child. hsimp. cbv zeta beta iota.
  rewrite gen_add_child_eq. destruct (add_child p (next h) (alloc x l e h)); reflexivity.
Qed.

Theorem gen_reroot_at_edge c l1 l2 ub su h :
  to_hres (Tree_reroot_at_edge HG c l1 l2 ub su h) = reroot_at_edge c l1 l2 ub su h.
Proof.
  unfold Tree_reroot_at_edge, reroot_at_edge.
  unfold Edge__get_tail_node, Edge__get_head_node, Node__get_edge, Tree__get_seed_node. hsimpx. cbv zeta.
  destruct (parent h c) as [ot|]; [|reflexivity].
  rewrite gen_new_child_lift.
  destruct (new_child ot None None l1 h) as [h1|e h1|]; simpl; try reflexivity.
  rewrite gen_remove_plain_lift.
  destruct (remove_child_plain ot c h1) as [h2|e h2|]; simpl; try reflexivity.
  rewrite gen_add_child_lift.
  destruct (add_child (next h) c h2) as [h3|e h3|]; simpl; try reflexivity.
  rewrite gen_reroot_at_node_eq.
  destruct (reroot_at_node (next h) ub su true (set_elen c l2 h3)); reflexivity.
Qed.

(* ---------------------------------------------------------------- prune_subtree *)
Theorem gen_prune_subtree node ub su h :
  to_hres (Tree_prune_subtree HG node ub su h) = prune_subtree node ub su h.
Proof.
  unfold Tree_prune_subtree, prune_subtree, ub_tail_su. hsimpx. cbv zeta.
  destruct (parent h node) as [p|]; [|reflexivity].
  rewrite gen_remove_plain_lift.
  destruct (remove_child_plain p node h) as [h1|e h1|]; simpl; try reflexivity.
  destruct su.
  - destruct (suppress_unifurcations h1) as [h2|e h2|]; simpl; try reflexivity.
    destruct ub; [|reflexivity]. destruct (encode_structural true true h2); reflexivity.
  - simpl. destruct ub; [|reflexivity]. destruct (encode_structural false true h1); reflexivity.
Qed.
