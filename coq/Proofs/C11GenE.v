(* C11: translated methods = model - part E: CharacterMatrix *)
From Coq Require Import String.
From Coq Require Import List Bool Arith ZArith Lia.
From DV Require Import Model.PyPrims Model.C11Model Model.C11Prims Gen.Containers Proofs.C11Base Proofs.C11GenA Proofs.C11GenB
  Proofs.C11GenD.
Import ListNotations.
Open Scope nat_scope.

Lemma upd_same : forall A (l : list A) i x, nth_error l i = Some x -> upd l i x = l.
Proof.
  intros A l. induction l as [|y r IH]; intros [|i] x H; simpl in *; try discriminate.
  - injection H as H. subst. reflexivity.
  - rewrite IH by exact H. reflexivity.
Qed.

Lemma remove_id_app : forall x a b, remove_id x (a ++ b) = remove_id x a ++ remove_id x b.
Proof. intros x a b. induction a as [|y r IH]; simpl; [reflexivity|]. destruct (Nat.eqb x y); [exact IH | rewrite IH; reflexivity]. Qed.

Lemma In_remove_id_intro : forall x l y, In y l -> y <> x -> In y (remove_id x l).
Proof.
  intros x l. induction l as [|z r IH]; intros y H Ne; simpl in *; [contradiction|].
  destruct (Nat.eqb x z) eqn:E.
  - apply Nat.eqb_eq in E. subst z. destruct H as [H|H]; [congruence | apply IH; assumption].
  - destruct H as [H|H]; [left; exact H | right; apply IH; assumption].
Qed.

Section WithLower.
Variable lower : lbl -> lbl.

(* re-keying one row, exactly as generated (three copies in the generated loop body) *)
Definition rekey (st : state) (m t x : oid) (memo : list (oid * oid)) : R (list (oid * oid)) :=
  if memb t (m_rows (getmat st m)) then (st, Err OtherErr)
  else
    match rows_copy_item (m_rows (getmat st m)) t x with
    | Ok rows1 =>
      let st1 := set_mat_rows st m rows1 in
      match rows_del (m_rows (getmat st1 m)) x with
      | Ok rows2 => let st2 := set_mat_rows st1 m rows2 in (st2, Ok memo)
      | Err e => (st1, Err e)
      | OutOfFuel => (st1, OutOfFuel)
      end
    | Err e => (st, Err e)
    | OutOfFuel => (st, OutOfFuel)
    end.

Definition cm_body (m : oid) (u : bool) :=
  fun (stb : state) (x : oid) (memo : list (oid * oid)) =>
    if orb u (negb (memb x (members stb (m_ns (getmat stb m))))) then
      match memo_get memo x with
      | None =>
        if u then bindR (ns_require_taxon lower stb (m_ns (getmat stb m)) (label stb x)) (fun s r => rekey s m r x (memo_set memo x r))
        else bindR (ns_new_taxon stb (m_ns (getmat stb m)) (label stb x)) (fun s r => rekey s m r x (memo_set memo x r))
      | Some t => rekey (ns_add_taxon stb (m_ns (getmat stb m)) t) m t x memo
      end
    else (stb, Ok memo).

(* the model threads the rows, the code writes them into the matrix: inj relates the two *)
Definition inj (st : state) (m n : oid) (rows : list oid) : state := set_mat st m (mkMat n rows).

Lemma inj_objs : forall st m n rows,
  inj st m n rows = with_objs st (s_trees st) (s_lists st) (upd (s_mats st) m (mkMat n rows)) (s_dss st).
Proof. reflexivity. Qed.

Lemma getmat_inj : forall st m n rows, m < length (s_mats st) -> getmat (inj st m n rows) m = mkMat n rows.
Proof.
  intros. unfold inj, getmat. simpl. apply nth_error_some_nth. destruct (nth_error (s_mats st) m) eqn:E.
  - eapply nth_error_upd_same. exact E.
  - apply nth_error_None in E. lia.
Qed.

Lemma set_rows_inj : forall st m n rows rows', m < length (s_mats st) ->
  set_mat_rows (inj st m n rows) m rows' = inj st m n rows'.
Proof.
  intros. unfold set_mat_rows. rewrite getmat_inj by assumption. cbn [m_ns]. unfold inj, set_mat. simpl. rewrite upd_upd. reflexivity.
Qed.

Lemma rekey_inj : forall st m n rows t x memo,
  m < length (s_mats st) -> In x rows -> t <> x \/ memb t rows = true ->
  rekey (inj st m n rows) m t x memo
  = if memb t rows then (inj st m n rows, Err OtherErr) else (inj st m n (remove_id x rows ++ [t]), Ok memo).
Proof.
  intros st m n rows t x memo V Hx Ht. unfold rekey. rewrite getmat_inj by exact V. cbn [m_rows].
  destruct (memb t rows) eqn:Mt; [reflexivity|].
  destruct Ht as [Ne|Ht]; [|discriminate].
  unfold rows_copy_item. assert (Mx : memb x rows = true) by (apply memb_In; exact Hx). rewrite Mx.
  unfold add_uniq. rewrite Mt. cbv zeta. rewrite set_rows_inj by exact V. rewrite getmat_inj by exact V. cbn [m_rows].
  unfold rows_del. assert (Mx2 : memb x (rows ++ [t]) = true) by (apply memb_In; apply in_or_app; left; exact Hx). rewrite Mx2.
  rewrite set_rows_inj by exact V. rewrite remove_id_app. simpl.
  assert (E : Nat.eqb x t = false) by (apply Nat.eqb_neq; intro Q; apply Ne; symmetry; exact Q). rewrite E. reflexivity.
Qed.

Lemma recon_rows_loop : forall m n u orig st rows memo,
  m < length (s_mats st) -> NoDup orig -> (forall x, In x orig -> In x rows) ->
  for_each orig (cm_body m u) (inj st m n rows) memo
  = let '(st1, rows', memo', ok) := recon_rows lower st n u orig rows memo in
    (inj st1 m n rows', if ok then Ok memo' else Err OtherErr).
Proof.
  intros m n u orig. induction orig as [|x r IH]; intros st rows memo V ND Sub; cbn [for_each recon_rows]; [reflexivity|].
  apply NoDup_cons_iff in ND. destruct ND as [Nin ND].
  assert (Hx : In x rows) by (apply Sub; left; reflexivity).
  unfold cm_body at 1. rewrite getmat_inj by exact V. cbn [m_ns].
  change (members (inj st m n rows) n) with (members st n). change (label (inj st m n rows) x) with (label st x).
  destruct (u || negb (memb x (members st n))) eqn:Cnd.
  - (* the three ways to get the new taxon all yield a state inj s1 rows and a taxon t *)
    assert (K : forall s1 t memo1, m < length (s_mats s1) ->
              bindR (rekey (inj s1 m n rows) m t x memo1) (fun st' c' => for_each r (cm_body m u) st' c')
              = if memb t rows then (inj s1 m n rows, Err OtherErr)
                else let '(st2, rows', memo', ok) := recon_rows lower s1 n u r (remove_id x rows ++ [t]) memo1 in
                     (inj st2 m n rows', if ok then Ok memo' else Err OtherErr)).
    { intros s1 t memo1 V1. destruct (Nat.eq_dec t x) as [Eq|Ne].
      - subst t. rewrite rekey_inj; [|exact V1 | exact Hx | right; apply memb_In; exact Hx].
        assert (Mx : memb x rows = true) by (apply memb_In; exact Hx). rewrite Mx. reflexivity.
      - rewrite rekey_inj; [|exact V1 | exact Hx | left; exact Ne].
        destruct (memb t rows); [reflexivity|]. cbn [bindR]. apply IH; [exact V1 | exact ND |].
        intros y Hy. apply in_or_app. left. apply In_remove_id_intro; [apply Sub; right; exact Hy|].
        intro Q. subst y. contradiction. }
    unfold memo_get. destruct (alookup x memo) as [t|].
    + unfold ns_add_taxon. rewrite inj_objs, add_member_objs. 
      change (with_objs (add_member st n t) (s_trees st) (s_lists st) (upd (s_mats st) m (mkMat n rows)) (s_dss st))
        with (inj (with_objs (add_member st n t) (s_trees st) (s_lists st) (s_mats st) (s_dss st)) m n rows).
      assert (A : with_objs (add_member st n t) (s_trees st) (s_lists st) (s_mats st) (s_dss st) = add_member st n t).
      { rewrite <- add_member_objs, with_objs_id. reflexivity. }
      rewrite A.
      assert (V1 : m < length (s_mats (add_member st n t))) by (rewrite <- A; exact V).
      rewrite (K (add_member st n t) t memo V1). destruct (memb t rows); reflexivity.
    + destruct u.
      * unfold ns_require_taxon. rewrite inj_objs. change (ns_cs (with_objs st (s_trees st) (s_lists st) (upd (s_mats st) m (mkMat n rows)) (s_dss st)) n) with (ns_cs st n).
        rewrite require_taxon_objs.
        pose proof (require_taxon_objs lower st (s_trees st) (s_lists st) (s_mats st) (s_dss st) n (label st x) (ns_cs st n)) as Q.
        rewrite with_objs_id in Q. destruct (require_taxon lower st n (label st x) (ns_cs st n)) as [s1 t]. cbn [fst snd] in *.
        injection Q as Q.
        assert (V1 : m < length (s_mats s1)) by (rewrite Q; exact V).
        change (with_objs s1 (s_trees st) (s_lists st) (upd (s_mats st) m (mkMat n rows)) (s_dss st))
          with (inj (with_objs s1 (s_trees st) (s_lists st) (s_mats st) (s_dss st)) m n rows).
        rewrite <- Q. cbn [bindR]. unfold memo_set.
        rewrite (K s1 t ((x, t) :: memo) V1). destruct (memb t rows); reflexivity.
      * unfold ns_new_taxon. rewrite inj_objs. rewrite new_taxon_objs.
        pose proof (new_taxon_objs st (s_trees st) (s_lists st) (s_mats st) (s_dss st) n (label st x)) as Q.
        rewrite with_objs_id in Q. destruct (new_taxon st n (label st x)) as [s1 t]. cbn [fst snd] in *.
        injection Q as Q.
        assert (V1 : m < length (s_mats s1)) by (rewrite Q; exact V).
        change (with_objs s1 (s_trees st) (s_lists st) (upd (s_mats st) m (mkMat n rows)) (s_dss st))
          with (inj (with_objs s1 (s_trees st) (s_lists st) (s_mats st) (s_dss st)) m n rows).
        rewrite <- Q. cbn [bindR]. unfold memo_set.
        rewrite (K s1 t ((x, t) :: memo) V1). destruct (memb t rows); reflexivity.
  - cbn [bindR]. apply IH; [exact V | exact ND |]. intros y Hy. apply Sub. right. exact Hy.
Qed.


Lemma inj_self : forall st m, m < length (s_mats st) -> inj st m (m_ns (getmat st m)) (m_rows (getmat st m)) = st.
Proof.
  intros st m V. unfold inj, set_mat.
  assert (E : upd (s_mats st) m (mkMat (m_ns (getmat st m)) (m_rows (getmat st m))) = s_mats st).
  { apply upd_same. destruct (getmat st m) as [a b] eqn:G. cbn [m_ns m_rows]. rewrite <- G. apply nth_nth_error. exact V. }
  rewrite E. destruct st. reflexivity.
Qed.

Theorem gen_CM_reconstruct : forall st m u om,
  m < length (s_mats st) -> NoDup (m_rows (getmat st m)) ->
  py_CharacterMatrix_reconstruct_taxon_namespace lower st m u om
  = let n := m_ns (getmat st m) in
    let rows := m_rows (getmat st m) in
    let '(st1, rows', memo', ok) := recon_rows lower st n u rows rows (kw_default om []) in
    (set_mat st1 m (mkMat n rows'), if ok then Ok memo' else Err OtherErr).
Proof.
  intros st m u om V ND. unfold py_CharacterMatrix_reconstruct_taxon_namespace.
  change (match om with Some x_ => x_ | None => [] end) with (kw_default om []).
  cbv zeta. fold rekey. fold (cm_body m u).
  rewrite <- (inj_self st m V) at 2.
  rewrite (recon_rows_loop m (m_ns (getmat st m)) u _ st _ _ V ND (fun x H => H)).
  destruct (recon_rows lower st (m_ns (getmat st m)) u (m_rows (getmat st m)) (m_rows (getmat st m)) (kw_default om [])) as [[[s1 r] mm] ok].
  destruct ok; reflexivity.
Qed.

Lemma recon_rows_objs : forall n u orig st T L M D rows memo,
  recon_rows lower (with_objs st T L M D) n u orig rows memo
  = let '(s1, r, m, ok) := recon_rows lower st n u orig rows memo in (with_objs s1 T L M D, r, m, ok).
Proof.
  intros n u orig. induction orig as [|x r IH]; intros st T L M D rows memo; cbn [recon_rows]; [reflexivity|].
  change (members (with_objs st T L M D) n) with (members st n).
  change (label (with_objs st T L M D) x) with (label st x).
  change (ns_cs (with_objs st T L M D) n) with (ns_cs st n).
  destruct (u || negb (memb x (members st n))).
  - destruct (alookup x memo) as [t|].
    + rewrite add_member_objs. destruct (memb t rows); [reflexivity|]. rewrite IH.
      destruct (recon_rows lower (add_member st n t) n u r (remove_id x rows ++ [t]) memo) as [[[a b] c] d]. reflexivity.
    + destruct u.
      * rewrite require_taxon_objs. destruct (require_taxon lower st n (label st x) (ns_cs st n)) as [s1 t]. cbn [fst snd].
        destruct (memb t rows); [reflexivity|]. rewrite IH.
        destruct (recon_rows lower s1 n true r (remove_id x rows ++ [t]) ((x, t) :: memo)) as [[[a b] c] d]. reflexivity.
      * rewrite new_taxon_objs. destruct (new_taxon st n (label st x)) as [s1 t]. cbn [fst snd].
        destruct (memb t rows); [reflexivity|]. rewrite IH.
        destruct (recon_rows lower s1 n false r (remove_id x rows ++ [t]) ((x, t) :: memo)) as [[[a b] c] d]. reflexivity.
  - rewrite IH. destruct (recon_rows lower st n u r rows memo) as [[[a b] c] d]. reflexivity.
Qed.

Theorem gen_CM_migrate : forall st m n u om,
  m < length (s_mats st) -> NoDup (m_rows (getmat st m)) ->
  py_CharacterMatrix_migrate_taxon_namespace lower st m (Some n) u om
  = let '(st1, memo', ok) := migrate_mat lower st m n u (kw_default om []) in
    (st1, if ok then Ok memo' else Err OtherErr).
Proof.
  intros st m n u om V ND. unfold py_CharacterMatrix_migrate_taxon_namespace. cbn [bindR]. rewrite bindR_ret.
  assert (G : getmat (set_mat_ns st m n) m = mkMat n (m_rows (getmat st m))) by (apply (getmat_inj st m n _ V)).
  rewrite gen_CM_reconstruct; [|unfold set_mat_ns; simpl; rewrite upd_length; exact V | rewrite G; exact ND].
  rewrite G. cbn [m_ns m_rows]. cbv zeta. unfold migrate_mat, set_mat_ns.
  change (set_mat st m (mkMat n (m_rows (getmat st m)))) with (inj st m n (m_rows (getmat st m))).
  rewrite inj_objs, recon_rows_objs.
  pose proof (recon_rows_objs n u (m_rows (getmat st m)) st (s_trees st) (s_lists st) (s_mats st) (s_dss st) (m_rows (getmat st m)) (kw_default om [])) as Q.
  rewrite with_objs_id in Q.
  destruct (recon_rows lower st n u (m_rows (getmat st m)) (m_rows (getmat st m)) (kw_default om [])) as [[[s1 r] mm] ok].
  injection Q as Q. f_equal. rewrite Q at 2. unfold set_mat, with_objs. simpl. rewrite upd_upd. reflexivity.
Qed.

Theorem step_MigrateMat_gen : forall st m n u,
  valid_mat st m && valid_ns st n = true -> NoDup (m_rows (getmat st m)) ->
  step lower st (MigrateMat m n u) = obs_unit (py_CharacterMatrix_migrate_taxon_namespace lower st m (Some n) u None).
Proof.
  intros st m n u V ND. cbn [step]. rewrite V. apply andb_true_iff in V. destruct V as [Vm _]. apply ltb_lt' in Vm.
  rewrite gen_CM_migrate by assumption. cbn [kw_default].
  destruct (migrate_mat lower st m n u []) as [[s1 mm] ok]. destruct ok; reflexivity.
Qed.

Theorem step_ReconstructMat_gen : forall st m u,
  valid_mat st m = true -> NoDup (m_rows (getmat st m)) ->
  step lower st (ReconstructMat m u) = obs_unit (py_CharacterMatrix_reconstruct_taxon_namespace lower st m u None).
Proof.
  intros st m u V ND. cbn [step]. rewrite V. apply ltb_lt' in V.
  rewrite gen_CM_reconstruct by assumption. cbn [kw_default]. cbv zeta. unfold migrate_mat.
  destruct (recon_rows lower st (m_ns (getmat st m)) u (m_rows (getmat st m)) (m_rows (getmat st m)) []) as [[[s1 r] mm] ok].
  destruct ok; reflexivity.
Qed.

Lemma for_each_update_mat : forall (rows : list oid) m n st,
  m_ns (getmat st m) = n ->
  for_each rows (fun stb (x : oid) (_ : unit) =>
                   if negb (memb x (members stb (m_ns (getmat stb m)))) then (ns_add_taxon stb (m_ns (getmat stb m)) x, Ok tt)
                   else (stb, Ok tt)) st tt
  = (add_members st n rows, Ok tt).
Proof.
  induction rows as [|x r IH]; intros m n st N; cbn [for_each]; [reflexivity|]. cbv beta. rewrite N.
  assert (A : add_members st n (x :: r) = add_members (add_member st n x) n r) by reflexivity. rewrite A.
  assert (N1 : m_ns (getmat (add_member st n x) m) = n).
  { assert (G : getmat (add_member st n x) m = getmat st m) by (unfold getmat, add_member; destruct (memb x (members st n)); reflexivity).
    rewrite G. exact N. }
  unfold ns_add_taxon. destruct (memb x (members st n)) eqn:Mx; cbn [negb bindR].
  - assert (E : add_member st n x = st) by (unfold add_member; rewrite Mx; reflexivity).
    rewrite E in *. apply IH. exact N.
  - apply IH. exact N1.
Qed.

Theorem step_UpdateMat_gen : forall st m,
  valid_mat st m = true -> step lower st (UpdateMat m) = obs_unit (py_CharacterMatrix_update_taxon_namespace st m).
Proof.
  intros st m V. cbn [step]. rewrite V. unfold py_CharacterMatrix_update_taxon_namespace.
  rewrite (for_each_update_mat _ m (m_ns (getmat st m)) st eq_refl). reflexivity.
Qed.

Theorem step_NewSeq_gen : forall st m x,
  valid_mat st m && valid_taxon st x = true ->
  step lower st (NewSeq m x) = obs_unit (py_CharacterMatrix_new_sequence st m x tt).
Proof.
  intros st m x V. cbn [step]. rewrite V. unfold py_CharacterMatrix_new_sequence.
  destruct (memb x (m_rows (getmat st m))) eqn:Mx; [reflexivity|].
  destruct (negb (memb x (members st (m_ns (getmat st m))))) eqn:E; [reflexivity|].
  unfold set_mat_rows, add_uniq. rewrite Mx. reflexivity.
Qed.

End WithLower.
