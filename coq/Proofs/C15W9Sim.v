(* C15 wave 9, part 1: the generated traversal machines of Gen/Traversals.v commute with
   morphisms of object graphs.

   A morphism phi : G -> H on a domain D of G-nodes (closed under children and parents) maps the
   child list, the parent pointer, the age and `is` of every D-node to those of its image.  Every
   generated machine run on H from phi x (x in D) yields the phi-image of what it yields on G from x,
   with the same exception / the same fuel exhaustion.  Nothing here mentions rose trees or stores. *)
From Coq Require Import ZArith List Bool Arith Lia.
From DV Require Import Model.PyPrims Model.Tree Model.C15Prims Gen.Traversals Model.C15Model Proofs.C15Base.
Import ListNotations.
Open Scope nat_scope.

Definition gmap {A B} (f : A -> B) (g : gres A) : gres B :=
  match g with
  | GDone o => GDone (map f o)
  | GRaise o e => GRaise (map f o) e
  | GFuel => GFuel
  end.

Definition smap {S S' O O'} (sg : S -> S') (om : O -> O') (r : sres S O) : sres S' O' :=
  match r with
  | SStop o => SStop (map om o)
  | SNext s o => SNext (sg s) (map om o)
  | SRaise o e => SRaise (map om o) e
  end.

Lemma gmap_gprepend {A B} (f : A -> B) o g : gmap f (gprepend o g) = gprepend (map f o) (gmap f g).
Proof. destruct g; simpl; rewrite ?map_app; reflexivity. Qed.

Lemma gmap_gcons {A B} (f : A -> B) x g : gmap f (gcons x g) = gcons (f x) (gmap f g).
Proof. unfold gcons. exact (gmap_gprepend f [x] g). Qed.

Lemma gmap_gseq {A B} (f : A -> B) a b : gmap f (gseq a b) = gseq (gmap f a) (gmap f b).
Proof. destruct a; simpl; [apply gmap_gprepend|reflexivity|reflexivity]. Qed.

Lemma gmap_id_flat {A} (g : gres A) : gflat_map (fun x => x :: []) g = g.
Proof. destruct g; simpl; rewrite ?flat_map_singleton; reflexivity. Qed.

Lemma gflat_map_gmap {A B C D} (f : A -> B) (bH : B -> list D) (bG : A -> list C) (h : C -> D) g :
  (forall x, bH (f x) = map h (bG x)) ->
  gflat_map bH (gmap f g) = gmap h (gflat_map bG g).
Proof.
  intro E.
  assert (L : forall o, flat_map bH (map f o) = map h (flat_map bG o)).
  { induction o as [|x r IH]; simpl; [reflexivity|]. rewrite map_app, IH, E. reflexivity. }
  destruct g; simpl; rewrite ?L; reflexivity.
Qed.

Lemma run_sim {S S' O O'} (sg : S -> S') (om : O -> O') (I : S -> Prop)
      (stepG : S -> sres S O) (stepH : S' -> sres S' O') :
  (forall st, I st -> stepH (sg st) = smap sg om (stepG st) /\
                      (forall st' o, stepG st = SNext st' o -> I st')) ->
  forall fuel st, I st -> run stepH fuel (sg st) = gmap om (run stepG fuel st).
Proof.
  intros HS. induction fuel as [|n IH]; intros st Hst; simpl; [reflexivity|].
  destruct (HS st Hst) as [E P]. rewrite E.
  destruct (stepG st) as [o|st' o|o e] eqn:Q; simpl; try reflexivity.
  rewrite gmap_gprepend. rewrite (IH st' (P st' o eq_refl)). reflexivity.
Qed.

Lemma py_pop_last_map {A B} (f : A -> B) l :
  py_pop_last (map f l) = match py_pop_last l with Some (x, r) => Some (f x, map f r) | None => None end.
Proof.
  unfold py_pop_last. rewrite <- map_rev. destruct (rev l) as [|x r]; simpl; [reflexivity|].
  rewrite map_rev. reflexivity.
Qed.

Lemma py_index_map {A B} (f : A -> B) l i : py_index (map f l) i = option_map f (py_index l i).
Proof.
  unfold py_index, py_len. rewrite map_length.
  destruct (Z.ltb i 0); [destruct (Z.ltb _ 0); [reflexivity|]|]; apply nth_error_map.
Qed.

Lemma py_len_map {A B} (f : A -> B) l : py_len (map f l) = py_len l.
Proof. unfold py_len. rewrite map_length. reflexivity. Qed.

Lemma py_insert_map {A B} (f : A -> B) (kH : B -> Z) (kG : A -> Z) rv x l :
  kH (f x) = kG x -> Forall (fun y => kH (f y) = kG y) l ->
  py_insert kH rv (f x) (map f l) = map f (py_insert kG rv x l).
Proof.
  intros Ex H. induction H as [|y r Ey Hr IH]; simpl; [reflexivity|].
  rewrite Ex, Ey. destruct (if rv then Z.leb (kG y) (kG x) else Z.leb (kG x) (kG y)); simpl; [reflexivity|].
  rewrite IH. reflexivity.
Qed.

Lemma py_insert_Forall {A} (P : A -> Prop) k rv x l : P x -> Forall P l -> Forall P (py_insert k rv x l).
Proof.
  intros Px H. induction H as [|y r Py Hr IH]; simpl; [constructor; [exact Px|constructor]|].
  destruct (if rv then _ else _); constructor; auto.
Qed.

Lemma py_sort_Forall {A} (P : A -> Prop) k rv l : Forall P l -> Forall P (py_sort_by k rv l).
Proof. induction 1; simpl; [constructor|]. apply py_insert_Forall; assumption. Qed.

Lemma py_sort_map {A B} (f : A -> B) (kH : B -> Z) (kG : A -> Z) rv l :
  Forall (fun y => kH (f y) = kG y) l ->
  py_sort_by kH rv (map f l) = map f (py_sort_by kG rv l).
Proof.
  induction 1 as [|x r Ex Hr IH]; simpl; [reflexivity|].
  rewrite IH. apply py_insert_map; [exact Ex|]. apply py_sort_Forall. exact Hr.
Qed.

Ltac ffin EF :=
  try (match type of EF with true = _ => rewrite <- EF | _ => rewrite EF end);
  repeat match goal with
         | |- context [py_is_some ?a] => destruct (py_is_some a)
         | |- context [py_is_empty ?a] => destruct (py_is_empty a)
         end;
  simpl; rewrite ?andb_true_r; reflexivity.


Definition gall {O} (P : O -> Prop) (g : gres O) : Prop :=
  match g with GDone o => Forall P o | GRaise o _ => Forall P o | GFuel => True end.

Lemma gall_gprepend {O} (P : O -> Prop) o g : Forall P o -> gall P g -> gall P (gprepend o g).
Proof. destruct g; simpl; intros; try apply Forall_app; auto. Qed.

Lemma run_inv {S O} (I : S -> Prop) (P : O -> Prop) (step : S -> sres S O) :
  (forall st, I st -> match step st with
                      | SStop o => Forall P o
                      | SNext st' o => Forall P o /\ I st'
                      | SRaise o _ => Forall P o
                      end) ->
  forall fuel st, I st -> gall P (run step fuel st).
Proof.
  intro HS. induction fuel as [|n IH]; intros st Hst; simpl; [constructor|].
  specialize (HS st Hst). destruct (step st) as [o|st' o|o e]; simpl; auto.
  destruct HS as [Ho Hs]. apply gall_gprepend; auto.
Qed.

Lemma gmap_ident {A} (g : gres A) : gmap (fun x => x) g = g.
Proof. destruct g; simpl; rewrite ?map_id; reflexivity. Qed.

Definition lift_cb {A B ev} (phi : A -> B) (cb : option (B -> ev)) : option (A -> ev) :=
  match cb with Some g => Some (fun x => g (phi x)) | None => None end.

Section Mor.
  Variables (G H : objgraph) (phi : gnode G -> gnode H) (D : gnode G -> Prop).
  Hypothesis Hkids : forall x, D x -> attr_child_nodes H (phi x) = map phi (attr_child_nodes G x).
  Hypothesis Hpar : forall x, D x -> attr_parent_node H (phi x) = option_map phi (attr_parent_node G x).
  Hypothesis Dkids : forall x, D x -> Forall D (attr_child_nodes G x).
  Hypothesis Dpar : forall x p, D x -> attr_parent_node G x = Some p -> D p.
  Hypothesis Hage : forall x, D x -> attr_age H (phi x) = attr_age G x.

  Definition frel (fH : option (gnode H -> bool)) (fG : option (gnode G -> bool)) : Prop :=
    forall x, D x -> pyf fH (phi x) = pyf fG x.

  Lemma Forall_snoc_inv {A} (P : A -> Prop) l x : Forall P (l ++ [x]) -> Forall P l /\ P x.
  Proof. intro F. apply Forall_app in F. destruct F as [F1 F2]. inversion F2; auto. Qed.

  Lemma Dkids_rev x : D x -> Forall D (rev (attr_child_nodes G x)).
  Proof. intro Dx. apply Forall_rev. apply Dkids. exact Dx. Qed.

  (* ---------------------------------------------------------------- pre-order *)
  Lemma pre_sim fH fG sH sG : frel fH fG -> forall fuel stack, Forall D stack ->
    run (Node_preorder_iter_step H fH sH) fuel (map phi stack)
    = gmap phi (run (Node_preorder_iter_step G fG sG) fuel stack).
  Proof.
    intros HF. apply (run_sim (map phi) phi (Forall D)).
    intros st Hst. destruct st as [|x l _] using rev_ind; [split; [reflexivity|discriminate]|].
    apply Forall_snoc_inv in Hst. destruct Hst as [Hl Hx].
    unfold Node_preorder_iter_step. rewrite map_app. simpl map.
    rewrite !py_is_empty_snoc, !py_pop_last_snoc. cbv beta iota zeta. simpl negb. cbv iota.
    pose proof (HF x Hx) as EF. unfold pyf in EF. rewrite EF. rewrite (Hkids x Hx).
    unfold py_extend, py_reversed. rewrite !map_id.
    destruct (match fG with None => true | Some g => g x end); simpl;
      (split; [rewrite map_app, map_rev; reflexivity|]);
      intros st' o Q; inversion Q; subst; apply Forall_app; split; auto using Dkids_rev.
  Qed.

  Theorem preorder_sim fH fG : frel fH fG -> forall fuel x, D x ->
    Node_preorder_iter H fuel fH (phi x) = gmap phi (Node_preorder_iter G fuel fG x).
  Proof.
    intros HF fuel x Dx. unfold Node_preorder_iter. cbv zeta.
    apply (pre_sim fH fG (phi x) x HF fuel [x]). constructor; [exact Dx|constructor].
  Qed.

  (* ---------------------------------------------------------------- post-order *)
  Definition phib (p : gnode G * bool) : gnode H * bool := (phi (fst p), snd p).

  Lemma post_sim fH fG sH sG : frel fH fG -> forall fuel stack, Forall (fun p => D (fst p)) stack ->
    run (Node_postorder_iter_step H fH sH) fuel (map phib stack)
    = gmap phi (run (Node_postorder_iter_step G fG sG) fuel stack).
  Proof.
    intros HF. apply (run_sim (map phib) phi (Forall (fun p => D (fst p)))).
    intros st Hst. destruct st as [|[x b] l _] using rev_ind; [split; [reflexivity|discriminate]|].
    apply Forall_snoc_inv in Hst. destruct Hst as [Hl Hx]. simpl in Hx.
    unfold Node_postorder_iter_step. rewrite map_app. simpl map. change (phib (x, b)) with (phi x, b).
    rewrite !py_is_empty_snoc, !py_pop_last_snoc. cbv beta iota zeta. simpl negb. cbv iota.
    pose proof (HF x Hx) as EF. unfold pyf in EF. rewrite EF. rewrite (Hkids x Hx).
    unfold py_extend, py_append, py_reversed.
    destruct b.
    - destruct (match fG with None => true | Some g => g x end); simpl;
        (split; [reflexivity|]); intros st' o Q; inversion Q; subst; exact Hl.
    - simpl. split.
      + rewrite !map_app, <- !map_rev, !map_map. reflexivity.
      + intros st' o Q; inversion Q; subst. apply Forall_app; split.
        * apply Forall_app; split; [exact Hl|]. constructor; [exact Hx|constructor].
        * apply Forall_forall. intros p Hp. apply in_map_iff in Hp. destruct Hp as [k [Ek Hk]]. subst p. simpl.
          pose proof (Dkids_rev x Hx) as F. rewrite Forall_forall in F. apply F. exact Hk.
  Qed.

  Theorem postorder_sim fH fG : frel fH fG -> forall fuel x, D x ->
    Node_postorder_iter H fuel fH (phi x) = gmap phi (Node_postorder_iter G fuel fG x).
  Proof.
    intros HF fuel x Dx. unfold Node_postorder_iter. cbv zeta.
    apply (post_sim fH fG (phi x) x HF fuel [(x, false)]). constructor; [exact Dx|constructor].
  Qed.

  (* ---------------------------------------------------------------- level order *)
  Lemma level_sim fH fG sH sG : frel fH fG -> forall fuel q, Forall D q ->
    run (Node_levelorder_iter_step H fH sH) fuel (map phi q)
    = gmap phi (run (Node_levelorder_iter_step G fG sG) fuel q).
  Proof.
    intros HF. apply (run_sim (map phi) phi (Forall D)).
    intros st Hst. destruct st as [|x l]; [split; [reflexivity|discriminate]|].
    inversion Hst as [|? ? Hx Hl]; subst.
    unfold Node_levelorder_iter_step. simpl map. rewrite !py_len_pos_cons. simpl py_pop_first. cbv beta iota zeta.
    pose proof (HF x Hx) as EF. unfold pyf in EF. rewrite EF.
    unfold Node_child_nodes, py_list. rewrite (Hkids x Hx). unfold py_extend.
    destruct (match fG with None => true | Some g => g x end); simpl;
      (split; [rewrite map_app; reflexivity|]);
      intros st' o Q; inversion Q; subst; apply Forall_app; split; auto.
  Qed.

  Theorem levelorder_sim fH fG : frel fH fG -> forall fuel x, D x ->
    Node_levelorder_iter H fuel fH (phi x) = gmap phi (Node_levelorder_iter G fuel fG x).
  Proof.
    intros HF fuel x Dx. unfold Node_levelorder_iter. cbv zeta.
    pose proof (HF x Dx) as EF. unfold pyf in EF. rewrite EF.
    unfold Node_child_nodes, py_list. rewrite (Hkids x Dx).
    destruct (match fG with None => true | Some g => g x end);
      rewrite ?gmap_gcons, (level_sim fH fG (phi x) x HF fuel _ (Dkids x Dx)); reflexivity.
  Qed.

  (* ---------------------------------------------------------------- in-order *)
  Theorem inorder_sim fH fG : frel fH fG -> forall fuel x, D x ->
    Node_inorder_iter H fuel fH (phi x) = gmap phi (Node_inorder_iter G fuel fG x).
  Proof.
    intros HF. induction fuel as [|n IH]; intros x Dx; [reflexivity|].
    cbn [Node_inorder_iter].
    pose proof (HF x Dx) as EF. unfold pyf in EF. rewrite EF. rewrite (Hkids x Dx).
    rewrite py_len_map, !py_index_map.
    destruct (Z.eqb (py_len (attr_child_nodes G x)) 0).
    { destruct (match fG with None => true | Some g => g x end); reflexivity. }
    destruct (Z.eqb (py_len (attr_child_nodes G x)) 2); [|reflexivity].
    pose proof (Dkids x Dx) as DK. rewrite Forall_forall in DK.
    assert (DI : forall i k, py_index (attr_child_nodes G x) i = Some k -> D k).
    { intros i k Ei. apply DK. unfold py_index in Ei.
      destruct (Z.ltb i 0); [destruct (Z.ltb _ 0); [discriminate|]|]; eapply nth_error_In; exact Ei. }
    destruct (py_index (attr_child_nodes G x) 0%Z) as [a|] eqn:Ea; simpl option_map; [|reflexivity].
    rewrite !gmap_id_flat. rewrite gmap_gseq. rewrite (IH a (DI _ _ Ea)). f_equal.
    destruct (py_index (attr_child_nodes G x) 1%Z) as [b|] eqn:Eb; simpl option_map.
    - rewrite !gmap_id_flat. rewrite (IH b (DI _ _ Eb)).
      destruct (match fG with None => true | Some g => g x end); rewrite ?gmap_gcons; reflexivity.
    - destruct (match fG with None => true | Some g => g x end); reflexivity.
  Qed.

  (* ---------------------------------------------------------------- ancestors *)
  Definition optD (o : option (gnode G)) : Prop := match o with Some x => D x | None => True end.

  Lemma anc_sim fH fG incl sH sG : frel fH fG -> forall fuel o, optD o ->
    run (Node_ancestor_iter_step H fH incl sH) fuel (option_map phi o)
    = gmap phi (run (Node_ancestor_iter_step G fG incl sG) fuel o).
  Proof.
    intros HF. apply (run_sim (option_map phi) phi optD).
    intros st Hst. destruct st as [x|]; [|split; [reflexivity|discriminate]].
    simpl in Hst. unfold Node_ancestor_iter_step. simpl option_map. cbv beta iota zeta.
    rewrite (Hpar x Hst).
    destruct (attr_parent_node G x) as [p|] eqn:Ep; simpl option_map.
    - cbv iota beta. pose proof (Dpar x p Hst Ep) as Dp.
      pose proof (HF p Dp) as EF. unfold pyf in EF. rewrite EF.
      destruct (match fG with None => true | Some g => g p end); simpl;
        (split; [reflexivity|]); intros st' o Q; inversion Q; subst; exact Dp.
    - simpl. split; [reflexivity|]. intros st' o Q; inversion Q; subst; exact I.
  Qed.

  Theorem ancestor_sim fH fG incl : frel fH fG -> forall fuel x, D x ->
    Node_ancestor_iter H fuel fH incl (phi x) = gmap phi (Node_ancestor_iter G fuel fG incl x).
  Proof.
    intros HF fuel x Dx. unfold Node_ancestor_iter. cbv zeta.
    pose proof (HF x Dx) as EF. unfold pyf in EF. rewrite EF.
    pose proof (anc_sim fH fG incl (phi x) x HF fuel (Some x) Dx) as R. simpl option_map in R.
    destruct (incl && match fG with None => true | Some g => g x end);
      rewrite ?gmap_gcons, R; reflexivity.
  Qed.

  (* ---------------------------------------------------------------- children *)
  Theorem child_node_sim fH fG : frel fH fG -> forall fuel x, D x ->
    Node_child_node_iter H fuel fH (phi x) = gmap phi (Node_child_node_iter G fuel fG x).
  Proof.
    intros HF fuel x Dx. unfold Node_child_node_iter. rewrite (Hkids x Dx). simpl gmap. f_equal.
    pose proof (Dkids x Dx) as DK. induction DK as [|k r Dk _ IH]; simpl; [reflexivity|].
    rewrite map_app, IH. pose proof (HF k Dk) as EF. unfold pyf in EF. rewrite EF.
    destruct (match fG with None => true | Some g => g k end); reflexivity.
  Qed.

  (* ---------------------------------------------------------------- wrappers built on the above *)
  Lemma empty_kids x : D x -> py_is_empty (attr_child_nodes H (phi x)) = py_is_empty (attr_child_nodes G x).
  Proof. intro Dx. rewrite (Hkids x Dx). apply py_is_empty_map. Qed.

  Lemma some_par x : D x -> py_is_some (attr_parent_node H (phi x)) = py_is_some (attr_parent_node G x).
  Proof. intro Dx. rewrite (Hpar x Dx). destruct (attr_parent_node G x); reflexivity. Qed.

  Theorem preorder_internal_sim fH fG excl : frel fH fG -> forall fuel x, D x ->
    Node_preorder_internal_node_iter H fuel fH excl (phi x)
    = gmap phi (Node_preorder_internal_node_iter G fuel fG excl x).
  Proof.
    intros HF fuel x Dx. unfold Node_preorder_internal_node_iter.
    destruct excl, fH as [fh|], fG as [fg|]; cbv zeta; apply preorder_sim; try exact Dx;
      intros y Dy; pose proof (HF y Dy) as EF; unfold pyf in *; cbv beta;
      rewrite ?(empty_kids y Dy), ?(some_par y Dy); ffin EF.
  Qed.

  Theorem postorder_internal_sim fH fG excl : frel fH fG -> forall fuel x, D x ->
    Node_postorder_internal_node_iter H fuel fH excl (phi x)
    = gmap phi (Node_postorder_internal_node_iter G fuel fG excl x).
  Proof.
    intros HF fuel x Dx. unfold Node_postorder_internal_node_iter.
    destruct excl, fH as [fh|], fG as [fg|]; cbv zeta; apply postorder_sim; try exact Dx;
      intros y Dy; pose proof (HF y Dy) as EF; unfold pyf in *; cbv beta;
      rewrite ?(empty_kids y Dy), ?(some_par y Dy); ffin EF.
  Qed.

  Theorem leaf_sim fH fG : frel fH fG -> forall fuel x, D x ->
    Node_leaf_iter H fuel fH (phi x) = gmap phi (Node_leaf_iter G fuel fG x).
  Proof.
    intros HF fuel x Dx. unfold Node_leaf_iter.
    destruct fH as [fh|], fG as [fg|]; cbv zeta; rewrite !gmap_id_flat; apply postorder_sim; try exact Dx;
      intros y Dy; pose proof (HF y Dy) as EF; unfold pyf, Node_is_leaf in *; cbv beta;
      rewrite ?(empty_kids y Dy); ffin EF.
  Qed.

  Theorem leaf_nodes_sim : forall fuel x, D x ->
    Node_leaf_nodes H fuel (phi x) = gmap phi (Node_leaf_nodes G fuel x).
  Proof.
    intros fuel x Dx. unfold Node_leaf_nodes.
    rewrite !gmap_id_flat.
    apply postorder_sim; [|exact Dx].
    intros y Dy. unfold pyf, Node_child_nodes, py_list. rewrite (Hkids y Dy), py_len_map. reflexivity.
  Qed.
  (* ---------------------------------------------------------------- age order *)
  Lemma pre_outD fG sG fuel stack : Forall D stack -> gall D (run (Node_preorder_iter_step G fG sG) fuel stack).
  Proof.
    revert fuel stack. apply (run_inv (Forall D) D).
    intros st Hst. destruct st as [|x l _] using rev_ind; [constructor|].
    apply Forall_snoc_inv in Hst. destruct Hst as [Hl Hx].
    unfold Node_preorder_iter_step. rewrite py_is_empty_snoc, py_pop_last_snoc. cbv beta iota zeta. simpl negb. cbv iota.
    unfold py_extend, py_reversed. rewrite map_id.
    destruct (match fG with None => true | Some g => g x end); simpl; split; auto;
      apply Forall_app; split; auto using Dkids_rev.
  Qed.

  Lemma cond_flat_map (cH : gnode H -> bool) (cG : gnode G -> bool) l :
    Forall (fun y => cH (phi y) = cG y) l ->
    flat_map (fun nd => if cH nd then nd :: [] else []) (map phi l)
    = map phi (flat_map (fun nd => if cG nd then nd :: [] else []) l).
  Proof.
    induction 1 as [|y r Ey _ IH]; simpl; [reflexivity|]. rewrite IH, Ey. destruct (cG y); reflexivity.
  Qed.

  Theorem ageorder_sim fH fG il d : frel fH fG -> forall fuel x, D x ->
    Node_ageorder_iter H fuel fH il d (phi x) = gmap phi (Node_ageorder_iter G fuel fG il d x).
  Proof.
    intros HF fuel x Dx. unfold Node_ageorder_iter.
    change (fun nd : gnode H => [nd]) with (fun nd : gnode H => nd :: []).
    change (fun nd : gnode G => [nd]) with (fun nd : gnode G => nd :: []).
    rewrite !gmap_id_flat.
    assert (HN : frel None None) by (intros y _; reflexivity).
    rewrite (preorder_sim None None HN fuel x Dx).
    assert (OD : gall D (Node_preorder_iter G fuel None x)).
    { unfold Node_preorder_iter. cbv zeta. apply pre_outD. constructor; [exact Dx|constructor]. }
    destruct (Node_preorder_iter G fuel None x) as [o|o e|]; simpl in *; try reflexivity.
    assert (AG : Forall (fun y => attr_age H (phi y) = attr_age G y) o).
    { eapply Forall_impl; [|exact OD]. exact Hage. }
    destruct d; cbv zeta; simpl gmap; f_equal;
      rewrite (py_sort_map phi (fun x => attr_age H x) (fun x => attr_age G x) _ o AG);
      apply (cond_flat_map
               (fun nd => (il || negb (py_is_empty (attr_child_nodes H nd))) && match fH with None => true | Some g => g nd end)
               (fun nd => (il || negb (py_is_empty (attr_child_nodes G nd))) && match fG with None => true | Some g => g nd end));
      (eapply Forall_impl; [|apply py_sort_Forall; exact OD]);
      intros y Dy; cbv beta; rewrite (empty_kids y Dy); pose proof (HF y Dy) as EF; unfold pyf in EF; rewrite EF; reflexivity.
  Qed.

  (* ---------------------------------------------------------------- list-returning methods, len *)
  Theorem list_methods_sim fH fG excl : frel fH fG -> forall fuel x, D x ->
    Tree_nodes H fuel fH (phi x) = gmap phi (Tree_nodes G fuel fG x) /\
    Tree_leaf_nodes H fuel (phi x) = gmap phi (Tree_leaf_nodes G fuel x) /\
    Tree_internal_nodes H fuel excl (phi x) = gmap phi (Tree_internal_nodes G fuel excl x).
  Proof.
    intros HF fuel x Dx.
    assert (HN : frel None None) by (intros y _; reflexivity).
    unfold Tree_nodes, Tree_leaf_nodes, Tree_internal_nodes, Tree_preorder_node_iter, Tree_leaf_node_iter,
      Tree_preorder_internal_node_iter.
    change (fun nd : gnode H => [nd]) with (fun nd : gnode H => nd :: []).
    change (fun nd : gnode G => [nd]) with (fun nd : gnode G => nd :: []).
    rewrite !gmap_id_flat.
    rewrite (preorder_sim fH fG HF fuel x Dx), (leaf_sim None None HN fuel x Dx),
      (preorder_internal_sim None None excl HN fuel x Dx).
    repeat split. destruct (Node_preorder_iter G fuel fG x); reflexivity.
  Qed.

  Lemma fold_count_map {A B} (f : A -> B) l c :
    fold_left (fun count _ => Z.add count 1) (map f l) c = fold_left (fun count _ => Z.add count 1) l c.
  Proof. revert c. induction l as [|a r IH]; intro c; simpl; [reflexivity|apply IH]. Qed.

  Theorem len_sim : forall fuel x, D x -> Tree_dunder_len H fuel (phi x) = Tree_dunder_len G fuel x.
  Proof.
    intros fuel x Dx. unfold Tree_dunder_len. cbv zeta.
    assert (HN : frel None None) by (intros y _; reflexivity).
    rewrite (leaf_sim None None HN fuel x Dx).
    destruct (Node_leaf_iter G fuel None x); simpl; try reflexivity.
    rewrite fold_count_map. reflexivity.
  Qed.

  (* ---------------------------------------------------------------- apply *)
  Hypothesis His : forall x y, D x -> D y -> obj_is H (phi x) (phi y) = obj_is G x y.

  Definition amap (st : Node_apply_state G) : Node_apply_state H :=
    match st with
    | Node_apply_S0 _ stack => Node_apply_S0 H (map phi stack)
    | Node_apply_S1 _ stack node => Node_apply_S1 H (map phi stack) (phi node)
    end.

  Definition aD (st : Node_apply_state G) : Prop :=
    match st with
    | Node_apply_S0 _ stack => Forall D stack
    | Node_apply_S1 _ stack node => Forall D stack /\ D node
    end.

  Lemma py_index_D x i k : D x -> py_index (attr_child_nodes G x) i = Some k -> D k.
  Proof.
    intros Dx Ei. pose proof (Dkids x Dx) as DK. rewrite Forall_forall in DK. apply DK. unfold py_index in Ei.
    destruct (Z.ltb i 0); [destruct (Z.ltb _ 0); [discriminate|]|]; eapply nth_error_In; exact Ei.
  Qed.

  Lemma apply_step_sim {ev : Type} (bH aH lH : option (gnode H -> ev)) (self : gnode G) : D self ->
    forall st, aD st ->
      Node_apply_step H bH aH lH (phi self) (amap st)
      = smap amap (fun e : ev => e) (Node_apply_step G (lift_cb phi bH) (lift_cb phi aH) (lift_cb phi lH) self st) /\
      (forall st' o, Node_apply_step G (lift_cb phi bH) (lift_cb phi aH) (lift_cb phi lH) self st = SNext st' o -> aD st').
  Proof.
    intros Dself st Hst. destruct st as [stack|stack node]; simpl in Hst.
    - destruct stack as [|x l _] using rev_ind; [split; [reflexivity|discriminate]|].
      apply Forall_snoc_inv in Hst. destruct Hst as [Hl Hx].
      unfold Node_apply_step, amap. rewrite map_app. simpl map.
      rewrite !py_is_empty_snoc, !py_pop_last_snoc. cbv beta iota zeta. simpl negb. cbv iota.
      rewrite (empty_kids x Hx). rewrite (Hkids x Hx). unfold py_extend, py_reversed. rewrite !map_id.
      destruct (py_is_empty (attr_child_nodes G x)); simpl negb; cbv iota.
      + destruct lH as [lh|]; simpl; (split; [reflexivity|]); intros st' o Q; inversion Q; subst; simpl; auto.
      + destruct bH as [bh|]; simpl; (split; [rewrite map_app, map_rev; reflexivity|]);
          intros st' o Q; inversion Q; subst; simpl; apply Forall_app; split; auto using Dkids_rev.
    - destruct Hst as [Hl Hn]. unfold Node_apply_step, amap. cbv zeta.
      rewrite (His node self Hn Dself).
      destruct (obj_is G node self); simpl negb; cbv iota;
        [split; [reflexivity|]; intros st' o Q; inversion Q; subst; simpl; auto|].
      rewrite (Hpar node Hn).
      destruct (attr_parent_node G node) as [p|] eqn:Ep; simpl option_map; cbv iota beta.
      + pose proof (Dpar node p Hn Ep) as Dp. rewrite (Hkids p Dp), py_index_map.
        destruct (py_index (attr_child_nodes G p) (-1)%Z) as [k|] eqn:Ek; simpl option_map; cbv iota beta;
          [|split; [reflexivity|discriminate]].
        pose proof (py_index_D p _ k Dp Ek) as Dk. rewrite (His k node Dk Hn).
        destruct (obj_is G k node); cbv iota.
        * destruct aH as [ah|]; simpl; (split; [reflexivity|]); intros st' o Q; inversion Q; subst; simpl; auto.
        * split; [reflexivity|]. intros st' o Q; inversion Q; subst; simpl; auto.
      + split; [reflexivity|]. intros st' o Q; inversion Q; subst; simpl; auto.
  Qed.

  Theorem apply_sim {ev : Type} (bH aH lH : option (gnode H -> ev)) : forall fuel x, D x ->
    Node_apply H fuel bH aH lH (phi x)
    = Node_apply G fuel (lift_cb phi bH) (lift_cb phi aH) (lift_cb phi lH) x.
  Proof.
    intros fuel x Dx. unfold Node_apply. cbv zeta.
    rewrite <- (gmap_ident (run (Node_apply_step G _ _ _ x) fuel _)).
    apply (run_sim amap (fun e : ev => e) aD _ _ (apply_step_sim bH aH lH x Dx) fuel (Node_apply_S0 G [x])).
    simpl. constructor; [exact Dx|constructor].
  Qed.
End Mor.
