(* C12, second wave: every component of the interpreter preserves ownership (Inv3) and leaves the
   annotation sets of earlier objects alone (FrameFrom).  Third pass over the fuel induction. *)
From Coq Require Import ZArith List Bool Lia.
From DV Require Import Model.PyPrims Model.C12Model Proofs.C12Heap Proofs.C12Inv Proofs.C12Copy Proofs.C12Iso Proofs.C12Own Proofs.C12AnnDef Model.C12Spec2.
Import ListNotations.
Open Scope Z_scope.

Section Own2.
Variable h0 : heap.
Variable seeds : list Z.
Notation n0 := (hlen h0).
Notation Inv := (Inv h0 seeds).
Notation Inv2 := (Inv2 h0).
Notation Inv3 := (Inv3 h0).
Notation FrameFrom := (FrameFrom h0).
Notation Loop2 := (Loop2 h0 seeds).
Notation vsrc := (vsrc h0).
Notation vsrc2 := (vsrc2 h0).
Notation U := (U h0).
Notation RecSpecB := (RecSpecB h0 seeds).

Definition Full : Z -> Prop := fun _ => False.
Notation AnnOK := (AnnOK h0).
Notation AnnAcc := (AnnAcc h0).

(* EX s0 : the annotation sets that annotable copies (other than those in EX) had at s0 are untouched
   OP sb : every recorded annotable copy allocated since sb (other than the open ones, OP) has its complete
           annotation set *)
Record St3 (EX : Z -> Prop) (s0 : st) (OP : Z -> Prop) (sb s : st) : Prop := mkSt3 {
  t_inv : Inv s; t_inv2 : Inv2 s; t_inv3 : Inv3 s; t_fr : FrameFrom EX s0 s; t_len : hlen (sh s0) <= hlen (sh s);
  t_acc : AnnAcc OP sb s }.

Definition RecSpec3 (rec : rec_t) (f : nat) : Prop :=
  RecSpecB rec f /\
  forall s v, Inv s -> Inv2 s -> Inv3 s -> vsrc2 v -> (U s < f)%nat ->
    forall s' v', rec s v = Ok (s', v') -> Inv3 s' /\ FrameFrom Full s s' /\ AnnAcc Full s s'.

Lemma st3_rec : forall EX OP sb rec f s0 s v s1 v', RecSpec3 rec f -> Inv s0 -> St3 EX s0 OP sb s -> vsrc2 v -> (U s < f)%nat ->
  rec s v = Ok (s1, v') ->
  St3 EX s0 OP sb s1 /\ Loop2 s s1 /\ res_ok h0 seeds (hlen (sh s1)) v v' /\ vrel n0 (sc s1) v v'.
Proof.
  intros EX OP sb rec f s0 s v s1 v' [RB R3] IV0 [IV J J3 F L A] V Uf E.
  destruct (loop2_rec h0 seeds rec f s v s1 v' RB IV J V Uf E) as [L1 [R1 V1]].
  destruct (R3 s v IV J J3 V Uf s1 v' E) as [J31 [F1 A1]].
  split; [|auto]. constructor; [exact (l_inv h0 seeds _ _ L1) | exact (l_inv2 h0 seeds _ _ L1) | exact J31 | | |].
  - eapply frame_trans; [exact F|]. eapply frame_weaken; [|exact F1]. intros y0 [].
  - destruct (l_ext h0 seeds _ _ L1). lia.
  - eapply (annacc_step h0 OP Full sb s s1 J A F1); [intros y0 [] | exact (proj1 (l_ext2 h0 seeds _ _ L1)) |].
    intros x y I. destruct ((proj1 (proj2 (l_ext2 h0 seeds _ _ L1))) x y I) as [Io|Hge]; [left; exact Io|].
    right. intros _ _. apply (A1 x y I Hge). intros [].
Qed.

(* a write into a recorded copy y, not replacing the `_annotations` of an annotable one *)
Lemma st3_put_own : forall EX OP sb s0 s s' y k v kd, Inv s0 -> St3 EX s0 OP sb s -> Loop2 s s' -> s' = put s y k v ->
  in_range (sc s) y -> kind_at (sh s) y = Some kd -> (is_annk kd = true -> k <> NM_ANN) -> kd <> KAnnSet ->
  St3 EX s0 OP sb s'.
Proof.
  intros EX OP sb s0 s s' y k v kd IV0 [IV J J3 F L A] L2 E Hy K NA NS. subst s'.
  assert (COND : hlen (sh s) <= y \/
          (in_range (sc s) y /\ (k <> NM_ANN \/ forall kd0, kind_at (sh s) y = Some kd0 -> is_annk kd0 = false))).
  { right. split; [exact Hy|]. destruct (is_annk kd) eqn:AK; [left; apply NA; reflexivity|]. right. intros kd' K'. congruence. }
  constructor; [exact (l_inv h0 seeds _ _ L2) | exact (l_inv2 h0 seeds _ _ L2) | | | |].
  - apply inv3_put; [exact J3|]. eapply own_side_kind; eassumption.
  - apply (frame_put h0 seeds EX s0 s y k v IV0 J F).
    destruct COND as [C|C]; [|right; exact C]. destruct Hy as [a Ia]. destruct (j_scr _ _ J a y Ia). lia.
  - rewrite put_hlen. exact L.
  - eapply (annacc_step h0 OP Full sb s (put s y k v) J A); [| intros y0 [] | rewrite put_sc; auto | rewrite put_sc; auto].
    apply (frame_put h0 seeds Full s s y k v IV J (frame_refl h0 Full s)).
    destruct COND as [C|C]; [|right; exact C]. destruct Hy as [a Ia]. destruct (j_scr _ _ J a y Ia). lia.
Qed.

Lemma st3_same_heap : forall EX OP sb s0 s s', St3 EX s0 OP sb s -> Loop2 s s' -> sh s' = sh s -> sc s' = sc s ->
  St3 EX s0 OP sb s'.
Proof.
  intros EX OP sb s0 s s' [IV J J3 F L A] L2 E ES.
  constructor; [exact (l_inv h0 seeds _ _ L2) | exact (l_inv2 h0 seeds _ _ L2) | | | |].
  - eapply inv3_same_heap; eassumption.
  - eapply frame_same_heap; eassumption.
  - rewrite E. exact L.
  - eapply (annacc_step h0 OP Full sb s s' J A); [| intros y0 [] | rewrite ES; auto | rewrite ES; auto].
    eapply frame_same_heap; [exact E | apply frame_refl].
Qed.

Lemma memo_val_sc : forall s v v', sc (memo_val s v v') = sc s.
Proof. intros s [p|?] [?|?]; simpl; try reflexivity; destruct p; reflexivity. Qed.

Lemma memo_val_sh : forall s v v', sh (memo_val s v v') = sh s.
Proof. intros s [p|?] [?|?]; simpl; try reflexivity; destruct p; reflexivity. Qed.

(* ---- loops ---------------------------------------------------------------------------------------- *)

Lemma copy_append3 : forall xs EX OP sb rec f s0 s y i kd x ob,
  RecSpec3 rec f -> Inv s0 -> St3 EX s0 OP sb s -> (U s < f)%nat -> n0 <= y ->
  kind_at (sh s) y = Some kd -> free_kind kd ->
  Forall vsrc2 xs -> In (x, y) (sc s) -> hget h0 x = Some ob ->
  (forall j a, nth_error xs j = Some a -> In (pidx (i + Z.of_nat j), a) (obody ob)) ->
  forall s', copy_append rec s y i xs = Ok s' -> St3 EX s0 OP sb s'.
Proof.
  induction xs as [|a r IH]; intros EX OP sb rec f s0 s y i kd x ob R3 IV0 T Uf Hy K FK Fx Ixy G HS s' H.
  - simpl in H. inversion H; subst. exact T.
  - inversion Fx as [|? ? Va Vr]; subst.
    assert (ONE := copy_append2 h0 seeds [a] rec f s y i kd x ob (proj1 R3) (t_inv _ _ _ _ _ T) (t_inv2 _ _ _ _ _ T) Uf Hy K FK
                     (Forall_cons _ Va (Forall_nil _)) Ixy G).
    simpl in H. destruct (rec s a) as [[s1 a']| |] eqn:E; simpl in H; try discriminate.
    destruct (st3_rec EX OP sb rec f s0 s a s1 a' R3 IV0 T Va Uf E) as [T1 [L1 _]].
    set (s2 := put s1 y (pidx i) a') in *.
    destruct (ONE ltac:(intros j a0 N; destruct j as [|j]; [simpl in N; inversion N; subst a0; apply (HS O a eq_refl)
                                                         | destruct j; discriminate]) s2) as [L2 _].
    { rewrite copy_append_one, E. reflexivity. }
    assert (K1 : kind_at (sh s1) y = Some kd) by (eapply kind_ext; [exact (l_ext h0 seeds _ _ L1) | exact K]).
    assert (L12 : Loop2 s1 s2).
    { destruct FK as [F1 F2].
      apply (loop2_step h0 seeds); [exact (l_inv h0 seeds _ _ L2) | exact (l_inv2 h0 seeds _ _ L2) | apply ext_put | apply ext2_put
                                   | apply put_sc | exact (t_inv2 _ _ _ _ _ T1)]. }
    assert (Ixy1 : In (x, y) (sc s1)) by (apply (proj1 (l_ext2 h0 seeds _ _ L1)); exact Ixy).
    assert (T2 : St3 EX s0 OP sb s2).
    { destruct FK as [F1 F2]. eapply st3_put_own with (s := s1) (kd := kd); try eassumption; [reflexivity | exists x; exact Ixy1|].
      rewrite F1. discriminate. }
    eapply IH with (s := s2) (i := i + 1) (kd := kd) (x := x) (ob := ob); try eassumption.
    + eapply U_lt_ext; [exact (l_ext h0 seeds _ _ L2) | exact Uf].
    + unfold s2. rewrite put_kind. exact K1.
    + unfold s2. rewrite put_sc. apply (proj1 (l_ext2 h0 seeds _ _ L1)). exact Ixy.
    + intros j a0 N. specialize (HS (S j) a0 N). replace (i + 1 + Z.of_nat j) with (i + Z.of_nat (S j)) by lia. exact HS.
Qed.


Lemma copy_entries3 : forall es EX OP sb rec f ck s0 s y kd x ob,
  RecSpec3 rec f -> Inv s0 -> St3 EX s0 OP sb s -> (U s < f)%nat -> n0 <= y ->
  kind_at (sh s) y = Some kd -> free_kind kd ->
  Forall (fun e => vsrc2 (fst e) /\ vsrc2 (snd e)) es -> In (x, y) (sc s) -> hget h0 x = Some ob ->
  (forall e, In e es -> In e (obody ob)) ->
  forall s', copy_entries rec ck s y es = Ok s' -> St3 EX s0 OP sb s'.
Proof.
  induction es as [|[k v] r IH]; intros EX OP sb rec f ck s0 s y kd x ob R3 IV0 T Uf Hy K FK Fx Ixy G HS s' H.
  - simpl in H. inversion H; subst. exact T.
  - inversion Fx as [|? ? [Vk Vv] Vr]; subst. simpl in Vk, Vv.
    assert (HS1 : forall e, In e [(k, v)] -> In e (obody ob)).
    { intros e [E|[]]. subst e. apply HS. left. reflexivity. }
    assert (FE : Forall (fun e : val * val => vsrc2 (fst e) /\ vsrc2 (snd e)) [(k, v)]).
    { constructor; [split; assumption | constructor]. }
    assert (ONE := copy_entries2 h0 seeds [(k, v)] rec f ck s y kd x ob (proj1 R3) (t_inv _ _ _ _ _ T) (t_inv2 _ _ _ _ _ T) Uf Hy K FK
                     FE Ixy G HS1).
    change (copy_entries rec ck s y ((k, v) :: r)) with
      (do (s1, k') <- (if ck then rec s k else match k with P _ => Ok (s, k) | R _ => Err AttrErr end) ;;
       do (s2, v') <- rec s1 v ;; copy_entries rec ck (put s2 y k' v') y r) in H.
    assert (KEY : exists s1 k', (if ck then rec s k else match k with P _ => Ok (s, k) | R _ => Err AttrErr end) = Ok (s1, k')
                  /\ St3 EX s0 OP sb s1 /\ Loop2 s s1).
    { destruct ck.
      - destruct (rec s k) as [[s1 k']| |] eqn:E; simpl in H; try discriminate.
        destruct (st3_rec EX OP sb rec f s0 s k s1 k' R3 IV0 T Vk Uf E) as [T1 [L1 _]]. eauto.
      - destruct k as [p|o]; simpl in H; [|discriminate]. exists s, (P p). split; [reflexivity|].
        split; [exact T | apply loop2_refl; [exact (t_inv _ _ _ _ _ T) | exact (t_inv2 _ _ _ _ _ T)]]. }
    destruct KEY as [s1 [k' [EK [T1 L1]]]]. rewrite EK in H. simpl in H.
    destruct (rec s1 v) as [[s2 v']| |] eqn:E2; simpl in H; try discriminate.
    destruct (st3_rec EX OP sb rec f s0 s1 v s2 v' R3 IV0 T1 Vv (U_lt_ext h0 _ _ _ (l_ext h0 seeds _ _ L1) Uf) E2) as [T2 [L2 _]].
    set (s3 := put s2 y k' v') in *.
    destruct (ONE s3) as [L3 _].
    { rewrite copy_entries_one, EK. simpl. rewrite E2. reflexivity. }
    assert (L02 : Loop2 s s2) by exact (loop2_trans h0 seeds _ _ _ L1 L2).
    assert (K2 : kind_at (sh s2) y = Some kd) by (eapply kind_ext; [exact (l_ext h0 seeds _ _ L02) | exact K]).
    assert (L23 : Loop2 s2 s3).
    { apply (loop2_step h0 seeds); [exact (l_inv h0 seeds _ _ L3) | exact (l_inv2 h0 seeds _ _ L3) | apply ext_put | apply ext2_put
                                   | apply put_sc | exact (t_inv2 _ _ _ _ _ T2)]. }
    assert (Ixy2 : In (x, y) (sc s2)) by (apply (proj1 (l_ext2 h0 seeds _ _ L02)); exact Ixy).
    assert (T3 : St3 EX s0 OP sb s3).
    { destruct FK as [F1 F2]. eapply st3_put_own with (s := s2) (kd := kd); try eassumption; [reflexivity | exists x; exact Ixy2|].
      rewrite F1. discriminate. }
    eapply IH with (s := s3) (kd := kd) (x := x) (ob := ob); try eassumption.
    + eapply U_lt_ext; [exact (l_ext h0 seeds _ _ L3) | exact Uf].
    + unfold s3. rewrite put_kind. exact K2.
    + unfold s3. rewrite put_sc. apply (proj1 (l_ext2 h0 seeds _ _ L02)). exact Ixy.
    + intros e Ie. apply HS. right. exact Ie.
Qed.


Lemma plain_fields3 : forall es EX OP sb rec f skip s0 s y kd x ob,
  RecSpec3 rec f -> Inv s0 -> St3 EX s0 OP sb s -> (U s < f)%nat -> n0 <= y ->
  kind_at (sh s) y = Some kd -> kd <> KAnnSet -> (is_annk kd = true -> In NM_ANN skip) ->
  Forall (fun e => (exists p, fst e = P p) /\ vsrc (snd e)) es ->
  (forall k v, In (k, v) es -> existsb (val_eqb k) skip = false -> vsrc2 v) ->
  In (x, y) (sc s) -> hget h0 x = Some ob -> (forall e, In e es -> In e (obody ob)) ->
  forall s', plain_fields rec skip s y es = Ok s' -> St3 EX s0 OP sb s'.
Proof.
  induction es as [|[k v] r IH]; intros EX OP sb rec f skip s0 s y kd x ob R3 IV0 T Uf Hy K NA SK Fx V2 Ixy G HS s' H.
  - simpl in H. inversion H; subst. exact T.
  - inversion Fx as [|? ? [[p Vk] Vv] Vr]; subst. simpl in Vk, Vv. subst k.
    assert (HS1 : forall e, In e [(P p, v)] -> In e (obody ob)).
    { intros e [E|[]]. subst e. apply HS. left. reflexivity. }
    assert (FE : Forall (fun e : val * val => (exists p, fst e = P p) /\ vsrc (snd e)) [(P p, v)]).
    { constructor; [split; [eexists; reflexivity | exact Vv] | constructor]. }
    assert (V21 : forall k0 v0, In (k0, v0) [(P p, v)] -> existsb (val_eqb k0) skip = false -> vsrc2 v0).
    { intros k0 v0 [E|[]] NS. inversion E; subst. apply (V2 (P p) v0); [left; reflexivity | exact NS]. }
    assert (ONE := plain_fields2 h0 seeds [(P p, v)] rec f skip s y kd x ob (proj1 R3) (t_inv _ _ _ _ _ T) (t_inv2 _ _ _ _ _ T) Uf Hy K NA SK
                     FE V21 Ixy G HS1).
    change (plain_fields rec skip s y ((P p, v) :: r)) with
      (if existsb (val_eqb (P p)) skip then plain_fields rec skip s y r
       else do (s1, v') <- rec s v ;; plain_fields rec skip (put s1 y (P p) v') y r) in H.
    assert (REST : forall k0 v0, In (k0, v0) r -> existsb (val_eqb k0) skip = false -> vsrc2 v0).
    { intros k0 v0 I0. apply V2. right. exact I0. }
    assert (HSR : forall e, In e r -> In e (obody ob)) by (intros e Ie; apply HS; right; exact Ie).
    destruct (existsb (val_eqb (P p)) skip) eqn:EXS.
    + eapply IH with (kd := kd) (x := x) (ob := ob); eassumption.
    + assert (Vv2 : vsrc2 v) by (apply (V2 (P p) v); [left; reflexivity | exact EXS]).
      destruct (rec s v) as [[s1 v']| |] eqn:E; simpl in H; try discriminate.
      destruct (st3_rec EX OP sb rec f s0 s v s1 v' R3 IV0 T Vv2 Uf E) as [T1 [L1 _]].
      set (s2 := put s1 y (P p) v') in *.
      destruct (ONE s2) as [L2 _].
      { rewrite plain_fields_one, EXS, E. reflexivity. }
      assert (K1 : kind_at (sh s1) y = Some kd) by (eapply kind_ext; [exact (l_ext h0 seeds _ _ L1) | exact K]).
      assert (L12 : Loop2 s1 s2).
      { apply (loop2_step h0 seeds); [exact (l_inv h0 seeds _ _ L2) | exact (l_inv2 h0 seeds _ _ L2) | apply ext_put | apply ext2_put
                                     | apply put_sc | exact (t_inv2 _ _ _ _ _ T1)]. }
      assert (Ixy1 : In (x, y) (sc s1)) by (apply (proj1 (l_ext2 h0 seeds _ _ L1)); exact Ixy).
      assert (T2 : St3 EX s0 OP sb s2).
      { eapply st3_put_own with (s := s1) (kd := kd); try eassumption; [reflexivity | exists x; exact Ixy1|].
        intros AK C. apply SK in AK. rewrite <- C in AK.
        assert (X : existsb (val_eqb (P p)) skip = true).
        { apply existsb_exists. exists (P p). split; [assumption | apply val_eqb_refl]. }
        congruence. }
      eapply IH with (s := s2) (kd := kd) (x := x) (ob := ob); try eassumption.
      * eapply U_lt_ext; [exact (l_ext h0 seeds _ _ L2) | exact Uf].
      * unfold s2. rewrite put_kind. exact K1.
      * unfold s2. rewrite put_sc. apply (proj1 (l_ext2 h0 seeds _ _ L1)). exact Ixy.
Qed.

Lemma annotable_fields3 : forall es EX OP sb rec f s0 s y kd x ob,
  RecSpec3 rec f -> Inv s0 -> St3 EX s0 OP sb s -> (U s < f)%nat -> n0 <= y ->
  kind_at (sh s) y = Some kd -> kd <> KAnnSet ->
  Forall (fun e => (exists p, fst e = P p) /\ vsrc (snd e)) es ->
  (forall k v, In (k, v) es -> k <> NM_ANN -> vsrc2 v) ->
  In (x, y) (sc s) -> hget h0 x = Some ob -> (forall e, In e es -> In e (obody ob)) ->
  forall s', annotable_fields rec s y es = Ok s' -> St3 EX s0 OP sb s'.
Proof.
  induction es as [|[k v] r IH]; intros EX OP sb rec f s0 s y kd x ob R3 IV0 T Uf Hy K NA Fx V2 Ixy G HS s' H.
  - simpl in H. inversion H; subst. exact T.
  - inversion Fx as [|? ? [[p Vk] Vv] Vr]; subst. simpl in Vk, Vv. subst k.
    assert (HS1 : forall e, In e [(P p, v)] -> In e (obody ob)).
    { intros e [E|[]]. subst e. apply HS. left. reflexivity. }
    assert (FE : Forall (fun e : val * val => (exists p, fst e = P p) /\ vsrc (snd e)) [(P p, v)]).
    { constructor; [split; [eexists; reflexivity | exact Vv] | constructor]. }
    assert (V21 : forall k0 v0, In (k0, v0) [(P p, v)] -> k0 <> NM_ANN -> vsrc2 v0).
    { intros k0 v0 [E|[]] NS. inversion E; subst. apply (V2 (P p) v0); [left; reflexivity | exact NS]. }
    assert (ONE := annotable_fields2 h0 seeds [(P p, v)] rec f s y kd x ob (proj1 R3) (t_inv _ _ _ _ _ T) (t_inv2 _ _ _ _ _ T) Uf Hy K NA
                     FE V21 Ixy G HS1).
    change (annotable_fields rec s y ((P p, v) :: r)) with
      (if val_eqb (P p) NM_ANN then annotable_fields rec s y r
       else match bget (body_of s y) (P p) with
            | Some _ => annotable_fields rec s y r
            | None => do (s1, v') <- rec s v ;; annotable_fields rec (memo_val (put s1 y (P p) v') v v') y r
            end) in H.
    assert (REST : forall k0 v0, In (k0, v0) r -> k0 <> NM_ANN -> vsrc2 v0).
    { intros k0 v0 I0. apply V2. right. exact I0. }
    assert (HSR : forall e, In e r -> In e (obody ob)) by (intros e Ie; apply HS; right; exact Ie).
    destruct (val_eqb (P p) NM_ANN) eqn:EA.
    { eapply IH with (kd := kd) (x := x) (ob := ob); eassumption. }
    destruct (bget (body_of s y) (P p)) as [v0|] eqn:BG.
    { eapply IH with (kd := kd) (x := x) (ob := ob); eassumption. }
    apply val_eqb_neq in EA.
    assert (Vv2 : vsrc2 v) by (apply (V2 (P p) v); [left; reflexivity | exact EA]).
    destruct (rec s v) as [[s1 v']| |] eqn:E; simpl in H; try discriminate.
    destruct (st3_rec EX OP sb rec f s0 s v s1 v' R3 IV0 T Vv2 Uf E) as [T1 [L1 [R1 V1]]].
    set (s2 := put s1 y (P p) v') in *.
    set (s3 := memo_val s2 v v') in *.
    destruct (ONE s3) as [L3 _].
    { rewrite annotable_fields_one. destruct (val_eqb (P p) NM_ANN) eqn:EA'; [apply val_eqb_eq in EA'; contradiction|].
      rewrite BG, E. reflexivity. }
    assert (K1 : kind_at (sh s1) y = Some kd) by (eapply kind_ext; [exact (l_ext h0 seeds _ _ L1) | exact K]).
    assert (I2 : Inv s2).
    { apply inv_put; [exact (t_inv _ _ _ _ _ T1) | exact Hy | exact Logic.I | eapply res_ok_vok; exact R1 |].
      eapply put_side_kind; [exact K1 | intros _ C; contradiction | exact NA]. }
    assert (Ixy1 : In (x, y) (sc s1)) by (apply (proj1 (l_ext2 h0 seeds _ _ L1)); exact Ixy).
    assert (J2 : Inv2 s2).
    { apply inv2_put; [exact (t_inv2 _ _ _ _ _ T1) | |].
      - eapply justified_by with (x := x) (k := P p) (v := v); [exact (t_inv2 _ _ _ _ _ T1) | exact Ixy1 | exact G | | reflexivity | exact V1].
        apply HS. left. reflexivity.
      - eapply priv_side_kind; [exact K1 | intros _ C; contradiction | exact NA]. }
    assert (L12 : Loop2 s1 s2).
    { apply (loop2_step h0 seeds); [exact I2 | exact J2 | apply ext_put | apply ext2_put | apply put_sc | exact (t_inv2 _ _ _ _ _ T1)]. }
    assert (T2 : St3 EX s0 OP sb s2).
    { eapply st3_put_own with (s := s1) (kd := kd); try eassumption; [reflexivity | exists x; exact Ixy1|]. intros _ C. contradiction. }
    assert (L23 : Loop2 s2 s3).
    { apply loop2_memo_val; [exact I2 | exact J2 | exact Vv | unfold s2; rewrite put_hlen; exact R1 |].
      unfold s2. rewrite put_sc. exact V1. }
    assert (T3 : St3 EX s0 OP sb s3) by (eapply st3_same_heap; [exact T2 | exact L23 | apply memo_val_sh | apply memo_val_sc]).
    eapply IH with (s := s3) (kd := kd) (x := x) (ob := ob); try eassumption.
    + eapply U_lt_ext; [exact (l_ext h0 seeds _ _ L3) | exact Uf].
    + eapply kind_ext; [exact (l_ext h0 seeds _ _ L23)|]. unfold s2. rewrite put_kind. exact K1.
    + apply (proj1 (l_ext2 h0 seeds _ _ L23)). unfold s2. rewrite put_sc. exact Ixy1.
Qed.


(* ---- annotation sets (third pass) ---------------------------------------------------------------- *)

Lemma oset_add3 : forall EX OP sb s0 s sy a s', Inv s0 -> St3 EX s0 OP sb s -> n0 <= sy -> kind_at (sh s) sy = Some KAnnSet ->
  vok h0 seeds (hlen (sh s)) a ->
  (in_range (sc s) sy \/
   exists dst dob, n0 <= dst /\ (EX dst \/ hlen (sh s0) <= dst) /\ OP dst /\ hget (sh s) dst = Some dob
                   /\ is_annk (okind dob) = true /\ bget (obody dob) NM_ANN = Some (R sy)) ->
  oset_add s sy a = Ok s' -> St3 EX s0 OP sb s' /\ Loop2 s s'.
Proof.
  intros EX OP sb s0 s sy a s' IV0 [IV J J3 F L A] Hs K Va WHO H.
  assert (L2 := oset_add2 h0 seeds s sy a s' IV J Hs K Va H).
  assert (F' : FrameFrom EX s0 s').
  { apply (frame_oset_add h0 seeds EX s0 s sy a s' IV0 IV J J3 F Hs K); [|exact H].
    destruct WHO as [W|[dst [dob [W1 [W2 [W3 W4]]]]]]; [left; exact W | right; exists dst, dob; auto]. }
  assert (FS : FrameFrom OP s s').
  { apply (frame_oset_add h0 seeds OP s s sy a s' IV IV J J3 (frame_refl h0 OP s) Hs K); [|exact H].
    destruct WHO as [W|[dst [dob [W1 [W2 [W3 W4]]]]]]; [left; exact W | right; exists dst, dob; auto]. }
  assert (SC : sc s' = sc s).
  { unfold oset_add in H. destruct (bget (body_of s sy) NM_ISET) as [[?|zy]|]; try discriminate.
    destruct (bget (body_of s sy) NM_ILIST) as [[?|ly]|]; try discriminate.
    destruct (bget (body_of s zy) a); inversion H; subst; [reflexivity|]. rewrite !put_sc. reflexivity. }
  split; [|exact L2]. constructor; [exact (l_inv h0 seeds _ _ L2) | exact (l_inv2 h0 seeds _ _ L2) | | exact F' | |].
  - unfold oset_add in H. destruct (kind_at_hget _ _ _ K) as [sob [Gs KO]].
    destruct (i_ann _ _ _ IV sy sob Hs Gs) as [_ A2]. destruct (A2 KO) as [AL AS].
    unfold body_of in H at 1 2. rewrite Gs in H.
    destruct (bget (obody sob) NM_ISET) as [[?|zy]|] eqn:BZ; try discriminate.
    destruct (bget (obody sob) NM_ILIST) as [[?|ly]|] eqn:BL; try discriminate.
    destruct (AS _ eq_refl zy eq_refl) as [Fz Kz]. destruct (AL _ eq_refl ly eq_refl) as [Fl Kl].
    destruct (bget (body_of s zy) a); [inversion H; subst; exact J3|].
    inversion H; subst s'. apply inv3_put; [apply inv3_put; [exact J3|]|].
    + eapply own_side_kind; [exact Kz | discriminate | discriminate].
    + eapply own_side_kind; [rewrite put_kind; exact Kl | discriminate | discriminate].
  - destruct (l_ext h0 seeds _ _ L2). lia.
  - eapply (annacc_step h0 OP OP sb s s' J A FS); [auto | rewrite SC; auto | rewrite SC; auto].
Qed.

Lemma new_annset_frame : forall EX s0 s cls tg, Inv s0 -> hlen (sh s0) <= hlen (sh s) -> FrameFrom EX s0 s ->
  FrameFrom EX s0 (fst (new_annset s cls tg)).
Proof.
  intros EX s0 s cls tg IV0 L F. rewrite new_annset_eq. cbn [fst].
  assert (N := hlen_nonneg (sh s)).
  apply (frame_put_new h0 seeds); [exact IV0| |lia]. apply (frame_put_new h0 seeds); [exact IV0| |lia].
  apply (frame_put_new h0 seeds); [exact IV0| |lia].
  apply (frame_alloc h0 seeds); [simpl; rewrite !hlen_app1; lia | exact IV0|].
  apply (frame_alloc h0 seeds); [simpl; rewrite !hlen_app1; lia | exact IV0|].
  apply (frame_alloc h0 seeds); [lia | exact IV0 | exact F].
Qed.

Lemma new_annset3 : forall EX OP sb s0 s cls tg, Inv s0 -> St3 EX s0 OP sb s -> vok h0 seeds (hlen (sh s)) tg ->
  St3 EX s0 OP sb (fst (new_annset s cls tg)) /\ Loop2 s (fst (new_annset s cls tg)).
Proof.
  intros EX OP sb s0 s cls tg IV0 [IV J J3 F L A] Vt.
  destruct (new_annset2 h0 seeds s cls tg IV J Vt) as [L2 SC].
  split; [|exact L2].
  constructor; [exact (l_inv h0 seeds _ _ L2) | exact (l_inv2 h0 seeds _ _ L2) | | | |].
  - rewrite new_annset_eq. cbn [fst].
    set (s1 := fst (alloc s (mkObj cls KAnnSet []))).
    set (s2 := fst (alloc s1 (mkObj CLS_LIST KList []))).
    set (s3 := fst (alloc s2 (mkObj CLS_SET KSet []))).
    assert (I1 : Inv s1) by (apply inv_alloc_empty; assumption).
    assert (I2 : Inv s2) by (apply inv_alloc_empty; assumption).
    assert (K1 : Inv3 s1) by (apply (inv3_alloc_empty h0 seeds); assumption).
    assert (K2 : Inv3 s2) by (apply (inv3_alloc_empty h0 seeds); assumption).
    assert (K3 : Inv3 s3) by (apply (inv3_alloc_empty h0 seeds); [exact K2 | exact I2]).
    assert (L1 : hlen (sh s1) = hlen (sh s) + 1) by (unfold s1; simpl; apply hlen_app1).
    assert (L2' : hlen (sh s2) = hlen (sh s1) + 1) by (unfold s2; simpl; apply hlen_app1).
    assert (U1 : unref_cont h0 s3 (hlen (sh s1))).
    { apply unref_cont_alloc_empty. apply unref_cont_alloc_empty. apply (unref_cont_new h0 seeds); [exact I1 | lia]. }
    assert (U2 : unref_cont h0 s3 (hlen (sh s2))).
    { apply unref_cont_alloc_empty. apply (unref_cont_new h0 seeds); [exact I2 | lia]. }
    apply inv3_put; [apply inv3_put; [apply inv3_put; [exact K3|]|]|].
    + intros ob G. split; [intros _ C; discriminate C|]. intros _ _ l E.
      assert (EQ : l = hlen (sh s1)) by (inversion E; reflexivity). subst l. exact U1.
    + intros ob G. split; [intros _ C; discriminate C|]. intros _ _ l E.
      assert (EQ : l = hlen (sh s2)) by (inversion E; reflexivity). subst l.
      apply unref_cont_put; [exact U2|]. intro X. assert (EQ : hlen (sh s1) = hlen (sh s2)) by congruence. lia.
    + apply own_side_key; discriminate.
  - apply new_annset_frame; assumption.
  - destruct (l_ext h0 seeds _ _ L2). lia.
  - eapply (annacc_step h0 OP Full sb s _ J A); [| intros y0 [] | rewrite SC; auto | rewrite SC; auto].
    apply new_annset_frame; [exact IV | lia | apply frame_refl].
Qed.

Lemma annotations_add3 : forall EX OP sb s0 s dst a2 s' kd src sob, Inv s0 -> St3 EX s0 OP sb s -> n0 <= dst -> (EX dst \/ hlen (sh s0) <= dst) -> OP dst ->
  kind_at (sh s) dst = Some kd -> is_annk kd = true -> vok h0 seeds (hlen (sh s)) a2 ->
  In (src, dst) (sc s) -> hget h0 src = Some sob -> is_annk (okind sob) = true ->
  annotations_add s dst a2 = Ok s' -> St3 EX s0 OP sb s' /\ Loop2 s s'.
Proof.
  intros EX OP sb s0 s dst a2 s' kd src sob IV0 T Hd Hd0 OPd K AK Va Isd Gs AKs H.
  assert (L2 := annotations_add2 h0 seeds s dst a2 s' kd src sob (t_inv _ _ _ _ _ T) (t_inv2 _ _ _ _ _ T) Hd K AK Va Isd Gs AKs H).
  split; [|exact L2].
  unfold annotations_add in H. destruct (kind_at_hget _ _ _ K) as [ob [G KO]].
  unfold body_of in H at 1. rewrite G in H.
  destruct (bget (obody ob) NM_ANN) as [[?|sy]|] eqn:B; try discriminate.
  - destruct (i_ann _ _ _ (t_inv _ _ _ _ _ T) dst ob Hd G) as [A1 _]. rewrite KO in A1.
    destruct (A1 AK _ B sy eq_refl) as [Fy Ky].
    apply (oset_add3 EX OP sb s0 s sy a2 s' IV0 T Fy Ky Va); [|exact H].
    right. exists dst, ob. rewrite KO. auto 10.
  - destruct (new_annset3 EX OP sb s0 s CLS_ANNSET (R dst) IV0 T) as [T1 L1].
    { left. apply hget_Some_range in G. lia. }
    destruct (new_annset_spec h0 seeds s CLS_ANNSET (R dst) (t_inv _ _ _ _ _ T)) as [_ [_ [Y K1]]].
    { left. apply hget_Some_range in G. lia. }
    destruct (new_annset_shape s CLS_ANNSET (R dst)) as [SH0 [SH1 [SH2 [SHL SHO]]]].
    destruct (new_annset s CLS_ANNSET (R dst)) as [s1 sy] eqn:NA. cbn [fst snd] in *. subst sy.
    set (y := hlen (sh s)) in *.
    assert (N := i_len _ _ _ (t_inv _ _ _ _ _ T)).
    set (s2 := put s1 dst NM_ANN (R y)) in *.
    assert (Ks1 : kind_at (sh s1) dst = Some kd) by (eapply kind_ext; [exact (l_ext h0 seeds _ _ L1) | exact K]).
    (* s2 is an intermediate state of the computation: its invariants *)
    assert (I2 : Inv s2).
    { apply inv_put; [exact (t_inv _ _ _ _ _ T1) | exact Hd | exact Logic.I | left; unfold y; lia |].
      intros ob' G'. split.
      - intros _ _ o E. assert (EQ : o = y) by (inversion E; reflexivity). subst o. split; [unfold y; lia | exact K1].
      - intros C. exfalso. unfold kind_at in Ks1. rewrite G' in Ks1.
        assert (KE : kd = KAnnSet) by congruence. rewrite KE in AK. discriminate AK. }
    assert (SC1 : sc s1 = sc s) by (destruct (new_annset2 h0 seeds s CLS_ANNSET (R dst) (t_inv _ _ _ _ _ T) (t_inv2 _ _ _ _ _ T)) as [_ X];
                                     [left; apply hget_Some_range in G; lia | rewrite NA in X; exact X]).
    assert (J2 : Inv2 s2).
    { apply inv2_put; [exact (t_inv2 _ _ _ _ _ T1) | |].
      - eapply justified_rebuilt; [exact (t_inv2 _ _ _ _ _ T1) | rewrite SC1; exact Isd | exact Gs |].
        left. split; [exact AKs | reflexivity].
      - intros ob' G'. split.
        + intros _ _ sy E. assert (EQ : sy = y) by (inversion E; reflexivity). subst sy. rewrite SC1.
          apply (not_in_range_new h0 s y (t_inv2 _ _ _ _ _ T)). unfold y. lia.
        + intros C. exfalso. unfold kind_at in Ks1. rewrite G' in Ks1.
          assert (KE : kd = KAnnSet) by congruence. rewrite KE in AK. discriminate AK. }
    assert (K32 : Inv3 s2).
    { apply inv3_put; [exact (t_inv3 _ _ _ _ _ T1)|]. intros ob' G'. split.
      - intros _ _ sy E. assert (EQ : sy = y) by (inversion E; reflexivity). subst sy.
        intros o oo Ho Go AKo Bo.
        destruct (Z_lt_dec o y) as [Lt|Ge].
        + rewrite (SHO o Lt) in Go.
          assert (X := fresh_refs_lt h0 seeds s o oo NM_ANN (R y) y (t_inv _ _ _ _ _ T) Ho Go (bget_In _ _ _ Bo) (or_intror eq_refl)).
          unfold y in X. lia.
        + assert (R0 := hget_Some_range _ _ _ Go). rewrite SHL in R0.
          assert (CASES : o = y \/ o = y + 1 \/ o = y + 2) by lia.
          destruct CASES as [E1|[E1|E1]]; subst o; [rewrite SH0 in Go | rewrite SH1 in Go | rewrite SH2 in Go];
            inversion Go; subst oo; discriminate AKo.
      - intros C. exfalso. unfold kind_at in Ks1. rewrite G' in Ks1.
        assert (KE : kd = KAnnSet) by congruence. rewrite KE in AK. discriminate AK. }
    assert (F2 : FrameFrom EX s0 s2).
    { destruct Hd0 as [Hx|Hd0]; [|apply (frame_put_new h0 seeds); [exact IV0 | exact (t_fr _ _ _ _ _ T1) | exact Hd0]].
      eapply (frame_put_excl h0 seeds); [exact IV0 | exact (t_fr _ _ _ _ _ T1) | exact Hx | exact Ks1 | exact AK]. }
    assert (T2 : St3 EX s0 OP sb s2).
    { constructor; [exact I2 | exact J2 | exact K32 | exact F2 | unfold s2; rewrite put_hlen; exact (t_len _ _ _ _ _ T1) |].
      eapply (annacc_step h0 OP OP sb s1 s2 (t_inv2 _ _ _ _ _ T1) (t_acc _ _ _ _ _ T1));
        [| auto | unfold s2; rewrite put_sc; auto | unfold s2; rewrite put_sc; auto].
      eapply (frame_put_excl h0 seeds OP s1 s1); [exact (t_inv _ _ _ _ _ T1) | apply frame_refl | exact OPd | exact Ks1 | exact AK]. }
    assert (Gd2 : exists dob2, hget (sh s2) dst = Some dob2 /\ is_annk (okind dob2) = true /\ bget (obody dob2) NM_ANN = Some (R y)).
    { destruct (kind_at_hget _ _ _ Ks1) as [d1 [Gd1 Kd1]]. eexists. split; [unfold s2; apply put_get_same; exact Gd1|].
      simpl. split; [rewrite Kd1; exact AK | apply bget_bset_same]. }
    destruct (oset_add3 EX OP sb s0 s2 y a2 s' IV0 T2) as [T3 _]; [unfold y; lia | unfold s2; rewrite put_kind; exact K1 | | | exact H | exact T3].
    + unfold s2. rewrite put_hlen. eapply vok_ext; [exact (l_ext h0 seeds _ _ L1) | exact Va].
    + right. destruct Gd2 as [dob2 [G2 [A2 B2]]]. exists dst, dob2. auto 10.
Qed.


Lemma retarget_shape : forall s dst src a1 a2 s', retarget s dst src a1 a2 = Ok s' ->
  s' = s \/ exists a1o a2o t name, a1 = R a1o /\ a2 = R a2o /\ bget (body_of s a1o) NM_VALUE = Some (R t) /\
    (kind_of s t = Some KTuple \/ kind_of s t = Some KList) /\
    s' = put (note (fst (alloc s (mkObj CLS_TUPLE KTuple [(pidx 0, R dst); (pidx 1, name)]))) t (hlen (sh s)))
             a2o NM_VALUE (R (hlen (sh s))).
Proof.
  intros s dst src a1 a2 s' H. unfold retarget in H.
  destruct a2 as [?|a2o]; [discriminate|].
  destruct (bget (body_of s a2o) NM_ISATTR) as [isattr|]; [|discriminate].
  destruct (val_eqb isattr PTrue); [|inversion H; auto].
  destruct a1 as [?|a1o]; [discriminate|].
  destruct (bget (body_of s a1o) NM_VALUE) as [[?|t]|] eqn:BV; try discriminate.
  destruct (kind_of s t) as [[]|] eqn:KT; simpl in H; try discriminate;
    (destruct (values (body_of s t)) as [|owner rest]; [discriminate|];
     destruct (val_eqb owner (R src)); [|inversion H; auto];
     destruct rest as [|name rest']; [discriminate|];
     cbn [alloc] in H; inversion H; right; exists a1o, a2o, t, name; auto 10).
Qed.

Lemma retarget3 : forall EX OP sb s0 s dst src a1 a2 s' sob,
  (forall o ob k v, hget h0 o = Some ob -> In (k, v) (obody ob) -> vsrc k /\ vsrc v) ->
  (forall o ob n e, hget h0 o = Some ob -> (okind ob = KList \/ okind ob = KTuple) ->
     nth_error (obody ob) n = Some e -> fst e = pidx (Z.of_nat n)) ->
  (forall x ob a ao t tob owner rest,
     hget h0 x = Some ob -> In (R a) (ann_items h0 ob) -> hget h0 a = Some ao ->
     bget (obody ao) NM_VALUE = Some (R t) -> hget h0 t = Some tob ->
     (okind tob = KTuple \/ okind tob = KList) ->
     values (obody tob) = owner :: rest -> owner = R x ->
     okind tob = KTuple /\ ocls tob = CLS_TUPLE /\ length (obody tob) = 2%nat) ->
  Inv s0 -> St3 EX s0 OP sb s -> n0 <= dst < hlen (sh s) -> 0 <= src < n0 ->
  item_ok h0 seeds src a1 -> res_ok h0 seeds (hlen (sh s)) a1 a2 -> vrel n0 (sc s) a1 a2 ->
  In (src, dst) (sc s) -> hget h0 src = Some sob -> (forall a, a1 = R a -> In (R a) (ann_items h0 sob)) ->
  retarget s dst src a1 a2 = Ok s' -> St3 EX s0 OP sb s' /\ Loop2 s s'.
Proof.
  intros EX OP sb s0 s dst src a1 a2 s' sob Hclosed H2listkeys H2bound IV0 T Hd Hs IO RO VR Isd Gs ITEM H.
  assert (L2 := retarget2 h0 seeds Hclosed H2listkeys H2bound s dst src a1 a2 s' sob (t_inv _ _ _ _ _ T) (t_inv2 _ _ _ _ _ T)
                  Hd Hs IO RO VR Isd Gs ITEM H).
  split; [|exact L2].
  destruct (retarget_shape _ _ _ _ _ _ H) as [E|[a1o [a2o [t [name [E1 [E2 [BV [KT E]]]]]]]]]; [subst s'; exact T|].
  subst a1 a2. set (tb := mkObj CLS_TUPLE KTuple [(pidx 0, R dst); (pidx 1, name)]) in *.
  assert (IV := t_inv _ _ _ _ _ T). assert (J := t_inv2 _ _ _ _ _ T).
  (* a2o is a recorded copy *)
  assert (RNG : in_range (sc s) a2o).
  { simpl in VR. destruct VR as [VR|[EQ R1]]; [exists a1o; exact VR|].
    exfalso. subst a2o. destruct IO as [_ IO]. destruct (IO a1o eq_refl) as [NS _].
    simpl in RO. destruct RO as [RO|[SH _]]; [lia | contradiction]. }
  (* the source tuple t is an old list-like object: not annotable *)
  assert (V1 : 0 <= a1o < n0) by (destruct IO as [V _]; exact V).
  rewrite (body_of_old h0 seeds s a1o IV) in BV by lia.
  destruct (hget h0 a1o) as [ao|] eqn:GA; [|discriminate].
  assert (Vt : 0 <= t < n0).
  { destruct (Hclosed _ _ _ _ GA (bget_In _ _ _ BV)) as [_ X]. exact X. }
  assert (KT0 : forall tob, hget h0 t = Some tob -> is_annk (okind tob) = false).
  { intros tob Gt. unfold kind_of in KT. rewrite (i_old _ _ _ IV t) in KT by lia. rewrite Gt in KT.
    destruct KT as [KT|KT]; inversion KT as [KK]; rewrite KK; reflexivity. }
  set (sa := fst (alloc s tb)) in *.
  set (sn := note sa t (hlen (sh s))) in *.
  assert (FSn : forall (EX' : Z -> Prop) sx, Inv sx -> hlen (sh sx) <= hlen (sh s) -> FrameFrom EX' sx s -> FrameFrom EX' sx sn).
  { intros EX' sx IVx Lx Fx. apply (frame_same_heap h0 EX' sx sa); [reflexivity|].
    apply (frame_alloc h0 seeds); [exact Lx | exact IVx | exact Fx]. }
  assert (RNGn : in_range (sc sn) a2o) by (destruct RNG as [a Ia]; exists a; right; exact Ia).
  assert (NVA : NM_VALUE <> NM_ANN) by discriminate.
  constructor; [exact (l_inv h0 seeds _ _ L2) | exact (l_inv2 h0 seeds _ _ L2) | | | |].
  - subst s'. apply inv3_put; [|apply own_side_key; discriminate].
    apply (inv3_same_heap h0 sa); [reflexivity|].
    apply (inv3_alloc h0 seeds); [exact (t_inv3 _ _ _ _ _ T) | exact IV | intro C; discriminate C | intro C; discriminate C].
  - subst s'. apply (frame_put_rec h0 seeds); [exact IV0 | exact (l_inv2 h0 seeds _ _ L2) | | exact RNGn | exact NVA].
    apply FSn; [exact IV0 | exact (t_len _ _ _ _ _ T) | exact (t_fr _ _ _ _ _ T)].
  - destruct (l_ext h0 seeds _ _ L2). assert (X := t_len _ _ _ _ _ T). lia.
  - assert (FS : FrameFrom Full s s').
    { subst s'. apply (frame_put_rec h0 seeds); [exact IV | exact (l_inv2 h0 seeds _ _ L2) | | exact RNGn | exact NVA].
      apply FSn; [exact IV | lia | apply frame_refl]. }
    eapply (annacc_step h0 OP Full sb s s' J (t_acc _ _ _ _ _ T) FS); [intros y0 [] | exact (proj1 (l_ext2 h0 seeds _ _ L2)) |].
    intros x y I. subst s'. rewrite put_sc in I. simpl in I. destruct I as [I|I]; [|left; exact I].
    right. intros _ _. inversion I; subst x y. intros ob Gt AKt. rewrite (KT0 ob Gt) in AKt. discriminate.
Qed.

(* ---- hypotheses on the source heap (as in C12Iso) -------------------------------------------------- *)

Hypothesis Hclosed : forall o ob k v, hget h0 o = Some ob -> In (k, v) (obody ob) -> vsrc k /\ vsrc v.
Hypothesis Hitems : forall x ob a, hget h0 x = Some ob -> In (R a) (ann_items h0 ob) -> ~ Shared h0 seeds a.
Hypothesis Hnames : forall x ob a ao t tob owner name rest,
  hget h0 x = Some ob -> In (R a) (ann_items h0 ob) -> hget h0 a = Some ao ->
  bget (obody ao) NM_VALUE = Some (R t) -> hget h0 t = Some tob ->
  (okind tob = KTuple \/ okind tob = KList) ->
  values (obody tob) = owner :: name :: rest -> owner = R x -> exists p, name = P p.
Hypothesis Hkeys : forall o ob k v, hget h0 o = Some ob ->
  (okind ob = KPlain \/ okind ob = KAnnotable \/ okind ob = KTaxon \/ okind ob = KNamespace \/ okind ob = KAnnSet) ->
  In (k, v) (obody ob) -> exists p, k = P p.
Hypothesis H2listkeys : forall o ob n e, hget h0 o = Some ob -> (okind ob = KList \/ okind ob = KTuple) ->
  nth_error (obody ob) n = Some e -> fst e = pidx (Z.of_nat n).
Hypothesis H2noalias : forall o ob k v, hget h0 o = Some ob -> In (k, v) (obody ob) ->
  ~ (is_annk (okind ob) = true /\ k = NM_ANN) -> ~ owned_ref h0 k /\ ~ owned_ref h0 v.
Hypothesis H2taxa : forall x ob lt, hget h0 x = Some ob -> okind ob = KNamespace ->
  bget (obody ob) NM_TAXA = Some (R lt) ->
  exists lo, hget h0 lt = Some lo /\ okind lo = KList /\ ocls lo = CLS_LIST.
Hypothesis H2bound : forall x ob a ao t tob owner rest,
  hget h0 x = Some ob -> In (R a) (ann_items h0 ob) -> hget h0 a = Some ao ->
  bget (obody ao) NM_VALUE = Some (R t) -> hget h0 t = Some tob ->
  (okind tob = KTuple \/ okind tob = KList) ->
  values (obody tob) = owner :: rest -> owner = R x ->
  okind tob = KTuple /\ ocls tob = CLS_TUPLE /\ length (obody tob) = 2%nat.
Hypothesis H2ilist : forall x ob sx sxo lx l, hget h0 x = Some ob -> is_annk (okind ob) = true ->
  bget (obody ob) NM_ANN = Some (R sx) -> hget h0 sx = Some sxo ->
  bget (obody sxo) NM_ILIST = Some (R lx) -> hget h0 lx = Some l -> okind l = KList.
Hypothesis H2ilist2 : forall x ob lx l, hget h0 x = Some ob -> okind ob = KAnnSet ->
  bget (obody ob) NM_ILIST = Some (R lx) -> hget h0 lx = Some l -> okind l = KList.

Hypothesis H3nodup : forall x ob, hget h0 x = Some ob -> is_annk (okind ob) = true -> NoDup (ann_items h0 ob).

Lemma annstate_same_heap : forall s s' y done, sh s' = sh s -> AnnState s y done -> AnnState s' y done.
Proof. intros s s' y done E A. unfold AnnState, body_of in *. rewrite E. exact A. Qed.

Lemma st3_rebase : forall EX OP sb s0 s, St3 EX s0 OP sb s -> St3 Full s OP sb s.
Proof.
  intros EX OP sb s0 s [IV J J3 F L A]. constructor; auto; [apply frame_refl | lia].
Qed.

Lemma copy_annotation_items3 : forall items EX OP sb rec f s0 s dst src kd sob done,
  RecSpec3 rec f -> Inv s0 -> St3 EX s0 OP sb s -> (U s < f)%nat -> n0 <= dst < hlen (sh s) -> (EX dst \/ hlen (sh s0) <= dst) ->
  OP dst -> kind_at (sh s) dst = Some kd -> is_annk kd = true -> 0 <= src < n0 ->
  Forall (item_ok h0 seeds src) items -> Forall vsrc2 items ->
  In (src, dst) (sc s) -> hget h0 src = Some sob -> is_annk (okind sob) = true ->
  (forall a, In (R a) items -> In (R a) (ann_items h0 sob)) ->
  AnnState s dst done -> (forall p, In p done -> In p (sc s)) -> NoDup items ->
  (forall p, In p done -> ~ In (R (fst p)) items) ->
  forall s', copy_annotation_items rec s dst src items = Ok s' ->
    St3 EX s0 OP sb s' /\
    exists done', AnnState s' dst done' /\ map fst done' = map fst done ++ refs_of items /\ (forall p, In p done' -> In p (sc s')).
Proof.
  induction items as [|a1 r IH]; intros EX OP sb rec f s0 s dst src kd sob done R3 IV0 T Uf Hd Hd0 OPd K AK Hs Fx F2 Isd Gs AKs ITEMS
                                       AS DS ND NI s' H.
  - simpl in H. inversion H; subst. split; [exact T|]. exists done. simpl. rewrite app_nil_r. auto.
  - inversion Fx as [|? ? IO Fr]; subst. inversion F2 as [|? ? V2 F2r]; subst.
    simpl in H. destruct (rec s a1) as [[s1 a2]| |] eqn:E; simpl in H; try discriminate.
    destruct (st3_rec EX OP sb rec f s0 s a1 s1 a2 R3 IV0 T V2 Uf E) as [T1 [L1 [R1 VR1]]].
    destruct (proj2 R3 s a1 (t_inv _ _ _ _ _ T) (t_inv2 _ _ _ _ _ T) (t_inv3 _ _ _ _ _ T) V2 Uf s1 a2 E) as [_ [FS1 _]].
    set (s2 := memo_val s1 a1 a2) in *.
    assert (L12 : Loop2 s1 s2).
    { apply loop2_memo_val; [exact (t_inv _ _ _ _ _ T1) | exact (t_inv2 _ _ _ _ _ T1) | exact (proj1 V2) | exact R1 | exact VR1]. }
    assert (T2 : St3 EX s0 OP sb s2) by (eapply st3_same_heap; [exact T1 | exact L12 | apply memo_val_sh | apply memo_val_sc]).
    assert (L02 : Loop2 s s2) by exact (loop2_trans h0 seeds _ _ _ L1 L12).
    assert (HL2 : hlen (sh s2) = hlen (sh s1)) by apply memo_val_hlen.
    destruct (retarget s2 dst src a1 a2) as [s3| |] eqn:RT; simpl in H; try discriminate.
    assert (Hd2 : n0 <= dst < hlen (sh s2)) by (destruct (l_ext h0 seeds _ _ L02) as [LL _]; lia).
    assert (R2 : res_ok h0 seeds (hlen (sh s2)) a1 a2) by (rewrite HL2; exact R1).
    assert (VR2 : vrel n0 (sc s2) a1 a2) by (eapply vrel_mono; [exact (proj1 (l_ext2 h0 seeds _ _ L12)) | exact VR1]).
    assert (Isd2 : In (src, dst) (sc s2)) by (apply (proj1 (l_ext2 h0 seeds _ _ L02)); exact Isd).
    assert (IT1 : forall a, a1 = R a -> In (R a) (ann_items h0 sob)) by (intros a EA; subst a1; apply ITEMS; left; reflexivity).
    destruct (retarget3 EX OP sb s0 s2 dst src a1 a2 s3 sob Hclosed H2listkeys H2bound IV0 T2 Hd2 Hs IO R2 VR2 Isd2 Gs IT1 RT) as [T3 L23].
    destruct (retarget3 Full OP sb s2 s2 dst src a1 a2 s3 sob Hclosed H2listkeys H2bound (t_inv _ _ _ _ _ T2) (st3_rebase _ _ _ _ _ T2)
                Hd2 Hs IO R2 VR2 Isd2 Gs IT1 RT) as [T3' _].
    assert (L03 : Loop2 s s3) by exact (loop2_trans h0 seeds _ _ _ L02 L23).
    destruct (annotations_add s3 dst a2) as [s4| |] eqn:AA; simpl in H; try discriminate.
    assert (K3 : kind_at (sh s3) dst = Some kd) by (eapply kind_ext; [exact (l_ext h0 seeds _ _ L03) | exact K]).
    assert (V3 : vok h0 seeds (hlen (sh s3)) a2).
    { eapply vok_ext; [exact (l_ext h0 seeds _ _ L23)|]. rewrite HL2. eapply res_ok_vok. exact R1. }
    assert (Isd3 : In (src, dst) (sc s3)) by (apply (proj1 (l_ext2 h0 seeds _ _ L03)); exact Isd).
    destruct (annotations_add3 EX OP sb s0 s3 dst a2 s4 kd src sob IV0 T3 (proj1 Hd) Hd0 OPd K3 AK V3 Isd3 Gs AKs AA) as [T4 L34].
    assert (L04 : Loop2 s s4) by exact (loop2_trans h0 seeds _ _ _ L03 L34).
    (* the members: both must be objects *)
    destruct a1 as [p1|a1o]; destruct a2 as [p2|a2o]; try (simpl in VR1; contradiction).
    { unfold retarget in RT. discriminate. }
    (* the state of dst's annotation set *)
    destruct (kind_at_hget _ _ _ K) as [dob [Gd KOd]].
    assert (AKd : is_annk (okind dob) = true) by (rewrite KOd; exact AK).
    assert (AS1 : AnnState s1 dst done).
    { eapply (annstate_frame h0 Full s s1 dst done dob FS1); [intros [] | lia | exact Gd | exact AKd | exact AS]. }
    assert (AS2 : AnnState s2 dst done) by (eapply annstate_same_heap; [apply memo_val_sh | exact AS1]).
    destruct (kind_at_hget _ _ _ (kind_ext _ _ _ _ (l_ext h0 seeds _ _ L02) K)) as [dob2 [Gd2 KOd2]].
    assert (AS3 : AnnState s3 dst done).
    { eapply (annstate_frame h0 Full s2 s3 dst done dob2 (t_fr _ _ _ _ _ T3')); [intros [] | lia | exact Gd2 | rewrite KOd2; exact AK | exact AS2]. }
    destruct (kind_at_hget _ _ _ K3) as [dob3 [Gd3 KOd3]].
    assert (I12 : In (a1o, a2o) (sc s3)).
    { simpl in VR1. destruct VR1 as [VR1|[EQ RR]].
      - apply (proj1 (l_ext2 h0 seeds _ _ L23)). apply (proj1 (l_ext2 h0 seeds _ _ L12)). exact VR1.
      - exfalso. subst a2o. destruct IO as [_ IO]. destruct (IO a1o eq_refl) as [NS _].
        simpl in R1. destruct R1 as [R1|[SH _]]; [lia | contradiction]. }
    assert (NIN : ~ In a2o (map snd done)).
    { intro X. apply in_map_iff in X. destruct X as [[a' b'] [EB IP]]. simpl in EB. subst b'.
      assert (IP3 : In (a', a2o) (sc s3)) by (apply (proj1 (l_ext2 h0 seeds _ _ L03)); apply DS; exact IP).
      assert (EQ : a' = a1o) by (eapply (j_uniq _ _ (t_inv2 _ _ _ _ _ T3)); eassumption). subst a'.
      apply (NI (a1o, a2o) IP). left. reflexivity. }
    assert (AS4 : AnnState s4 dst (done ++ [(a1o, a2o)])).
    { eapply annotations_add_state; [exact Gd3 | rewrite KOd3; exact AK | exact AS3 | exact NIN | exact AA]. }
    assert (NDh : ~ In (R a1o) r) by (inversion ND; assumption).
    assert (NDr : NoDup r) by (inversion ND; assumption).
    destruct (IH EX OP sb rec f s0 s4 dst src kd sob (done ++ [(a1o, a2o)]) R3 IV0 T4) with (s' := s') as [T5 [done' [AS5 [E5 D5]]]]; auto.
    + eapply U_lt_ext; [exact (l_ext h0 seeds _ _ L04) | exact Uf].
    + destruct (l_ext h0 seeds _ _ L04) as [LL _]. lia.
    + eapply kind_ext; [exact (l_ext h0 seeds _ _ L04) | exact K].
    + apply (proj1 (l_ext2 h0 seeds _ _ L04)). exact Isd.
    + intros a Ia. apply ITEMS. right. exact Ia.
    + intros p Ip. apply in_app_or in Ip. destruct Ip as [Ip|[Ip|[]]].
      * apply (proj1 (l_ext2 h0 seeds _ _ L04)). apply DS. exact Ip.
      * subst p. apply (proj1 (l_ext2 h0 seeds _ _ L34)). exact I12.
    + intros p Ip. apply in_app_or in Ip. destruct Ip as [Ip|[Ip|[]]].
      * intro X. apply (NI p Ip). right. exact X.
      * subst p. simpl. exact NDh.
    + split; [exact T5|]. exists done'. split; [exact AS5|]. split; [|exact D5].
      rewrite E5. rewrite map_app. simpl. rewrite <- app_assoc. reflexivity.
Qed.

Lemma dcaf3 : forall EX OP sb rec f s0 s dst src kd sob,
  RecSpec3 rec f -> Inv s0 -> St3 EX s0 OP sb s -> (U s < f)%nat -> n0 <= dst < hlen (sh s) -> (EX dst \/ hlen (sh s0) <= dst) ->
  OP dst -> kind_at (sh s) dst = Some kd -> is_annk kd = true -> 0 <= src < n0 ->
  In (src, dst) (sc s) -> hget h0 src = Some sob -> is_annk (okind sob) = true -> AnnState s dst [] ->
  forall s', deep_copy_annotations_from rec s dst src = Ok s' ->
    St3 EX s0 OP sb s' /\
    exists done, AnnState s' dst done /\ map fst done = refs_of (ann_items h0 sob) /\ (forall p, In p done -> In p (sc s')).
Proof.
  intros EX OP sb rec f s0 s dst src kd sob R3 IV0 T Uf Hd Hd0 OPd K AK Hs Isd Gs AKs AS0 s' H.
  assert (IV := t_inv _ _ _ _ _ T).
  unfold deep_copy_annotations_from in H.
  rewrite (body_of_old h0 seeds s src IV) in H by lia. rewrite Gs in H.
  destruct (bget (obody sob) NM_ANN) as [[?|sx]|] eqn:BA; try discriminate.
  2:{ inversion H; subst. split; [exact T|]. exists []. split; [exact AS0|]. split; [|intros p []].
      unfold ann_items. rewrite BA. reflexivity. }
  assert (Vx : 0 <= sx < n0).
  { destruct (Hclosed _ _ _ _ Gs (bget_In _ _ _ BA)) as [_ X]. exact X. }
  destruct (hget (sh s) dst) as [d|]; [|discriminate].
  destruct (hget (sh s) src) as [o|]; [|discriminate].
  destruct (negb (ocls d =? ocls o)); [discriminate|].
  rewrite (body_of_old h0 seeds s sx IV) in H by lia.
  destruct (hget h0 sx) as [sxo|] eqn:GX; [|discriminate].
  destruct (bget (obody sxo) NM_ILIST) as [[?|lx]|] eqn:BL; try discriminate.
  assert (Vl : 0 <= lx < n0).
  { destruct (Hclosed _ _ _ _ GX (bget_In _ _ _ BL)) as [_ X]. exact X. }
  rewrite (body_of_old h0 seeds s lx IV) in H by lia.
  set (items := values (match hget h0 lx with Some x => obody x | None => [] end)) in *.
  assert (AI : ann_items h0 sob = items).
  { unfold ann_items, items. rewrite BA, GX, BL. destruct (hget h0 lx); reflexivity. }
  assert (FI : Forall (item_ok h0 seeds src) items /\ Forall vsrc2 items).
  { unfold items. destruct (hget h0 lx) as [l|] eqn:GL; [|split; constructor].
    assert (AI' : ann_items h0 sob = values (obody l)) by (unfold ann_items; rewrite BA, GX, BL, GL; reflexivity).
    split.
    - apply Forall_forall. intros a1 IN. split.
      + assert (F := old_values_vsrc h0 Hclosed _ _ GL). rewrite Forall_forall in F. apply F. assumption.
      + intros a EA. subst a1. rewrite <- AI' in IN. split.
        * exact (Hitems src sob a Gs IN).
        * intros ao t tob owner name rest G1 G2 G3 G4 G5 G6.
          exact (Hnames src sob a ao t tob owner name rest Gs IN G1 G2 G3 G4 G5 G6).
    - apply Forall_forall. intros a1 IN. apply In_values in IN. destruct IN as [k IN].
      destruct (old_entry_vsrc2 h0 Hclosed H2noalias lx l k a1 GL IN) as [_ X]; [|exact X].
      intros [AKl _]. rewrite (H2ilist src sob sx sxo lx l Gs AKs BA GX BL GL) in AKl. discriminate AKl. }
  destruct FI as [FI1 FI2].
  assert (FI3 : forall a, In (R a) items -> In (R a) (ann_items h0 sob)) by (intros a IN; rewrite AI; exact IN).
  assert (ND : NoDup items) by (rewrite <- AI; exact (H3nodup src sob Gs AKs)).
  destruct (copy_annotation_items rec s dst src items) as [s1| |] eqn:CI; simpl in H; try discriminate.
  destruct (copy_annotation_items3 items EX OP sb rec f s0 s dst src kd sob [] R3 IV0 T Uf Hd Hd0 OPd K AK Hs FI1 FI2 Isd Gs AKs FI3
              AS0 (fun p (F : In p []) => match F with end) ND (fun p (F : In p []) => match F with end) s1 CI)
    as [T1 [done [AS1 [E1 D1]]]].
  simpl in E1. rewrite <- AI in E1.
  assert (L1 : Loop2 s s1).
  { exact (copy_annotation_items2 h0 seeds Hclosed H2listkeys H2bound items rec f s dst src kd sob (proj1 R3) IV (t_inv2 _ _ _ _ _ T)
             Uf Hd K AK Hs FI1 FI2 Isd Gs AKs FI3 s1 CI). }
  assert (K1 : kind_at (sh s1) dst = Some kd) by (eapply kind_ext; [exact (l_ext h0 seeds _ _ L1) | exact K]).
  destruct (kind_at_hget _ _ _ K1) as [ob1 [G1 KO1]].
  unfold body_of in H at 1. rewrite G1 in H.
  destruct (bget (obody ob1) NM_ANN) as [[?|sy]|] eqn:B1.
  - simpl in H. inversion H; subst. split; [exact T1|]. exists done. auto.
  - inversion H; subst s'. clear H.
    assert (LL : Loop2 s1 (memo_set s1 sx sy)).
    { destruct (i_ann _ _ _ (t_inv _ _ _ _ _ T1) dst ob1 (proj1 Hd) G1) as [A1 _]. rewrite KO1 in A1.
      destruct (A1 AK _ B1 sy eq_refl) as [Fy Ky].
      destruct (kind_at_hget _ _ _ Ky) as [? [Gy _]]. apply hget_Some_range in Gy.
      apply (loop2_step h0 seeds); [| | apply ext_memo_set | apply ext2_memo_set | reflexivity | exact (t_inv2 _ _ _ _ _ T1)].
      + apply inv_memo_set; [exact (t_inv _ _ _ _ _ T1) | lia | left; lia | intro; lia].
      + apply inv2_memo_set; [exact (t_inv2 _ _ _ _ _ T1)|]. intros _. right. exists src, sob. auto. }
    split; [eapply st3_same_heap; [exact T1 | exact LL | reflexivity | reflexivity]|].
    exists done. split; [eapply annstate_same_heap; [|exact AS1]; reflexivity | auto].
  - inversion H; subst. split; [exact T1|]. exists done. auto.
Qed.

Lemma annset_items3 : forall items EX OP sb rec f s0 s o,
  RecSpec3 rec f -> Inv s0 -> St3 EX s0 OP sb s -> (U s < f)%nat -> n0 <= o -> in_range (sc s) o ->
  kind_at (sh s) o = Some KAnnSet -> Forall vsrc2 items ->
  forall s', annset_items rec s o items = Ok s' -> St3 EX s0 OP sb s'.
Proof.
  induction items as [|a r IH]; intros EX OP sb rec f s0 s o R3 IV0 T Uf Ho RO K Fx s' H.
  - simpl in H. inversion H; subst. exact T.
  - inversion Fx as [|? ? Va Vr]; subst. simpl in H.
    destruct (rec s a) as [[sa a']| |] eqn:E; simpl in H; try discriminate.
    destruct (st3_rec EX OP sb rec f s0 s a sa a' R3 IV0 T Va Uf E) as [T1 [L1 [R1 VR1]]].
    set (s2 := memo_val sa a a') in *.
    assert (L12 : Loop2 sa s2).
    { apply loop2_memo_val; [exact (t_inv _ _ _ _ _ T1) | exact (t_inv2 _ _ _ _ _ T1) | exact (proj1 Va) | exact R1 | exact VR1]. }
    assert (T2 : St3 EX s0 OP sb s2) by (eapply st3_same_heap; [exact T1 | exact L12 | apply memo_val_sh | apply memo_val_sc]).
    assert (L02 : Loop2 s s2) by exact (loop2_trans h0 seeds _ _ _ L1 L12).
    assert (RO2 : in_range (sc s2) o) by (destruct RO as [x Ix]; exists x; apply (proj1 (l_ext2 h0 seeds _ _ L02)); exact Ix).
    destruct (oset_add s2 o a') as [sq| |] eqn:OA; simpl in H; try discriminate.
    destruct (oset_add3 EX OP sb s0 s2 o a' sq IV0 T2 Ho) as [T3 L23]; auto.
    { eapply kind_ext; [exact (l_ext h0 seeds _ _ L02) | exact K]. }
    { unfold s2. rewrite memo_val_hlen. eapply res_ok_vok. exact R1. }
    assert (L03 : Loop2 s sq) by exact (loop2_trans h0 seeds _ _ _ L02 L23).
    eapply IH with (s := sq) (o := o); try eassumption.
    + eapply U_lt_ext; [exact (l_ext h0 seeds _ _ L03) | exact Uf].
    + destruct RO as [x Ix]. exists x. apply (proj1 (l_ext2 h0 seeds _ _ L03)). exact Ix.
    + eapply kind_ext; [exact (l_ext h0 seeds _ _ L03) | exact K].
Qed.

(* ---- one level of copy.deepcopy (third pass) ------------------------------------------------------ *)

Lemma frame_close : forall (EXy : Z -> Prop) s s1 s2, FrameFrom Full s s1 -> FrameFrom EXy s1 s2 ->
  (forall o, EXy o -> hlen (sh s) <= o) -> FrameFrom Full s s2.
Proof.
  intros EXy s s1 s2 F1 F2 NEW y ob NX Hy G AK.
  assert (NXy : ~ EXy y) by (intro X; apply NEW in X; apply hget_Some_range in G; lia).
  destruct (F1 y ob NX Hy G AK) as [[ob1 [G1 [K1 B1]]] C1].
  assert (AK1 : is_annk (okind ob1) = true) by (rewrite K1; exact AK).
  destruct (F2 y ob1 NXy Hy G1 AK1) as [[ob2 [G2 [K2 B2]]] C2].
  split; [exists ob2; split; [exact G2|]; split; congruence|].
  intros sy B. destruct (C1 sy B) as [D1 D2].
  assert (B1' : bget (obody ob1) NM_ANN = Some (R sy)) by (rewrite B1; exact B).
  destruct (C2 sy B1') as [E1 E2]. split; [congruence|].
  intros sob k l Gs CK Bl. assert (Gs1 : hget (sh s1) sy = Some sob) by (rewrite D1; exact Gs).
  rewrite (E2 sob k l Gs1 CK Bl). exact (D2 sob k l Gs CK Bl).
Qed.

Lemma st3_weaken_ex : forall (EX EX' OP : Z -> Prop) sb s0 s, (forall y, EX y -> EX' y) -> St3 EX s0 OP sb s -> St3 EX' s0 OP sb s.
Proof.
  intros EX EX' OP sb s0 s W [IV J J3 F L A]. constructor; auto. eapply frame_weaken; eassumption.
Qed.

(* the state right after the allocation of the copy y of x: y is the one open object *)
Lemma st3_new_copy : forall s x ob, Inv s -> Inv2 s -> Inv3 s -> 0 <= x < n0 -> hget h0 x = Some ob ->
  alookup x (sm s) = None ->
  St3 Full (fst (new_copy s x ob)) (eq (hlen (sh s))) s (fst (new_copy s x ob))
  /\ FrameFrom Full s (fst (new_copy s x ob))
  /\ AnnState (fst (new_copy s x ob)) (hlen (sh s)) [].
Proof.
  intros s x ob IV J J3 Hx G ML.
  destruct (new_copy_spec h0 seeds s x ob IV Hx ML) as [I1 [E1 [Y1 [K1 [U1 L1]]]]].
  destruct (new_copy2 h0 seeds s x ob IV J Hx G ML) as [J1 _].
  split; [|split].
  - constructor; [exact I1 | exact J1 | | apply frame_refl | lia |].
    + rewrite new_copy_eq. cbn [fst].
      apply (inv3_same_heap h0 (fst (alloc s (mkObj (ocls ob) (okind ob) [])))); [reflexivity|].
      apply (inv3_alloc_empty h0 seeds); assumption.
    + intros a b I Hb NO. exfalso. rewrite new_copy_eq in I. cbn [fst] in I. simpl in I.
      destruct I as [I|I]; [inversion I; subst; apply NO; reflexivity|].
      destruct (j_scr _ _ J a b I). lia.
  - rewrite new_copy_eq. cbn [fst].
    apply (frame_same_heap h0 Full s (fst (alloc s (mkObj (ocls ob) (okind ob) [])))); [reflexivity|].
    apply (frame_alloc h0 seeds); [lia | exact IV | apply frame_refl].
  - rewrite new_copy_eq. cbn [fst]. simpl. unfold body_of. simpl. rewrite hget_app_new. reflexivity.
Qed.

(* closing the frame of y: everything recorded since s is complete *)
Lemma st3_close : forall (EXy : Z -> Prop) s s1 s2 x, St3 EXy s1 (eq (hlen (sh s))) s s2 -> FrameFrom Full s s1 ->
  (forall o, EXy o -> hlen (sh s) <= o) -> In (x, hlen (sh s)) (sc s2) -> AnnOK s2 x (hlen (sh s)) ->
  Inv3 s2 /\ FrameFrom Full s s2 /\ AnnAcc Full s s2.
Proof.
  intros EXy s s1 s2 x T F1 NEW I A. split; [exact (t_inv3 _ _ _ _ _ T)|]. split.
  - eapply frame_close; [exact F1 | exact (t_fr _ _ _ _ _ T) | exact NEW].
  - intros a b Iab Hb _. destruct (Z.eq_dec b (hlen (sh s))) as [E|E].
    + subst b. assert (a = x) by (eapply (j_uniq _ _ (t_inv2 _ _ _ _ _ T)); eassumption). subst a. exact A.
    + apply (t_acc _ _ _ _ _ T a b Iab Hb). intro X. apply E. symmetry. exact X.
Qed.

Lemma annok_nonannk : forall s x y ob, hget h0 x = Some ob -> is_annk (okind ob) = false -> AnnOK s x y.
Proof. intros s x y ob G K ob' G' AK. rewrite G in G'. inversion G'; subst ob'. congruence. Qed.

Lemma noop3 : forall s, Inv2 s -> Inv3 s -> Inv3 s /\ FrameFrom Full s s /\ AnnAcc Full s s.
Proof.
  intros s J J3. split; [exact J3|]. split; [apply frame_refl|].
  intros a b I Hb _. destruct (j_scr _ _ J a b I). lia.
Qed.

Lemma dc_step3 : forall rec f, RecSpec3 rec f -> RecSpec3 (dc_step rec) (S f).
Proof.
  intros rec f R3. split.
  { apply (dc_step2 h0 seeds Hclosed Hitems Hnames Hkeys H2listkeys H2noalias H2taxa H2bound H2ilist H2ilist2). exact (proj1 R3). }
  intros s v IV J J3 [Vs NO] Uf s' v' H. unfold dc_step in H. destruct v as [p|x].
  { inversion H; subst. apply noop3; assumption. }
  simpl in Vs. simpl in NO. destruct (alookup x (sm s)) as [y|] eqn:ML.
  { inversion H; subst. apply noop3; assumption. }
  rewrite (i_old _ _ _ IV x) in H by lia. destruct (hget_in_range h0 x Vs) as [ob G]. rewrite G in H.
  destruct (new_copy_spec h0 seeds s x ob IV Vs ML) as [I1 [E1 [Y1 [K1 [U1 L1]]]]].
  destruct (new_copy2 h0 seeds s x ob IV J Vs G ML) as [J1 [F1 IN1]].
  destruct (st3_new_copy s x ob IV J J3 Vs G ML) as [T1 [F01 AS1]].
  assert (N := i_len _ _ _ IV).
  assert (Uf1 : (U (fst (new_copy s x ob)) < f)%nat) by lia.
  assert (Hy : n0 <= hlen (sh s)) by lia.
  assert (FULLNEW : forall o, Full o -> hlen (sh s) <= o) by (intros o []).
  assert (EQNEW : forall o, hlen (sh s) = o -> hlen (sh s) <= o) by (intros o EQ; lia).
  destruct (okind ob) eqn:KO.
  - (* KAtomic *) inversion H; subst. apply noop3; assumption.
  - (* KList *)
    destruct (new_copy s x ob) as [s1 y] eqn:NC. cbn [fst snd] in *. subst y.
    destruct (copy_append rec s1 (hlen (sh s)) 0 (values (obody ob))) as [s2| |] eqn:LP; simpl in H; try discriminate.
    inversion H; subst s' v'.
    assert (FK : free_kind KList) by (split; [reflexivity | discriminate]).
    assert (VS : Forall vsrc2 (values (obody ob))) by (apply (old_values_vsrc2 h0 Hclosed H2noalias x ob G); rewrite KO; reflexivity).
    assert (SRC := list_source_entries h0 H2listkeys x ob G (or_introl KO)).
    assert (T2 := copy_append3 _ Full _ s rec f s1 s1 (hlen (sh s)) 0 KList x ob R3 I1 T1 Uf1 Hy K1 FK VS IN1 G SRC s2 LP).
    destruct (copy_append2 h0 seeds _ rec f s1 (hlen (sh s)) 0 KList x ob (proj1 R3) I1 J1 Uf1 Hy K1 FK VS IN1 G SRC s2 LP) as [L2 _].
    eapply st3_close with (x := x); [exact T2 | exact F01 | exact FULLNEW | apply (proj1 (l_ext2 h0 seeds _ _ L2)); exact IN1 |].
    eapply annok_nonannk; [exact G | rewrite KO; reflexivity].
  - (* KDict *)
    destruct (new_copy s x ob) as [s1 y] eqn:NC. cbn [fst snd] in *. subst y.
    destruct (copy_entries rec true s1 (hlen (sh s)) (obody ob)) as [s2| |] eqn:LP; simpl in H; try discriminate.
    inversion H; subst s' v'.
    assert (FK : free_kind KDict) by (split; [reflexivity | discriminate]).
    assert (VS := old_entries_vsrc2 h0 Hclosed H2noalias x ob G ltac:(rewrite KO; reflexivity)).
    assert (T2 := copy_entries3 _ Full _ s rec f true s1 s1 (hlen (sh s)) KDict x ob R3 I1 T1 Uf1 Hy K1 FK VS IN1 G (fun e I => I) s2 LP).
    destruct (copy_entries2 h0 seeds _ rec f true s1 (hlen (sh s)) KDict x ob (proj1 R3) I1 J1 Uf1 Hy K1 FK VS IN1 G (fun e I => I) s2 LP) as [L2 _].
    eapply st3_close with (x := x); [exact T2 | exact F01 | exact FULLNEW | apply (proj1 (l_ext2 h0 seeds _ _ L2)); exact IN1 |].
    eapply annok_nonannk; [exact G | rewrite KO; reflexivity].
  - (* KSet *)
    destruct (forallb (fun e => is_prim (fst e) && is_prim (snd e)) (obody ob)) eqn:FA; [|discriminate].
    cbn [alloc] in H. inversion H; subst s' v'. clear H. split; [|split].
    + apply (inv3_same_heap h0 (fst (alloc s ob))); [reflexivity|].
      apply (inv3_alloc h0 seeds); [exact J3 | exact IV | rewrite KO; intro C; discriminate C | rewrite KO; intro C; discriminate C].
    + apply (frame_same_heap h0 Full s (fst (alloc s ob))); [reflexivity|].
      apply (frame_alloc h0 seeds); [lia | exact IV | apply frame_refl].
    + intros a b I Hb _. simpl in I. destruct I as [I|I]; [|destruct (j_scr _ _ J a b I); lia].
      inversion I; subst a b. eapply annok_nonannk; [exact G | rewrite KO; reflexivity].
  - (* KTuple *)
    destruct (new_copy s x ob) as [s1 y] eqn:NC. cbn [fst snd] in *. subst y.
    destruct (copy_append rec s1 (hlen (sh s)) 0 (values (obody ob))) as [s2| |] eqn:LP; simpl in H; try discriminate.
    inversion H; subst s' v'.
    assert (FK : free_kind KTuple) by (split; [reflexivity | discriminate]).
    assert (VS : Forall vsrc2 (values (obody ob))) by (apply (old_values_vsrc2 h0 Hclosed H2noalias x ob G); rewrite KO; reflexivity).
    assert (SRC := list_source_entries h0 H2listkeys x ob G (or_intror KO)).
    assert (T2 := copy_append3 _ Full _ s rec f s1 s1 (hlen (sh s)) 0 KTuple x ob R3 I1 T1 Uf1 Hy K1 FK VS IN1 G SRC s2 LP).
    destruct (copy_append2 h0 seeds _ rec f s1 (hlen (sh s)) 0 KTuple x ob (proj1 R3) I1 J1 Uf1 Hy K1 FK VS IN1 G SRC s2 LP) as [L2 _].
    eapply st3_close with (x := x); [exact T2 | exact F01 | exact FULLNEW | apply (proj1 (l_ext2 h0 seeds _ _ L2)); exact IN1 |].
    eapply annok_nonannk; [exact G | rewrite KO; reflexivity].
  - (* KPlain *)
    destruct (new_copy s x ob) as [s1 y] eqn:NC. cbn [fst snd] in *. subst y.
    destruct (plain_fields rec [] s1 (hlen (sh s)) (obody ob)) as [s2| |] eqn:LP; simpl in H; try discriminate.
    inversion H; subst s' v'.
    assert (NA : KPlain <> KAnnSet) by discriminate.
    assert (SK : is_annk KPlain = true -> In NM_ANN []) by (intro C; discriminate C).
    assert (FO : Forall (fun e : val * val => (exists p, fst e = P p) /\ vsrc (snd e)) (obody ob)).
    { eapply old_fields; [exact Hclosed | exact Hkeys | exact G | tauto]. }
    assert (V2 : forall k v, In (k, v) (obody ob) -> existsb (val_eqb k) [] = false -> vsrc2 v).
    { intros k v IN _. destruct (old_entry_vsrc2 h0 Hclosed H2noalias x ob k v G IN) as [_ X]; [|exact X].
      rewrite KO. intros [C _]. discriminate C. }
    assert (T2 := plain_fields3 _ Full _ s rec f [] s1 s1 (hlen (sh s)) KPlain x ob R3 I1 T1 Uf1 Hy K1 NA SK FO V2 IN1 G (fun e I => I) s2 LP).
    destruct (plain_fields2 h0 seeds _ rec f [] s1 (hlen (sh s)) KPlain x ob (proj1 R3) I1 J1 Uf1 Hy K1 NA SK FO V2 IN1 G (fun e I => I) s2 LP) as [L2 _].
    eapply st3_close with (x := x); [exact T2 | exact F01 | exact FULLNEW | apply (proj1 (l_ext2 h0 seeds _ _ L2)); exact IN1 |].
    eapply annok_nonannk; [exact G | rewrite KO; reflexivity].
  - (* KAnnotable *)
    destruct (new_copy s x ob) as [s1 y] eqn:NC. cbn [fst snd] in *. subst y.
    destruct (annotable_fields rec s1 (hlen (sh s)) (obody ob)) as [s2| |] eqn:LP; simpl in H; try discriminate.
    destruct (deep_copy_annotations_from rec s2 (hlen (sh s)) x) as [s3| |] eqn:DC; simpl in H; try discriminate.
    inversion H; subst s' v'.
    assert (NA : KAnnotable <> KAnnSet) by discriminate.
    assert (FO : Forall (fun e : val * val => (exists p, fst e = P p) /\ vsrc (snd e)) (obody ob)).
    { eapply old_fields; [exact Hclosed | exact Hkeys | exact G | tauto]. }
    assert (V2 : forall k v, In (k, v) (obody ob) -> k <> NM_ANN -> vsrc2 v).
    { intros k v IN NE. destruct (old_entry_vsrc2 h0 Hclosed H2noalias x ob k v G IN) as [_ X]; [|exact X]. intros [_ C]. contradiction. }
    assert (T2 := annotable_fields3 _ Full _ s rec f s1 s1 (hlen (sh s)) KAnnotable x ob R3 I1 T1 Uf1 Hy K1 NA FO V2 IN1 G (fun e I => I) s2 LP).
    destruct (annotable_fields2 h0 seeds _ rec f s1 (hlen (sh s)) KAnnotable x ob (proj1 R3) I1 J1 Uf1 Hy K1 NA FO V2 IN1 G (fun e I => I) s2 LP) as [L2 _].
    assert (U2' : (U s2 < f)%nat) by (eapply U_lt_ext; [exact (l_ext h0 seeds _ _ L2) | exact Uf1]).
    assert (Hd2 : n0 <= hlen (sh s) < hlen (sh s2)) by (destruct (l_ext h0 seeds _ _ L2) as [LL _]; lia).
    assert (Ky2 : kind_at (sh s2) (hlen (sh s)) = Some KAnnotable) by (eapply kind_ext; [exact (l_ext h0 seeds _ _ L2) | exact K1]).
    assert (Ix2 : In (x, hlen (sh s)) (sc s2)) by (apply (proj1 (l_ext2 h0 seeds _ _ L2)); exact IN1).
    assert (AK2 : is_annk (okind ob) = true) by (rewrite KO; reflexivity).
    destruct (kind_at_hget _ _ _ K1) as [oy1 [Gy1 KOy1]].
    assert (AS2 : AnnState s2 (hlen (sh s)) []).
    { eapply (annstate_frame h0 Full s1 s2 _ [] oy1 (t_fr _ _ _ _ _ T2)); [intros [] | lia | exact Gy1 | rewrite KOy1; reflexivity | exact AS1]. }
    assert (T2e := st3_weaken_ex Full (eq (hlen (sh s))) _ _ _ _ (fun y (F : Full y) => match F with end) T2).
    destruct (dcaf3 (eq (hlen (sh s))) _ s rec f s1 s2 (hlen (sh s)) x KAnnotable ob R3 I1 T2e U2' Hd2 (or_introl eq_refl) eq_refl
                Ky2 eq_refl Vs Ix2 G AK2 AS2 s3 DC) as [T3 [done [AS3 [E3 D3]]]].
    assert (L23 := dcaf2 h0 seeds Hclosed Hitems Hnames H2listkeys H2noalias H2bound H2ilist rec f s2 (hlen (sh s)) x KAnnotable ob
                     (proj1 R3) (l_inv h0 seeds _ _ L2) (l_inv2 h0 seeds _ _ L2) U2' Hd2 Ky2 eq_refl Vs Ix2 G AK2 s3 DC).
    eapply st3_close with (x := x); [exact T3 | exact F01 | exact EQNEW | apply (proj1 (l_ext2 h0 seeds _ _ L23)); exact Ix2 |].
    intros ob' G' _. rewrite G in G'. inversion G'; subst ob'. exists done. auto.
  - (* KAnnSet *)
    destruct (bget (obody ob) NM_TARGET) as [tg|] eqn:BT; [|discriminate].
    assert (TGS : ~ (is_annk (okind ob) = true /\ NM_TARGET = NM_ANN)) by (intros [_ C]; discriminate C).
    destruct (old_entry_vsrc2 h0 Hclosed H2noalias x ob NM_TARGET tg G (bget_In _ _ _ BT) TGS) as [_ [Vtg NOtg]].
    destruct (match tg with
              | R t => match alookup t (sm s) with Some t' => Ok (R t') | None => Err KeyErr end
              | P 0 => if snone s then Ok PNone else Err KeyErr
              | P _ => Err KeyErr end) as [tg'| |] eqn:ET; cbn [bind] in H; try discriminate.
    assert (TG : vok h0 seeds (hlen (sh s)) tg' /\ vrel n0 (sc s) tg tg').
    { destruct tg as [q|t].
      - destruct q; try discriminate. destruct (snone s); [|discriminate]. inversion ET. split; [exact Logic.I | reflexivity].
      - destruct (alookup t (sm s)) as [t'|] eqn:MT; [|discriminate]. inversion ET; subst.
        destruct (i_memo _ _ _ IV t t' MT) as [_ [V EQ]]. split; [exact V|]. simpl. simpl in Vtg, NOtg.
        destruct (Z_lt_dec t' n0) as [Lt|Ge].
        + right. rewrite (EQ Lt). split; [reflexivity | exact Vtg].
        + destruct (j_msc _ _ J t t' MT ltac:(lia)) as [I|O]; [left; exact I | contradiction]. }
    destruct TG as [Vt VRt].
    assert (T0 : St3 Full s Full s s).
    { constructor; [exact IV | exact J | exact J3 | apply frame_refl | lia |]. intros a b I Hb _. destruct (j_scr _ _ J a b I). lia. }
    destruct (new_annset3 Full Full s s s (ocls ob) tg' IV T0 Vt) as [Ta La].
    destruct (new_annset_spec h0 seeds s (ocls ob) tg' IV Vt) as [Ia [Ea [Ya Ka]]].
    destruct (new_annset2 h0 seeds s (ocls ob) tg' IV J Vt) as [_ SCa].
    destruct (new_annset_shape s (ocls ob) tg') as [SH0 [SH1 [SH2 [SHL SHO]]]].
    destruct (new_annset s (ocls ob) tg') as [sa o] eqn:NA. cbn [fst snd] in *. subst o.
    set (y := hlen (sh s)) in *.
    set (s2 := note (memo_set sa x y) x y) in *.
    assert (I2 : Inv s2).
    { apply inv_note. apply inv_memo_set; [exact Ia | exact Vs | left; unfold y; lia | intro; unfold y in *; lia]. }
    assert (J2 : Inv2 s2).
    { unfold s2. rewrite note_memo_comm. apply inv2_memo_set; [|intros _; left; left; reflexivity].
      apply (inv2_note h0 seeds); [exact Ia | exact (t_inv2 _ _ _ _ _ Ta) | exact Vs | unfold y; lia | | |].
      - rewrite SCa. apply (not_in_range_new h0); [exact J | unfold y; lia].
      - exists ob. eexists. split; [exact G|]. split; [exact SH0|]. split; [reflexivity|].
        split; [rewrite KO; reflexivity|]. intros k0 v0 IN. simpl in IN.
        destruct IN as [IN|[IN|[IN|[]]]]; inversion IN; subst k0 v0.
        + left. right. rewrite KO. split; [reflexivity | left; reflexivity].
        + left. right. rewrite KO. split; [reflexivity | right; reflexivity].
        + right. exists NM_TARGET, tg. split; [apply bget_In; exact BT|]. split; [reflexivity|].
          eapply vrel_mono; [|exact VRt]. intros p Ip. right. rewrite SCa. exact Ip.
      - intros o ob' Ho Go.
        assert (NE : forall k, bget (obody ob') k <> Some (R y)).
        { intros k B. destruct (Z_lt_dec o y) as [Lt|Ge].
          - rewrite (SHO o Lt) in Go.
            assert (X := fresh_refs_lt h0 seeds s o ob' k (R y) y IV Ho Go (bget_In _ _ _ B) (or_intror eq_refl)).
            unfold y in X. lia.
          - assert (R0 := hget_Some_range _ _ _ Go). rewrite SHL in R0.
            assert (CASES : o = y \/ o = y + 1 \/ o = y + 2) by lia.
            destruct CASES as [E|[E|E]]; subst o.
            + rewrite SH0 in Go. inversion Go; subst ob'. apply bget_In in B. simpl in B.
              destruct B as [B|[B|[B|[]]]]; inversion B; try lia.
              subst tg'. simpl in Vt. destruct Vt as [Vt|[[_ Vt] _]]; unfold y in *; lia.
            + rewrite SH1 in Go. inversion Go; subst ob'. discriminate B.
            + rewrite SH2 in Go. inversion Go; subst ob'. discriminate B. }
        split; [intros _; apply NE|]. intros _. split; apply NE. }
    assert (T2 : St3 Full s Full s s2).
    { constructor; [exact I2 | exact J2 | | | |].
      - apply (inv3_same_heap h0 sa); [reflexivity | exact (t_inv3 _ _ _ _ _ Ta)].
      - apply (frame_same_heap h0 Full s sa); [reflexivity | exact (t_fr _ _ _ _ _ Ta)].
      - exact (t_len _ _ _ _ _ Ta).
      - intros a b I Hb _. simpl in I. destruct I as [I|I].
        + inversion I; subst a b. eapply annok_nonannk; [exact G | rewrite KO; reflexivity].
        + rewrite SCa in I. destruct (j_scr _ _ J a b I). lia. }
    destruct (bget (obody ob) NM_ILIST) as [[?|lx]|] eqn:BL; try discriminate.
    assert (Vl : 0 <= lx < n0).
    { destruct (Hclosed _ _ _ _ G (bget_In _ _ _ BL)) as [_ X]. exact X. }
    destruct (annset_items rec s2 y (values (body_of s2 lx))) as [s5| |] eqn:AI; simpl in H; try discriminate.
    inversion H; subst s' v'. clear H.
    assert (Ea2 : Ext sa s2) by (eapply ext_trans; [apply ext_memo_set | apply ext_note]).
    assert (U2 : (U s2 < f)%nat).
    { assert (X : (U s2 < U s)%nat); [|lia].
      eapply (U_after_memo h0); [eapply ext_trans; [exact Ea | exact Ea2] | exact Vs | exact ML |].
      simpl. rewrite Z.eqb_refl. reflexivity. }
    assert (T5 : St3 Full s Full s s5).
    { eapply annset_items3 with (o := y); [exact R3 | exact IV | exact T2 | exact U2 | unfold y; lia | exists x; left; reflexivity | | | exact AI].
    + eapply kind_ext; [exact Ea2 | exact Ka].
    + rewrite (body_of_old h0 seeds s2 lx I2) by lia. destruct (hget h0 lx) as [l|] eqn:GL; [|constructor].
      apply Forall_forall. intros v0 I0. apply In_values in I0. destruct I0 as [k0 I0].
      destruct (old_entry_vsrc2 h0 Hclosed H2noalias lx l k0 v0 GL I0) as [_ X]; [|exact X].
      intros [AKl C]. rewrite (H2ilist2 x ob lx l G KO BL GL) in AKl. discriminate AKl. }
    split; [exact (t_inv3 _ _ _ _ _ T5)|]. split; [exact (t_fr _ _ _ _ _ T5) | exact (t_acc _ _ _ _ _ T5)].
  - (* KTaxon *)
    destruct (new_copy s x ob) as [s1 y] eqn:NC. cbn [fst snd] in *. subst y.
    destruct (plain_fields rec [NM_ANN] s1 (hlen (sh s)) (obody ob)) as [s2| |] eqn:LP; simpl in H; try discriminate.
    destruct (deep_copy_annotations_from rec s2 (hlen (sh s)) x) as [s3| |] eqn:DC; simpl in H; try discriminate.
    inversion H; subst s' v'.
    assert (NA : KTaxon <> KAnnSet) by discriminate.
    assert (SK : is_annk KTaxon = true -> In NM_ANN [NM_ANN]) by (intros _; left; reflexivity).
    assert (FO : Forall (fun e : val * val => (exists p, fst e = P p) /\ vsrc (snd e)) (obody ob)).
    { eapply old_fields; [exact Hclosed | exact Hkeys | exact G | tauto]. }
    assert (V2 : forall k v, In (k, v) (obody ob) -> existsb (val_eqb k) [NM_ANN] = false -> vsrc2 v).
    { intros k v IN NS. destruct (old_entry_vsrc2 h0 Hclosed H2noalias x ob k v G IN) as [_ X]; [|exact X].
      intros [_ C]. subst k. simpl in NS. discriminate NS. }
    assert (T2 := plain_fields3 _ Full _ s rec f [NM_ANN] s1 s1 (hlen (sh s)) KTaxon x ob R3 I1 T1 Uf1 Hy K1 NA SK FO V2 IN1 G (fun e I => I) s2 LP).
    destruct (plain_fields2 h0 seeds _ rec f [NM_ANN] s1 (hlen (sh s)) KTaxon x ob (proj1 R3) I1 J1 Uf1 Hy K1 NA SK FO V2 IN1 G (fun e I => I) s2 LP) as [L2 _].
    assert (U2' : (U s2 < f)%nat) by (eapply U_lt_ext; [exact (l_ext h0 seeds _ _ L2) | exact Uf1]).
    assert (Hd2 : n0 <= hlen (sh s) < hlen (sh s2)) by (destruct (l_ext h0 seeds _ _ L2) as [LL _]; lia).
    assert (Ky2 : kind_at (sh s2) (hlen (sh s)) = Some KTaxon) by (eapply kind_ext; [exact (l_ext h0 seeds _ _ L2) | exact K1]).
    assert (Ix2 : In (x, hlen (sh s)) (sc s2)) by (apply (proj1 (l_ext2 h0 seeds _ _ L2)); exact IN1).
    assert (AK2 : is_annk (okind ob) = true) by (rewrite KO; reflexivity).
    destruct (kind_at_hget _ _ _ K1) as [oy1 [Gy1 KOy1]].
    assert (AS2 : AnnState s2 (hlen (sh s)) []).
    { eapply (annstate_frame h0 Full s1 s2 _ [] oy1 (t_fr _ _ _ _ _ T2)); [intros [] | lia | exact Gy1 | rewrite KOy1; reflexivity | exact AS1]. }
    assert (T2e := st3_weaken_ex Full (eq (hlen (sh s))) _ _ _ _ (fun y (F : Full y) => match F with end) T2).
    destruct (dcaf3 (eq (hlen (sh s))) _ s rec f s1 s2 (hlen (sh s)) x KTaxon ob R3 I1 T2e U2' Hd2 (or_introl eq_refl) eq_refl
                Ky2 eq_refl Vs Ix2 G AK2 AS2 s3 DC) as [T3 [done [AS3 [E3 D3]]]].
    assert (L23 := dcaf2 h0 seeds Hclosed Hitems Hnames H2listkeys H2noalias H2bound H2ilist rec f s2 (hlen (sh s)) x KTaxon ob
                     (proj1 R3) (l_inv h0 seeds _ _ L2) (l_inv2 h0 seeds _ _ L2) U2' Hd2 Ky2 eq_refl Vs Ix2 G AK2 s3 DC).
    eapply st3_close with (x := x); [exact T3 | exact F01 | exact EQNEW | apply (proj1 (l_ext2 h0 seeds _ _ L23)); exact Ix2 |].
    intros ob' G' _. rewrite G in G'. inversion G'; subst ob'. exists done. auto.
  - (* KNamespace *)
    destruct (new_copy s x ob) as [s1 y] eqn:NC. cbn [fst snd] in *. subst y.
    destruct (bget (obody ob) NM_TAXA) as [[?|lt]|] eqn:BT; try discriminate.
    assert (Vl : 0 <= lt < n0).
    { destruct (Hclosed _ _ _ _ G (bget_In _ _ _ BT)) as [_ X]. exact X. }
    destruct (H2taxa x ob lt G KO BT) as [lo [GL [KL CL]]].
    cbn [alloc] in H.
    set (y := hlen (sh s)) in *.
    set (s2 := fst (alloc s1 (mkObj CLS_LIST KList []))) in *.
    change (mkSt (sh s1 ++ [mkObj CLS_LIST KList []]) (sm s1) (snone s1) (sc s1)) with s2 in H.
    set (l := hlen (sh s1)) in *.
    rewrite put_note_memo_comm in H.
    set (sn := memo_set (note s2 lt l) lt l) in *.
    set (s3 := put sn y NM_TAXA (R l)) in *.
    assert (I2 : Inv s2) by (apply inv_alloc_empty; exact I1).
    assert (J2 : Inv2 s2) by (apply (inv2_alloc h0 seeds); auto; simpl; intros; discriminate).
    assert (L2 : hlen (sh s2) = hlen (sh s1) + 1) by (unfold s2; simpl; apply hlen_app1).
    assert (K2 : kind_at (sh s2) l = Some KList) by apply (kind_alloc_new s1).
    assert (Gl : hget (sh s2) l = Some (mkObj CLS_LIST KList [])) by (unfold s2, l; simpl; apply hget_app_new).
    assert (Ky2 : kind_at (sh s2) y = Some KNamespace) by (eapply kind_ext; [apply ext_alloc | exact K1]).
    assert (In' : Inv sn).
    { apply inv_memo_set; [apply inv_note; exact I2 | exact Vl | left; change (n0 <= l < hlen (sh s2)); unfold l; lia
                          | unfold l; intro; lia]. }
    assert (Jn : Inv2 sn).
    { apply inv2_memo_set; [|intros _; left; left; reflexivity].
      apply (inv2_note h0 seeds); [exact I2 | exact J2 | exact Vl | unfold l; lia | | |].
      - apply (not_in_range_new h0 s1 l J1). unfold l. lia.
      - exists lo. eexists. split; [exact GL|]. split; [exact Gl|]. split; [rewrite CL; reflexivity|].
        split; [rewrite KL; reflexivity|]. intros k0 v0 [].
      - intros o ob' Ho Go.
        assert (NE : forall k, bget (obody ob') k <> Some (R l)).
        { intros k B. destruct (Z.eq_dec o l) as [E|E].
          - subst o. rewrite Gl in Go. inversion Go; subst ob'. discriminate B.
          - assert (R0 := hget_Some_range _ _ _ Go). rewrite L2 in R0.
            assert (G0 : hget (sh s1) o = Some ob').
            { unfold s2 in Go. simpl in Go. rewrite hget_app_old in Go by (unfold l in E; lia). exact Go. }
            assert (X := fresh_refs_lt h0 seeds s1 o ob' k (R l) l I1 Ho G0 (bget_In _ _ _ B) (or_intror eq_refl)).
            unfold l in X. lia. }
        split; [intros _; apply NE|]. intros _. split; apply NE. }
    assert (Kyn : kind_at (sh sn) y = Some KNamespace) by exact Ky2.
    assert (Ixn : In (x, y) (sc sn)) by (right; exact IN1).
    assert (I3 : Inv s3).
    { apply inv_put; [exact In' | unfold y; lia | exact Logic.I | left; change (n0 <= l < hlen (sh s2)); unfold l; lia |].
      eapply put_side_kind; [exact Kyn | intros _; discriminate | discriminate]. }
    assert (J3' : Inv2 s3).
    { apply inv2_put; [exact Jn | |].
      - eapply justified_by with (x := x) (k := NM_TAXA) (v := R lt);
          [exact Jn | exact Ixn | exact G | apply bget_In; exact BT | reflexivity | left; left; reflexivity].
      - eapply priv_side_kind; [exact Kyn | intros _; discriminate | discriminate]. }
    assert (E13 : Ext s1 s3).
    { eapply ext_trans; [apply ext_alloc|]. eapply ext_trans; [apply ext_note|].
      eapply ext_trans; [apply ext_memo_set | apply ext_put]. }
    assert (HL3 : hlen (sh s3) = hlen (sh s) + 2).
    { unfold s3. rewrite put_hlen. change (hlen (sh s2) = hlen (sh s) + 2). lia. }
    assert (Fsn : FrameFrom Full s1 sn).
    { apply (frame_same_heap h0 Full s1 s2); [reflexivity|]. apply (frame_alloc h0 seeds); [lia | exact I1 | apply frame_refl]. }
    assert (T3 : St3 Full s1 (eq y) s s3).
    { constructor; [exact I3 | exact J3' | | | lia |].
      - apply inv3_put; [|eapply own_side_kind; [exact Kyn | intros _; discriminate | discriminate]].
        apply (inv3_same_heap h0 s2); [reflexivity|]. apply (inv3_alloc_empty h0 seeds); [exact (t_inv3 _ _ _ _ _ T1) | exact I1].
      - apply (frame_put h0 seeds Full s1 sn y NM_TAXA (R l) I1 Jn Fsn). right. split; [exists x; exact Ixn|]. left. discriminate.
      - intros a b I Hb NOP. unfold s3 in I. rewrite put_sc in I. simpl in I. destruct I as [I|I].
        + inversion I; subst a b. eapply annok_nonannk; [exact GL | rewrite KL; reflexivity].
        + assert (SC1 : sc s1 = (x, y) :: sc s).
          { assert (X := new_copy_eq s x ob). rewrite NC in X. inversion X. reflexivity. }
          rewrite SC1 in I. destruct I as [I|I].
          * inversion I; subst a b. exfalso. apply NOP. reflexivity.
          * destruct (j_scr _ _ J a b I). unfold y in *. lia. }
    assert (U3 : (U s3 < f)%nat) by (eapply U_lt_ext; [exact E13 | exact Uf1]).
    assert (Ix3 : In (x, y) (sc s3)) by (unfold s3; rewrite put_sc; exact Ixn).
    assert (Il3 : In (lt, l) (sc s3)) by (unfold s3; rewrite put_sc; left; reflexivity).
    destruct (copy_append rec s3 l 0 (values (body_of s3 lt))) as [s4| |] eqn:LP; simpl in H; try discriminate.
    destruct (plain_fields rec [NM_ANN; NM_TAXA] s4 y (obody ob)) as [s5| |] eqn:LF; simpl in H; try discriminate.
    destruct (deep_copy_annotations_from rec s5 y x) as [s6| |] eqn:DC; simpl in H; try discriminate.
    inversion H; subst s' v'. clear H.
    rewrite (body_of_old h0 seeds s3 lt I3) in LP by lia. rewrite GL in LP.
    assert (Hl : n0 <= l) by (unfold l; lia).
    assert (Kl3 : kind_at (sh s3) l = Some KList) by (unfold s3; rewrite put_kind; exact K2).
    assert (FKl : free_kind KList) by (split; [reflexivity | discriminate]).
    assert (VSl : Forall vsrc2 (values (obody lo))).
    { apply (old_values_vsrc2 h0 Hclosed H2noalias lt lo GL). rewrite KL. reflexivity. }
    assert (SRC : forall j a, nth_error (values (obody lo)) j = Some a -> In (pidx (0 + Z.of_nat j), a) (obody lo)).
    { apply (list_source_entries h0 H2listkeys lt lo GL). left. exact KL. }
    assert (T4 := copy_append3 _ Full _ s rec f s1 s3 l 0 KList lt lo R3 I1 T3 U3 Hl Kl3 FKl VSl Il3 GL SRC s4 LP).
    destruct (copy_append2 h0 seeds (values (obody lo)) rec f s3 l 0 KList lt lo (proj1 R3) I3 J3' U3 Hl Kl3 FKl VSl Il3 GL SRC s4 LP)
      as [L34 _].
    assert (Ky4 : kind_at (sh s4) y = Some KNamespace).
    { eapply kind_ext; [exact (l_ext h0 seeds _ _ L34)|]. unfold s3. rewrite put_kind. exact Kyn. }
    assert (U4 : (U s4 < f)%nat) by (eapply U_lt_ext; [exact (l_ext h0 seeds _ _ L34) | exact U3]).
    assert (NA4 : KNamespace <> KAnnSet) by discriminate.
    assert (SK4 : is_annk KNamespace = true -> In NM_ANN [NM_ANN; NM_TAXA]) by (intros _; left; reflexivity).
    assert (Fx4 : Forall (fun e : val * val => (exists p, fst e = P p) /\ vsrc (snd e)) (obody ob)).
    { eapply old_fields; [exact Hclosed | exact Hkeys | exact G | tauto]. }
    assert (V24 : forall k v, In (k, v) (obody ob) -> existsb (val_eqb k) [NM_ANN; NM_TAXA] = false -> vsrc2 v).
    { intros k v IN NS. destruct (old_entry_vsrc2 h0 Hclosed H2noalias x ob k v G IN) as [_ X]; [|exact X].
      intros [_ C]. subst k. simpl in NS. discriminate NS. }
    assert (Ix4 : In (x, y) (sc s4)) by (apply (proj1 (l_ext2 h0 seeds _ _ L34)); exact Ix3).
    assert (T5 := plain_fields3 _ Full _ s rec f [NM_ANN; NM_TAXA] s1 s4 y KNamespace x ob R3 I1 T4 U4 Hy Ky4 NA4 SK4 Fx4 V24 Ix4 G
               (fun e I => I) s5 LF).
    destruct (plain_fields2 h0 seeds (obody ob) rec f [NM_ANN; NM_TAXA] s4 y KNamespace x ob (proj1 R3) (t_inv _ _ _ _ _ T4) (t_inv2 _ _ _ _ _ T4)
                U4 Hy Ky4 NA4 SK4 Fx4 V24 Ix4 G (fun e I => I) s5 LF) as [L45 _].
    assert (L35 : Loop2 s3 s5) by exact (loop2_trans h0 seeds _ _ _ L34 L45).
    assert (U5 : (U s5 < f)%nat) by (eapply U_lt_ext; [exact (l_ext h0 seeds _ _ L35) | exact U3]).
    assert (Hd5 : n0 <= y < hlen (sh s5)) by (destruct (l_ext h0 seeds _ _ L35) as [LL _]; unfold y; lia).
    assert (Ky5 : kind_at (sh s5) y = Some KNamespace) by (eapply kind_ext; [exact (l_ext h0 seeds _ _ L45) | exact Ky4]).
    assert (Ix5 : In (x, y) (sc s5)) by (apply (proj1 (l_ext2 h0 seeds _ _ L35)); exact Ix3).
    assert (AK5 : is_annk (okind ob) = true) by (rewrite KO; reflexivity).
    destruct (kind_at_hget _ _ _ K1) as [oy1 [Gy1 KOy1]].
    assert (AS5 : AnnState s5 y []).
    { eapply (annstate_frame h0 Full s1 s5 y [] oy1 (t_fr _ _ _ _ _ T5)); [intros [] | unfold y; lia | exact Gy1 | rewrite KOy1; reflexivity | exact AS1]. }
    assert (T5e := st3_weaken_ex Full (eq y) _ _ _ _ (fun y0 (F : Full y0) => match F with end) T5).
    destruct (dcaf3 (eq y) _ s rec f s1 s5 y x KNamespace ob R3 I1 T5e U5 Hd5 (or_introl eq_refl) eq_refl
                Ky5 eq_refl Vs Ix5 G AK5 AS5 s6 DC) as [T6 [done [AS6 [E6 D6]]]].
    assert (L56 := dcaf2 h0 seeds Hclosed Hitems Hnames H2listkeys H2noalias H2bound H2ilist rec f s5 y x KNamespace ob
                     (proj1 R3) (l_inv h0 seeds _ _ L45) (l_inv2 h0 seeds _ _ L45) U5 Hd5 Ky5 eq_refl Vs Ix5 G AK5 s6 DC).
    eapply st3_close with (x := x); [exact T6 | exact F01 | exact EQNEW | apply (proj1 (l_ext2 h0 seeds _ _ L56)); exact Ix5 |].
    intros ob' G' _. rewrite G in G'. inversion G'; subst ob'. exists done. auto.
  - (* KCDict *)
    destruct (new_copy s x ob) as [s1 y] eqn:NC. cbn [fst snd] in *. subst y.
    destruct (copy_entries rec false s1 (hlen (sh s)) (obody ob)) as [s2| |] eqn:LP; simpl in H; try discriminate.
    inversion H; subst s' v'.
    assert (FK : free_kind KCDict) by (split; [reflexivity | discriminate]).
    assert (VS := old_entries_vsrc2 h0 Hclosed H2noalias x ob G ltac:(rewrite KO; reflexivity)).
    assert (T2 := copy_entries3 _ Full _ s rec f false s1 s1 (hlen (sh s)) KCDict x ob R3 I1 T1 Uf1 Hy K1 FK VS IN1 G (fun e I => I) s2 LP).
    destruct (copy_entries2 h0 seeds _ rec f false s1 (hlen (sh s)) KCDict x ob (proj1 R3) I1 J1 Uf1 Hy K1 FK VS IN1 G (fun e I => I) s2 LP) as [L2 _].
    eapply st3_close with (x := x); [exact T2 | exact F01 | exact FULLNEW | apply (proj1 (l_ext2 h0 seeds _ _ L2)); exact IN1 |].
    eapply annok_nonannk; [exact G | rewrite KO; reflexivity].
Qed.

Theorem dc_spec3 : forall f, RecSpec3 (dc f) f.
Proof.
  induction f as [|f IH].
  - split; [apply (dc_specB h0 seeds Hclosed Hitems Hnames Hkeys H2listkeys H2noalias H2taxa H2bound H2ilist H2ilist2)|].
    intros s v _ _ _ _ H. lia.
  - simpl. apply dc_step3. exact IH.
Qed.

End Own2.
