(* C09: the generated alphabets' finite obligations, and the conversions between formats *)
From Coq Require Import ZArith List Bool Lia FinFun.
From DV Require Import Model.PyPrims Model.C09AlphaTypes Model.C09Alphabets Model.C09Model Model.C09Spec
  Model.C09Nexus Model.C09Convert Proofs.C09Text Proofs.C09Fasta Proofs.C09Phylip Proofs.C09PhylipInst
  Proofs.C09NexusProofs.
Import ListNotations.
Open Scope Z_scope.

(* ---- finite obligations, by computation over the generated tables ---- *)

Lemma all_alphabets_ok : forallb alphabet_ok all_alphabets = true.
Proof. vm_compute. reflexivity. Qed.

Lemma all_alphabets_cells_ok : forallb alphabet_cells_ok all_alphabets = true.
Proof. vm_compute. reflexivity. Qed.

Lemma NoDup_map_inj_in : forall (A B : Type) (f : A -> B) (l : list A) x y,
  NoDup (map f l) -> In x l -> In y l -> f x = f y -> x = y.
Proof.
  intros A B f l. induction l as [|z l IH]; intros x y N Hx Hy E; [destruct Hx|].
  simpl in N. inversion N; subst.
  destruct Hx as [Hx|Hx]; destruct Hy as [Hy|Hy]; subst.
  - reflexivity.
  - exfalso. apply H1. rewrite E. apply in_map. exact Hy.
  - exfalso. apply H1. rewrite <- E. apply in_map. exact Hx.
  - apply IH; assumption.
Qed.

Lemma alphabet_lookup_roundtrip_l : forall a, In a all_alphabets ->
  forall s, In s (a_states a) ->
  exists ch,
    s_symbol s = [ch] /\ plain_symbol_char ch = true
    /\ symbol_of_state a (s_index s) = Some [ch]
    /\ state_of_symbol a ch = Some (s_index s)
    /\ (forall y, In y (s_synonyms s) -> tlookup y (a_fullmap a) = Some (s_index s))
    /\ (forall s', In s' (a_states a) ->
        fold_symbol a (s_symbol s') = fold_symbol a (s_symbol s) -> s' = s).
Proof.
  intros a Ha s Hs.
  pose proof all_alphabets_ok as OK. rewrite forallb_forall in OK. specialize (OK a Ha).
  pose proof all_alphabets_cells_ok as CK. rewrite forallb_forall in CK. specialize (CK a Ha).
  unfold alphabet_ok in OK. repeat (apply andb_true_iff in OK; destruct OK as [OK ?]).
  unfold alphabet_cells_ok in CK. rewrite forallb_forall in CK. specialize (CK s Hs).
  rewrite forallb_forall in OK. specialize (OK s Hs).
  unfold symbols_plain in H0. rewrite forallb_forall in H0. specialize (H0 s Hs).
  destruct (s_symbol s) as [|ch [|? ?]] eqn:Es; try discriminate.
  exists ch. split; [reflexivity|]. split; [exact H0|].
  unfold cell_ok in CK. destruct (find_state (s_index s) (a_states a)) as [s0|] eqn:Ef; [|discriminate].
  destruct (s_symbol s0) as [|c0 [|? ?]] eqn:Es0; try discriminate.
  apply andb_true_iff in CK. destruct CK as [_ CK].
  (* the state found under s's index is s itself: symbols are pairwise distinct *)
  unfold state_roundtrip_ok in OK. rewrite Es in OK. apply andb_true_iff in OK. destruct OK as [L1 L2].
  assert (L1' : tlookup [ch] (a_fullmap a) = Some (s_index s)).
  { destruct (tlookup [ch] (a_fullmap a)); simpl in L1; [apply Z.eqb_eq in L1; subst; reflexivity | discriminate]. }
  assert (Esame : c0 = ch).
  { (* both c0 and ch look up to s_index s; and the state with symbol c0 is s0 found at index s_index s *)
    apply texts_distinct_NoDup in H1.
    assert (In0 : In s0 (a_states a)).
    { clear - Ef. induction (a_states a) as [|z l IH]; simpl in Ef; [discriminate|].
      destruct (s_index s =? s_index z); [inversion Ef; subst; left; reflexivity | right; apply IH; exact Ef]. }
    assert (I0 : s_index s0 = s_index s).
    { clear - Ef. induction (a_states a) as [|z l IH]; simpl in Ef; [discriminate|].
      destruct (s_index s =? s_index z) eqn:E; [inversion Ef; subst; apply Z.eqb_eq in E; symmetry; exact E | apply IH; exact Ef]. }
    (* indices are consecutive, hence distinct: s0 = s *)
    unfold indices_consecutive in H. apply (list_eqb_eq Z.eqb Z.eqb_eq) in H.
    assert (ND : NoDup (map s_index (a_states a))).
    { rewrite H. apply Injective_map_NoDup; [intros p q E; lia | apply seq_NoDup]. }
    assert (s0 = s) by (apply (NoDup_map_inj_in _ _ s_index (a_states a)); assumption).
    subst s0. rewrite Es in Es0. inversion Es0. reflexivity. }
  subst c0.
  split.
  { unfold symbol_of_state. rewrite Ef. rewrite Es0. reflexivity. }
  split; [exact L1'|].
  split.
  - intros y Hy. rewrite forallb_forall in L2. specialize (L2 y Hy).
    destruct (tlookup y (a_fullmap a)); simpl in L2; [apply Z.eqb_eq in L2; subst; reflexivity | discriminate].
  - intros s' Hs' E. apply texts_distinct_NoDup in H1.
    apply (NoDup_map_inj_in _ _ (fun x => fold_symbol a (s_symbol x)) (a_states a)); try assumption.
    rewrite Es. exact E.
Qed.

Lemma generated_cells_ok_l : forall a, In a all_alphabets ->
  forall i, valid_cell a i = true -> cell_ok a i = true.
Proof.
  intros a Ha i Hi.
  pose proof all_alphabets_cells_ok as CK. rewrite forallb_forall in CK. specialize (CK a Ha).
  unfold alphabet_cells_ok in CK. rewrite forallb_forall in CK.
  unfold valid_cell in Hi. apply existsb_exists in Hi. destruct Hi as [s [Hs E]].
  apply Z.eqb_eq in E. subst i. apply CK. exact Hs.
Qed.

(* ---- through a format and back ---- *)

Section Through.
Variable lower : text -> text.

Lemma admissible_inv : forall dt nchar f m, admissible lower dt nchar f m = true ->
  fixed_dtype dt = true /\ m <> [] /\ 1 <= nchar /\ rectangular nchar m = true
  /\ cells_ok (alphabet_of_dtype dt) m = true /\ labels_distinct lower (map fst m) = true
  /\ labels_ok_for f (map fst m) = true.
Proof.
  intros dt nchar f m H. unfold admissible in H.
  repeat (apply andb_true_iff in H; destruct H as [H ?]).
  repeat split; try assumption.
  - destruct m; [discriminate | discriminate].
  - apply Z.leb_le. assumption.
Qed.

Lemma rect_nonempty : forall nchar (m : matrix), 1 <= nchar -> rectangular nchar m = true -> rows_nonempty m = true.
Proof.
  intros nchar m Hn Hr. unfold rectangular in Hr. unfold rows_nonempty.
  rewrite forallb_forall in *. intros r Hin. specialize (Hr r Hin). apply Z.eqb_eq in Hr.
  destruct (snd r); [unfold len in Hr; simpl in Hr; lia | reflexivity].
Qed.

Theorem through_identity_l : forall dt nchar f m,
  admissible lower dt nchar f m = true -> through lower dt f m = Ok m.
Proof.
  intros dt nchar f m H. destruct (admissible_inv dt nchar f m H) as [Hdt [Hm [Hn [Hr [Hc [Hd Hl]]]]]].
  destruct f as [w k | wo ro | simple]; simpl in Hl; unfold through.
  - apply fasta_roundtrip_l; try assumption. apply (rect_nonempty nchar); assumption.
  - apply andb_true_iff in Hl. destruct Hl as [Hs Hl]. apply Bool.eqb_prop in Hs.
    destruct (phylip_roundtrip_l lower (alphabet_of_dtype dt) wo ro nchar m Hs Hm Hn Hl Hd Hc Hr) as [t [W R]].
    rewrite W. cbn [bind]. exact R.
  - assert (Hnd : NoDup (map (keyf lower false) (map fst m))).
    { unfold keyf. apply texts_distinct_NoDup. exact Hd. }
    destruct (nexus_chars_roundtrip_l lower dt simple false m nchar Hdt Hm Hn Hl Hnd Hc Hr) as [toks [st' [W R]]].
    rewrite W. cbn [bind]. rewrite R. cbn [bind]. reflexivity.
Qed.

(* any source format -> any target format *)
Theorem convert_preserves_l : forall dt nchar f1 f2 m,
  admissible lower dt nchar f1 m = true -> admissible lower dt nchar f2 m = true ->
  (do m1 <- through lower dt f1 m ;; through lower dt f2 m1) = Ok m.
Proof.
  intros dt nchar f1 f2 m H1 H2. rewrite (through_identity_l dt nchar f1 m H1). cbn [bind].
  apply (through_identity_l dt nchar f2 m H2).
Qed.

End Through.
