(* C12, second wave: the image of the copy.  From the facts about the final state (content bisimulation,
   rebuilt annotation sets, single-valuedness) by induction on reachability:
     - every object the copy reaches is an old (shared) object, the recorded copy of a source object the
       root reaches, or one of the three rebuilt objects of such a copy;
     - every object the root reaches has a recorded copy that the copy reaches, or is reached by the copy
       itself (shared), or is an owned annotation set / its containers of a source whose copy is reached. *)
From Coq Require Import ZArith List Bool Lia.
From DV Require Import Model.PyPrims Model.C12Model Model.C12Spec2 Proofs.C12Heap Proofs.C12Inv Proofs.C12Wf Proofs.C12Iso
  Proofs.C12AnnDef.
Import ListNotations.
Open Scope Z_scope.

Lemma nodup_In_bget : forall b k v, NoDup (map fst b) -> In (k, v) b -> bget b k = Some v.
Proof.
  induction b as [|[k0 v0] r IH]; intros k v ND I; [contradiction|].
  simpl in ND. inversion ND as [|? ? NI NR]; subst. simpl. destruct I as [E|I].
  - inversion E; subst. rewrite val_eqb_refl. reflexivity.
  - destruct (val_eqb k k0) eqn:E.
    + apply val_eqb_eq in E. subst k0. exfalso. apply NI. apply in_map_iff. exists (k, v). auto.
    + apply IH; assumption.
Qed.

Lemma ibody_In_inv : forall done i k v, In (k, v) (ibody i done) -> exists p j, In p done /\ k = pidx j /\ v = R (snd p).
Proof.
  induction done as [|q r IH]; intros i k v H; simpl in H; [contradiction|].
  destruct H as [H|H].
  - inversion H; subst. exists q, i. split; [left; reflexivity | auto].
  - destruct (IH (i + 1) k v H) as [p [j [I [E1 E2]]]]. exists p, j. split; [right; exact I | auto].
Qed.

Lemma ibody_In : forall done i p, In p done -> exists j, In (pidx j, R (snd p)) (ibody i done).
Proof.
  induction done as [|q r IH]; intros i p H; [contradiction|]. destruct H as [H|H].
  - subst q. exists i. left. reflexivity.
  - destruct (IH (i + 1) p H) as [j I]. exists j. right. exact I.
Qed.

Lemma zbody_In_inv : forall done k v, In (k, v) (zbody done) -> exists p, In p done /\ k = R (snd p) /\ v = PNone.
Proof.
  intros done k v H. unfold zbody in H. apply in_map_iff in H. destruct H as [p [E I]]. inversion E; subst. eauto.
Qed.

Lemma zbody_In : forall done p, In p done -> In (R (snd p), PNone) (zbody done).
Proof. intros done p H. unfold zbody. apply in_map_iff. exists p. auto. Qed.

Lemma reach_trans : forall h a b c, reach h a b -> reach h b c -> reach h a c.
Proof. intros h a b c R1 R2. induction R2; [exact R1 | eapply reach_step; eassumption]. Qed.

Lemma edge_val : forall h a ob k b, hget h a = Some ob -> In (k, R b) (obody ob) -> edge h a b.
Proof. intros h a ob k b G I. exists ob, k, (R b). auto. Qed.

Lemma edge_key : forall h a ob v b, hget h a = Some ob -> In (R b, v) (obody ob) -> edge h a b.
Proof. intros h a ob v b G I. exists ob, (R b), v. auto. Qed.

(* the members of the owned annotation set of x are reachable from x *)
Lemma ann_items_reach : forall h x ox a1, hget h x = Some ox -> In (R a1) (ann_items h ox) -> reach h x a1.
Proof.
  intros h x ox a1 G I. unfold ann_items in I.
  destruct (bget (obody ox) NM_ANN) as [[?|sx]|] eqn:BA; try contradiction.
  destruct (hget h sx) as [sxo|] eqn:GS; [|contradiction].
  destruct (bget (obody sxo) NM_ILIST) as [[?|lx]|] eqn:BL; try contradiction.
  destruct (hget h lx) as [l|] eqn:GL; [|contradiction].
  apply In_values in I. destruct I as [k I].
  eapply reach_step; [eapply reach_step; [eapply reach_step; [apply reach_refl|]|]|].
  - eapply edge_val; [exact G | apply bget_In; exact BA].
  - eapply edge_val; [exact GS | apply bget_In; exact BL].
  - eapply edge_val; [exact GL | exact I].
Qed.

Section Image.
Variable h : heap.
Variable s' : st.
Variable root y : Z.
Notation n0 := (hlen h).
Notation c := (sc s').
Notation h' := (sh s').

Hypothesis OLD : forall o, o < n0 -> hget h' o = hget h o.
Hypothesis CLOSED : forall o ob k v, hget h o = Some ob -> In (k, v) (obody ob) -> vsrc h k /\ vsrc h v.
Hypothesis ROOT : 0 <= root < n0.
Hypothesis ROOTREL : vrel n0 c (R root) (R y).
Hypothesis PAIR : forall a b, In (a, b) c ->
  0 <= a < n0 /\ n0 <= b < hlen h' /\
  exists oa ob, hget h a = Some oa /\ hget h' b = Some ob /\ ocls oa = ocls ob /\ okind oa = okind ob
    /\ (forall k' v', In (k', v') (obody ob) ->
          rebuilt (okind oa) k' \/ exists k v, In (k, v) (obody oa) /\ vrel n0 c k k' /\ vrel n0 c v v')
    /\ (forall k v, In (k, v) (obody oa) ->
          not_carried (okind oa) k \/ exists k' v', In (k', v') (obody ob) /\ vrel n0 c k k' /\ vrel n0 c v v').
Hypothesis ANN : forall a b oa, In (a, b) c -> hget h a = Some oa -> is_annk (okind oa) = true ->
  exists done, AnnState s' b done /\ map fst done = refs_of (ann_items h oa) /\ (forall p, In p done -> In p c).
Hypothesis FRESHND : forall o ob, n0 <= o -> hget h' o = Some ob -> NoDup (map fst (obody ob)).
Hypothesis NOSRC : forall a b, In (a, b) c -> ~ owned h a.
Hypothesis SRCND : forall o ob, hget h o = Some ob -> NoDup (map fst (obody ob)).
Hypothesis SETSOWNED : forall o ob, hget h o = Some ob -> okind ob = KAnnSet -> owned h o.
Hypothesis SHAPE : forall x ob sx sxo, hget h x = Some ob -> is_annk (okind ob) = true ->
  bget (obody ob) NM_ANN = Some (R sx) -> hget h sx = Some sxo ->
  (forall k v, In (k, v) (obody sxo) ->
     (exists p, k = P p) /\ (k = NM_ILIST \/ k = NM_ISET \/ (k = NM_TARGET /\ ((exists p, v = P p) \/ v = R x))))
  /\ (forall zx zo, bget (obody sxo) NM_ISET = Some (R zx) -> hget h zx = Some zo ->
        forall k v, In (k, v) (obody zo) -> (exists p, v = P p) /\ ((exists p, k = P p) \/ In k (ann_items h ob))).
Hypothesis LISTKEYS : forall o ob n e, hget h o = Some ob -> (okind ob = KList \/ okind ob = KTuple) ->
  nth_error (obody ob) n = Some e -> fst e = pidx (Z.of_nat n).
Hypothesis ILIST : forall x ob sx sxo lx l, hget h x = Some ob -> is_annk (okind ob) = true ->
  bget (obody ob) NM_ANN = Some (R sx) -> hget h sx = Some sxo ->
  bget (obody sxo) NM_ILIST = Some (R lx) -> hget h lx = Some l -> okind l = KList.

Notation copy_cont := (copy_cont h s' root).
Notation src_cont := (src_cont h s' y).

(* the rebuilt annotation set of a recorded annotable copy, spelled out *)
Lemma ann_unfold : forall x yy ox oy sy, In (x, yy) c -> hget h x = Some ox -> is_annk (okind ox) = true ->
  hget h' yy = Some oy -> bget (obody oy) NM_ANN = Some (R sy) ->
  exists done ly zy, done <> [] /\ map fst done = refs_of (ann_items h ox) /\ (forall p, In p done -> In p c)
    /\ hget h' sy = Some (mkObj CLS_ANNSET KAnnSet [(NM_ILIST, R ly); (NM_ISET, R zy); (NM_TARGET, R yy)])
    /\ hget h' ly = Some (mkObj CLS_LIST KList (ibody 0 done))
    /\ hget h' zy = Some (mkObj CLS_SET KSet (zbody done)).
Proof.
  intros x yy ox oy sy I G AK GY B. destruct (ANN x yy ox I G AK) as [done [AS [E D]]].
  unfold AnnState, body_of in AS. rewrite GY in AS. destruct done as [|p0 r]; [congruence|].
  destruct AS as [sy0 [ly [zy [B0 [GS [GL GZ]]]]]]. assert (sy0 = sy) by congruence. subst sy0.
  exists (p0 :: r), ly, zy. split; [discriminate|]. auto 10.
Qed.

Lemma vrel_ref_inv : forall v b, vrel n0 c v (R b) -> exists a, v = R a /\ (In (a, b) c \/ (a = b /\ 0 <= a < n0)).
Proof. intros [p|a] b H; simpl in H; [contradiction|]. eauto. Qed.

Lemma vrel_ref_fwd : forall a v', vrel n0 c (R a) v' -> exists b, v' = R b /\ (In (a, b) c \/ (a = b /\ 0 <= a < n0)).
Proof. intros a [q|b] H; simpl in H; [contradiction|]. eauto. Qed.

(* ---- the copy reaches only images ------------------------------------------------------------------ *)

Theorem copy_image : forall o, reach h' y o ->
  o < n0 \/ (exists a, In (a, o) c /\ reach h root a) \/ copy_cont o.
Proof.
  intros o RE. induction RE as [|b c2 RE IH ED].
  - simpl in ROOTREL. destruct ROOTREL as [I|[E _]]; [right; left; exists root; split; [exact I | apply reach_refl] | left; lia].
  - destruct ED as [ob [k [v [G [I KV]]]]]. destruct IH as [Lt|[[a [Iab Ra]]|CC]].
    + (* an old object: closed *)
      rewrite (OLD b Lt) in G. destruct (CLOSED b ob k v G I) as [Vk Vv]. left.
      destruct KV as [E|E]; subst; simpl in *; lia.
    + (* a recorded copy *)
      destruct (PAIR a b Iab) as [Ha [Hb [oa [ob0 [Ga [Gb [_ [KD [SND _]]]]]]]]].
      assert (ob0 = ob) by congruence. subst ob0.
      destruct (SND k v I) as [[[AK EK]|[KS _]]|[k0 [v0 [I0 [VK VV]]]]].
      * subst k. destruct KV as [C|C]; [discriminate C|]. subst v. right. right.
        assert (B : bget (obody ob) NM_ANN = Some (R c2)) by (apply nodup_In_bget; [apply (FRESHND b ob (proj1 Hb) G) | exact I]).
        destruct (ann_unfold a b oa ob c2 Iab Ga AK G B) as [done [ly [zy [_ [_ [_ [GS _]]]]]]].
        exists a, b, oa, ob, c2. eexists. split; [exact Iab|]. split; [exact Ra|]. split; [exact Ga|]. split; [exact AK|].
        split; [exact G|]. split; [exact B|]. split; [exact GS|]. left. reflexivity.
      * exfalso. apply (NOSRC a b Iab). apply (SETSOWNED a oa Ga KS).
      * assert (STEP : forall w a2, (w = k0 \/ w = v0) -> w = R a2 -> reach h root a2).
        { intros w a2 W E. eapply reach_step; [exact Ra|]. exists oa, k0, v0. split; [exact Ga|]. split; [exact I0|].
          destruct W; subst; auto. }
        destruct KV as [E|E]; subst.
        -- destruct (vrel_ref_inv _ _ VK) as [a2 [E2 [I2|[E3 R3]]]].
           ++ right. left. exists a2. split; [exact I2 | apply (STEP k0 a2); auto].
           ++ left. lia.
        -- destruct (vrel_ref_inv _ _ VV) as [a2 [E2 [I2|[E3 R3]]]].
           ++ right. left. exists a2. split; [exact I2 | apply (STEP v0 a2); auto].
           ++ left. lia.
    + (* a rebuilt container *)
      destruct CC as [x [yy [ox [oy [sy [soy [Ixy [Rx [Gx [AK [Gy [B [Gs WHO]]]]]]]]]]]]].
      destruct (ann_unfold x yy ox oy sy Ixy Gx AK Gy B) as [done [ly [zy [NE [EM [DS [GS [GL GZ]]]]]]]].
      assert (soy = mkObj CLS_ANNSET KAnnSet [(NM_ILIST, R ly); (NM_ISET, R zy); (NM_TARGET, R yy)]) by congruence. subst soy.
      assert (CONT : forall z, z = ly \/ z = zy -> copy_cont z).
      { intros z Z. exists x, yy, ox, oy, sy. eexists. split; [exact Ixy|]. split; [exact Rx|]. split; [exact Gx|].
        split; [exact AK|]. split; [exact Gy|]. split; [exact B|]. split; [exact GS|]. right.
        destruct Z; subst z; [left | right]; reflexivity. }
      assert (ITEM : forall p, In p done -> exists a, In (a, snd p) c /\ reach h root a).
      { intros p Ip. exists (fst p). split; [rewrite <- surjective_pairing; apply DS; exact Ip|].
        eapply reach_trans; [exact Rx|]. apply (ann_items_reach h x ox (fst p) Gx). apply refs_of_In. rewrite <- EM.
        apply in_map. exact Ip. }
      destruct WHO as [E|[E|E]].
      * subst b. assert (ob = mkObj CLS_ANNSET KAnnSet [(NM_ILIST, R ly); (NM_ISET, R zy); (NM_TARGET, R yy)]) by congruence.
        subst ob. simpl in I. destruct I as [I|[I|[I|[]]]]; inversion I; subst k v; (destruct KV as [C|C]; [discriminate C|]);
          inversion C; subst c2.
        -- right. right. apply CONT. left. reflexivity.
        -- right. right. apply CONT. right. reflexivity.
        -- right. left. exists x. auto.
      * simpl in E. inversion E; subst b.
        assert (ob = mkObj CLS_LIST KList (ibody 0 done)) by congruence. subst ob. simpl in I.
        destruct (ibody_In_inv _ _ _ _ I) as [p [j [Ip [E1 E2]]]]. subst k v.
        destruct KV as [C|C]; [discriminate C|]. inversion C; subst c2. right. left. apply ITEM. exact Ip.
      * simpl in E. inversion E; subst b.
        assert (ob = mkObj CLS_SET KSet (zbody done)) by congruence. subst ob. simpl in I.
        destruct (zbody_In_inv _ _ _ I) as [p [Ip [E1 E2]]]. subst k v.
        destruct KV as [C|C]; [|discriminate C]. inversion C; subst c2. right. left. apply ITEM. exact Ip.
Qed.

(* ---- every object the root reaches has an image ---------------------------------------------------- *)

(* the copy reaches the recorded copies of the members of the annotation set of a reached annotable copy *)
Lemma copy_item_reach : forall x b ox a1, In (x, b) c -> reach h' y b -> hget h x = Some ox ->
  is_annk (okind ox) = true -> In (R a1) (ann_items h ox) -> exists b1, In (a1, b1) c /\ reach h' y b1.
Proof.
  intros x b ox a1 I RB G AK IT.
  destruct (PAIR x b I) as [_ [_ [oa [oy [Ga [Gy _]]]]]].
  destruct (ANN x b ox I G AK) as [done [AS [E D]]].
  assert (IM : In a1 (map fst done)) by (rewrite E; apply In_refs_of; exact IT).
  apply in_map_iff in IM. destruct IM as [p [E1 Ip]]. subst a1.
  exists (snd p). split; [rewrite <- surjective_pairing; apply D; exact Ip|].
  unfold AnnState, body_of in AS. rewrite Gy in AS. destruct done as [|p0 r]; [contradiction|].
  destruct AS as [sy [ly [zy [B [GS [GL GZ]]]]]]. destruct (ibody_In (p0 :: r) 0 p Ip) as [j Ij].
  eapply reach_step; [eapply reach_step; [eapply reach_step; [exact RB|]|]|].
  - eapply edge_val; [exact Gy | apply bget_In; exact B].
  - eapply edge_val; [exact GS | left; reflexivity].
  - eapply edge_val; [exact GL | exact Ij].
Qed.

Theorem source_image : forall a, reach h root a ->
  0 <= a < n0 /\ ((exists b, In (a, b) c /\ reach h' y b) \/ reach h' y a \/ src_cont a).
Proof.
  intros a RE. induction RE as [|a c2 RE IH ED].
  - split; [exact ROOT|]. simpl in ROOTREL. destruct ROOTREL as [I|[E _]].
    + left. exists y. split; [exact I | apply reach_refl].
    + right. left. rewrite E. apply reach_refl.
  - destruct IH as [Ha IH]. destruct ED as [oa [k [v [G [I KV]]]]].
    destruct (CLOSED a oa k v G I) as [Vk Vv].
    assert (Hc : 0 <= c2 < n0) by (destruct KV as [E|E]; subst; simpl in *; assumption).
    split; [exact Hc|]. destruct IH as [[b [Iab Rb]]|[Sh|SC]].
    + (* a has a recorded copy b *)
      destruct (PAIR a b Iab) as [_ [Hb [oa0 [ob [Ga [Gb [_ [KD [_ PRS]]]]]]]]].
      assert (oa0 = oa) by congruence. subst oa0.
      destruct (PRS k v I) as [[[AK EK]|[KS _]]|[k' [v' [I' [VK VV]]]]].
      * subst k. destruct KV as [C|C]; [discriminate C|]. subst v. right. right.
        destruct (hget_in_range h c2 Hc) as [sxo GS].
        exists a, b, oa, c2, sxo. split; [exact Iab|]. split; [exact Rb|]. split; [exact G|]. split; [exact AK|].
        split; [apply nodup_In_bget; [exact (SRCND a oa G) | exact I]|]. split; [exact GS|]. left. reflexivity.
      * exfalso. apply (NOSRC a b Iab). apply (SETSOWNED a oa G KS).
      * assert (STEP : forall w b2, (w = k' \/ w = v') -> w = R b2 -> reach h' y b2).
        { intros w b2 W E. eapply reach_step; [exact Rb|]. exists ob, k', v'. split; [exact Gb|]. split; [exact I'|].
          destruct W; subst; auto. }
        destruct KV as [E|E]; subst.
        -- destruct (vrel_ref_fwd _ _ VK) as [b2 [E2 [I2|[E3 R3]]]].
           ++ left. exists b2. split; [exact I2 | apply (STEP k' b2); auto].
           ++ right. left. subst c2. apply (STEP k' b2); auto.
        -- destruct (vrel_ref_fwd _ _ VV) as [b2 [E2 [I2|[E3 R3]]]].
           ++ left. exists b2. split; [exact I2 | apply (STEP v' b2); auto].
           ++ right. left. subst c2. apply (STEP v' b2); auto.
    + (* a is shared *)
      right. left. eapply reach_step; [exact Sh|]. exists oa, k, v. rewrite (OLD a (proj2 Ha)). auto.
    + (* a is an owned annotation set or one of its containers *)
      destruct SC as [x [b [ox [sx [sxo [Ixb [Rb [Gx [AK [BA [GS WHO]]]]]]]]]]].
      destruct (SHAPE x ox sx sxo Gx AK BA GS) as [SH1 SH2].
      assert (CONT : forall z, bget (obody sxo) NM_ILIST = Some (R z) \/ bget (obody sxo) NM_ISET = Some (R z) -> src_cont z).
      { intros z Z. exists x, b, ox, sx, sxo. split; [exact Ixb|]. split; [exact Rb|]. split; [exact Gx|]. split; [exact AK|].
        split; [exact BA|]. split; [exact GS|]. right. exact Z. }
      destruct WHO as [E|[E|E]].
      * subst a. assert (oa = sxo) by congruence. subst oa.
        destruct (SH1 k v I) as [[p Ek] KK]. subst k. destruct KV as [C|C]; [discriminate C|]. subst v.
        assert (B := nodup_In_bget _ _ _ (SRCND sx sxo GS) I).
        destruct KK as [E|[E|[E [[q C]|C]]]].
        -- rewrite E in B. right. right. apply CONT. left. exact B.
        -- rewrite E in B. right. right. apply CONT. right. exact B.
        -- discriminate C.
        -- inversion C; subst c2. left. exists b. auto.
      * (* the _item_list *)
        assert (KL := ILIST x ox sx sxo a oa Gx AK BA GS E G).
        destruct (In_nth_error _ _ I) as [n N]. assert (EK := LISTKEYS a oa n (k, v) G (or_introl KL) N). simpl in EK.
        subst k. destruct KV as [C|C]; [discriminate C|]. subst v.
        assert (IT : In (R c2) (ann_items h ox)).
        { unfold ann_items. rewrite BA, GS, E, G. apply in_map_iff. exists (pidx (Z.of_nat n), R c2). auto. }
        left. exact (copy_item_reach x b ox c2 Ixb Rb Gx AK IT).
      * (* the _item_set *)
        destruct (SH2 a oa E G k v I) as [[q Ev] KK]. subst v. destruct KV as [C|C]; [|discriminate C]. subst k.
        destruct KK as [[p C]|IT]; [discriminate C|].
        left. exact (copy_item_reach x b ox c2 Ixb Rb Gx AK IT).
Qed.

End Image.
