(* C17: the ultrametricity precision handed to the gamma entry point (pybus_harvey_gamma(tree, prec),
   Tree.pybus_harvey_gamma(prec)) is honoured for every kind of value: None / False / negative disable the
   check, every other number p - 0 and 0.0 included - is an exact bound on the first-child path differences *)
From Coq Require Import ZArith QArith List Bool Lia.
From DV Require Import Model.PyPrims Model.Tree Model.C17Model Proofs.C17Ages Proofs.C17AgesThm.
Import ListNotations.
Open Scope Z_scope.

Lemma gamma_age_err pv t e :
  pybus_harvey_gamma pv t = GAgeErr e <-> exists n, calc_node_ages (mkCfg pv false false) t = CErr e n.
Proof.
  unfold pybus_harvey_gamma, pybus_harvey_gamma_v, calc_node_ages_v.
  destruct (calc_node_ages (mkCfg pv false false) t) as [a|e' n].
  - split; [|intros (n & E); discriminate].
    destruct (gamma_of_ages a); discriminate.
  - split; [intro E; injection E as <-; eauto|intros (n' & E); injection E as <- _; reflexivity].
Qed.

Lemma gamma_prec_honoured_l : forall pv t,
  (check_prec pv = None -> forall e, pybus_harvey_gamma pv t <> GAgeErr e) /\
  (forall p, check_prec pv = Some p ->
     ((forall e, pybus_harvey_gamma pv t <> GAgeErr e) <->
      (forall v, In v (preorder t) -> forall k, In k (tl (t_kids v)) -> Z.abs (fp v - (fp k + elen k)) <= p)) /\
     (forall e, pybus_harvey_gamma pv t = GAgeErr e ->
        e = Ultra /\ exists v d1 d2, In v (preorder t) /\ In d1 (tipdists v) /\ In d2 (tipdists v) /\ Z.abs (d1 - d2) > p)).
Proof.
  intros pv t. split.
  - intros D e E. apply gamma_age_err in E as (n & E).
    destruct (check_disabled_spec_l (mkCfg pv false false) t eq_refl eq_refl D) as (a & Ea & _).
    rewrite Ea in E. discriminate.
  - intros p P.
    destruct (accept_local_spec_l (mkCfg pv false false) p t eq_refl eq_refl P) as (Iff & _).
    split.
    + rewrite <- Iff. split.
      * intro N. destruct (calc_node_ages (mkCfg pv false false) t) as [a|e n] eqn:E; [eauto|].
        exfalso. apply (N e). apply gamma_age_err. eauto.
      * intros (a & Ea) e E. apply gamma_age_err in E as (n & E). rewrite Ea in E. discriminate.
    + intros e E. apply gamma_age_err in E as (n & E).
      destruct (reject_sound_l (mkCfg pv false false) p t e n eq_refl eq_refl P E) as (-> & v & Iv & _ & d1 & d2 & R).
      split; [reflexivity|]. exists v, d1, d2. tauto.
Qed.

(* non-vacuity: tips off by 2^-30 (units of 2^-40) - rejected by the exact check prec = 0, accepted at the
   default 1e-5 (= 10995116 units); a crooked tree (units of 2^-10) - accepted with prec = False / None,
   rejected at prec = 0 *)
Definition gx_leaf (i x l : Z) : tree := T i (Some x) None (Some l) [].
Definition gx_tree (u a b c d : Z) : tree :=
  T 0 None None None [T 1 None None (Some u) [gx_leaf 2 0 a; gx_leaf 3 1 b]; T 4 None None (Some u) [gx_leaf 5 2 c; gx_leaf 6 3 d]].
Definition gx_nearly := gx_tree (2 ^ 40) (2 ^ 40) (2 ^ 40 + 1024) (2 ^ 40) (2 ^ 40).
Definition gx_crooked := gx_tree 1024 1024 3072 512 1024.

Lemma gamma_prec_examples_l :
  pybus_harvey_gamma (PNum 0) gx_nearly = GAgeErr Ultra /\
  (exists p, pybus_harvey_gamma (PNum 10995116) gx_nearly = GOk p) /\
  (exists p, pybus_harvey_gamma PFalse gx_crooked = GOk p) /\
  (exists p, pybus_harvey_gamma PNone gx_crooked = GOk p) /\
  pybus_harvey_gamma (PNum 0) gx_crooked = GAgeErr Ultra.
Proof.
  split; [vm_compute; reflexivity|].
  split; [eexists; vm_compute; reflexivity|].
  split; [eexists; vm_compute; reflexivity|].
  split; [eexists; vm_compute; reflexivity|vm_compute; reflexivity].
Qed.
