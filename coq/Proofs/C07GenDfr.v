(* C07, translator tie (wave 8): the function generated from Node.distance_from_root (Gen/Midpoint.v
   gen_distance_from_root, regenerated from datamodel/treemodel/_node.py on every run) equals the model's
   dfr (C07Model.dfr through C07GenMidPrims.node_dfr) on every node reference - for EVERY mixture of None,
   zero and non-zero edge lengths on the path to the seed.

   Stage 1 (`gen_dfr_is_mirror`, by conversion): the generated term is the hand-written copy `dfr_mirror`
   whose loop is named.  Any semantic edit of the Python method - e.g. testing the truth value of a length
   instead of comparing it with None, which makes a zero-length edge count as a missing one - changes the
   generated term and breaks this lemma.  Stage 2: induction over the chain of ancestors. *)
From Coq Require Import ZArith List Bool Lia.
From DV Require Import Model.PyPrims Model.Tree Model.C07Model Model.C07GenMidPrims Gen.Midpoint.
Import ListNotations.
Open Scope Z_scope.

Definition dfr_cond (st : Z * node) : res bool := let '(d, p) := st in Ok (is_some p).

Definition dfr_body (st : Z * node) : res ((Z * node) * bool) :=
  let '(d, p) := st in
  do e1 <- rd_edge p;;
  do l1 <- edge_length e1;;
  do d <- (if is_some l1
           then (do e2 <- rd_edge p;; do l2 <- edge_length e2;; do f <- py_float l2;; let d := d + f in Ok d)
           else Ok d);;
  do q <- rd_parent p;;
  let p := q in
  Ok ((d, p), false).

Definition and_len (c : bool) (self : node) (k : option Z -> bool) : res bool :=
  if c then (do e <- rd_edge self;; do l <- edge_length e;; Ok (k l)) else Ok false.

Definition self_float (self : node) : res Z :=
  do e <- rd_edge self;; do l <- edge_length e;; do f <- py_float l;; Ok f.

Definition dfr_mirror (self : node) : res Z :=
  do p1 <- rd_parent self;;
  do a1 <- and_len (is_some p1) self (fun l => is_some l);;
  if a1 then
    (do p2 <- rd_parent self;;
     do o <- rd_edge p2;;
     if false then self_float self
     else
       (do e <- rd_edge self;; do l <- edge_length e;; do f <- py_float l;;
        let d := f in
        do p3 <- rd_parent self;;
        let p := p3 in
        do (d, p) <- while_fuel (node_fuel self) dfr_cond dfr_body (d, p);;
        Ok d))
  else
    (do p4 <- rd_parent self;;
     do a2 <- and_len (negb (is_some p4)) self (fun l => is_some l);;
     if a2 then self_float self
     else
       (do p5 <- rd_parent self;;
        do a3 <- and_len (is_some p5) self (fun l => negb (is_some l));;
        if a3 then
          (do p6 <- rd_parent self;; do e <- rd_edge p6;; do l <- edge_length e;; do f <- py_float l;; Ok f)
        else
          (do p7 <- rd_parent self;;
           do a4 <- and_len (negb (is_some p7)) self (fun l => negb (is_some l));;
           if a4 then Ok 0 else Ok 0))).

Lemma gen_dfr_is_mirror self : gen_distance_from_root self = dfr_mirror self.
Proof. reflexivity. Qed.

(* the loop adds the defined lengths of the remaining ancestors, skipping None - and NOT skipping zero *)
Lemma dfr_body_step d Y q :
  dfr_body (d, Some (Y :: q)) = Ok ((d + len0 (t_len Y), match q with [] => None | _ => Some q end), false).
Proof.
  destruct Y as [i x l [e|] ks]; destruct q; cbn; rewrite ?Z.add_0_r; reflexivity.
Qed.

Lemma dfr_loop : forall q d fuel, q <> [] -> (length q < fuel)%nat ->
  while_fuel fuel dfr_cond dfr_body (d, Some q) = Ok (d + sum_len0 (map node_pair q), None).
Proof.
  induction q as [|Y q IH]; intros d fuel Hq Hf; [congruence|].
  destruct fuel as [|f]; [simpl in Hf; lia|].
  cbn [while_fuel dfr_cond is_some bind]. rewrite dfr_body_step. cbn [bind snd fst].
  assert (ES : sum_len0 (map node_pair (Y :: q)) = len0 (t_len Y) + sum_len0 (map node_pair q)) by reflexivity.
  rewrite ES. destruct q as [|Y' q'].
  - destruct f as [|f']; [simpl in Hf; lia|]. cbn [while_fuel dfr_cond is_some bind map].
    f_equal. f_equal. unfold sum_len0. cbn [fold_right]. lia.
  - rewrite IH; [|discriminate|simpl in Hf |- *; lia]. f_equal. f_equal. lia.
Qed.

Theorem gen_dfr_eq_model p : p <> [] -> gen_distance_from_root (Some p) = dfr (map node_pair p).
Proof.
  intro Hp. rewrite gen_dfr_is_mirror. destruct p as [|Y r]; [congruence|]. clear Hp.
  destruct Y as [i x l oe ks]. unfold dfr_mirror, and_len, self_float.
  destruct r as [|P r'].
  - (* the seed node itself *)
    destruct oe as [e|]; reflexivity.
  - cbn [rd_parent bind is_some rd_edge edge_length t_len negb].
    destruct oe as [e|]; cbn [is_some bind negb py_float].
    + (* a defined length - zero included - plus the ancestors' lengths *)
      cbn [node_fuel]. rewrite dfr_loop; [|discriminate|simpl; lia].
      cbn [bind map node_pair t_id t_len dfr]. destruct P as [i' x' l' oe' ks']. cbn [node_pair t_id t_len map].
      destruct r'; reflexivity.
    + (* no length on the node's own edge: float(parent's length) *)
      destruct P as [i' x' l' [e'|] ks']; cbn [edge_length t_len bind py_float map node_pair t_id dfr];
        destruct r'; reflexivity.
Qed.

Theorem gen_dfr_eq_node_dfr n : (n <> Some []) -> gen_distance_from_root n = node_dfr n.
Proof.
  destruct n as [p|]; intro H; [|reflexivity].
  unfold node_dfr. apply gen_dfr_eq_model. intro E. apply H. rewrite E. reflexivity.
Qed.

(* the zero-length case spelled out: a leaf on a zero-length edge below ancestors of lengths 2 and 1 is
   at distance 3 from the root (not 0) *)
Example gen_dfr_zero_leaf :
  gen_distance_from_root
    (Some [T 3 (Some 0) None (Some 0) []; T 2 None None (Some 2) []; T 1 None None (Some 1) []; T 0 None None None []])
  = Ok 3.
Proof. reflexivity. Qed.

(* in plain terms: a node with a parent whose own edge length is defined - ZERO INCLUDED - is at its own
   length plus the defined lengths of all its ancestors (None counting as 0) from the root *)
Lemma gen_dfr_defined_l Y P r e : t_len Y = Some e ->
  gen_distance_from_root (Some (Y :: P :: r)) = Ok (e + fold_right (fun A s => len0 (t_len A) + s) 0 (P :: r)).
Proof.
  intro H. rewrite gen_dfr_eq_model by discriminate. destruct Y as [i x l oe ks]. cbn [t_len] in H. subst oe.
  cbn [map node_pair t_id t_len dfr]. destruct P as [i' x' l' oe' ks']. cbn [node_pair t_id t_len].
  f_equal. f_equal. unfold sum_len0. cbn [fold_right snd t_len]. f_equal.
  induction r as [|A r IH]; [reflexivity|]. cbn [map fold_right node_pair snd]. rewrite IH. reflexivity.
Qed.
