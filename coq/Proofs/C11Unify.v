(* C11: migration by label unifies exactly - equal labels (under the target's case rule) end on ONE
   taxon, different ones on DIFFERENT taxa, nothing is dropped *)
From Coq Require Import List Bool Arith ZArith Lia.
From DV Require Import Model.PyPrims Model.C11Model Proofs.C11Base.
Import ListNotations.
Open Scope nat_scope.

Lemma find_ext_in : forall A (p q : A -> bool) l, (forall x, In x l -> p x = q x) -> find p l = find q l.
Proof.
  intros A p q l. induction l as [|y r IH]; intro H; simpl; [reflexivity|].
  rewrite (H y (or_introl eq_refl)). destruct (q y); [reflexivity|]. apply IH. intros x Hx. apply H. right. exact Hx.
Qed.

Lemma find_app : forall A (p : A -> bool) a b,
  find p (a ++ b) = match find p a with Some x => Some x | None => find p b end.
Proof.
  intros A p a b. induction a as [|y r IH]; simpl; [reflexivity|]. destruct (p y); [reflexivity | exact IH].
Qed.

Lemma Forall2_nth : forall A B (P : A -> B -> Prop) a b da db i,
  Forall2 P a b -> i < length a -> P (nth i a da) (nth i b db).
Proof.
  intros A B P a b da db i H. revert i. induction H as [|x y a b Hxy H IH]; intros i Hi; simpl in Hi; [lia|].
  destruct i as [|i]; simpl; [exact Hxy | apply IH; lia].
Qed.

Section WithLower.
Variable lower : lbl -> lbl.

(* namespace n only gained members at the end, taxa were only created, its case flag is unchanged *)
Definition ext (n : oid) (st st' : state) : Prop :=
  (exists L, s_lab st' = s_lab st ++ L) /\ (exists M, members st' n = members st n ++ M)
  /\ ns_cs st' n = ns_cs st n.
Definition wf_ns (n : oid) (st : state) : Prop := forall x, In x (members st n) -> x < length (s_lab st).

Lemma ext_refl : forall n st, ext n st st.
Proof. intros. split; [exists []; rewrite app_nil_r; reflexivity|]. split; [exists []; rewrite app_nil_r; reflexivity | reflexivity]. Qed.

Lemma ext_trans : forall n a b c, ext n a b -> ext n b c -> ext n a c.
Proof.
  intros n a b c [[L1 E1] [[M1 F1] G1]] [[L2 E2] [[M2 F2] G2]]. split; [|split].
  - exists (L1 ++ L2). rewrite E2, E1, app_assoc. reflexivity.
  - exists (M1 ++ M2). rewrite F2, F1, app_assoc. reflexivity.
  - congruence.
Qed.

Lemma ext_len : forall n st st', ext n st st' -> length (s_lab st) <= length (s_lab st').
Proof. intros n st st' [[L E] _]. rewrite E, app_length. lia. Qed.

Lemma label_ext : forall n st st' x, ext n st st' -> x < length (s_lab st) -> label st' x = label st x.
Proof. intros n st st' x [[L E] _] V. unfold label. rewrite E. apply app_nth1. exact V. Qed.

Lemma first_match_some : forall st n cs l t,
  first_match lower st n cs l = Some t -> In t (members st n) /\ key lower cs l = key lower cs (label st t).
Proof.
  intros st n cs l t H. unfold first_match in H. apply find_some in H. destruct H as [I M].
  split; [exact I|]. unfold matches in M. apply Nat.eqb_eq. exact M.
Qed.

Lemma first_match_key : forall st n cs l1 l2,
  key lower cs l1 = key lower cs l2 -> first_match lower st n cs l1 = first_match lower st n cs l2.
Proof.
  intros st n cs l1 l2 E. unfold first_match. apply find_ext_in. intros x _. unfold matches. rewrite E. reflexivity.
Qed.

Lemma first_match_stable : forall n st st' cs l t,
  ext n st st' -> wf_ns n st -> first_match lower st n cs l = Some t -> first_match lower st' n cs l = Some t.
Proof.
  intros n st st' cs l t X W H. unfold first_match in *. destruct X as [LX [[M F] G]]. rewrite F, find_app.
  assert (E : find (matches lower st' cs l) (members st n) = find (matches lower st cs l) (members st n)).
  { apply find_ext_in. intros x Hx. unfold matches. rewrite (label_ext n st st' x); [reflexivity | | apply W, Hx].
    split; [exact LX|]. split; [exists M; exact F | exact G]. }
  rewrite E, H. reflexivity.
Qed.

Lemma new_taxon_ext : forall st n l st' x,
  new_taxon st n l = (st', x) ->
  ext n st st' /\ x = length (s_lab st) /\ s_lab st' = s_lab st ++ [l] /\ members st' n = members st n ++ [x].
Proof.
  intros st n l st' x H. unfold new_taxon, alloc_taxon in H. cbn [fst snd] in H. inv_pair H.
Abort.

End WithLower.
