(* C11: migration by label unifies exactly - equal labels (under the target's case rule) end on ONE
   taxon, different ones on DIFFERENT taxa, nothing is dropped *)
From Coq Require Import List Bool Arith ZArith Lia.
From DV Require Import Model.PyPrims Model.C11Model Proofs.C11Base Proofs.C11Inv.
Import ListNotations.
Open Scope nat_scope.

Lemma find_ext_in : forall A (p q : A -> bool) l, (forall x, In x l -> p x = q x) -> find p l = find q l.
Proof.
  intros A p q l. induction l as [|y r IH]; intro H; simpl; [reflexivity|].
  rewrite (H y (or_introl eq_refl)). destruct (q y); [reflexivity|]. apply IH. intros x Hx. apply H. right. exact Hx.
Qed.

Lemma find_app : forall A (p : A -> bool) a b,
  find p (a ++ b) = match find p a with Some x => Some x | None => find p b end.
Proof.
  intros A p a b. induction a as [|y r IH]; simpl; [reflexivity|]. destruct (p y); [reflexivity | exact IH].
Qed.

Lemma Forall2_nth : forall A B (P : A -> B -> Prop) a b da db i,
  Forall2 P a b -> i < length a -> P (nth i a da) (nth i b db).
Proof.
  intros A B P a b da db i H. revert i. induction H as [|x y a b Hxy H IH]; intros i Hi; simpl in Hi; [lia|].
  destruct i as [|i]; simpl; [exact Hxy | apply IH; lia].
Qed.

Lemma Forall2_len : forall A B (P : A -> B -> Prop) a b, Forall2 P a b -> length a = length b.
Proof. intros A B P a b H. induction H; simpl; congruence. Qed.

Lemma Forall2_imp : forall A B (P Q : A -> B -> Prop) a b,
  (forall x y, P x y -> Q x y) -> Forall2 P a b -> Forall2 Q a b.
Proof. intros A B P Q a b H F. induction F; constructor; auto. Qed.

Section WithLower.
Variable lower : lbl -> lbl.

(* namespace n only gained members at the end, taxa were only created, its case flag is unchanged *)
Definition ext (n : oid) (st st' : state) : Prop :=
  (exists L, s_lab st' = s_lab st ++ L) /\ (exists M, members st' n = members st n ++ M)
  /\ ns_cs st' n = ns_cs st n.
Definition wf_ns (n : oid) (st : state) : Prop := forall x, In x (members st n) -> x < length (s_lab st).

Lemma ext_refl : forall n st, ext n st st.
Proof. intros. split; [exists []; rewrite app_nil_r; reflexivity|]. split; [exists []; rewrite app_nil_r; reflexivity | reflexivity]. Qed.

Lemma ext_trans : forall n a b c, ext n a b -> ext n b c -> ext n a c.
Proof.
  intros n a b c [[L1 E1] [[M1 F1] G1]] [[L2 E2] [[M2 F2] G2]]. split; [|split].
  - exists (L1 ++ L2). rewrite E2, E1, app_assoc. reflexivity.
  - exists (M1 ++ M2). rewrite F2, F1, app_assoc. reflexivity.
  - congruence.
Qed.

Lemma ext_len : forall n st st', ext n st st' -> length (s_lab st) <= length (s_lab st').
Proof. intros n st st' [[L E] _]. rewrite E, app_length. lia. Qed.

Lemma label_ext : forall n st st' x, ext n st st' -> x < length (s_lab st) -> label st' x = label st x.
Proof. intros n st st' x [[L E] _] V. unfold label. rewrite E. apply app_nth1. exact V. Qed.

Lemma first_match_some : forall st n cs l t,
  first_match lower st n cs l = Some t -> In t (members st n) /\ key lower cs l = key lower cs (label st t).
Proof.
  intros st n cs l t H. unfold first_match in H. apply find_some in H. destruct H as [I M].
  split; [exact I|]. unfold matches in M. apply Nat.eqb_eq. exact M.
Qed.

Lemma first_match_key : forall st n cs l1 l2,
  key lower cs l1 = key lower cs l2 -> first_match lower st n cs l1 = first_match lower st n cs l2.
Proof.
  intros st n cs l1 l2 E. unfold first_match. apply find_ext_in. intros x _. unfold matches. rewrite E. reflexivity.
Qed.

Lemma first_match_stable : forall n st st' cs l t,
  ext n st st' -> wf_ns n st -> first_match lower st n cs l = Some t -> first_match lower st' n cs l = Some t.
Proof.
  intros n st st' cs l t X W H. unfold first_match in *. destruct X as [LX [[M F] G]]. rewrite F, find_app.
  assert (E : find (matches lower st' cs l) (members st n) = find (matches lower st cs l) (members st n)).
  { apply find_ext_in. intros x Hx. unfold matches. rewrite (label_ext n st st' x); [reflexivity | | apply W, Hx].
    split; [exact LX|]. split; [exists M; exact F | exact G]. }
  rewrite E, H. reflexivity.
Qed.

Lemma new_taxon_ext : forall st n l st' x,
  new_taxon st n l = (st', x) ->
  ext n st st' /\ x = length (s_lab st) /\ s_lab st' = s_lab st ++ [l] /\ members st' n = members st n ++ [x].
Proof.
  intros st n l st' x H. unfold new_taxon, alloc_taxon in H. injection H as H1 H2. subst st' x.
  assert (M : members (set_members
             (mkSt (s_lab st ++ [l]) (s_mem st) (s_cs st) (s_nns st) (s_trees st) (s_lists st) (s_mats st) (s_dss st))
             n (members st n ++ [length (s_lab st)])) n = members st n ++ [length (s_lab st)])
    by apply members_set_members_same.
  split; [|split; [reflexivity|]; split; [reflexivity | exact M]].
  split; [exists [l]; reflexivity|]. split; [exists [length (s_lab st)]; exact M | reflexivity].
Qed.

Lemma require_taxon_first : forall st n l st' t,
  require_taxon lower st n l (ns_cs st n) = (st', t) -> wf_ns n st ->
  ext n st st' /\ wf_ns n st' /\ first_match lower st' n (ns_cs st n) l = Some t.
Proof.
  intros st n l st' t H W. unfold require_taxon in H.
  destruct (first_match lower st n (ns_cs st n) l) as [y|] eqn:E.
  - injection H as H1 H2. subst st' t. split; [apply ext_refl|]. split; [exact W | exact E].
  - destruct (new_taxon_ext _ _ _ _ _ H) as [X [Ex [EL EM]]]. split; [exact X|]. split.
    + intros y Hy. rewrite EM in Hy. rewrite EL, app_length. simpl. apply in_app_or in Hy.
      destruct Hy as [Hy|[Hy|[]]]; [specialize (W y Hy); lia | subst; lia].
    + unfold first_match in *. rewrite EM, find_app.
      assert (E' : find (matches lower st' (ns_cs st n) l) (members st n) = None).
      { rewrite <- E. apply find_ext_in. intros y Hy. unfold matches.
        rewrite (label_ext n st st' y X (W y Hy)). reflexivity. }
      rewrite E'. simpl. unfold matches. assert (Lx : label st' t = l).
      { unfold label. rewrite EL, Ex, app_nth2 by lia. rewrite Nat.sub_diag. reflexivity. }
      rewrite Lx, Nat.eqb_refl. reflexivity.
Qed.

(* the memo only holds what a look-up by label would give *)
Definition memo_ok (n : oid) (cs : bool) (st : state) (memo : list (oid * oid)) : Prop :=
  forall x t, alookup x memo = Some t ->
              x < length (s_lab st) /\ first_match lower st n cs (label st x) = Some t.

Lemma memo_ok_ext : forall n cs st st' memo,
  ext n st st' -> wf_ns n st -> memo_ok n cs st memo -> memo_ok n cs st' memo.
Proof.
  intros n cs st st' memo X W H x t A. destruct (H x t A) as [V F]. split.
  - pose proof (ext_len n st st' X). lia.
  - rewrite (label_ext n st st' x X V). eapply first_match_stable; eassumption.
Qed.

Lemma recon_unify_spec : forall n cs refs st memo st' refs' memo',
  recon_refs lower st n true refs memo = (st', refs', memo') ->
  ns_cs st n = cs -> wf_ns n st -> memo_ok n cs st memo ->
  (forall x, In x refs -> x < length (s_lab st)) ->
  ext n st st' /\ wf_ns n st' /\ memo_ok n cs st' memo'
  /\ Forall2 (fun l t => first_match lower st' n cs l = Some t) (map (label st) refs) refs'.
Proof.
  intros n cs refs. induction refs as [|x r IH]; intros st memo st' refs' memo' H Ecs W Mo V; cbn [recon_refs] in H.
  - injection H as H1 H2 H3. subst. split; [apply ext_refl|]. split; [exact W|]. split; [exact Mo | constructor].
  - cbn [orb] in H. destruct (alookup x memo) as [t|] eqn:A.
    + destruct (Mo x t A) as [Vx F]. destruct (first_match_some _ _ _ _ _ F) as [I _].
      assert (Eadd : add_member st n t = st).
      { unfold add_member. assert (Mb : memb t (members st n) = true) by (apply memb_In; exact I). rewrite Mb. reflexivity. }
      rewrite Eadd in H.
      destruct (recon_refs lower st n true r memo) as [[st2 r2] m2] eqn:R. injection H as H1 H2 H3. subst.
      destruct (IH _ _ _ _ _ R eq_refl W Mo) as [X [W2 [Mo2 F2]]]; [intros y Hy; apply V; right; exact Hy|].
      split; [exact X|]. split; [exact W2|]. split; [exact Mo2|]. simpl. constructor; [|exact F2].
      eapply first_match_stable; eassumption.
    + destruct (require_taxon lower st n (label st x) (ns_cs st n)) as [st1 t] eqn:Q.
      destruct (recon_refs lower st1 n true r ((x, t) :: memo)) as [[st2 r2] m2] eqn:R.
      injection H as H1 H2 H3. subst.
      destruct (require_taxon_first _ _ _ _ _ Q W) as [X1 [W1 F1]].
      assert (Vx : x < length (s_lab st)) by (apply V; left; reflexivity).
      assert (Ecs1 : ns_cs st1 n = ns_cs st n) by apply X1.
      destruct (IH _ _ _ _ _ R Ecs1 W1) as [X2 [W2 [Mo2 F2]]].
      * intros y t0 A0. rewrite alookup_cons in A0. destruct (Nat.eqb y x) eqn:Eq.
        -- apply Nat.eqb_eq in Eq. subst y. injection A0 as A0. subst t0.
           split; [pose proof (ext_len n st st1 X1); lia|]. rewrite (label_ext n st st1 x X1 Vx). exact F1.
        -- apply (memo_ok_ext n (ns_cs st n) st st1 memo X1 W Mo y t0 A0).
      * intros y Hy. pose proof (ext_len n st st1 X1). specialize (V y (or_intror Hy)). lia.
      * split; [eapply ext_trans; eassumption|]. split; [exact W2|]. split; [exact Mo2|].
        simpl. constructor.
        -- eapply first_match_stable; eassumption.
        -- assert (Em : map (label st1) r = map (label st) r).
           { apply map_ext_in. intros y Hy. apply (label_ext n st st1 y X1). apply V. right. exact Hy. }
           rewrite <- Em. exact F2.
Qed.

(* tree.migrate_taxon_namespace(n) / reconstruct: the node taxa before and after *)
Lemma migrate_tree_unifies : forall st tr n,
  tr < length (s_trees st) -> wf_ns n st ->
  (forall x, In x (t_refs (gettree st tr)) -> x < length (s_lab st)) ->
  let st' := fst (migrate_tree lower st tr n true []) in
  let refs := t_refs (gettree st tr) in
  let refs' := t_refs (gettree st' tr) in
  let k := key lower (ns_cs st n) in
  t_ns (gettree st' tr) = n /\ length refs' = length refs
  /\ (forall i, i < length refs ->
        In (nth i refs' 0) (members st' n) /\ k (label st' (nth i refs' 0)) = k (label st (nth i refs 0)))
  /\ (forall i j, i < length refs -> j < length refs ->
        (nth i refs' 0 = nth j refs' 0 <-> k (label st (nth i refs 0)) = k (label st (nth j refs 0)))).
Proof.
  intros st tr n V W Vr. unfold migrate_tree.
  destruct (recon_refs lower st n true (t_refs (gettree st tr)) []) as [[st1 refs'] memo'] eqn:R. cbn [fst].
  destruct (recon_unify_spec n (ns_cs st n) _ _ _ _ _ _ R eq_refl W) as [X [W1 [_ F]]].
  { intros x t A. discriminate. }
  { exact Vr. }
  assert (G : gettree (set_tree st1 tr (mkTree n refs')) tr = mkTree n refs').
  { unfold gettree. simpl. apply nth_error_some_nth.
    assert (T : length (s_trees st1) = length (s_trees st)).
    { clear - R. revert R. generalize (@nil (oid * oid)). generalize st at 1 3. revert st1 refs' memo'.
      induction (t_refs (gettree st tr)) as [|y ys IHy]; intros st1 refs' memo' s0 m0 R; cbn [recon_refs] in R.
      - injection R as R1 R2 R3. subst. reflexivity.
      - cbn [orb] in R. destruct (alookup y m0).
        + destruct (recon_refs lower (add_member s0 n o) n true ys m0) as [[sa ra] ma] eqn:Q. injection R as R1 R2 R3. subst.
          rewrite (IHy _ _ _ _ _ Q). unfold add_member. destruct (memb o (members s0 n)); reflexivity.
        + destruct (require_taxon lower s0 n (label s0 y) (ns_cs s0 n)) as [sb tb] eqn:Q0.
          destruct (recon_refs lower sb n true ys ((y, tb) :: m0)) as [[sa ra] ma] eqn:Q. injection R as R1 R2 R3. subst.
          rewrite (IHy _ _ _ _ _ Q). unfold require_taxon in Q0. destruct (first_match lower s0 n (ns_cs s0 n) (label s0 y)).
          * injection Q0 as Q1 Q2. subst. reflexivity.
          * unfold new_taxon, alloc_taxon in Q0. injection Q0 as Q1 Q2. subst. reflexivity. }
    destruct (nth_error (s_trees st1) tr) eqn:E; [eapply nth_error_upd_same; exact E|].
    apply nth_error_None in E. lia. }
  rewrite G. cbn [t_ns t_refs].
  set (refs := t_refs (gettree st tr)) in *.
  assert (Len : length refs' = length refs).
  { apply Forall2_len in F. rewrite map_length in F. symmetry. exact F. }
  assert (P : forall i, i < length refs ->
            first_match lower st1 n (ns_cs st n) (label st (nth i refs 0)) = Some (nth i refs' 0)).
  { intros i Hi. pose proof (Forall2_nth _ _ _ _ _ (label st 0) 0 i F) as Q. cbv beta in Q.
    rewrite map_length in Q. specialize (Q Hi). rewrite map_nth in Q. exact Q. }
  split; [reflexivity|]. split; [exact Len|]. split.
  - intros i Hi. destruct (first_match_some _ _ _ _ _ (P i Hi)) as [I K]. split; [exact I | symmetry; exact K].
  - intros i j Hi Hj. split.
    + intro E. destruct (first_match_some _ _ _ _ _ (P i Hi)) as [_ Ki].
      destruct (first_match_some _ _ _ _ _ (P j Hj)) as [_ Kj]. rewrite Ki, Kj, E. reflexivity.
    + intro E. pose proof (first_match_key st1 n (ns_cs st n) _ _ E) as Q. rewrite (P i Hi), (P j Hj) in Q.
      injection Q as Q. exact Q.
Qed.


(* ---- a whole tree list: one shared taxon_mapping_memo ---- *)
Lemma recon_refs_trees : forall n u refs st memo st' refs' memo',
  recon_refs lower st n u refs memo = (st', refs', memo') -> s_trees st' = s_trees st.
Proof.
  intros n u refs. induction refs as [|x r IH]; intros st memo st' refs' memo' H; cbn [recon_refs] in H.
  - injection H as H1 H2 H3. subst. reflexivity.
  - destruct (u || negb (memb x (members st n))).
    + destruct (alookup x memo) as [t|].
      * destruct (recon_refs lower (add_member st n t) n u r memo) as [[s2 r2] m2] eqn:R. injection H as H1 H2 H3. subst.
        rewrite (IH _ _ _ _ _ R). unfold add_member. destruct (memb t (members st n)); reflexivity.
      * destruct (if u then require_taxon lower st n (label st x) (ns_cs st n) else new_taxon st n (label st x)) as [s1 t] eqn:Q.
        destruct (recon_refs lower s1 n u r ((x, t) :: memo)) as [[s2 r2] m2] eqn:R. injection H as H1 H2 H3. subst.
        rewrite (IH _ _ _ _ _ R). destruct u.
        -- unfold require_taxon in Q. destruct (first_match lower st n (ns_cs st n) (label st x)).
           ++ injection Q as Q1 Q2. subst. reflexivity.
           ++ unfold new_taxon, alloc_taxon in Q. injection Q as Q1 Q2. subst. reflexivity.
        -- unfold new_taxon, alloc_taxon in Q. injection Q as Q1 Q2. subst. reflexivity.
    + destruct (recon_refs lower st n u r memo) as [[s2 r2] m2] eqn:R. injection H as H1 H2 H3. subst.
      eapply IH. exact R.
Qed.

Lemma gettree_upd_same : forall st st1 tr t,
  s_trees st1 = s_trees st -> tr < length (s_trees st) -> gettree (set_tree st1 tr t) tr = t.
Proof.
  intros st st1 tr t T V. unfold gettree. simpl. apply nth_error_some_nth.
  destruct (nth_error (s_trees st1) tr) eqn:E; [eapply nth_error_upd_same; exact E|].
  apply nth_error_None in E. rewrite T in E. lia.
Qed.

Lemma gettree_upd_other : forall st st1 tr t x,
  s_trees st1 = s_trees st -> x <> tr -> gettree (set_tree st1 tr t) x = gettree st x.
Proof.
  intros st st1 tr t x T Ne. unfold gettree. simpl.
  destruct (nth_error (upd (s_trees st1) tr t) x) eqn:E.
  - rewrite (nth_error_some_nth _ _ _ dtree _ E). rewrite nth_error_upd_other in E by exact Ne. rewrite T in E.
    symmetry. apply nth_error_some_nth. exact E.
  - rewrite nth_overflow by (apply nth_error_None; exact E).
    rewrite nth_error_upd_other in E by exact Ne. rewrite T in E.
    rewrite nth_overflow by (apply nth_error_None; exact E). reflexivity.
Qed.

Lemma migrate_trees_unify : forall n cs trs st memo,
  NoDup trs -> (forall tr, In tr trs -> tr < length (s_trees st)) ->
  ns_cs st n = cs -> wf_ns n st -> memo_ok n cs st memo ->
  (forall tr x, In tr trs -> In x (t_refs (gettree st tr)) -> x < length (s_lab st)) ->
  let st' := fst (migrate_trees lower st n true trs memo) in
  ext n st st' /\ wf_ns n st' /\ memo_ok n cs st' (snd (migrate_trees lower st n true trs memo))
  /\ (forall x, ~ In x trs -> gettree st' x = gettree st x)
  /\ (forall tr, In tr trs ->
        t_ns (gettree st' tr) = n /\
        Forall2 (fun l t => first_match lower st' n cs l = Some t)
                (map (label st) (t_refs (gettree st tr))) (t_refs (gettree st' tr))).
Proof.
  intros n cs trs. induction trs as [|tr r IH]; intros st memo ND V Ecs W Mo Vr; cbn [migrate_trees].
  - cbn [fst snd]. split; [apply ext_refl|]. split; [exact W|]. split; [exact Mo|]. split; [reflexivity | intros tr []].
  - apply NoDup_cons_iff in ND. destruct ND as [Nin ND'].
    destruct (recon_refs lower st n true (t_refs (gettree st tr)) memo) as [[st1 refs'] memo1] eqn:R.
    assert (Q : migrate_tree lower st tr n true memo = (set_tree st1 tr (mkTree n refs'), memo1))
      by (unfold migrate_tree; rewrite R; reflexivity).
    rewrite Q.
    destruct (recon_unify_spec n cs _ _ _ _ _ _ R Ecs W Mo) as [X1 [W1 [Mo1 F1]]].
    { intros x Hx. eapply Vr; [left; reflexivity | exact Hx]. }
    pose proof (recon_refs_trees _ _ _ _ _ _ _ _ R) as T1.
    set (s1 := set_tree st1 tr (mkTree n refs')).
    assert (Vtr : tr < length (s_trees st)) by (apply V; left; reflexivity).
    assert (Xs : ext n st s1) by exact X1.
    assert (Ws : wf_ns n s1) by exact W1.
    assert (Ms : memo_ok n cs s1 memo1) by exact Mo1.
    assert (Gs : gettree s1 tr = mkTree n refs') by (apply (gettree_upd_same st st1); assumption).
    assert (Go : forall x, x <> tr -> gettree s1 x = gettree st x) by (intros x Ne; apply (gettree_upd_other st st1); assumption).
    destruct (IH s1 memo1 ND') as [X2 [W2 [Mo2 [K2 F2]]]].
    + intros x Hx. unfold s1. simpl. rewrite upd_length, T1. apply V. right. exact Hx.
    + destruct X1 as [_ [_ E]]. change (ns_cs s1 n) with (ns_cs st1 n). congruence.
    + exact Ws.
    + exact Ms.
    + intros x y Hx Hy. assert (Ne : x <> tr) by (intro E; subst; contradiction). rewrite (Go x Ne) in Hy.
      pose proof (ext_len n st s1 Xs). specialize (Vr x y (or_intror Hx) Hy). change (s_lab s1) with (s_lab st1) in *. lia.
    + cbn [fst snd]. split; [eapply ext_trans; eassumption|]. split; [exact W2|]. split; [exact Mo2|]. split.
      * intros x Hx. rewrite K2 by (intro Hr; apply Hx; right; exact Hr).
        apply Go. intro E. apply Hx. left. symmetry. exact E.
      * intros x [Hx|Hx].
        -- subst x. rewrite (K2 tr Nin), Gs. cbn [t_ns t_refs]. split; [reflexivity|].
           eapply Forall2_imp; [|exact F1]. intros a b Hab. cbv beta in *.
           eapply first_match_stable; [exact X2 | exact Ws | exact Hab].
        -- assert (Ne : x <> tr) by (intro E; subst; contradiction).
           destruct (F2 x Hx) as [N2 Q2]. split; [exact N2|]. rewrite (Go x Ne) in Q2.
           assert (Em : map (label s1) (t_refs (gettree st x)) = map (label st) (t_refs (gettree st x))).
           { apply map_ext_in. intros y Hy. apply (label_ext n st s1 y Xs). eapply Vr; [right; exact Hx | exact Hy]. }
           rewrite <- Em. exact Q2.
Qed.

Lemma migrate_trees_lists : forall n u trs st memo,
  s_lists (fst (migrate_trees lower st n u trs memo)) = s_lists st.
Proof.
  intros n u trs. induction trs as [|tr r IH]; intros st memo; [reflexivity|]. cbn [migrate_trees].
  unfold migrate_tree. destruct (recon_refs lower st n u (t_refs (gettree st tr)) memo) as [[s1 rf] m1] eqn:R.
  rewrite IH. simpl. destruct (recon_refs_spec lower _ _ _ _ _ _ _ _ R) as [[[_ [L _]] _] _]. exact L.
Qed.

(* TreeList.migrate_taxon_namespace(n): across ALL trees of the list (one shared memo) two nodes end on one
   taxon exactly when their labels are equal under the target's case rule *)
Lemma migrate_list_unifies : forall st l n,
  l < length (s_lists st) -> NoDup (l_trees (getlist st l)) ->
  (forall tr, In tr (l_trees (getlist st l)) -> tr < length (s_trees st)) ->
  wf_ns n st ->
  (forall tr x, In tr (l_trees (getlist st l)) -> In x (t_refs (gettree st tr)) -> x < length (s_lab st)) ->
  let st' := fst (migrate_list lower st l n true []) in
  let k := key lower (ns_cs st n) in
  l_ns (getlist st' l) = n /\ l_trees (getlist st' l) = l_trees (getlist st l)
  /\ (forall tr, In tr (l_trees (getlist st l)) ->
        t_ns (gettree st' tr) = n /\ length (t_refs (gettree st' tr)) = length (t_refs (gettree st tr))
        /\ forall i, i < length (t_refs (gettree st tr)) ->
             In (nth i (t_refs (gettree st' tr)) 0) (members st' n)
             /\ k (label st' (nth i (t_refs (gettree st' tr)) 0)) = k (label st (nth i (t_refs (gettree st tr)) 0)))
  /\ (forall tr1 tr2 i j, In tr1 (l_trees (getlist st l)) -> In tr2 (l_trees (getlist st l)) ->
        i < length (t_refs (gettree st tr1)) -> j < length (t_refs (gettree st tr2)) ->
        (nth i (t_refs (gettree st' tr1)) 0 = nth j (t_refs (gettree st' tr2)) 0
         <-> k (label st (nth i (t_refs (gettree st tr1)) 0)) = k (label st (nth j (t_refs (gettree st tr2)) 0)))).
Proof.
  intros st l n Vl ND Vt W Vr. unfold migrate_list, reconstruct_list.
  set (trs := l_trees (getlist st l)) in *.
  set (st0 := set_list st l (mkTL n trs)).
  assert (G0 : getlist st0 l = mkTL n trs).
  { unfold getlist, st0. simpl. apply nth_error_some_nth. destruct (nth_error (s_lists st) l) eqn:E.
    - eapply nth_error_upd_same. exact E.
    - apply nth_error_None in E. lia. }
  rewrite G0. cbn [l_ns l_trees].
  destruct (migrate_trees_unify n (ns_cs st n) trs st0 [] ND) as [X [W' [_ [_ F]]]].
  - exact Vt.
  - reflexivity.
  - exact W.
  - intros x t A. discriminate.
  - exact Vr.
  - set (st' := fst (migrate_trees lower st0 n true trs [])) in *.
    assert (L' : s_lists st' = s_lists st0) by apply migrate_trees_lists.
    assert (G' : getlist st' l = mkTL n trs) by (unfold getlist; rewrite L'; exact G0).
    rewrite G'. cbn [l_ns l_trees]. split; [reflexivity|]. split; [reflexivity|].
    assert (P : forall tr i, In tr trs -> i < length (t_refs (gettree st tr)) ->
              first_match lower st' n (ns_cs st n) (label st (nth i (t_refs (gettree st tr)) 0))
              = Some (nth i (t_refs (gettree st' tr)) 0)).
    { intros tr i Htr Hi. destruct (F tr Htr) as [_ Q].
      pose proof (Forall2_nth _ _ _ _ _ (label st 0) 0 i Q) as Q'. cbv beta in Q'.
      rewrite map_length in Q'. specialize (Q' Hi). rewrite map_nth in Q'. exact Q'. }
    split.
    + intros tr Htr. destruct (F tr Htr) as [N Q]. split; [exact N|]. split.
      * apply Forall2_len in Q. rewrite map_length in Q. symmetry. exact Q.
      * intros i Hi. destruct (first_match_some _ _ _ _ _ (P tr i Htr Hi)) as [I K]. split; [exact I | symmetry; exact K].
    + intros tr1 tr2 i j H1 H2 Hi Hj. split.
      * intro E. destruct (first_match_some _ _ _ _ _ (P tr1 i H1 Hi)) as [_ Ki].
        destruct (first_match_some _ _ _ _ _ (P tr2 j H2 Hj)) as [_ Kj]. rewrite Ki, Kj, E. reflexivity.
      * intro E. pose proof (first_match_key st' n (ns_cs st n) _ _ E) as Q. rewrite (P tr1 i H1 Hi), (P tr2 j H2 Hj) in Q.
        injection Q as Q. exact Q.
Qed.

End WithLower.
