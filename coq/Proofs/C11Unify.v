(* C11: migration by label unifies exactly - equal labels (under the target's case rule) end on ONE
   taxon, different ones on DIFFERENT taxa, nothing is dropped *)
From Coq Require Import List Bool Arith ZArith Lia.
From DV Require Import Model.PyPrims Model.C11Model Proofs.C11Base.
Import ListNotations.
Open Scope nat_scope.

Lemma find_ext_in : forall A (p q : A -> bool) l, (forall x, In x l -> p x = q x) -> find p l = find q l.
Proof.
  intros A p q l. induction l as [|y r IH]; intro H; simpl; [reflexivity|].
  rewrite (H y (or_introl eq_refl)). destruct (q y); [reflexivity|]. apply IH. intros x Hx. apply H. right. exact Hx.
Qed.

Lemma find_app : forall A (p : A -> bool) a b,
  find p (a ++ b) = match find p a with Some x => Some x | None => find p b end.
Proof.
  intros A p a b. induction a as [|y r IH]; simpl; [reflexivity|]. destruct (p y); [reflexivity | exact IH].
Qed.

Lemma Forall2_nth : forall A B (P : A -> B -> Prop) a b da db i,
  Forall2 P a b -> i < length a -> P (nth i a da) (nth i b db).
Proof.
  intros A B P a b da db i H. revert i. induction H as [|x y a b Hxy H IH]; intros i Hi; simpl in Hi; [lia|].
  destruct i as [|i]; simpl; [exact Hxy | apply IH; lia].
Qed.

Section WithLower.
Variable lower : lbl -> lbl.

(* namespace n only gained members at the end, taxa were only created, its case flag is unchanged *)
Definition ext (n : oid) (st st' : state) : Prop :=
  (exists L, s_lab st' = s_lab st ++ L) /\ (exists M, members st' n = members st n ++ M)
  /\ ns_cs st' n = ns_cs st n.
Definition wf_ns (n : oid) (st : state) : Prop := forall x, In x (members st n) -> x < length (s_lab st).

Lemma ext_refl : forall n st, ext n st st.
Proof. intros. split; [exists []; rewrite app_nil_r; reflexivity|]. split; [exists []; rewrite app_nil_r; reflexivity | reflexivity]. Qed.

Lemma ext_trans : forall n a b c, ext n a b -> ext n b c -> ext n a c.
Proof.
  intros n a b c [[L1 E1] [[M1 F1] G1]] [[L2 E2] [[M2 F2] G2]]. split; [|split].
  - exists (L1 ++ L2). rewrite E2, E1, app_assoc. reflexivity.
  - exists (M1 ++ M2). rewrite F2, F1, app_assoc. reflexivity.
  - congruence.
Qed.

Lemma ext_len : forall n st st', ext n st st' -> length (s_lab st) <= length (s_lab st').
Proof. intros n st st' [[L E] _]. rewrite E, app_length. lia. Qed.

Lemma label_ext : forall n st st' x, ext n st st' -> x < length (s_lab st) -> label st' x = label st x.
Proof. intros n st st' x [[L E] _] V. unfold label. rewrite E. apply app_nth1. exact V. Qed.

Lemma first_match_some : forall st n cs l t,
  first_match lower st n cs l = Some t -> In t (members st n) /\ key lower cs l = key lower cs (label st t).
Proof.
  intros st n cs l t H. unfold first_match in H. apply find_some in H. destruct H as [I M].
  split; [exact I|]. unfold matches in M. apply Nat.eqb_eq. exact M.
Qed.

Lemma first_match_key : forall st n cs l1 l2,
  key lower cs l1 = key lower cs l2 -> first_match lower st n cs l1 = first_match lower st n cs l2.
Proof.
  intros st n cs l1 l2 E. unfold first_match. apply find_ext_in. intros x _. unfold matches. rewrite E. reflexivity.
Qed.

Lemma first_match_stable : forall n st st' cs l t,
  ext n st st' -> wf_ns n st -> first_match lower st n cs l = Some t -> first_match lower st' n cs l = Some t.
Proof.
  intros n st st' cs l t X W H. unfold first_match in *. destruct X as [LX [[M F] G]]. rewrite F, find_app.
  assert (E : find (matches lower st' cs l) (members st n) = find (matches lower st cs l) (members st n)).
  { apply find_ext_in. intros x Hx. unfold matches. rewrite (label_ext n st st' x); [reflexivity | | apply W, Hx].
    split; [exact LX|]. split; [exists M; exact F | exact G]. }
  rewrite E, H. reflexivity.
Qed.

Lemma new_taxon_ext : forall st n l st' x,
  new_taxon st n l = (st', x) ->
  ext n st st' /\ x = length (s_lab st) /\ s_lab st' = s_lab st ++ [l] /\ members st' n = members st n ++ [x].
Proof.
  intros st n l st' x H. unfold new_taxon, alloc_taxon in H. injection H as H1 H2. subst st' x.
  assert (M : members (set_members
             (mkSt (s_lab st ++ [l]) (s_mem st) (s_cs st) (s_nns st) (s_trees st) (s_lists st) (s_mats st) (s_dss st))
             n (members st n ++ [length (s_lab st)])) n = members st n ++ [length (s_lab st)])
    by apply members_set_members_same.
  split; [|split; [reflexivity|]; split; [reflexivity | exact M]].
  split; [exists [l]; reflexivity|]. split; [exists [length (s_lab st)]; exact M | reflexivity].
Qed.

Lemma require_taxon_first : forall st n l st' t,
  require_taxon lower st n l (ns_cs st n) = (st', t) -> wf_ns n st ->
  ext n st st' /\ wf_ns n st' /\ first_match lower st' n (ns_cs st n) l = Some t.
Proof.
  intros st n l st' t H W. unfold require_taxon in H.
  destruct (first_match lower st n (ns_cs st n) l) as [y|] eqn:E.
  - injection H as H1 H2. subst st' t. split; [apply ext_refl|]. split; [exact W | exact E].
  - destruct (new_taxon_ext _ _ _ _ _ H) as [X [Ex [EL EM]]]. split; [exact X|]. split.
    + intros y Hy. rewrite EM in Hy. rewrite EL, app_length. simpl. apply in_app_or in Hy.
      destruct Hy as [Hy|[Hy|[]]]; [specialize (W y Hy); lia | subst; lia].
    + unfold first_match in *. rewrite EM, find_app.
      assert (E' : find (matches lower st' (ns_cs st n) l) (members st n) = None).
      { rewrite <- E. apply find_ext_in. intros y Hy. unfold matches.
        rewrite (label_ext n st st' y X (W y Hy)). reflexivity. }
      rewrite E'. simpl. unfold matches. assert (Lx : label st' t = l).
      { unfold label. rewrite EL, Ex, app_nth2 by lia. rewrite Nat.sub_diag. reflexivity. }
      rewrite Lx, Nat.eqb_refl. reflexivity.
Qed.

(* the memo only holds what a look-up by label would give *)
Definition memo_ok (n : oid) (cs : bool) (st : state) (memo : list (oid * oid)) : Prop :=
  forall x t, alookup x memo = Some t ->
              x < length (s_lab st) /\ first_match lower st n cs (label st x) = Some t.

Lemma memo_ok_ext : forall n cs st st' memo,
  ext n st st' -> wf_ns n st -> memo_ok n cs st memo -> memo_ok n cs st' memo.
Proof.
  intros n cs st st' memo X W H x t A. destruct (H x t A) as [V F]. split.
  - pose proof (ext_len n st st' X). lia.
  - rewrite (label_ext n st st' x X V). eapply first_match_stable; eassumption.
Qed.

Lemma recon_unify_spec : forall n cs refs st memo st' refs' memo',
  recon_refs lower st n true refs memo = (st', refs', memo') ->
  ns_cs st n = cs -> wf_ns n st -> memo_ok n cs st memo ->
  (forall x, In x refs -> x < length (s_lab st)) ->
  ext n st st' /\ wf_ns n st' /\ memo_ok n cs st' memo'
  /\ Forall2 (fun l t => first_match lower st' n cs l = Some t) (map (label st) refs) refs'.
Proof.
  intros n cs refs. induction refs as [|x r IH]; intros st memo st' refs' memo' H Ecs W Mo V; cbn [recon_refs] in H.
  - injection H as H1 H2 H3. subst. split; [apply ext_refl|]. split; [exact W|]. split; [exact Mo | constructor].
  - cbn [orb] in H. destruct (alookup x memo) as [t|] eqn:A.
    + destruct (Mo x t A) as [Vx F]. destruct (first_match_some _ _ _ _ _ F) as [I _].
      assert (Eadd : add_member st n t = st).
      { unfold add_member. assert (Mb : memb t (members st n) = true) by (apply memb_In; exact I). rewrite Mb. reflexivity. }
      rewrite Eadd in H.
      destruct (recon_refs lower st n true r memo) as [[st2 r2] m2] eqn:R. injection H as H1 H2 H3. subst.
      destruct (IH _ _ _ _ _ R eq_refl W Mo) as [X [W2 [Mo2 F2]]]; [intros y Hy; apply V; right; exact Hy|].
      split; [exact X|]. split; [exact W2|]. split; [exact Mo2|]. simpl. constructor; [|exact F2].
      eapply first_match_stable; eassumption.
    + destruct (require_taxon lower st n (label st x) (ns_cs st n)) as [st1 t] eqn:Q.
      destruct (recon_refs lower st1 n true r ((x, t) :: memo)) as [[st2 r2] m2] eqn:R.
      injection H as H1 H2 H3. subst.
      destruct (require_taxon_first _ _ _ _ _ Q W) as [X1 [W1 F1]].
      assert (Vx : x < length (s_lab st)) by (apply V; left; reflexivity).
      assert (Ecs1 : ns_cs st1 n = ns_cs st n) by apply X1.
      destruct (IH _ _ _ _ _ R Ecs1 W1) as [X2 [W2 [Mo2 F2]]].
      * intros y t0 A0. rewrite alookup_cons in A0. destruct (Nat.eqb y x) eqn:Eq.
        -- apply Nat.eqb_eq in Eq. subst y. injection A0 as A0. subst t0.
           split; [pose proof (ext_len n st st1 X1); lia|]. rewrite (label_ext n st st1 x X1 Vx). exact F1.
        -- apply (memo_ok_ext n (ns_cs st n) st st1 memo X1 W Mo y t0 A0).
      * intros y Hy. pose proof (ext_len n st st1 X1). specialize (V y (or_intror Hy)). lia.
      * split; [eapply ext_trans; eassumption|]. split; [exact W2|]. split; [exact Mo2|].
        simpl. constructor.
        -- eapply first_match_stable; eassumption.
        -- assert (Em : map (label st1) r = map (label st) r).
           { apply map_ext_in. intros y Hy. apply (label_ext n st st1 y X1). apply V. right. exact Hy. }
           rewrite <- Em. exact F2.
Qed.

(* tree.migrate_taxon_namespace(n) / reconstruct: the node taxa before and after *)
Lemma migrate_tree_unifies : forall st tr n,
  tr < length (s_trees st) -> wf_ns n st ->
  (forall x, In x (t_refs (gettree st tr)) -> x < length (s_lab st)) ->
  let st' := fst (migrate_tree lower st tr n true []) in
  let refs := t_refs (gettree st tr) in
  let refs' := t_refs (gettree st' tr) in
  let k := key lower (ns_cs st n) in
  t_ns (gettree st' tr) = n /\ length refs' = length refs
  /\ (forall i, i < length refs ->
        In (nth i refs' 0) (members st' n) /\ k (label st' (nth i refs' 0)) = k (label st (nth i refs 0)))
  /\ (forall i j, i < length refs -> j < length refs ->
        (nth i refs' 0 = nth j refs' 0 <-> k (label st (nth i refs 0)) = k (label st (nth j refs 0)))).
Proof.
  intros st tr n V W Vr. unfold migrate_tree.
  destruct (recon_refs lower st n true (t_refs (gettree st tr)) []) as [[st1 refs'] memo'] eqn:R. cbn [fst].
  destruct (recon_unify_spec n (ns_cs st n) _ _ _ _ _ _ R eq_refl W) as [X [W1 [_ F]]].
  { intros x t A. discriminate. }
  { exact Vr. }
  assert (G : gettree (set_tree st1 tr (mkTree n refs')) tr = mkTree n refs').
  { unfold gettree. simpl. apply nth_error_some_nth.
    assert (T : length (s_trees st1) = length (s_trees st)).
    { clear - R. revert R. generalize (@nil (oid * oid)). generalize st at 1 3. revert st1 refs' memo'.
      induction (t_refs (gettree st tr)) as [|y ys IHy]; intros st1 refs' memo' s0 m0 R; cbn [recon_refs] in R.
      - injection R as R1 R2 R3. subst. reflexivity.
      - cbn [orb] in R. destruct (alookup y m0).
        + destruct (recon_refs lower (add_member s0 n o) n true ys m0) as [[sa ra] ma] eqn:Q. injection R as R1 R2 R3. subst.
          rewrite (IHy _ _ _ _ _ Q). unfold add_member. destruct (memb o (members s0 n)); reflexivity.
        + destruct (require_taxon lower s0 n (label s0 y) (ns_cs s0 n)) as [sb tb] eqn:Q0.
          destruct (recon_refs lower sb n true ys ((y, tb) :: m0)) as [[sa ra] ma] eqn:Q. injection R as R1 R2 R3. subst.
          rewrite (IHy _ _ _ _ _ Q). unfold require_taxon in Q0. destruct (first_match lower s0 n (ns_cs s0 n) (label s0 y)).
          * injection Q0 as Q1 Q2. subst. reflexivity.
          * unfold new_taxon, alloc_taxon in Q0. injection Q0 as Q1 Q2. subst. reflexivity. }
    destruct (nth_error (s_trees st1) tr) eqn:E; [eapply nth_error_upd_same; exact E|].
    apply nth_error_None in E. lia. }
  rewrite G. cbn [t_ns t_refs].
  set (refs := t_refs (gettree st tr)) in *.
  assert (Len : length refs' = length refs).
  { apply Forall2_length in F. rewrite map_length in F. symmetry. exact F. }
  assert (P : forall i, i < length refs ->
            first_match lower st1 n (ns_cs st n) (label st (nth i refs 0)) = Some (nth i refs' 0)).
  { intros i Hi. pose proof (Forall2_nth _ _ _ _ _ (label st 0) 0 i F) as Q. cbv beta in Q.
    rewrite map_length in Q. specialize (Q Hi). rewrite map_nth in Q. exact Q. }
  split; [reflexivity|]. split; [exact Len|]. split.
  - intros i Hi. destruct (first_match_some _ _ _ _ _ (P i Hi)) as [I K]. split; [exact I | symmetry; exact K].
  - intros i j Hi Hj. split.
    + intro E. destruct (first_match_some _ _ _ _ _ (P i Hi)) as [_ Ki].
      destruct (first_match_some _ _ _ _ _ (P j Hj)) as [_ Kj]. rewrite Ki, Kj, E. reflexivity.
    + intro E. pose proof (first_match_key st1 n (ns_cs st n) _ _ E) as Q. rewrite (P i Hi), (P j Hj) in Q.
      injection Q as Q. exact Q.
Qed.

End WithLower.
