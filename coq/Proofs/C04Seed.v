(* C04: moving the seed of a tree that is not rooted (Tree.reseed_at) leaves the split -> length map of
   its encoding unchanged: the lengths travel with the inverted edges, and the clean-up steps
   (unifurcation suppression, basal bifurcation collapse) merge edges that carry the same split by adding
   their lengths.  Proved for the repaired basal collapse (mg = true) and, for the weighted distances,
   the repaired missing-length policy (ZeroBoth). *)
From Coq Require Import ZArith List Bool Lia Permutation.
From DV Require Import Model.PyPrims Model.Tree Model.C04Model Model.C04Spec Gen.BitFns
  Proofs.C04Lists Proofs.C04Loops Proofs.C04Bits Proofs.C04Core Proofs.C04Sets Proofs.C04NoDup.
Import ListNotations.
Open Scope Z_scope.

(* ------------------------------------------------------------------------------------------ *)
(* total length per split *)

Definition ovl (o : option Z) : Z := match o with Some v => v | None => 0 end.

Lemma ov_ovl (x : option Z * bool) : ov x = ovl (fst x).
Proof. reflexivity. Qed.

Definition tot (d : list (Z * (option Z * bool))) (m : Z) : Z :=
  zsum (map (fun kx => if Z.eqb (fst kx) m then ov (snd kx) else 0) d).

Lemma tot_app d d' m : tot (d ++ d') m = tot d m + tot d' m.
Proof. unfold tot. rewrite map_app, zsum_app. reflexivity. Qed.

Lemma tot_perm d d' m : Permutation d d' -> tot d m = tot d' m.
Proof. intro H. unfold tot. apply zsum_perm, Permutation_map, H. Qed.

Lemma tot_absent d m : ~ In m (keys d) -> tot d m = 0.
Proof.
  intro H. unfold tot. apply zsum_map_zero. intros [k x] Hin. simpl.
  destruct (Z.eqb k m) eqn:E; [|reflexivity]. apply Z.eqb_eq in E. subst. exfalso. apply H.
  unfold keys. apply in_map_iff. exists (m, x). tauto.
Qed.

Lemma tot_val d m : NoDup (keys d) -> tot d m = val d m.
Proof.
  induction d as [|[k x] r IH]; intro N; [reflexivity|].
  inversion N as [|? ? Hk Hr]; subst. unfold tot, val in *. cbn [map fst snd zlookup]. unfold zsum in *. cbn [fold_right].
  rewrite (Z.eqb_sym k m). destruct (Z.eqb m k) eqn:E.
  - apply Z.eqb_eq in E. subst. fold (zsum (map (fun kx => if Z.eqb (fst kx) k then ov (snd kx) else 0) r)).
    change (zsum (map (fun kx : Z * (option Z * bool) => if Z.eqb (fst kx) k then ov (snd kx) else 0) r)) with (tot r k).
    rewrite (tot_absent r k Hk). lia.
  - rewrite IH by exact Hr. lia.
Qed.

(* on post-order node lists, with any key function on leafset masks *)
Definition ptot (K : Z -> Z) (ns : list (Z * (Z * (option Z * bool)))) (m : Z) : Z :=
  zsum (map (fun n => if Z.eqb (K (fst (snd n))) m then ov (snd (snd n)) else 0) ns).

Lemma ptot_app K a b m : ptot K (a ++ b) m = ptot K a m + ptot K b m.
Proof. unfold ptot. rewrite map_app, zsum_app. reflexivity. Qed.

Lemma ptot_one K i M x m : ptot K [(i, (M, x))] m = if Z.eqb (K M) m then ov x else 0.
Proof. unfold ptot, zsum. simpl. lia. Qed.

Lemma tot_entries_n acc t r m :
  tot (entries_n acc (t, r)) m = ptot (split_of r (lmask acc t)) (pnodes acc true t) m.
Proof. unfold tot, ptot, entries_n. cbn [fst snd]. rewrite map_map. reflexivity. Qed.

Definition pkeys (K : Z -> Z) (ns : list (Z * (Z * (option Z * bool)))) : list Z := map (fun n => K (fst (snd n))) ns.

Lemma keys_entries_n acc t r : keys (entries_n acc (t, r)) = pkeys (split_of r (lmask acc t)) (pnodes acc true t).
Proof. unfold keys, pkeys, entries_n. cbn [fst snd]. rewrite map_map. reflexivity. Qed.

Lemma ptot_ext K K' ns m : (forall M, K M = K' M) -> ptot K ns m = ptot K' ns m.
Proof. intro H. unfold ptot. f_equal. apply map_ext. intro n. rewrite H. reflexivity. Qed.

Lemma pkeys_ext K K' ns : (forall M, K M = K' M) -> pkeys K ns = pkeys K' ns.
Proof. intro H. unfold pkeys. apply map_ext. intro n. apply H. Qed.

Lemma ovl_merge e c : ovl (merge_len e c) = ovl e + ovl c.
Proof. destruct e, c; simpl; lia. Qed.

Lemma ovl_add_true a b : ovl (add_len true a b) = ovl a + ovl b.
Proof. destruct a, b; simpl; lia. Qed.

(* ------------------------------------------------------------------------------------------ *)
(* unifurcation suppression keeps totals and key sets *)

Lemma suppress_ptot K acc t : forall b m,
  ptot K (pnodes acc b (suppress t)) m = ptot K (pnodes acc b t) m.
Proof.
  induction t as [i x l e ks IH] using tree_ind'. intros b m. rewrite suppress_unfold.
  destruct ks as [|k [|k2 r]].
  - reflexivity.
  - inversion IH as [|? ? Hk _]; subst. specialize (Hk false m).
    rewrite (pnodes_body acc b (set_len _ _)), body_set_len, id_set_len, lmask_set_len, len_set_len.
    rewrite (pnodes_body acc false (suppress k)) in Hk.
    rewrite ptot_app, ptot_one in *. cbn [pnodes flat_map]. rewrite app_nil_r, ptot_app, ptot_one.
    rewrite <- Hk. rewrite !ov_ovl. cbn [fst]. rewrite ovl_merge.
    assert (EM : lmask acc (T i x l e [k]) = lmask acc (suppress k)).
    { rewrite lmask_suppress. cbn [lmask fold_right]. apply Z.lor_0_r. }
    rewrite EM. destruct (Z.eqb (K (lmask acc (suppress k))) m); lia.
  - rewrite !(pnodes_body acc b), !ptot_app, !ptot_one. cbn [t_len t_id].
    assert (EM : lmask acc (T i x l e (map suppress (k :: k2 :: r))) = lmask acc (T i x l e (k :: k2 :: r))).
    { rewrite <- suppress_many by (simpl; lia). apply lmask_suppress. }
    rewrite EM. f_equal. unfold body. cbn [t_kids].
    clear EM. induction IH as [|k' r' Hk' Hr' IHr']; [reflexivity|].
    cbn [map flat_map]. rewrite !ptot_app, Hk', IHr'. reflexivity.
Qed.

Lemma suppress_pkeys K acc t : forall b m,
  In m (pkeys K (pnodes acc b (suppress t))) <-> In m (pkeys K (pnodes acc b t)).
Proof.
  induction t as [i x l e ks IH] using tree_ind'. intros b m. rewrite suppress_unfold.
  destruct ks as [|k [|k2 r]].
  - tauto.
  - inversion IH as [|? ? Hk _]; subst. specialize (Hk false m).
    rewrite (pnodes_body acc b (set_len _ _)), body_set_len, id_set_len, lmask_set_len, len_set_len.
    rewrite (pnodes_body acc false (suppress k)) in Hk.
    unfold pkeys in *. rewrite !map_app in *. cbn [map fst snd] in *. cbn [pnodes flat_map]. rewrite app_nil_r, map_app. cbn [map fst snd].
    assert (EM : lmask acc (T i x l e [k]) = lmask acc (suppress k)).
    { rewrite lmask_suppress. cbn [lmask fold_right]. apply Z.lor_0_r. }
    rewrite EM. rewrite !in_app_iff in *. cbn [In] in *. rewrite <- Hk. tauto.
  - rewrite !(pnodes_body acc b). unfold pkeys. rewrite !map_app. cbn [map fst snd t_len t_id].
    assert (EM : lmask acc (T i x l e (map suppress (k :: k2 :: r))) = lmask acc (T i x l e (k :: k2 :: r))).
    { rewrite <- suppress_many by (simpl; lia). apply lmask_suppress. }
    change (suppress k :: suppress k2 :: map suppress r) with (map suppress (k :: k2 :: r)).
    rewrite EM, !in_app_iff. unfold body. cbn [t_kids].
    assert (E : In m (map (fun n => K (fst (snd n))) (flat_map (pnodes acc false) (map suppress (k :: k2 :: r))))
                <-> In m (map (fun n => K (fst (snd n))) (flat_map (pnodes acc false) (k :: k2 :: r)))).
    { clear EM. induction IH as [|k' r' Hk' Hr' IHr']; [tauto|].
      cbn [map flat_map]. rewrite !map_app, !in_app_iff. specialize (Hk' false m). unfold pkeys in Hk'. rewrite Hk', IHr'. tauto. }
    rewrite E. tauto.
Qed.

(* ------------------------------------------------------------------------------------------ *)
(* the basal collapse (repaired form) keeps totals and key sets when the two seed children are
   disjoint (distinct taxa): their two edges carry the same split *)

Lemma basal_same_key acc i x l e c0 c1 :
  good acc (T i x l e [c0; c1]) ->
  split_of (Some false) (lmask acc (T i x l e [c0; c1])) (lmask acc c0)
  = split_of (Some false) (lmask acc (T i x l e [c0; c1])) (lmask acc c1).
Proof.
  intro G. set (t := T i x l e [c0; c1]).
  pose proof (good_kid acc i x l e _ c0 G (or_introl eq_refl)) as G0.
  pose proof (good_kid acc i x l e _ c1 G (or_intror (or_introl eq_refl))) as G1.
  unfold split_of. cbn [is_true]. apply normalize_complement.
  - pose proof (lmask_nonneg acc t). pose proof (good_mask_nonzero acc t G). lia.
  - unfold t. cbn [lmask fold_right]. rewrite Z.lor_0_r. reflexivity.
  - apply masks_disjoint; try assumption.
    apply (good_kids_disjoint acc i x l e [c0; c1] c0 c1 G); [left; reflexivity | right; left; reflexivity|].
    pose proof (good_kids_nodup acc i x l e _ G) as ND. inversion ND as [|? ? H1 _]; subst. intro E. apply H1. left. symmetry. exact E.
Qed.

Lemma lmask_collapsed mg acc i x l e c0 c1 : lmask acc (collapsed mg i x l e c0 c1) = lmask acc (T i x l e [c0; c1]).
Proof.
  destruct (collapse_basal_2 mg i x l e c0 c1) as [E _]. rewrite <- E.
  destruct (collapse_basal mg (T i x l e [c0; c1])) as [u d] eqn:EC. cbn [fst]. eapply lmask_collapse, EC.
Qed.

Lemma collapsed_ptot acc i x l e c0 c1 m :
  good acc (T i x l e [c0; c1]) ->
  let K := split_of (Some false) (lmask acc (T i x l e [c0; c1])) in
  ptot K (pnodes acc true (collapsed true i x l e c0 c1)) m = ptot K (pnodes acc true (T i x l e [c0; c1])) m /\
  (In m (pkeys K (pnodes acc true (collapsed true i x l e c0 c1))) <-> In m (pkeys K (pnodes acc true (T i x l e [c0; c1])))).
Proof.
  intros G K. pose proof (basal_same_key acc i x l e c0 c1 G) as SK. fold K in SK.
  pose proof (lmask_collapsed true acc i x l e c0 c1) as LM.
  unfold collapsed in *.
  destruct (Nat.leb 2 (nkids c1)) eqn:A; [|destruct (Nat.leb 2 (nkids c0)) eqn:B]; [| |split; tauto].
  - rewrite (pnodes_body acc true (T i x l e (_ :: _))), LM. rewrite (pnodes_body acc true (T i x l e [c0; c1])).
    unfold body. cbn [t_kids t_id t_len flat_map]. rewrite app_nil_r.
    rewrite (pnodes_body acc false (set_len c0 _)), body_set_len, id_set_len, lmask_set_len, len_set_len.
    rewrite (pnodes_body acc false c0), (pnodes_body acc false c1). unfold body.
    split.
    + rewrite !ptot_app, !ptot_one, !ov_ovl. cbn [fst]. rewrite ovl_add_true, SK.
      destruct (Z.eqb (K (lmask acc c1)) m); lia.
    + unfold pkeys. rewrite !map_app. cbn [map fst snd]. rewrite !in_app_iff. cbn [In]. rewrite SK. tauto.
  - rewrite (pnodes_body acc true (T i x l e (_ ++ _))), LM. rewrite (pnodes_body acc true (T i x l e [c0; c1])).
    unfold body. cbn [t_kids t_id t_len flat_map]. rewrite app_nil_r, flat_map_app. cbn [flat_map]. rewrite app_nil_r.
    rewrite (pnodes_body acc false (set_len c1 _)), body_set_len, id_set_len, lmask_set_len, len_set_len.
    rewrite (pnodes_body acc false c0), (pnodes_body acc false c1). unfold body.
    split.
    + rewrite !ptot_app, !ptot_one, !ov_ovl. cbn [fst]. rewrite ovl_add_true, SK.
      destruct (Z.eqb (K (lmask acc c1)) m); lia.
    + unfold pkeys. rewrite !map_app. cbn [map fst snd]. rewrite !in_app_iff. cbn [In]. rewrite SK. tauto.
Qed.

(* (N) the normalisation encode_bipartitions() performs keeps, for every split, the total length, and
   keeps the set of splits *)
Theorem normalise_keeps_totals acc t r m :
  good acc t ->
  tot (entries true acc (t, r)) m = tot (entries_n acc (t, r)) m /\
  (In m (splits true acc (t, r)) <-> In m (keys (entries_n acc (t, r)))).
Proof.
  intro G. unfold splits. fold (keys (entries true acc (t, r))). unfold entries.
  destruct (normalise_cases true (t, r)) as [E|[Hr [i [x [l [e [c0 [c1 [Es E]]]]]]]]]; rewrite E; cbn [fst snd] in *.
  - rewrite !tot_entries_n, !keys_entries_n. rewrite lmask_suppress. split; [apply suppress_ptot | apply suppress_pkeys].
  - subst t. rewrite !tot_entries_n, !keys_entries_n. rewrite lmask_suppress, lmask_collapsed.
    assert (ES : forall M, split_of (if collapses c0 c1 then Some false else r) (lmask acc (T i x l e [c0; c1])) M
                       = split_of (Some false) (lmask acc (T i x l e [c0; c1])) M).
    { intro M. unfold split_of. destruct (collapses c0 c1); [reflexivity|]. rewrite Hr. reflexivity. }
    assert (ES' : forall M, split_of r (lmask acc (T i x l e [c0; c1])) M
                        = split_of (Some false) (lmask acc (T i x l e [c0; c1])) M).
    { intro M. unfold split_of. rewrite Hr. reflexivity. }
    destruct (collapsed_ptot acc i x l e c0 c1 m G) as [P1 P2]. cbv zeta in P1, P2.
    split.
    + rewrite suppress_ptot. rewrite (ptot_ext _ _ _ _ ES), (ptot_ext _ _ _ _ ES'). exact P1.
    + rewrite suppress_pkeys. rewrite (pkeys_ext _ _ _ ES), (pkeys_ext _ _ _ ES'). exact P2.
Qed.

(* ------------------------------------------------------------------------------------------ *)
(* (Rot) one inverted edge: the same entries, up to order *)

Lemma remove_nth_split {A} (l1 : list A) c l2 : remove_nth (length l1) (l1 ++ c :: l2) = l1 ++ l2.
Proof. induction l1 as [|a r IH]; simpl; [reflexivity|]. rewrite IH. reflexivity. Qed.

Lemma land_lor_all_zero a l : (forall m, In m l -> Z.land a m = 0) -> Z.land a (lor_all l) = 0.
Proof.
  induction l as [|m r IH]; intro H; unfold lor_all in *; simpl; [apply Z.land_0_r|].
  rewrite Z.land_lor_distr_r, (H m (or_introl eq_refl)), IH; [reflexivity|]. intros m' Hm'. apply H. right. exact Hm'.
Qed.

Lemma lor_shuffle a b c : Z.lor a (Z.lor b c) = Z.lor b (Z.lor a c).
Proof. rewrite !Z.lor_assoc, (Z.lor_comm a b). reflexivity. Qed.

Lemma pids_flat acc (ks : list tree) : map fst (flat_map (pnodes acc false) ks) = flat_map pids ks.
Proof. induction ks as [|k r IH]; simpl; [reflexivity|]. rewrite map_app, pnodes_pids, IH. reflexivity. Qed.

Lemma rotate1_entries acc t r p t1 :
  good acc t -> is_true r = false -> (2 <= nkids t)%nat -> rotate1 t p = Some t1 ->
  Permutation (entries_n acc (t1, r)) (entries_n acc (t, r)) /\ good acc t1 /\
  Permutation (pids t1) (pids t) /\ (2 <= nkids t1)%nat.
Proof.
  intros G Hr L R. destruct t as [i x l e ks]. unfold rotate1 in R.
  destruct (nth_error ks p) as [[ci cx cl ce cks]|] eqn:En; [|discriminate].
  destruct cks as [|ck ckr] eqn:Ecks; [discriminate|]. rewrite <- Ecks in *. inversion R; subst t1. clear R.
  assert (Nc : cks <> []) by (rewrite Ecks; discriminate).
  destruct (nth_error_split ks p En) as [l1 [l2 [Eks Lp]]]. subst p.
  rewrite Eks, remove_nth_split. rewrite Eks in G, L. clear En.
  set (c := T ci cx cl ce cks) in *. set (R' := T i x l ce (l1 ++ l2)).
  assert (N12 : l1 ++ l2 <> []).
  { unfold nkids in L. cbn [t_kids] in L. rewrite app_length in L. simpl in L. destruct l1, l2; simpl in *; try discriminate; lia. }
  pose proof (good_kids_nodup acc i x l e _ G) as NDk.
  assert (Gc : good acc c) by (apply (good_kid acc i x l e _ c G); apply in_or_app; right; left; reflexivity).
  assert (Gk : forall k, In k (l1 ++ l2) -> good acc k /\ Z.land (lmask acc c) (lmask acc k) = 0).
  { intros k Hk. assert (Hin : In k (l1 ++ c :: l2)) by (apply in_app_iff in Hk; apply in_or_app; simpl; tauto).
    pose proof (good_kid acc i x l e _ k G Hin) as Gk'. split; [exact Gk'|].
    apply masks_disjoint; try assumption.
    apply (good_kids_disjoint acc i x l e _ c k G); [apply in_or_app; right; left; reflexivity | exact Hin|].
    intro E. subst k. apply NoDup_remove_2 in NDk. exact (NDk Hk). }
  (* masks *)
  assert (MR : lmask acc R' = lor_all (map (lmask acc) (l1 ++ l2))) by (apply lmask_node; exact N12).
  assert (Mc : lmask acc c = lor_all (map (lmask acc) cks)) by (apply lmask_node; exact Nc).
  assert (Mt : lmask acc (T i x l e (l1 ++ c :: l2)) = Z.lor (lmask acc c) (lmask acc R')).
  { rewrite lmask_node by (destruct l1; discriminate). rewrite MR, !map_app, !lor_all_app. cbn [map].
    unfold lor_all at 2. cbn [fold_right]. fold (lor_all (map (lmask acc) l2)). apply lor_shuffle. }
  assert (Mt1 : lmask acc (T ci cx cl e (cks ++ [R'])) = Z.lor (lmask acc c) (lmask acc R')).
  { rewrite lmask_node by (destruct cks; discriminate). rewrite map_app, lor_all_app, <- Mc. cbn [map].
    unfold lor_all at 1. cbn [fold_right]. rewrite Z.lor_0_r. reflexivity. }
  assert (Dj : Z.land (lmask acc c) (lmask acc R') = 0).
  { rewrite MR. apply land_lor_all_zero. intros m Hm. apply in_map_iff in Hm. destruct Hm as [k [<- Hk]]. apply (Gk k Hk). }
  assert (Pos : 0 < lmask acc (T i x l e (l1 ++ c :: l2))).
  { pose proof (lmask_nonneg acc (T i x l e (l1 ++ c :: l2))). pose proof (good_mask_nonzero acc _ G). lia. }
  (* bits *)
  assert (Bt : bits acc (T i x l e (l1 ++ c :: l2)) = flat_map (bits acc) l1 ++ bits acc c ++ flat_map (bits acc) l2).
  { rewrite bits_node by (destruct l1; discriminate). rewrite flat_map_app. reflexivity. }
  assert (Bt1 : bits acc (T ci cx cl e (cks ++ [R'])) = bits acc c ++ flat_map (bits acc) l1 ++ flat_map (bits acc) l2).
  { rewrite bits_node by (destruct cks; discriminate). rewrite flat_map_app. cbn [flat_map]. rewrite app_nil_r.
    unfold c. rewrite (bits_node acc ci cx cl ce cks Nc). unfold R'. rewrite (bits_node acc i x l ce _ N12), flat_map_app. reflexivity. }
  assert (PB : Permutation (bits acc (T ci cx cl e (cks ++ [R']))) (bits acc (T i x l e (l1 ++ c :: l2)))).
  { rewrite Bt, Bt1. apply Permutation_app_swap_app. }
  split; [|split; [|split]].
  - (* entries *)
    unfold entries_n. cbn [fst snd]. rewrite Mt1, Mt.
    set (K := split_of r (Z.lor (lmask acc c) (lmask acc R'))).
    set (F := fun n : Z * (Z * (option Z * bool)) => (K (fst (snd n)), snd (snd n))).
    cbn [pnodes]. rewrite Mt1, Mt. rewrite !flat_map_app. cbn [flat_map]. rewrite app_nil_r.
    unfold R' at 1. cbn [pnodes]. fold R'. unfold c at 2. cbn [pnodes]. fold c.
    rewrite !flat_map_app, !map_app. cbn [map]. unfold F. cbv beta. cbn [fst snd]. fold F.
    assert (SK : K (lmask acc c) = K (lmask acc R')).
    { unfold K, split_of. rewrite Hr. rewrite Mt in Pos. apply normalize_complement; [exact Pos | reflexivity | exact Dj]. }
    rewrite <- SK.
    set (A := map F (flat_map (pnodes acc false) l1)). set (B := map F (flat_map (pnodes acc false) l2)).
    set (C := map F (flat_map (pnodes acc false) cks)).
    set (X := (K (lmask acc c), (ce, false))). set (Rt := (K (Z.lor (lmask acc c) (lmask acc R')), (e, true))).
    (* C ++ ((A ++ B) ++ [X]) ++ [Rt]  ~  A ++ (C ++ [X]) ++ B ++ [Rt] *)
    rewrite <- !app_assoc. cbn [app].
    apply perm_trans with (l' := A ++ C ++ B ++ [X; Rt]).
    + apply Permutation_app_swap_app.
    + apply Permutation_app_head, Permutation_app_head. apply Permutation_sym. apply (Permutation_middle B [Rt] X).
  - (* good *)
    destruct G as [Hb [Hn Hd]]. repeat split.
    + rewrite has_bits_node by (destruct cks; discriminate). rewrite forallb_app. cbn [forallb]. rewrite andb_true_r.
      rewrite has_bits_node in Hb by (destruct l1; discriminate). rewrite forallb_app in Hb. cbn [forallb] in Hb.
      apply andb_true_iff in Hb. destruct Hb as [H1 H2]. apply andb_true_iff in H2. destruct H2 as [Hc H2].
      unfold c in Hc. rewrite (has_bits_node acc ci cx cl ce cks Nc) in Hc. rewrite Hc. cbn [andb].
      unfold R'. rewrite (has_bits_node acc i x l ce _ N12), forallb_app, H1, H2. reflexivity.
    + intros j Hj. apply Hn. eapply Permutation_in; [exact PB|exact Hj].
    + eapply Permutation_NoDup; [apply Permutation_sym, PB|exact Hd].
  - (* ids *)
    rewrite !pids_node, !flat_map_app. cbn [flat_map]. rewrite app_nil_r. unfold R' at 1. rewrite pids_node, flat_map_app.
    unfold c. rewrite pids_node. rewrite <- !app_assoc. cbn [app].
    set (A := flat_map pids l1). set (B := flat_map pids l2). set (C := flat_map pids cks).
    apply perm_trans with (l' := A ++ C ++ B ++ [i; ci]).
    + apply Permutation_app_swap_app.
    + apply Permutation_app_head, Permutation_app_head.
      apply perm_trans with (l' := B ++ [ci; i]); [apply Permutation_app_head, perm_swap | apply Permutation_sym, (Permutation_middle B [i] ci)].
  - unfold nkids. cbn [t_kids]. rewrite app_length. simpl. destruct cks; [congruence|simpl; lia].
Qed.

(* any path *)
Lemma rotate_entries acc r : forall path t t',
  good acc t -> is_true r = false -> ((2 <= nkids t)%nat \/ path = []) -> rotate t path = Some t' ->
  Permutation (entries_n acc (t', r)) (entries_n acc (t, r)) /\ good acc t' /\ Permutation (pids t') (pids t).
Proof.
  induction path as [|p rest IH]; intros t t' G Hr L R.
  - simpl in R. inversion R; subst. split; [apply Permutation_refl|]. split; [exact G | apply Permutation_refl].
  - simpl in R. destruct (rotate1 t p) as [t1|] eqn:E1; [|discriminate].
    destruct L as [L|L]; [|discriminate].
    destruct (rotate1_entries acc t r p t1 G Hr L E1) as [P1 [G1 [I1 L1]]].
    destruct (IH t1 t' G1 Hr (or_introl L1) R) as [P2 [G2 I2]].
    split; [eapply perm_trans; eassumption|]. split; [exact G2 | eapply perm_trans; eassumption].
Qed.

Lemma in_keys_perm {V} (d d' : list (Z * V)) m : Permutation d d' -> (In m (keys d) <-> In m (keys d')).
Proof.
  intro P. split; intro H; [eapply Permutation_in; [apply Permutation_map, P|exact H]
                          | eapply Permutation_in; [apply Permutation_sym, Permutation_map, P|exact H]].
Qed.

(* the encoding after Tree.reseed_at: the same totals per split and the same set of splits as before *)
Theorem reseed_totals acc t r path s' m :
  good acc t -> is_true r = false -> ((2 <= nkids t)%nat \/ path = []) ->
  reseed true (t, r) path = Some s' ->
  good acc (fst s') /\ is_true (snd s') = false /\
  tot (entries true acc s') m = tot (entries true acc (t, r)) m /\
  (In m (splits true acc s') <-> In m (splits true acc (t, r))).
Proof.
  intros G Hr L R. unfold reseed in R. cbn [fst snd] in R.
  destruct (rotate t path) as [t'|] eqn:ER; [|discriminate]. inversion R; subst s'. clear R.
  destruct (rotate_entries acc r path t t' G Hr L ER) as [P [G' _]].
  pose proof (good_normalise true acc (t', r) G') as GN.
  destruct (normalise_keeps true acc (t', r)) as [_ [_ [_ RN]]]. cbn [snd] in RN.
  destruct (normalise true (t', r)) as [N rN] eqn:EN. cbn [fst snd] in *.
  split; [exact GN|]. split; [rewrite RN; exact Hr|].
  destruct (normalise_keeps_totals acc N rN m GN) as [T1 K1].
  destruct (normalise_keeps_totals acc t' r m G') as [T2 K2].
  destruct (normalise_keeps_totals acc t r m G) as [T3 K3].
  assert (EE : entries_n acc (N, rN) = entries true acc (t', r)) by (unfold entries; rewrite EN; reflexivity).
  split.
  - rewrite T1, EE, T2, T3. apply tot_perm, P.
  - rewrite K1, EE. fold (keys (entries true acc (t', r))). unfold splits in K2. fold (keys (entries true acc (t', r))) in K2.
    rewrite K2, K3. apply in_keys_perm, P.
Qed.

(* ------------------------------------------------------------------------------------------ *)
(* distances only look at the set of splits and, with the repaired missing-length policy, at the value
   (missing = 0) of each split *)

Definition same_val (d d' : list (Z * (option Z * bool))) : Prop :=
  NoDup (keys d) /\ NoDup (keys d') /\ (forall k, In k (keys d) <-> In k (keys d')) /\ (forall k, val d k = val d' k).

Lemma same_val_refl d : NoDup (keys d) -> same_val d d.
Proof. intro H. repeat split; try exact H; tauto. Qed.

Lemma ld_zero_ok (d1 d2 : list (Z * (option Z * bool))) :
  NoDup (keys d1) -> NoDup (keys d2) ->
  exists l, length_diffs ZeroBoth (fun x => Ok x) (fun x => Ok x) d1 d2 = Ok l.
Proof.
  intros N1 N2. pose proof (length_diffs_defined ZeroBoth d1 d2 N1 N2) as D.
  destruct (length_diffs ZeroBoth _ _ d1 d2) as [l| |] eqn:E; [eauto| |]; exfalso;
    simpl in D; destruct D as [_ D]; assert (F : false = true);
    try (apply D; split; intros kx _; try (destruct (memz (fst kx) (keys d1))); apply lok_sok_zero); discriminate.
Qed.

Lemma ld_same_val (h : Z -> Z -> Z) d1 d1' d2 d2' :
  h 0 0 = 0 -> same_val d1 d1' -> same_val d2 d2' ->
  match length_diffs ZeroBoth (fun x => Ok x) (fun x => Ok x) d1 d2 with
  | Ok l => Ok (sum_h h l) | Err e => Err e | OutOfFuel => OutOfFuel end
  = match length_diffs ZeroBoth (fun x => Ok x) (fun x => Ok x) d1' d2' with
    | Ok l => Ok (sum_h h l) | Err e => Err e | OutOfFuel => OutOfFuel end.
Proof.
  intros h0 [N1 [N1' [K1 V1]]] [N2 [N2' [K2 V2]]].
  destruct (ld_zero_ok d1 d2 N1 N2) as [l E]. destruct (ld_zero_ok d1' d2' N1' N2') as [l' E']. rewrite E, E'. f_equal.
  set (U := dedup (keys d1 ++ keys d2)).
  assert (HU : NoDup U) by apply dedup_NoDup.
  assert (I1 : incl (keys d1) U) by (intros k Hk; apply dedup_In; rewrite in_app_iff; tauto).
  assert (I2 : incl (keys d2) U) by (intros k Hk; apply dedup_In; rewrite in_app_iff; tauto).
  assert (I1' : incl (keys d1') U) by (intros k Hk; apply I1, K1, Hk).
  assert (I2' : incl (keys d2') U) by (intros k Hk; apply I2, K2, Hk).
  rewrite (length_diffs_norm h ZeroBoth d1 d2 l U h0 N1 N2 E HU I1 I2).
  rewrite (length_diffs_norm h ZeroBoth d1' d2' l' U h0 N1' N2' E' HU I1' I2').
  apply zsum_map_ext. intros k _. rewrite V1, V2. reflexivity.
Qed.

Lemma diff_count_same_sets' a a' b b' :
  (forall x, In x a <-> In x a') -> (forall x, In x b <-> In x b') -> diff_count a b = diff_count a' b'.
Proof.
  intros Ha Hb.
  rewrite (diff_count_spec a b (dedup a) (dedup b) (dedup_NoDup a) (fun x => dedup_In x a) (fun x => dedup_In x b)).
  rewrite (diff_count_spec a' b' (dedup a) (dedup b) (dedup_NoDup a)).
  - reflexivity.
  - intro x. rewrite dedup_In. apply Ha.
  - intro x. rewrite dedup_In. apply Hb.
Qed.

(* all functions (weighted ones with the repaired policy) agree on two structures with the same split
   set and the same value per split *)
Definition interchangeable0 (mg : bool) (acc : acc_map) (s s' : struct) : Prop :=
  forall s2, well_formed acc s2 = true ->
    fpfn mg acc s s2 = fpfn mg acc s' s2 /\ fpfn mg acc s2 s = fpfn mg acc s2 s' /\
    rf mg acc s s2 = rf mg acc s' s2 /\ rf mg acc s2 s = rf mg acc s2 s' /\
    wrf mg ZeroBoth acc s s2 = wrf mg ZeroBoth acc s' s2 /\ wrf mg ZeroBoth acc s2 s = wrf mg ZeroBoth acc s2 s' /\
    euclid_sq mg ZeroBoth acc s s2 = euclid_sq mg ZeroBoth acc s' s2 /\
    euclid_sq mg ZeroBoth acc s2 s = euclid_sq mg ZeroBoth acc s2 s'.

Lemma interchangeable0_of_same_val mg acc s s' :
  well_formed acc s = true -> well_formed acc s' = true ->
  same_val (entries mg acc s) (entries mg acc s') -> interchangeable0 mg acc s s'.
Proof.
  intros W W' SV s2 W2. pose proof SV as [N [N' [KS VS]]].
  apply (well_formed_wf mg) in W. apply (well_formed_wf mg) in W'. apply (well_formed_wf mg) in W2.
  assert (SD : same_val (kd mg acc s) (kd mg acc s')) by (unfold kd; rewrite !dict_of_id by assumption; exact SV).
  pose proof (same_val_refl (kd mg acc s2) (dict_of_nodup _)) as SR.
  assert (Hs : forall x, In x (splits mg acc s) <-> In x (splits mg acc s')) by exact KS.
  assert (Hr : forall x, In x (splits mg acc s2) <-> In x (splits mg acc s2)) by tauto.
  destruct W as [K [F I]], W' as [K' [F' I']]. pose proof W2 as [K2 [F2 I2]].
  assert (Ws : wf mg acc s) by (repeat split; assumption).
  assert (Ws' : wf mg acc s') by (repeat split; assumption).
  rewrite !fpfn_pure, !rf_pure by assumption.
  rewrite !wrf_pure, !euclid_pure by assumption.
  rewrite (diff_count_same_sets' (splits mg acc s2) (splits mg acc s2) (splits mg acc s) (splits mg acc s') Hr Hs).
  rewrite (diff_count_same_sets' (splits mg acc s) (splits mg acc s') (splits mg acc s2) (splits mg acc s2) Hs Hr).
  unfold ld_pure. fold (kd mg acc s) (kd mg acc s') (kd mg acc s2).
  pose proof (ld_same_val (fun a b => Z.abs (a - b)) _ _ _ _ eq_refl SD SR) as A1.
  pose proof (ld_same_val (fun a b => Z.abs (a - b)) _ _ _ _ eq_refl SR SD) as A2.
  pose proof (ld_same_val (fun a b => (a - b) * (a - b)) _ _ _ _ eq_refl SD SR) as B1.
  pose proof (ld_same_val (fun a b => (a - b) * (a - b)) _ _ _ _ eq_refl SR SD) as B2.
  repeat split; try reflexivity.
  - destruct (length_diffs ZeroBoth _ _ (kd mg acc s) (kd mg acc s2)), (length_diffs ZeroBoth _ _ (kd mg acc s') (kd mg acc s2));
      rewrite ?sum_abs_h; exact A1.
  - destruct (length_diffs ZeroBoth _ _ (kd mg acc s2) (kd mg acc s)), (length_diffs ZeroBoth _ _ (kd mg acc s2) (kd mg acc s'));
      rewrite ?sum_abs_h; exact A2.
  - destruct (length_diffs ZeroBoth _ _ (kd mg acc s) (kd mg acc s2)), (length_diffs ZeroBoth _ _ (kd mg acc s') (kd mg acc s2));
      rewrite ?sum_sq_h; exact B1.
  - destruct (length_diffs ZeroBoth _ _ (kd mg acc s2) (kd mg acc s)), (length_diffs ZeroBoth _ _ (kd mg acc s2) (kd mg acc s'));
      rewrite ?sum_sq_h; exact B2.
Qed.

(* ------------------------------------------------------------------------------------------ *)
(* the theorems *)

Lemma uf_not_colliding mg N r' : unifurcation_free N = true -> nkids N <> 2%nat -> collides mg (N, r') = false.
Proof.
  intros U H. unfold collides. rewrite normalise_no_basal by (right; exact H). cbn [fst snd].
  rewrite (suppress_uf_id N U). apply Nat.eqb_neq in H. rewrite H. apply andb_false_r.
Qed.

Lemma proper_reseed acc t r path s' :
  proper acc (t, r) = true -> is_true r = false -> ((2 <= nkids t)%nat \/ path = []) ->
  reseed true (t, r) path = Some s' -> proper acc s' = true.
Proof.
  intros P Hr L R. unfold proper in *. cbn [fst] in P. rewrite andb_true_iff in *. destruct P as [D N].
  pose proof (distinct_taxa_good acc t D) as G.
  destruct (reseed_totals acc t r path s' 0 G Hr L R) as [G' _]. split; [apply good_distinct_taxa, G'|].
  unfold reseed in R. cbn [fst snd] in R. destruct (rotate t path) as [t'|] eqn:ER; [|discriminate]. inversion R; subst s'.
  destruct (rotate_entries acc r path t t' G Hr L ER) as [_ [_ PI]].
  apply NoDup_nodupb. fold (pids (fst (normalise true (t', r)))).
  eapply sub_NoDup; [apply (pids_normalise true (t', r))|]. cbn [fst].
  eapply Permutation_NoDup; [apply Permutation_sym, PI|]. apply nodupb_NoDup, N.
Qed.

Theorem split_length_map_invariant_l acc t r path s' :
  proper acc (t, r) = true -> r <> Some true -> ((2 <= nkids t)%nat \/ path = []) ->
  reseed true (t, r) path = Some s' ->
  collides true (t, r) = false -> collides true s' = false ->
  NoDup (splits true acc (t, r)) /\ NoDup (splits true acc s') /\
  (forall m, In m (splits true acc s') <-> In m (splits true acc (t, r))) /\
  (forall m, split_len true acc s' m = split_len true acc (t, r) m).
Proof.
  intros P Hr L R C C'.
  assert (Hr' : is_true r = false) by (destruct r as [[|]|]; try reflexivity; congruence).
  pose proof (proper_reseed acc t r path s' P Hr' L R) as P'.
  pose proof P as P0. pose proof P' as P0'. unfold proper in P0, P0'. rewrite andb_true_iff in P0, P0'.
  destruct P0 as [D _], P0' as [D' _]. cbn [fst] in D.
  pose proof (proj2 (nodup_splits_iff true acc (t, r) D) C) as N.
  pose proof (proj2 (nodup_splits_iff true acc s' D') C') as N'.
  split; [exact N|]. split; [exact N'|].
  pose proof (distinct_taxa_good acc t D) as G.
  split.
  - intro m. apply (reseed_totals acc t r path s' m G Hr' L R).
  - intro m. destruct (reseed_totals acc t r path s' m G Hr' L R) as [_ [_ [T _]]].
    rewrite <- !(val_split_len true) by assumption. unfold kd. rewrite !dict_of_id by assumption.
    rewrite <- !tot_val by assumption. exact T.
Qed.

Theorem seed_move_invariant_l acc t r path s' :
  proper acc (t, r) = true -> r <> Some true -> ((2 <= nkids t)%nat \/ path = []) ->
  reseed true (t, r) path = Some s' ->
  collides true (t, r) = false -> collides true s' = false ->
  interchangeable0 true acc (t, r) s' /\
  rf true acc (t, r) s' = Ok 0 /\ fpfn true acc (t, r) s' = Ok (0, 0) /\
  wrf true ZeroBoth acc (t, r) s' = Ok 0 /\ euclid_sq true ZeroBoth acc (t, r) s' = Ok 0.
Proof.
  intros P Hr L R C C'.
  assert (Hr' : is_true r = false) by (destruct r as [[|]|]; try reflexivity; congruence).
  pose proof (proper_reseed acc t r path s' P Hr' L R) as P'.
  destruct (split_length_map_invariant_l acc t r path s' P Hr L R C C') as [N [N' [KS VS]]].
  pose proof (proper_well_formed acc _ P) as W. pose proof (proper_well_formed acc _ P') as W'.
  assert (SV : same_val (entries true acc (t, r)) (entries true acc s')).
  { repeat split; try assumption.
    - apply KS. - apply KS.
    - intro k. specialize (VS k). rewrite <- !(val_split_len true) in VS by assumption.
      unfold kd in VS. rewrite !dict_of_id in VS by assumption. symmetry. exact VS. }
  pose proof (interchangeable0_of_same_val true acc (t, r) s' W W' SV) as IC.
  split; [exact IC|].
  destruct (IC (t, r) W) as [E1 [_ [E2 [_ [E3 [_ [E4 _]]]]]]].
  destruct (F_rf_zero_self true acc (t, r) W) as [Z1 Z2].
  destruct (IC (t, r) W) as [_ [F1 [_ [F2 [_ [F3 [_ F4]]]]]]].
  rewrite <- F2, <- F1, <- F3, <- F4. split; [exact Z1|]. split; [exact Z2|].
  pose proof (well_formed_wf true acc _ W) as Wf.
  destruct (ld_zero_ok (kd true acc (t, r)) (kd true acc (t, r)) (dict_of_nodup _) (dict_of_nodup _)) as [l El].
  split.
  - pose proof (wrf_pure true ZeroBoth acc (t, r) (t, r) Wf Wf) as Ew. unfold ld_pure in Ew. fold (kd true acc (t, r)) in Ew. rewrite El in Ew.
    rewrite Ew. f_equal. apply (proj1 (F_self_weighted_zero true ZeroBoth acc (t, r) (sum_abs l) W)). exact Ew.
  - pose proof (euclid_pure true ZeroBoth acc (t, r) (t, r) Wf Wf) as Ee. unfold ld_pure in Ee. fold (kd true acc (t, r)) in Ee. rewrite El in Ee.
    rewrite Ee. f_equal. apply (proj2 (F_self_weighted_zero true ZeroBoth acc (t, r) (sum_sq l) W)). exact Ee.
Qed.
