(* C12, sixth wave: the RESULT heap of a seeded deep copy again has exactly-shaped owned annotation sets (the
   propositional content of the first conjunct of wf_heap4, for EVERY annotable object of the result heap: the
   untouched source objects and all copies): x._annotations, when present, is an AnnotationSet object
   {_item_list: a list of objects, _item_set: the same members, target: x}.  Uses: every fresh annotable object is
   a recorded copy (Proofs/C12FreshRec.v) and the rebuilt sets have the shape AnnState. *)
From Coq Require Import ZArith List Bool Lia.
From DV Require Import Model.PyPrims Model.C12Model Model.C12Spec2 Model.C12Spec3 Proofs.C12Heap Proofs.C12Inv
  Proofs.C12Copy Proofs.C12Wf Proofs.C12Proofs Proofs.C12Iso Proofs.C12Wf2 Proofs.C12IsoTop Proofs.C12Own Proofs.C12AnnDef
  Proofs.C12Own2 Proofs.C12Fun Proofs.C12Wf3 Proofs.C12AnnTop Proofs.C12FunTop Proofs.C12Image Proofs.C12ImageTop
  Proofs.C12IsoFull Proofs.C12FreshRec.
Import ListNotations.
Open Scope Z_scope.

Lemma ibody_values_refs : forall done i v, In v (values (ibody i done)) -> exists o, v = R o.
Proof.
  induction done as [|p r IH]; intros i v I; simpl in I; [contradiction|].
  destruct I as [E|I]; [eauto | exact (IH (i + 1) v I)].
Qed.

Lemma zbody_of_ibody : forall done i, zbody done = map (fun e => (snd e, PNone)) (ibody i done).
Proof.
  induction done as [|p r IH]; intro i; simpl; [reflexivity|]. f_equal. exact (IH (i + 1)).
Qed.

Theorem result_heap_exact_l : forall nf h seeds root fuel s' y,
  wf_heap h seeds = true -> wf_heap2 h = true -> wf_heap3 h = true -> wf_heap4 h = true ->
  memz root (owned_list h) = false -> 0 <= root < hlen h -> (length h < fuel)%nat ->
  run_seeded nf fuel h seeds root = Ok (s', R y) ->
  Exact (sh s').
Proof.
  intros nf h seeds root fuel s' y WF WF2 WF3 WF4 NO Hr Hf E x ob G AK.
  destruct (deepcopy_fresh_disjoint_l nf h seeds root fuel s' y WF Hr Hf E) as [OLD _].
  destruct (Z_lt_le_dec x (hlen h)) as [Lt|Ge].
  - rewrite (OLD x Lt) in G. assert (EX := wf4_exact h WF4 x ob G AK).
    destruct (bget (obody ob) NM_ANN) as [[p|sx]|]; [exact EX | | exact I].
    destruct EX as [sxo [lx [zx [l [z [GSX [BL [BZ [BT [CS [KS [GLX [GZX REST]]]]]]]]]]]]].
    exists sxo, lx, zx, l, z.
    rewrite (OLD sx) by (apply hget_Some_range in GSX; lia).
    rewrite (OLD lx) by (apply hget_Some_range in GLX; lia).
    rewrite (OLD zx) by (apply hget_Some_range in GZX; lia).
    auto 20.
  - assert (K : kind_at (sh s') x = Some (okind ob)) by (unfold kind_at; rewrite G; reflexivity).
    destruct (run_seeded_fresh_recorded nf fuel h seeds root s' (R y) E x (okind ob) Ge K AK) as [a Iax].
    destruct (deepcopy_bisimulation_l nf h seeds root fuel s' y WF WF2 NO Hr Hf E) as [_ [PAIR _]].
    destruct (PAIR a x Iax) as [_ [_ [oa [ob0 [Ga [Gb [_ [KD _]]]]]]]].
    assert (ob0 = ob) by congruence. subst ob0.
    assert (AKa : is_annk (okind oa) = true) by (rewrite KD; exact AK).
    destruct (deepcopy_annotation_sets_l nf h seeds root fuel s' y WF WF2 WF3 NO Hr Hf E a x oa Iax Ga AKa) as [done [AS _]].
    unfold AnnState, body_of in AS. rewrite G in AS. destruct done as [|p r].
    + rewrite AS. exact I.
    + destruct AS as [sy [ly [zy [B0 [GS [GL GZ]]]]]]. rewrite B0.
      exists (mkObj CLS_ANNSET KAnnSet [(NM_ILIST, R ly); (NM_ISET, R zy); (NM_TARGET, R x)]), ly, zy,
             (mkObj CLS_LIST KList (ibody 0 (p :: r))), (mkObj CLS_SET KSet (zbody (p :: r))).
      split; [exact GS|]. split; [reflexivity|]. split; [reflexivity|]. split; [reflexivity|].
      split; [reflexivity|]. split; [reflexivity|]. split; [exact GL|]. split; [exact GZ|].
      split; [reflexivity|]. split; [reflexivity|].
      split; [intros v Iv; exact (ibody_values_refs _ _ _ Iv)|].
      split; [reflexivity|]. split; [reflexivity|]. exact (zbody_of_ibody (p :: r) 0).
Qed.
