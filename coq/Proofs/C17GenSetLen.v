(* C17: the generated set_edge_lengths_from_node_ages (Gen/Ages.v) equals the hand-written model *)
From Coq Require Import ZArith QArith List Bool Lia ZifyBool.
From DV Require Import Model.PyPrims Model.Tree Model.C17Model Model.C17Prims Gen.Ages.
From DV Require Import Proofs.C17Ages Proofs.C17Depth Proofs.C17GenLib.
Import ListNotations.
Open Scope Z_scope.

Section AtreeInd.
  Variable P : atree -> Prop.
  Hypothesis H : forall i x l g e ks, Forall P ks -> P (A i x l g e ks).
  Fixpoint atree_ind' (a : atree) : P a :=
    match a with
    | A i x l g e ks =>
      H i x l g e ks
        ((fix go (ks : list atree) : Forall P ks :=
            match ks with
            | [] => Forall_nil P
            | k :: r => Forall_cons k (atree_ind' k) (go r)
            end) ks)
    end.
End AtreeInd.

(* identities of an annotated tree, pre-order *)
Definition aids (a : atree) : list Z := map a_id (apreorder a).

Lemma aids_unfold a : aids a = a_id a :: flat_map aids (a_kids a).
Proof.
  destruct a as [i x l g e ks]. unfold aids. cbn [apreorder map a_id a_kids]. f_equal.
  induction ks as [|c r IH]; [reflexivity|]. cbn [flat_map]. rewrite map_app, IH. reflexivity.
Qed.

Lemma ids_aforget a : ids (aforget a) = aids a.
Proof.
  induction a as [i x l g e ks IH] using atree_ind'. rewrite ids_unfold, aids_unfold. cbn [aforget t_id t_kids a_id a_kids]. f_equal.
  induction IH as [|c r Hc _ IHr]; [reflexivity|]. cbn [map flat_map]. rewrite Hc, IHr. reflexivity.
Qed.

Definition ages_agree (st : store) (a : atree) : Prop := forall v, In v (apreorder a) -> s_age st (a_id v) = Some (a_age v).

Lemma ages_agree_kid st i x l g e ks k : ages_agree st (A i x l g e ks) -> In k ks -> ages_agree st k.
Proof. intros H Hk v Hv. apply H. cbn [apreorder]. right. apply in_flat_map. exists k. split; assumption. Qed.

Lemma lens_agree_node' st i x l e ks :
  lens_agree st (T i x l e ks) <-> s_len st i = e /\ forall c, In c ks -> lens_agree st c.
Proof.
  split.
  - intro H. split; [apply (H _ (in_preorder_self _))|]. intros c Hc. eapply lens_agree_kid; [exact H | exact Hc].
  - intros [H1 H2] v Hv. apply in_preorder_inv in Hv. destruct Hv as [-> | [k [Hk Hv]]]; [exact H1 | apply (H2 k Hk v Hv)].
Qed.

Lemma lens_agree_frame st1 st2 t : (forall j, In j (ids t) -> s_len st2 j = s_len st1 j) -> lens_agree st1 t -> lens_agree st2 t.
Proof. intros Hf H v Hv. rewrite Hf; [apply H; exact Hv | apply in_ids; exact Hv]. Qed.

Section SetLen.
Variables (mn : option Z) (eon : bool) (t0 : tree).

(* one node below the root *)
Lemma sl_step i x l g e ks p anc st page :
  s_age st p = Some page -> s_age st i = Some g ->
  g_set_edge_lengths_from_node_ages_loop1 mn eon t0 (mkNode (T i x l e ks) (p :: anc)) st
  = if eon && (new_len mn page g <? 0) then XErr (Py ValueErr)
    else XOk (py_set_length st i (Some (new_len mn page g))).
Proof.
  intros Hp Hi. unfold g_set_edge_lengths_from_node_ages_loop1. cbv beta iota zeta.
  cbn [py_parent n_anc hd_error py_is_none negb py_deref xbind]. unfold n_id. cbn [n_sub t_id]. unfold py_age. rewrite Hp, Hi.
  cbn [py_sub_oo xbind]. unfold new_len, g_set_edge_lengths_from_node_ages_join1, n_id. cbn [n_sub t_id].
  destruct mn as [m|]; cbn [py_is_none negb py_lt_oo xbind].
  - destruct (page - g <? m); destruct eon; cbn [py_lt_oo xbind andb]; try reflexivity;
      try (destruct (m <? 0); reflexivity); try (destruct (page - g <? 0); reflexivity).
  - destruct eon; cbn [py_lt_oo xbind andb]; [|reflexivity]. destruct (page - g <? 0); reflexivity.
Qed.

Lemma sl_sub a : forall p anc page st,
  s_age st p = Some page -> ages_agree st a -> NoDup (aids a) ->
  match set_lens_nr mn eon page a with
  | Ok t' =>
    exists st', py_for (pre_under (p :: anc) (aforget a)) (g_set_edge_lengths_from_node_ages_loop1 mn eon t0) st = XOk st'
      /\ lens_agree st' t' /\ ids t' = aids a
      /\ (forall j, ~ In j (aids a) -> s_len st' j = s_len st j)
      /\ s_age st' = s_age st /\ s_rd st' = s_rd st
  | Err er => py_for (pre_under (p :: anc) (aforget a)) (g_set_edge_lengths_from_node_ages_loop1 mn eon t0) st = XErr (Py er)
  | OutOfFuel => False
  end.
Proof.
  induction a as [i x l g e ks IH] using atree_ind'. intros p anc page st Hp Hag Hnd.
  cbn [aforget]. rewrite pre_under_unfold. cbn [t_id t_kids py_for set_lens_nr].
  assert (Hi : s_age st i = Some g) by (apply (Hag (A i x l g e ks)); left; reflexivity).
  rewrite (sl_step i x l g e (map aforget ks) p anc st page Hp Hi).
  set (el := new_len mn page g).
  destruct (eon && (el <? 0)); cbn [xbind]; [reflexivity|].
  set (st1 := py_set_length st i (Some el)).
  rewrite aids_unfold in Hnd. cbn [a_id a_kids] in Hnd. inversion Hnd as [|? ? Hroot Hd]; subst.
  assert (Hkids : forall st2,
    s_age st2 i = Some g -> (forall k, In k ks -> ages_agree st2 k) ->
    match rsequence (map (set_lens_nr mn eon g) ks) with
    | Ok ks' =>
      exists st', py_for (flat_map (pre_under (i :: p :: anc)) (map aforget ks)) (g_set_edge_lengths_from_node_ages_loop1 mn eon t0) st2 = XOk st'
        /\ (forall c, In c ks' -> lens_agree st' c) /\ flat_map ids ks' = flat_map aids ks
        /\ (forall j, ~ In j (flat_map aids ks) -> s_len st' j = s_len st2 j)
        /\ s_age st' = s_age st2 /\ s_rd st' = s_rd st2
    | Err er => py_for (flat_map (pre_under (i :: p :: anc)) (map aforget ks)) (g_set_edge_lengths_from_node_ages_loop1 mn eon t0) st2 = XErr (Py er)
    | OutOfFuel => False
    end).
  { clear Hag Hi Hnd Hroot Hp. induction IH as [|k r Hk _ IHr]; intros st2 Hi2 Hag2.
    - cbn. exists st2. split; [reflexivity|]. split; [intros c []|]. repeat split.
    - cbn [flat_map] in Hd. destruct (NoDup_app_inv _ _ Hd) as [Hdk [Hdr Hdisj]].
      cbn [map flat_map rsequence]. rewrite py_for_app.
      specialize (Hk i (p :: anc) g st2 Hi2 (Hag2 k (or_introl eq_refl)) Hdk).
      destruct (set_lens_nr mn eon g k) as [tk| |]; [|rewrite Hk; reflexivity | exact Hk].
      destruct Hk as [st3 [E3 [Hl3 [Hids3 [Hf3 [Ha3 Hr3]]]]]]. rewrite E3. cbn [xbind].
      assert (Hi3 : s_age st3 i = Some g) by (rewrite Ha3; exact Hi2).
      assert (Hag3 : forall k', In k' r -> ages_agree st3 k') by (intros k' Hk' v Hv; rewrite Ha3; apply (Hag2 k' (or_intror Hk') v Hv)).
      specialize (IHr Hdr st3 Hi3 Hag3).
      destruct (rsequence (map (set_lens_nr mn eon g) r)) as [ks'| |]; [|exact IHr | exact IHr].
      destruct IHr as [st4 [E4 [Hl4 [Hids4 [Hf4 [Ha4 Hr4]]]]]]. exists st4. split; [exact E4|]. split; [|split; [|split; [|split]]].
      + intros c [<- | Hc]; [|apply Hl4; exact Hc]. apply (lens_agree_frame st3); [|exact Hl3].
        intros j Hj. apply Hf4. apply Hdisj. rewrite <- Hids3. exact Hj.
      + cbn [flat_map]. rewrite Hids3, Hids4. reflexivity.
      + intros j Hj. rewrite Hf4, Hf3; [reflexivity | |]; intro Hin; apply Hj; cbn [flat_map]; apply in_or_app; [left | right]; exact Hin.
      + rewrite Ha4. exact Ha3.
      + rewrite Hr4. exact Hr3. }
  assert (Hi1 : s_age st1 i = Some g) by exact Hi.
  assert (Hag1 : forall k, In k ks -> ages_agree st1 k) by (intros k Hk; apply (ages_agree_kid st i x l g e ks k Hag Hk)).
  specialize (Hkids st1 Hi1 Hag1).
  destruct (rsequence (map (set_lens_nr mn eon g) ks)) as [ks'| |]; [|exact Hkids | exact Hkids].
  destruct Hkids as [st' [E' [Hl' [Hids' [Hf' [Ha' Hr']]]]]]. exists st'. split; [exact E'|]. split; [|split; [|split; [|split]]].
  - apply lens_agree_node'. split; [|exact Hl']. rewrite Hf'; [cbn; apply upd_same | exact Hroot].
  - rewrite ids_unfold, aids_unfold. cbn [t_id t_kids a_id a_kids]. rewrite Hids'. reflexivity.
  - intros j Hj. rewrite Hf'.
    + cbn. apply upd_other. intro E. apply Hj. rewrite aids_unfold. left. symmetry. exact E.
    + intro Hin. apply Hj. rewrite aids_unfold. right. exact Hin.
  - rewrite Ha'. reflexivity.
  - rewrite Hr'. reflexivity.
Qed.

End SetLen.

Lemma sl_root_step mn eon t0 t st : g_set_edge_lengths_from_node_ages_loop1 mn eon t0 (mkNode t []) st = XOk st.
Proof. reflexivity. Qed.

Lemma g_set_edge_lengths_eq_l : forall mn eon a st,
  ages_agree st a -> NoDup (aids a) -> s_len st (a_id a) = a_len a ->
  match set_edge_lengths_from_node_ages mn eon a with
  | Ok t' =>
    exists st', g_set_edge_lengths_from_node_ages mn eon (aforget a) st = XOk (st', tt)
      /\ lens_agree st' t' /\ ids t' = aids a
      /\ (forall j, ~ In j (aids a) -> s_len st' j = s_len st j)
      /\ s_age st' = s_age st /\ s_rd st' = s_rd st
  | Err er => g_set_edge_lengths_from_node_ages mn eon (aforget a) st = XErr (Py er)
  | OutOfFuel => False
  end.
Proof.
  intros mn eon a st Hag Hnd Hroot_len. destruct a as [i x l g e ks]. cbn [a_id a_len] in Hroot_len.
  unfold g_set_edge_lengths_from_node_ages, py_preorder_nodes. cbn [aforget]. rewrite pre_under_unfold. cbn [t_id t_kids py_for].
  rewrite sl_root_step. cbn [xbind set_edge_lengths_from_node_ages].
  assert (Hi : s_age st i = Some g) by (apply (Hag (A i x l g e ks)); left; reflexivity).
  rewrite aids_unfold in Hnd. cbn [a_id a_kids] in Hnd. apply NoDup_cons_iff in Hnd. destruct Hnd as [Hroot Hd].
  set (t0 := T i x l e (map aforget ks)).
  assert (Hkids : forall st2,
    s_age st2 i = Some g -> (forall k, In k ks -> ages_agree st2 k) ->
    match rsequence (map (set_lens_nr mn eon g) ks) with
    | Ok ks' =>
      exists st', py_for (flat_map (pre_under [i]) (map aforget ks)) (g_set_edge_lengths_from_node_ages_loop1 mn eon t0) st2 = XOk st'
        /\ (forall c, In c ks' -> lens_agree st' c) /\ flat_map ids ks' = flat_map aids ks
        /\ (forall j, ~ In j (flat_map aids ks) -> s_len st' j = s_len st2 j)
        /\ s_age st' = s_age st2 /\ s_rd st' = s_rd st2
    | Err er => py_for (flat_map (pre_under [i]) (map aforget ks)) (g_set_edge_lengths_from_node_ages_loop1 mn eon t0) st2 = XErr (Py er)
    | OutOfFuel => False
    end).
  { clear Hag Hi Hroot Hroot_len. induction ks as [|k r IHr]; intros st2 Hi2 Hag2.
    - cbn. exists st2. split; [reflexivity|]. split; [intros c []|]. repeat split.
    - cbn [flat_map] in Hd. destruct (NoDup_app_inv _ _ Hd) as [Hdk [Hdr Hdisj]].
      cbn [map flat_map rsequence]. rewrite py_for_app.
      pose proof (sl_sub mn eon t0 k i [] g st2 Hi2 (Hag2 k (or_introl eq_refl)) Hdk) as Hk.
      destruct (set_lens_nr mn eon g k) as [tk| |]; [|rewrite Hk; reflexivity | exact Hk].
      destruct Hk as [st3 [E3 [Hl3 [Hids3 [Hf3 [Ha3 Hr3]]]]]]. rewrite E3. cbn [xbind].
      assert (Hi3 : s_age st3 i = Some g) by (rewrite Ha3; exact Hi2).
      assert (Hag3 : forall k', In k' r -> ages_agree st3 k') by (intros k' Hk' v Hv; rewrite Ha3; apply (Hag2 k' (or_intror Hk') v Hv)).
      specialize (IHr Hdr st3 Hi3 Hag3).
      destruct (rsequence (map (set_lens_nr mn eon g) r)) as [ks'| |]; [|exact IHr | exact IHr].
      destruct IHr as [st4 [E4 [Hl4 [Hids4 [Hf4 [Ha4 Hr4]]]]]]. exists st4. split; [exact E4|]. split; [|split; [|split; [|split]]].
      + intros c [<- | Hc]; [|apply Hl4; exact Hc]. apply (lens_agree_frame st3); [|exact Hl3].
        intros j Hj. apply Hf4. apply Hdisj. rewrite <- Hids3. exact Hj.
      + cbn [flat_map]. rewrite Hids3, Hids4. reflexivity.
      + intros j Hj. rewrite Hf4, Hf3; [reflexivity | |]; intro Hin; apply Hj; cbn [flat_map]; apply in_or_app; [left | right]; exact Hin.
      + rewrite Ha4. exact Ha3.
      + rewrite Hr4. exact Hr3. }
  assert (Hagk : forall k, In k ks -> ages_agree st k) by (intros k Hk; apply (ages_agree_kid st i x l g e ks k Hag Hk)).
  specialize (Hkids st Hi Hagk).
  destruct (rsequence (map (set_lens_nr mn eon g) ks)) as [ks'| |]; [|rewrite Hkids; reflexivity | exact Hkids].
  destruct Hkids as [st' [E' [Hl' [Hids' [Hf' [Ha' Hr']]]]]]. exists st'. rewrite E'. cbn [xbind]. split; [reflexivity|].
  split; [|split; [|split; [|split]]].
  - apply lens_agree_node'. split; [|exact Hl']. rewrite Hf'; [exact Hroot_len | exact Hroot].
  - rewrite ids_unfold, aids_unfold. cbn [t_id t_kids a_id a_kids]. rewrite Hids'. reflexivity.
  - intros j Hj. apply Hf'. intro Hin. apply Hj. rewrite aids_unfold. right. exact Hin.
  - exact Ha'.
  - exact Hr'.
Qed.
