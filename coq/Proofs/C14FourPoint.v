(* C14: the distance matrix of a binary rose tree with non-negative lengths and positive internal edges
   satisfies the strictly resolved four-point condition (mfour_point_strict). *)
From Coq Require Import ZArith QArith List Bool Lia.
From DV Require Import Model.PyPrims Model.Tree Model.C14Model Model.C14Spec Model.C14Spec2
     Proofs.C14Dict Proofs.C14Pdm Proofs.C14Mrca Proofs.C14Ultra Proofs.C14Clu Proofs.C14Proofs Proofs.C14Tq Proofs.C14Qcrit.
Import ListNotations.
Open Scope Z_scope.

Definition fp3z (x y z : Z) : Prop := (x < y /\ y = z) \/ (y < x /\ x = z) \/ (z < x /\ x = y).

Lemma fp3z_shift x y z s : fp3z x y z -> fp3z (x + s) (y + s) (z + s).
Proof. unfold fp3z. lia. Qed.
Lemma fp3z_eq x y z x' y' z' : x = x' -> y = y' -> z = z' -> fp3z x' y' z' -> fp3z x y z.
Proof. intros -> -> ->. tauto. Qed.
Lemma fp3z_132 x y z : fp3z x y z -> fp3z x z y.
Proof. unfold fp3z. lia. Qed.
Lemma fp3z_312 x y z : fp3z x y z -> fp3z z x y.
Proof. unfold fp3z. lia. Qed.
Lemma fp3z_321 x y z : fp3z x y z -> fp3z z y x.
Proof. unfold fp3z. lia. Qed.
Lemma fp3z_213 x y z : fp3z x y z -> fp3z y x z.
Proof. unfold fp3z. lia. Qed.
Lemma fp3z_231 x y z : fp3z x y z -> fp3z y z x.
Proof. unfold fp3z. lia. Qed.

(* total versions of depth and distance *)
Definition dep (a : Z) (t : tree) : Z := match down a t with Some ls => fst ls | None => 0 end.
Definition D (t : tree) (a b : Z) : Z := match dist t a b with Some d => d | None => 0 end.

Lemma down_some a t : has a t = true -> exists ls, down a t = Some ls.
Proof.
  intro H. rewrite down_pfind. apply pfind_has in H. destruct (pfind a t); [eexists; reflexivity | congruence].
Qed.

Lemma has_in_kid a i x0 lb e ks c : In c ks -> has a c = true -> has a (T i x0 lb e ks) = true.
Proof. intros Hc Ha. destruct ks as [|k r]; [destruct Hc|]. rewrite has_node. apply existsb_exists. exists c. auto. Qed.

Lemma dep_kid a i x0 lb e ks c : good_kids ks -> In c ks -> has a c = true ->
  dep a (T i x0 lb e ks) = dep a c + len0 c.
Proof.
  intros G Hc Ha. unfold dep. rewrite (down_kid a i x0 lb e ks c G Hc Ha).
  destruct (down_some a c Ha) as [ls E]. rewrite E. reflexivity.
Qed.

Lemma D_same a b i x0 lb e ks c : good_kids ks -> In c ks -> has a c = true -> has b c = true ->
  D (T i x0 lb e ks) a b = D c a b.
Proof. intros. unfold D. rewrite (dist_same_kid a b i x0 lb e ks c); auto. Qed.

Lemma D_diff a b i x0 lb e ks ca cb :
  good_kids ks -> In ca ks -> In cb ks -> has a ca = true -> has b cb = true -> has b ca = false ->
  D (T i x0 lb e ks) a b = dep a (T i x0 lb e ks) + dep b (T i x0 lb e ks).
Proof.
  intros G Hca Hcb Ha Hb Nb. unfold D, dist, dep. rewrite (lca_diff_kids a b i x0 lb e ks ca cb G Hca Hcb Ha Hb Nb).
  destruct (down_some a _ (has_in_kid a i x0 lb e ks ca Hca Ha)) as [la Ea].
  destruct (down_some b _ (has_in_kid b i x0 lb e ks cb Hcb Hb)) as [lb' Eb]. rewrite Ea, Eb. reflexivity.
Qed.

Lemma dep_nonneg a t : nonneg_lengths t -> 0 <= dep a t.
Proof. intro N. unfold dep. destruct (down a t) as [[l s]|] eqn:E; [exact (depth_nonneg a t l s N E) | lia]. Qed.

Lemma D_le : forall t a b, good_leaves t -> nonneg_lengths t -> has a t = true -> has b t = true ->
  D t a b <= dep a t + dep b t.
Proof.
  induction t as [i x0 lb e ks IH] using tree_ind'. intros a b G N Ha Hb. destruct ks as [|k r].
  - pose proof (dep_nonneg a _ N). pose proof (dep_nonneg b _ N).
    assert (a = b) by (eapply leaf_has_unique; [|exact Ha|exact Hb]; reflexivity). subst b.
    unfold D, dist. rewrite lca_node, Ha. cbn [andb first_some]. destruct (down_some a _ Ha) as [[l s] E]. rewrite E. cbn [fst].
    unfold dep. rewrite E. cbn [fst]. lia.
  - pose proof (good_leaves_kids _ _ _ _ _ _ G) as GK.
    destruct (has_kid a i x0 lb e (k :: r) ltac:(discriminate) Ha) as [ca [Hca Hac]].
    destruct (has_kid b i x0 lb e (k :: r) ltac:(discriminate) Hb) as [cb [Hcb Hbc]].
    destruct (has b ca) eqn:Hba.
    + rewrite (D_same a b i x0 lb e (k :: r) ca GK Hca Hac Hba), !(dep_kid _ i x0 lb e (k :: r) ca GK Hca) by assumption.
      pose proof (good_kids_Forall _ GK) as GF. rewrite Forall_forall in GF, IH.
      destruct (nonneg_kid i x0 lb e (k :: r) ca Hca N) as [Nc Lc].
      pose proof (IH ca Hca a b (GF ca Hca) Nc Hac Hba). lia.
    + rewrite (D_diff a b i x0 lb e (k :: r) ca cb GK Hca Hcb Hac Hbc Hba). lia.
Qed.

(* two distinct taxa below a child: the child is internal, and their distance stays below it *)
Lemma D_lt_kid a b i x0 lb e c0 c1 c :
  good_leaves (T i x0 lb e [c0; c1]) -> nonneg_lengths (T i x0 lb e [c0; c1]) -> positive_internal (T i x0 lb e [c0; c1]) ->
  In c [c0; c1] -> a <> b -> has a c = true -> has b c = true ->
  D (T i x0 lb e [c0; c1]) a b < dep a (T i x0 lb e [c0; c1]) + dep b (T i x0 lb e [c0; c1]).
Proof.
  intros G N P Hc Nab Ha Hb. pose proof (good_leaves_kids _ _ _ _ _ _ G) as GK.
  rewrite (D_same a b i x0 lb e _ c GK Hc Ha Hb), !(dep_kid _ i x0 lb e _ c GK Hc) by assumption.
  pose proof (good_kids_Forall _ GK) as GF. rewrite Forall_forall in GF.
  destruct (nonneg_kid i x0 lb e _ c Hc N) as [Nc Lc].
  pose proof (D_le c a b (GF c Hc) Nc Ha Hb).
  assert (0 < len0 c).
  { apply (P c c Hc (preorder_self c)). intro E. apply Nab. eapply leaf_has_unique; eassumption. }
  lia.
Qed.

Lemma pint_kid i x0 lb e ks c : In c ks -> positive_internal (T i x0 lb e ks) -> positive_internal c.
Proof.
  intros Hc P k n Hk Hn. apply (P c n Hc). destruct c as [ci cx clb ce cks]. cbn [t_kids] in Hk. cbn [preorder]. right.
  apply in_flat_map. exists k. split; assumption.
Qed.

(* in a binary node a taxon is below exactly one of the two children *)
Lemma bin_side a i x0 lb e c0 c1 : good_leaves (T i x0 lb e [c0; c1]) -> has a (T i x0 lb e [c0; c1]) = true ->
  (has a c0 = true /\ has a c1 = false) \/ (has a c0 = false /\ has a c1 = true).
Proof.
  intros G H. pose proof (good_leaves_kids _ _ _ _ _ _ G) as GK. destruct (good_kids_cons _ _ GK) as [_ [_ Dj]].
  rewrite has_node in H. cbn [existsb] in H. rewrite orb_false_r in H.
  destruct (has a c0) eqn:E0.
  - left. split; [reflexivity|]. apply (Dj a E0 c1). left. reflexivity.
  - right. split; [reflexivity|]. exact H.
Qed.

Section Node.
Variables (i : Z) (x0 lb e : option Z) (c0 c1 : tree).
Let t := T i x0 lb e [c0; c1].
Hypothesis G : good_leaves t.
Hypothesis N : nonneg_lengths t.
Hypothesis P : positive_internal t.

Let GK : good_kids [c0; c1] := good_leaves_kids _ _ _ _ _ _ G.
Let In0 : In c0 [c0; c1] := or_introl eq_refl.
Let In1 : In c1 [c0; c1] := or_intror (or_introl eq_refl).

(* distances and depths at t in terms of the side each taxon is on *)
Lemma Dsplit01 a b : has a c0 = true -> has b c1 = true -> has b c0 = false -> D t a b = dep a t + dep b t.
Proof. intros. exact (D_diff a b i x0 lb e _ c0 c1 GK In0 In1 H H0 H1). Qed.
Lemma Dsplit10 a b : has a c1 = true -> has b c0 = true -> has b c1 = false -> D t a b = dep a t + dep b t.
Proof. intros. exact (D_diff a b i x0 lb e _ c1 c0 GK In1 In0 H H0 H1). Qed.
Lemma Dlt0 a b : a <> b -> has a c0 = true -> has b c0 = true -> D t a b < dep a t + dep b t.
Proof. intros. exact (D_lt_kid a b i x0 lb e c0 c1 c0 G N P In0 H H0 H1). Qed.
Lemma Dlt1 a b : a <> b -> has a c1 = true -> has b c1 = true -> D t a b < dep a t + dep b t.
Proof. intros. exact (D_lt_kid a b i x0 lb e c0 c1 c1 G N P In1 H H0 H1). Qed.

End Node.

(* three taxa and the root of the subtree *)
Lemma three_point_root : forall t, rbin t -> good_leaves t -> nonneg_lengths t -> positive_internal t ->
  forall a b c, a <> b -> a <> c -> b <> c -> has a t = true -> has b t = true -> has c t = true ->
  fp3z (D t a b + dep c t) (D t a c + dep b t) (D t b c + dep a t).
Proof.
  induction t as [i x0 lb e ks IH] using tree_ind'. intros R G N P a b c Nab Nac Nbc Ha Hb Hc.
  destruct ks as [|c0 [|c1 [|c2 r]]]; try (cbn [rbin] in R; contradiction).
  - exfalso. apply Nab. eapply leaf_has_unique; [|exact Ha|exact Hb]. reflexivity.
  - cbn [rbin] in R. destruct R as [R0 R1]. inversion IH as [|? ? IH0 IH']; subst. inversion IH' as [|? ? IH1 _]; subst. clear IH IH'.
    pose proof (good_leaves_kids _ _ _ _ _ _ G) as GK. pose proof (good_kids_Forall _ GK) as GF.
    inversion GF as [|? ? G0 GF']; subst. inversion GF' as [|? ? G1 _]; subst.
    assert (I0 : In c0 [c0; c1]) by (left; reflexivity). assert (I1 : In c1 [c0; c1]) by (right; left; reflexivity).
    destruct (nonneg_kid i x0 lb e _ c0 I0 N) as [N0 _]. destruct (nonneg_kid i x0 lb e _ c1 I1 N) as [N1 _].
    pose proof (pint_kid i x0 lb e _ c0 I0 P) as P0. pose proof (pint_kid i x0 lb e _ c1 I1 P) as P1.
    destruct (bin_side a i x0 lb e c0 c1 G Ha) as [[Ha0 Ha1]|[Ha0 Ha1]];
    destruct (bin_side b i x0 lb e c0 c1 G Hb) as [[Hb0 Hb1]|[Hb0 Hb1]];
    destruct (bin_side c i x0 lb e c0 c1 G Hc) as [[Hc0 Hc1]|[Hc0 Hc1]].
    + (* all below c0 *)
      rewrite (D_same a b i x0 lb e _ c0 GK I0), (D_same a c i x0 lb e _ c0 GK I0), (D_same b c i x0 lb e _ c0 GK I0),
        (dep_kid a i x0 lb e _ c0 GK I0), (dep_kid b i x0 lb e _ c0 GK I0), (dep_kid c i x0 lb e _ c0 GK I0) by assumption.
      pose proof (IH0 R0 G0 N0 P0 a b c Nab Nac Nbc Ha0 Hb0 Hc0) as F. apply (fp3z_shift _ _ _ (len0 c0)) in F.
      eapply fp3z_eq; [| | | exact F]; lia.
    + pose proof (Dlt0 i x0 lb e c0 c1 G N P a b Nab Ha0 Hb0).
      rewrite (Dsplit01 i x0 lb e c0 c1 G a c Ha0 Hc1 Hc0), (Dsplit01 i x0 lb e c0 c1 G b c Hb0 Hc1 Hc0). unfold fp3z. lia.
    + pose proof (Dlt0 i x0 lb e c0 c1 G N P a c Nac Ha0 Hc0).
      rewrite (Dsplit01 i x0 lb e c0 c1 G a b Ha0 Hb1 Hb0), (Dsplit10 i x0 lb e c0 c1 G b c Hb1 Hc0 Hc1). unfold fp3z. lia.
    + pose proof (Dlt1 i x0 lb e c0 c1 G N P b c Nbc Hb1 Hc1).
      rewrite (Dsplit01 i x0 lb e c0 c1 G a b Ha0 Hb1 Hb0), (Dsplit01 i x0 lb e c0 c1 G a c Ha0 Hc1 Hc0). unfold fp3z. lia.
    + pose proof (Dlt0 i x0 lb e c0 c1 G N P b c Nbc Hb0 Hc0).
      rewrite (Dsplit10 i x0 lb e c0 c1 G a b Ha1 Hb0 Hb1), (Dsplit10 i x0 lb e c0 c1 G a c Ha1 Hc0 Hc1). unfold fp3z. lia.
    + pose proof (Dlt1 i x0 lb e c0 c1 G N P a c Nac Ha1 Hc1).
      rewrite (Dsplit10 i x0 lb e c0 c1 G a b Ha1 Hb0 Hb1), (Dsplit01 i x0 lb e c0 c1 G b c Hb0 Hc1 Hc0). unfold fp3z. lia.
    + pose proof (Dlt1 i x0 lb e c0 c1 G N P a b Nab Ha1 Hb1).
      rewrite (Dsplit10 i x0 lb e c0 c1 G a c Ha1 Hc0 Hc1), (Dsplit10 i x0 lb e c0 c1 G b c Hb1 Hc0 Hc1). unfold fp3z. lia.
    + rewrite !(D_same _ _ i x0 lb e _ c1 GK I1), !(dep_kid _ i x0 lb e _ c1 GK I1) by assumption.
      pose proof (IH1 R1 G1 N1 P1 a b c Nab Nac Nbc Ha1 Hb1 Hc1) as F. apply (fp3z_shift _ _ _ (len0 c1)) in F.
      eapply fp3z_eq; [| | | exact F]; lia.
Qed.

(* four taxa *)
Lemma four_point_tree : forall t, rbin t -> good_leaves t -> nonneg_lengths t -> positive_internal t ->
  forall a b c d, a <> b -> a <> c -> a <> d -> b <> c -> b <> d -> c <> d ->
  has a t = true -> has b t = true -> has c t = true -> has d t = true ->
  fp3z (D t a b + D t c d) (D t a c + D t b d) (D t a d + D t b c).
Proof.
  induction t as [i x0 lb e ks IH] using tree_ind'. intros R G N P a b c d Nab Nac Nad Nbc Nbd Ncd Ha Hb Hc Hd.
  destruct ks as [|c0 [|c1 [|c2 r]]]; try (cbn [rbin] in R; contradiction).
  - exfalso. apply Nab. eapply leaf_has_unique; [|exact Ha|exact Hb]. reflexivity.
  - cbn [rbin] in R. destruct R as [R0 R1]. inversion IH as [|? ? IH0 IH']; subst. inversion IH' as [|? ? IH1 _]; subst. clear IH IH'.
    pose proof (good_leaves_kids _ _ _ _ _ _ G) as GK. pose proof (good_kids_Forall _ GK) as GF.
    inversion GF as [|? ? G0 GF']; subst. inversion GF' as [|? ? G1 _]; subst.
    assert (I0 : In c0 [c0; c1]) by (left; reflexivity). assert (I1 : In c1 [c0; c1]) by (right; left; reflexivity).
    destruct (nonneg_kid i x0 lb e _ c0 I0 N) as [N0 _]. destruct (nonneg_kid i x0 lb e _ c1 I1 N) as [N1 _].
    pose proof (pint_kid i x0 lb e _ c0 I0 P) as P0. pose proof (pint_kid i x0 lb e _ c1 I1 P) as P1.
    set (t := T i x0 lb e [c0; c1]) in *.
    (* rewriting rules *)
    assert (S0 : forall x y, has x c0 = true -> has y c0 = true -> D t x y = D c0 x y) by (intros; apply (D_same x y i x0 lb e _ c0 GK I0); assumption).
    assert (S1 : forall x y, has x c1 = true -> has y c1 = true -> D t x y = D c1 x y) by (intros; apply (D_same x y i x0 lb e _ c1 GK I1); assumption).
    assert (K0 : forall x, has x c0 = true -> dep x t = dep x c0 + len0 c0) by (intros; apply (dep_kid x i x0 lb e _ c0 GK I0); assumption).
    assert (K1 : forall x, has x c1 = true -> dep x t = dep x c1 + len0 c1) by (intros; apply (dep_kid x i x0 lb e _ c1 GK I1); assumption).
    assert (X01 : forall x y, has x c0 = true -> has y c1 = true -> has y c0 = false -> D t x y = dep x t + dep y t)
      by (intros; apply (Dsplit01 i x0 lb e c0 c1 G); assumption).
    assert (X10 : forall x y, has x c1 = true -> has y c0 = true -> has y c1 = false -> D t x y = dep x t + dep y t)
      by (intros; apply (Dsplit10 i x0 lb e c0 c1 G); assumption).
    assert (L0 : forall x y, x <> y -> has x c0 = true -> has y c0 = true -> D t x y < dep x t + dep y t)
      by (intros; apply (Dlt0 i x0 lb e c0 c1 G N P); assumption).
    assert (L1 : forall x y, x <> y -> has x c1 = true -> has y c1 = true -> D t x y < dep x t + dep y t)
      by (intros; apply (Dlt1 i x0 lb e c0 c1 G N P); assumption).
    assert (T0 : forall x y z, x <> y -> x <> z -> y <> z -> has x c0 = true -> has y c0 = true -> has z c0 = true ->
                 fp3z (D t x y + dep z t) (D t x z + dep y t) (D t y z + dep x t)).
    { intros x y z n1 n2 n3 h1 h2 h3. rewrite (S0 x y), (S0 x z), (S0 y z), (K0 x), (K0 y), (K0 z) by assumption.
      pose proof (three_point_root c0 R0 G0 N0 P0 x y z n1 n2 n3 h1 h2 h3) as F. apply (fp3z_shift _ _ _ (len0 c0)) in F.
      eapply fp3z_eq; [| | | exact F]; lia. }
    assert (T1 : forall x y z, x <> y -> x <> z -> y <> z -> has x c1 = true -> has y c1 = true -> has z c1 = true ->
                 fp3z (D t x y + dep z t) (D t x z + dep y t) (D t y z + dep x t)).
    { intros x y z n1 n2 n3 h1 h2 h3. rewrite (S1 x y), (S1 x z), (S1 y z), (K1 x), (K1 y), (K1 z) by assumption.
      pose proof (three_point_root c1 R1 G1 N1 P1 x y z n1 n2 n3 h1 h2 h3) as F. apply (fp3z_shift _ _ _ (len0 c1)) in F.
      eapply fp3z_eq; [| | | exact F]; lia. }
    destruct (bin_side a i x0 lb e c0 c1 G Ha) as [[Ha0 Ha1]|[Ha0 Ha1]];
    destruct (bin_side b i x0 lb e c0 c1 G Hb) as [[Hb0 Hb1]|[Hb0 Hb1]];
    destruct (bin_side c i x0 lb e c0 c1 G Hc) as [[Hc0 Hc1]|[Hc0 Hc1]];
    destruct (bin_side d i x0 lb e c0 c1 G Hd) as [[Hd0 Hd1]|[Hd0 Hd1]].
    + (* 0000 *) rewrite !S0 by assumption. apply (IH0 R0 G0 N0 P0); assumption.
    + (* 0001: a b c | d *)
      rewrite (X01 c d), (X01 b d), (X01 a d) by assumption. pose proof (T0 a b c Nab Nac Nbc Ha0 Hb0 Hc0) as F.
      apply (fp3z_shift _ _ _ (dep d t)) in F. eapply fp3z_eq; [| | | exact F]; lia.
    + (* 0010: a b d | c *)
      rewrite (X10 c d), (X01 a c), (X01 b c) by assumption. pose proof (T0 a b d Nab Nad Nbd Ha0 Hb0 Hd0) as F.
      apply fp3z_132 in F. apply (fp3z_shift _ _ _ (dep c t)) in F. eapply fp3z_eq; [| | | exact F]; lia.
    + (* 0011: a b | c d *)
      pose proof (L0 a b Nab Ha0 Hb0). pose proof (L1 c d Ncd Hc1 Hd1).
      rewrite (X01 a c), (X01 b d), (X01 a d), (X01 b c) by assumption. unfold fp3z. lia.
    + (* 0100: a c d | b *)
      rewrite (X01 a b), (X10 b d), (X10 b c) by assumption. pose proof (T0 a c d Nac Nad Ncd Ha0 Hc0 Hd0) as F.
      apply fp3z_312 in F. apply (fp3z_shift _ _ _ (dep b t)) in F. eapply fp3z_eq; [| | | exact F]; lia.
    + (* 0101: a c | b d *)
      pose proof (L0 a c Nac Ha0 Hc0). pose proof (L1 b d Nbd Hb1 Hd1).
      rewrite (X01 a b), (X01 c d), (X01 a d), (X10 b c) by assumption. unfold fp3z. lia.
    + (* 0110: a d | b c *)
      pose proof (L0 a d Nad Ha0 Hd0). pose proof (L1 b c Nbc Hb1 Hc1).
      rewrite (X01 a b), (X10 c d), (X01 a c), (X10 b d) by assumption. unfold fp3z. lia.
    + (* 0111: a | b c d *)
      rewrite (X01 a b), (X01 a c), (X01 a d) by assumption. pose proof (T1 b c d Nbc Nbd Ncd Hb1 Hc1 Hd1) as F.
      apply fp3z_321 in F. apply (fp3z_shift _ _ _ (dep a t)) in F. eapply fp3z_eq; [| | | exact F]; lia.
    + (* 1000: b c d | a *)
      rewrite (X10 a b), (X10 a c), (X10 a d) by assumption. pose proof (T0 b c d Nbc Nbd Ncd Hb0 Hc0 Hd0) as F.
      apply fp3z_321 in F. apply (fp3z_shift _ _ _ (dep a t)) in F. eapply fp3z_eq; [| | | exact F]; lia.
    + (* 1001: b c | a d *)
      pose proof (L0 b c Nbc Hb0 Hc0). pose proof (L1 a d Nad Ha1 Hd1).
      rewrite (X10 a b), (X01 c d), (X10 a c), (X01 b d) by assumption. unfold fp3z. lia.
    + (* 1010: b d | a c *)
      pose proof (L0 b d Nbd Hb0 Hd0). pose proof (L1 a c Nac Ha1 Hc1).
      rewrite (X10 a b), (X10 c d), (X10 a d), (X01 b c) by assumption. unfold fp3z. lia.
    + (* 1011: b | a c d *)
      rewrite (X10 a b), (X01 b d), (X01 b c) by assumption. pose proof (T1 a c d Nac Nad Ncd Ha1 Hc1 Hd1) as F.
      apply fp3z_312 in F. apply (fp3z_shift _ _ _ (dep b t)) in F. eapply fp3z_eq; [| | | exact F]; lia.
    + (* 1100: c d | a b *)
      pose proof (L0 c d Ncd Hc0 Hd0). pose proof (L1 a b Nab Ha1 Hb1).
      rewrite (X10 a c), (X10 b d), (X10 a d), (X10 b c) by assumption. unfold fp3z. lia.
    + (* 1101: c | a b d *)
      rewrite (X01 c d), (X10 a c), (X10 b c) by assumption. pose proof (T1 a b d Nab Nad Nbd Ha1 Hb1 Hd1) as F.
      apply fp3z_132 in F. apply (fp3z_shift _ _ _ (dep c t)) in F. eapply fp3z_eq; [| | | exact F]; lia.
    + (* 1110: d | a b c *)
      rewrite (X10 c d), (X10 b d), (X10 a d) by assumption. pose proof (T1 a b c Nab Nac Nbc Ha1 Hb1 Hc1) as F.
      apply (fp3z_shift _ _ _ (dep d t)) in F. eapply fp3z_eq; [| | | exact F]; lia.
    + (* 1111 *) rewrite !S1 by assumption. apply (IH1 R1 G1 N1 P1); assumption.
Qed.

(* ---------- the matrix handed to nj_tree ---------- *)
Lemma fp3_of_z x1 x2 y1 y2 z1 z2 : fp3z (x1 + x2) (y1 + y2) (z1 + z2) ->
  fp3 (uq x1 + uq x2) (uq y1 + uq y2) (uq z1 + uq z2).
Proof.
  assert (L : forall a b c d, a + b < c + d -> (uq a + uq b < uq c + uq d)%Q).
  { intros a b c d H. rewrite <- !uq_plus. unfold uq. rewrite !Qred_correct. unfold Qlt. cbn. lia. }
  assert (E : forall a b c d, a + b = c + d -> (uq a + uq b == uq c + uq d)%Q).
  { intros a b c d H. rewrite <- !uq_plus, H. reflexivity. }
  unfold fp3z, fp3. intros [[A B]|[[A B]|[A B]]]; [left | right; left | right; right]; split; auto.
Qed.

Theorem tree_matrix_four_point_strict t p order :
  rbin t -> good_leaves t -> t_kids t <> [] -> positive_internal t -> nonneg_lengths t ->
  compile_from_tree t = Ok p -> (forall a, In a order -> In (Some a) (leaf_taxa t)) ->
  mfour_point_strict (qtable p true) order.
Proof.
  intros R G Hk P Nn Ec Hin.
  destruct (pdm_exact_p t G Hk) as [p' [E' [Hv _]]]. rewrite Ec in E'. assert (p' = p) by congruence. subst p'.
  assert (Val : forall a b, In a order -> In b order -> mval (qtable p true) a b = uq (D t a b)).
  { intros a b Ha Hb. destruct (Hv a b (Hin a Ha) (Hin b Hb)) as [r [d [s [_ [Ed [_ [T1 _]]]]]]].
    unfold mval. rewrite qtable_get, T1. unfold D. rewrite Ed. reflexivity. }
  intros a b c d Ha Hb Hc Hd Nab Nac Nad Nbc Nbd Ncd.
  rewrite !Val by assumption. apply fp3_of_z.
  apply four_point_tree; try assumption; apply has_In; apply Hin; assumption.
Qed.

(* hence neighbor joining realises the distances of every such tree with at most five leaves *)
Theorem nj_recovers_tree_small t p order :
  rbin t -> good_leaves t -> t_kids t <> [] -> positive_internal t -> nonneg_lengths t ->
  compile_from_tree t = Ok p ->
  NoDup order -> order <> [] -> (length order <= 5)%nat -> (forall a, In a order -> In (Some a) (leaf_taxa t)) ->
  exists T, nj_tree (qtable p true) order = Ok T /\
    forall a b, In a order -> In b order -> a <> b ->
      exists q d, qdist T a b = Some q /\ dist t a b = Some d /\ (q == uq d)%Q.
Proof.
  intros R G Hk P Nn Ec N Ne L5 Hin.
  destruct (pdm_exact_p t G Hk) as [p' [E' [Hv _]]]. rewrite Ec in E'. assert (p' = p) by congruence. subst p'.
  assert (Val : forall a b, In a order -> In b order ->
            exists d, dist t a b = Some d /\ mval (qtable p true) a b = uq d).
  { intros a b Ha Hb. destruct (Hv a b (Hin a Ha) (Hin b Hb)) as [r [d [s [_ [Ed [_ [T1 _]]]]]]].
    exists d. split; [exact Ed|]. unfold mval. rewrite qtable_get, T1. reflexivity. }
  assert (C : mcomplete (qtable p true) order).
  { intros a b Ha Hb _. destruct (Hv a b (Hin a Ha) (Hin b Hb)) as [r [d [s [_ [_ [_ [T1 _]]]]]]].
    rewrite qtable_get, T1. discriminate. }
  assert (S : msymmetric (qtable p true) order).
  { intros a b Ha Hb _. unfold mval. rewrite !qtable_get.
    destruct (pdm_sym_p t p G Hk Ec a b) as [S1 _]. rewrite S1. reflexivity. }
  pose proof (tree_matrix_four_point_strict t p order R G Hk P Nn Ec Hin) as F.
  destruct (C14Qcrit.nj_recovers_small_l (qtable p true) order N Ne L5 C S F) as [T [ET HD]].
  exists T. split; [exact ET|]. intros a b Ha Hb Nab. destruct (HD a b Ha Hb Nab) as [q [Eq Hq]].
  destruct (Val a b Ha Hb) as [d [Ed Vd]]. exists q, d. split; [exact Eq|]. split; [exact Ed|]. rewrite Hq, Vd. reflexivity.
Qed.
