(* C20: the Newick reader model (C02's Model/Newick.v) is total: for every character list it
   returns trees or ParseErr; the fuel C02 gives it (2 * tokens + 8) always suffices.
   This also discharges, about the model, the arguments written next to the allow-listed loops
   newickreader.py:296 (tree_iter) and :504 (children of a node). *)
From Coq Require Import ZArith List Bool Lia.
From DV Require Import Model.PyPrims Gen.CharClasses Model.Tokenizer Model.Newick Proofs.C20Tok.
Import ListNotations.
Open Scope Z_scope.

Section NT.
Variable L : Type.
Variable parse_len : str -> option L.
Variable lower : str -> str.
Variable o : ropts.
Hypothesis TSR : ro_terminating_semicolon_required o = true.

Notation label_loop := (label_loop L parse_len lower).
Notation parse_node := (parse_node L parse_len lower).
Notation children_loop := (children_loop L parse_len lower).
Notation comma_loop := (comma_loop L).
Notation parse_tree_statement := (parse_tree_statement L parse_len lower).
Notation tree_iter := (tree_iter L parse_len lower).

(* measure: twice the tokens not yet fetched, plus one while a current token is held *)
Definition mu (st : pstate) : nat := length (ps_toks st).
Definition hasc (st : pstate) : nat := match ps_cur st with None => 0 | Some _ => 1 end.
Definition B (st : pstate) : nat := 2 * mu st + hasc st.

Definition good (st : pstate) : Prop :=
  ps_end st <> EndFuel /\ (forall e, ps_end st = EndErr e -> e = ParseErr).

Definition rok {A} (r : res A) (P : A -> Prop) : Prop :=
  match r with Ok a => P a | Err e => e = ParseErr | OutOfFuel => False end.

Lemma rok_bind {A C} (r : res A) (f : A -> res C) (P : A -> Prop) (Q : C -> Prop) :
  rok r P -> (forall a, P a -> rok (f a) Q) -> rok (bind r f) Q.
Proof. destruct r; simpl; auto. Qed.

(* same tokenizer position *)
Definition same_pos (a b : pstate) : Prop :=
  ps_toks a = ps_toks b /\ ps_cur a = ps_cur b /\ ps_end a = ps_end b /\ ps_eof a = ps_eof b.

(* the tokens still to be fetched in st' are a suffix of those in st *)
Definition suf (st st' : pstate) : Prop := exists k, ps_toks st' = skipn k (ps_toks st).

Lemma suf_refl st : suf st st.
Proof. exists O. reflexivity. Qed.

Lemma skipn_add {A} (l : list A) : forall k j, skipn j (skipn k l) = skipn (k + j) l.
Proof.
  induction l as [|x r IH]; intros k j.
  - rewrite !skipn_nil. reflexivity.
  - destruct k; simpl; [reflexivity | apply IH].
Qed.

Lemma suf_trans a b c : suf a b -> suf b c -> suf a c.
Proof. intros [k H] [j J]. exists (k + j)%nat. rewrite J, H. apply skipn_add. Qed.

Lemma suf_same a b : same_pos a b -> suf b a.
Proof. intros [T _]. exists O. simpl. exact T. Qed.

Lemma suf_same' a b : same_pos a b -> suf a b.
Proof. intros [T _]. exists O. simpl. symmetry. exact T. Qed.

Lemma same_pos_B a b : same_pos a b -> B a = B b.
Proof. intros [T [C _]]. unfold B, mu, hasc. rewrite T, C. reflexivity. Qed.

Lemma same_pos_good a b : same_pos a b -> good b -> good a.
Proof. intros [_ [_ [E _]]] [G1 G2]. unfold good. rewrite E. auto. Qed.

Lemma cur_is_same a b c : same_pos a b -> cur_is a c = cur_is b c.
Proof. intros [_ [C _]]. unfold cur_is. rewrite C. reflexivity. Qed.

Lemma pull_same st : same_pos (snd (pull_comments st)) st /\ ps_nesting (snd (pull_comments st)) = ps_nesting st
                     /\ ps_complete (snd (pull_comments st)) = ps_complete st.
Proof. unfold pull_comments, same_pos; simpl. auto. Qed.

Lemma cur_is_hasc st c : cur_is st c = true -> hasc st = 1%nat.
Proof. unfold cur_is, hasc. destruct (ps_cur st); [reflexivity | discriminate]. Qed.

(* Tokenizer.__next__ seen from the reader *)
Lemma advance_spec st : good st ->
  match advance st with
  | AdvTok st' => good st' /\ S (mu st') = mu st /\ hasc st' = 1%nat
                  /\ ps_nesting st' = ps_nesting st /\ ps_complete st' = ps_complete st /\ suf st st'
  | AdvStop st' => good st' /\ mu st' = 0%nat /\ mu st = 0%nat /\ ps_eof st' = true
                   /\ ps_cur st' = ps_cur st
                   /\ ps_nesting st' = ps_nesting st /\ ps_complete st' = ps_complete st /\ suf st st'
  | AdvErr e => forall A, @lift_err A e = Err ParseErr
  end.
Proof.
  intros [G1 G2]. unfold advance, mu, hasc, good.
  destruct (ps_toks st) as [|t r] eqn:T.
  - destruct (ps_end st) as [cs|e|] eqn:E.
    + simpl. repeat split; auto; try discriminate. exists O. simpl. symmetry. exact T.
    + intros A. simpl. rewrite (G2 e eq_refl). reflexivity.
    + congruence.
  - simpl. repeat split; auto. exists 1%nat. simpl. rewrite T. reflexivity.
Qed.

Lemma require_next_spec st : good st ->
  rok (require_next st) (fun st' => good st' /\ S (mu st') = mu st /\ hasc st' = 1%nat
                                    /\ ps_nesting st' = ps_nesting st /\ ps_complete st' = ps_complete st
                                    /\ suf st st').
Proof.
  intros G. unfold require_next. pose proof (advance_spec st G) as S.
  destruct (advance st); simpl; [exact S | reflexivity | rewrite S; reflexivity].
Qed.

Lemma next_or_none_spec st : good st ->
  rok (next_token_or_none st)
      (fun st' => good st' /\ ps_nesting st' = ps_nesting st /\ ps_complete st' = ps_complete st
                  /\ ((S (mu st') = mu st /\ hasc st' = 1%nat)
                      \/ (mu st' = 0%nat /\ mu st = 0%nat /\ hasc st' = 0%nat /\ ps_eof st' = true))
                  /\ suf st st').
Proof.
  intros G. unfold next_token_or_none. pose proof (advance_spec st G) as S.
  destruct (advance st) as [st'|st'|e]; simpl.
  - destruct S as [A [B0 [C [D [E SF]]]]].
    split; [exact A|]. split; [exact D|]. split; [exact E|]. split; [left; split; assumption | exact SF].
  - destruct S as [A [B0 [C [D [E [F0 [F1 SF]]]]]]].
    split; [exact A|]. split; [exact F0|]. split; [exact F1|].
    split; [right; unfold mu, hasc in *; simpl; auto|].
    destruct SF as [k K]. exists k. simpl. exact K.
  - rewrite S. reflexivity.
Qed.

Lemma rok_impl {A} (r : res A) (P Q : A -> Prop) : rok r P -> (forall a, P a -> Q a) -> rok r Q.
Proof. destruct r; simpl; auto. Qed.

(* what every sub-parser guarantees about the state it returns *)
Definition post (st st' : pstate) : Prop :=
  good st' /\ (B st' <= B st)%nat /\ suf st st'.

Lemma B_same_pos a b : same_pos a b -> B a = B b.
Proof. apply same_pos_B. Qed.

Lemma B_after_fetch st st' : S (mu st') = mu st -> hasc st' = 1%nat -> (B st' + 1 + hasc st = B st)%nat.
Proof. unfold B. intros. lia. Qed.

(* `while current_token == ","` *)
Lemma comma_loop_spec : forall f st kids, good st -> (B st + 1 <= f)%nat ->
  rok (comma_loop f st kids) (fun r => post st (snd r)).
Proof.
  induction f as [|f IH]; intros st kids G HB; [lia|].
  cbn [Newick.comma_loop].
  destruct (cur_is st COMMA) eqn:C; [| simpl; split; [exact G | split; [lia | apply suf_refl]]].
  pose proof (pull_same st) as PS. destruct (pull_comments st) as [cs st1]. simpl in PS.
  destruct PS as [SP _].
  eapply rok_bind; [apply require_next_spec; eapply same_pos_good; eauto|].
  intros st2 [G2 [M2 [H2 [_ [_ SF2]]]]].
  pose proof (B_after_fetch st1 st2 M2 H2) as E. rewrite (same_pos_B _ _ SP) in E.
  pose proof (cur_is_hasc _ _ C) as HC.
  assert (hasc st1 = 1%nat) as HC1 by (destruct SP as [_ [CC _]]; unfold hasc in *; rewrite CC; exact HC).
  eapply rok_impl; [apply IH; [exact G2 | lia]|].
  intros [k st3] [G3 [B3 SF3]]. simpl in *. split; [exact G3|]. split; [lia|].
  eapply suf_trans; [apply (suf_same _ _ SP)|]. eapply suf_trans; eassumption.
Qed.

(* the label / edge-length / terminator loop *)
Definition lpost (st st' : pstate) : Prop :=
  good st' /\ (B st' <= B st)%nat
  /\ (ps_complete st' = ps_complete st \/ (B st' < B st)%nat)
  /\ (cur_is st RPAREN = false -> cur_is st COMMA = false -> (B st' < B st)%nat)
  /\ suf st st'.

Lemma set_complete_same st b : same_pos (set_complete st b) st.
Proof. unfold same_pos, set_complete; simpl; auto. Qed.
Lemma set_nesting_same st n : same_pos (set_nesting st n) st.
Proof. unfold same_pos, set_nesting; simpl; auto. Qed.
Lemma set_seen_map_same st sn m : same_pos (set_seen_map st sn m) st.
Proof. unfold same_pos, set_seen_map; simpl; auto. Qed.
Lemma same_pos_trans a b c : same_pos a b -> same_pos b c -> same_pos a c.
Proof. unfold same_pos. intros [A1 [A2 [A3 A4]]] [B1 [B2 [B3 B4]]]. repeat split; congruence. Qed.
Lemma same_pos_hasc a b : same_pos a b -> hasc a = hasc b.
Proof. intros [_ [C _]]. unfold hasc. rewrite C. reflexivity. Qed.

(* after fetching one more token from a state at the same position as st *)
Lemma after_tok st s s' : same_pos s st -> S (mu s') = mu s -> hasc s' = 1%nat -> (B s' + 1 + hasc st = B st)%nat.
Proof. intros SP M H. rewrite <- (same_pos_B _ _ SP), <- (same_pos_hasc _ _ SP). apply B_after_fetch; assumption. Qed.

Lemma label_loop_spec : forall f st isint lp nd, good st -> (B st + 1 <= f)%nat ->
  rok (label_loop o f st isint lp nd) (fun r => lpost st (snd r)).
Proof.
  induction f as [|f IH]; intros st isint lp nd G HB; [lia|].
  cbn [Newick.label_loop].
  pose proof (pull_same st) as PS. destruct (pull_comments st) as [cc st1]. simpl in PS.
  destruct PS as [SP [N1 C1]].
  assert (G1 : good st1) by (eapply same_pos_good; eauto).
  rewrite !(cur_is_same st1 st _ SP).
  destruct (cur_is st COLON) eqn:EC.
  { (* ":" *)
    pose proof (cur_is_hasc _ _ EC) as HC.
    eapply rok_bind; [apply require_next_spec; exact G1|].
    intros st2 [G2 [M2 [H2 [N2 [C2 SF2]]]]].
    pose proof (after_tok st st1 st2 SP M2 H2) as E2.
    assert (SFa : suf st st2) by (eapply suf_trans; [apply (suf_same _ _ SP) | exact SF2]).
    eapply rok_bind with (P := fun _ => True).
    { destruct (ro_suppress_edge_lengths o); [exact I|]. destruct (parse_len (cur_text st2)); simpl; auto. }
    intros nd1 _.
    pose proof (advance_spec st2 G2) as A. destruct (advance st2) as [st3|st3|e].
    - destruct A as [G3 [M3 [H3 [N3 [C3 SF3]]]]].
      assert (E3 : (B st3 + 2 = B st2)%nat) by (unfold B in *; lia).
      eapply rok_impl; [apply IH; [exact G3 | lia]|].
      intros [nd' st4] [G4 [B4 [_ [_ SF4]]]]. simpl in *.
      split; [exact G4|]. split; [lia|]. split; [right; lia|]. split; [intros; lia|].
      eapply suf_trans; [exact SFa|]. eapply suf_trans; eassumption.
    - rewrite TSR. reflexivity.
    - rewrite A. reflexivity. }
  destruct (cur_is st RPAREN) eqn:ER.
  { simpl. split; [exact G1|]. rewrite (same_pos_B _ _ SP). split; [lia|]. split; [left; exact C1|].
    split; [intro X; congruence | apply (suf_same _ _ SP)]. }
  destruct (cur_is st SEMI) eqn:ES.
  { pose proof (cur_is_hasc _ _ ES) as HC.
    eapply rok_bind; [apply next_or_none_spec; eapply same_pos_good; [apply set_complete_same | exact G1]|].
    intros st2 [G2 [N2 [C2 [D2 SF2]]]].
    assert (X : (B st2 < B st)%nat).
    { pose proof (same_pos_trans _ _ _ (set_complete_same st1 true) SP) as SP2.
      destruct D2 as [[M2 H2] | [M2 [M0 [H2 _]]]].
      - pose proof (after_tok st _ st2 SP2 M2 H2). lia.
      - unfold B. rewrite M2, H2. unfold B in *. lia. }
    destruct (ps_nesting st2 =? 0); simpl; [|reflexivity].
    split; [exact G2|]. split; [lia|]. split; [right; exact X|]. split; [intros; exact X|].
    eapply suf_trans; [apply (suf_same _ _ SP)|].
    eapply suf_trans; [apply (suf_same _ _ (set_complete_same st1 true)) | exact SF2]. }
  destruct (cur_is st COMMA) eqn:EM.
  { simpl. split; [exact G1|]. rewrite (same_pos_B _ _ SP). split; [lia|]. split; [left; exact C1|].
    split; [intros _ X; congruence | apply (suf_same _ _ SP)]. }
  destruct (cur_is st LPAREN) eqn:EL; [reflexivity|].
  destruct lp; [reflexivity|].
  (* a label *)
  match goal with |- rok (bind ?r _) _ =>
    assert (R : rok r (fun p => same_pos (snd p) st1)) end.
  { destruct ((isint && ro_suppress_internal_node_taxa o) || (negb isint && ro_suppress_leaf_node_taxa o)).
    - simpl. unfold same_pos; auto.
    - destruct (require_taxon_for_symbol lower (ps_map st1) (cur_text st1)) as [i m].
      destruct (existsb (Nat.eqb i) (ps_seen st1)); simpl; [reflexivity | apply set_seen_map_same]. }
  eapply rok_bind; [exact R|].
  intros [nd1 s1] SP1. simpl in SP1.
  pose proof (same_pos_trans _ _ _ SP1 SP) as SPs.
  assert (Gs : good s1) by (eapply same_pos_good; eauto).
  pose proof (advance_spec s1 Gs) as A. destruct (advance s1) as [st3|st3|e].
  - destruct A as [G3 [M3 [H3 [N3 [C3 SF3]]]]].
    pose proof (after_tok st s1 st3 SPs M3 H3) as E3.
    eapply rok_impl; [apply IH; [exact G3 | lia]|].
    intros [nd' st4] [G4 [B4 [_ [_ SF4]]]]. simpl in *.
    split; [exact G4|]. split; [lia|]. split; [right; lia|]. split; [intros; lia|].
    eapply suf_trans; [apply (suf_same _ _ SPs)|]. eapply suf_trans; eassumption.
  - rewrite TSR. reflexivity.
  - rewrite A. reflexivity.
Qed.

(* a node and the loop over its children, by mutual induction on the fuel *)
Definition npost (st st' : pstate) : Prop :=
  good st' /\ (B st' <= B st)%nat
  /\ (ps_complete st' = true -> (B st' < B st)%nat)
  /\ (cur_is st RPAREN = false -> cur_is st COMMA = false -> (B st' < B st)%nat)
  /\ suf st st'.

Definition P_node (f : nat) : Prop := forall st isint pre, good st -> (B st + 2 <= f)%nat ->
  rok (parse_node o f st isint pre) (fun r => npost st (snd r)).
Definition P_children (f : nat) : Prop := forall st nc c0 kids, good st -> (B st + 3 <= f)%nat ->
  rok (children_loop o f st nc c0 kids) (fun r => post st (snd r)).

Lemma node_children : forall f, P_node f /\ P_children f.
Proof.
  induction f as [|f [IHn IHc]]; [split; intros ? ? ? ? ?; lia|].
  split.
  - (* parse_node *)
    intros st isint pre G HB. cbn [Newick.parse_node].
    pose proof (pull_same st) as PS. destruct (pull_comments st) as [cs0 st1]. simpl in PS.
    destruct PS as [SP [N1 C1]].
    assert (G1 : good st1) by (eapply same_pos_good; eauto).
    rewrite (cur_is_same st1 st _ SP).
    match goal with |- rok (bind ?r _) _ =>
      assert (R : rok r (fun p => good (snd p) /\ (B (snd p) <= B st)%nat
                                 /\ (cur_is st LPAREN = true -> (B (snd p) + 2 <= B st)%nat)
                                 /\ (cur_is st LPAREN = false -> same_pos (snd p) st)
                                 /\ suf st (snd p))) end.
    { destruct (cur_is st LPAREN) eqn:EL.
      - pose proof (cur_is_hasc _ _ EL) as HC.
        eapply rok_bind; [apply require_next_spec; exact G1|].
        intros st2 [G2 [M2 [H2 [_ [_ SF2]]]]].
        pose proof (after_tok st st1 st2 SP M2 H2) as E2.
        eapply rok_impl; [apply IHc; [exact G2 | lia]|].
        intros [ks st3] [G3 [B3 SF3]]. simpl in *. split; [exact G3|]. split; [lia|]. split; [intros _; lia|].
        split; [discriminate|].
        eapply suf_trans; [apply (suf_same _ _ SP)|]. eapply suf_trans; eassumption.
      - simpl. split; [exact G1|]. rewrite (same_pos_B _ _ SP). split; [lia|]. split; [discriminate|].
        split; [intros _; exact SP | apply (suf_same _ _ SP)]. }
    eapply rok_bind; [exact R|].
    intros [kids st2] [G2 [B2 [L2 [S2 SF2]]]]. simpl in G2, B2, L2, S2, SF2.
    eapply rok_bind.
    { apply label_loop_spec; [eapply same_pos_good; [apply set_complete_same | exact G2]|].
      rewrite (same_pos_B _ _ (set_complete_same st2 false)). lia. }
    intros [nd st4] [G4 [B4 [C4 [Pr4 SF4]]]]. simpl in *.
    rewrite (same_pos_B _ _ (set_complete_same st2 false)) in *.
    split; [exact G4|]. split; [lia|].
    assert (SFx : suf st st4).
    { eapply suf_trans; [exact SF2|]. eapply suf_trans; [apply (suf_same _ _ (set_complete_same st2 false)) | exact SF4]. }
    split; [|split; [|exact SFx]].
    + intro CT. destruct C4 as [C4|C4]; [|lia].
      unfold set_complete in C4. simpl in C4. congruence.
    + intros NR NC.
      destruct (cur_is st LPAREN) eqn:EL.
      * specialize (L2 eq_refl). lia.
      * (* no children: st2 is st1, the label loop starts on the same token *)
        assert (X : (B st4 < B (set_complete st2 false))%nat).
        { apply Pr4; rewrite (cur_is_same _ st2 _ (set_complete_same st2 false)).
          - rewrite (cur_is_same st2 st _ (S2 eq_refl)). exact NR.
          - rewrite (cur_is_same st2 st _ (S2 eq_refl)). exact NC. }
        rewrite (same_pos_B _ _ (set_complete_same st2 false)) in X. lia.
  - (* children_loop *)
    intros st nc c0 kids G HB. cbn [Newick.children_loop].
    destruct (cur_is st COMMA) eqn:EM.
    { pose proof (cur_is_hasc _ _ EM) as HC.
      match goal with |- rok (let '(k1, s1) := ?x in _) _ =>
        assert (SPx : same_pos (snd x) st) end.
      { destruct nc; unfold pull_comments, same_pos; simpl; auto. }
      match goal with |- rok (let '(k1, s1) := ?x in _) _ => destruct x as [kids1 st1] end.
      simpl in SPx.
      eapply rok_bind; [apply require_next_spec; eapply same_pos_good; eauto|].
      intros st2 [G2 [M2 [H2 [_ [_ SF2]]]]].
      pose proof (after_tok st st1 st2 SPx M2 H2) as E2.
      eapply rok_bind; [apply comma_loop_spec; [exact G2 | lia]|].
      intros [kids2 st3] [G3 [B3 SF3]]. simpl in G3, B3, SF3.
      assert (SFa : suf st st3).
      { eapply suf_trans; [apply (suf_same _ _ SPx)|]. eapply suf_trans; eassumption. }
      match goal with |- rok (if ?c then _ else _) _ => destruct c end.
      - pose proof (pull_same st3) as PS. destruct (pull_comments st3) as [cs st4]. simpl in PS.
        destruct PS as [SP4 _].
        eapply rok_impl; [apply IHc; [eapply same_pos_good; eauto | rewrite (same_pos_B _ _ SP4); lia]|].
        intros [ks st5] [G5 [B5 SF5]]. simpl in *. rewrite (same_pos_B _ _ SP4) in B5. split; [exact G5|]. split; [lia|].
        eapply suf_trans; [exact SFa|]. eapply suf_trans; [apply (suf_same _ _ SP4) | exact SF5].
      - eapply rok_impl; [apply IHc; [exact G3 | lia]|].
        intros [ks st5] [G5 [B5 SF5]]. simpl in *. split; [exact G5|]. split; [lia|].
        eapply suf_trans; eassumption. }
    destruct (cur_is st RPAREN) eqn:ER.
    { eapply rok_bind; [apply require_next_spec; eapply same_pos_good; [apply set_nesting_same | exact G]|].
      intros st1 [G1 [M1 [H1 [_ [_ SF1]]]]]. simpl.
      pose proof (after_tok st _ st1 (set_nesting_same st _) M1 H1). split; [exact G1|]. split; [lia|].
      eapply suf_trans; [apply (suf_same _ _ (set_nesting_same st (ps_nesting st - 1))) | exact SF1]. }
    (* a child *)
    set (st0 := if cur_is st LPAREN then set_nesting st (ps_nesting st + 1) else st).
    assert (SP0 : same_pos st0 st) by (subst st0; destruct (cur_is st LPAREN); [apply set_nesting_same | unfold same_pos; auto]).
    pose proof (pull_same st0) as PS. destruct (pull_comments st0) as [cs st1]. simpl in PS.
    destruct PS as [SP1 _].
    pose proof (same_pos_trans _ _ _ SP1 SP0) as SPs.
    eapply rok_bind.
    { apply IHn; [eapply same_pos_good; eauto | rewrite (same_pos_B _ _ SPs); lia]. }
    intros [child st2] [G2 [B2 [_ [Pr2 SF2]]]]. simpl in G2, B2, Pr2, SF2.
    rewrite !(cur_is_same st1 st _ SPs) in Pr2. specialize (Pr2 ER EM).
    rewrite (same_pos_B _ _ SPs) in *.
    eapply rok_impl; [apply IHc; [exact G2 | lia]|].
    intros [ks st5] [G5 [B5 SF5]]. simpl in *. split; [exact G5|]. split; [lia|].
    eapply suf_trans; [apply (suf_same _ _ SPs)|]. eapply suf_trans; eassumption.
Qed.

Lemma parse_node_spec f st isint pre : good st -> (B st + 2 <= f)%nat ->
  rok (parse_node o f st isint pre) (fun r => npost st (snd r)).
Proof. apply (proj1 (node_children f)). Qed.

(* leading `while (tok == ";" or tok is None) and not is_eof(): require_next_token()` *)
Lemma skip_semicolons_spec : forall f st tc, good st -> (B st + 1 <= f)%nat ->
  rok (skip_semicolons f st tc) (fun r => post st (snd r)).
Proof.
  induction f as [|f IH]; intros st tc G HB; [lia|].
  cbn [skip_semicolons].
  match goal with |- rok (if ?c then _ else _) _ => destruct c end; [|simpl; split; [exact G | split; [lia | apply suf_refl]]].
  eapply rok_bind; [apply require_next_spec; exact G|].
  intros st1 [G1 [M1 [H1 [_ [_ SF1]]]]].
  pose proof (pull_same st1) as PS. destruct (pull_comments st1) as [cs st2]. simpl in PS. destruct PS as [SP _].
  pose proof (B_after_fetch st st1 M1 H1) as E.
  eapply rok_impl; [apply IH; [eapply same_pos_good; eauto | rewrite (same_pos_B _ _ SP); lia]|].
  intros [c st3] [G3 [B3 SF3]]. simpl in *. rewrite (same_pos_B _ _ SP) in B3. split; [exact G3|]. split; [lia|].
  eapply suf_trans; [exact SF1|]. eapply suf_trans; [apply (suf_same _ _ SP) | exact SF3].
Qed.

(* trailing `while tok == ";" and not is_eof(): next_token()` *)
Lemma skip_trailing_spec : forall f st, good st -> (B st + 1 <= f)%nat ->
  rok (skip_trailing f st) (fun st' => post st st').
Proof.
  induction f as [|f IH]; intros st G HB; [lia|].
  cbn [skip_trailing].
  destruct (cur_is st SEMI) eqn:ES; [|simpl; split; [exact G | split; [lia | apply suf_refl]]].
  destruct (negb (ps_eof st)); [|simpl; split; [exact G | split; [lia | apply suf_refl]]].
  cbn [andb].
  pose proof (cur_is_hasc _ _ ES) as HC.
  pose proof (pull_same st) as PS. destruct (pull_comments st) as [cs st1]. simpl in PS. destruct PS as [SP _].
  eapply rok_bind; [apply next_or_none_spec; eapply same_pos_good; eauto|].
  intros st2 [G2 [_ [_ [D2 SF2]]]].
  assert (X : (B st2 < B st)%nat).
  { destruct D2 as [[M2 H2] | [M2 [M0 [H2 _]]]].
    - pose proof (after_tok st st1 st2 SP M2 H2). lia.
    - unfold B. rewrite M2, H2. unfold B in HB. lia. }
  eapply rok_impl; [apply IH; [exact G2 | lia]|].
  intros st3 [G3 [B3 SF3]]. split; [exact G3|]. split; [lia|].
  eapply suf_trans; [apply (suf_same _ _ SP)|]. eapply suf_trans; eassumption.
Qed.

(* one tree statement: Ok (no further tree / a tree, having consumed input) or ParseErr *)
Lemma parse_tree_statement_spec fuel st : good st -> (B st + 2 <= fuel)%nat ->
  rok (parse_tree_statement o fuel st)
      (fun r => good (snd r) /\ (B (snd r) <= B st)%nat /\ (fst r <> None -> (B (snd r) < B st)%nat)
                /\ suf st (snd r)).
Proof.
  intros G HB. unfold Newick.parse_tree_statement.
  pose proof (pull_same st) as PS. destruct (pull_comments st) as [tc st0]. simpl in PS. destruct PS as [SP0 _].
  eapply rok_bind; [apply skip_semicolons_spec; [eapply same_pos_good; eauto | rewrite (same_pos_B _ _ SP0); lia]|].
  intros [tree_comments st1] [G1 [B1 SF1]]. simpl in G1, B1, SF1. rewrite (same_pos_B _ _ SP0) in B1.
  assert (SFa : suf st st1) by (eapply suf_trans; [apply (suf_same _ _ SP0) | exact SF1]).
  destruct (ps_eof st1); [simpl; split; [exact G1|]; split; [lia|]; split; [congruence | exact SFa]|].
  destruct (process_tree_comments o tree_comments) as [rooted kept].
  set (st2 := set_nesting st1 (if cur_is st1 LPAREN then 1 else 0)).
  set (st3 := set_seen_map (set_complete st2 false) [] (ps_map st2)).
  assert (SP3 : same_pos st3 st1).
  { subst st3 st2. eapply same_pos_trans; [apply set_seen_map_same|].
    eapply same_pos_trans; [apply set_complete_same | apply set_nesting_same]. }
  eapply rok_bind; [apply parse_node_spec; [eapply same_pos_good; eauto | rewrite (same_pos_B _ _ SP3); lia]|].
  intros [t st4] [G4 [B4 [C4 [_ SF4]]]]. simpl in G4, B4, C4, SF4. rewrite (same_pos_B _ _ SP3) in *.
  destruct (ps_complete st4) eqn:EC; [|reflexivity].
  cbn [negb]. specialize (C4 eq_refl).
  eapply rok_bind; [apply skip_trailing_spec; [exact G4 | lia]|].
  intros st5 [G5 [B5 SF5]]. simpl. split; [exact G5|]. split; [lia|]. split; [intros _; lia|].
  eapply suf_trans; [exact SFa|]. eapply suf_trans; [apply (suf_same _ _ SP3)|]. eapply suf_trans; eassumption.
Qed.

(* tree_iter: the iteration budget n suffices as soon as it exceeds the measure *)
Lemma tree_iter_spec fuel : forall n st acc, good st -> (B st + 2 <= fuel)%nat -> (B st + 1 <= n)%nat ->
  rok (tree_iter o fuel n st acc) (fun _ => True).
Proof.
  induction n as [|n IH]; intros st acc G HF HN; [lia|].
  cbn [Newick.tree_iter].
  eapply rok_bind; [apply parse_tree_statement_spec; assumption|].
  intros [[t|] st1] [G1 [B1 [P1 _]]]; simpl in *; [|exact I].
  assert ((B st1 < B st)%nat) by (apply P1; discriminate).
  apply IH; [exact G1 | lia | lia].
Qed.

End NT.

(* NewickReader._read on EVERY character list: trees, or DataParseError; never out of fuel *)
Lemma newick_reader_total_l (L : Type) (parse_len : str -> option L) (lower : str -> str) (o : ropts)
      (ns : list str) (text : str) :
  ro_terminating_semicolon_required o = true ->
  match read_newick L parse_len lower o ns text with
  | Ok _ => True
  | Err e => e = ParseErr
  | OutOfFuel => False
  end.
Proof.
  intros TSR. unfold read_newick.
  set (cfg := nexus_cfg (ro_preserve_underscores o)).
  pose proof (tokenize_total cfg text) as T1.
  pose proof (tokenize_err cfg text) as T2.
  destruct (tokenize cfg text) as [toks e] eqn:ET. simpl in T1, T2.
  match goal with |- match bind ?r _ with _ => _ end =>
    assert (R : rok r (fun _ => True)) end.
  { apply tree_iter_spec; [exact TSR | | |].
    - unfold good, init_pstate. simpl. split; [exact T1 | exact T2].
    - unfold B, mu, hasc, init_pstate, reader_fuel. simpl. lia.
    - unfold B, mu, hasc, init_pstate, reader_fuel. simpl. lia. }
  match goal with |- match bind ?r _ with _ => _ end => destruct r as [x| |] end; simpl in *; auto.
Qed.
