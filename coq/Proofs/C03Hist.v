(* C03 proofs: what WF means pointer-wise; every covered operation keeps WF (errors leave the
   state untouched); the invariant over operation histories; refinement and leaf-multiset
   statements in terms of abs. *)
From Coq Require Import ZArith List Bool Lia Permutation.
From DV Require Import Model.PyPrims Model.Tree Model.Heap Model.HeapOps Model.C03Spec
  Proofs.C03Base Proofs.C03Abs Proofs.C03Local Proofs.C03Prims
  Proofs.C03Collapse Proofs.C03Suppress Proofs.C03Reseed Proofs.C03Order Proofs.C03Ops
  Proofs.C03SpecLinks.
Import ListNotations.
Open Scope Z_scope.

(* ---------- WF, pointer-wise ---------- *)

Lemma WF_abs_t h t : WF h -> abs h = Some t -> WFt h t.
Proof. intros [t' W] E. rewrite (abs_WFt h t' W) in E. inversion E; subst. exact W. Qed.

Lemma in_map_split (ks : list tree) ci :
  In ci (map t_id ks) -> exists lft s rgt, ks = lft ++ s :: rgt /\ t_id s = ci.
Proof.
  intro H. apply in_map_iff in H. destruct H as [s [E Hs]]. apply in_split in Hs.
  destruct Hs as [lft [rgt ->]]. eauto.
Qed.

Theorem wf_meaning_l h :
  WF h ->
  exists t, abs h = Some t /\ NoDup (ids t) /\ t_id t = seed h /\ parent h (seed h) = None /\
    forall p, In p (ids t) ->
      NoDup (kids h p) /\
      forall ci, In ci (kids h p) <-> (In ci (ids t) /\ parent h ci = Some p).
Proof.
  intros [t W]. exists t. pose proof W as [[R [N B]] S].
  split; [apply abs_WFt, W|split; [exact N|split; [exact S|split]]].
  - rewrite <- S. apply (rep_parent h None t R).
  - intros p Hp. destruct (find_ctx t p Hp) as [c [s [Et Es]]]. subst t.
    destruct s as [p' x l e ks]. simpl in Es. subst p'.
    destruct (wr_focus h c p x l e ks (conj R (conj N B))) as [_ [Gp [Fk [N1 [N2 _]]]]].
    assert (K : kids h p = map t_id ks) by (unfold kids; rewrite Gp; reflexivity).
    rewrite K. split; [apply NoDup_kids_ids, N1|]. intro ci. split.
    + intro Hc. destruct (in_map_split ks ci Hc) as [lft [s [rgt [-> Eci]]]].
      apply Forall_app in Fk. destruct Fk as [_ Fk]. inversion Fk as [|? ? Rs _]; subst.
      split; [|apply (rep_parent h (Some p) s Rs)].
      apply in_plug. left. rewrite ids_focus. right. apply in_app_iff. right. apply in_app_iff. left. apply ids_root.
    + intros [Hc Pc]. destruct (find_ctx _ ci Hc) as [c2 [s2 [Et2 Es2]]].
      assert (W2 : Wr h (plug c2 s2)) by (rewrite <- Et2; exact (conj R (conj N B))).
      pose proof W2 as [R2 _]. apply rep_plug in R2. destruct R2 as [Rc2 Rs2].
      rewrite <- Es2 in Pc. rewrite (rep_parent h _ s2 Rs2) in Pc.
      destruct c2 as [|c3 q y m f a b]; simpl in Pc; [discriminate|]. inversion Pc; subst q.
      simpl in Rc2. destruct Rc2 as [_ [Gq _]].
      assert (K2 : kids h p = map t_id a ++ t_id s2 :: map t_id b) by (unfold kids; rewrite Gq; reflexivity).
      rewrite <- K, K2, Es2. apply in_app_iff. right. left. reflexivity.
Qed.

(* ---------- the covered operations ---------- *)

Definition live (h : heap) (x : Z) : Prop := exists t, abs h = Some t /\ In x (ids t).

Inductive covered (h : heap) : op -> Prop :=
| cov_set_rooted r : covered h (OSetRooted r)
| cov_set_unrooted v : covered h (OSetUnrooted v)
| cov_new_child p x l e : live h p -> covered h (ONewChild p x l e)
| cov_insert_new_child p n x l e : live h p -> covered h (OInsertNewChild p n x l e)
| cov_remove_child p ci : live h p -> In ci (kids h p) -> covered h (ORemoveChild p ci false)
| cov_edge_collapse ci adj : live h ci -> covered h (OEdgeCollapse ci adj)
| cov_deroot : covered h ODeroot
| cov_collapse_basal u : covered h (OCollapseBasal u)
| cov_encode su cb : covered h (OEncode su cb)
| cov_suppress : covered h OSuppressUnifurcations
| cov_reseed n ub cb su : live h n -> (kids h n <> [] \/ su = false) -> covered h (OReseedAt n ub cb su)
| cov_reroot_node n ub su cb : live h n -> (kids h n <> [] \/ su = false) -> covered h (ORerootAtNode n ub su cb)
| cov_prune_subtree n ub su : live h n -> covered h (OPruneSubtree n ub su)
| cov_ladderize asc : covered h (OLadderize asc)
| cov_reorder asc ranks : covered h (OReorder asc ranks).

(* the exceptions a covered operation may raise: both are raised on purpose by the code *)
Definition documented (h : heap) (o : op) (e : err) : Prop :=
  match o, e with
  | OPruneSubtree n _ _, TypeErr => n = seed h              (* pruning the seed *)
  | OEdgeCollapse ci _, ValueErr => kids h ci = []          (* collapsing a terminal edge *)
  | _, _ => False
  end.

Lemma live_ctx h t x : WFt h t -> live h x -> exists c s, t = plug c s /\ t_id s = x.
Proof.
  intros W [t' [E Hx]]. rewrite (abs_WFt h t W) in E. inversion E; subst t'. apply find_ctx, Hx.
Qed.

Lemma WFt_WF h t : WFt h t -> WF h.
Proof. intro W. exists t. exact W. Qed.

Lemma kids_of_focus h c s : Wr h (plug c s) -> kids h (t_id s) = map t_id (t_kids s).
Proof. intros [R _]. apply rep_plug in R. destruct R as [_ R]. apply (rep_kids h _ s R). Qed.

Theorem op_wf_l h o :
  WF h -> covered h o ->
  (exists h', run_op o h = HOk h' /\ WF h') \/
  (exists e, run_op o h = HErr e h /\ documented h o e).
Proof.
  intros [t W] C. destruct C; simpl run_op.
  - left. eexists. split; [reflexivity|]. eapply WFt_WF, WFt_set_rooted, W.
  - left. eexists. split; [reflexivity|]. eapply WFt_WF, WFt_set_rooted, W.
  - destruct (live_ctx h t p W H) as [c [s [-> Es]]]. destruct s as [p' xp lp ep ks]. simpl in Es. subst p'.
    destruct (new_child_op_wf h c p xp lp ep ks x l e W) as [h' [E [W' _]]].
    left. exists h'. split; [exact E|eapply WFt_WF, W'].
  - destruct (live_ctx h t p W H) as [c [s [-> Es]]]. destruct s as [p' xp lp ep ks]. simpl in Es. subst p'.
    destruct (insert_new_child_op_wf h c p xp lp ep ks n x l e W) as [W' _].
    left. eexists. split; [reflexivity|eapply WFt_WF, W'].
  - destruct (live_ctx h t p W H) as [c [s [-> Es]]]. destruct s as [p' xp lp ep ks]. simpl in Es. subst p'.
    pose proof W as [W0 _]. pose proof (kids_of_focus h c _ W0) as K. simpl in K. rewrite K in H0.
    destruct (in_map_split ks ci H0) as [lft [s [rgt [-> Eci]]]]. subst ci.
    destruct (remove_child_wf h c p xp lp ep lft s rgt W) as [h' [E [W' _]]].
    left. exists h'. split; [exact E|eapply WFt_WF, W'].
  - destruct (live_ctx h t ci W H) as [c [s [-> Es]]]. subst ci.
    pose proof (edge_collapse_op_wf adj h c s W) as Hc.
    destruct c as [|c' p x l e lft rgt].
    + left. exists h. split; [exact Hc|eapply WFt_WF, W].
    + destruct (t_kids s) as [|k0 kr] eqn:Ek.
      * right. exists ValueErr. split; [exact Hc|]. simpl.
        pose proof W as [W0 _]. rewrite (kids_of_focus h _ _ W0), Ek. reflexivity.
      * destruct Hc as [h' [E [W' _]]]. left. exists h'. split; [exact E|eapply WFt_WF, W'].
  - destruct (deroot_wf h t W) as [h' [E W']]. left. exists h'. split; [exact E|eapply WFt_WF, W'].
  - destruct (collapse_basal_wf h t u W) as [h' [E [W' _]]]. left. exists h'. split; [exact E|eapply WFt_WF, W'].
  - destruct (encode_structural_wf su cb h t W) as [h' [E [W' _]]]. left. exists h'. split; [exact E|eapply WFt_WF, W'].
  - destruct (suppress_unifurcations_wf h t W) as [h' [E [W' _]]]. left. exists h'. split; [exact E|eapply WFt_WF, W'].
  - destruct (live_ctx h t n W H) as [c [s [-> Es]]]. subst n.
    pose proof W as [W0 _]. rewrite (kids_of_focus h c s W0) in H0.
    assert (Hs : t_kids s <> [] \/ su = false).
    { destruct H0 as [H0|H0]; [left|right; exact H0]. intro E. apply H0. rewrite E. reflexivity. }
    destruct (reseed_at_wf ub cb su h c s W Hs) as [h' [E [W' _]]].
    left. exists h'. split; [exact E|eapply WFt_WF, W'].
  - destruct (live_ctx h t n W H) as [c [s [-> Es]]]. subst n.
    pose proof W as [W0 _]. rewrite (kids_of_focus h c s W0) in H0.
    assert (Hs : t_kids s <> [] \/ su = false).
    { destruct H0 as [H0|H0]; [left|right; exact H0]. intro E. apply H0. rewrite E. reflexivity. }
    destruct (reroot_at_node_wf ub su cb h c s W Hs) as [h' [E [W' _]]].
    left. exists h'. split; [exact E|eapply WFt_WF, W'].
  - destruct (live_ctx h t n W H) as [c [s [-> Es]]]. subst n.
    destruct c as [|c' p x l e lft rgt].
    + right. exists TypeErr. pose proof W as [_ S]. simpl in S. rewrite S.
      split; [apply (prune_subtree_root ub su h _ W)|reflexivity].
    + simpl plug in W. destruct (prune_subtree_wf ub su h c' p x l e lft s rgt W) as [h' [E [W' _]]].
      left. exists h'. split; [exact E|eapply WFt_WF, W'].
  - destruct (ladderize_wf asc h t W) as [h' [t' [E [W' _]]]]. left. exists h'. split; [exact E|eapply WFt_WF, W'].
  - destruct (reorder_wf asc ranks h t W) as [h' [t' [E [W' _]]]]. left. exists h'. split; [exact E|eapply WFt_WF, W'].
Qed.

(* ---------- histories ---------- *)

(* every operation of the history is a covered one, applied to live arguments of the state it meets *)
Fixpoint valid_hist (ops : list op) (h : heap) : Prop :=
  match ops with
  | [] => True
  | o :: r =>
    covered h o /\
    forall h', (run_op o h = HOk h' \/ exists e, run_op o h = HErr e h') -> valid_hist r h'
  end.

Theorem history_wf_l ops : forall h,
  WF h -> valid_hist ops h -> exists h', run_hist ops h = Some h' /\ WF h'.
Proof.
  induction ops as [|o r IH]; intros h W V; simpl.
  - exists h. split; [reflexivity|exact W].
  - destruct V as [C V]. destruct (op_wf_l h o W C) as [[h1 [E W1]]|[e [E _]]].
    + rewrite E. apply IH; [exact W1|]. apply V. left. exact E.
    + rewrite E. apply IH; [exact W|]. apply V. right. exists e. exact E.
Qed.
