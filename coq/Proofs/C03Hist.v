(* C03 proofs: what WF means pointer-wise; every covered operation keeps WF (errors leave the
   state untouched); the invariant over operation histories; refinement and leaf-multiset
   statements in terms of abs. *)
From Coq Require Import ZArith List Bool Lia Permutation.
From DV Require Import Model.PyPrims Model.Tree Model.Heap Model.HeapOps Model.C03Spec
  Proofs.C03Base Proofs.C03Abs Proofs.C03Local Proofs.C03Prims
  Proofs.C03Collapse Proofs.C03Suppress Proofs.C03Reseed Proofs.C03Order Proofs.C03Ops
  Proofs.C03SpecLinks Proofs.C03Ops2 Proofs.C03Unweighted Proofs.C03PruneLoops.
Import ListNotations.
Open Scope Z_scope.

(* ---------- WF, pointer-wise ---------- *)

Lemma WF_abs_t h t : WF h -> abs h = Some t -> WFt h t.
Proof. intros [t' W] E. rewrite (abs_WFt h t' W) in E. inversion E; subst. exact W. Qed.

Lemma in_map_split (ks : list tree) ci :
  In ci (map t_id ks) -> exists lft s rgt, ks = lft ++ s :: rgt /\ t_id s = ci.
Proof.
  intro H. apply in_map_iff in H. destruct H as [s [E Hs]]. apply in_split in Hs.
  destruct Hs as [lft [rgt ->]]. eauto.
Qed.

Theorem wf_meaning_l h :
  WF h ->
  exists t, abs h = Some t /\ NoDup (ids t) /\ t_id t = seed h /\ parent h (seed h) = None /\
    forall p, In p (ids t) ->
      NoDup (kids h p) /\
      forall ci, In ci (kids h p) <-> (In ci (ids t) /\ parent h ci = Some p).
Proof.
  intros [t W]. exists t. pose proof W as [[R [N B]] S].
  split; [apply abs_WFt, W|split; [exact N|split; [exact S|split]]].
  - rewrite <- S. apply (rep_parent h None t R).
  - intros p Hp. destruct (find_ctx t p Hp) as [c [s [Et Es]]]. subst t.
    destruct s as [p' x l e ks]. simpl in Es. subst p'.
    destruct (wr_focus h c p x l e ks (conj R (conj N B))) as [_ [Gp [Fk [N1 [N2 _]]]]].
    assert (K : kids h p = map t_id ks) by (unfold kids; rewrite Gp; reflexivity).
    rewrite K. split; [apply NoDup_kids_ids, N1|]. intro ci. split.
    + intro Hc. destruct (in_map_split ks ci Hc) as [lft [s [rgt [-> Eci]]]].
      apply Forall_app in Fk. destruct Fk as [_ Fk]. inversion Fk as [|? ? Rs _]; subst.
      split; [|apply (rep_parent h (Some p) s Rs)].
      apply in_plug. left. rewrite ids_focus. right. apply in_app_iff. right. apply in_app_iff. left. apply ids_root.
    + intros [Hc Pc]. destruct (find_ctx _ ci Hc) as [c2 [s2 [Et2 Es2]]].
      assert (W2 : Wr h (plug c2 s2)) by (rewrite <- Et2; exact (conj R (conj N B))).
      pose proof W2 as [R2 _]. apply rep_plug in R2. destruct R2 as [Rc2 Rs2].
      rewrite <- Es2 in Pc. rewrite (rep_parent h _ s2 Rs2) in Pc.
      destruct c2 as [|c3 q y m f a b]; simpl in Pc; [discriminate|]. inversion Pc; subst q.
      simpl in Rc2. destruct Rc2 as [_ [Gq _]].
      assert (K2 : kids h p = map t_id a ++ t_id s2 :: map t_id b) by (unfold kids; rewrite Gq; reflexivity).
      rewrite <- K, K2, Es2. apply in_app_iff. right. left. reflexivity.
Qed.

(* ---------- the covered operations ---------- *)

Definition live (h : heap) (x : Z) : Prop := exists t, abs h = Some t /\ In x (ids t).

Inductive covered (h : heap) : op -> Prop :=
| cov_set_rooted r : covered h (OSetRooted r)
| cov_set_unrooted v : covered h (OSetUnrooted v)
| cov_new_child p x l e : live h p -> covered h (ONewChild p x l e)
| cov_insert_new_child p n x l e : live h p -> covered h (OInsertNewChild p n x l e)
| cov_remove_child p ci : live h p -> In ci (kids h p) -> covered h (ORemoveChild p ci false)
| cov_edge_collapse ci adj : live h ci -> covered h (OEdgeCollapse ci adj)
| cov_deroot : covered h ODeroot
| cov_collapse_basal u : covered h (OCollapseBasal u)
| cov_encode su cb : covered h (OEncode su cb)
| cov_suppress : covered h OSuppressUnifurcations
| cov_collapse_unweighted thr ub : covered h (OCollapseUnweighted thr ub)
| cov_reseed n ub cb su : live h n -> covered h (OReseedAt n ub cb su)
| cov_reroot_node n ub su cb : live h n -> covered h (ORerootAtNode n ub su cb)
| cov_reroot_edge ci l1 l2 ub su : live h ci -> covered h (ORerootAtEdge ci l1 l2 ub su)
| cov_to_outgroup og ub : live h og -> covered h (OToOutgroup og ub false)
| cov_prune_subtree n ub su : live h n -> covered h (OPruneSubtree n ub su)
| cov_prune_leaf o er : prune_leaf_op o = Some er -> covered h o
    (* filter_leaf_nodes, prune_leaves_without_taxa, retain_taxa, prune_taxa on leaves *)
| cov_ladderize asc : covered h (OLadderize asc)
| cov_reorder asc ranks : covered h (OReorder asc ranks).

(* the exceptions a covered operation may raise, with the state they leave: the first four are
   raised before anything was changed; the leaf-pruning family raises when the node to remove is
   the seed, i.e. when everything else has been pruned away: the tree left behind is the seed alone *)
Definition raises (h : heap) (o : op) (e : err) (h' : heap) : Prop :=
  match o, e with
  | OPruneSubtree n _ _, TypeErr => n = seed h /\ h' = h            (* pruning the seed *)
  | OEdgeCollapse ci _, ValueErr => kids h ci = [] /\ h' = h        (* collapsing a terminal edge *)
  | ORerootAtEdge ci _ _ _ _, AttrErr => ci = seed h /\ h' = h      (* the seed's edge has no tail *)
  | OToOutgroup og _ _, AssertErr => og = seed h /\ h' = h          (* the seed cannot be an outgroup *)
  | OFilterLeafNodes _ _ _ _, OtherErr => lone h'                   (* SeedNodeDeletionException *)
  | OPruneLeavesWithoutTaxa _ _ _, AttrErr => lone h'               (* None.remove_child: the FINDING *)
  | OPruneTaxa _ _ _ _ false, AttrErr => lone h'
  | ORetainTaxa _ _ _ _, AttrErr => lone h'
  | _, _ => False
  end.

Lemma live_ctx h t x : WFt h t -> live h x -> exists c s, t = plug c s /\ t_id s = x.
Proof.
  intros W [t' [E Hx]]. rewrite (abs_WFt h t W) in E. inversion E; subst t'. apply find_ctx, Hx.
Qed.

Lemma WFt_WF h t : WFt h t -> WF h.
Proof. intro W. exists t. exact W. Qed.

Lemma kids_of_focus h c s : Wr h (plug c s) -> kids h (t_id s) = map t_id (t_kids s).
Proof. intros [R _]. apply rep_plug in R. destruct R as [_ R]. apply (rep_kids h _ s R). Qed.

Theorem op_wf_l h o :
  WF h -> covered h o ->
  exists h', WF h' /\ (run_op o h = HOk h' \/ exists e, run_op o h = HErr e h' /\ raises h o e h').
Proof.
  intros [t W] C.
  assert (OK : forall h', run_op o h = HOk h' -> WF h' ->
     exists h', WF h' /\ (run_op o h = HOk h' \/ exists e, run_op o h = HErr e h' /\ raises h o e h')).
  { intros h' E W'. exists h'. split; [exact W'|left; exact E]. }
  destruct C; simpl run_op in *.
  - eapply OK; [reflexivity|]. eapply WFt_WF, WFt_set_rooted, W.
  - eapply OK; [reflexivity|]. eapply WFt_WF, WFt_set_rooted, W.
  - destruct (live_ctx h t p W H) as [c [s [-> Es]]]. destruct s as [p' xp lp ep ks]. simpl in Es. subst p'.
    destruct (new_child_op_wf h c p xp lp ep ks x l e W) as [h' [E [W' _]]].
    eapply OK; [exact E|eapply WFt_WF, W'].
  - destruct (live_ctx h t p W H) as [c [s [-> Es]]]. destruct s as [p' xp lp ep ks]. simpl in Es. subst p'.
    destruct (insert_new_child_op_wf h c p xp lp ep ks n x l e W) as [W' _].
    eapply OK; [reflexivity|eapply WFt_WF, W'].
  - destruct (live_ctx h t p W H) as [c [s [-> Es]]]. destruct s as [p' xp lp ep ks]. simpl in Es. subst p'.
    pose proof W as [W0 _]. pose proof (kids_of_focus h c _ W0) as K. simpl in K. rewrite K in H0.
    destruct (in_map_split ks ci H0) as [lft [s [rgt [-> Eci]]]]. subst ci.
    destruct (remove_child_wf h c p xp lp ep lft s rgt W) as [h' [E [W' _]]].
    eapply OK; [exact E|eapply WFt_WF, W'].
  - destruct (live_ctx h t ci W H) as [c [s [-> Es]]]. subst ci.
    pose proof (edge_collapse_op_wf adj h c s W) as Hc.
    destruct c as [|c' p x l e lft rgt].
    + eapply OK; [exact Hc|eapply WFt_WF, W].
    + destruct (t_kids s) as [|k0 kr] eqn:Ek.
      * exists h. split; [eapply WFt_WF, W|right]. exists ValueErr. split; [exact Hc|]. simpl.
        pose proof W as [W0 _]. rewrite (kids_of_focus h _ _ W0), Ek. split; reflexivity.
      * destruct Hc as [h' [E [W' _]]]. eapply OK; [exact E|eapply WFt_WF, W'].
  - destruct (deroot_wf h t W) as [h' [E W']]. eapply OK; [exact E|eapply WFt_WF, W'].
  - destruct (collapse_basal_wf h t u W) as [h' [E [W' _]]]. eapply OK; [exact E|eapply WFt_WF, W'].
  - destruct (encode_structural_wf su cb h t W) as [h' [E [W' _]]]. eapply OK; [exact E|eapply WFt_WF, W'].
  - destruct (suppress_unifurcations_wf h t W) as [h' [E [W' _]]]. eapply OK; [exact E|eapply WFt_WF, W'].
  - destruct (collapse_unweighted_wf thr ub h t W) as [h' [E [W' _]]]. eapply OK; [exact E|eapply WFt_WF, W'].
  - destruct (live_ctx h t n W H) as [c [s [-> Es]]]. subst n.
    destruct (reseed_at_any ub cb su h c s W) as [h' [t' [E [W' _]]]]. eapply OK; [exact E|eapply WFt_WF, W'].
  - destruct (live_ctx h t n W H) as [c [s [-> Es]]]. subst n.
    destruct (reroot_at_node_any ub su cb h c s W) as [h' [t' [E [W' _]]]]. eapply OK; [exact E|eapply WFt_WF, W'].
  - destruct (live_ctx h t ci W H) as [c [s [-> Es]]]. subst ci.
    destruct c as [|c' p x l e lft rgt].
    + exists h. split; [eapply WFt_WF, W|right]. exists AttrErr.
      pose proof W as [[R _] S]. simpl in S, R. unfold reroot_at_edge. rewrite (rep_parent h None s R).
      split; [reflexivity|]. simpl. split; [exact S|reflexivity].
    + destruct s as [ci xs ls es ks]. simpl plug in W.
      destruct (reroot_at_edge_wf l1 l2 ub su h c' p x l e lft ci xs ls es ks rgt W) as [h' [E [W' _]]].
      eapply OK; [exact E|eapply WFt_WF, W'].
  - destruct (live_ctx h t og W H) as [c [s [-> Es]]]. subst og.
    destruct c as [|c' p x l e lft rgt].
    + exists h. split; [eapply WFt_WF, W|right]. exists AssertErr.
      pose proof W as [[R _] S]. simpl in S, R. unfold to_outgroup_position. rewrite (rep_parent h None s R).
      split; [reflexivity|]. simpl. split; [exact S|reflexivity].
    + simpl plug in W. destruct (to_outgroup_wf ub h c' p x l e lft s rgt W) as [h' [E [W' _]]].
      eapply OK; [exact E|eapply WFt_WF, W'].
  - destruct (live_ctx h t n W H) as [c [s [-> Es]]]. subst n.
    destruct c as [|c' p x l e lft rgt].
    + exists h. split; [eapply WFt_WF, W|right]. exists TypeErr. pose proof W as [_ S]. simpl in S. rewrite S.
      split; [apply (prune_subtree_root ub su h _ W)|]. simpl. split; reflexivity.
    + simpl plug in W. destruct (prune_subtree_wf ub su h c' p x l e lft s rgt W) as [h' [E [W' _]]].
      eapply OK; [exact E|eapply WFt_WF, W'].
  - destruct (prune_leaf_op_outcome o er h (WFt_WF h t W) H) as [[h' [E W']]|[e [h' [E [He [W' Lo]]]]]].
    + eapply OK; [exact E|exact W'].
    + exists h'. split; [exact W'|right]. exists e. split; [exact E|].
      destruct He as [<-|[]].
      destruct o; simpl in H; try discriminate; try (inversion H; subst; exact Lo).
      destruct on_internal; [discriminate|]. inversion H; subst. exact Lo.
  - destruct (ladderize_wf asc h t W) as [h' [t' [E [W' _]]]]. eapply OK; [exact E|eapply WFt_WF, W'].
  - destruct (reorder_wf asc ranks h t W) as [h' [t' [E [W' _]]]]. eapply OK; [exact E|eapply WFt_WF, W'].
Qed.

(* ---------- histories ---------- *)

(* every operation of the history is a covered one, applied to live arguments of the state it meets *)
Fixpoint valid_hist (ops : list op) (h : heap) : Prop :=
  match ops with
  | [] => True
  | o :: r =>
    covered h o /\
    forall h', (run_op o h = HOk h' \/ exists e, run_op o h = HErr e h') -> valid_hist r h'
  end.

Theorem history_wf_l ops : forall h,
  WF h -> valid_hist ops h -> exists h', run_hist ops h = Some h' /\ WF h'.
Proof.
  induction ops as [|o r IH]; intros h W V; simpl.
  - exists h. split; [reflexivity|exact W].
  - destruct V as [C V]. destruct (op_wf_l h o W C) as [h1 [W1 [E|[e [E _]]]]].
    + rewrite E. apply IH; [exact W1|]. apply V. left. exact E.
    + rewrite E. apply IH; [exact W1|]. apply V. right. exists e. exact E.
Qed.
