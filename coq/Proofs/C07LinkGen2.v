(* C07 link, part 8: generated ladderize / reorder (C03GenOrder) preserve the unrooted tree *)
From Coq Require Import ZArith List Bool Lia Permutation.
From DV Require Import Model.PyPrims Model.Tree.
From DV Require Import Model.Heap Model.HeapOps Model.MutPrims Gen.Mutators Model.C03GenInst Proofs.C03Base
     Proofs.C03GenOrder.
From DV Require Proofs.C07LinkOrder.
From DV Require Import Model.C07Spec.
Import ListNotations.
Open Scope Z_scope.

Lemma gen_ladderize_l asc h t :
  WF h -> abs h = Some t -> NoDup (leaf_taxa t) ->
  exists h' t', to_hres (Tree_ladderize HG asc h) = HOk h' /\ WF h' /\ abs h' = Some t' /\ rooted h' = rooted h
    /\ Permutation (leaf_taxa t) (leaf_taxa t')
    /\ (forall S, is_usplit t S <-> is_usplit t' S)
    /\ total_length t' = total_length t
    /\ (forall a b, dist a b t' = dist a b t).
Proof.
  intros W A ND. rewrite (gen_ladderize_wf asc h W).
  destruct (C07LinkOrder.heap_ladderize_l asc h t W A ND) as [h' [t' [E [W' [A' [R' [_ [_ I]]]]]]]].
  exists h', t'. repeat (split; [assumption|]). exact I.
Qed.

Lemma gen_reorder_l asc ranks h t :
  WF h -> abs h = Some t -> NoDup (leaf_taxa t) ->
  exists h' t', to_hres (Tree_reorder HG asc (Tree_reorder__default_key HG (rank_of ranks)) h) = HOk h'
    /\ WF h' /\ abs h' = Some t' /\ rooted h' = rooted h
    /\ Permutation (leaf_taxa t) (leaf_taxa t')
    /\ (forall S, is_usplit t S <-> is_usplit t' S)
    /\ total_length t' = total_length t
    /\ (forall a b, dist a b t' = dist a b t).
Proof.
  intros W A ND. rewrite gen_reorder.
  destruct (C07LinkOrder.heap_reorder_l asc ranks h t W A ND) as [h' [t' [E [W' [A' [R' [_ [_ I]]]]]]]].
  exists h', t'. repeat (split; [assumption|]). exact I.
Qed.
