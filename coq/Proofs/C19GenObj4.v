(* C19 translator tie, object level, part 4: the classmethod concatenate as compiled from the current source
   (Gen/CharMatrixObj.v) = o_concatenate of Model/C19RowHeap.v, exactly (same store, same result matrix).
   Side conditions: every argument's map has distinct keys (a Python dict) and every row object of an argument is
   allocated (id below the store's next id): the source reads `cm.vector_size` AFTER extend_matrix, the model before;
   they agree because extend_matrix on the new matrix touches only objects created inside concatenate. *)
From Coq Require Import ZArith List Bool Lia.
From DV Require Import Model.PyPrims Model.C19Model Model.C19RowHeap Model.C19Prims Model.C19ObjPrims
                       Gen.CharMatrixObj Proofs.C19Alist Proofs.C19Cols Proofs.C19RowHeapSep Proofs.C19RowHeapFrame
                       Proofs.C19GenObj Proofs.C19GenObj2.
Import ListNotations.
Open Scope Z_scope.

Section C.
Variable lower : lbl -> lbl.
Variable suffix : lbl -> Z -> lbl.
Variable locus : Z -> lbl.
Variable taxa_of : nsid -> list tid.

(* one iteration of o_concat_loop *)
Definition o_concat_step (T : list tid) (ns0 : nsid) (nseqs : Z) (cidx : Z) (cm : omatrix) (s : store) (acc : omatrix) (pos : Z)
  : res (store * omatrix * Z) :=
  if negb (Z.eqb (om_ns cm) ns0) then Err ValueErr
  else if negb (Z.eqb (zlen (om_rows cm)) (zlen T)) then Err ValueErr
  else if negb (Z.eqb (zlen (om_rows cm)) nseqs) then Err ValueErr
  else
    match T with
    | [] => Err IndexErr
    | t0 :: _ =>
      match aget t0 (om_rows cm) with
      | None => Err AssertErr
      | Some r0 =>
        if negb (forallb (fun p => Z.eqb (zlen (hget s (snd p))) (zlen (hget s r0))) (oitems T (om_rows cm)))
        then Err ValueErr
        else
          match o_binary o_extend_matrix_rows s acc cm with
          | Ok (s1, acc1) =>
            let new_label := match om_label cm with None => locus cidx | Some l => l end in
            match free_name lower suffix (free_name_fuel (om_subs acc1)) (om_subs acc1) new_label new_label 2 with
            | Ok cs_label =>
              let w := vector_size (deref s (om_rows cm)) in
              match o_new_character_subset lower acc1 cs_label (zrange pos w) with
              | Ok acc2 => Ok (s1, acc2, pos + w)
              | Err e => Err e
              | OutOfFuel => OutOfFuel
              end
            | Err e => Err e
            | OutOfFuel => OutOfFuel
            end
          | Err e => Err e
          | OutOfFuel => OutOfFuel
          end
      end
    end.

Lemma o_concat_loop_step T ns0 nseqs cm rest cidx s acc pos :
  o_concat_loop lower suffix locus T ns0 nseqs (cm :: rest) cidx s acc pos
  = match o_concat_step T ns0 nseqs cidx cm s acc pos with
    | Ok (s1, acc2, pos2) => o_concat_loop lower suffix locus T ns0 nseqs rest (cidx + 1) s1 acc2 pos2
    | Err e => Err e
    | OutOfFuel => OutOfFuel
    end.
Proof.
  unfold o_concat_step. cbn [o_concat_loop].
  destruct (negb (Z.eqb (om_ns cm) ns0)); [reflexivity|].
  destruct (negb (Z.eqb (zlen (om_rows cm)) (zlen T))); [reflexivity|].
  destruct (negb (Z.eqb (zlen (om_rows cm)) nseqs)); [reflexivity|].
  destruct T as [|t0 T']; [reflexivity|].
  destruct (aget t0 (om_rows cm)) as [r0|]; [|reflexivity].
  destruct (negb (forallb _ _)); [reflexivity|].
  destruct (o_binary o_extend_matrix_rows s acc cm) as [[s1 acc1]| |]; [|reflexivity|reflexivity]. cbv zeta.
  destruct (free_name lower suffix (free_name_fuel (om_subs acc1)) (om_subs acc1) _ _ 2) as [cs| |]; [|reflexivity|reflexivity].
  destruct (o_new_character_subset lower acc1 cs _); reflexivity.
Qed.

(* the check that all rows have the length of the first: reads the objects through the store *)
Lemma o_items_check (st : ost) (v1 : Z) : forall (l : list (tid * rid)),
  for_each l (fun '(t, s) (tt_ : unit) => if negb (Z.eqb (row_len st s) v1) then (tt_, Err ValueErr) else (tt_, Ok tt)) tt
  = (tt, if forallb (fun p => Z.eqb (zlen (hget (fst st) (snd p))) v1) l then Ok tt else Err ValueErr).
Proof.
  induction l as [|[t s] l IH]; simpl; [reflexivity|].
  unfold row_len at 1. destruct (Z.eqb (zlen (hget (fst st) s)) v1); simpl; [exact IH | reflexivity].
Qed.

(* the free-name loop *)
Lemma o_while_free_name (ss : subsets) (nl : lbl) : forall fuel c i,
  match while_loop fuel (fun '(cs_label, i) => has_key lower cs_label ss)
          (fun '(cs_label, i) => let cs_label := suffix nl i in let i := Z.add i 1 in ((cs_label, i), Ok tt)) (c, i) with
  | ((c', _), Ok _) => free_name lower suffix fuel ss nl c i = Ok c'
  | (_, Err _) => False
  | (_, OutOfFuel) => free_name lower suffix fuel ss nl c i = OutOfFuel
  end.
Proof.
  induction fuel as [|f IH]; intros c i; simpl; [reflexivity|].
  destruct (has_key lower c ss); [apply IH | reflexivity].
Qed.

Definition arg_ok (n0 : rid) (cm : omatrix) : Prop :=
  NoDup (keys (om_rows cm)) /\ forall r, In r (ids (om_rows cm)) -> r < n0.

Definition cstate := (ost * subsets * Z)%type.

Definition body_spec (tns : nsid) (nseqs : Z) (n0 : rid) (s0 : store)
           (BODY : Z * omatrix -> cstate -> cstate * res unit) : Prop :=
  forall cidx cm s rows subs pos, arg_ok n0 cm -> good2 n0 [] s0 (s, rows) ->
    match o_concat_step (taxa_of tns) tns nseqs cidx cm s (mkOM tns None rows subs) pos with
    | Ok (s1, acc2, pos2) =>
        BODY (cidx, cm) ((s, rows), subs, pos) = (((s1, om_rows acc2), om_subs acc2, pos2), Ok tt)
        /\ acc2 = mkOM tns None (om_rows acc2) (om_subs acc2) /\ good2 n0 [] s0 (s1, om_rows acc2)
    | Err e => snd (BODY (cidx, cm) ((s, rows), subs, pos)) = Err e
    | OutOfFuel => snd (BODY (cidx, cm) ((s, rows), subs, pos)) = OutOfFuel
    end.

Lemma concat_for_each tns nseqs n0 s0 BODY : body_spec tns nseqs n0 s0 BODY ->
  forall cms cidx s rows subs pos, Forall (arg_ok n0) cms -> good2 n0 [] s0 (s, rows) ->
  match o_concat_loop lower suffix locus (taxa_of tns) tns nseqs cms cidx s (mkOM tns None rows subs) pos with
  | Ok (s', acc') => exists pos', for_each (py_enumerate_from cidx cms) BODY ((s, rows), subs, pos)
                                   = (((s', om_rows acc'), om_subs acc', pos'), Ok tt)
                                  /\ acc' = mkOM tns None (om_rows acc') (om_subs acc')
  | Err e => snd (for_each (py_enumerate_from cidx cms) BODY ((s, rows), subs, pos)) = Err e
  | OutOfFuel => snd (for_each (py_enumerate_from cidx cms) BODY ((s, rows), subs, pos)) = OutOfFuel
  end.
Proof.
  intros HB. induction cms as [|cm rest IH]; intros cidx s rows subs pos HF G.
  - simpl. exists pos. split; reflexivity.
  - pose proof (Forall_inv HF) as A. pose proof (Forall_inv_tail HF) as HF'.
    rewrite o_concat_loop_step. cbn [py_enumerate_from for_each].
    specialize (HB cidx cm s rows subs pos A G).
    destruct (o_concat_step (taxa_of tns) tns nseqs cidx cm s (mkOM tns None rows subs) pos) as [[[s1 acc2] pos2]|e|] eqn:CS.
    + destruct HB as [HB [EA G2]]. rewrite HB. rewrite EA. apply IH; [exact HF' | exact G2].
    + destruct (BODY (cidx, cm) (s, rows, subs, pos)) as [st [u|e'|]]; simpl in HB; try discriminate. inversion HB. reflexivity.
    + destruct (BODY (cidx, cm) (s, rows, subs, pos)) as [st [u|e'|]]; simpl in HB; try discriminate. reflexivity.
Qed.

Lemma deref_frame n0 s0 s1 s (sr : orows) :
  sframe n0 [] s0 s -> sframe n0 [] s0 s1 -> (forall r, In r (ids sr) -> r < n0) -> deref s1 sr = deref s sr.
Proof.
  intros F F1 B. apply deref_ext. intros r I. rewrite (F1 r (B r I)) by (intros []). rewrite (F r (B r I)) by (intros []). reflexivity.
Qed.

Theorem gen_o_concatenate_eq (s : store) (cms : list omatrix) :
  Forall (fun cm => NoDup (keys (om_rows cm)) /\ forall r, In r (ids (om_rows cm)) -> r < s_next s) cms ->
  gen_o_concatenate lower suffix locus taxa_of s cms = o_concatenate lower suffix locus taxa_of s cms.
Proof.
  intros HF. unfold gen_o_concatenate, o_concatenate. destruct cms as [|c0 rest]; [reflexivity|].
  unfold py_list_index. cbn [Z.ltb Z.compare Z.to_nat nth_error]. cbv zeta.
  unfold py_enumerate, new_matrix_st.
  match goal with |- context [for_each _ ?B _] => set (BODY := B) end.
  assert (HB : body_spec (om_ns c0) (zlen (om_rows c0)) (s_next s) s BODY).
  { intros cidx cm s1 rows subs pos [ND AB] G. unfold o_concat_step, BODY. clear BODY.
    cbn [om_ns om_rows om_subs om_label].
    destruct (Z.eqb_spec (om_ns cm) (om_ns c0)) as [E1|E1]; cbn [negb]; [|reflexivity].
    destruct (negb (Z.eqb (zlen (om_rows cm)) (zlen (taxa_of (om_ns c0))))); [reflexivity|].
    destruct (negb (Z.eqb (zlen (om_rows cm)) (zlen (om_rows c0)))); [reflexivity|].
    rewrite E1. unfold arg_getitem_ro, resolve_key.
    destruct (taxa_of (om_ns c0)) as [|t0 T'] eqn:ET; [reflexivity|].
    assert (L : Z.ltb (Z.abs 0) (zlen (t0 :: T')) = true) by (apply Z.ltb_lt; rewrite zlen_cons; pose proof (zlen_nonneg T'); lia).
    rewrite L. cbn [Z.ltb Z.compare Z.to_nat nth_error].
    destruct (aget t0 (om_rows cm)) as [r0|]; [|reflexivity].
    unfold arg_items. rewrite o_items_check. unfold row_len. cbn [fst].
    destruct (forallb (fun p => Z.eqb (zlen (hget s1 (snd p))) (zlen (hget s1 r0))) (oitems (t0 :: T') (om_rows cm))); cbn [negb]; [|reflexivity].
    rewrite (gen_o_extend_matrix_eq (om_ns c0) (om_ns c0) (s1, rows) (om_rows cm) ND).
    unfold binary_blk, o_binary. cbn [om_ns om_rows]. rewrite E1. rewrite Z.eqb_refl. cbn [negb].
    pose proof (good2_extend_matrix (s_next s) [] s (s1, rows) (om_rows cm) G) as G1.
    destruct (o_extend_matrix_rows (s1, rows) (om_rows cm)) as [s2 rows2]. cbn [oset_rows om_ns om_label om_rows om_subs].
    cbv zeta.
    set (nl := match om_label cm with None => locus cidx | Some l => l end).
    replace (match om_label cm with None => locus cidx | Some v_some_ => v_some_ end) with nl by reflexivity.
    pose proof (o_while_free_name subs nl (free_name_fuel subs) nl 2) as W. cbv zeta in W.
    assert (EV : arg_vector_size (s2, rows2) cm = vector_size (deref s1 (om_rows cm))).
    { unfold arg_vector_size. cbn [fst]. f_equal. apply (deref_frame (s_next s) s); [apply G | apply G1 | exact AB]. }
    match goal with |- context [while_loop ?a ?b ?c ?d] => destruct (while_loop a b c d) as [[c' i'] [u|e|]] end.
    - rewrite W. rewrite EV. unfold py_range2.
      replace (Z.add pos (vector_size (deref s1 (om_rows cm))) - pos) with (vector_size (deref s1 (om_rows cm))) by lia.
      unfold subs_new, o_new_character_subset, oset_subs, oset_rows. cbn [om_subs om_ns om_label om_rows].
      destruct (has_key lower c' subs); [reflexivity|].
      cbn [om_rows om_subs]. split; [reflexivity|]. split; [reflexivity | exact G1].
    - contradiction.
    - rewrite W. reflexivity. }
  assert (G0 : good2 (s_next s) [] s (s, [])).
  { split; [|intros r _ _; reflexivity]. repeat split; simpl; try lia; try constructor; intros r []. }
  pose proof (concat_for_each (om_ns c0) (zlen (om_rows c0)) (s_next s) s BODY HB (c0 :: rest) 0 s [] [] 0 HF G0) as C.
  unfold cstate in *.
  destruct (o_concat_loop lower suffix locus (taxa_of (om_ns c0)) (om_ns c0) (zlen (om_rows c0)) (c0 :: rest) 0 s
              (mkOM (om_ns c0) None [] []) 0) as [[s' acc']|e|].
  - destruct C as [pos' [C EA]].
    match goal with |- context [@for_each ?A ?S ?l ?B ?st0] =>
      replace (@for_each A S l B st0) with (((s', om_rows acc'), om_subs acc', pos'), @Ok unit tt) by (symmetry; exact C) end.
    cbn [fst snd]. rewrite EA at 3. reflexivity.
  - match goal with |- context [@for_each ?A ?S ?l ?B ?st0] =>
      change (snd (@for_each A S l B st0) = Err e) in C; destruct (@for_each A S l B st0) as [[[a b] p] [u|e'|]] end;
      simpl in C; try discriminate. inversion C. reflexivity.
  - match goal with |- context [@for_each ?A ?S ?l ?B ?st0] =>
      change (snd (@for_each A S l B st0) = OutOfFuel) in C; destruct (@for_each A S l B st0) as [[[a b] p] [u|e'|]] end;
      simpl in C; try discriminate. reflexivity.
Qed.

End C.

(* the hypotheses are satisfiable, and the result on a concrete state: the new matrix holds NEW objects 12, 13
   (copies of the first argument's rows, then extended in place by the second argument's cells) *)
Example concat_hyp_sat :
  Forall (fun cm => NoDup (keys (om_rows cm)) /\ forall r, In r (ids (om_rows cm)) -> r < s_next (mkS [(11, [3; 4]); (10, [1; 2])] 12))
         [mkOM 0 (Some 5) [(1, 10); (2, 11)] []; mkOM 0 (Some 5) [(1, 10); (2, 11)] []].
Proof.
  repeat constructor; simpl; try (intuition discriminate); intros r [H|[H|[]]]; subst; reflexivity.
Qed.

Example concat_run :
  match gen_o_concatenate (fun l => l) (fun l i => l * 1000 + i) (fun i => 900 + i) (fun _ => [1; 2])
          (mkS [(11, [3; 4]); (10, [1; 2])] 12)
          [mkOM 0 (Some 5) [(1, 10); (2, 11)] []; mkOM 0 (Some 5) [(1, 10); (2, 11)] []] with
  | Ok (s', m') => om_rows m' = [(1, 12); (2, 13)] /\ hget s' 12 = [1; 2; 1; 2] /\ hget s' 13 = [3; 4; 3; 4]
                   /\ hget s' 10 = [1; 2] /\ om_subs m' = [(5, [0; 1]); (5002, [2; 3])]
  | _ => False
  end.
Proof. vm_compute. repeat split. Qed.
