(* C09, wave 9: separation is preserved by every route step (Model/C09Obj.v, cds_mode CopyValues), hence holds
   along every history of route steps from a separated world; whole-history frame and source round trip. *)
From Coq Require Import ZArith List Bool Lia Permutation.
From DV Require Import Model.PyPrims Model.C09AlphaTypes Model.C09Alphabets Model.C09Model Model.C09Spec Model.C09Nexus Model.C09Convert Model.C09Obj.
From DV Require Import Proofs.C09Text Proofs.C09Fasta Proofs.C09NexusProofs Proofs.C09ObjProofs.
Import ListNotations.
Open Scope Z_scope.

(* ---- lists ---- *)

Lemma nodup_app_intro : forall (a b : list rid),
  NoDup a -> NoDup b -> (forall x, In x a -> In x b -> False) -> NoDup (a ++ b).
Proof.
  induction a as [| y a IH]; intros b Ha Hb Hd; [exact Hb|].
  cbn. inversion Ha as [| ? ? Hn Ha']. subst. constructor.
  - intro H. apply in_app_or in H. destruct H as [H | H]; [exact (Hn H) | exact (Hd y (or_introl eq_refl) H)].
  - apply IH; [exact Ha' | exact Hb |]. intros x H1 H2. exact (Hd x (or_intror H1) H2).
Qed.

Lemma nodup_app_l : forall (a b : list rid), NoDup (a ++ b) -> NoDup a.
Proof.
  induction a as [| y a IH]; intros b H; [constructor|].
  cbn in H. inversion H as [| ? ? Hn H']. subst. constructor.
  - intro Hin. apply Hn. apply in_or_app. left. exact Hin.
  - exact (IH b H').
Qed.

Lemma nodup_nth : forall ms k mk, NoDup (concat (map ids ms)) -> nth_error ms k = Some mk -> NoDup (ids mk).
Proof.
  induction ms as [| m ms IH]; intros k mk ND H; destruct k; cbn in *; try discriminate.
  - inversion H. subst. exact (nodup_app_l _ _ ND).
  - exact (IH k mk (nodup_app_r _ _ ND) H).
Qed.

Lemma in_set_nth_ids : forall ms k rk r,
  In r (concat (map ids (set_nth k rk ms))) -> In r (ids rk) \/ In r (concat (map ids ms)).
Proof.
  induction ms as [| m ms IH]; intros k rk r H; destruct k; cbn in *; try (right; exact H).
  - apply in_app_or in H. destruct H as [H | H]; [left; exact H | right; apply in_or_app; right; exact H].
  - apply in_app_or in H. destruct H as [H | H]; [right; apply in_or_app; left; exact H|].
    destruct (IH k rk r H) as [H' | H']; [left; exact H' | right; apply in_or_app; right; exact H'].
Qed.

Lemma nodup_set_nth : forall ms k mk rk,
  NoDup (concat (map ids ms)) -> nth_error ms k = Some mk -> NoDup (ids rk) ->
  (forall r, In r (ids rk) -> In r (ids mk) \/ ~ In r (concat (map ids ms))) ->
  NoDup (concat (map ids (set_nth k rk ms))).
Proof.
  induction ms as [| m ms IH]; intros k mk rk ND Hk Hrk Hf; destruct k; cbn in *; try discriminate.
  - inversion Hk. subst m. apply nodup_app_intro; [exact Hrk | exact (nodup_app_r _ _ ND) |].
    intros x H1 H2. destruct (Hf x H1) as [H | H].
    + exact (nodup_app_disj _ _ x ND H H2).
    + apply H. apply in_or_app. right. exact H2.
  - apply nodup_app_intro; [exact (nodup_app_l _ _ ND) | |].
    + apply (IH k mk rk (nodup_app_r _ _ ND) Hk Hrk). intros r Hr. destruct (Hf r Hr) as [H | H]; [left; exact H|].
      right. intro H'. apply H. apply in_or_app. right. exact H'.
    + intros x H1 H2. apply in_set_nth_ids in H2. destruct H2 as [H2 | H2].
      * destruct (Hf x H2) as [H | H].
        -- exact (nodup_app_disj _ _ x ND H1 (in_all_ids ms k mk x Hk H)).
        -- apply H. apply in_or_app. left. exact H1.
      * exact (nodup_app_disj _ _ x ND H1 H2).
Qed.

(* ---- the receiver's own rows stay duplicate-free and allocated ---- *)

Lemma o_put_nodup : forall l r rs, NoDup (ids rs) -> ~ In r (ids rs) -> NoDup (ids (o_put l r rs)).
Proof.
  intros l r rs. induction rs as [| [k y] t IH]; intros ND Hn.
  - cbn. constructor; [intros [] | constructor].
  - cbn in ND, Hn. inversion ND as [| ? ? Hy ND']. subst. cbn [o_put]. destruct (text_eqb l k).
    + cbn. constructor; [| exact ND']. intro H. apply Hn. right. exact H.
    + change (ids ((k, y) :: o_put l r t)) with (y :: ids (o_put l r t)). constructor.
      * intro H. apply ids_o_put in H. destruct H as [E | H]; [apply Hn; left; exact E | exact (Hy H)].
      * apply IH; [exact ND' |]. intro H. apply Hn. right. exact H.
Qed.

Definition Own (st : store * orows) : Prop :=
  NoDup (ids (snd st)) /\ forall r, In r (ids (snd st)) -> r < s_next (fst st).

Lemma copy_in_own : forall st l ro, Own st -> Own (copy_in CopyValues st l ro).
Proof.
  intros [s rs] l ro [ND LT]. unfold copy_in, new_from, alloc. cbn [fst snd] in *. split; cbn [fst snd s_next].
  - apply o_put_nodup; [exact ND|]. intro H. specialize (LT _ H). lia.
  - intros r H. apply ids_o_put in H. destruct H as [E | H]; [lia | specialize (LT _ H); lia].
Qed.

Lemma extend_in_own : forall st rs ro, Own st -> Own (extend_in st rs ro).
Proof.
  intros [s rws] x ro [ND LT]. unfold extend_in, mutate. cbn [fst snd s_next] in *. split; assumption.
Qed.

Lemma bin_step_own : forall b st p, Own st -> Own (bin_step CopyValues b st p).
Proof.
  intros b st p H. unfold bin_step.
  destruct (o_get (fst p) (snd st)) as [rs |] eqn:E.
  - destruct b; try exact H; try (apply copy_in_own; exact H); apply extend_in_own; exact H.
  - destruct b as [| | | [|] |]; try exact H; apply copy_in_own; exact H.
Qed.

Lemma bin_rows_own : forall b o st, Own st -> Own (bin_rows CopyValues b st o).
Proof.
  intros b o. unfold bin_rows. induction o as [| p o IH]; intros st H; [exact H|].
  cbn. apply IH. apply bin_step_own. exact H.
Qed.

Lemma concat_rows_own : forall ms js st,
  Own st -> Own (fold_left (fun st j => bin_rows CopyValues BExtendMatrix st (nth j ms [])) js st).
Proof.
  intros ms js. induction js as [| j js IH]; intros st H; [exact H|].
  cbn. apply IH. apply bin_rows_own. exact H.
Qed.

Lemma export_rows_ids : forall idx rs s s' out,
  export_rows idx s rs = (s', out) ->
  NoDup (ids out) /\ forall r, In r (ids out) -> s_next s <= r < s_next s'.
Proof.
  intros idx rs. induction rs as [| [l r0] t IH]; intros s s' out H; cbn in H.
  - inversion H. subst. split; [constructor | intros r []].
  - destruct (export_rows idx (fst (alloc s (select_cols idx 0 (hget s r0)))) t) as [s2 o2] eqn:E.
    unfold alloc in H, E. cbn [fst] in E. cbn in H. rewrite E in H. inversion H. subst s' out.
    destruct (IH _ _ _ E) as [ND Hr]. destruct (export_rows_keeps _ _ _ _ _ E) as [Hn _].
    cbn [s_next] in Hr, Hn. change (ids ((l, s_next s) :: o2)) with (s_next s :: ids o2). split.
    + constructor; [| exact ND]. intro Hin. specialize (Hr _ Hin). lia.
    + intros r [Er | Hin]; [subst; lia | specialize (Hr _ Hin); lia].
Qed.

(* ---- one step ---- *)

Lemma sep_snoc : forall s s' ms acc,
  NoDup (concat (map ids ms)) -> (forall r, In r (concat (map ids ms)) -> r < s_next s) ->
  s_next s <= s_next s' -> NoDup (ids acc) -> (forall r, In r (ids acc) -> s_next s <= r < s_next s') ->
  sep (mkOW s' (ms ++ [acc])).
Proof.
  intros s s' ms acc ND LT Hn NDa Ha. unfold sep, all_ids. cbn [ow_ms ow_store].
  rewrite map_app, concat_app. cbn [map concat]. rewrite app_nil_r. split.
  - apply nodup_app_intro; [exact ND | exact NDa |]. intros x H1 H2. specialize (LT x H1). specialize (Ha x H2). lia.
  - intros r Hr. apply in_app_or in Hr. destruct Hr as [Hr | Hr]; [specialize (LT r Hr); lia | specialize (Ha r Hr); lia].
Qed.

Lemma o_step_sep : forall w o w', sep w -> o_step CopyValues w o = Ok w' -> sep w'.
Proof.
  intros [s ms] o w' [ND LT] Hs. unfold all_ids in ND, LT. cbn [ow_ms ow_store] in ND, LT.
  destruct o as [b k j | js | j idx]; cbn [o_step ow_store ow_ms] in Hs.
  - destruct (Nat.eqb k j); [discriminate|].
    destruct (nth_error ms k) as [mk |] eqn:Ek; [| discriminate].
    destruct (nth_error ms j) as [mj |]; [| discriminate].
    destruct (bin_rows CopyValues b (s, mk) mj) as [s' rk] eqn:Eb. inversion Hs. subst w'.
    assert (I : Inv s (ids mk) (bin_rows CopyValues b (s, mk) mj)).
    { apply bin_rows_inv. split; [| split]; cbn [fst snd]; [lia | reflexivity | intros r H; left; exact H]. }
    assert (O : Own (bin_rows CopyValues b (s, mk) mj)).
    { apply bin_rows_own. split; cbn [fst snd].
      - exact (nodup_nth ms k mk ND Ek).
      - intros r H. apply LT. exact (in_all_ids ms k mk r Ek H). }
    rewrite Eb in I, O. destruct I as (Hn & _ & Hi). destruct O as [ND' LT']. cbn [fst snd] in *.
    split; unfold all_ids; cbn [ow_ms ow_store].
    + apply (nodup_set_nth ms k mk rk ND Ek ND'). intros r Hr. destruct (Hi r Hr) as [H | H]; [left; exact H|].
      right. intro H'. specialize (LT r H'). lia.
    + intros r Hr. apply in_set_nth_ids in Hr. destruct Hr as [Hr | Hr]; [apply LT'; exact Hr | specialize (LT r Hr); lia].
  - destruct (forallb (fun j => Nat.ltb j (length ms)) js); [| discriminate].
    destruct (concat_rows CopyValues s ms js) as [s' acc] eqn:Ec. inversion Hs. subst w'.
    assert (I : Inv s [] (concat_rows CopyValues s ms js)).
    { unfold concat_rows. apply concat_rows_inv. split; [| split]; cbn [fst snd]; [lia | reflexivity | intros r []]. }
    assert (O : Own (concat_rows CopyValues s ms js)).
    { unfold concat_rows. apply concat_rows_own. split; cbn [fst snd]; [constructor | intros r []]. }
    rewrite Ec in I, O. destruct I as (Hn & _ & Hi). destruct O as [ND' LT']. cbn [fst snd] in *.
    apply (sep_snoc s s' ms acc ND LT Hn ND'). intros r Hr. split; [| apply LT'; exact Hr].
    destruct (Hi r Hr) as [[] | H]. exact H.
  - destruct (nth_error ms j) as [mj |]; [| discriminate].
    destruct (export_rows idx s mj) as [s' cr] eqn:Ee. inversion Hs. subst w'.
    destruct (export_rows_keeps idx mj s s' cr Ee) as [Hn _].
    destruct (export_rows_ids idx mj s s' cr Ee) as [ND' Hr].
    exact (sep_snoc s s' ms cr ND LT Hn ND' Hr).
Qed.

(* ---- histories ---- *)

Lemma o_run_sep : forall ops w w', sep w -> o_run CopyValues w ops = Ok w' -> sep w'.
Proof.
  induction ops as [| o ops IH]; intros w w' S H; cbn in H.
  - inversion H. subst. exact S.
  - destruct (o_step CopyValues w o) as [w1 | e |] eqn:E; try discriminate.
    exact (IH w1 w' (o_step_sep w o w1 S E) H).
Qed.

Lemma o_run_app : forall md pre post w wf,
  o_run md w (pre ++ post) = Ok wf -> exists w1, o_run md w pre = Ok w1 /\ o_run md w1 post = Ok wf.
Proof.
  intros md pre. induction pre as [| o pre IH]; intros post w wf H; cbn in *.
  - exists w. split; [reflexivity | exact H].
  - destruct (o_step md w o) as [w1 | e |]; try discriminate. exact (IH post w1 wf H).
Qed.

(* every step of a history runs in a separated world, leaves a separated world, and changes no matrix but its receiver *)
Lemma route_history_l : forall pre o post w wf,
  sep w -> o_run CopyValues w (pre ++ o :: post) = Ok wf ->
  exists w1 w2,
    o_run CopyValues w pre = Ok w1 /\ o_step CopyValues w1 o = Ok w2 /\ o_run CopyValues w2 post = Ok wf
    /\ sep w1 /\ sep w2 /\ sep wf
    /\ forall i mi, receiver o <> Some i -> nth_error (ow_ms w1) i = Some mi ->
         nth_error (ow_ms w2) i = Some mi /\ deref (ow_store w2) mi = deref (ow_store w1) mi.
Proof.
  intros pre o post w wf S H. destruct (o_run_app _ _ _ _ _ H) as (w1 & H1 & H2). cbn in H2.
  destruct (o_step CopyValues w1 o) as [w2 | e |] eqn:E; try discriminate.
  assert (S1 : sep w1) by exact (o_run_sep pre w w1 S H1).
  assert (S2 : sep w2) by exact (o_step_sep w1 o w2 S1 E).
  exists w1, w2. split; [exact H1|]. split; [exact E|]. split; [exact H2|]. split; [exact S1|].
  split; [exact S2|]. split; [exact (o_run_sep post w2 wf S2 H2)|].
  intros i mi Hr Hi. exact (o_step_frame w1 o w2 i mi S1 E Hr Hi).
Qed.

(* a matrix that is never a receiver keeps its rows and every value through the whole route *)
Lemma o_run_frame : forall ops w w' i mi,
  sep w -> o_run CopyValues w ops = Ok w' -> (forall o, In o ops -> receiver o <> Some i) ->
  nth_error (ow_ms w) i = Some mi ->
  nth_error (ow_ms w') i = Some mi /\ deref (ow_store w') mi = deref (ow_store w) mi.
Proof.
  induction ops as [| o ops IH]; intros w w' i mi S H Hr Hi; cbn in H.
  - inversion H. subst. split; [exact Hi | reflexivity].
  - destruct (o_step CopyValues w o) as [w1 | e |] eqn:E; try discriminate.
    destruct (o_step_frame w o w1 i mi S E (Hr o (or_introl eq_refl)) Hi) as [Hn Hd].
    destruct (IH w1 w' i mi (o_step_sep w o w1 S E) H (fun o' Ho => Hr o' (or_intror Ho)) Hn) as [Hn' Hd'].
    split; [exact Hn' | rewrite Hd'; exact Hd].
Qed.

Lemma source_roundtrip_after_route_l : forall (lower : text -> text) (a : alphabet) (wrap : bool) (width : Z)
    (ns : list text) w ops w' i mi,
  sep w -> o_run CopyValues w ops = Ok w' -> (forall o, In o ops -> receiver o <> Some i) ->
  nth_error (ow_ms w) i = Some mi ->
  forallb fasta_label_ok (map fst (iter_rows ns (deref (ow_store w) mi))) = true ->
  labels_distinct lower (map fst (iter_rows ns (deref (ow_store w) mi))) = true ->
  cells_ok a (iter_rows ns (deref (ow_store w) mi)) = true ->
  rows_nonempty (iter_rows ns (deref (ow_store w) mi)) = true ->
  exists mi', nth_error (ow_ms w') i = Some mi' /\
    read_fasta lower a (write_fasta a wrap width (iter_rows ns (deref (ow_store w') mi')))
    = Ok (iter_rows ns (deref (ow_store w) mi)).
Proof.
  intros lower a wrap width ns w ops w' i mi S Hs Hr Hi H1 H2 H3 H4.
  destruct (o_run_frame ops w w' i mi S Hs Hr Hi) as [Hn Hd].
  exists mi. split; [exact Hn|]. rewrite Hd. apply fasta_roundtrip_l; assumption.
Qed.

(* ---- every world delivered by from_dict / the readers is separated ---- *)

Lemma install_rows_ids : forall rm s s' out,
  install_rows s rm = (s', out) ->
  s_next s <= s_next s' /\ NoDup (ids out) /\ forall r, In r (ids out) -> s_next s <= r < s_next s'.
Proof.
  induction rm as [| [l c] t IH]; intros s s' out H; cbn in H.
  - inversion H. subst. split; [lia|]. split; [constructor | intros r []].
  - destruct (install_rows (fst (alloc s c)) t) as [s2 o2] eqn:E.
    unfold alloc in H, E. cbn [fst] in E. cbn in H. rewrite E in H. inversion H. subst s' out.
    destruct (IH _ _ _ E) as (Hn & ND & Hr). cbn [s_next] in Hr, Hn.
    change (ids ((l, s_next s) :: o2)) with (s_next s :: ids o2). split; [lia|]. split.
    + constructor; [| exact ND]. intro Hin. specialize (Hr _ Hin). lia.
    + intros r [Er | Hin]; [subst; lia | specialize (Hr _ Hin); lia].
Qed.

Lemma install_all_ids : forall ms s s' os,
  install_all s ms = (s', os) ->
  s_next s <= s_next s' /\ NoDup (concat (map ids os))
  /\ forall r, In r (concat (map ids os)) -> s_next s <= r < s_next s'.
Proof.
  induction ms as [| m t IH]; intros s s' os H; cbn in H.
  - inversion H. subst. split; [lia|]. split; [constructor | intros r []].
  - destruct (install_rows s m) as [s1 rs] eqn:E1. destruct (install_all s1 t) as [s2 o2] eqn:E2.
    inversion H. subst s' os.
    destruct (install_rows_ids _ _ _ _ E1) as (Hn1 & ND1 & Hr1). destruct (IH _ _ _ E2) as (Hn2 & ND2 & Hr2).
    cbn [map concat]. split; [lia|]. split.
    + apply nodup_app_intro; [exact ND1 | exact ND2 |]. intros x H1 H2. specialize (Hr1 _ H1). specialize (Hr2 _ H2). lia.
    + intros r Hr. apply in_app_or in Hr. destruct Hr as [Hr | Hr]; [specialize (Hr1 _ Hr); lia | specialize (Hr2 _ Hr); lia].
Qed.

Lemma o_init_sep : forall ms, sep (o_init ms).
Proof.
  intro ms. unfold o_init. destruct (install_all (mkS [] 0) ms) as [s os] eqn:E.
  destruct (install_all_ids _ _ _ _ E) as (_ & ND & Hr). split; unfold all_ids; cbn [ow_ms ow_store].
  - exact ND.
  - intros r H. exact (proj2 (Hr r H)).
Qed.

(* ---- the boolean the correspondence compares (sepb) decides sep ---- *)

Fixpoint nodupb (l : list rid) : bool :=
  match l with [] => true | x :: r => negb (existsb (Z.eqb x) r) && nodupb r end.

Lemma existsb_eqb_in : forall x (l : list rid), existsb (Z.eqb x) l = true <-> In x l.
Proof.
  intros x l. rewrite existsb_exists. split.
  - intros (y & Hy & E). apply Z.eqb_eq in E. subst. exact Hy.
  - intro H. exists x. split; [exact H | apply Z.eqb_refl].
Qed.

Lemma nodupb_spec : forall l, nodupb l = true <-> NoDup l.
Proof.
  induction l as [| x r IH]; cbn [nodupb].
  - split; [constructor | reflexivity].
  - rewrite andb_true_iff, negb_true_iff, IH. split.
    + intros [Hn ND]. constructor; [| exact ND]. intro Hin. apply existsb_eqb_in in Hin. congruence.
    + intro ND. inversion ND as [| ? ? Hn ND']. subst. split; [| exact ND'].
      destruct (existsb (Z.eqb x) r) eqn:E; [| reflexivity]. apply existsb_eqb_in in E. contradiction.
Qed.

Lemma sepb_spec : forall w, sepb w = true <-> sep w.
Proof.
  intro w. change (sepb w) with (nodupb (all_ids w) && forallb (fun r => r <? s_next (ow_store w)) (all_ids w)).
  unfold sep. rewrite andb_true_iff, nodupb_spec, forallb_forall. split.
  - intros [ND H]. split; [exact ND|]. intros r Hr. apply Z.ltb_lt. exact (H r Hr).
  - intros [ND H]. split; [exact ND|]. intros r Hr. apply Z.ltb_lt. exact (H r Hr).
Qed.

(* hence: whatever the matrices a route starts from and whatever its steps, the harness flag is `not shared` *)
Lemma route_from_init_sepb : forall ms ops w', o_run CopyValues (o_init ms) ops = Ok w' -> sepb w' = true.
Proof.
  intros ms ops w' H. apply sepb_spec. exact (o_run_sep ops (o_init ms) w' (o_init_sep ms) H).
Qed.

(* satisfiable: a five-step route over three matrices (update, extend, concatenate, export, replace) runs *)
Definition ex_ms3 : list rowmap :=
  [[([97], [0; 1]); ([98], [2; 3])]; [([98], [1]); ([97], [0])]; [([99], [3; 3])]].
Definition ex_route : list oop :=
  [OBin BUpdate 0%nat 2%nat; OBin (BExtend true) 1%nat 0%nat; OConcat [0%nat; 1%nat; 0%nat];
   OExport 3%nat [0]; OBin BReplace 2%nat 4%nat].

Lemma ex_route_runs :
  exists w', o_run CopyValues (o_init ex_ms3) ex_route = Ok w'
             /\ length (ow_ms w') = 5%nat
             /\ nth 0 (contents w') [] = [([97], [0; 1]); ([98], [2; 3]); ([99], [3; 3])]
             /\ nth 1 (contents w') [] = [([98], [1; 2; 3]); ([97], [0; 0; 1]); ([99], [3; 3])]
             /\ nth 2 (contents w') [] = [([99], [3])]
             /\ nth 3 (contents w') [] = [([97], [0; 1; 0; 0; 1; 0; 1]); ([98], [2; 3; 1; 2; 3; 2; 3]); ([99], [3; 3; 3; 3; 3; 3])].
Proof. eexists. split; [vm_compute; reflexivity|]. repeat split; vm_compute; reflexivity. Qed.

(* preservation is false if CharacterDataSequence(other) takes other's list itself *)
Lemma sep_preservation_refuted_shared_l :
  exists w', sep (o_init ex_ms) /\ o_step ShareValues (o_init ex_ms) (OConcat [0%nat; 1%nat]) = Ok w' /\ ~ sep w'.
Proof.
  eexists. split; [exact (o_init_sep ex_ms)|]. split; [vm_compute; reflexivity|].
  intro S. apply sepb_spec in S. vm_compute in S. discriminate.
Qed.
