(* C04: second group of theorems in the form quoted by Props/C04.v *)
From Coq Require Import ZArith List Bool Lia Permutation Relations.
From DV Require Import Model.PyPrims Model.Tree Model.C04Model Model.C04Spec Gen.BitFns
  Proofs.C04Lists Proofs.C04Loops Proofs.C04Bits Proofs.C04Core Proofs.C04Sets Proofs.C04NoDup Proofs.C04Seed.
Import ListNotations.
Open Scope Z_scope.

Lemma proper_distinct acc s : proper acc s = true -> distinct_taxa acc (fst s) = true.
Proof. unfold proper. rewrite andb_true_iff. tauto. Qed.

Lemma G_collision_domain mg acc s :
  distinct_taxa acc (fst s) = true -> (NoDup (splits mg acc s) <-> collides mg s = false).
Proof. apply nodup_splits_iff. Qed.

Lemma G_not_colliding mg t r :
  unifurcation_free t = true -> (3 <= n_leaves t)%nat -> collides mg (t, r) = false.
Proof. apply not_colliding. Qed.

Lemma G_child_order_invariant acc r t t' :
  redraw t t' -> proper acc (t, r) = true -> collides true (t, r) = false ->
  forall p s2, well_formed acc s2 = true ->
    fpfn true acc (t, r) s2 = fpfn true acc (t', r) s2 /\ fpfn true acc s2 (t, r) = fpfn true acc s2 (t', r) /\
    rf true acc (t, r) s2 = rf true acc (t', r) s2 /\ rf true acc s2 (t, r) = rf true acc s2 (t', r) /\
    wrf true p acc (t, r) s2 = wrf true p acc (t', r) s2 /\ wrf true p acc s2 (t, r) = wrf true p acc s2 (t', r) /\
    euclid_sq true p acc (t, r) s2 = euclid_sq true p acc (t', r) s2 /\
    euclid_sq true p acc s2 (t, r) = euclid_sq true p acc s2 (t', r).
Proof.
  intros H P C p s2 W2. pose proof (proper_distinct acc _ P) as D. cbn [fst] in D.
  apply (child_order_invariant_gen true acc r t t' H (proper_well_formed acc _ P)
           (seed_ok_of_distinct true acc t r eq_refl D) (proj2 (nodup_splits_iff true acc (t, r) D) C) p s2).
  apply well_formed_wf, W2.
Qed.

Lemma G_zero_on_redrawing p acc r t t' :
  redraw t t' -> proper acc (t, r) = true -> collides true (t, r) = false ->
  rf true acc (t, r) (t', r) = Ok 0 /\
  fpfn true acc (t, r) (t', r) = Ok (0, 0) /\
  (forall v, wrf true p acc (t, r) (t', r) = Ok v -> v = 0) /\
  (forall v, euclid_sq true p acc (t, r) (t', r) = Ok v -> v = 0).
Proof.
  intros H P C. pose proof (proper_distinct acc _ P) as D. cbn [fst] in D.
  apply (zero_on_redrawing_gen true p acc r t t' H (proper_well_formed acc _ P)
           (seed_ok_of_distinct true acc t r eq_refl D) (proj2 (nodup_splits_iff true acc (t, r) D) C)).
Qed.

(* the norm characterisations with the collision hypothesis replaced by the domain conditions *)
Lemma G_wrf_is_L1 mg p acc s1 s2 v U :
  proper acc s1 = true -> proper acc s2 = true -> collides mg s1 = false -> collides mg s2 = false ->
  wrf mg p acc s1 s2 = Ok v ->
  NoDup U -> incl (splits mg acc s1) U -> incl (splits mg acc s2) U ->
  v = fold_right Z.add 0 (map (fun m => Z.abs (split_len mg acc s1 m - split_len mg acc s2 m)) U).
Proof.
  intros P1 P2 C1 C2. apply F_wrf_is_L1; try (apply proper_well_formed; assumption).
  - apply (nodup_splits_iff mg acc s1 (proper_distinct acc _ P1)), C1.
  - apply (nodup_splits_iff mg acc s2 (proper_distinct acc _ P2)), C2.
Qed.

Lemma G_euclid_is_L2 mg p acc s1 s2 v U :
  proper acc s1 = true -> proper acc s2 = true -> collides mg s1 = false -> collides mg s2 = false ->
  euclid_sq mg p acc s1 s2 = Ok v ->
  NoDup U -> incl (splits mg acc s1) U -> incl (splits mg acc s2) U ->
  v = fold_right Z.add 0
        (map (fun m => (split_len mg acc s1 m - split_len mg acc s2 m) * (split_len mg acc s1 m - split_len mg acc s2 m)) U).
Proof.
  intros P1 P2 C1 C2. apply F_euclid_is_L2; try (apply proper_well_formed; assumption).
  - apply (nodup_splits_iff mg acc s1 (proper_distinct acc _ P1)), C1.
  - apply (nodup_splits_iff mg acc s2 (proper_distinct acc _ P2)), C2.
Qed.

Lemma G_split_length_map_invariant acc t r path s' :
  proper acc (t, r) = true -> r <> Some true -> ((2 <= length (t_kids t))%nat \/ path = []) ->
  reseed true (t, r) path = Some s' ->
  collides true (t, r) = false -> collides true s' = false ->
  NoDup (splits true acc (t, r)) /\ NoDup (splits true acc s') /\
  (forall m, In m (splits true acc s') <-> In m (splits true acc (t, r))) /\
  (forall m, split_len true acc s' m = split_len true acc (t, r) m).
Proof. apply split_length_map_invariant_l. Qed.

Lemma G_seed_move_invariant acc t r path s' :
  proper acc (t, r) = true -> r <> Some true -> ((2 <= length (t_kids t))%nat \/ path = []) ->
  reseed true (t, r) path = Some s' ->
  collides true (t, r) = false -> collides true s' = false ->
  proper acc s' = true /\
  (forall s2, well_formed acc s2 = true ->
    fpfn true acc (t, r) s2 = fpfn true acc s' s2 /\ fpfn true acc s2 (t, r) = fpfn true acc s2 s' /\
    rf true acc (t, r) s2 = rf true acc s' s2 /\ rf true acc s2 (t, r) = rf true acc s2 s' /\
    wrf true ZeroBoth acc (t, r) s2 = wrf true ZeroBoth acc s' s2 /\ wrf true ZeroBoth acc s2 (t, r) = wrf true ZeroBoth acc s2 s' /\
    euclid_sq true ZeroBoth acc (t, r) s2 = euclid_sq true ZeroBoth acc s' s2 /\
    euclid_sq true ZeroBoth acc s2 (t, r) = euclid_sq true ZeroBoth acc s2 s') /\
  rf true acc (t, r) s' = Ok 0 /\ fpfn true acc (t, r) s' = Ok (0, 0) /\
  wrf true ZeroBoth acc (t, r) s' = Ok 0 /\ euclid_sq true ZeroBoth acc (t, r) s' = Ok 0.
Proof.
  intros P Hr L R C C'.
  assert (Hr' : is_true r = false) by (destruct r as [[|]|]; try reflexivity; congruence).
  split; [apply (proper_reseed acc t r path s' P Hr' L R)|].
  apply (seed_move_invariant_l acc t r path s' P Hr L R C C').
Qed.

(* when is the re-seeded tree outside the finding's domain: whenever its seed does not have exactly two
   children (reseed_at leaves no unifurcation behind) *)
Lemma G_reseeded_not_colliding mg s path s' :
  reseed mg s path = Some s' -> nkids (fst s') <> 2%nat -> collides mg s' = false.
Proof.
  intros R H. unfold reseed in R. destruct (rotate (fst s) path) as [t'|]; [|discriminate]. inversion R; subst s'.
  destruct (normalise mg (t', snd s)) as [N r'] eqn:E. cbn [fst] in H.
  apply uf_not_colliding; [|exact H].
  pose proof (normalise_keeps mg [] (t', snd s)) as [_ [_ [U _]]]. rewrite E in U. exact U.
Qed.
