(* C09: the hypotheses of the round-trip theorems are satisfiable by concrete non-trivial
   matrices (no theorem is vacuous), and the reader's error branches are real. *)
From Coq Require Import ZArith List Bool.
From DV Require Import Model.PyPrims Model.C09AlphaTypes Model.C09Alphabets Model.C09Model Model.C09Spec
  Model.C09Nexus Model.C09Convert.
Import ListNotations.
Open Scope Z_scope.

Definition ascii_low (t : text) : text := map ascii_lower t.

(* "Homo sapiens" / "t2" / "x.y" over all 17 DNA states, 3 x 17 *)
Definition ex_m : matrix :=
  [([72;111;109;111;32;115;97;112;105;101;110;115], [0;1;2;3;4;5;6;7;8;9;10;11;12;13;14;15;16]);
   ([116;50], [16;15;14;13;12;11;10;9;8;7;6;5;4;3;2;1;0]);
   ([120;46;121], [0;0;4;4;5;5;6;6;1;2;3;9;9;9;9;9;9])].

(* labels without blanks, for the variants that need it *)
Definition ex_m2 : matrix :=
  [([72;111;109;111], [0;1;2;3]); ([116;50], [3;2;1;0]); ([120;46;121;122;49;50;51;52;53;54], [5;4;6;16])].

Example ex_fasta_hyps :
  forallb fasta_label_ok (map fst ex_m) = true /\ labels_distinct ascii_low (map fst ex_m) = true
  /\ cells_ok alpha_dna ex_m = true /\ rows_nonempty ex_m = true.
Proof. vm_compute. repeat split. Qed.

Example ex_fasta_run : read_fasta ascii_low alpha_dna (write_fasta alpha_dna true 5 ex_m) = Ok ex_m.
Proof. vm_compute. reflexivity. Qed.

(* relaxed writer, two-blank delimiter: a label with one inner space is admissible *)
Example ex_phylip_relaxed_hyps :
  forallb (phylip_label_ok (mkPW false false) (mkPR false true true false)) (map fst ex_m) = true
  /\ rectangular 17 ex_m = true.
Proof. vm_compute. split; reflexivity. Qed.

(* ... but not with the one-blank delimiter: the predicate is not trivially true *)
Example ex_phylip_single_blank_rejects :
  forallb (phylip_label_ok (mkPW false false) (mkPR false false false false)) (map fst ex_m) = false
  /\ (do t <- write_phylip (symbols_as_string alpha_dna) (mkPW false false) ex_m ;;
      read_phylip ascii_low Z (phylip_states alpha_dna) (mkPR false false false false) t) = Err ParseErr.
Proof. vm_compute. split; reflexivity. Qed.

(* strict, interleaved, with the underscore conversions on both sides; one label is 10 long *)
Example ex_phylip_strict_hyps :
  forallb (phylip_label_ok (mkPW true true) (mkPR true true false true)) (map fst ex_m2) = true
  /\ rectangular 4 ex_m2 = true /\ cells_ok alpha_dna ex_m2 = true.
Proof. vm_compute. repeat split. Qed.

Example ex_phylip_strict_run :
  (do t <- write_phylip (symbols_as_string alpha_dna) (mkPW true true) ex_m2 ;;
   read_phylip ascii_low Z (phylip_states alpha_dna) (mkPR true true false true) t) = Ok ex_m2.
Proof. vm_compute. reflexivity. Qed.

(* an 11-character label is not admissible for the strict variant, and indeed does not survive *)
Definition ex_long : matrix := [([97;98;99;100;101;102;103;104;105;106;107], [0;1]); ([98], [1;0])].
Example ex_phylip_strict_long_label :
  forallb (phylip_label_ok (mkPW true false) (mkPR true false false false)) (map fst ex_long) = false
  /\ (do t <- write_phylip (symbols_as_string alpha_dna) (mkPW true false) ex_long ;;
      read_phylip ascii_low Z (phylip_states alpha_dna) (mkPR true false false false) t)
     = Ok [([97;98;99;100;101;102;103;104;105;106], [0;1]); ([98], [1;0])].
Proof. vm_compute. split; reflexivity. Qed.

Example ex_nexus_hyps :
  fixed_dtype DtDna = true /\ forallb label_token_ok (map fst ex_m) = true
  /\ cells_ok (alphabet_of_dtype DtDna) ex_m = true /\ rectangular 17 ex_m = true.
Proof. vm_compute. repeat split. Qed.

Example ex_admissible_all :
  admissible ascii_low DtDna 4 (FFasta true 70) ex_m2 = true
  /\ admissible ascii_low DtDna 4 (FPhylip (mkPW true false) (mkPR true true false false)) ex_m2 = true
  /\ admissible ascii_low DtDna 4 (FPhylip (mkPW false false) (mkPR false false false false)) ex_m2 = true
  /\ admissible ascii_low DtDna 4 (FNexus false) ex_m2 = true
  /\ admissible ascii_low DtProtein 17 (FNexus true) ex_m = true.
Proof. vm_compute. repeat split. Qed.

Example ex_convert_run :
  (do m1 <- through ascii_low DtDna (FNexus false) ex_m2 ;;
   through ascii_low DtDna (FPhylip (mkPW true false) (mkPR true true false false)) m1) = Ok ex_m2.
Proof. vm_compute. reflexivity. Qed.

(* two labels equal up to case are refused by the readers (the hypothesis `labels_distinct` is needed) *)
Definition ex_case : matrix := [([65], [0]); ([97], [1])].
Example ex_case_variants_rejected :
  labels_distinct ascii_low (map fst ex_case) = false
  /\ read_fasta ascii_low alpha_dna (write_fasta alpha_dna true 70 ex_case) = Err ParseErr.
Proof. vm_compute. split; reflexivity. Qed.

(* a 2 x 12 standard matrix over all twelve states (0-9, gap, missing), symbols listed in another order *)
Definition ex_std : matrix := [([97], [0;1;2;3;4;5;6;7;8;9;10;11]); ([98;32;99], [11;10;9;8;7;6;5;4;3;2;1;0])].
Definition ex_order : list text := [[45];[57];[56];[55];[54];[53];[52];[51];[50];[49];[48]].
Example ex_standard_hyps :
  std_dtype DtStandard = true /\ std_alphabet_ok alpha_standard = true
  /\ same_set ex_order (fundamental_symbols [alpha_standard]) = true /\ texts_distinct ex_order = true
  /\ forallb (fun r => forallb (valid_cell alpha_standard) (snd r)) ex_std = true /\ rectangular 12 ex_std = true.
Proof. vm_compute. repeat split. Qed.
